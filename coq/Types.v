(* State, records and operations of the x/fundraising model. *)
From Coq Require Import ZArith NArith List Bool.
From FR Require Import Dec.
Import ListNotations.
Open Scope Z_scope.

Inductive role := Selling | Paying | Vesting.
Inductive addr := User (u : N) | Escrow (r : role) (a : N) | Pool.

Definition role_eqb (x y : role) : bool :=
  match x, y with Selling, Selling | Paying, Paying | Vesting, Vesting => true | _, _ => false end.
Definition addr_eqb (x y : addr) : bool :=
  match x, y with
  | User a, User b => N.eqb a b
  | Escrow r a, Escrow q b => role_eqb r q && N.eqb a b
  | Pool, Pool => true
  | _, _ => false
  end.

Inductive status := StandBy | Started | VestingS | Finished | Cancelled.
Definition status_eqb (x y : status) : bool :=
  match x, y with
  | StandBy, StandBy | Started, Started | VestingS, VestingS | Finished, Finished | Cancelled, Cancelled => true
  | _, _ => false end.
Inductive atype := FixedPrice | Batch.
Definition atype_eqb (x y : atype) : bool :=
  match x, y with FixedPrice, FixedPrice | Batch, Batch => true | _, _ => false end.
Inductive btype := BFixed | BWorth | BMany.
Definition btype_eqb (x y : btype) : bool :=
  match x, y with BFixed, BFixed | BWorth, BWorth | BMany, BMany => true | _, _ => false end.

Record sched := { s_time : Z; s_weight : Z }.

Record auction := {
  a_id : N; a_type : atype;
  a_auctioneer : N; a_upper : bool;       (* account and spelling of the stored auctioneer string *)
  a_start_price : Z; a_sell_denom : N; a_sell_amt : Z; a_pay_denom : N;
  a_scheds : list sched; a_start : Z; a_ends : list Z; a_status : status;
  a_remaining : Z;                        (* FixedPriceAuction.RemainingSellingCoin; 0 for batch *)
  a_min_price : Z; a_matched_price : Z; a_max_round : N; a_rate : Z  (* BatchAuction fields; 0 for fixed *)
}.

Record bid := {
  b_auction : N; b_id : N; b_bidder : N; b_type : btype;
  b_price : Z; b_denom : N; b_amt : Z; b_matched : bool }.

Record allowed := { al_auction : N; al_bidder : N; al_max : Z }.

Record vq := { v_auction : N; v_time : Z; v_auctioneer : N; v_denom : N; v_amt : Z; v_released : bool }.

Definition coins := list (N * Z).
Record params := { p_cfee : coins; p_bfee : coins; p_period : Z }.

Record xfer := { x_from : addr; x_to : addr; x_denom : N; x_amt : Z }.
Record hookcall := { h_listener : N; h_kind : N; h_args : list Z }.

Record state := {
  st_params : params;
  st_auctions : list auction;     (* id ascending *)
  st_bids : list bid;             (* insertion order; per auction id ascending *)
  st_allowed : list allowed;      (* at most one entry per (auction, bidder) *)
  st_vqs : list vq;               (* per auction: release time ascending *)
  st_aseq : N;
  st_bseq : N -> N;
  st_mlen : N -> Z;
  st_bal : addr -> N -> Z;
  st_now : Z;                     (* time of the current block *)
  st_listeners : list (list N);   (* registered hook listeners: the hook kinds each one vetoes *)
  st_switch : bool;               (* keeper.EnableAddAllowedBidder of the running binary *)
  st_xfers : list xfer;           (* ghost: every bank transfer issued so far, in order *)
  st_trace : list hookcall        (* ghost: every hook call made so far, in order *)
}.

(* ---- messages as they arrive (possibly malformed) ---- *)
Inductive addr_str := AGood (upper : bool) (u : N) | ABad.
Record mcoin := { mc_denom : option N; mc_amt : option Z }.      (* None: invalid denom / nil amount *)
Record msched := { ms_time : Z; ms_weight : option Z }.
Inductive auth_str := AuthGov | AuthOther (s : addr_str).

Inductive msg :=
| MCreateFixed (who : addr_str) (price : option Z) (sell : mcoin) (pay : option N)
               (vs : list msched) (start end_ : Z)
| MCreateBatch (who : addr_str) (price minp : option Z) (sell : mcoin) (pay : option N)
               (vs : list msched) (maxr : N) (rate : option Z) (start end_ : Z)
| MCancel (who : addr_str) (a : N)
| MPlaceBid (who : addr_str) (a : N) (bt : N) (price : option Z) (coin : mcoin)
| MModifyBid (who : addr_str) (a : N) (b : N) (price : option Z) (coin : mcoin)
| MAddAllowed (a : N) (ea : N) (who : addr_str) (max : option Z)
| MUpdateParams (auth : auth_str) (cfee bfee : list mcoin) (period : Z).

Inductive query :=
| QGetAuction (a : N) | QListAuction (st : option status) (ty : option atype)
| QGetBid (a b : N) | QListBid (a : N) (bidder : option N) (matched : option bool)
| QGetAllowed (a : N) (bidder : N) | QListAllowed (a : N)
| QListVesting (a : N) | QParams.

Inductive op :=
| OTx (m : msg)
| OApiAdd (a : N) (l : list (N * addr_str * option Z))
| OApiUpdate (a : N) (bidder : N) (max : option Z)
| OBlock (t : Z) (orc : list (N * list N))     (* sweep order (bid ids) of each batch auction due at t *)
| OFaultBlock (t : Z) (orc : list (N * list N)) (k : nat)   (* the k-th bank transfer of the block fails *)
| OSend (from : N) (to : addr) (d : N) (amt : Z)
| OSetListeners (ls : list (list N))
| OGenesis.

(* ---- results ---- *)
Inductive res (A : Type) := Ok (a : A) | Err (code : N) (tr : list hookcall).
Arguments Ok {A} a. Arguments Err {A} code tr.
Definition bind {A B} (r : res A) (f : A -> res B) : res B :=
  match r with Ok a => f a | Err c t => Err c t end.
Notation "'do' x <- r ; f" := (bind r (fun x => f)) (at level 200, x pattern, r at level 100, f at level 200).

(* error codes (for diagnostics only; the correspondence compares accept/reject) *)
Definition E_BASIC : N := 1.      (* ValidateBasic *)
Definition E_NOTFOUND : N := 2.
Definition E_STATUS : N := 3.
Definition E_MINPRICE : N := 4.
Definition E_NOTALLOWED : N := 5.
Definition E_FUNDS : N := 6.
Definition E_TYPE : N := 7.
Definition E_DENOM : N := 8.
Definition E_PRICE : N := 9.
Definition E_REMAINING : N := 10.
Definition E_OVERMAX : N := 11.
Definition E_UNAUTH : N := 12.
Definition E_INVALID : N := 13.
Definition E_HOOK : N := 14.
Definition E_DISABLED : N := 15.
Definition E_EMPTY : N := 16.
Definition E_PANIC : N := 17.
Definition E_ORACLE : N := 18.
Definition E_FAULT : N := 19.

(* ---- small helpers on the collections ---- *)
Definition upd {V} (f : N -> V) (k : N) (v : V) : N -> V := fun x => if N.eqb x k then v else f x.

Definition find_auction (s : state) (a : N) : option auction :=
  find (fun x => N.eqb (a_id x) a) (st_auctions s).
Definition bids_of (s : state) (a : N) : list bid :=
  filter (fun b => N.eqb (b_auction b) a) (st_bids s).
Definition find_bid (s : state) (a i : N) : option bid :=
  find (fun b => N.eqb (b_auction b) a && N.eqb (b_id b) i) (st_bids s).
Definition allowed_of (s : state) (a : N) : list allowed :=
  filter (fun x => N.eqb (al_auction x) a) (st_allowed s).
Definition find_allowed (s : state) (a u : N) : option allowed :=
  find (fun x => N.eqb (al_auction x) a && N.eqb (al_bidder x) u) (st_allowed s).
Definition vqs_of (s : state) (a : N) : list vq :=
  filter (fun x => N.eqb (v_auction x) a) (st_vqs s).

Definition last_end (a : auction) : Z := last (a_ends a) 0.
Definition first_end (a : auction) : Z := hd 0 (a_ends a).

(* record updates *)
Definition set_status (a : auction) (x : status) : auction :=
  {| a_id := a_id a; a_type := a_type a; a_auctioneer := a_auctioneer a; a_upper := a_upper a;
     a_start_price := a_start_price a; a_sell_denom := a_sell_denom a; a_sell_amt := a_sell_amt a;
     a_pay_denom := a_pay_denom a; a_scheds := a_scheds a; a_start := a_start a; a_ends := a_ends a;
     a_status := x; a_remaining := a_remaining a; a_min_price := a_min_price a;
     a_matched_price := a_matched_price a; a_max_round := a_max_round a; a_rate := a_rate a |}.
Definition set_remaining (a : auction) (x : Z) : auction :=
  {| a_id := a_id a; a_type := a_type a; a_auctioneer := a_auctioneer a; a_upper := a_upper a;
     a_start_price := a_start_price a; a_sell_denom := a_sell_denom a; a_sell_amt := a_sell_amt a;
     a_pay_denom := a_pay_denom a; a_scheds := a_scheds a; a_start := a_start a; a_ends := a_ends a;
     a_status := a_status a; a_remaining := x; a_min_price := a_min_price a;
     a_matched_price := a_matched_price a; a_max_round := a_max_round a; a_rate := a_rate a |}.
Definition set_ends (a : auction) (x : list Z) : auction :=
  {| a_id := a_id a; a_type := a_type a; a_auctioneer := a_auctioneer a; a_upper := a_upper a;
     a_start_price := a_start_price a; a_sell_denom := a_sell_denom a; a_sell_amt := a_sell_amt a;
     a_pay_denom := a_pay_denom a; a_scheds := a_scheds a; a_start := a_start a; a_ends := x;
     a_status := a_status a; a_remaining := a_remaining a; a_min_price := a_min_price a;
     a_matched_price := a_matched_price a; a_max_round := a_max_round a; a_rate := a_rate a |}.
Definition set_matched_price (a : auction) (x : Z) : auction :=
  {| a_id := a_id a; a_type := a_type a; a_auctioneer := a_auctioneer a; a_upper := a_upper a;
     a_start_price := a_start_price a; a_sell_denom := a_sell_denom a; a_sell_amt := a_sell_amt a;
     a_pay_denom := a_pay_denom a; a_scheds := a_scheds a; a_start := a_start a; a_ends := a_ends a;
     a_status := a_status a; a_remaining := a_remaining a; a_min_price := a_min_price a;
     a_matched_price := x; a_max_round := a_max_round a; a_rate := a_rate a |}.

Definition set_b_matched (b : bid) (x : bool) : bid :=
  {| b_auction := b_auction b; b_id := b_id b; b_bidder := b_bidder b; b_type := b_type b;
     b_price := b_price b; b_denom := b_denom b; b_amt := b_amt b; b_matched := x |}.
Definition set_b_terms (b : bid) (price amt : Z) : bid :=
  {| b_auction := b_auction b; b_id := b_id b; b_bidder := b_bidder b; b_type := b_type b;
     b_price := price; b_denom := b_denom b; b_amt := amt; b_matched := b_matched b |}.
Definition set_v_released (v : vq) (x : bool) : vq :=
  {| v_auction := v_auction v; v_time := v_time v; v_auctioneer := v_auctioneer v;
     v_denom := v_denom v; v_amt := v_amt v; v_released := x |}.

(* state updates: one function per field that changes *)
Definition with_auctions (s : state) (x : list auction) : state :=
  {| st_params := st_params s; st_auctions := x; st_bids := st_bids s; st_allowed := st_allowed s;
     st_vqs := st_vqs s; st_aseq := st_aseq s; st_bseq := st_bseq s; st_mlen := st_mlen s;
     st_bal := st_bal s; st_now := st_now s; st_listeners := st_listeners s; st_switch := st_switch s;
     st_xfers := st_xfers s; st_trace := st_trace s |}.
Definition with_bids (s : state) (x : list bid) : state :=
  {| st_params := st_params s; st_auctions := st_auctions s; st_bids := x; st_allowed := st_allowed s;
     st_vqs := st_vqs s; st_aseq := st_aseq s; st_bseq := st_bseq s; st_mlen := st_mlen s;
     st_bal := st_bal s; st_now := st_now s; st_listeners := st_listeners s; st_switch := st_switch s;
     st_xfers := st_xfers s; st_trace := st_trace s |}.
Definition with_allowed (s : state) (x : list allowed) : state :=
  {| st_params := st_params s; st_auctions := st_auctions s; st_bids := st_bids s; st_allowed := x;
     st_vqs := st_vqs s; st_aseq := st_aseq s; st_bseq := st_bseq s; st_mlen := st_mlen s;
     st_bal := st_bal s; st_now := st_now s; st_listeners := st_listeners s; st_switch := st_switch s;
     st_xfers := st_xfers s; st_trace := st_trace s |}.
Definition with_vqs (s : state) (x : list vq) : state :=
  {| st_params := st_params s; st_auctions := st_auctions s; st_bids := st_bids s; st_allowed := st_allowed s;
     st_vqs := x; st_aseq := st_aseq s; st_bseq := st_bseq s; st_mlen := st_mlen s;
     st_bal := st_bal s; st_now := st_now s; st_listeners := st_listeners s; st_switch := st_switch s;
     st_xfers := st_xfers s; st_trace := st_trace s |}.
Definition with_aseq (s : state) (x : N) : state :=
  {| st_params := st_params s; st_auctions := st_auctions s; st_bids := st_bids s; st_allowed := st_allowed s;
     st_vqs := st_vqs s; st_aseq := x; st_bseq := st_bseq s; st_mlen := st_mlen s;
     st_bal := st_bal s; st_now := st_now s; st_listeners := st_listeners s; st_switch := st_switch s;
     st_xfers := st_xfers s; st_trace := st_trace s |}.
Definition with_bseq (s : state) (x : N -> N) : state :=
  {| st_params := st_params s; st_auctions := st_auctions s; st_bids := st_bids s; st_allowed := st_allowed s;
     st_vqs := st_vqs s; st_aseq := st_aseq s; st_bseq := x; st_mlen := st_mlen s;
     st_bal := st_bal s; st_now := st_now s; st_listeners := st_listeners s; st_switch := st_switch s;
     st_xfers := st_xfers s; st_trace := st_trace s |}.
Definition with_mlen (s : state) (x : N -> Z) : state :=
  {| st_params := st_params s; st_auctions := st_auctions s; st_bids := st_bids s; st_allowed := st_allowed s;
     st_vqs := st_vqs s; st_aseq := st_aseq s; st_bseq := st_bseq s; st_mlen := x;
     st_bal := st_bal s; st_now := st_now s; st_listeners := st_listeners s; st_switch := st_switch s;
     st_xfers := st_xfers s; st_trace := st_trace s |}.
Definition with_bank (s : state) (b : addr -> N -> Z) (xs : list xfer) : state :=
  {| st_params := st_params s; st_auctions := st_auctions s; st_bids := st_bids s; st_allowed := st_allowed s;
     st_vqs := st_vqs s; st_aseq := st_aseq s; st_bseq := st_bseq s; st_mlen := st_mlen s;
     st_bal := b; st_now := st_now s; st_listeners := st_listeners s; st_switch := st_switch s;
     st_xfers := xs; st_trace := st_trace s |}.
Definition with_now (s : state) (t : Z) : state :=
  {| st_params := st_params s; st_auctions := st_auctions s; st_bids := st_bids s; st_allowed := st_allowed s;
     st_vqs := st_vqs s; st_aseq := st_aseq s; st_bseq := st_bseq s; st_mlen := st_mlen s;
     st_bal := st_bal s; st_now := t; st_listeners := st_listeners s; st_switch := st_switch s;
     st_xfers := st_xfers s; st_trace := st_trace s |}.
Definition with_listeners (s : state) (l : list (list N)) : state :=
  {| st_params := st_params s; st_auctions := st_auctions s; st_bids := st_bids s; st_allowed := st_allowed s;
     st_vqs := st_vqs s; st_aseq := st_aseq s; st_bseq := st_bseq s; st_mlen := st_mlen s;
     st_bal := st_bal s; st_now := st_now s; st_listeners := l; st_switch := st_switch s;
     st_xfers := st_xfers s; st_trace := st_trace s |}.
Definition with_trace (s : state) (t : list hookcall) : state :=
  {| st_params := st_params s; st_auctions := st_auctions s; st_bids := st_bids s; st_allowed := st_allowed s;
     st_vqs := st_vqs s; st_aseq := st_aseq s; st_bseq := st_bseq s; st_mlen := st_mlen s;
     st_bal := st_bal s; st_now := st_now s; st_listeners := st_listeners s; st_switch := st_switch s;
     st_xfers := st_xfers s; st_trace := t |}.
Definition with_params (s : state) (p : params) : state :=
  {| st_params := p; st_auctions := st_auctions s; st_bids := st_bids s; st_allowed := st_allowed s;
     st_vqs := st_vqs s; st_aseq := st_aseq s; st_bseq := st_bseq s; st_mlen := st_mlen s;
     st_bal := st_bal s; st_now := st_now s; st_listeners := st_listeners s; st_switch := st_switch s;
     st_xfers := st_xfers s; st_trace := st_trace s |}.

(* replace the auction with the same id *)
Definition put_auction (s : state) (a : auction) : state :=
  with_auctions s (map (fun x => if N.eqb (a_id x) (a_id a) then a else x) (st_auctions s)).
Definition put_bid (s : state) (b : bid) : state :=
  with_bids s (map (fun x => if N.eqb (b_auction x) (b_auction b) && N.eqb (b_id x) (b_id b) then b else x) (st_bids s)).
