(* x/bank and x/distribution as the module sees them: balances, SendCoins / InputOutputCoins
   with the insufficient-funds failure, FundCommunityPool. *)
From Coq Require Import ZArith NArith List Bool.
From FR Require Import Dec Types.
Import ListNotations.
Open Scope Z_scope.

Definition bal_upd (b : addr -> N -> Z) (a : addr) (d : N) (v : Z) : addr -> N -> Z :=
  fun a' d' => if addr_eqb a' a && N.eqb d' d then v else b a' d'.

Definition move (b : addr -> N -> Z) (from to : addr) (d : N) (amt : Z) : addr -> N -> Z :=
  let b1 := bal_upd b from d (b from d - amt) in
  bal_upd b1 to d (b1 to d + amt).

(* One coin from one account to another.  A zero amount is a no-op (sdk.NewCoins drops it),
   a negative one panics in sdk.NewCoin. *)
Definition send (s : state) (from to : addr) (d : N) (amt : Z) : res state :=
  if amt =? 0 then Ok s
  else if amt <? 0 then Err E_PANIC (st_trace s)
  else if st_bal s from d <? amt then Err E_FUNDS (st_trace s)
  else Ok (with_bank s (move (st_bal s) from to d amt)
                     (st_xfers s ++ [{| x_from := from; x_to := to; x_denom := d; x_amt := amt |}])).

Fixpoint send_coins (s : state) (from to : addr) (cs : coins) : res state :=
  match cs with
  | [] => Ok s
  | (d, amt) :: rest => do s1 <- send s from to d amt; send_coins s1 from to rest
  end.

(* distrKeeper.FundCommunityPool *)
Definition fund_pool (s : state) (u : N) (cs : coins) : res state := send_coins s (User u) Pool cs.
