(* The transition function: ValidateBasic, the message handlers of the keeper,
   the two keeper API functions for the allow-list, and BeginBlocker. *)
From Coq Require Import ZArith NArith List Bool Arith.
From FR Require Import Dec Types Bank Match.
From FR.Generated Require Consts.
Import ListNotations.
Open Scope Z_scope.

(* ------------------------------------------------------------------ hooks *)
Definition H_BeforeFixedCreated : N := 0.
Definition H_AfterFixedCreated : N := 1.
Definition H_BeforeBatchCreated : N := 2.
Definition H_AfterBatchCreated : N := 3.
Definition H_BeforeCanceled : N := 4.
Definition H_BeforeBidPlaced : N := 5.
Definition H_BeforeBidModified : N := 6.
Definition H_BeforeAllowedAdded : N := 7.
Definition H_BeforeAllowedUpdated : N := 8.
Definition H_BeforeAllocated : N := 9.

(* MultiFundraisingHooks: listeners in order, stop at the first one that fails *)
Fixpoint dispatch (ls : list (list N)) (i : N) (kind : N) (args : list Z) : bool * list hookcall :=
  match ls with
  | [] => (true, [])
  | l :: rest =>
      let c := {| h_listener := i; h_kind := kind; h_args := args |} in
      if existsb (N.eqb kind) l then (false, [c])
      else let '(ok, cs) := dispatch rest (i + 1)%N kind args in (ok, c :: cs)
  end.

Definition call_hook (s : state) (kind : N) (args : list Z) : res state :=
  let '(ok, cs) := dispatch (st_listeners s) 0%N kind args in
  if ok then Ok (with_trace s (st_trace s ++ cs)) else Err E_HOOK (st_trace s ++ cs).

Definition fail {A} (s : state) (code : N) : res A := Err code (st_trace s).

Definition zN (n : N) : Z := Z.of_N n.
Definition zB (b : bool) : Z := if b then 1 else 0.
Definition enc_addr_str (x : addr_str) : list Z :=
  match x with AGood up u => [zB up; zN u] | ABad => [-1; -1] end.
Definition enc_optZ (x : option Z) : list Z := match x with Some z => [1; z] | None => [0; 0] end.
Definition enc_scheds (vs : list sched) : list Z :=
  Z.of_nat (length vs) :: flat_map (fun v => [s_time v; s_weight v]) vs.
Definition enc_btype (t : btype) : Z := match t with BFixed => 1 | BWorth => 2 | BMany => 3 end.
Definition enc_map (keys : list N) (f : N -> Z) : list Z :=
  Z.of_nat (length keys) :: flat_map (fun u => [zN u; f u]) keys.

(* ------------------------------------------------------------------ ValidateBasic *)
Inductive cmsg :=
| CCreateFixed (u : N) (up : bool) (price : Z) (sd : N) (samt : Z) (pd : N) (vs : list sched) (start end_ : Z)
| CCreateBatch (u : N) (up : bool) (price minp : Z) (sd : N) (samt : Z) (pd : N) (vs : list sched)
               (maxr : N) (rate : Z) (start end_ : Z)
| CCancel (u : N) (up : bool) (a : N)
| CPlaceBid (u : N) (a : N) (bt : btype) (price : Z) (d : N) (amt : Z)
| CModifyBid (u : N) (a b : N) (price : Z) (d : N) (amt : Z)
| CAddAllowed (a ea : N) (up : bool) (u : N) (max : option Z)
| CUpdateParams (auth : auth_str) (cfee bfee : list mcoin) (period : Z).

Definition year1_ns : Z := -62135596800 * 1000000000.

(* types.ValidateVestingSchedules; returns the schedules with their weights when valid *)
Fixpoint check_scheds (vs : list msched) (end_ prev total : Z) : option (list sched) :=
  match vs with
  | [] => if total =? P then Some [] else None
  | v :: rest =>
      match ms_weight v with
      | None => None
      | Some w =>
          if (0 <? w) && (end_ <? ms_time v) && (prev <? ms_time v) && (w <=? P) then
            match check_scheds rest end_ (ms_time v) (total + w) with
            | Some l => Some ({| s_time := ms_time v; s_weight := w |} :: l)
            | None => None
            end
          else None
      end
  end.
Definition valid_scheds (vs : list msched) (end_ : Z) : option (list sched) :=
  match vs with [] => Some [] | _ => check_scheds vs end_ year1_ns 0 end.

(* sdk.Coin.Validate and a positive amount *)
Definition check_coin (c : mcoin) : option (N * Z) :=
  match mc_denom c, mc_amt c with
  | Some d, Some a => if 0 <? a then Some (d, a) else None
  | _, _ => None
  end.
Definition check_pos (x : option Z) : option Z :=
  match x with Some z => if 0 <? z then Some z else None | None => None end.

Definition decode_btype (n : N) : option btype :=
  match n with 1%N => Some BFixed | 2%N => Some BWorth | 3%N => Some BMany | _ => None end.

Definition check_basic (m : msg) : option cmsg :=
  match m with
  | MCreateFixed (AGood up u) price sell pay vs start end_ =>
      match check_pos price, check_coin sell, pay with
      | Some p, Some (sd, sa), Some pd =>
          if negb (N.eqb sd pd) && (start <? end_) then
            match valid_scheds vs end_ with
            | Some l => Some (CCreateFixed u up p sd sa pd l start end_)
            | None => None
            end
          else None
      | _, _, _ => None
      end
  | MCreateBatch (AGood up u) price minp sell pay vs maxr rate start end_ =>
      match check_pos price, check_pos minp, check_coin sell, pay, check_pos rate with
      | Some p, Some mp, Some (sd, sa), Some pd, Some r =>
          if negb (N.eqb sd pd) && (start <? end_) then
            match valid_scheds vs end_ with
            | Some l => Some (CCreateBatch u up p mp sd sa pd l maxr r start end_)
            | None => None
            end
          else None
      | _, _, _, _, _ => None
      end
  | MCancel (AGood up u) a => Some (CCancel u up a)
  | MPlaceBid (AGood _ u) a bt price coin =>
      match check_pos price, check_coin coin, decode_btype bt with
      | Some p, Some (d, amt), Some t => Some (CPlaceBid u a t p d amt)
      | _, _, _ => None
      end
  | MModifyBid (AGood _ u) a b price coin =>
      match check_pos price, check_coin coin with
      | Some p, Some (d, amt) => Some (CModifyBid u a b p d amt)
      | _, _ => None
      end
  | MAddAllowed a ea (AGood up u) max => Some (CAddAllowed a ea up u max)
  | MUpdateParams auth cfee bfee period => Some (CUpdateParams auth cfee bfee period)
  | _ => None
  end.

(* ------------------------------------------------------------------ handlers *)
Definition new_auction (id : N) (ty : atype) (u : N) (up : bool) (price : Z) (sd : N) (samt : Z) (pd : N)
           (vs : list sched) (start end_ : Z) (st : status) (rem minp : Z) (maxr : N) (rate : Z) : auction :=
  {| a_id := id; a_type := ty; a_auctioneer := u; a_upper := up; a_start_price := price;
     a_sell_denom := sd; a_sell_amt := samt; a_pay_denom := pd; a_scheds := vs; a_start := start;
     a_ends := [end_]; a_status := st; a_remaining := rem; a_min_price := minp; a_matched_price := 0;
     a_max_round := maxr; a_rate := rate |}.

(* the two limits are read from the source on every run (harness/cmd/consts -> Generated/Consts.v) *)
Definition MaxNumVestingSchedules : nat := Z.to_nat Consts.max_num_vesting_schedules.
Definition MaxExtendedRound : N := Z.to_N Consts.max_extended_round.

Definition create_fixed (s : state) (u : N) (up : bool) (price : Z) (sd : N) (samt : Z) (pd : N)
           (vs : list sched) (start end_ : Z) : res state :=
  if end_ <? st_now s then fail s E_INVALID else
  if Nat.ltb MaxNumVestingSchedules (length vs) then fail s E_INVALID else
  let id := st_aseq s in
  let s := with_aseq s (id + 1)%N in
  do s <- fund_pool s u (p_cfee (st_params s));
  do s <- send s (User u) (Escrow Selling id) sd samt;
  let st := if start <=? st_now s then Started else StandBy in
  let a := new_auction id FixedPrice u up price sd samt pd vs start end_ st samt 0 0 0 in
  let args := enc_addr_str (AGood up u) ++ [price; zN sd; samt; zN pd] ++ enc_scheds vs ++ [start; end_] in
  do s <- call_hook s H_BeforeFixedCreated args;
  let s := with_auctions s (st_auctions s ++ [a]) in
  do s <- call_hook s H_AfterFixedCreated (zN id :: args);
  Ok s.

Definition create_batch (s : state) (u : N) (up : bool) (price minp : Z) (sd : N) (samt : Z) (pd : N)
           (vs : list sched) (maxr : N) (rate : Z) (start end_ : Z) : res state :=
  if end_ <? st_now s then fail s E_INVALID else
  if Nat.ltb MaxNumVestingSchedules (length vs) then fail s E_INVALID else
  if N.ltb MaxExtendedRound maxr then fail s E_INVALID else
  let id := st_aseq s in
  let s := with_aseq s (id + 1)%N in
  do s <- fund_pool s u (p_cfee (st_params s));
  do s <- send s (User u) (Escrow Selling id) sd samt;
  let st := if start <=? st_now s then Started else StandBy in
  let a := new_auction id Batch u up price sd samt pd vs start end_ st 0 minp maxr rate in
  let args := enc_addr_str (AGood up u) ++ [price; minp; zN sd; samt; zN pd] ++ enc_scheds vs
              ++ [zN maxr; rate; start; end_] in
  do s <- call_hook s H_BeforeBatchCreated args;
  let s := with_auctions s (st_auctions s ++ [a]) in
  do s <- call_hook s H_AfterBatchCreated (zN id :: args);
  Ok s.

Definition cancel (s : state) (u : N) (up : bool) (id : N) : res state :=
  match find_auction s id with
  | None => fail s E_NOTFOUND
  | Some a =>
      if negb (N.eqb (a_auctioneer a) u) then fail s E_UNAUTH else
      if negb (status_eqb (a_status a) StandBy) then fail s E_STATUS else
      do s <- send s (Escrow Selling id) (User (a_auctioneer a)) (a_sell_denom a)
                   (st_bal s (Escrow Selling id) (a_sell_denom a));
      do s <- call_hook s H_BeforeCanceled (zN id :: enc_addr_str (AGood up u));
      let a := match a_type a with FixedPrice => set_remaining a 0 | Batch => a end in
      Ok (put_auction s (set_status a Cancelled))
  end.

(* keeper.ValidateFixedPriceBid *)
Definition validate_fixed_bid (s : state) (a : auction) (b : bid) : res unit :=
  if negb (atype_eqb (a_type a) FixedPrice) then fail s E_TYPE else
  if negb (N.eqb (b_denom b) (a_pay_denom a)) && negb (N.eqb (b_denom b) (a_sell_denom a)) then fail s E_DENOM else
  if negb (b_price b =? a_start_price a) then fail s E_PRICE else
  let q := sell_amount (a_pay_denom a) b in
  if a_remaining a <? q then fail s E_REMAINING else
  let total := sumZ (map (sell_amount (a_pay_denom a))
                         (filter (fun x => N.eqb (b_bidder x) (b_bidder b)) (bids_of s (a_id a)))) in
  match find_allowed s (a_id a) (b_bidder b) with
  | None => fail s E_NOTALLOWED
  | Some al => if al_max al <? total + q then fail s E_OVERMAX else Ok tt
  end.

(* keeper.ValidateBatchWorthBid / ValidateBatchManyBid *)
Definition validate_batch_bid (s : state) (a : auction) (b : bid) (want_denom : N) : res unit :=
  if negb (atype_eqb (a_type a) Batch) then fail s E_TYPE else
  if negb (N.eqb (b_denom b) want_denom) then fail s E_DENOM else
  match find_allowed s (a_id a) (b_bidder b) with
  | None => fail s E_NOTALLOWED
  | Some al => if al_max al <? sell_amount (a_pay_denom a) b then fail s E_OVERMAX else Ok tt
  end.

Definition place_bid (s : state) (u : N) (id : N) (bt : btype) (price : Z) (d : N) (amt : Z) : res state :=
  match find_auction s id with
  | None => fail s E_NOTFOUND
  | Some a =>
      if negb (status_eqb (a_status a) Started) then fail s E_STATUS else
      if atype_eqb (a_type a) Batch && (price <? a_min_price a) then fail s E_MINPRICE else
      match find_allowed s id u with
      | None => fail s E_NOTALLOWED
      | Some _ =>
          do s <- fund_pool s u (p_bfee (st_params s));
          let bid_id := (st_bseq s id + 1)%N in
          let s := with_bseq s (upd (st_bseq s) id bid_id) in
          let b := {| b_auction := id; b_id := bid_id; b_bidder := u; b_type := bt; b_price := price;
                      b_denom := d; b_amt := amt; b_matched := false |} in
          do sb <-
            match bt with
            | BFixed =>
                do _ <- validate_fixed_bid s a b;
                do s <- send s (User u) (Escrow Paying id) (a_pay_denom a) (pay_amount (a_pay_denom a) b);
                let q := sell_amount (a_pay_denom a) b in
                let s := put_auction s (set_remaining a (a_remaining a - q)) in
                Ok (s, set_b_matched b (0 <? q))
            | BWorth =>
                do _ <- validate_batch_bid s a b (a_pay_denom a);
                do s <- send s (User u) (Escrow Paying id) d amt;
                Ok (s, b)
            | BMany =>
                do _ <- validate_batch_bid s a b (a_sell_denom a);
                do s <- send s (User u) (Escrow Paying id) (a_pay_denom a) (pay_amount (a_pay_denom a) b);
                Ok (s, b)
            end;
          let '(s, b) := sb in
          do s <- call_hook s H_BeforeBidPlaced
                    [zN id; zN bid_id; zN u; enc_btype bt; price; zN d; amt];
          Ok (with_bids s (st_bids s ++ [b]))
      end
  end.

Definition modify_bid (s : state) (u : N) (id bid_id : N) (price : Z) (d : N) (amt : Z) : res state :=
  match find_auction s id with
  | None => fail s E_NOTFOUND
  | Some a =>
      if negb (status_eqb (a_status a) Started) then fail s E_STATUS else
      if negb (atype_eqb (a_type a) Batch) then fail s E_TYPE else
      match find_bid s id bid_id with
      | None => fail s E_NOTFOUND
      | Some b =>
          if negb (N.eqb (b_bidder b) u) then fail s E_UNAUTH else
          if price <? a_min_price a then fail s E_MINPRICE else
          if negb (N.eqb (b_denom b) d) then fail s E_DENOM else
          if (price <? b_price b) || (amt <? b_amt b) then fail s E_INVALID else
          if (price =? b_price b) && (amt =? b_amt b) then fail s E_INVALID else
          let '(dd, diff) := match b_type b with
                             | BWorth => (d, amt - b_amt b)
                             | BMany => (a_pay_denom a, pay_of_qty amt price - pay_of_qty (b_amt b) (b_price b))
                             | BFixed => (d, 0)
                             end in
          do s <- (if 0 <? diff then send s (User u) (Escrow Paying id) dd diff else Ok s);
          let b' := set_b_terms b price amt in
          do s <- call_hook s H_BeforeBidModified
                    [zN id; zN bid_id; zN (b_bidder b); enc_btype (b_type b); price; zN d; amt];
          Ok (put_bid s b')
      end
  end.

(* keeper.AddAllowedBidders *)
Definition put_allowed (s : state) (a u : N) (max : Z) : state :=
  let e := {| al_auction := a; al_bidder := u; al_max := max |} in
  match find_allowed s a u with
  | Some _ => with_allowed s (map (fun x => if N.eqb (al_auction x) a && N.eqb (al_bidder x) u then e else x) (st_allowed s))
  | None => with_allowed s (st_allowed s ++ [e])
  end.

Fixpoint add_entries (s : state) (a : auction) (l : list (N * addr_str * option Z)) : res state :=
  match l with
  | [] => Ok s
  | (_, who, max) :: rest =>
      match who, max with
      | AGood _ u, Some m =>
          if negb (0 <? m) then fail s E_INVALID else
          if a_sell_amt a <? m then fail s E_REMAINING else
          add_entries (put_allowed s (a_id a) u m) a rest
      | _, _ => fail s E_INVALID
      end
  end.

Definition enc_entries (l : list (N * addr_str * option Z)) : list Z :=
  Z.of_nat (length l) :: flat_map (fun e => let '(ea, who, max) := e in zN ea :: enc_addr_str who ++ enc_optZ max) l.

Definition api_add (s : state) (id : N) (l : list (N * addr_str * option Z)) : res state :=
  match l with
  | [] => fail s E_EMPTY
  | _ =>
      match find_auction s id with
      | None => fail s E_NOTFOUND
      | Some a =>
          do s <- call_hook s H_BeforeAllowedAdded (enc_entries l);
          add_entries s a l
      end
  end.

Definition api_update (s : state) (id u : N) (max : option Z) : res state :=
  match find_auction s id with
  | None => fail s E_NOTFOUND
  | Some _ =>
      match find_allowed s id u with
      | None => fail s E_NOTFOUND
      | Some _ =>
          match check_pos max with
          | None => fail s E_INVALID
          | Some m =>
              do s <- call_hook s H_BeforeAllowedUpdated [zN id; zN u; m];
              Ok (put_allowed s id u m)
          end
      end
  end.

(* sdk.Coins.Validate on the fee lists of MsgUpdateParams *)
Fixpoint check_coins (l : list mcoin) (low : option N) : option coins :=
  match l with
  | [] => Some []
  | c :: rest =>
      match check_coin c with
      | None => None
      | Some (d, a) =>
          if match low with Some lo => N.ltb lo d | None => true end then
            match check_coins rest (Some d) with Some r => Some ((d, a) :: r) | None => None end
          else None
      end
  end.

Definition update_params (s : state) (auth : auth_str) (cfee bfee : list mcoin) (period : Z) : res state :=
  match auth with
  | AuthGov =>
      match check_coins cfee None, check_coins bfee None with
      | Some c, Some b => Ok (with_params s {| p_cfee := c; p_bfee := b; p_period := period |})
      | _, _ => fail s E_INVALID
      end
  | AuthOther ABad => fail s E_INVALID
  | AuthOther _ => fail s E_UNAUTH
  end.

Definition handle (s : state) (m : cmsg) : res state :=
  match m with
  | CCreateFixed u up price sd samt pd vs start end_ => create_fixed s u up price sd samt pd vs start end_
  | CCreateBatch u up price minp sd samt pd vs maxr rate start end_ =>
      create_batch s u up price minp sd samt pd vs maxr rate start end_
  | CCancel u up a => cancel s u up a
  | CPlaceBid u a bt price d amt => place_bid s u a bt price d amt
  | CModifyBid u a b price d amt => modify_bid s u a b price d amt
  | CAddAllowed a ea up u max =>
      if st_switch s then api_add s a [(ea, AGood up u, max)] else fail s E_DISABLED
  | CUpdateParams auth cfee bfee period => update_params s auth cfee bfee period
  end.

(* ------------------------------------------------------------------ BeginBlocker *)
(* keeper.AllocateSellingCoin *)
Fixpoint pay_out (s : state) (from : addr) (d : N) (us : list N) (f : N -> Z) : res state :=
  match us with
  | [] => Ok s
  | u :: rest =>
      if f u =? 0 then pay_out s from d rest f
      else do s1 <- send s from (User u) d (f u); pay_out s1 from d rest f
  end.

Definition allocate (s : state) (a : auction) (mi : minfo) (with_refund_map : bool) : res state :=
  let args := zN (a_id a) :: enc_map (mi_bidders mi) (mi_alloc mi)
              ++ (if with_refund_map then enc_map (mi_bidders mi) (mi_refund mi) else [0]) in
  do s <- call_hook s H_BeforeAllocated args;
  pay_out s (Escrow Selling (a_id a)) (a_sell_denom a) (mi_bidders mi) (mi_alloc mi).

(* keeper.RefundRemainingSellingCoin *)
Definition refund_selling (s : state) (a : auction) : res state :=
  send s (Escrow Selling (a_id a)) (User (a_auctioneer a)) (a_sell_denom a)
       (st_bal s (Escrow Selling (a_id a)) (a_sell_denom a)).

(* keeper.ApplyVestingSchedules: instalments of `total` over the schedule, the last takes the rest *)
Fixpoint split (a : auction) (total remaining : Z) (vs : list sched) : list vq :=
  match vs with
  | [] => []
  | v :: rest =>
      let amt := match rest with [] => remaining | _ => share total (s_weight v) end in
      {| v_auction := a_id a; v_time := s_time v; v_auctioneer := a_auctioneer a;
         v_denom := a_pay_denom a; v_amt := amt; v_released := false |}
      :: split a total (remaining - amt) rest
  end.

Definition apply_vesting (s : state) (a : auction) : res state :=
  let reserve := st_bal s (Escrow Paying (a_id a)) (a_pay_denom a) in
  match a_scheds a with
  | [] =>
      do s <- send s (Escrow Paying (a_id a)) (User (a_auctioneer a)) (a_pay_denom a) reserve;
      Ok (put_auction s (set_status a Finished))
  | vs =>
      do s <- send s (Escrow Paying (a_id a)) (Escrow Vesting (a_id a)) (a_pay_denom a) reserve;
      let s := with_vqs s (st_vqs s ++ split a reserve reserve vs) in
      Ok (put_auction s (set_status a VestingS))
  end.

Definition close_fixed (s : state) (a : auction) : res state :=
  let mi := calc_fixed a (bids_of s (a_id a)) in
  do s <- allocate s a mi false;
  do s <- refund_selling s a;
  apply_vesting s a.

(* rewrite the matched flags of the auction's bids and record the count *)
Definition set_flags (s : state) (id : N) (matched : list N) : state :=
  let s := with_bids s (map (fun b => if N.eqb (b_auction b) id
                                      then set_b_matched b (existsb (N.eqb (b_id b)) matched) else b)
                            (st_bids s)) in
  with_mlen s (upd (st_mlen s) id (Z.of_nat (length matched))).

Definition settle_batch (s : state) (a : auction) (mi : minfo) : res state :=
  do s <- allocate s a mi true;
  do s <- refund_selling s a;
  do s <- pay_out s (Escrow Paying (a_id a)) (a_pay_denom a) (mi_bidders mi) (mi_refund mi);
  apply_vesting s a.

Definition extend_round (s : state) (a : auction) : res state :=
  Ok (put_auction s (set_ends a (a_ends a ++ [last_end a + p_period (st_params s) * day_ns]))).

Definition close_batch (s : state) (orc : list (N * list N)) (a : auction) : res state :=
  let id := a_id a in
  let bs := bids_of s id in
  let ids := match find (fun x => N.eqb (fst x) id) orc with Some (_, l) => l | None => [] end in
  match valid_order bs ids with
  | None => fail s E_ORACLE
  | Some order =>
      let last_len := st_mlen s id in
      match calc_batch a bs order (allowed_of s id) with
      | None => fail s E_PANIC
      | Some mi =>
          let s := set_flags s id (mi_matched mi) in
          let a := set_matched_price a (mi_price mi) in
          let cur := Z.of_nat (length (mi_matched mi)) in
          if N.eqb (a_max_round a + 1) (N.of_nat (length (a_ends a))) then settle_batch s a mi
          else if last_len =? 0 then extend_round s a
          else if extend_rule cur last_len (a_rate a) then extend_round s a
          else settle_batch s a mi
      end
  end.

(* keeper.ReleaseVestingPayingCoin *)
Fixpoint release_loop (s : state) (a : auction) (t : Z) (vs : list vq) : res state :=
  match vs with
  | [] => Ok s
  | v :: rest =>
      if (v_time v <=? t) && negb (v_released v) then
        do s <- send s (Escrow Vesting (a_id a)) (User (a_auctioneer a)) (v_denom v) (v_amt v);
        let s := with_vqs s (map (fun x => if N.eqb (v_auction x) (v_auction v) && (v_time x =? v_time v)
                                           then set_v_released x true else x) (st_vqs s)) in
        let s := match rest with [] => put_auction s (set_status a Finished) | _ => s end in
        release_loop s a t rest
      else release_loop s a t rest
  end.

Definition process (t : Z) (orc : list (N * list N)) (s : state) (a : auction) : res state :=
  match a_status a with
  | StandBy => if a_start a <=? t then Ok (put_auction s (set_status a Started)) else Ok s
  | Started =>
      if last_end a <=? t then
        match a_type a with FixedPrice => close_fixed s a | Batch => close_batch s orc a end
      else Ok s
  | VestingS => release_loop s a t (vqs_of s (a_id a))
  | Finished | Cancelled => Ok s
  end.

Fixpoint process_all (t : Z) (orc : list (N * list N)) (s : state) (l : list auction) : res state :=
  match l with
  | [] => Ok s
  | a :: rest => do s1 <- process t orc s a; process_all t orc s1 rest
  end.

Definition begin_block (s : state) (t : Z) (orc : list (N * list N)) : res state :=
  let s := with_now s t in
  process_all t orc s (st_auctions s).
