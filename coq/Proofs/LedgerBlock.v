(* C02, part 4 at the level of a whole block: every auction that a successful BeginBlocker settles gets the
   settlement transfers of LedgerSettle.settle_xfers, computed from the state at the beginning of the block,
   as a contiguous segment of the block's transfers; afterwards its selling and paying escrows are empty.
   No axioms. *)
From Coq Require Import ZArith NArith List Bool Arith Lia.
From FR Require Import Dec Types Bank Match Step Genesis Model Spec Checkers.
From FR.Proofs Require Import InvDefs EscrowBase VestingFacts HookBase Ledger LedgerCharges LedgerSettle.
From FR.Proofs Require FrameFacts BlockFacts InvStaticBlock InvAll.
Import ListNotations.
Open Scope Z_scope.

Import FrameFacts.

(* where in the walk over the snapshot the auction a is processed *)
Lemma process_all_at t orc : forall l s s',
  Inv s -> NoDup (map a_id l) -> (forall a, In a l -> In a (st_auctions s)) ->
  process_all t orc s l = Ok s' ->
  forall a, In a l ->
  exists s1 s2, Inv s1 /\ In a (st_auctions s1) /\ slice_eq (a_id a) s s1 /\ st_params s1 = st_params s
    /\ process t orc s1 a = Ok s2 /\ slice_eq (a_id a) s2 s'
    /\ ledger s s1 /\ ledger s2 s'.
Proof.
  induction l as [|x rest IH]; cbn [process_all map]; intros s s' I ND Hl H a Ha; [destruct Ha|].
  inversion ND as [|? ? Hn ND']; subst.
  destruct (process t orc s x) as [sx|] eqn:E; cbn [bind] in H; [|discriminate H].
  assert (Hx : In x (st_auctions s)) by (apply Hl; now left).
  assert (Ix : Inv sx) by (eapply InvAll.Inv_process; eassumption).
  assert (Hl' : forall y, In y rest -> In y (st_auctions sx)).
  { intros y Hy. apply (InvStaticBlock.process_keeps t orc s x sx y (InvAll.Inv_InvS s I) Hx E); [apply Hl; now right|].
    intros C. apply Hn. rewrite <- C. apply in_map. exact Hy. }
  destruct (BlockFacts.process_spec _ _ _ _ _ E) as [[P1 P2 P3 P4 P5] _].
  destruct Ha as [<-|Ha].
  - exists s, sx. split; [exact I|]. split; [exact Hx|]. split; [apply slice_eq_refl|]. split; [reflexivity|].
    split; [exact E|].
    destruct (BlockFacts.process_all_spec t orc rest sx s' ND' H) as (I1 & _).
    split; [apply I1; exact Hn|]. split; [apply ledger_refl|].
    pose proof (process_all_ledR t orc rest sx) as L. rewrite H in L. exact L.
  - destruct (IH sx s' Ix ND' Hl' H a Ha) as (s1 & s2 & I1 & Hin1 & S1 & Ep & Hp & S2 & L1 & L2).
    exists s1, s2. split; [exact I1|]. split; [exact Hin1|].
    assert (Hne : a_id a <> a_id x) by (intros C; apply Hn; rewrite <- C; apply in_map; exact Ha).
    split; [eapply slice_eq_trans; [apply P1; exact Hne|exact S1]|].
    split; [destruct P2 as (Epx & _); congruence|]. split; [exact Hp|]. split; [exact S2|].
    split; [|exact L2]. eapply ledger_trans; [|exact L1].
    pose proof (process_ledR t orc s x) as L. rewrite E in L. exact L.
Qed.

(* the settlement data only depend on the auction's own slice of the state *)
Lemma decision_slice s s1 a mi : st_mlen s1 (a_id a) = st_mlen s (a_id a) -> BlockFacts.decision s1 a mi = BlockFacts.decision s a mi.
Proof. intros E. unfold BlockFacts.decision. rewrite E. reflexivity. Qed.

Lemma settles_with_slice t orc s s1 a mi wr :
  slice_eq (a_id a) s s1 -> settles_with t orc s1 a mi wr -> settles_with t orc s a mi wr.
Proof.
  intros [_ Eb Ea _ _ Em _] [Hd Hw]. split; [exact Hd|]. rewrite Eb, Ea in Hw.
  destruct Hw as [Hw|(Ty & Ew & Dec & Hor)]; [left; exact Hw|right].
  rewrite (decision_slice s s1 a mi Em) in Dec. auto.
Qed.

Lemma settle_xfers_slice s s1 a mi wr : slice_eq (a_id a) s s1 -> settle_xfers s1 a mi wr = settle_xfers s a mi wr.
Proof.
  intros S. unfold settle_xfers, unsold_of, proceeds_of. rewrite !(se_bal _ _ _ S). reflexivity.
Qed.

Lemma dues_slice s s1 a mi wr : slice_eq (a_id a) s s1 -> dues s1 a mi wr -> dues s a mi wr.
Proof.
  intros S [D1 D2 D3 D4 D5 D6 D7 D8 D9]. pose proof (se_bids _ _ _ S) as Eb.
  unfold unsold_of, proceeds_of in *. rewrite !(se_bal _ _ _ S) in *. rewrite Eb in *.
  split; assumption.
Qed.

Theorem block_settlement_dues s t orc s' a a' :
  Inv s -> begin_block s t orc = Ok s' -> In a (st_auctions s) -> a_status a = Started ->
  find_auction s' (a_id a) = Some a' -> (a_status a' = VestingS \/ a_status a' = Finished) ->
  exists mi wr pre post,
    settles_with t orc s a mi wr
    /\ dues s a mi wr
    /\ 0 <= unsold_of s a mi /\ 0 <= proceeds_of s a mi wr
    /\ st_xfers s' = st_xfers s ++ pre ++ settle_xfers s a mi wr ++ post
    /\ st_bal s' (Escrow Selling (a_id a)) (a_sell_denom a) = 0
    /\ st_bal s' (Escrow Paying (a_id a)) (a_pay_denom a) = 0
    /\ (a_scheds a <> [] ->
        st_bal s' (Escrow Vesting (a_id a)) (a_pay_denom a)
        = st_bal s (Escrow Vesting (a_id a)) (a_pay_denom a) + proceeds_of s a mi wr).
Proof.
  intros I H Ha St Fa' Hst'. unfold begin_block in H. cbv zeta in H.
  assert (I0 : Inv (with_now s t)) by (apply InvAll.Inv_with_now, I).
  assert (ND : NoDup (map a_id (st_auctions (with_now s t)))) by (destruct (InvAll.Inv_ids_ok s I) as [ND _]; exact ND).
  destruct (process_all_at t orc _ _ _ I0 ND (fun y Hy => Hy) H a Ha)
    as (s1 & s2 & I1 & Hin1 & S1 & _ & Hp & S2 & (pre & L1) & (post & L2)).
  assert (S01 : slice_eq (a_id a) s s1).
  { eapply slice_eq_trans; [|exact S1]. split; reflexivity. }
  pose proof (InvAll.Inv_find_in s1 a I1 Hin1) as Fa1.
  assert (Fa2 : find_auction s2 (a_id a) = Some a') by (rewrite <- (se_auction _ _ _ S2); exact Fa').
  destruct (settlement_dues t orc s1 a s2 a' I1 Fa1 St Hp Fa2 Hst') as (mi & wr & Hw & L & D & Hu & Hpr & B1 & B2 & B3).
  exists mi, wr, pre, post.
  split; [eapply settles_with_slice; eassumption|]. split; [eapply dues_slice; eassumption|].
  unfold unsold_of, proceeds_of in *. rewrite !(se_bal _ _ _ S01) in *.
  split; [exact Hu|]. split; [exact Hpr|]. split.
  - rewrite (lb_xfers _ _ _ L2), (lb_xfers _ _ _ L), (lb_xfers _ _ _ L1). cbn [st_xfers with_now].
    rewrite (settle_xfers_slice s s1 a mi wr S01), <- !app_assoc. reflexivity.
  - rewrite !(se_bal _ _ _ S2). split; [exact B1|]. split; [exact B2|exact B3].
Qed.
