(* C16 (g), second half: nothing changes the bids of a fixed price auction once they are stored:
   every operation leaves them alone or appends one new bid whose flag says whether it bought anything. *)
From Coq Require Import ZArith NArith List Bool Arith Lia.
From FR Require Import Dec Types Bank Match Step Genesis Model Spec.
From FR.Proofs Require Import FrameFacts TxFacts BlockFacts VestingFacts PublishFacts.
Import ListNotations.
Open Scope Z_scope.

Lemma process_fixed_bids t orc s a s' :
  a_type a = FixedPrice -> process t orc s a = Ok s' -> st_bids s' = st_bids s.
Proof.
  intros T H. unfold process in H. destruct (a_status a).
  - destruct (a_start a <=? t); injection H as <-; reflexivity.
  - destruct (last_end a <=? t); [|injection H as <-; reflexivity].
    rewrite T in H. apply close_fixed_bids in H. apply H.
  - apply release_loop_spec in H. apply (rs_bids _ _ _ _ _ H).
  - injection H as <-. reflexivity.
  - injection H as <-. reflexivity.
Qed.

Lemma block_fixed_bids s t orc s' id a :
  ids_ok s -> find_auction s id = Some a -> a_type a = FixedPrice ->
  begin_block s t orc = Ok s' -> bids_of s' id = bids_of s id.
Proof.
  intros OK F T H. unfold begin_block in H. cbv zeta in H.
  change (st_auctions (with_now s t)) with (st_auctions s) in H.
  destruct OK as [ND _].
  destruct (process_all_spec t orc _ _ _ ND H) as (_ & _ & _ & _ & _ & I6).
  pose proof (find_auction_some _ _ _ F) as [HI <-].
  destruct (I6 a HI) as (s1 & s2 & A1 & _ & A3 & A4).
  rewrite (se_bids _ _ _ A4). unfold bids_of at 1. rewrite (process_fixed_bids _ _ _ _ _ T A3).
  fold (bids_of s1 (a_id a)). rewrite (se_bids _ _ _ A1). reflexivity.
Qed.

Lemma modify_bid_batch s u id bid_id price d amt s' :
  modify_bid s u id bid_id price d amt = Ok s' -> exists a, find_auction s id = Some a /\ a_type a = Batch.
Proof.
  unfold modify_bid. intros H. inv_step H; [|inv_step H]. inv_step H; [inv_step H|]. inv_step H; [inv_step H|].
  exists a. split; [reflexivity|]. apply negb_false_iff in E1. apply atype_eqb_eq. exact E1.
Qed.

Lemma tx_shape_bids_same s o out s' :
  tx_shape s o out s' ->
  (forall who id bt price coin, o <> OTx (MPlaceBid who id bt price coin)) ->
  (forall who id bid price coin, o <> OTx (MModifyBid who id bid price coin)) ->
  st_bids s' = st_bids s.
Proof.
  intros Sh N1 N2. shape_cases Sh; try reflexivity.
  - exfalso. eapply N1. reflexivity.
  - exfalso. eapply N1. reflexivity.
  - exfalso. eapply N2. reflexivity.
Qed.

Definition fixed_bid_ok (a : auction) (nb : bid) : Prop :=
  b_auction nb = a_id a /\ b_type nb = BFixed /\ b_matched nb = (0 <? sell_amount (a_pay_denom a) nb)
  /\ (b_denom nb = a_pay_denom a \/ b_denom nb = a_sell_denom a) /\ b_price nb = a_start_price a.

Theorem fixed_bids_stable s o id a :
  ids_ok s -> o <> OGenesis -> find_auction s id = Some a -> a_type a = FixedPrice ->
  bids_of (snd (step s o)) id = bids_of s id
  \/ exists nb, bids_of (snd (step s o)) id = bids_of s id ++ [nb] /\ fixed_bid_ok a nb.
Proof.
  intros OK Hg F T. pose proof (find_auction_some _ _ _ F) as [_ Hid].
  destruct (is_block o) eqn:B.
  { left. destruct (step_block s o B) as [[_ H]|[_ (tr & ->)]]; [|reflexivity].
    eapply block_fixed_bids; eassumption. }
  assert (Same : st_bids (snd (step s o)) = st_bids s -> bids_of (snd (step s o)) id = bids_of s id)
    by (intros E; unfold bids_of; rewrite E; reflexivity).
  pose proof (step_shape s o B Hg) as Sh.
  destruct o as [m| | | | | | |]; try (left; apply Same; eapply tx_shape_bids_same; [exact Sh|discriminate|discriminate]).
  destruct m; try (left; apply Same; eapply tx_shape_bids_same; [exact Sh|discriminate|discriminate]).
  - (* MPlaceBid *)
    cbn [step] in *. unfold deliver_tx in *. destruct (check_basic (MPlaceBid who a0 bt price coin)) as [c|] eqn:CB;
      [|left; reflexivity].
    pose proof (check_basic_matches _ _ CB) as CM. destruct c; cbn [cmsg_matches] in CM; try contradiction. subst a1.
    cbn [handle] in *. destruct (place_bid s u a0 bt0 price0 d amt) as [s'|c tr] eqn:HP; cbn [commit snd] in *;
      [|left; reflexivity].
    destruct (place_bid_flag _ _ _ _ _ _ _ _ HP) as (a' & nb & F' & _ & HB & B1 & _ & _ & B4 & B5 & B6 & _ & M).
    unfold bids_of at 1 3. rewrite HB, filter_app. cbn [filter]. rewrite B1.
    destruct (N.eqb a0 id) eqn:E; [|left; apply app_nil_r].
    apply N.eqb_eq in E. rewrite E in F'. rewrite F in F'. injection F' as <-. right. exists nb. split; [reflexivity|].
    destruct bt0; [|destruct M as (M & _); congruence|destruct M as (M & _); congruence].
    destruct M as (_ & M2 & M3 & M4). unfold fixed_bid_ok. split; [congruence|].
    rewrite B4, B5, B6. repeat split; assumption.
  - (* MModifyBid *)
    left. cbn [step] in *. unfold deliver_tx in *.
    destruct (check_basic (MModifyBid who a0 b price coin)) as [c|] eqn:CB; [|reflexivity].
    pose proof (check_basic_matches _ _ CB) as CM. destruct c; cbn [cmsg_matches] in CM; try contradiction.
    destruct CM as [<- <-]. cbn [handle] in *.
    destruct (modify_bid s u a0 b price0 d amt) as [s'|c tr] eqn:HM; cbn [commit snd fst] in *; [|reflexivity].
    destruct (modify_bid_batch _ _ _ _ _ _ _ _ HM) as (a' & F' & T').
    assert (Hne : id <> a0) by (intros ->; rewrite F in F'; injection F' as <-; congruence).
    pose proof (tx_frame _ _ _ _ a0 Sh eq_refl) as Fr. apply (se_bids _ _ _ (Fr id Hne)).
Qed.
