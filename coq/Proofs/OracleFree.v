(* C14: the oracle of a block (the order in which the implementation swept the bids of each batch auction it closed)
   carries no information the state does not determine: two valid oracles give the same transition.  The block
   transition is therefore a function of the state and the block time alone. *)
From Coq Require Import ZArith NArith List Bool Arith Lia Permutation.
From FR Require Import Dec Types Bank Match Step Genesis Model Spec.
From FR.Proofs Require Import InvDefs FrameFacts TxFacts BlockFacts InvStaticBase InvStaticBlock InvAll SweepOrder.
From FR.Proofs Require PrecondBase LiveFacts.
Import ListNotations.
Open Scope Z_scope.

Definition valid_for (s : state) (t : Z) (orc : list (N * list N)) (a : auction) : Prop :=
  a_type a = Batch -> a_status a = Started -> last_end a <= t ->
  exists order, valid_order (bids_of s (a_id a)) (oracle_ids orc (a_id a)) = Some order.

Lemma close_batch_orc_indep s orc orc' a :
  (exists o, valid_order (bids_of s (a_id a)) (oracle_ids orc (a_id a)) = Some o) ->
  (exists o, valid_order (bids_of s (a_id a)) (oracle_ids orc' (a_id a)) = Some o) ->
  close_batch s orc a = close_batch s orc' a.
Proof.
  intros [o H] [o' H']. destruct (valid_order_unique _ _ _ _ _ H H') as [_ E].
  unfold close_batch. cbv zeta.
  change (match find (fun x => N.eqb (fst x) (a_id a)) orc with Some (_, l) => l | None => [] end) with (oracle_ids orc (a_id a)).
  change (match find (fun x => N.eqb (fst x) (a_id a)) orc' with Some (_, l) => l | None => [] end) with (oracle_ids orc' (a_id a)).
  rewrite E. reflexivity.
Qed.

Lemma process_orc_indep t orc orc' s a :
  valid_for s t orc a -> valid_for s t orc' a -> process t orc s a = process t orc' s a.
Proof.
  intros V V'. unfold process. destruct (a_status a) eqn:St; try reflexivity.
  destruct (last_end a <=? t) eqn:Et; [|reflexivity]. apply Z.leb_le in Et.
  destruct (a_type a) eqn:Ty; [reflexivity|].
  apply close_batch_orc_indep; [apply V|apply V']; auto.
Qed.

Theorem process_all_orc_indep t orc orc' : forall l s,
  Inv s -> NoDup (map a_id l) -> (forall a, In a l -> In a (st_auctions s)) ->
  (forall a, In a l -> valid_for s t orc a) -> (forall a, In a l -> valid_for s t orc' a) ->
  process_all t orc s l = process_all t orc' s l.
Proof.
  induction l as [|a rest IH]; cbn [process_all]; intros s I ND Hl V V'; [reflexivity|].
  cbn [map] in ND. inversion ND as [|? ? Hn ND']; subst.
  assert (Ha : In a (st_auctions s)) by (apply Hl; left; reflexivity).
  rewrite <- (process_orc_indep t orc orc' s a (V a (or_introl eq_refl)) (V' a (or_introl eq_refl))).
  destruct (process t orc s a) as [s1|c tr] eqn:E; cbn [bind]; [|reflexivity].
  destruct (process_spec _ _ _ _ _ E) as [PE _].
  assert (Fr : forall x, In x rest -> bids_of s1 (a_id x) = bids_of s (a_id x)).
  { intros x Hx. assert (Hne : a_id x <> a_id a) by (intros C; apply Hn; rewrite <- C; apply in_map; exact Hx).
    apply (se_bids _ _ _ (pe_frame _ _ _ PE _ Hne)). }
  apply IH.
  - eapply Inv_process; eassumption.
  - exact ND'.
  - intros x Hx. apply (process_keeps t orc s a s1 x (Inv_InvS s I) Ha E); [apply Hl; right; exact Hx|].
    intros C. apply Hn. rewrite <- C. apply in_map. exact Hx.
  - intros x Hx Hty Hst Hle. rewrite (Fr x Hx). apply (V x (or_intror Hx)); assumption.
  - intros x Hx Hty Hst Hle. rewrite (Fr x Hx). apply (V' x (or_intror Hx)); assumption.
Qed.

Theorem begin_block_orc_indep s t orc orc' :
  Inv s -> orc_ok s t orc -> orc_ok s t orc' -> begin_block s t orc = begin_block s t orc'.
Proof.
  intros I H H'. unfold begin_block. cbv zeta.
  apply process_all_orc_indep.
  - apply Inv_with_now, I.
  - apply (Inv_ids_ok s I).
  - auto.
  - intros a Ha Hty Hst Hle. apply (H a Ha Hty Hst Hle).
  - intros a Ha Hty Hst Hle. apply (H' a Ha Hty Hst Hle).
Qed.

(* the transition of a block, ordinary or with an injected fault, is the same for every valid oracle *)
Theorem block_oracle_irrelevant s t orc orc' :
  Inv s -> oracle_ok s (OBlock t orc) -> oracle_ok s (OBlock t orc') ->
  step s (OBlock t orc) = step s (OBlock t orc')
  /\ forall k, step s (OFaultBlock t orc k) = step s (OFaultBlock t orc' k).
Proof.
  intros I H H'.
  pose proof (begin_block_orc_indep s t orc orc' I (oracle_ok_orc_ok _ _ _ H) (oracle_ok_orc_ok _ _ _ H')) as E.
  split; [|intros k]; cbn [step]; rewrite E; reflexivity.
Qed.

(* in particular every valid oracle gives the transition of the oracle computed from the state itself *)
Corollary block_is_a_function_of_the_state s t orc :
  Inv s -> oracle_ok s (OBlock t orc) -> step s (OBlock t orc) = step s (OBlock t (LiveFacts.natural_orc s)).
Proof.
  intros I H. apply (block_oracle_irrelevant s t orc (LiveFacts.natural_orc s) I H (LiveFacts.natural_oracle_ok s t I)).
Qed.
