(* A. Closed form of the sweep of types.Match.
   The sweep is split into a pure, order-dependent assignment `assign` (what each bid gets,
   in sweep order) and order-independent sums of it (what each bidder gets: min(cap, asked)). *)
From Coq Require Import ZArith NArith List Bool Arith Lia Permutation Sorting.
From FR Require Import Dec Types Match Spec.
From FR.Proofs Require Import MatchBase.
Import ListNotations.
Open Scope Z_scope.
Opaque P.

(* the per-bidder table, read with default (0,0) -- exactly how calc_batch reads it *)
Definition getb (l : list (N * (Z * Z))) (u : N) : Z * Z :=
  match lookup_bidder l u with Some x => x | None => (0, 0) end.

Lemma getb_nil u : getb [] u = (0, 0).
Proof. reflexivity. Qed.

Lemma getb_add l u m pay v :
  getb (add_bidder l u m pay) v =
  if N.eqb v u then (fst (getb l u) + m, snd (getb l u) + pay) else getb l v.
Proof.
  unfold getb. induction l as [|[w [m0 p0]] l IH]; cbn [add_bidder lookup_bidder].
  - rewrite (N.eqb_sym u v). destruct (N.eqb_spec v u) as [->|NE]; cbn [fst snd]; [|reflexivity].
    f_equal.
  - destruct (N.eqb_spec w u) as [->|NE].
    + cbn [lookup_bidder fst snd].
      rewrite (N.eqb_sym u v). destruct (N.eqb v u); reflexivity.
    + cbn [lookup_bidder]. destruct (N.eqb_spec w v) as [E|NE2].
      * subst w. destruct (N.eqb_spec v u) as [E|_]; [contradiction|reflexivity].
      * rewrite IH. reflexivity.
Qed.

(* what each bid receives, in sweep order, under remaining caps cz *)
Fixpoint assign (p : Z) (l : list bid) (cz : N -> Z) : list (bid * Z) :=
  match l with
  | [] => []
  | b :: rest =>
      let m := Z.min (bid_qty_at b p) (cz (b_bidder b)) in
      (b, m) :: assign p rest (upd cz (b_bidder b) (cz (b_bidder b) - m))
  end.

Definition of_bidder (u : N) (asg : list (bid * Z)) : list (bid * Z) :=
  filter (fun x => N.eqb (b_bidder (fst x)) u) asg.
(* matched amount and payment of bidder u under an assignment *)
Definition got (u : N) (asg : list (bid * Z)) : Z := sumZ (map snd (of_bidder u asg)).
Definition paid_in (p : Z) (u : N) (asg : list (bid * Z)) : Z :=
  sumZ (map (fun x => pay_of_qty (snd x) p) (of_bidder u asg)).
Definition matched_ids (asg : list (bid * Z)) : list N :=
  map (fun x => b_id (fst x)) (filter (fun x => 0 <? snd x) asg).
(* total quantity bidder u's bids in l ask for at price p *)
Definition asked (p : Z) (u : N) (l : list bid) : Z :=
  sumZ (map (fun b => bid_qty_at b p) (filter (fun b => N.eqb (b_bidder b) u) l)).

Lemma got_cons u x asg :
  got u (x :: asg) = (if N.eqb (b_bidder (fst x)) u then snd x else 0) + got u asg.
Proof.
  unfold got, of_bidder. cbn [filter]. destruct (N.eqb _ _); cbn [map]; rewrite ?sumZ_cons; lia.
Qed.
Lemma paid_in_cons p u x asg :
  paid_in p u (x :: asg) = (if N.eqb (b_bidder (fst x)) u then pay_of_qty (snd x) p else 0) + paid_in p u asg.
Proof.
  unfold paid_in, of_bidder. cbn [filter]. destruct (N.eqb _ _); cbn [map]; rewrite ?sumZ_cons; lia.
Qed.
Lemma asked_cons p u b l :
  asked p u (b :: l) = (if N.eqb (b_bidder b) u then bid_qty_at b p else 0) + asked p u l.
Proof.
  unfold asked. cbn [filter]. destruct (N.eqb _ _); cbn [map]; rewrite ?sumZ_cons; lia.
Qed.

Lemma asked_nonneg p u l : (forall b, In b l -> 0 <= bid_qty_at b p) -> 0 <= asked p u l.
Proof.
  intros H. unfold asked. apply sumZ_map_nonneg. intros b Hb. apply filter_In in Hb. apply H, Hb.
Qed.

Lemma assign_fst p l : forall cz, map fst (assign p l cz) = l.
Proof. induction l as [|b l IH]; intros cz; cbn [assign map fst]; [reflexivity|]. rewrite IH. reflexivity. Qed.

Lemma assign_length p l cz : length (assign p l cz) = length l.
Proof. rewrite <- (assign_fst p l cz) at 2. rewrite map_length. reflexivity. Qed.

(* every bid gets between 0 and what it asks for *)
Lemma assign_bounds p l : forall cz,
  (forall b, In b l -> 0 <= bid_qty_at b p) ->
  (forall b, In b l -> 0 <= cz (b_bidder b)) ->
  forall x, In x (assign p l cz) -> 0 <= snd x <= bid_qty_at (fst x) p.
Proof.
  induction l as [|b l IH]; intros cz Hq Hc x Hx; [destruct Hx|].
  cbn [assign] in Hx. destruct Hx as [<-|Hx].
  - cbn [fst snd]. pose proof (Hq b (or_introl eq_refl)). pose proof (Hc b (or_introl eq_refl)). lia.
  - apply (IH (upd cz (b_bidder b) (cz (b_bidder b) - Z.min (bid_qty_at b p) (cz (b_bidder b))))).
    + intros b' Hb'. apply Hq. right. exact Hb'.
    + intros b' Hb'. unfold upd. pose proof (Hq b (or_introl eq_refl)). pose proof (Hc b (or_introl eq_refl)).
      destruct (N.eqb_spec (b_bidder b') (b_bidder b)) as [E|NE]; [lia|]. apply Hc. right. exact Hb'.
    + exact Hx.
Qed.

Lemma assign_nonneg p l cz :
  (forall b, In b l -> 0 <= bid_qty_at b p) ->
  (forall b, In b l -> 0 <= cz (b_bidder b)) ->
  0 <= sumZ (map snd (assign p l cz)).
Proof.
  intros Hq Hc. apply sumZ_map_nonneg. intros x Hx. apply (assign_bounds p l cz Hq Hc x Hx).
Qed.

(* order independence, per bidder: the bidder receives min(cap, asked) *)
Lemma assign_got p u l : forall cz,
  (forall b, In b l -> 0 <= bid_qty_at b p) ->
  0 <= cz u ->
  got u (assign p l cz) = Z.min (cz u) (asked p u l).
Proof.
  induction l as [|b l IH]; intros cz Hq Hc.
  - cbn [assign]. unfold got, asked. cbn [of_bidder filter map]. rewrite sumZ_nil. lia.
  - cbn [assign]. rewrite got_cons, asked_cons. cbn [fst snd].
    pose proof (Hq b (or_introl eq_refl)) as Hqb.
    pose proof (asked_nonneg p u l (fun b' Hb' => Hq b' (or_intror Hb'))) as Ha.
    set (m := Z.min (bid_qty_at b p) (cz (b_bidder b))).
    rewrite (IH (upd cz (b_bidder b) (cz (b_bidder b) - m))).
    + unfold upd. rewrite (N.eqb_sym u (b_bidder b)).
      destruct (N.eqb_spec (b_bidder b) u) as [E|NE]; [|lia].
      subst m. rewrite E. lia.
    + intros b' Hb'. apply Hq. right. exact Hb'.
    + unfold upd. destruct (N.eqb_spec u (b_bidder b)) as [E|NE]; [|exact Hc].
      subst m. rewrite <- E. lia.
Qed.

(* an assignment's total is the sum of what the bidders get *)
Lemma total_by_bidder (asg : list (bid * Z)) U :
  NoDup U -> (forall x, In x asg -> In (b_bidder (fst x)) U) ->
  sumZ (map snd asg) = sumZ (map (fun u => got u asg) U).
Proof.
  intros HU. induction asg as [|x asg IH]; intros Hin.
  - cbn [map]. rewrite sumZ_nil. symmetry.
    rewrite (sumZ_map_ext _ (fun _ => 0) U) by (intros; reflexivity).
    clear. induction U as [|a U IHU]; cbn [map]; rewrite ?sumZ_cons, ?sumZ_nil; lia.
  - cbn [map]. rewrite sumZ_cons.
    rewrite (sumZ_map_ext (fun u => got u (x :: asg))
               (fun u => (if N.eqb (b_bidder (fst x)) u then snd x else 0) + got u asg) U)
      by (intros u _; apply got_cons).
    rewrite sumZ_map_add. rewrite sumZ_indicator; [|exact HU|apply Hin; left; reflexivity].
    rewrite IH; [reflexivity|]. intros y Hy. apply Hin. right. exact Hy.
Qed.

Lemma matched_ids_nil_iff asg :
  (forall x, In x asg -> 0 <= snd x) ->
  (matched_ids asg = [] <-> sumZ (map snd asg) = 0).
Proof.
  unfold matched_ids. induction asg as [|x asg IH]; intros H.
  - cbn [filter map]. rewrite sumZ_nil. split; reflexivity.
  - cbn [filter map]. rewrite sumZ_cons.
    pose proof (H x (or_introl eq_refl)) as Hx.
    pose proof (sumZ_map_nonneg snd asg (fun y Hy => H y (or_intror Hy))) as Hs.
    specialize (IH (fun y Hy => H y (or_intror Hy))).
    destruct (Z.ltb_spec 0 (snd x)) as [L|L].
    + cbn [map]. split; [discriminate|lia].
    + rewrite IH. lia.
Qed.

(* ------------------------------------------------------------------ *)
(* the sweep computes the assignment, failing exactly when its total exceeds the supply *)

Theorem sweep_assign p supply (U : list N) :
  forall l caps cz total matched byb,
  (forall b, In b l -> In (b_bidder b) U) ->
  (forall b, In b l -> 0 <= bid_qty_at b p) ->
  (forall u, In u U -> caps u = Some (cz u)) ->
  (forall u, In u U -> 0 <= cz u) ->
  total <= supply ->
  match sweep p supply l caps total matched byb with
  | SPanic => False
  | SExceed => supply < total + sumZ (map snd (assign p l cz))
  | SFit r =>
      mr_total r = total + sumZ (map snd (assign p l cz)) /\ mr_total r <= supply /\
      mr_matched r = matched ++ matched_ids (assign p l cz) /\
      forall u, getb (mr_bidders r) u =
                (fst (getb byb u) + got u (assign p l cz), snd (getb byb u) + paid_in p u (assign p l cz))
  end.
Proof.
  induction l as [|b l IH]; intros caps cz total matched byb HinU Hq Hcaps Hcz Htot.
  - cbn [sweep assign map mr_total mr_matched mr_bidders]. rewrite sumZ_nil.
    unfold matched_ids, got, paid_in, of_bidder. cbn [filter map]. rewrite sumZ_nil, app_nil_r.
    repeat split; try lia. intros u. destruct (getb byb u) as [x y]. cbn [fst snd]. f_equal; lia.
  - cbn [sweep assign].
    assert (HbU : In (b_bidder b) U) by (apply HinU; left; reflexivity).
    rewrite (Hcaps _ HbU).
    pose proof (Hq b (or_introl eq_refl)) as Hqb. pose proof (Hcz _ HbU) as Hcb.
    set (m := Z.min (bid_qty_at b p) (cz (b_bidder b))).
    assert (Hm : 0 <= m <= cz (b_bidder b)) by (subst m; lia).
    set (cz' := upd cz (b_bidder b) (cz (b_bidder b) - m)).
    assert (Hcz' : forall u, In u U -> 0 <= cz' u).
    { intros u Hu. subst cz'. unfold upd. destruct (N.eqb u (b_bidder b)); [lia|apply Hcz; exact Hu]. }
    assert (HinU' : forall b', In b' l -> In (b_bidder b') U) by (intros b' Hb'; apply HinU; right; exact Hb').
    assert (Hq' : forall b', In b' l -> 0 <= bid_qty_at b' p) by (intros b' Hb'; apply Hq; right; exact Hb').
    pose proof (assign_nonneg p l cz' Hq' (fun b' Hb' => Hcz' _ (HinU' b' Hb'))) as Hrest.
    cbn [map snd]. rewrite sumZ_cons.
    destruct (Z.ltb_spec supply (total + m)) as [Hex|Hfit]; [lia|].
    set (byb' := add_bidder byb (b_bidder b) m (pay_of_qty m p)).
    assert (Hbyb' : forall u, getb byb' u =
              if N.eqb u (b_bidder b) then (fst (getb byb (b_bidder b)) + m, snd (getb byb (b_bidder b)) + pay_of_qty m p)
              else getb byb u) by (intros u; apply getb_add).
    destruct (Z.ltb_spec 0 m) as [Hpos|Hzero].
    + specialize (IH (upd caps (b_bidder b) (Some (cz (b_bidder b) - m))) cz' (total + m)
                     (matched ++ [b_id b]) byb' HinU' Hq').
      assert (Hcaps' : forall u, In u U -> upd caps (b_bidder b) (Some (cz (b_bidder b) - m)) u = Some (cz' u)).
      { intros u Hu. subst cz'. unfold upd. destruct (N.eqb u (b_bidder b)); [reflexivity|apply Hcaps; exact Hu]. }
      specialize (IH Hcaps' Hcz' Hfit).
      destruct (sweep p supply l _ _ _ _) as [r| |]; [|lia|exact IH].
      destruct IH as (E1 & E2 & E3 & E4). split; [lia|]. split; [exact E2|]. split.
      * rewrite E3. unfold matched_ids. cbn [filter fst snd].
        destruct (Z.ltb_spec 0 m) as [_|C]; [|lia]. cbn [map fst]. rewrite <- app_assoc. reflexivity.
      * intros u. rewrite E4, Hbyb', got_cons, paid_in_cons. cbn [fst snd].
        rewrite (N.eqb_sym (b_bidder b) u).
        destruct (N.eqb_spec u (b_bidder b)) as [->|NE]; cbn [fst snd]; f_equal; lia.
    + assert (m = 0) by lia.
      specialize (IH caps cz' total matched byb' HinU' Hq').
      assert (Hcaps' : forall u, In u U -> caps u = Some (cz' u)).
      { intros u Hu. subst cz'. unfold upd. destruct (N.eqb_spec u (b_bidder b)) as [->|NE].
        - rewrite (Hcaps _ Hu). f_equal. lia.
        - apply Hcaps; exact Hu. }
      specialize (IH Hcaps' Hcz' Htot).
      destruct (sweep p supply l _ _ _ _) as [r| |]; [|lia|exact IH].
      destruct IH as (E1 & E2 & E3 & E4). split; [lia|]. split; [exact E2|]. split.
      * rewrite E3. unfold matched_ids. cbn [filter fst snd].
        destruct (Z.ltb_spec 0 m) as [C|_]; [lia|]. reflexivity.
      * intros u. rewrite E4, Hbyb', got_cons, paid_in_cons. cbn [fst snd].
        rewrite (N.eqb_sym (b_bidder b) u).
        destruct (N.eqb_spec u (b_bidder b)) as [->|NE]; cbn [fst snd]; f_equal; lia.
Qed.

(* A, in closed form: with every bidder capped, the sweep over ANY list of bids l
   - never panics,
   - exceeds iff total + sum over bidders of min(cap, asked) > supply,
   - otherwise reports that sum, gives each bidder min(cap, asked), and lists exactly the bids
     that received a positive amount. *)
Theorem sweep_closed_form p supply U l caps cz total matched byb :
  NoDup U ->
  (forall b, In b l -> In (b_bidder b) U) ->
  (forall b, In b l -> 0 <= bid_qty_at b p) ->
  (forall u, In u U -> caps u = Some (cz u)) ->
  (forall u, 0 <= cz u) ->
  total <= supply ->
  let D := sumZ (map (fun u => Z.min (cz u) (asked p u l)) U) in
  match sweep p supply l caps total matched byb with
  | SPanic => False
  | SExceed => supply < total + D
  | SFit r =>
      total + D <= supply /\ mr_total r = total + D /\
      mr_matched r = matched ++ matched_ids (assign p l cz) /\
      (mr_matched r = matched <-> D = 0) /\
      forall u, fst (getb (mr_bidders r) u) = fst (getb byb u) + Z.min (cz u) (asked p u l)
  end.
Proof.
  intros HU HinU Hq Hcaps Hcz Htot D.
  assert (ED : sumZ (map snd (assign p l cz)) = D).
  { rewrite (total_by_bidder _ U HU).
    - subst D. apply sumZ_map_ext. intros u _. apply assign_got; [exact Hq|apply Hcz].
    - intros x Hx. apply HinU. rewrite <- (assign_fst p l cz). apply in_map. exact Hx. }
  pose proof (sweep_assign p supply U l caps cz total matched byb HinU Hq Hcaps (fun u _ => Hcz u) Htot) as H.
  destruct (sweep p supply l caps total matched byb) as [r| |]; [|lia|exact H].
  destruct H as (E1 & E2 & E3 & E4). rewrite ED in E1.
  split; [lia|]. split; [exact E1|]. split; [exact E3|]. split.
  - rewrite E3, <- ED. rewrite <- matched_ids_nil_iff.
    + split; intros E.
      * apply (app_inv_head matched). rewrite app_nil_r. exact E.
      * rewrite E. apply app_nil_r.
    + intros x Hx. apply (assign_bounds p l cz Hq (fun b _ => Hcz _) x Hx).
  - intros u. rewrite E4. cbn [fst]. rewrite assign_got; [reflexivity|exact Hq|apply Hcz].
Qed.
