(* The global invariant Inv (InvDefs.v) holds in every reachable state: all eleven parts, every operation.
   Static parts: InvStatic*.v; vesting queues: VestingInv.v; allow-list: AllowFacts.v; escrow and remainder:
   EscrowTx.v / EscrowBlock.v.  Here they are put together, auction by auction inside a block, and the
   liveness of block processing (C07) is derived on the way. *)
From Coq Require Import ZArith NArith List Bool Arith Lia.
From FR Require Import Dec Types Bank Match Step Genesis Model Spec.
From FR.Proofs Require Import InvDefs FrameFacts TxFacts BlockFacts InvStaticBase InvStaticBlock.
From FR.Proofs Require PrecondBase VestingInv AllowFacts InvStatic.
From FR.Proofs Require Import EscrowBase EscrowTx EscrowBlock.
Import ListNotations.
Open Scope Z_scope.

Lemma Inv_InvS s : Inv s -> InvS s.
Proof. intros [A B C D E F G H J K L]. split; assumption. Qed.

Lemma Inv_intro s : InvS s -> bids_allowed s -> remaining_inv s -> vqs_wf s -> escrow_inv s -> Inv s.
Proof. intros [A B C D J K L] E F G H. split; assumption. Qed.

Lemma Inv_ids_ok s : Inv s -> ids_ok s.
Proof. intros I. apply ids_seq_ids_ok, (inv_ids _ I). Qed.

Lemma Inv_find_in s a : Inv s -> In a (st_auctions s) -> find_auction s (a_id a) = Some a.
Proof. intros I Ha. apply ids_ok_find; [apply Inv_ids_ok, I|exact Ha]. Qed.

(* ------------------------------------------------------------------ a hook that returned did not veto *)
Lemma allocate_no_veto s a mi w s' : allocate s a mi w = Ok s' -> no_veto s H_BeforeAllocated = true.
Proof.
  unfold allocate. cbv zeta. intros H. apply bind_inv in H. destruct H as [s1 [H1 _]].
  apply PrecondBase.call_hook_ok_inv in H1. apply H1.
Qed.
Lemma close_fixed_no_veto s a s' : close_fixed s a = Ok s' -> no_veto s H_BeforeAllocated = true.
Proof.
  unfold close_fixed. cbv zeta. intros H. apply bind_inv in H. destruct H as [s1 [H1 _]].
  eapply allocate_no_veto; exact H1.
Qed.
Lemma settle_batch_no_veto s a mi s' : settle_batch s a mi = Ok s' -> no_veto s H_BeforeAllocated = true.
Proof.
  unfold settle_batch. intros H. apply bind_inv in H. destruct H as [s1 [H1 _]].
  eapply allocate_no_veto; exact H1.
Qed.

(* ------------------------------------------------------------------ one auction of a block: escrow and remainder *)
Lemma process_escrow t orc s a s' :
  Inv s -> find_auction s (a_id a) = Some a -> process t orc s a = Ok s' ->
  escrow_inv s' /\ remaining_inv s'.
Proof.
  intros I Fa H. pose proof (Inv_ids_ok s I) as OK. unfold process in H.
  assert (Hsame : escrow_inv s /\ remaining_inv s) by (split; [apply (inv_escrow _ I)|apply (inv_remaining _ I)]).
  destruct (a_status a) eqn:St.
  - destruct (a_start a <=? t); injection H as <-; [|exact Hsame].
    apply (put_auction_escrow s a (set_status a Started)); try reflexivity;
      try apply (inv_escrow _ I); try apply (inv_remaining _ I); try apply OK; try exact Fa.
    + cbn [a_status set_status]. intros _. rewrite St. reflexivity.
    + cbn [a_status set_status]. intros _. right. destruct (inv_fresh _ I) as [_ Hf].
      apply Hf; [apply (find_auction_some _ _ _ Fa)|left; exact St].
    + cbn [a_status set_status]. discriminate.
    + cbn [a_status set_status]. discriminate.
    + rewrite St. discriminate.
  - destruct (last_end a <=? t); [|injection H as <-; exact Hsame].
    destruct (a_type a) eqn:Ty.
    + pose proof (close_fixed_no_veto _ _ _ H) as Hnv.
      destruct (close_fixed_live s a I Fa St Ty Hnv) as (s'' & H' & E & R & _).
      rewrite H in H'. injection H' as <-. split; assumption.
    + pose proof H as H0. apply close_batch_inv in H0. destruct H0 as (order & mi & HV & HC & Hd).
      destruct (close_batch_core s orc a order I Fa St Ty HV) as (mi' & HC' & K).
      rewrite HC in HC'. injection HC' as <-.
      destruct K as (s'' & H' & E & R).
      { destruct (decision s a mi) eqn:D; [left; reflexivity|right].
        apply settle_batch_no_veto in Hd.
        rewrite <- Hd. symmetry. apply PrecondBase.no_veto_ext. reflexivity. }
      rewrite H in H'. injection H' as <-. split; assumption.
  - destruct (release_live s a t I Fa St) as (s'' & H' & E & R).
    rewrite H in H'. injection H' as <-. split; assumption.
  - injection H as <-. exact Hsame.
  - injection H as <-. exact Hsame.
Qed.

(* ------------------------------------------------------------------ one auction of a block: the whole invariant *)
Theorem Inv_process t orc s a s' :
  Inv s -> In a (st_auctions s) -> process t orc s a = Ok s' -> Inv s'.
Proof.
  intros I Ha H. pose proof (Inv_find_in s a I Ha) as Fa.
  destruct (process_escrow t orc s a s' I Fa H) as [E R].
  apply Inv_intro.
  - eapply InvS_process; [apply Inv_InvS, I|exact Ha|exact H].
  - apply (AllowFacts.step_rel_inv s s'); [|apply (inv_bids_allowed _ I)].
    eapply AllowFacts.keeps_rel; [apply AllowFacts.process_keeps|exact H].
  - exact R.
  - eapply VestingInv.vqs_wf_process; [apply Inv_ids_ok, I|apply (inv_vqs _ I)|exact Fa| |exact H].
    pose proof (inv_auctions _ I) as W. unfold auctions_wf in W. rewrite Forall_forall in W.
    apply (awf_scheds _ (W a Ha)).
  - exact E.
Qed.

(* ------------------------------------------------------------------ the walk over the snapshot of the store *)
(* the records of the snapshot that are still to be processed are the current records of the store *)
Theorem Inv_process_all t orc : forall l s s',
  Inv s -> NoDup (map a_id l) -> (forall a, In a l -> In a (st_auctions s)) ->
  process_all t orc s l = Ok s' -> Inv s'.
Proof.
  induction l as [|a rest IH]; cbn [process_all]; intros s s' I ND Hl H.
  - injection H as <-. exact I.
  - destruct (process t orc s a) as [s1|] eqn:E; cbn [bind] in H; [|discriminate].
    cbn [map] in ND. inversion ND as [|? ? Hn ND']; subst.
    assert (Ha : In a (st_auctions s)) by (apply Hl; left; reflexivity).
    apply (IH s1 s'); [eapply Inv_process; eassumption|exact ND'| |exact H].
    intros x Hx. apply (process_keeps t orc s a s1 x (Inv_InvS s I) Ha E); [apply Hl; right; exact Hx|].
    intros C. apply Hn. rewrite <- C. apply in_map. exact Hx.
Qed.

Lemma Inv_ext s s' :
  st_params s' = st_params s -> st_auctions s' = st_auctions s -> st_bids s' = st_bids s ->
  st_allowed s' = st_allowed s -> st_vqs s' = st_vqs s -> st_aseq s' = st_aseq s ->
  st_bseq s' = st_bseq s -> st_mlen s' = st_mlen s -> st_bal s' = st_bal s -> Inv s -> Inv s'.
Proof.
  intros Hp Ha Hb Hl Hv Hq Hs Hm Hbal I.
  assert (C : ceq s s') by (repeat split; assumption).
  apply Inv_intro.
  - apply (InvS_ceq s s' C), Inv_InvS, I.
  - intros b Hb'. rewrite Hb in Hb'. unfold find_allowed. rewrite Hl. apply (inv_bids_allowed _ I b Hb').
  - destruct (escrow_ext s s' Ha Hb Hv Hbal) as [_ Y]. apply Y, (inv_remaining _ I).
  - apply (VestingInv.vqs_wf_ext s s' Hv Ha), (inv_vqs _ I).
  - destruct (escrow_ext s s' Ha Hb Hv Hbal) as [X _]. apply X, (inv_escrow _ I).
Qed.

Lemma Inv_with_now s t : Inv s -> Inv (with_now s t).
Proof. apply Inv_ext; reflexivity. Qed.
Lemma Inv_with_trace s tr : Inv s -> Inv (with_trace s tr).
Proof. apply Inv_ext; reflexivity. Qed.
Lemma Inv_with_listeners s l : Inv s -> Inv (with_listeners s l).
Proof. apply Inv_ext; reflexivity. Qed.

Theorem Inv_begin_block s t orc s' : Inv s -> begin_block s t orc = Ok s' -> Inv s'.
Proof.
  unfold begin_block. cbv zeta. intros I H.
  apply (Inv_process_all t orc _ _ _ (Inv_with_now s t I)) in H; [exact H| |auto].
  apply (Inv_ids_ok s I).
Qed.

(* ------------------------------------------------------------------ every operation but GENESIS *)
Theorem Inv_step_nogen s o : Inv s -> o <> OGenesis -> Inv (snd (step s o)).
Proof.
  intros I Hg. destruct (is_block o) eqn:B.
  - destruct (step_block s o B) as [[_ H]|[_ (tr & ->)]].
    + eapply Inv_begin_block; eassumption.
    + apply Inv_with_trace, Inv_with_now, I.
  - destruct (escrow_step_tx s o I B Hg) as [E R].
    apply Inv_intro.
    + apply InvStatic.InvS_step; [apply Inv_InvS, I|exact Hg].
    + apply AllowFacts.bids_allowed_step, (inv_bids_allowed _ I).
    + exact R.
    + apply VestingInv.vqs_wf_step; [apply Inv_ids_ok, I|apply VestingInv.auctions_wf_scheds, (inv_auctions _ I)|apply (inv_vqs _ I)|exact Hg].
    + exact E.
Qed.

(* ------------------------------------------------------------------ every operation, every history *)
From FR.Proofs Require GenesisInv.

Theorem Inv_step s o : Inv s -> Inv (snd (step s o)).
Proof.
  intros I. destruct o as [m|id l|id u max|t orc|t orc k|from to d amt|ls|];
    try (apply Inv_step_nogen; [exact I|discriminate]).
  apply GenesisInv.Inv_genesis, I.
Qed.

Theorem Inv_run : forall ops s, Inv s -> Inv (run s ops).
Proof.
  unfold run. induction ops as [|o ops IH]; cbn [fold_left]; intros s I; [exact I|].
  apply IH, Inv_step, I.
Qed.

(* the empty module over any non-negative bank *)
Theorem Inv_init bal now sw p :
  (forall x d, 0 <= bal x d) -> coins_ok (p_cfee p) None = true -> coins_ok (p_bfee p) None = true ->
  Inv (init_state bal now sw p).
Proof.
  intros Hb H1 H2. apply Inv_intro.
  - apply InvStatic.InvS_init; assumption.
  - intros b [].
  - intros a [].
  - split; [constructor|]. split; [constructor|]. intros a [].
  - split; [exact Hb|]. intros r id d. unfold owed. cbn. apply Hb.
Qed.

Corollary Inv_reachable bal now sw p ops :
  (forall x d, 0 <= bal x d) -> coins_ok (p_cfee p) None = true -> coins_ok (p_bfee p) None = true ->
  Inv (run (init_state bal now sw p) ops).
Proof. intros Hb H1 H2. apply Inv_run, Inv_init; assumption. Qed.

(* ------------------------------------------------------------------ liveness of block processing (C07) *)
(* the sweep order the oracle supplies for every batch auction that is due is valid *)
Definition orc_ok (s : state) (t : Z) (orc : list (N * list N)) : Prop :=
  forall a, In a (st_auctions s) -> a_type a = Batch -> a_status a = Started -> last_end a <= t ->
    exists order, valid_order (bids_of s (a_id a)) (oracle_ids orc (a_id a)) = Some order.

Lemma process_live t orc s a :
  Inv s -> find_auction s (a_id a) = Some a -> no_veto s H_BeforeAllocated = true ->
  (a_type a = Batch -> a_status a = Started -> last_end a <= t ->
   exists order, valid_order (bids_of s (a_id a)) (oracle_ids orc (a_id a)) = Some order) ->
  exists s', process t orc s a = Ok s'.
Proof.
  intros I Fa Hnv Horc. unfold process. destruct (a_status a) eqn:St.
  - destruct (a_start a <=? t); eauto.
  - destruct (last_end a <=? t) eqn:Et; [|eauto]. apply Z.leb_le in Et.
    destruct (a_type a) eqn:Ty.
    + destruct (close_fixed_live s a I Fa St Ty Hnv) as (s' & H & _). eauto.
    + destruct (Horc eq_refl eq_refl Et) as [order HV].
      destruct (close_batch_core s orc a order I Fa St Ty HV) as (mi & _ & K).
      destruct K as (s' & H & _); [right; exact Hnv|]. eauto.
  - destruct (release_live s a t I Fa St) as (s' & H & _). eauto.
  - eauto.
  - eauto.
Qed.

(* what processing one auction leaves untouched of another one that is still waiting in the snapshot *)
Theorem process_all_live t orc : forall l s,
  Inv s -> NoDup (map a_id l) -> (forall a, In a l -> In a (st_auctions s)) ->
  no_veto s H_BeforeAllocated = true ->
  (forall a, In a l -> a_type a = Batch -> a_status a = Started -> last_end a <= t ->
     exists order, valid_order (bids_of s (a_id a)) (oracle_ids orc (a_id a)) = Some order) ->
  exists s', process_all t orc s l = Ok s'.
Proof.
  induction l as [|a rest IH]; cbn [process_all]; intros s I ND Hl Hnv Horc; [eauto|].
  cbn [map] in ND. inversion ND as [|? ? Hn ND']; subst.
  assert (Ha : In a (st_auctions s)) by (apply Hl; left; reflexivity).
  pose proof (Inv_find_in s a I Ha) as Fa.
  destruct (process_live t orc s a I Fa Hnv (Horc a (or_introl eq_refl))) as [s1 E].
  rewrite E. cbn [bind].
  destruct (process_spec _ _ _ _ _ E) as [PE _].
  apply IH.
  - eapply Inv_process; eassumption.
  - exact ND'.
  - intros x Hx. apply (process_keeps t orc s a s1 x (Inv_InvS s I) Ha E); [apply Hl; right; exact Hx|].
    intros C. apply Hn. rewrite <- C. apply in_map. exact Hx.
  - rewrite <- Hnv. apply PrecondBase.no_veto_ext. destruct (pe_glob _ _ _ PE) as (_ & _ & _ & HL & _). exact HL.
  - intros x Hx Hty Hst Hle. destruct (Horc x (or_intror Hx) Hty Hst Hle) as [order HV]. exists order.
    assert (Hne : a_id x <> a_id a) by (intros C; apply Hn; rewrite <- C; apply in_map; exact Hx).
    rewrite (se_bids _ _ _ (pe_frame _ _ _ PE _ Hne)). exact HV.
Qed.

Theorem begin_block_live s t orc :
  Inv s -> no_veto s H_BeforeAllocated = true -> orc_ok s t orc -> exists s', begin_block s t orc = Ok s'.
Proof.
  intros I Hnv Horc. unfold begin_block. cbv zeta.
  apply process_all_live.
  - apply Inv_with_now, I.
  - apply (Inv_ids_ok s I).
  - auto.
  - exact Hnv.
  - intros a Ha. apply (Horc a Ha).
Qed.

(* InvDefs.oracle_ok is the same condition, phrased with the oracle entry *)
Lemma oracle_ok_orc_ok s t orc : oracle_ok s (OBlock t orc) -> orc_ok s t orc.
Proof.
  intros H a Ha Hty Hst Hle. destruct (H a Ha Hty Hst Hle) as (ids & order & Hf & HV).
  exists order. unfold oracle_ids. rewrite Hf. exact HV.
Qed.

Theorem block_never_fails s t orc :
  Inv s -> no_veto s H_BeforeAllocated = true -> oracle_ok s (OBlock t orc) ->
  fst (step s (OBlock t orc)) = BlockOk /\ Inv (snd (step s (OBlock t orc))).
Proof.
  intros I Hnv Ho. destruct (begin_block_live s t orc I Hnv (oracle_ok_orc_ok _ _ _ Ho)) as [s' H].
  cbn [step]. rewrite H. cbn [fst snd]. split; [reflexivity|]. eapply Inv_begin_block; eassumption.
Qed.
