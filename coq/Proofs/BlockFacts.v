(* What BeginBlocker does: one auction at a time (process), then the whole list (process_all). *)
From Coq Require Import ZArith NArith List Bool Arith Lia.
From FR Require Import Dec Types Bank Match Step Genesis Model Spec.
From FR.Proofs Require Import FrameFacts TxFacts.
Import ListNotations.
Open Scope Z_scope.

(* only balances, transfers and the hook trace change, and no escrow of another auction *)
Definition bt_only (id : N) (s s1 : state) : Prop :=
  exists b xs tr, s1 = with_trace (with_bank s b xs) tr /\ esc_keep id (st_bal s) b.

Lemma bt_only_trans id s1 s2 s3 : bt_only id s1 s2 -> bt_only id s2 s3 -> bt_only id s1 s3.
Proof.
  intros (b & xs & tr & -> & K) (b' & xs' & tr' & -> & K').
  exists b', xs', tr'. split; [reflexivity|]. eapply esc_keep_trans; [exact K|exact K'].
Qed.
Lemma bt_only_bank id s b xs : esc_keep id (st_bal s) b -> bt_only id s (with_bank s b xs).
Proof.
  intros K. exists b, xs, (st_trace s). split; [|exact K].
  symmetry. apply (with_trace_eta (with_bank s b xs)).
Qed.
Lemma bt_only_trace id s tr : bt_only id s (with_trace s tr).
Proof.
  exists (st_bal s), (st_xfers s), tr. split; [|apply esc_keep_refl]. rewrite with_bank_eta. reflexivity.
Qed.

Lemma allocate_inv s a mi w s' : allocate s a mi w = Ok s' -> bt_only (a_id a) s s'.
Proof.
  unfold allocate. cbv zeta. intros H. inv_step H. inv_hook_as E tr1.
  apply (pay_out_inv (a_id a)) in H; [|reflexivity]. destruct H as (b & xs & -> & K).
  eapply bt_only_trans; [apply bt_only_trace|apply bt_only_bank; exact K].
Qed.

Lemma refund_selling_inv s a s' : refund_selling s a = Ok s' -> bt_only (a_id a) s s'.
Proof.
  unfold refund_selling. intros H. apply (send_inv (a_id a)) in H; [|reflexivity|exact I].
  destruct H as (b & xs & -> & K). apply bt_only_bank. exact K.
Qed.

Definition settled_st (a : auction) : status := match a_scheds a with [] => Finished | _ => VestingS end.

Definition vest_shape (s1 s' : state) (a : auction) : Prop :=
  exists b xs, esc_keep (a_id a) (st_bal s1) b /\
    ((a_scheds a = [] /\ s' = put_auction (with_bank s1 b xs) (set_status a (settled_st a)))
     \/ (exists vs, (forall v, In v vs -> v_auction v = a_id a) /\
          s' = put_auction (with_vqs (with_bank s1 b xs) (st_vqs s1 ++ vs)) (set_status a (settled_st a)))).

Lemma split_auction a total : forall vs rem v, In v (split a total rem vs) -> v_auction v = a_id a.
Proof.
  induction vs as [|x vs IH]; cbn [split]; intros rem v HI; [contradiction|].
  destruct HI as [<-|HI]; [reflexivity|]. eapply IH. exact HI.
Qed.

Lemma apply_vesting_inv s a s' : apply_vesting s a = Ok s' -> vest_shape s s' a.
Proof.
  unfold apply_vesting. cbv zeta. intros H. unfold vest_shape, settled_st.
  destruct (a_scheds a) as [|v vs] eqn:ES.
  - inv_step H. inv_send_as (a_id a) E b1 xs1 K1. inv_step H. subst s'.
    exists b1, xs1. split; [exact K1|]. left. split; reflexivity.
  - inv_step H. inv_send_as (a_id a) E b1 xs1 K1. inv_step H. subst s'.
    exists b1, xs1. split; [exact K1|]. right.
    exists (split a (st_bal s (Escrow Paying (a_id a)) (a_pay_denom a))
                  (st_bal s (Escrow Paying (a_id a)) (a_pay_denom a)) (v :: vs)).
    split; [|reflexivity]. intros x Hx. eapply split_auction. exact Hx.
Qed.

Definition settle_shape (s s' : state) (a : auction) : Prop :=
  exists s1, bt_only (a_id a) s s1 /\ vest_shape s1 s' a.

Lemma close_fixed_inv s a s' : close_fixed s a = Ok s' -> settle_shape s s' a.
Proof.
  unfold close_fixed. cbv zeta. intros H. inv_step H. inv_step H.
  apply allocate_inv in E. apply refund_selling_inv in E0. apply apply_vesting_inv in H.
  exists s1. split; [eapply bt_only_trans; eassumption|exact H].
Qed.

Lemma settle_batch_inv s a mi s' : settle_batch s a mi = Ok s' -> settle_shape s s' a.
Proof.
  unfold settle_batch. intros H. inv_step H. inv_step H. inv_step H.
  apply allocate_inv in E. apply refund_selling_inv in E0. apply apply_vesting_inv in H.
  apply (pay_out_inv (a_id a)) in E1; [|reflexivity]. destruct E1 as (b & xs & -> & K).
  eexists. split; [|exact H].
  eapply bt_only_trans; [exact E|]. eapply bt_only_trans; [exact E0|]. apply bt_only_bank. exact K.
Qed.

(* the decision of CloseBatchAuction *)
Definition oracle_ids (orc : list (N * list N)) (id : N) : list N :=
  match find (fun x => N.eqb (fst x) id) orc with Some (_, l) => l | None => [] end.
Definition decision (s : state) (a : auction) (mi : minfo) : bool :=
  negb (N.eqb (a_max_round a + 1) (N.of_nat (length (a_ends a))))
  && ((st_mlen s (a_id a) =? 0)
      || extend_rule (Z.of_nat (length (mi_matched mi))) (st_mlen s (a_id a)) (a_rate a)).
Definition extended (s : state) (a : auction) (mi : minfo) : auction :=
  set_ends (set_matched_price a (mi_price mi)) (a_ends a ++ [last_end a + p_period (st_params s) * day_ns]).

Lemma close_batch_unfold s orc a order mi :
  valid_order (bids_of s (a_id a)) (oracle_ids orc (a_id a)) = Some order ->
  calc_batch a (bids_of s (a_id a)) order (allowed_of s (a_id a)) = Some mi ->
  close_batch s orc a =
    if decision s a mi
    then Ok (put_auction (set_flags s (a_id a) (mi_matched mi)) (extended s a mi))
    else settle_batch (set_flags s (a_id a) (mi_matched mi)) (set_matched_price a (mi_price mi)) mi.
Proof.
  intros HV HC. unfold close_batch. cbv zeta. fold (oracle_ids orc (a_id a)). rewrite HV, HC.
  unfold decision, extend_round, extended. cbn [a_max_round a_ends a_rate set_matched_price].
  destruct (N.eqb (a_max_round a + 1) (N.of_nat (length (a_ends a)))); cbn [negb andb]; [reflexivity|].
  destruct (st_mlen s (a_id a) =? 0); cbn [orb]; [reflexivity|].
  destruct (extend_rule (Z.of_nat (length (mi_matched mi))) (st_mlen s (a_id a)) (a_rate a)); reflexivity.
Qed.

Lemma close_batch_inv s orc a s' :
  close_batch s orc a = Ok s' ->
  exists order mi,
    valid_order (bids_of s (a_id a)) (oracle_ids orc (a_id a)) = Some order /\
    calc_batch a (bids_of s (a_id a)) order (allowed_of s (a_id a)) = Some mi /\
    if decision s a mi
    then s' = put_auction (set_flags s (a_id a) (mi_matched mi)) (extended s a mi)
    else settle_batch (set_flags s (a_id a) (mi_matched mi)) (set_matched_price a (mi_price mi)) mi = Ok s'.
Proof.
  intros H.
  destruct (valid_order (bids_of s (a_id a)) (oracle_ids orc (a_id a))) as [order|] eqn:HV.
  2:{ unfold close_batch in H. cbv zeta in H. fold (oracle_ids orc (a_id a)) in H. rewrite HV in H. discriminate H. }
  destruct (calc_batch a (bids_of s (a_id a)) order (allowed_of s (a_id a))) as [mi|] eqn:HC.
  2:{ unfold close_batch in H. cbv zeta in H. fold (oracle_ids orc (a_id a)) in H. rewrite HV, HC in H. discriminate H. }
  exists order, mi. split; [reflexivity|]. split; [exact HC|].
  rewrite (close_batch_unfold s orc a order mi HV HC) in H.
  destruct (decision s a mi); [injection H as <-; reflexivity|exact H].
Qed.

(* ------------------------------------------------------------------ the effect of processing one auction *)
Record proc_eff (id : N) (s s' : state) : Prop := {
  pe_frame : frame id s s';
  pe_glob : glob_eq s s';
  pe_bids : bids_evolve s s';
  pe_bseq : st_bseq s' = st_bseq s;
  pe_allowed : st_allowed s' = st_allowed s }.

Lemma proc_eff_refl id s : proc_eff id s s.
Proof.
  split; [apply frame_refl|apply glob_eq_refl|apply bids_evolve_same; reflexivity|reflexivity|reflexivity].
Qed.
Lemma proc_eff_trans id s1 s2 s3 : proc_eff id s1 s2 -> proc_eff id s2 s3 -> proc_eff id s1 s3.
Proof.
  intros [A1 A2 A3 A4 A5] [B1 B2 B3 B4 B5]. split.
  - eapply frame_trans; eassumption.
  - eapply glob_eq_trans; eassumption.
  - eapply bids_evolve_trans; eassumption.
  - congruence.
  - congruence.
Qed.

Lemma proc_eff_bt_only id s s1 : bt_only id s s1 -> proc_eff id s s1.
Proof.
  intros (b & xs & tr & -> & K). split;
    [frame_tac|glob_tac|apply bids_evolve_same; reflexivity|reflexivity|reflexivity].
Qed.
Lemma proc_eff_put_auction s a : proc_eff (a_id a) s (put_auction s a).
Proof.
  split; [frame_tac|glob_tac|apply bids_evolve_same; reflexivity|reflexivity|reflexivity].
Qed.
Lemma proc_eff_set_flags id s m : proc_eff id s (set_flags s id m).
Proof.
  split; [frame_tac|glob_tac| |reflexivity|reflexivity].
  eapply bids_evolve_map; [reflexivity|]. intros b. cbn beta.
  destruct (N.eqb (b_auction b) id); [apply bid_keys_set_matched|apply bid_keys_eq_refl].
Qed.
Lemma proc_eff_vest s1 s' a : vest_shape s1 s' a -> proc_eff (a_id a) s1 s'.
Proof.
  intros (b & xs & K & [(_ & ->)|(vs & Hv & ->)]).
  - split; [frame_tac|glob_tac|apply bids_evolve_same; reflexivity|reflexivity|reflexivity].
  - split; [frame_tac|glob_tac|apply bids_evolve_same; reflexivity|reflexivity|reflexivity].
Qed.
Lemma proc_eff_settle s s' a : settle_shape s s' a -> proc_eff (a_id a) s s'.
Proof.
  intros (s1 & B & V). eapply proc_eff_trans; [apply proc_eff_bt_only; exact B|apply proc_eff_vest; exact V].
Qed.
Lemma settle_auctions s s' a :
  settle_shape s s' a -> st_auctions s' = st_auctions (put_auction s (set_status a (settled_st a))).
Proof.
  intros (s1 & (b & xs & tr & -> & K) & (b' & xs' & K' & [(_ & ->)|(vs & Hv & ->)])); reflexivity.
Qed.

(* ReleaseVestingPayingCoin *)
Definition vq_due (t : Z) (v : vq) : bool := (v_time v <=? t) && negb (v_released v).
Fixpoint last_due_rec (t : Z) (vs : list vq) : bool :=
  match vs with
  | [] => false
  | v :: rest => match rest with [] => vq_due t v | _ => last_due_rec t rest end
  end.

Lemma last_due_eq t vs : last_due t vs = last_due_rec t vs.
Proof.
  unfold last_due. induction vs as [|v rest IH]; [reflexivity|].
  cbn [last_due_rec rev]. destruct rest as [|r rs].
  - cbn [rev app]. unfold vq_due. apply andb_comm.
  - rewrite <- IH. cbn [rev]. destruct (rev rs ++ [r]) as [|x l] eqn:E.
    + destruct (rev rs); discriminate E.
    + reflexivity.
Qed.

Lemma release_loop_idle s a t vs :
  (forall v, In v vs -> vq_due t v = false) -> release_loop s a t vs = Ok s.
Proof.
  induction vs as [|v rest IH]; cbn [release_loop]; intros H; [reflexivity|].
  fold (vq_due t v). rewrite (H v (or_introl eq_refl)). apply IH. intros x Hx. apply H. right. exact Hx.
Qed.

Lemma release_loop_eff a t : forall vs s s',
  (forall v, In v vs -> v_auction v = a_id a) -> release_loop s a t vs = Ok s' ->
  proc_eff (a_id a) s s' /\
  st_auctions s' = if last_due_rec t vs then st_auctions (put_auction s (set_status a Finished)) else st_auctions s.
Proof.
  induction vs as [|v rest IH]; cbn [release_loop last_due_rec]; intros s s' Hv H.
  - injection H as <-. split; [apply proc_eff_refl|reflexivity].
  - assert (Hrest : forall x, In x rest -> v_auction x = a_id a) by (intros x Hx; apply Hv; right; exact Hx).
    fold (vq_due t v) in H. destruct (vq_due t v) eqn:D.
    2:{ destruct (IH s s' Hrest H) as [P A]. split; [exact P|].
        destruct rest; [cbn [last_due_rec] in A; exact A|exact A]. }
    inv_step H. inv_send_as (a_id a) E b1 xs1 K1.
    set (g := fun x : vq => if N.eqb (v_auction x) (v_auction v) && (v_time x =? v_time v)
                            then set_v_released x true else x) in *.
    assert (P2 : proc_eff (a_id a) s (with_vqs (with_bank s b1 xs1) (map g (st_vqs (with_bank s b1 xs1))))).
    { split; [|glob_tac|apply bids_evolve_same; reflexivity|reflexivity|reflexivity].
      apply frame_trans with (with_bank s b1 xs1); [frame_tac|].
      apply frame_map_vqs.
      - intros x Hx. unfold g. rewrite (Hv v (or_introl eq_refl)).
        destruct (N.eqb (v_auction x) (a_id a)) eqn:E; [neqb; contradiction|reflexivity].
      - intros x. unfold g. destruct (N.eqb (v_auction x) (v_auction v) && (v_time x =? v_time v)); reflexivity. }
    destruct rest as [|r rs].
    + cbn [release_loop] in H. injection H as <-. split; [|reflexivity].
      eapply proc_eff_trans; [exact P2|exact (proc_eff_put_auction _ (set_status a Finished))].
    + destruct (IH _ _ Hrest H) as [P A]. split; [eapply proc_eff_trans; [exact P2|exact P]|].
      rewrite A. reflexivity.
Qed.

(* what happens to the record of the auction that is processed *)
Definition block_rel (t : Z) (orc : list (N * list N)) (s : state) (a a' : auction) : Prop :=
  match a_status a with
  | StandBy => a' = if a_start a <=? t then set_status a Started else a
  | Started =>
      if last_end a <=? t then
        match a_type a with
        | FixedPrice => a' = set_status a (settled_st a)
        | Batch =>
            exists order mi,
              valid_order (bids_of s (a_id a)) (oracle_ids orc (a_id a)) = Some order /\
              calc_batch a (bids_of s (a_id a)) order (allowed_of s (a_id a)) = Some mi /\
              a' = if decision s a mi then extended s a mi
                   else set_status (set_matched_price a (mi_price mi)) (settled_st a)
        end
      else a' = a
  | VestingS => a' = if last_due t (vqs_of s (a_id a)) then set_status a Finished else a
  | Finished | Cancelled => a' = a
  end.

Lemma find_after_put s s' a0 a' :
  st_auctions s' = st_auctions (put_auction s a') -> a_id a' = a_id a0 ->
  find_auction s (a_id a0) = Some a0 -> find_auction s' (a_id a0) = Some a'.
Proof.
  intros H Hid F. rewrite (find_auction_conv_put s s' a' (a_id a0) H), Hid, N.eqb_refl, F. reflexivity.
Qed.

Lemma vqs_of_auction s id v : In v (vqs_of s id) -> v_auction v = id.
Proof. unfold vqs_of. intros H. apply filter_In in H. destruct H as [_ H]. neqb. exact H. Qed.

Lemma process_spec t orc s a s' :
  process t orc s a = Ok s' ->
  proc_eff (a_id a) s s' /\
  (find_auction s (a_id a) = Some a -> exists a', find_auction s' (a_id a) = Some a' /\ block_rel t orc s a a').
Proof.
  unfold process, block_rel. intros H. destruct (a_status a) eqn:St.
  - destruct (a_start a <=? t).
    + injection H as <-. split; [exact (proc_eff_put_auction s (set_status a Started))|].
      intros F. eexists. split; [|reflexivity]. eapply find_after_put; [reflexivity|reflexivity|exact F].
    + injection H as <-. split; [apply proc_eff_refl|]. intros F. exists a. split; [exact F|reflexivity].
  - destruct (last_end a <=? t).
    2:{ injection H as <-. split; [apply proc_eff_refl|]. intros F. exists a. split; [exact F|reflexivity]. }
    destruct (a_type a).
    + apply close_fixed_inv in H. split; [apply proc_eff_settle; exact H|].
      intros F. eexists. split; [|reflexivity].
      eapply find_after_put; [apply settle_auctions; exact H|reflexivity|exact F].
    + apply close_batch_inv in H. destruct H as (order & mi & HV & HC & H).
      destruct (decision s a mi) eqn:D.
      * subst s'. split.
        -- eapply proc_eff_trans; [apply proc_eff_set_flags|exact (proc_eff_put_auction _ (extended s a mi))].
        -- intros F. eexists. split; [eapply find_after_put; [reflexivity|reflexivity|exact F]|].
           exists order, mi. rewrite D. auto.
      * apply settle_batch_inv in H. split.
        -- eapply proc_eff_trans; [apply proc_eff_set_flags|].
           exact (proc_eff_settle _ _ (set_matched_price a (mi_price mi)) H).
        -- intros F. eexists. split.
           ++ eapply find_after_put; [rewrite (settle_auctions _ _ _ H); reflexivity|reflexivity|exact F].
           ++ exists order, mi. rewrite D. auto.
  - apply release_loop_eff in H; [|intros v Hv; eapply vqs_of_auction; exact Hv].
    destruct H as [P A]. split; [exact P|]. intros F. rewrite last_due_eq.
    destruct (last_due_rec t (vqs_of s (a_id a))).
    + eexists. split; [|reflexivity]. eapply find_after_put; [exact A|reflexivity|exact F].
    + exists a. split; [|reflexivity]. rewrite (find_auction_conv s s' _ A). exact F.
  - injection H as <-. split; [apply proc_eff_refl|]. intros F. exists a. split; [exact F|reflexivity].
  - injection H as <-. split; [apply proc_eff_refl|]. intros F. exists a. split; [exact F|reflexivity].
Qed.

(* an auction the block has nothing to do for *)
Definition idle (t : Z) (s : state) (a : auction) : Prop :=
  match a_status a with
  | StandBy => t < a_start a
  | Started => t < last_end a
  | VestingS => forall v, In v (vqs_of s (a_id a)) -> vq_due t v = false
  | Finished | Cancelled => True
  end.

Lemma process_idle t orc s a : idle t s a -> process t orc s a = Ok s.
Proof.
  unfold idle, process. destruct (a_status a); intros H.
  - apply Z.leb_gt in H. rewrite H. reflexivity.
  - apply Z.leb_gt in H. rewrite H. reflexivity.
  - apply release_loop_idle. exact H.
  - reflexivity.
  - reflexivity.
Qed.

(* ------------------------------------------------------------------ the whole list *)
Lemma process_all_spec t orc : forall l s s',
  NoDup (map a_id l) -> process_all t orc s l = Ok s' ->
  (forall j, ~ In j (map a_id l) -> slice_eq j s s') /\
  glob_eq s s' /\ bids_evolve s s' /\ st_bseq s' = st_bseq s /\ st_allowed s' = st_allowed s /\
  (forall a, In a l ->
     exists s1 s2, slice_eq (a_id a) s s1 /\ glob_eq s s1 /\ process t orc s1 a = Ok s2 /\ slice_eq (a_id a) s2 s').
Proof.
  induction l as [|a rest IH]; cbn [process_all map]; intros s s' ND H.
  - injection H as <-. split; [intros j _; apply slice_eq_refl|]. split; [apply glob_eq_refl|].
    split; [apply bids_evolve_same; reflexivity|]. split; [reflexivity|]. split; [reflexivity|].
    intros a [].
  - inversion ND as [|? ? Hn ND']; subst.
    destruct (process t orc s a) as [s1|] eqn:E; cbn [bind] in H; [|discriminate H].
    destruct (process_spec _ _ _ _ _ E) as [[P1 P2 P3 P4 P5] _].
    destruct (IH s1 s' ND' H) as (I1 & I2 & I3 & I4 & I5 & I6).
    split; [|split; [|split; [|split; [|split]]]].
    + intros j Hj. eapply slice_eq_trans.
      * apply P1. intros ->. apply Hj. left. reflexivity.
      * apply I1. intros HI. apply Hj. right. exact HI.
    + eapply glob_eq_trans; eassumption.
    + eapply bids_evolve_trans; eassumption.
    + congruence.
    + congruence.
    + intros x [<-|Hx].
      * exists s, s1. split; [apply slice_eq_refl|]. split; [apply glob_eq_refl|]. split; [exact E|].
        apply I1. exact Hn.
      * destruct (I6 x Hx) as (s2 & s3 & A1 & A2 & A3 & A4).
        exists s2, s3. split; [|split; [|split; assumption]].
        -- eapply slice_eq_trans; [|exact A1]. apply P1. intros Heq. apply Hn. rewrite <- Heq.
           apply in_map. exact Hx.
        -- eapply glob_eq_trans; eassumption.
Qed.

Lemma block_rel_slice t orc s s1 a a' :
  slice_eq (a_id a) s s1 -> st_params s1 = st_params s -> block_rel t orc s1 a a' -> block_rel t orc s a a'.
Proof.
  intros [_ Eb Ea Ev _ Em _] Ep. unfold block_rel, decision, extended. rewrite Eb, Ea, Ev, Em, Ep. auto.
Qed.

Lemma idle_slice t s s1 a : slice_eq (a_id a) s s1 -> idle t s a -> idle t s1 a.
Proof. intros [_ _ _ Ev _ _ _]. unfold idle. rewrite Ev. auto. Qed.

(* begin_block as a whole *)
Lemma begin_block_spec s t orc s' :
  ids_ok s -> begin_block s t orc = Ok s' ->
  (forall id a, find_auction s id = Some a ->
     exists a', find_auction s' id = Some a' /\ block_rel t orc s a a') /\
  (forall j, find_auction s j = None -> slice_eq j s s') /\
  (forall j a, find_auction s j = Some a -> idle t s a -> slice_eq j s s') /\
  glob_eq (with_now s t) s' /\ bids_evolve s s' /\ st_bseq s' = st_bseq s /\ st_allowed s' = st_allowed s.
Proof.
  intros OK H. unfold begin_block in H. cbv zeta in H.
  change (st_auctions (with_now s t)) with (st_auctions s) in H.
  destruct OK as [ND _].
  destruct (process_all_spec t orc _ _ _ ND H) as (I1 & I2 & I3 & I4 & I5 & I6).
  assert (N0 : forall j, slice_eq j s (with_now s t)) by (intros j; split; reflexivity).
  split; [|split; [|split; [|split; [|split; [|split]]]]].
  - intros id a F. pose proof (find_auction_some _ _ _ F) as [HI <-].
    destruct (I6 a HI) as (s1 & s2 & A1 & A2 & A3 & A4).
    destruct (process_spec _ _ _ _ _ A3) as [_ PS].
    assert (F1 : find_auction s1 (a_id a) = Some a) by (rewrite (se_auction _ _ _ A1); exact F).
    destruct (PS F1) as (a' & F2 & R). exists a'. split.
    + rewrite (se_auction _ _ _ A4). exact F2.
    + eapply block_rel_slice; [|destruct A2 as (Ep & _); exact Ep|exact R].
      eapply slice_eq_trans; [apply N0|exact A1].
  - intros j F. eapply slice_eq_trans; [apply N0|]. apply I1. intros HI.
    apply in_map_iff in HI. destruct HI as (x & Hx & HI).
    assert (find_auction s j = Some x).
    { rewrite <- Hx. unfold find_auction. apply find_some_of_in; assumption. }
    congruence.
  - intros j a F Hidle. pose proof (find_auction_some _ _ _ F) as [HI <-].
    destruct (I6 a HI) as (s1 & s2 & A1 & A2 & A3 & A4).
    assert (Hidle1 : idle t s1 a).
    { eapply idle_slice; [|exact Hidle]. eapply slice_eq_trans; [apply N0|exact A1]. }
    rewrite (process_idle t orc s1 a Hidle1) in A3. injection A3 as <-.
    eapply slice_eq_trans; [apply N0|]. eapply slice_eq_trans; eassumption.
  - exact I2.
  - exact I3.
  - exact I4.
  - exact I5.
Qed.

(* the two block operations *)
Definition block_orc (o : op) : list (N * list N) :=
  match o with OBlock _ orc | OFaultBlock _ orc _ => orc | _ => [] end.

Lemma with_now_trace_eta s t : with_trace (with_now s t) (st_trace s) = with_now s t.
Proof. destruct s; reflexivity. Qed.

Lemma step_block s o :
  is_block o = true ->
  (fst (step s o) = BlockOk /\ begin_block s (block_time o) (block_orc o) = Ok (snd (step s o)))
  \/ ((exists c, fst (step s o) = BlockErr c) /\
      exists tr, snd (step s o) = with_trace (with_now s (block_time o)) tr).
Proof.
  destruct o as [m|id l|id u max|t orc|t orc k|from to d amt|ls|]; try discriminate; intros _;
    cbn [step block_time block_orc].
  - destruct (begin_block s t orc) as [s'|c tr]; cbn [fst snd].
    + left. split; reflexivity.
    + right. split; [exists c; reflexivity|exists tr; reflexivity].
  - destruct (begin_block s t orc) as [s'|c tr]; cbn [fst snd].
    + destruct (Nat.ltb k (length (st_xfers s') - length (st_xfers s))); cbn [fst snd].
      * right. split; [exists E_FAULT; reflexivity|]. exists (st_trace s). symmetry. apply with_now_trace_eta.
      * left. split; reflexivity.
    + right. split; [exists c; reflexivity|exists tr; reflexivity].
Qed.
