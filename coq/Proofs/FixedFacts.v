(* C06: fixed price auctions sell first come first served against an exact remainder.
   - Inv gives the well-formedness WF that the acceptance theorems of PrecondFacts.v assume, so the exact
     acceptance condition holds in every reachable state;
   - the published remainder is exact in every reachable state (remaining_ok);
   - the bids of a fixed price auction are only ever appended to: no operation removes, reorders or rewrites one. *)
From Coq Require Import ZArith NArith List Bool Arith Lia.
From FR Require Import Dec Types Bank Match Step Genesis Model Spec Checkers.
From FR.Proofs Require Import InvDefs FrameFacts TxFacts BlockFacts InvStaticBase InvStaticBlock.
From FR.Proofs Require PrecondBase PrecondFacts VestingFacts GenesisImport LifeTheorems.
From FR.Proofs Require Import EscrowBase EscrowTx EscrowBlock InvAll.
Import ListNotations.
Open Scope Z_scope.

(* ------------------------------------------------------------------ Inv implies the hypotheses of C11/C12/C18 *)
Lemma Inv_WF s : Inv s -> PrecondFacts.WF s.
Proof.
  intros I. split.
  - apply (inv_escrow _ I).
  - intros c Hc. destruct (inv_params _ I) as [H _]. pose proof (PrecondBase.coins_ok_pos _ _ H c Hc). lia.
  - intros c Hc. destruct (inv_params _ I) as [_ H]. pose proof (PrecondBase.coins_ok_pos _ _ H c Hc). lia.
  - intros b a Hb Fa Hty. destruct (inv_bids _ I) as [W _]. rewrite Forall_forall in W.
    destruct (bwf_auction _ _ (W b Hb)) as (a0 & Fa0 & Hm & _). rewrite Fa in Fa0. injection Fa0 as <-.
    rewrite Hty in Hm. apply Hm.
  - intros a Ha. pose proof (inv_auctions _ I) as W. unfold auctions_wf in W. rewrite Forall_forall in W.
    apply (awf_denoms _ (W a Ha)).
Qed.

Lemma Inv_bids_pos s : Inv s -> PrecondFacts.bids_pos s.
Proof.
  intros I b Hb. destruct (inv_bids _ I) as [W _]. rewrite Forall_forall in W.
  split; [apply (bwf_price _ _ (W b Hb))|apply (bwf_amt _ _ (W b Hb))].
Qed.

(* ------------------------------------------------------------------ exact acceptance of a fixed price bid *)
Theorem fixed_accept_iff s up u id price d amt :
  Inv s -> 0 < price -> 0 < amt ->
  (fst (step s (OTx (MPlaceBid (AGood up u) id 1 (Some price) {| mc_denom := Some d; mc_amt := Some amt |}))) = Accepted
   <-> fixed_bid_precond s u id price d amt && no_veto s H_BeforeBidPlaced = true).
Proof.
  intros I Hp Ha. cbn [step].
  rewrite (PrecondFacts.C18_exact_proof s _ (Inv_WF s I)).
  unfold precond. cbn [check_basic check_pos check_coin mc_denom mc_amt decode_btype].
  apply Z.ltb_lt in Hp, Ha. rewrite Hp, Ha. reflexivity.
Qed.

(* a batch-type bid is never accepted by a fixed price auction (it would bypass price, remainder and allowance) *)
Theorem fixed_rejects_other_types s who id bt price coin a :
  Inv s -> find_auction s id = Some a -> a_type a = FixedPrice -> bt <> 1%N ->
  fst (step s (OTx (MPlaceBid who id bt price coin))) <> Accepted.
Proof.
  intros I Fa Hty Hbt Hacc. cbn [step] in Hacc.
  apply (PrecondFacts.C18_exact_proof s _ (Inv_WF s I)) in Hacc.
  unfold precond in Hacc. destruct (check_basic (MPlaceBid who id bt price coin)) as [c|] eqn:CB; [|discriminate].
  cbn [check_basic] in CB. destruct who as [up u|]; [|discriminate].
  destruct (check_pos price) as [p|]; [|discriminate].
  destruct (check_coin coin) as [[d amt]|]; [|discriminate].
  destruct (decode_btype bt) as [t|] eqn:Dt; [|discriminate]. injection CB as <-.
  destruct t.
  - exfalso. apply Hbt. unfold decode_btype in Dt.
    destruct bt as [|[p0|p0|]]; try discriminate; try reflexivity; destruct p0; try discriminate.
  - unfold batch_bid_precond in Hacc. rewrite Fa, Hty in Hacc. discriminate.
  - unfold batch_bid_precond in Hacc. rewrite Fa, Hty in Hacc. discriminate.
Qed.

(* ------------------------------------------------------------------ the remainder is exact, never negative *)
Theorem remaining_exact s : Inv s -> remaining_ok s = true.
Proof.
  intros I. unfold remaining_ok. apply forallb_forall. intros a Ha.
  destruct (a_type a) eqn:Ty; [|reflexivity].
  pose proof (inv_remaining _ I a Ha Ty) as R.
  pose proof (inv_auctions _ I) as W. unfold auctions_wf in W. rewrite Forall_forall in W.
  destruct (awf_fixed _ (W a Ha) Ty) as (_ & _ & _ & _ & Hr).
  destruct (status_eqb (a_status a) Cancelled).
  - apply Z.eqb_eq. exact R.
  - apply andb_true_iff. split; [apply Z.eqb_eq; exact R|apply Z.leb_le; lia].
Qed.

(* hence a fixed price auction never oversells: the quantities of its recorded bids fit the offered amount *)
Corollary fixed_never_oversells s a :
  Inv s -> In a (st_auctions s) -> a_type a = FixedPrice -> a_status a <> Cancelled ->
  sumZ (map (sell_amount (a_pay_denom a)) (bids_of s (a_id a))) = a_sell_amt a - a_remaining a
  /\ 0 <= a_remaining a <= a_sell_amt a.
Proof.
  intros I Ha Ty Hc. pose proof (inv_remaining _ I a Ha Ty) as R.
  pose proof (inv_auctions _ I) as W. unfold auctions_wf in W. rewrite Forall_forall in W.
  destruct (awf_fixed _ (W a Ha) Ty) as (_ & _ & _ & _ & Hr).
  destruct (status_eqb (a_status a) Cancelled) eqn:E.
  - apply PrecondFacts.status_eqb_eq in E. contradiction.
  - split; [lia|exact Hr].
Qed.

(* ------------------------------------------------------------------ earlier bids are never displaced *)
(* the bids of a fixed price auction after an operation: the old ones, unchanged and in place, then the new ones *)
Definition fixed_appended (s s' : state) : Prop :=
  forall id a, find_auction s id = Some a -> a_type a = FixedPrice ->
    (exists l, bids_of s' id = bids_of s id ++ l)
    /\ exists a', find_auction s' id = Some a' /\ a_type a' = FixedPrice.

Lemma fixed_appended_refl s : fixed_appended s s.
Proof. intros id a Fa Ty. split; [exists []; symmetry; apply app_nil_r|exists a; auto]. Qed.

Lemma fixed_appended_trans s1 s2 s3 : fixed_appended s1 s2 -> fixed_appended s2 s3 -> fixed_appended s1 s3.
Proof.
  intros H1 H2 id a Fa Ty. destruct (H1 id a Fa Ty) as [[l1 E1] (a2 & Fa2 & Ty2)].
  destruct (H2 id a2 Fa2 Ty2) as [[l2 E2] K]. split; [|exact K].
  exists (l1 ++ l2). rewrite E2, E1. symmetry. apply app_assoc.
Qed.

Lemma fixed_appended_same s s' :
  st_auctions s' = st_auctions s -> st_bids s' = st_bids s -> fixed_appended s s'.
Proof.
  intros Ha Hb id a Fa Ty. split.
  - exists []. unfold bids_of. rewrite Hb. symmetry. apply app_nil_r.
  - exists a. split; [|exact Ty]. unfold find_auction in *. rewrite Ha. exact Fa.
Qed.

(* one auction of a block *)
Lemma terms0_type a a' : LifeTheorems.terms0_eq a a' -> a_type a' = a_type a.
Proof. intros T. apply T. Qed.

Lemma release_loop_bids a t : forall vs s s', release_loop s a t vs = Ok s' -> st_bids s' = st_bids s.
Proof.
  induction vs as [|v rest IH]; cbn [release_loop]; intros s s' H; [injection H as <-; reflexivity|].
  destruct ((v_time v <=? t) && negb (v_released v)); [|eapply IH; exact H].
  apply bind_inv in H. destruct H as [s1 [H1 H]].
  apply send_inv0 in H1. destruct H1 as (b & xs & ->).
  apply IH in H. rewrite H. destruct rest; reflexivity.
Qed.

Lemma process_fixed_appended t orc s a s' :
  Inv s -> find_auction s (a_id a) = Some a -> process t orc s a = Ok s' -> fixed_appended s s'.
Proof.
  intros I Fa H id a0 Fa0 Ty0.
  destruct (process_spec _ _ _ _ _ H) as [PE Hrel].
  destruct (N.eq_dec id (a_id a)) as [->|Hne].
  - rewrite Fa in Fa0. injection Fa0 as <-.
    destruct (Hrel Fa) as (a' & Fa' & R).
    split; [|exists a'; split; [exact Fa'|rewrite (terms0_type _ _ (LifeTheorems.block_rel_terms _ _ _ _ _ R)); exact Ty0]].
    exists []. rewrite app_nil_r.
    assert (Hb : st_bids s' = st_bids s); [|unfold bids_of; rewrite Hb; reflexivity].
    unfold process in H. destruct (a_status a) eqn:St.
    + destruct (a_start a <=? t); injection H as <-; reflexivity.
    + destruct (last_end a <=? t); [|injection H as <-; reflexivity].
      rewrite Ty0 in H.
      pose proof (close_fixed_no_veto _ _ _ H) as Hnv.
      destruct (close_fixed_live s a I Fa St Ty0 Hnv) as (s'' & H' & _ & _ & SF).
      rewrite H in H'. injection H' as <-. apply (sf_bids _ _ _ SF).
    + eapply release_loop_bids; exact H.
    + injection H as <-. reflexivity.
    + injection H as <-. reflexivity.
  - destruct (pe_frame _ _ _ PE id Hne) as [Ea Eb _ _ _ _ _]. split.
    + exists []. rewrite Eb. symmetry. apply app_nil_r.
    + exists a0. rewrite Ea. auto.
Qed.

Lemma process_all_fixed_appended t orc : forall l s s',
  Inv s -> NoDup (map a_id l) -> (forall a, In a l -> In a (st_auctions s)) ->
  process_all t orc s l = Ok s' -> fixed_appended s s'.
Proof.
  induction l as [|a rest IH]; cbn [process_all]; intros s s' I ND Hl H.
  - injection H as <-. apply fixed_appended_refl.
  - destruct (process t orc s a) as [s1|] eqn:E; cbn [bind] in H; [|discriminate].
    cbn [map] in ND. inversion ND as [|? ? Hn ND']; subst.
    assert (Ha : In a (st_auctions s)) by (apply Hl; left; reflexivity).
    apply (fixed_appended_trans s s1 s').
    + apply (process_fixed_appended t orc s a s1 I (Inv_find_in s a I Ha) E).
    + apply (IH s1 s'); [eapply Inv_process; eassumption|exact ND'| |exact H].
      intros x Hx. apply (process_keeps t orc s a s1 x (Inv_InvS s I) Ha E); [apply Hl; right; exact Hx|].
      intros C. apply Hn. rewrite <- C. apply in_map. exact Hx.
Qed.

Lemma begin_block_fixed_appended s t orc s' : Inv s -> begin_block s t orc = Ok s' -> fixed_appended s s'.
Proof.
  unfold begin_block. cbv zeta. intros I H.
  apply (fixed_appended_trans s (with_now s t)); [apply fixed_appended_same; reflexivity|].
  apply (process_all_fixed_appended t orc _ _ _ (Inv_with_now s t I)) in H; [exact H| |auto].
  apply (Inv_ids_ok s I).
Qed.

(* transactions, API calls, sends *)
Lemma modify_needs_batch s who id bid price coin a :
  Inv s -> fst (step s (OTx (MModifyBid who id bid price coin))) = Accepted ->
  find_auction s id = Some a -> a_type a = Batch.
Proof.
  intros I Hacc Fa. cbn [step] in Hacc.
  apply (PrecondFacts.C18_exact_proof s _ (Inv_WF s I)) in Hacc.
  unfold precond in Hacc. destruct (check_basic (MModifyBid who id bid price coin)) as [c|] eqn:CB; [|discriminate].
  cbn [check_basic] in CB. destruct who as [up u|]; [|discriminate].
  destruct (check_pos price) as [p|]; [|discriminate].
  destruct (check_coin coin) as [[d amt]|]; [|discriminate]. injection CB as <-.
  apply andb_true_iff in Hacc. destruct Hacc as [Hacc _]. unfold modify_precond in Hacc. rewrite Fa in Hacc.
  destruct (find_bid s id bid); [|discriminate].
  destruct (atype_eqb (a_type a) Batch) eqn:E; [|discriminate]. now apply PrecondFacts.atype_eqb_eq.
Qed.

Lemma tx_fixed_appended s o : Inv s -> is_block o = false -> o <> OGenesis -> fixed_appended s (snd (step s o)).
Proof.
  intros I Hb Hg id a0 Fa0 Ty0.
  pose proof (step_shape s o Hb Hg) as Sh.
  destruct (tx_auction _ _ _ _ id a0 Sh Fa0) as (a' & Fa' & R).
  split.
  2:{ exists a'. split; [exact Fa'|].
      destruct R as [->|[(_ & _ & _ & ->)|(_ & _ & _ & x & ->)]]; [exact Ty0| |exact Ty0].
      unfold cancel_of. rewrite Ty0. cbn. exact Ty0. }
  remember (fst (step s o)) as out eqn:Eout. remember (snd (step s o)) as s' eqn:Es'.
  destruct Sh as [o c tr s' -> | from to d amt b xs | ls | auth cfee bfee period p
    | m a s' Hc C Hid Hst He Hm Hf | who id0 a s' F0 S0 C | who id0 bt price coin a nb s' F0 S0 B1 B2 C
    | who id0 bid price coin a b0 p amt s' F0 S0 B C | o id0 a s' T A F0 C ].
  - exists []. rewrite app_nil_r. reflexivity.
  - exists []. rewrite app_nil_r. reflexivity.
  - exists []. rewrite app_nil_r. reflexivity.
  - exists []. rewrite app_nil_r. reflexivity.
  - destruct C as (b & xs & tr & tr' & K & ->). exists []. rewrite app_nil_r. reflexivity.
  - destruct C as (b & xs & tr & K & ->). exists []. rewrite app_nil_r. reflexivity.
  - destruct C as (b & xs & tr & s2 & K & _ & ->).
    exists (filter (fun b => N.eqb (b_auction b) id) [nb]). unfold bids_of. cbn [st_bids with_bids]. apply filter_app.
  - destruct (N.eq_dec id id0) as [->|Hne].
    + exfalso. symmetry in Eout. pose proof (modify_needs_batch s who id0 bid price coin a0 I Eout Fa0) as Hbt. congruence.
    + assert (F : frame id0 s s').
      { rewrite Es'. apply LifeTheorems.L_C19_frame_tx. reflexivity. }
      exists []. rewrite app_nil_r. apply (se_bids _ _ _ (F id Hne)).
  - destruct C as (tr & al & -> & K). exists []. rewrite app_nil_r. reflexivity.
Qed.

(* every operation *)
Theorem fixed_bids_append_only s o : Inv s -> fixed_appended s (snd (step s o)).
Proof.
  intros I. destruct (is_block o) eqn:B.
  - destruct (step_block s o B) as [[_ H]|[_ (tr & ->)]].
    + eapply begin_block_fixed_appended; eassumption.
    + apply fixed_appended_same; reflexivity.
  - destruct o as [m|id l|id u max|t orc|t orc k|from to d amt|ls|];
      try (apply tx_fixed_appended; [exact I|exact B|discriminate]).
    destruct (GenesisImport.genesis_step s I) as (s' & Hs & SS). rewrite Hs. cbn [snd].
    intros id a Fa Ty. split.
    + exists []. rewrite app_nil_r. apply (GenesisImport.ss_bids_of _ _ SS).
    + exists a. split; [|exact Ty]. unfold find_auction in *. rewrite (GenesisImport.ss_auctions _ _ SS). exact Fa.
Qed.

Theorem fixed_bids_append_only_run : forall ops s, Inv s -> fixed_appended s (run s ops).
Proof.
  unfold run. induction ops as [|o ops IH]; cbn [fold_left]; intros s I; [apply fixed_appended_refl|].
  eapply fixed_appended_trans; [apply fixed_bids_append_only, I|apply IH, Inv_step, I].
Qed.

(* every recorded fixed price bid is still there, with the same terms and the same flag, after any operation *)
Corollary fixed_bid_kept s o b :
  Inv s -> In b (st_bids s) -> b_type b = BFixed -> In b (st_bids (snd (step s o))).
Proof.
  intros I Hb Hty. destruct (inv_bids _ I) as [W _]. rewrite Forall_forall in W.
  destruct (bwf_auction _ _ (W b Hb)) as (a & Fa & Hm & _).
  assert (Ty : a_type a = FixedPrice).
  { destruct (a_type a); [reflexivity|]. destruct Hm as [[[Hc _]|[Hc _]] _]; congruence. }
  destruct (fixed_bids_append_only s o I _ a Fa Ty) as [[l E] _].
  assert (Hin : In b (bids_of (snd (step s o)) (b_auction b))).
  { rewrite E. apply in_or_app. left. apply in_bids_of. auto. }
  apply in_bids_of in Hin. apply Hin.
Qed.

(* ------------------------------------------------------------------ the executable statement (Checkers.c06_ok) *)
Definition ghost_reset (s : state) : state := with_trace (with_bank s (st_bal s) []) [].
Lemma Inv_ghost_reset s : Inv s -> Inv (ghost_reset s).
Proof. apply Inv_ext; reflexivity. Qed.

Lemma bid_eqb_refl b : bid_eqb b b = true.
Proof.
  unfold bid_eqb. rewrite !N.eqb_refl, !Z.eqb_refl. destruct (b_type b), (b_matched b); reflexivity.
Qed.

Lemma class_ok_iff out : oclass_eqb (class_of out) KOk = true <-> out = Accepted.
Proof.
  destruct out; cbn; split; intros H; try reflexivity; try discriminate H.
  destruct (N.eqb code E_PANIC); discriminate H.
Qed.

Theorem c06_ok_model s o : Inv s -> c06_ok (model_trans s o) = true.
Proof.
  intros I. pose proof (Inv_ghost_reset s I) as I0.
  unfold model_trans. fold (ghost_reset s).
  destruct (step (ghost_reset s) o) as [out s'] eqn:Es.
  assert (Es1 : fst (step (ghost_reset s) o) = out) by (rewrite Es; reflexivity).
  assert (Es2 : snd (step (ghost_reset s) o) = s') by (rewrite Es; reflexivity).
  unfold c06_ok. cbn [t_post t_pre t_op t_class].
  apply andb_true_iff. split; [apply andb_true_iff; split|].
  - rewrite <- Es2. apply remaining_exact, Inv_step, I0.
  - destruct o as [m| | | | | | |]; try reflexivity.
    destruct (check_basic m) as [c|] eqn:CB; [|reflexivity].
    destruct c as [| | |u id bt price d amt| | |]; try reflexivity.
    destruct bt; try reflexivity.
    destruct (find_auction s id) as [a|] eqn:Fa; [|reflexivity].
    destruct (a_type a) eqn:Ty; [|reflexivity].
    (* the message, reconstructed from what ValidateBasic accepted *)
    destruct m as [| | |who id' btn price' coin| | |]; cbn [check_basic] in CB; try discriminate;
      try (destruct who; discriminate);
      try (repeat match type of CB with context [match ?x with _ => _ end] => destruct x end; discriminate).
    destruct who as [up u'|]; [|discriminate].
    destruct (check_pos price') as [p|] eqn:Ep; [|discriminate].
    destruct (check_coin coin) as [[d' amt']|] eqn:Ec; [|discriminate].
    destruct (decode_btype btn) as [t|] eqn:Dt; [|discriminate]. injection CB as -> -> -> -> -> ->.
    assert (Hacc : fst (step (ghost_reset s) (OTx (MPlaceBid (AGood up u) id btn price' coin))) = Accepted
                   <-> fixed_bid_precond s u id price d amt && no_veto s H_BeforeBidPlaced = true).
    { cbn [step]. rewrite (PrecondFacts.C18_exact_proof (ghost_reset s) _ (Inv_WF _ I0)).
      unfold precond. cbn [check_basic]. rewrite Ep, Ec, Dt. reflexivity. }
    rewrite Es1 in Hacc.
    destruct (fixed_bid_precond s u id price d amt && no_veto s H_BeforeBidPlaced) eqn:Epre.
    + assert (Ho : out = Accepted) by (apply Hacc; reflexivity). rewrite Ho. reflexivity.
    + destruct (oclass_eqb (class_of out) KOk) eqn:Ek; [|reflexivity].
      apply class_ok_iff in Ek. apply Hacc in Ek. discriminate Ek.
  - apply forallb_forall. intros b Hb. destruct (b_type b) eqn:Tb; try reflexivity.
    apply existsb_exists. exists b. split; [|apply bid_eqb_refl].
    rewrite <- Es2. apply fixed_bid_kept; [exact I0|exact Hb|exact Tb].
Qed.
