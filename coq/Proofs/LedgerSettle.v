(* C02, part 4: settlement dues.  When BeginBlocker settles a started auction (fixed price: the end time is
   reached; batch: the last round closes), the transfers it makes are exactly, in order:
     selling escrow -> every bidder u with alloc u <> 0 (bidders sorted), alloc u
     selling escrow -> auctioneer, the whole rest of the selling escrow
     [batch only] paying escrow -> every bidder u with refund u <> 0, refund u
     paying escrow -> auctioneer (no vesting schedule) or -> vesting escrow, the whole rest R of the paying escrow
   and afterwards both escrow accounts are empty.  No axioms. *)
From Coq Require Import ZArith NArith List Bool Arith Lia Sorting.
From FR Require Import Dec Types Bank Match Step Genesis Model Spec Checkers.
From FR.Proofs Require Import InvDefs EscrowBase VestingFacts HookBase Ledger LedgerCharges.
From FR.Proofs Require FrameFacts BlockFacts MatchBase MatchDemand MatchConseq DecFacts EscrowBlock InvStaticBase PrecondBase.
Import ListNotations.
Open Scope Z_scope.

(* ------------------------------------------------------------------ the net effect of the elementary lists *)
Lemma net_send_xf f t d a x d' :
  net (send_xf f t d a) x d' = ind (addr_eqb t x && N.eqb d d') a - ind (addr_eqb f x && N.eqb d d') a.
Proof.
  unfold send_xf. destruct (a =? 0) eqn:E0.
  - apply Z.eqb_eq in E0. subst a. rewrite net_nil. unfold ind. destruct (_ && _), (_ && _); reflexivity.
  - rewrite net_cons, net_nil. cbn [mkx x_from x_to x_denom x_amt]. lia.
Qed.

Lemma net_payouts from d f x d' : (forall u, x <> User u) -> forall us,
  net (payouts from d us f) x d' = - ind (addr_eqb from x && N.eqb d d') (total_of us f).
Proof.
  intros Hx. unfold payouts, total_of. induction us as [|u r IH]; cbn [filter map].
  - rewrite net_nil. unfold ind. destruct (_ && _); reflexivity.
  - rewrite sumZ_cons. destruct (f u =? 0) eqn:E0; cbn [negb].
    + apply Z.eqb_eq in E0. rewrite IH, E0. reflexivity.
    + cbn [map]. rewrite net_cons, IH. cbn [x_from x_to x_denom x_amt].
      assert (E : addr_eqb (User u) x = false) by (apply EscrowBase.addr_eqb_neq; intros C; apply (Hx u); congruence).
      rewrite E. unfold ind. cbn [andb]. destruct (addr_eqb from x && N.eqb d d'); lia.
Qed.

Lemma ledger_bal s s' xs x d : ledger_by s s' xs -> st_bal s' x d = st_bal s x d + net xs x d.
Proof. intros L. rewrite (lb_bal _ _ _ L). apply apply_xfers_net. Qed.

(* ------------------------------------------------------------------ the transfers of a settlement *)
Definition vest_dest (a : auction) : addr :=
  match a_scheds a with [] => User (a_auctioneer a) | _ => Escrow Vesting (a_id a) end.
(* the unsold selling coins, and the proceeds, as balances of the pre-state *)
Definition unsold_of (s : state) (a : auction) (mi : minfo) : Z :=
  st_bal s (Escrow Selling (a_id a)) (a_sell_denom a) - total_of (mi_bidders mi) (mi_alloc mi).
Definition proceeds_of (s : state) (a : auction) (mi : minfo) (wr : bool) : Z :=
  st_bal s (Escrow Paying (a_id a)) (a_pay_denom a) - (if wr then total_of (mi_bidders mi) (mi_refund mi) else 0).

Definition settle_xfers (s : state) (a : auction) (mi : minfo) (wr : bool) : list xfer :=
  payouts (Escrow Selling (a_id a)) (a_sell_denom a) (mi_bidders mi) (mi_alloc mi)
  ++ send_xf (Escrow Selling (a_id a)) (User (a_auctioneer a)) (a_sell_denom a) (unsold_of s a mi)
  ++ (if wr then payouts (Escrow Paying (a_id a)) (a_pay_denom a) (mi_bidders mi) (mi_refund mi) else [])
  ++ send_xf (Escrow Paying (a_id a)) (vest_dest a) (a_pay_denom a) (proceeds_of s a mi wr).

Lemma not_user_esc r id : forall u, Escrow r id <> User u. Proof. intros u; discriminate. Qed.

(* ApplyVestingSchedules: the whole paying escrow goes to the auctioneer or, as instalments, to the vesting escrow *)
Lemma apply_vesting_exact s a s' :
  apply_vesting s a = Ok s' ->
  let R := st_bal s (Escrow Paying (a_id a)) (a_pay_denom a) in
  ledger_by s s' (send_xf (Escrow Paying (a_id a)) (vest_dest a) (a_pay_denom a) R) /\ 0 <= R
  /\ st_vqs s' = st_vqs s ++ (match a_scheds a with [] => [] | vs => split a R R vs end).
Proof.
  intros H R. unfold apply_vesting in H. cbv zeta in H. fold R in H. unfold vest_dest. destruct (a_scheds a) as [|v vs].
  - apply bind_ok_inv in H. destruct H as (s4 & H4 & H). injection H as <-.
    pose proof (send_ok _ _ _ _ _ _ H4) as Nb. apply send_ledger in H4. destruct H4 as [L4 Hp].
    split; [eapply ledger_by_post; [exact L4|split; reflexivity]|]. split; [exact Hp|].
    cbn [st_vqs put_auction with_auctions]. rewrite (nb_vqs _ _ Nb), app_nil_r. reflexivity.
  - apply bind_ok_inv in H. destruct H as (s4 & H4 & H). injection H as <-.
    pose proof (send_ok _ _ _ _ _ _ H4) as Nb. apply send_ledger in H4. destruct H4 as [L4 Hp].
    split; [eapply ledger_by_post; [exact L4|split; reflexivity]|]. split; [exact Hp|].
    cbn [st_vqs put_auction with_auctions with_vqs]. rewrite (nb_vqs _ _ Nb). reflexivity.
Qed.

(* everything before ApplyVestingSchedules *)
Lemma settle_gen_core s a mi wr s' :
  EscrowBlock.settle_gen s a mi wr = Ok s' ->
  exists s3,
    ledger_by s s3 ((payouts (Escrow Selling (a_id a)) (a_sell_denom a) (mi_bidders mi) (mi_alloc mi)
                     ++ send_xf (Escrow Selling (a_id a)) (User (a_auctioneer a)) (a_sell_denom a) (unsold_of s a mi))
                    ++ (if wr then payouts (Escrow Paying (a_id a)) (a_pay_denom a) (mi_bidders mi) (mi_refund mi) else []))
    /\ st_vqs s3 = st_vqs s
    /\ st_bal s3 (Escrow Paying (a_id a)) (a_pay_denom a) = proceeds_of s a mi wr
    /\ apply_vesting s3 a = Ok s'
    /\ (forall u, In u (mi_bidders mi) -> 0 <= mi_alloc mi u)
    /\ (wr = true -> forall u, In u (mi_bidders mi) -> 0 <= mi_refund mi u)
    /\ 0 <= unsold_of s a mi.
Proof.
  unfold EscrowBlock.settle_gen, allocate, refund_selling. intros H.
  apply bind_ok_inv in H. destruct H as (s1 & H1 & H).
  apply bind_ok_inv in H1. destruct H1 as (s0 & H0 & H1).
  apply bind_ok_inv in H. destruct H as (s2 & H2 & H). apply bind_ok_inv in H. destruct H as (s3 & H3 & H).
  exists s3.
  assert (V0 : st_vqs s0 = st_vqs s).
  { apply PrecondBase.call_hook_ok_inv in H0. destruct H0 as (_ & cs & ->). reflexivity. }
  apply call_hook_same_bank in H0.
  pose proof (pay_out_ok _ _ _ _ _ _ H1) as Nb1.
  apply pay_out_ledger in H1. destruct H1 as [L1 Hapos].
  assert (L01 : ledger_by s s1 (payouts (Escrow Selling (a_id a)) (a_sell_denom a) (mi_bidders mi) (mi_alloc mi)))
    by (eapply ledger_by_pre; [exact H0|exact L1]).
  pose proof (send_ok _ _ _ _ _ _ H2) as Nb2.
  apply send_ledger in H2. destruct H2 as [L2 Hu].
  assert (Eu : st_bal s1 (Escrow Selling (a_id a)) (a_sell_denom a) = unsold_of s a mi).
  { rewrite (ledger_bal _ _ _ _ _ L01), net_payouts by apply not_user_esc.
    rewrite EscrowBase.addr_eqb_refl, N.eqb_refl. unfold unsold_of, ind. cbn [andb]. lia. }
  rewrite Eu in L2, Hu.
  pose proof (ledger_by_trans _ _ _ _ _ L01 L2) as L02.
  assert (L3 : ledger_by s2 s3 (if wr then payouts (Escrow Paying (a_id a)) (a_pay_denom a) (mi_bidders mi) (mi_refund mi) else [])
               /\ (wr = true -> forall u, In u (mi_bidders mi) -> 0 <= mi_refund mi u)
               /\ st_vqs s3 = st_vqs s2).
  { destruct wr.
    - pose proof (pay_out_ok _ _ _ _ _ _ H3) as Nb3. apply pay_out_ledger in H3. destruct H3 as [L3 Hr].
      split; [exact L3|]. split; [intros _; exact Hr|apply (nb_vqs _ _ Nb3)].
    - injection H3 as <-. split; [apply ledger_by_refl|]. split; [discriminate|reflexivity]. }
  destruct L3 as (L3 & Hrpos & V3). pose proof (ledger_by_trans _ _ _ _ _ L02 L3) as L03.
  assert (Er : st_bal s3 (Escrow Paying (a_id a)) (a_pay_denom a) = proceeds_of s a mi wr).
  { rewrite (ledger_bal _ _ _ _ _ L03), !net_app, net_payouts, net_send_xf by apply not_user_esc.
    cbn [addr_eqb role_eqb andb]. unfold proceeds_of, ind.
    destruct wr; [rewrite net_payouts by apply not_user_esc; rewrite EscrowBase.addr_eqb_refl, N.eqb_refl; unfold ind; cbn [andb]|rewrite net_nil]; lia. }
  split; [exact L03|]. split; [rewrite V3, (nb_vqs _ _ Nb2), (nb_vqs _ _ Nb1); exact V0|].
  split; [exact Er|]. split; [exact H|]. split; [exact Hapos|]. split; [exact Hrpos|exact Hu].
Qed.

(* structural: no invariant needed *)
Theorem settle_gen_xfers s a mi wr s' :
  EscrowBlock.settle_gen s a mi wr = Ok s' ->
  ledger_by s s' (settle_xfers s a mi wr)
  /\ (forall u, In u (mi_bidders mi) -> 0 <= mi_alloc mi u)
  /\ (wr = true -> forall u, In u (mi_bidders mi) -> 0 <= mi_refund mi u)
  /\ 0 <= unsold_of s a mi /\ 0 <= proceeds_of s a mi wr.
Proof.
  intros H. destruct (settle_gen_core s a mi wr s' H) as (s3 & L03 & _ & Er & Hv & Hapos & Hrpos & Hu).
  destruct (apply_vesting_exact s3 a s' Hv) as (L4 & Hp & _). cbv zeta in L4, Hp. rewrite Er in L4, Hp.
  pose proof (ledger_by_trans _ _ _ _ _ L03 L4) as L.
  unfold settle_xfers. rewrite <- !app_assoc in L.
  split; [exact L|]. split; [exact Hapos|]. split; [exact Hrpos|]. split; [exact Hu|exact Hp].
Qed.

(* the vesting queue entries a settlement creates: the instalments of the proceeds *)
Theorem settle_gen_vqs s a mi wr s' :
  EscrowBlock.settle_gen s a mi wr = Ok s' ->
  st_vqs s' = st_vqs s ++ (match a_scheds a with
                           | [] => []
                           | vs => split a (proceeds_of s a mi wr) (proceeds_of s a mi wr) vs
                           end).
Proof.
  intros H. destruct (settle_gen_core s a mi wr s' H) as (s3 & _ & V3 & Er & Hv & _).
  destruct (apply_vesting_exact s3 a s' Hv) as (_ & _ & V). cbv zeta in V. rewrite Er, V3 in V. exact V.
Qed.

(* after the settlement both escrow accounts of the auction are empty, the rest went to the vesting escrow *)
Theorem settle_xfers_balances s a mi wr s' :
  ledger_by s s' (settle_xfers s a mi wr) ->
  st_bal s' (Escrow Selling (a_id a)) (a_sell_denom a) = 0
  /\ st_bal s' (Escrow Paying (a_id a)) (a_pay_denom a) = 0
  /\ (a_scheds a <> [] ->
      st_bal s' (Escrow Vesting (a_id a)) (a_pay_denom a)
      = st_bal s (Escrow Vesting (a_id a)) (a_pay_denom a) + proceeds_of s a mi wr).
Proof.
  intros L. unfold settle_xfers in L.
  assert (Hd : forall r, addr_eqb (vest_dest a) (Escrow r (a_id a))
                         = match a_scheds a with [] => false | _ => role_eqb Vesting r end).
  { intros r. unfold vest_dest. destruct (a_scheds a); [reflexivity|]. cbn [addr_eqb]. rewrite N.eqb_refl. apply andb_true_r. }
  split; [|split].
  - rewrite (ledger_bal _ _ _ _ _ L), !net_app, !net_send_xf, net_payouts by apply not_user_esc.
    rewrite Hd. cbn [addr_eqb role_eqb andb]. rewrite !N.eqb_refl. cbn [andb]. unfold unsold_of, ind.
    assert (E3 : net (if wr then payouts (Escrow Paying (a_id a)) (a_pay_denom a) (mi_bidders mi) (mi_refund mi) else [])
                     (Escrow Selling (a_id a)) (a_sell_denom a) = 0).
    { destruct wr; [rewrite net_payouts by apply not_user_esc; reflexivity|apply net_nil]. }
    rewrite E3. destruct (a_scheds a); cbn [andb]; lia.
  - rewrite (ledger_bal _ _ _ _ _ L), !net_app, !net_send_xf, net_payouts by apply not_user_esc.
    rewrite Hd. cbn [addr_eqb role_eqb andb]. rewrite !N.eqb_refl. cbn [andb]. unfold proceeds_of, ind.
    assert (E3 : net (if wr then payouts (Escrow Paying (a_id a)) (a_pay_denom a) (mi_bidders mi) (mi_refund mi) else [])
                     (Escrow Paying (a_id a)) (a_pay_denom a) = - (if wr then total_of (mi_bidders mi) (mi_refund mi) else 0)).
    { destruct wr; [rewrite net_payouts by apply not_user_esc; rewrite EscrowBase.addr_eqb_refl, N.eqb_refl; reflexivity|apply net_nil]. }
    rewrite E3. destruct (a_scheds a); cbn [andb]; lia.
  - intros Hs.
    rewrite (ledger_bal _ _ _ _ _ L), !net_app, !net_send_xf, net_payouts by apply not_user_esc.
    rewrite Hd. cbn [addr_eqb role_eqb andb]. rewrite !N.eqb_refl. unfold ind.
    assert (E3 : net (if wr then payouts (Escrow Paying (a_id a)) (a_pay_denom a) (mi_bidders mi) (mi_refund mi) else [])
                     (Escrow Vesting (a_id a)) (a_pay_denom a) = 0).
    { destruct wr; [rewrite net_payouts by apply not_user_esc; reflexivity|apply net_nil]. }
    rewrite E3. destruct (a_scheds a); [contradiction|]. cbn [andb]. lia.
Qed.

(* what each user receives out of the two escrow accounts *)
Lemma sum_xfers_payouts_hit from d f u : forall us, NoDup us -> In u us ->
  sum_xfers (payouts from d us f) (from_to from (User u) d) = f u.
Proof.
  unfold payouts. induction us as [|v r IH]; intros Hnd Hin; [contradiction|].
  inversion Hnd as [|? ? Hnot Hnd']; subst. cbn [filter].
  assert (Hmiss : forall l, ~ In u l ->
            sum_xfers (map (fun w => {| x_from := from; x_to := User w; x_denom := d; x_amt := f w |})
                           (filter (fun w => negb (f w =? 0)) l)) (from_to from (User u) d) = 0).
  { intros l Hl. apply sum_xfers_none. intros x Hx. apply in_map_iff in Hx. destruct Hx as (w & <- & Hw).
    apply filter_In in Hw. destruct Hw as [Hw _]. unfold from_to. cbn [x_from x_to x_denom addr_eqb].
    assert (E : N.eqb w u = false) by (apply N.eqb_neq; intros C; subst; contradiction).
    rewrite E, andb_false_r. reflexivity. }
  destruct Hin as [->|Hin].
  - destruct (f u =? 0) eqn:E0; cbn [negb].
    + rewrite Hmiss by assumption. apply Z.eqb_eq in E0. lia.
    + cbn [map]. rewrite sum_xfers_cons, Hmiss by assumption. unfold from_to. cbn [x_from x_to x_denom x_amt addr_eqb].
      rewrite EscrowBase.addr_eqb_refl, !N.eqb_refl. cbn [andb]. lia.
  - assert (Hvu : N.eqb v u = false) by (apply N.eqb_neq; intros C; subst; contradiction).
    destruct (f v =? 0); cbn [negb]; [apply IH; assumption|].
    cbn [map]. rewrite sum_xfers_cons, IH by assumption. unfold from_to. cbn [x_from x_to x_denom x_amt addr_eqb].
    rewrite Hvu, andb_false_r. cbn [andb]. lia.
Qed.
Lemma sum_xfers_payouts_miss from d f u us : ~ In u us ->
  sum_xfers (payouts from d us f) (from_to from (User u) d) = 0.
Proof.
  intros Hl. apply sum_xfers_none. intros x Hx. unfold payouts in Hx. apply in_map_iff in Hx. destruct Hx as (w & <- & Hw).
  apply filter_In in Hw. destruct Hw as [Hw _]. unfold from_to. cbn [x_from x_to x_denom addr_eqb].
  assert (E : N.eqb w u = false) by (apply N.eqb_neq; intros C; subst; contradiction).
  rewrite E, andb_false_r. reflexivity.
Qed.
Lemma sum_xfers_payouts_other from from' t d d' f us : addr_eqb from from' = false ->
  sum_xfers (payouts from d us f) (from_to from' t d') = 0.
Proof.
  intros E. apply sum_xfers_none. intros x Hx. unfold payouts in Hx. apply in_map_iff in Hx. destruct Hx as (w & <- & Hw).
  unfold from_to. cbn [x_from]. rewrite E. reflexivity.
Qed.
Lemma sum_xfers_send_xf f t d a f' t' d' :
  sum_xfers (send_xf f t d a) (from_to f' t' d') = ind (addr_eqb f f' && addr_eqb t t' && N.eqb d d') a.
Proof.
  unfold send_xf. destruct (a =? 0) eqn:E0.
  - apply Z.eqb_eq in E0. subst a. rewrite sum_xfers_nil. unfold ind. destruct (_ && _); reflexivity.
  - rewrite sum_xfers_cons, sum_xfers_nil. unfold from_to, ind. cbn [mkx x_from x_to x_denom x_amt]. lia.
Qed.

(* a bidder receives the allocation out of the selling escrow and the refund out of the paying escrow;
   the auctioneer receives in addition the unsold coins and, without a vesting schedule, the proceeds *)
Theorem settle_xfers_received s a mi wr u :
  NoDup (mi_bidders mi) ->
  sum_xfers (settle_xfers s a mi wr) (from_to (Escrow Selling (a_id a)) (User u) (a_sell_denom a))
  = (if existsb (N.eqb u) (mi_bidders mi) then mi_alloc mi u else 0)
    + (if N.eqb (a_auctioneer a) u then unsold_of s a mi else 0)
  /\
  sum_xfers (settle_xfers s a mi wr) (from_to (Escrow Paying (a_id a)) (User u) (a_pay_denom a))
  = (if wr && existsb (N.eqb u) (mi_bidders mi) then mi_refund mi u else 0)
    + (if match a_scheds a with [] => N.eqb (a_auctioneer a) u | _ => false end then proceeds_of s a mi wr else 0).
Proof.
  intros Hnd. unfold settle_xfers. rewrite !sum_xfers_app, !sum_xfers_send_xf.
  assert (Hin : forall f from d, sum_xfers (payouts from d (mi_bidders mi) f) (from_to from (User u) d)
                         = if existsb (N.eqb u) (mi_bidders mi) then f u else 0).
  { intros f from d. destruct (existsb (N.eqb u) (mi_bidders mi)) eqn:Ex.
    - apply existsb_exists in Ex. destruct Ex as (v & Hv & E). apply N.eqb_eq in E. subst v.
      apply sum_xfers_payouts_hit; assumption.
    - apply sum_xfers_payouts_miss. intros Hc. assert (existsb (N.eqb u) (mi_bidders mi) = true); [|congruence].
      apply existsb_exists. exists u. split; [exact Hc|apply N.eqb_refl]. }
  split.
  - rewrite Hin. cbn [addr_eqb role_eqb andb]. rewrite !N.eqb_refl. cbn [andb]. unfold ind.
    assert (E3 : sum_xfers (if wr then payouts (Escrow Paying (a_id a)) (a_pay_denom a) (mi_bidders mi) (mi_refund mi) else [])
                   (from_to (Escrow Selling (a_id a)) (User u) (a_sell_denom a)) = 0).
    { destruct wr; [apply sum_xfers_payouts_other; reflexivity|apply sum_xfers_nil]. }
    rewrite E3, andb_true_r. lia.
  - rewrite (sum_xfers_payouts_other (Escrow Selling (a_id a))) by reflexivity.
    cbn [addr_eqb role_eqb andb]. rewrite !N.eqb_refl. cbn [andb]. unfold ind.
    assert (E3 : sum_xfers (if wr then payouts (Escrow Paying (a_id a)) (a_pay_denom a) (mi_bidders mi) (mi_refund mi) else [])
                   (from_to (Escrow Paying (a_id a)) (User u) (a_pay_denom a))
                 = if wr && existsb (N.eqb u) (mi_bidders mi) then mi_refund mi u else 0).
    { destruct wr; [rewrite Hin; reflexivity|apply sum_xfers_nil]. }
    rewrite E3, andb_true_r. unfold vest_dest. destruct (a_scheds a); cbn [addr_eqb]; lia.
Qed.

(* ------------------------------------------------------------------ which allocation a settling process uses *)
Definition settles_with (t : Z) (orc : list (N * list N)) (s : state) (a : auction) (mi : minfo) (wr : bool) : Prop :=
  last_end a <= t /\
  ((a_type a = FixedPrice /\ wr = false /\ mi = calc_fixed a (bids_of s (a_id a)))
   \/ (a_type a = Batch /\ wr = true /\ BlockFacts.decision s a mi = false /\
       exists order, valid_order (bids_of s (a_id a)) (BlockFacts.oracle_ids orc (a_id a)) = Some order
                     /\ calc_batch a (bids_of s (a_id a)) order (allowed_of s (a_id a)) = Some mi)).

Lemma settled_st_cases a : BlockFacts.settled_st a = VestingS \/ BlockFacts.settled_st a = Finished.
Proof. unfold BlockFacts.settled_st. destruct (a_scheds a); auto. Qed.

Lemma process_settling t orc s a s' a' :
  find_auction s (a_id a) = Some a -> a_status a = Started -> process t orc s a = Ok s' ->
  find_auction s' (a_id a) = Some a' -> (a_status a' = VestingS \/ a_status a' = Finished) ->
  exists mi wr, settles_with t orc s a mi wr /\
    EscrowBlock.settle_gen (if wr then set_flags s (a_id a) (mi_matched mi) else s)
                           (if wr then set_matched_price a (mi_price mi) else a) mi wr = Ok s'.
Proof.
  intros Fa St H Fa' Hst'. unfold process in H. rewrite St in H.
  destruct (last_end a <=? t) eqn:Due.
  2:{ injection H as <-. rewrite Fa in Fa'. injection Fa' as <-. rewrite St in Hst'. destruct Hst'; discriminate. }
  apply Z.leb_le in Due. destruct (a_type a) eqn:Ty.
  - exists (calc_fixed a (bids_of s (a_id a))), false. split.
    + split; [exact Due|]. left. split; [exact Ty|]. split; reflexivity.
    + rewrite <- EscrowBlock.close_fixed_gen. exact H.
  - pose proof H as H0. apply BlockFacts.close_batch_inv in H0. destruct H0 as (order & mi & HV & HC & Hd).
    exists mi, true. destruct (BlockFacts.decision s a mi) eqn:D.
    + exfalso. subst s'.
      rewrite (BlockFacts.find_after_put (set_flags s (a_id a) (mi_matched mi)) _ a (BlockFacts.extended s a mi) eq_refl eq_refl Fa) in Fa'.
      injection Fa' as <-. cbn in Hst'. rewrite St in Hst'. destruct Hst'; discriminate.
    + split; [|exact Hd]. split; [exact Due|]. right. split; [exact Ty|]. split; [reflexivity|]. split; [exact D|].
      exists order. auto.
Qed.

(* ------------------------------------------------------------------ the dues *)
Record dues (s : state) (a : auction) (mi : minfo) (wr : bool) : Prop := {
  du_bidders : mi_bidders mi = bidders_of (bids_of s (a_id a));
  du_sorted : StronglySorted N.lt (mi_bidders mi);
  (* allocations: never negative, together at most the offered amount; the rest goes back to the auctioneer *)
  du_alloc : forall u, 0 <= mi_alloc mi u;
  du_alloc_sum : total_of (mi_bidders mi) (mi_alloc mi) <= a_sell_amt a;
  du_unsold : a_sell_amt a - total_of (mi_bidders mi) (mi_alloc mi) <= unsold_of s a mi;
  (* refunds: what was reserved for the bidder is split into what is paid and what is refunded *)
  du_refund : forall u, 0 <= mi_refund mi u <= reserved_of (a_pay_denom a) (bids_of s (a_id a)) u;
  (* the proceeds are at least the payments of all bidders (more only by third-party deposits) *)
  du_proceeds : sumZ (map (fun u => reserved_of (a_pay_denom a) (bids_of s (a_id a)) u - (if wr then mi_refund mi u else 0))
                          (mi_bidders mi)) <= proceeds_of s a mi wr;
  (* fixed price: the allocation is the sum of the quantities of the bidder's bids, nothing is refunded *)
  du_fixed : wr = false -> forall u,
      mi_alloc mi u = sumZ (map (sell_amount (a_pay_denom a)) (filter (fun b => N.eqb (b_bidder b) u) (bids_of s (a_id a))))
      /\ mi_refund mi u = 0;
  (* batch: what is paid is the allocation at the clearing price, rounded up once per matched bid *)
  du_batch : wr = true -> forall u,
      let paid := reserved_of (a_pay_denom a) (bids_of s (a_id a)) u - mi_refund mi u in
      mi_price mi * mi_alloc mi u <= paid * P
      <= mi_price mi * mi_alloc mi u + MatchConseq.matched_count (bids_of s (a_id a)) (mi_matched mi) u * (P - 1)
}.

Lemma owed_selling_started s a : find_auction s (a_id a) = Some a -> a_status a = Started ->
  owed s Selling (a_id a) (a_sell_denom a) = a_sell_amt a.
Proof. intros Fa St. unfold owed. rewrite Fa, N.eqb_refl, St. reflexivity. Qed.
Lemma owed_paying_started s a : find_auction s (a_id a) = Some a -> a_status a = Started ->
  owed s Paying (a_id a) (a_pay_denom a) = sumZ (map (pay_amount (a_pay_denom a)) (bids_of s (a_id a))).
Proof. intros Fa St. unfold owed. rewrite Fa, N.eqb_refl, St. reflexivity. Qed.

Lemma reserved_sum pd bs : sumZ (map (reserved_of pd bs) (bidders_of bs)) = sumZ (map (pay_amount pd) bs).
Proof. unfold reserved_of. apply (EscrowBlock.sum_by_bidder (pay_amount pd) bs). Qed.

Lemma sumZ_map_sub {A} (f g : A -> Z) l : sumZ (map (fun x => f x - g x) l) = sumZ (map f l) - sumZ (map g l).
Proof. induction l as [|x r IH]; cbn [map]; rewrite ?sumZ_cons; [reflexivity|]. rewrite IH. lia. Qed.

Lemma settles_dues t orc s a mi wr :
  Inv s -> find_auction s (a_id a) = Some a -> a_status a = Started -> settles_with t orc s a mi wr -> dues s a mi wr.
Proof.
  intros I Fa St [_ Hw].
  pose proof (EscrowBlock.Inv_book_wf s (a_id a) I) as BW.
  pose proof (EscrowBlock.InvStaticBase_find_wf s a I Fa) as AW.
  pose proof (PrecondBase.find_auction_id _ _ _ Fa) as [_ Hin].
  destruct (inv_escrow _ I) as [_ Hesc].
  pose proof (Hesc Selling (a_id a) (a_sell_denom a)) as HeS. rewrite (owed_selling_started s a Fa St) in HeS.
  pose proof (Hesc Paying (a_id a) (a_pay_denom a)) as HeP. rewrite (owed_paying_started s a Fa St) in HeP.
  set (bs := bids_of s (a_id a)) in *. set (pd := a_pay_denom a) in *.
  assert (Hpa : forall b, In b bs -> 0 <= pay_amount pd b).
  { intros b Hb. apply MatchConseq.pay_amount_nonneg.
    - pose proof (MatchDemand.wf_amt _ _ BW b Hb). lia.
    - pose proof (MatchDemand.wf_price _ _ BW b Hb). lia. }
  assert (Hres : forall u, 0 <= reserved_of pd bs u) by (intros u; apply MatchConseq.reserved_of_nonneg, Hpa).
  subst bs pd.
  destruct Hw as [(Ty & -> & ->)|(Ty & -> & Dec & order & HV & HC)].
  - (* fixed price *)
    assert (Hal : forall u, 0 <= mi_alloc (calc_fixed a (bids_of s (a_id a))) u).
    { intros u. cbn [mi_alloc calc_fixed]. apply EscrowBase.sumZ_nonneg. intros x Hx. apply in_map_iff in Hx.
      destruct Hx as [b [<- Hb]]. apply filter_In in Hb. destruct Hb as [Hb _].
      apply DecFacts.sell_amount_nonneg; [apply (MatchDemand.wf_amt _ _ BW b Hb)|apply (MatchDemand.wf_price _ _ BW b Hb)]. }
    assert (Hsum : total_of (mi_bidders (calc_fixed a (bids_of s (a_id a)))) (mi_alloc (calc_fixed a (bids_of s (a_id a)))) <= a_sell_amt a).
    { unfold total_of. cbn [mi_bidders mi_alloc calc_fixed]. rewrite (EscrowBlock.sum_by_bidder (sell_amount (a_pay_denom a))).
      pose proof (inv_remaining _ I a Hin Ty) as R. rewrite St in R. cbn [status_eqb] in R.
      destruct (awf_fixed _ AW Ty) as (_ & _ & _ & _ & Hr). lia. }
    split.
    + reflexivity.
    + apply MatchBase.bidders_of_sorted.
    + exact Hal.
    + exact Hsum.
    + unfold unsold_of. lia.
    + intros u. cbn [mi_refund calc_fixed]. specialize (Hres u). lia.
    + unfold proceeds_of. cbn [mi_bidders calc_fixed].
      rewrite (EscrowBlock.sumZ_map_ext _ (reserved_of (a_pay_denom a) (bids_of s (a_id a)))) by (intros; lia). rewrite reserved_sum. lia.
    + intros _ u. split; reflexivity.
    + discriminate.
  - (* batch *)
    pose proof (EscrowBlock.Inv_denoms_wf s a I Fa Ty) as DW.
    assert (Hsup : 0 <= a_sell_amt a) by (pose proof (awf_amt _ AW); lia).
    destruct (MatchConseq.batch_alloc_bounds a _ _ order _ mi BW HV Hsup HC) as (Ha1 & _ & Ha3 & Ha4).
    destruct (MatchConseq.batch_refund_facts a _ _ order _ mi BW HV Hsup DW HC) as (Hr1 & _ & Hr3 & _).
    assert (Hmib : mi_bidders mi = bidders_of (bids_of s (a_id a))).
    { unfold calc_batch in HC. destruct (search _ _ _ _ _); [|discriminate]. injection HC as <-. reflexivity. }
    assert (Hsum : total_of (mi_bidders mi) (mi_alloc mi) <= a_sell_amt a).
    { unfold total_of. rewrite Hmib, Ha3. lia. }
    split.
    + exact Hmib.
    + rewrite Hmib. apply MatchBase.bidders_of_sorted.
    + intros u. apply Ha1.
    + exact Hsum.
    + unfold unsold_of. lia.
    + intros u. apply Hr1.
    + unfold proceeds_of, total_of. rewrite sumZ_map_sub, Hmib, reserved_sum. lia.
    + discriminate.
    + intros _ u. apply Hr3.
Qed.

(* settlement dues, one auction of one block *)
Theorem settlement_dues t orc s a s' a' :
  Inv s -> find_auction s (a_id a) = Some a -> a_status a = Started -> process t orc s a = Ok s' ->
  find_auction s' (a_id a) = Some a' -> (a_status a' = VestingS \/ a_status a' = Finished) ->
  exists mi wr,
    settles_with t orc s a mi wr
    /\ ledger_by s s' (settle_xfers s a mi wr)
    /\ dues s a mi wr
    /\ 0 <= unsold_of s a mi /\ 0 <= proceeds_of s a mi wr
    /\ st_bal s' (Escrow Selling (a_id a)) (a_sell_denom a) = 0
    /\ st_bal s' (Escrow Paying (a_id a)) (a_pay_denom a) = 0
    /\ (a_scheds a <> [] ->
        st_bal s' (Escrow Vesting (a_id a)) (a_pay_denom a)
        = st_bal s (Escrow Vesting (a_id a)) (a_pay_denom a) + proceeds_of s a mi wr).
Proof.
  intros I Fa St H Fa' Hst'.
  destruct (process_settling t orc s a s' a' Fa St H Fa' Hst') as (mi & wr & Hw & Hg).
  exists mi, wr. split; [exact Hw|].
  apply settle_gen_xfers in Hg. destruct Hg as (L & _ & _ & Hu & Hp).
  assert (L' : ledger_by s s' (settle_xfers s a mi wr)).
  { destruct wr; [|exact L]. eapply ledger_by_pre; [|exact L]. split; reflexivity. }
  assert (Hu' : 0 <= unsold_of s a mi) by (destruct wr; exact Hu).
  assert (Hp' : 0 <= proceeds_of s a mi wr) by (destruct wr; exact Hp).
  split; [exact L'|]. split; [apply (settles_dues t orc); assumption|].
  split; [exact Hu'|]. split; [exact Hp'|]. apply settle_xfers_balances. exact L'.
Qed.
