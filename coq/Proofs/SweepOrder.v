(* C14: the sweep order of a batch matching is determined by the recorded bids: it is their arrangement by price,
   highest first, equal prices by bid id.  Hence the oracle that the model takes from the implementation (the order
   in which types.Match visited the bids) carries no freedom: two valid orders are equal. *)
From Coq Require Import ZArith NArith List Bool Arith Lia Permutation Sorted Relations RelationClasses.
From FR Require Import Dec Types Bank Match.
From FR.Proofs Require Import MatchDemand.
Import ListNotations.
Open Scope Z_scope.

Definition before (b b' : bid) : Prop :=
  b_price b' < b_price b \/ (b_price b' = b_price b /\ (b_id b < b_id b')%N).

Lemma before_trans : Transitive before.
Proof.
  intros x y z [H1|[H1 H1']] [H2|[H2 H2']]; unfold before.
  - left; lia.
  - left; lia.
  - left; lia.
  - right. split; lia.
Qed.

Lemma before_irrefl b : ~ before b b.
Proof. intros [H|[_ H]]; lia. Qed.

Lemma order_sorted : forall l, prices_desc l = true -> ties_by_id l = true -> Sorted before l.
Proof.
  induction l as [|b r IH]; intros Hp Ht; [constructor|].
  destruct r as [|b' r'].
  - constructor; constructor.
  - cbn [prices_desc] in Hp. cbn [ties_by_id] in Ht.
    apply andb_true_iff in Hp. destruct Hp as [Hp1 Hp2]. apply andb_true_iff in Ht. destruct Ht as [Ht1 Ht2].
    constructor; [apply IH; assumption|]. constructor.
    apply Z.leb_le in Hp1. apply orb_true_iff in Ht1. destruct Ht1 as [Ht1|Ht1].
    + apply negb_true_iff, Z.eqb_neq in Ht1. left. lia.
    + apply N.ltb_lt in Ht1. destruct (Z.eq_dec (b_price b') (b_price b)) as [E|E]; [right; split; assumption|left; lia].
Qed.

Lemma ssorted_perm_unique {A} (R : A -> A -> Prop) :
  (forall x, ~ R x x) -> Transitive R ->
  forall l l', StronglySorted R l -> StronglySorted R l' -> Permutation l l' -> l = l'.
Proof.
  intros Hirr Htr. induction l as [|a l IH]; intros l' S S' P.
  - apply Permutation_nil in P. subst. reflexivity.
  - destruct l' as [|a' l']; [apply Permutation_sym, Permutation_nil in P; discriminate|].
    inversion S as [|? ? Sl Fl]; subst. inversion S' as [|? ? Sl' Fl']; subst.
    rewrite Forall_forall in Fl, Fl'.
    assert (E : a = a').
    { assert (Ha : In a (a' :: l')) by (eapply Permutation_in; [exact P|now left]).
      assert (Ha' : In a' (a :: l)) by (eapply Permutation_in; [symmetry; exact P|now left]).
      destruct Ha as [Ha|Ha]; [congruence|]. destruct Ha' as [Ha'|Ha']; [congruence|].
      exfalso. apply (Hirr a). eapply Htr; [apply Fl, Ha'|apply Fl', Ha]. }
    subst a'. f_equal. apply IH; [assumption|assumption|]. eapply Permutation_cons_inv. exact P.
Qed.

Theorem valid_order_unique bs ids ids' o o' :
  valid_order bs ids = Some o -> valid_order bs ids' = Some o' -> o = o' /\ ids = ids'.
Proof.
  intros H H'.
  destruct (valid_order_spec _ _ _ H) as (P & D & E & _). destruct (valid_order_spec _ _ _ H') as (P' & D' & E' & _).
  pose proof (valid_order_ties _ _ _ H) as T. pose proof (valid_order_ties _ _ _ H') as T'.
  assert (Eo : o = o').
  { apply (ssorted_perm_unique before before_irrefl before_trans).
    - apply Sorted_StronglySorted; [exact before_trans|apply order_sorted; assumption].
    - apply Sorted_StronglySorted; [exact before_trans|apply order_sorted; assumption].
    - eapply Permutation_trans; [exact P|symmetry; exact P']. }
  split; [exact Eo|]. rewrite <- E, <- E', Eo. reflexivity.
Qed.
