(* C02, part 1: the balance sheet is the replay of the recorded transfers.
   Every operation (accepted, rejected, failing block, fault block, GENESIS) appends a list xs of
   transfers with positive amounts to the ghost log st_xfers, and the new balance sheet is the old
   one with xs replayed (apply_xfers).  Purely structural: no invariant is needed.
   Corollaries: per account and denomination the balance change is the net of xs (delta_is_net);
   over any duplicate-free set of accounts containing the endpoints the balances sum to the same
   total (zero sum); the same over histories (run_ledger).  No axioms. *)
From Coq Require Import ZArith NArith List Bool Arith Lia.
From FR Require Import Dec Types Bank Match Step Genesis Model Spec Checkers.
From FR.Proofs Require Import EscrowBase VestingFacts HookBase.
Import ListNotations.
Open Scope Z_scope.

(* ------------------------------------------------------------------ vocabulary *)
Definition pos_xs (xs : list xfer) : Prop := Forall (fun x => 0 < x_amt x) xs.

(* s' is s after the transfers xs (and any change of the non-bank fields) *)
Record ledger_by (s s' : state) (xs : list xfer) : Prop := {
  lb_xfers : st_xfers s' = st_xfers s ++ xs;
  lb_bal : st_bal s' = apply_xfers (st_bal s) xs;
  lb_pos : pos_xs xs }.
Definition ledger (s s' : state) : Prop := exists xs, ledger_by s s' xs.
Definition same_bank (s s' : state) : Prop := st_bal s' = st_bal s /\ st_xfers s' = st_xfers s.

Lemma same_bank_refl s : same_bank s s. Proof. split; reflexivity. Qed.
Lemma same_bank_trans s1 s2 s3 : same_bank s1 s2 -> same_bank s2 s3 -> same_bank s1 s3.
Proof. intros [A1 B1] [A2 B2]. split; congruence. Qed.
Lemma same_bank_sym s1 s2 : same_bank s1 s2 -> same_bank s2 s1.
Proof. intros [A1 B1]. split; congruence. Qed.
Lemma nobank_same_bank_trace s tr : same_bank s (with_trace s tr). Proof. split; reflexivity. Qed.

Lemma pos_xs_nil : pos_xs []. Proof. constructor. Qed.
Lemma pos_xs_app xs ys : pos_xs xs -> pos_xs ys -> pos_xs (xs ++ ys).
Proof. intros H1 H2. apply Forall_app. split; assumption. Qed.

Lemma ledger_by_nil s s' : same_bank s s' -> ledger_by s s' [].
Proof. intros [Hb Hx]. split; [rewrite app_nil_r; exact Hx|exact Hb|apply pos_xs_nil]. Qed.
Lemma ledger_by_refl s : ledger_by s s [].
Proof. apply ledger_by_nil, same_bank_refl. Qed.
Lemma ledger_by_trans s1 s2 s3 xs ys :
  ledger_by s1 s2 xs -> ledger_by s2 s3 ys -> ledger_by s1 s3 (xs ++ ys).
Proof.
  intros [X1 B1 P1] [X2 B2 P2]. split.
  - rewrite X2, X1, app_assoc. reflexivity.
  - rewrite B2, B1. apply apply_xfers_app.
  - apply pos_xs_app; assumption.
Qed.
Lemma ledger_by_pre s0 s s' xs : same_bank s0 s -> ledger_by s s' xs -> ledger_by s0 s' xs.
Proof. intros [Hb Hx] [X B Pp]. split; [rewrite X, Hx; reflexivity|rewrite B, Hb; reflexivity|exact Pp]. Qed.
Lemma ledger_by_post s s' s'' xs : ledger_by s s' xs -> same_bank s' s'' -> ledger_by s s'' xs.
Proof. intros [X B Pp] [Hb Hx]. split; [rewrite Hx, X; reflexivity|rewrite Hb, B; reflexivity|exact Pp]. Qed.

Lemma ledger_refl s : ledger s s. Proof. exists []. apply ledger_by_refl. Qed.
Lemma ledger_same s s' : same_bank s s' -> ledger s s'.
Proof. intros H. exists []. apply ledger_by_nil, H. Qed.
Lemma ledger_trans s1 s2 s3 : ledger s1 s2 -> ledger s2 s3 -> ledger s1 s3.
Proof. intros [xs H1] [ys H2]. exists (xs ++ ys). eapply ledger_by_trans; eassumption. Qed.
Lemma ledger_pre s0 s s' : same_bank s0 s -> ledger s s' -> ledger s0 s'.
Proof. intros H [xs L]. exists xs. eapply ledger_by_pre; eassumption. Qed.
Lemma ledger_post s s' s'' : ledger s s' -> same_bank s' s'' -> ledger s s''.
Proof. intros [xs L] H. exists xs. eapply ledger_by_post; eassumption. Qed.

(* the log determines the list *)
Lemma ledger_by_unique s s' xs ys : ledger_by s s' xs -> ledger_by s s' ys -> xs = ys.
Proof. intros [X1 _ _] [X2 _ _]. rewrite X1 in X2. apply app_inv_head in X2. exact X2. Qed.

(* ------------------------------------------------------------------ the bank primitives *)
Definition mkx (f t : addr) (d : N) (a : Z) : xfer := {| x_from := f; x_to := t; x_denom := d; x_amt := a |}.
(* the transfers of one send: none for a zero amount *)
Definition send_xf (f t : addr) (d : N) (a : Z) : list xfer := if a =? 0 then [] else [mkx f t d a].
(* the transfers of send_coins / FundCommunityPool *)
Definition coin_xfers (f t : addr) (cs : coins) : list xfer :=
  flat_map (fun c => send_xf f t (fst c) (snd c)) cs.

Lemma send_ledger s f t d a s' : send s f t d a = Ok s' -> ledger_by s s' (send_xf f t d a) /\ 0 <= a.
Proof.
  intros H. apply send_ok_inv in H. destruct H as [[-> ->]|(Hpos & _ & ->)].
  - split; [apply ledger_by_refl|lia].
  - unfold send_xf. assert (E : a =? 0 = false) by (apply Z.eqb_neq; lia). rewrite E. split; [|lia].
    split; [reflexivity|reflexivity|]. constructor; [exact Hpos|constructor].
Qed.

Lemma send_coins_ledger cs : forall s f t s', send_coins s f t cs = Ok s' ->
  ledger_by s s' (coin_xfers f t cs) /\ (forall c, In c cs -> 0 <= snd c).
Proof.
  induction cs as [|[d a] rest IH]; intros s f t s' H; cbn [send_coins] in H.
  - injection H as <-. split; [apply ledger_by_refl|intros c []].
  - apply bind_ok_inv in H. destruct H as (s1 & H1 & H2).
    apply send_ledger in H1. destruct H1 as [L1 Ha]. apply IH in H2. destruct H2 as [L2 Hr]. split.
    + unfold coin_xfers. cbn [flat_map fst snd]. eapply ledger_by_trans; eassumption.
    + intros c [<-|Hc]; [exact Ha|apply Hr, Hc].
Qed.

Lemma pay_out_ledger us : forall s from d f s', pay_out s from d us f = Ok s' ->
  ledger_by s s' (payouts from d us f) /\ (forall u, In u us -> 0 <= f u).
Proof.
  induction us as [|u rest IH]; intros s from d f s' H; cbn [pay_out] in H.
  - injection H as <-. split; [apply ledger_by_refl|intros u []].
  - unfold payouts. cbn [filter]. destruct (f u =? 0) eqn:E0; cbn [negb].
    + apply IH in H. destruct H as [L Hp]. split; [exact L|].
      intros v [<-|Hv]; [apply Z.eqb_eq in E0; lia|apply Hp, Hv].
    + apply bind_ok_inv in H. destruct H as (s1 & H1 & H2).
      apply send_ledger in H1. destruct H1 as [L1 Ha]. apply IH in H2. destruct H2 as [L2 Hp].
      unfold send_xf in L1. rewrite E0 in L1. split.
      * cbn [map]. apply (ledger_by_trans _ _ _ _ _ L1 L2).
      * intros v [<-|Hv]; [exact Ha|apply Hp, Hv].
Qed.

(* ------------------------------------------------------------------ threading through bind *)
Definition ledR {A} (p : A -> state) (s : state) (r : res A) : Prop :=
  match r with Ok x => ledger s (p x) | Err _ _ => True end.
Notation ledRs := (ledR (fun s : state => s)).

Lemma ledR_bind {A B} (p : A -> state) (q : B -> state) s (r : res A) (f : A -> res B) :
  ledR p s r -> (forall a, r = Ok a -> ledR q (p a) (f a)) -> ledR q s (bind r f).
Proof.
  intros Hr Hf. destruct r as [a|c tr]; cbn [bind]; [|exact I].
  specialize (Hf a eq_refl). destruct (f a) as [b|c tr]; [|exact I].
  cbn [ledR] in *. eapply ledger_trans; eassumption.
Qed.
Lemma ledRs_bind s (r : res state) (f : state -> res state) :
  ledRs s r -> (forall a, r = Ok a -> ledRs a (f a)) -> ledRs s (bind r f).
Proof. apply (ledR_bind (fun x : state => x) (fun x : state => x)). Qed.
Lemma ledR_pre {A} (p : A -> state) s0 s (r : res A) : same_bank s s0 -> ledR p s0 r -> ledR p s r.
Proof. intros E H. destruct r as [x|c tr]; [|exact I]. cbn [ledR] in *. eapply ledger_pre; eassumption. Qed.
Lemma ledR_Ok_same {A} (p : A -> state) s x : same_bank s (p x) -> ledR p s (Ok x).
Proof. intros H. cbn [ledR]. apply ledger_same, H. Qed.
Lemma ledR_fail {A} (p : A -> state) s s0 c : ledR p s (@fail A s0 c).
Proof. exact I. Qed.

Lemma send_ledR s f t d a : ledRs s (send s f t d a).
Proof.
  destruct (send s f t d a) as [s'|c tr] eqn:H; [|exact I]. cbn [ledR].
  eexists. apply (proj1 (send_ledger _ _ _ _ _ _ H)).
Qed.
Lemma fund_pool_ledR s u cs : ledRs s (fund_pool s u cs).
Proof.
  unfold fund_pool. destruct (send_coins s (User u) Pool cs) as [s'|c tr] eqn:H; [|exact I]. cbn [ledR].
  eexists. apply (proj1 (send_coins_ledger _ _ _ _ _ H)).
Qed.
Lemma pay_out_ledR s from d us f : ledRs s (pay_out s from d us f).
Proof.
  destruct (pay_out s from d us f) as [s'|c tr] eqn:H; [|exact I]. cbn [ledR].
  eexists. apply (proj1 (pay_out_ledger _ _ _ _ _ _ H)).
Qed.
Lemma call_hook_ledR s k args : ledRs s (call_hook s k args).
Proof.
  unfold call_hook. destruct (dispatch (st_listeners s) 0%N k args) as [ok cs].
  destruct ok; [|exact I]. apply ledR_Ok_same. split; reflexivity.
Qed.

(* ------------------------------------------------------------------ the message handlers *)
Lemma create_fixed_ledR s u up price sd samt pd vs start end_ :
  ledRs s (create_fixed s u up price sd samt pd vs start end_).
Proof.
  unfold create_fixed. destruct (end_ <? st_now s); [exact I|].
  destruct (Nat.ltb MaxNumVestingSchedules (length vs)); [exact I|]. cbv zeta.
  eapply ledR_pre; [|apply ledRs_bind; [apply fund_pool_ledR|]]; [split; reflexivity|].
  intros s1 _. apply ledRs_bind; [apply send_ledR|]. intros s2 _.
  apply ledRs_bind; [apply call_hook_ledR|]. intros s3 _.
  eapply ledR_pre; [|apply ledRs_bind; [apply call_hook_ledR|]]; [split; reflexivity|].
  intros s4 _. apply ledR_Ok_same, same_bank_refl.
Qed.

Lemma create_batch_ledR s u up price minp sd samt pd vs maxr rate start end_ :
  ledRs s (create_batch s u up price minp sd samt pd vs maxr rate start end_).
Proof.
  unfold create_batch. destruct (end_ <? st_now s); [exact I|].
  destruct (Nat.ltb MaxNumVestingSchedules (length vs)); [exact I|].
  destruct (N.ltb MaxExtendedRound maxr); [exact I|]. cbv zeta.
  eapply ledR_pre; [|apply ledRs_bind; [apply fund_pool_ledR|]]; [split; reflexivity|].
  intros s1 _. apply ledRs_bind; [apply send_ledR|]. intros s2 _.
  apply ledRs_bind; [apply call_hook_ledR|]. intros s3 _.
  eapply ledR_pre; [|apply ledRs_bind; [apply call_hook_ledR|]]; [split; reflexivity|].
  intros s4 _. apply ledR_Ok_same, same_bank_refl.
Qed.

Lemma cancel_ledR s u up id : ledRs s (cancel s u up id).
Proof.
  unfold cancel. destruct (find_auction s id) as [a|]; [|exact I].
  destruct (negb (N.eqb (a_auctioneer a) u)); [exact I|].
  destruct (negb (status_eqb (a_status a) StandBy)); [exact I|].
  apply ledRs_bind; [apply send_ledR|]. intros s1 _.
  apply ledRs_bind; [apply call_hook_ledR|]. intros s2 _.
  apply ledR_Ok_same. split; reflexivity.
Qed.

Lemma place_bid_ledR s u id bt price d amt : ledRs s (place_bid s u id bt price d amt).
Proof.
  unfold place_bid. destruct (find_auction s id) as [a|]; [|exact I].
  destruct (negb (status_eqb (a_status a) Started)); [exact I|].
  destruct (atype_eqb (a_type a) Batch && (price <? a_min_price a)); [exact I|].
  destruct (find_allowed s id u) as [al|]; [|exact I].
  apply ledRs_bind; [apply fund_pool_ledR|]. intros s1 _. cbv zeta.
  set (s2 := with_bseq s1 _). set (b := Build_bid _ _ _ _ _ _ _ _).
  assert (E12 : same_bank s1 s2) by (split; reflexivity).
  apply (ledR_bind (fun sb : state * bid => fst sb)).
  - destruct bt.
    + destruct (validate_fixed_bid s2 a b) as [[]|c tr]; cbn [bind]; [|exact I].
      apply (ledR_bind (fun x : state => x)); [eapply ledR_pre; [exact E12|apply send_ledR]|].
      intros s3 _. apply ledR_Ok_same. split; reflexivity.
    + destruct (validate_batch_bid s2 a b (a_pay_denom a)) as [[]|c tr]; cbn [bind]; [|exact I].
      apply (ledR_bind (fun x : state => x)); [eapply ledR_pre; [exact E12|apply send_ledR]|].
      intros s3 _. apply ledR_Ok_same. split; reflexivity.
    + destruct (validate_batch_bid s2 a b (a_sell_denom a)) as [[]|c tr]; cbn [bind]; [|exact I].
      apply (ledR_bind (fun x : state => x)); [eapply ledR_pre; [exact E12|apply send_ledR]|].
      intros s3 _. apply ledR_Ok_same. split; reflexivity.
  - intros [s3 b3] _. cbn [fst].
    apply ledRs_bind; [apply call_hook_ledR|]. intros s4 _. apply ledR_Ok_same. split; reflexivity.
Qed.

Lemma modify_bid_ledR s u id bid_id price d amt : ledRs s (modify_bid s u id bid_id price d amt).
Proof.
  unfold modify_bid. destruct (find_auction s id) as [a|]; [|exact I].
  destruct (negb (status_eqb (a_status a) Started)); [exact I|].
  destruct (negb (atype_eqb (a_type a) Batch)); [exact I|].
  destruct (find_bid s id bid_id) as [b|]; [|exact I].
  destruct (negb (N.eqb (b_bidder b) u)); [exact I|].
  destruct (price <? a_min_price a); [exact I|].
  destruct (negb (N.eqb (b_denom b) d)); [exact I|].
  destruct ((price <? b_price b) || (amt <? b_amt b)); [exact I|].
  destruct ((price =? b_price b) && (amt =? b_amt b)); [exact I|].
  destruct (match b_type b with BFixed => _ | BWorth => _ | BMany => _ end) as [dd diff].
  apply ledRs_bind.
  - destruct (0 <? diff); [apply send_ledR|apply ledR_Ok_same, same_bank_refl].
  - intros s1 _. apply ledRs_bind; [apply call_hook_ledR|]. intros s2 _.
    apply ledR_Ok_same. split; reflexivity.
Qed.

Lemma put_allowed_same_bank s a u m : same_bank s (put_allowed s a u m).
Proof. unfold put_allowed. destruct (find_allowed s a u); split; reflexivity. Qed.

Lemma add_entries_ledR a l : forall s, ledRs s (add_entries s a l).
Proof.
  induction l as [|[[ea who] max] rest IH]; intros s; cbn [add_entries].
  - apply ledR_Ok_same, same_bank_refl.
  - destruct who as [up u|]; [|exact I]. destruct max as [m|]; [|exact I].
    destruct (negb (0 <? m)); [exact I|]. destruct (a_sell_amt a <? m); [exact I|].
    eapply ledR_pre; [apply put_allowed_same_bank|apply IH].
Qed.

Lemma api_add_ledR s id l : ledRs s (api_add s id l).
Proof.
  unfold api_add. destruct l as [|e l]; [exact I|].
  destruct (find_auction s id) as [a|]; [|exact I].
  apply ledRs_bind; [apply call_hook_ledR|]. intros s1 _. apply add_entries_ledR.
Qed.

Lemma api_update_ledR s id u max : ledRs s (api_update s id u max).
Proof.
  unfold api_update. destruct (find_auction s id) as [a|]; [|exact I].
  destruct (find_allowed s id u); [|exact I]. destruct (check_pos max) as [m|]; [|exact I].
  apply ledRs_bind; [apply call_hook_ledR|]. intros s1 _.
  apply ledR_Ok_same, put_allowed_same_bank.
Qed.

Lemma update_params_ledR s auth cfee bfee period : ledRs s (update_params s auth cfee bfee period).
Proof.
  unfold update_params. destruct auth as [|[up u|]]; try exact I.
  destruct (check_coins cfee None); [|exact I]. destruct (check_coins bfee None); [|exact I].
  apply ledR_Ok_same. split; reflexivity.
Qed.

Lemma handle_ledR s c : ledRs s (handle s c).
Proof.
  destruct c; cbn [handle].
  - apply create_fixed_ledR.
  - apply create_batch_ledR.
  - apply cancel_ledR.
  - apply place_bid_ledR.
  - apply modify_bid_ledR.
  - destruct (st_switch s); [apply api_add_ledR|exact I].
  - apply update_params_ledR.
Qed.

(* ------------------------------------------------------------------ BeginBlocker *)
Lemma allocate_ledR s a mi w : ledRs s (allocate s a mi w).
Proof. unfold allocate. apply ledRs_bind; [apply call_hook_ledR|]. intros s1 _. apply pay_out_ledR. Qed.
Lemma refund_selling_ledR s a : ledRs s (refund_selling s a).
Proof. unfold refund_selling. apply send_ledR. Qed.
Lemma apply_vesting_ledR s a : ledRs s (apply_vesting s a).
Proof.
  unfold apply_vesting. cbv zeta. destruct (a_scheds a) as [|v vs].
  - apply ledRs_bind; [apply send_ledR|]. intros s1 _. apply ledR_Ok_same. split; reflexivity.
  - apply ledRs_bind; [apply send_ledR|]. intros s1 _. apply ledR_Ok_same. split; reflexivity.
Qed.
Lemma close_fixed_ledR s a : ledRs s (close_fixed s a).
Proof.
  unfold close_fixed. cbv zeta. apply ledRs_bind; [apply allocate_ledR|]. intros s1 _.
  apply ledRs_bind; [apply refund_selling_ledR|]. intros s2 _. apply apply_vesting_ledR.
Qed.
Lemma settle_batch_ledR s a mi : ledRs s (settle_batch s a mi).
Proof.
  unfold settle_batch. apply ledRs_bind; [apply allocate_ledR|]. intros s1 _.
  apply ledRs_bind; [apply refund_selling_ledR|]. intros s2 _.
  apply ledRs_bind; [apply pay_out_ledR|]. intros s3 _. apply apply_vesting_ledR.
Qed.
Lemma close_batch_ledR s orc a : ledRs s (close_batch s orc a).
Proof.
  unfold close_batch. cbv zeta.
  destruct (valid_order (bids_of s (a_id a)) _) as [order|]; [|exact I].
  destruct (calc_batch a (bids_of s (a_id a)) order (allowed_of s (a_id a))) as [mi|]; [|exact I].
  assert (E : same_bank s (set_flags s (a_id a) (mi_matched mi))) by (split; reflexivity).
  assert (Hs : ledRs s (settle_batch (set_flags s (a_id a) (mi_matched mi)) (set_matched_price a (mi_price mi)) mi)).
  { eapply ledR_pre; [exact E|apply settle_batch_ledR]. }
  assert (He : ledRs s (extend_round (set_flags s (a_id a) (mi_matched mi)) (set_matched_price a (mi_price mi)))).
  { unfold extend_round. apply ledR_Ok_same. split; reflexivity. }
  repeat match goal with |- ledR _ _ (if ?b then _ else _) => destruct b end; assumption.
Qed.
Lemma release_loop_ledR a t : forall vs s, ledRs s (release_loop s a t vs).
Proof.
  induction vs as [|v rest IH]; intros s; cbn [release_loop].
  - apply ledR_Ok_same, same_bank_refl.
  - destruct ((v_time v <=? t) && negb (v_released v)); [|apply IH].
    apply ledRs_bind; [apply send_ledR|]. intros s1 _. cbv zeta.
    eapply ledR_pre; [|apply IH]. destruct rest; split; reflexivity.
Qed.
Lemma process_ledR t orc s a : ledRs s (process t orc s a).
Proof.
  unfold process. destruct (a_status a).
  - destruct (a_start a <=? t); apply ledR_Ok_same; split; reflexivity.
  - destruct (last_end a <=? t); [|apply ledR_Ok_same, same_bank_refl].
    destruct (a_type a); [apply close_fixed_ledR|apply close_batch_ledR].
  - apply release_loop_ledR.
  - apply ledR_Ok_same, same_bank_refl.
  - apply ledR_Ok_same, same_bank_refl.
Qed.
Lemma process_all_ledR t orc l : forall s, ledRs s (process_all t orc s l).
Proof.
  induction l as [|a rest IH]; intros s; cbn [process_all].
  - apply ledR_Ok_same, same_bank_refl.
  - apply ledRs_bind; [apply process_ledR|]. intros s1 _. apply IH.
Qed.
Lemma begin_block_ledR s t orc : ledRs s (begin_block s t orc).
Proof.
  unfold begin_block. cbv zeta. eapply ledR_pre; [|apply process_all_ledR]. split; reflexivity.
Qed.

(* ------------------------------------------------------------------ GENESIS keeps the bank *)
Lemma fold_put_allowed_same_bank l : forall s,
  same_bank s (fold_left (fun s x => put_allowed s (al_auction x) (al_bidder x) (al_max x)) l s).
Proof.
  induction l as [|x r IH]; intros s; cbn [fold_left]; [apply same_bank_refl|].
  eapply same_bank_trans; [apply put_allowed_same_bank|apply IH].
Qed.
Lemma import_bids_same_bank l : forall s s', import_bids s l = Some s' -> same_bank s s'.
Proof.
  induction l as [|b r IH]; intros s s' H; cbn [import_bids] in H.
  - injection H as <-. apply same_bank_refl.
  - destruct (find_auction s (b_auction b)); [|discriminate]. cbv zeta in H. apply IH in H.
    eapply same_bank_trans; [|exact H]. split; reflexivity.
Qed.
Lemma import_vqs_same_bank l : forall s s', import_vqs s l = Some s' -> same_bank s s'.
Proof.
  induction l as [|v r IH]; intros s s' H; cbn [import_vqs] in H.
  - injection H as <-. apply same_bank_refl.
  - destruct (find_auction s (v_auction v)); [|discriminate]. cbv zeta in H. apply IH in H.
    eapply same_bank_trans; [|exact H]. split; reflexivity.
Qed.
Lemma import_same_bank base g s' : import base g = Some s' -> same_bank base s'.
Proof.
  unfold import. destruct (import_auctions (g_auctions g) 0%N) as [aus seq]. cbv zeta.
  match goal with |- context [fold_left ?f ?l ?s0] => set (s1 := fold_left f l s0); assert (E1 : same_bank s0 s1) by apply fold_put_allowed_same_bank end.
  destruct (import_bids s1 (g_bids g)) as [s2|] eqn:H2; [|discriminate].
  apply import_bids_same_bank in H2.
  match goal with |- context [import_vqs ?s3 _] => destruct (import_vqs s3 (g_vqs g)) as [s4|] eqn:H4; [|discriminate] end.
  apply import_vqs_same_bank in H4. intros H. injection H as <-.
  destruct E1 as [A1 B1], H2 as [A2 B2], H4 as [A4 B4]. unfold same_bank.
  cbn [st_bal st_xfers with_mlen with_params] in *. split; congruence.
Qed.
Lemma genesis_same_bank s v s' : genesis_roundtrip s = Some (v, s') -> same_bank s s'.
Proof.
  unfold genesis_roundtrip. cbv zeta. destruct (import s (export s)) as [s1|] eqn:H; [|discriminate].
  intros E. injection E as _ <-. apply import_same_bank in H. exact H.
Qed.

(* ------------------------------------------------------------------ every operation *)
Lemma commit_ledger s r : ledRs s r -> ledger s (snd (commit s r)).
Proof.
  intros H. destruct r as [s'|c tr]; cbn [commit snd]; [exact H|]. apply ledger_same. split; reflexivity.
Qed.

Theorem step_ledger_rel s o : ledger s (snd (step s o)).
Proof.
  destruct o as [m|a l|a u max|t orc|t orc k|from to d amt|ls|]; cbn [step].
  - unfold deliver_tx. destruct (check_basic m) as [c|]; [|apply ledger_refl].
    apply commit_ledger, handle_ledR.
  - apply commit_ledger, api_add_ledR.
  - apply commit_ledger, api_update_ledR.
  - pose proof (begin_block_ledR s t orc) as H. destruct (begin_block s t orc) as [s'|c tr]; cbn [snd].
    + exact H.
    + apply ledger_same. split; reflexivity.
  - pose proof (begin_block_ledR s t orc) as H. destruct (begin_block s t orc) as [s'|c tr].
    + destruct (Nat.ltb k (length (st_xfers s') - length (st_xfers s))); cbn [snd]; [|exact H].
      apply ledger_same. split; reflexivity.
    + apply ledger_same. split; reflexivity.
  - apply commit_ledger. destruct (0 <? amt); [apply send_ledR|exact I].
  - apply ledger_same. split; reflexivity.
  - destruct (genesis_roundtrip s) as [[v s']|] eqn:H; cbn [snd]; [|apply ledger_refl].
    apply ledger_same. eapply genesis_same_bank; exact H.
Qed.

Theorem step_ledger s o : exists xs,
  st_xfers (snd (step s o)) = st_xfers s ++ xs /\ st_bal (snd (step s o)) = apply_xfers (st_bal s) xs
  /\ Forall (fun x => 0 < x_amt x) xs.
Proof. destruct (step_ledger_rel s o) as [xs [X B Pp]]. exists xs. repeat split; assumption. Qed.

Theorem run_ledger_rel : forall ops s, ledger s (run s ops).
Proof.
  induction ops as [|o r IH]; intros s; cbn [run fold_left]; [apply ledger_refl|].
  eapply ledger_trans; [apply step_ledger_rel|apply IH].
Qed.
Theorem run_ledger s ops : exists xs,
  st_xfers (run s ops) = st_xfers s ++ xs /\ st_bal (run s ops) = apply_xfers (st_bal s) xs
  /\ Forall (fun x => 0 < x_amt x) xs.
Proof. destruct (run_ledger_rel ops s) as [xs [X B Pp]]. exists xs. repeat split; assumption. Qed.

(* the transfers of one step, as a function: the new suffix of the log *)
Definition step_xfers (s : state) (o : op) : list xfer :=
  skipn (length (st_xfers s)) (st_xfers (snd (step s o))).
Lemma step_xfers_spec s o : ledger_by s (snd (step s o)) (step_xfers s o).
Proof.
  destruct (step_ledger_rel s o) as [xs L]. unfold step_xfers.
  rewrite (lb_xfers _ _ _ L), skipn_app, skipn_all, Nat.sub_diag. cbn [skipn app]. exact L.
Qed.

(* ------------------------------------------------------------------ delta = net *)
Lemma sum_xfers_nil p : sum_xfers [] p = 0. Proof. reflexivity. Qed.
Lemma sum_xfers_cons x xs p : sum_xfers (x :: xs) p = (if p x then x_amt x else 0) + sum_xfers xs p.
Proof. unfold sum_xfers. cbn [filter]. destruct (p x); cbn [map]; rewrite ?sumZ_cons; lia. Qed.
Lemma sum_xfers_app xs ys p : sum_xfers (xs ++ ys) p = sum_xfers xs p + sum_xfers ys p.
Proof. unfold sum_xfers. rewrite filter_app, map_app, sumZ_app. reflexivity. Qed.
Lemma sum_xfers_nonneg xs p : pos_xs xs -> 0 <= sum_xfers xs p.
Proof.
  induction 1 as [|x xs Hx _ IH]; [rewrite sum_xfers_nil; lia|]. rewrite sum_xfers_cons. destruct (p x); lia.
Qed.
Lemma sum_xfers_ext xs p q : (forall x, In x xs -> p x = q x) -> sum_xfers xs p = sum_xfers xs q.
Proof.
  induction xs as [|x xs IH]; intros H; [reflexivity|]. rewrite !sum_xfers_cons.
  rewrite (H x (or_introl eq_refl)), IH; [reflexivity|]. intros y Hy. apply H. now right.
Qed.
Lemma sum_xfers_none xs p : (forall x, In x xs -> p x = false) -> sum_xfers xs p = 0.
Proof.
  induction xs as [|x xs IH]; intros H; [reflexivity|]. rewrite sum_xfers_cons.
  rewrite (H x (or_introl eq_refl)), IH; [reflexivity|]. intros y Hy. apply H. now right.
Qed.

Lemma net_nil a d : net [] a d = 0. Proof. reflexivity. Qed.
Lemma net_cons x xs a d :
  net (x :: xs) a d = ind (addr_eqb (x_to x) a && N.eqb (x_denom x) d) (x_amt x)
                      - ind (addr_eqb (x_from x) a && N.eqb (x_denom x) d) (x_amt x) + net xs a d.
Proof. unfold net. rewrite !sum_xfers_cons. unfold ind. lia. Qed.
Lemma net_app xs ys a d : net (xs ++ ys) a d = net xs a d + net ys a d.
Proof. unfold net. rewrite !sum_xfers_app. lia. Qed.

Lemma addr_eqb_sym x y : addr_eqb x y = addr_eqb y x.
Proof.
  destruct (addr_eqb x y) eqn:E.
  - apply EscrowBase.addr_eqb_eq in E. subst. symmetry. apply EscrowBase.addr_eqb_refl.
  - symmetry. apply EscrowBase.addr_eqb_neq. apply EscrowBase.addr_eqb_neq in E. congruence.
Qed.

Theorem apply_xfers_net xs : forall b a d, apply_xfers b xs a d = b a d + net xs a d.
Proof.
  induction xs as [|x xs IH]; intros b a d.
  - change (apply_xfers b [] a d) with (b a d). rewrite net_nil. lia.
  - change (apply_xfers b (x :: xs)) with (apply_xfers (apply_xfer b x) xs).
    rewrite IH, net_cons. unfold apply_xfer. rewrite move_spec.
    rewrite (addr_eqb_sym a (x_from x)), (addr_eqb_sym a (x_to x)), (N.eqb_sym d (x_denom x)). lia.
Qed.

Corollary delta_is_net s s' xs a d : ledger_by s s' xs -> st_bal s' a d - st_bal s a d = net xs a d.
Proof. intros [_ B _]. rewrite B, apply_xfers_net. lia. Qed.

Corollary step_delta_is_net s o a d :
  st_bal (snd (step s o)) a d - st_bal s a d = net (step_xfers s o) a d.
Proof. apply delta_is_net, step_xfers_spec. Qed.

(* ------------------------------------------------------------------ zero sum *)
Lemma sum_ind_addr (A : list addr) (f : addr) (c : Z) :
  NoDup A -> sumZ (map (fun a => if addr_eqb f a then c else 0) A) = if existsb (addr_eqb f) A then c else 0.
Proof.
  induction A as [|x r IH]; intros Hnd; [reflexivity|]. cbn [map existsb]. rewrite sumZ_cons.
  inversion Hnd as [|? ? Hnot Hnd']; subst. rewrite IH by assumption.
  destruct (addr_eqb f x) eqn:E; cbn [orb]; [|lia].
  apply EscrowBase.addr_eqb_eq in E. subst x.
  destruct (existsb (addr_eqb f) r) eqn:Ex; [|lia].
  apply existsb_exists in Ex. destruct Ex as (y & Hy & Ey). apply EscrowBase.addr_eqb_eq in Ey. subst y. contradiction.
Qed.

Lemma existsb_addr_in f A : In f A -> existsb (addr_eqb f) A = true.
Proof. intros H. apply existsb_exists. exists f. split; [exact H|apply EscrowBase.addr_eqb_refl]. Qed.

(* the endpoints of every transfer of xs are in A *)
Definition endpoints_in (A : list addr) (xs : list xfer) : Prop :=
  forall x, In x xs -> In (x_from x) A /\ In (x_to x) A.

Lemma sumZ_map_add3 {A} (f g h : A -> Z) l :
  sumZ (map (fun x => f x + g x - h x) l) = sumZ (map f l) + sumZ (map g l) - sumZ (map h l).
Proof. induction l as [|x r IH]; cbn [map]; rewrite ?sumZ_cons; [reflexivity|]. rewrite IH. lia. Qed.

Theorem net_zero_sum (A : list addr) xs d :
  NoDup A -> endpoints_in A xs -> sumZ (map (fun a => net xs a d) A) = 0.
Proof.
  intros Hnd. induction xs as [|x xs IH]; intros He.
  - clear. induction A as [|a A IH]; cbn [map]; rewrite ?sumZ_cons, ?net_nil; [reflexivity|]. rewrite IH. reflexivity.
  - destruct (He x (or_introl eq_refl)) as [Hf Ht].
    assert (He' : endpoints_in A xs) by (intros y Hy; apply He; now right). specialize (IH He').
    rewrite (map_ext _ (fun a => (if addr_eqb (x_to x) a then ind (N.eqb (x_denom x) d) (x_amt x) else 0)
                                 + net xs a d
                                 - (if addr_eqb (x_from x) a then ind (N.eqb (x_denom x) d) (x_amt x) else 0))).
    + rewrite sumZ_map_add3, IH, !sum_ind_addr by assumption.
      rewrite (existsb_addr_in _ _ Hf), (existsb_addr_in _ _ Ht). lia.
    + intros a. rewrite net_cons. unfold ind.
      destruct (addr_eqb (x_to x) a), (addr_eqb (x_from x) a), (N.eqb (x_denom x) d); cbn [andb]; lia.
Qed.

Theorem zero_sum_by s s' xs (A : list addr) d :
  ledger_by s s' xs -> NoDup A -> endpoints_in A xs ->
  sumZ (map (fun a => st_bal s' a d) A) = sumZ (map (fun a => st_bal s a d) A).
Proof.
  intros L Hnd He.
  rewrite (map_ext (fun a => st_bal s' a d) (fun a => st_bal s a d + net xs a d)).
  - pose proof (net_zero_sum A xs d Hnd He) as H0.
    transitivity (sumZ (map (fun a => st_bal s a d) A) + sumZ (map (fun a => net xs a d) A)); [|lia].
    clear. induction A as [|a A IH]; cbn [map]; rewrite ?sumZ_cons; [reflexivity|]. rewrite IH. lia.
  - intros a. rewrite (lb_bal _ _ _ L), apply_xfers_net. reflexivity.
Qed.

Theorem step_zero_sum s o (A : list addr) d :
  NoDup A -> endpoints_in A (step_xfers s o) ->
  sumZ (map (fun a => st_bal (snd (step s o)) a d) A) = sumZ (map (fun a => st_bal s a d) A).
Proof. intros Hnd He. eapply zero_sum_by; [apply step_xfers_spec|assumption|assumption]. Qed.

Theorem run_zero_sum s ops (A : list addr) d xs :
  ledger_by s (run s ops) xs -> NoDup A -> endpoints_in A xs ->
  sumZ (map (fun a => st_bal (run s ops) a d) A) = sumZ (map (fun a => st_bal s a d) A).
Proof. apply zero_sum_by. Qed.
