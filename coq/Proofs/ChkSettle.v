(* Checker links, common part for c03_ok / c04_ok / c05_ok: what `received` and `refunded` (sums over ALL the
   transfers of the observed transition) are for an auction that the transition settles.
   - the auctions in `settling (model_trans s o)` exist only when o is a successful block;
   - inside the block's list of transfers the settlement of auction a is the segment settle_xfers s a mi wr
     (LedgerBlock), and every other transfer of the block leaves an escrow account of ANOTHER auction, so the
     sums out of a's selling / paying escrow see exactly that segment;
   - the record and the bids of the settled auction afterwards (published price, matched flags).
   No axioms. *)
From Coq Require Import ZArith NArith List Bool Arith Lia Sorting.
From FR Require Import Dec Types Bank Match Step Genesis Model Spec Checkers.
From FR.Proofs Require Import InvDefs EscrowBase VestingFacts HookBase Ledger LedgerCharges LedgerSettle LedgerBlock.
From FR.Proofs Require FrameFacts TxFacts BlockFacts InvStaticBlock InvAll FixedFacts LiveFacts LifeTheorems
     GenesisImport PublishFacts EscrowBlock MatchDemand MatchBase LedgerChecker.
Import ListNotations.
Open Scope Z_scope.

(* ------------------------------------------------------------------ transfers out of the escrows of one auction *)
Definition from_id (id : N) (x : xfer) : Prop := exists r, x_from x = Escrow r id.
Definition not_from (id : N) (x : xfer) : Prop := forall r, x_from x <> Escrow r id.

Lemma logQ_mono (Q Q' : xfer -> Prop) s s' : (forall x, Q x -> Q' x) -> logQ Q s s' -> logQ Q' s s'.
Proof.
  intros H (xs & X & F). exists xs. split; [exact X|]. rewrite Forall_forall in *. intros x Hx. apply H, F, Hx.
Qed.
Lemma logR_mono (Q Q' : xfer -> Prop) s r : (forall x, Q x -> Q' x) -> logR Q s r -> logR Q' s r.
Proof. intros H. destruct r as [s'|c tr]; [apply logQ_mono, H|exact (fun x => x)]. Qed.

Section Own.
Variable id0 : N.
Let Q := from_id id0.
Lemma Q_own r t d a : Q (mkx (Escrow r id0) t d a).
Proof. exists r. reflexivity. Qed.

Lemma allocate_own s a mi w : a_id a = id0 -> logR Q s (allocate s a mi w).
Proof.
  intros E. unfold allocate. apply logR_bind; [apply call_hook_logR|]. intros s1 _. apply pay_out_logR.
  intros u x _. rewrite E. apply Q_own.
Qed.
Lemma apply_vesting_own s a : a_id a = id0 -> logR Q s (apply_vesting s a).
Proof.
  intros E. unfold apply_vesting. cbv zeta. rewrite E. destruct (a_scheds a) as [|v vs].
  - apply logR_bind; [apply send_logR; intros _; apply Q_own|]. intros s1 _. apply logR_Ok_same. reflexivity.
  - apply logR_bind; [apply send_logR; intros _; apply Q_own|]. intros s1 _. apply logR_Ok_same. reflexivity.
Qed.
Lemma close_fixed_own s a : a_id a = id0 -> logR Q s (close_fixed s a).
Proof.
  intros E. unfold close_fixed. cbv zeta. apply logR_bind; [apply allocate_own, E|]. intros s1 _.
  apply logR_bind; [unfold refund_selling; rewrite E; apply send_logR; intros _; apply Q_own|]. intros s2 _.
  apply apply_vesting_own, E.
Qed.
Lemma settle_batch_own s a mi : a_id a = id0 -> logR Q s (settle_batch s a mi).
Proof.
  intros E. unfold settle_batch. apply logR_bind; [apply allocate_own, E|]. intros s1 _.
  apply logR_bind; [unfold refund_selling; rewrite E; apply send_logR; intros _; apply Q_own|]. intros s2 _.
  apply logR_bind; [apply pay_out_logR; intros u x _; rewrite E; apply Q_own|]. intros s3 _. apply apply_vesting_own, E.
Qed.
Lemma close_batch_own s orc a : a_id a = id0 -> logR Q s (close_batch s orc a).
Proof.
  intros E. unfold close_batch. cbv zeta.
  destruct (valid_order (bids_of s (a_id a)) _) as [order|]; [|exact I].
  destruct (calc_batch a (bids_of s (a_id a)) order (allowed_of s (a_id a))) as [mi|]; [|exact I].
  assert (Hs : logR Q s (settle_batch (set_flags s (a_id a) (mi_matched mi)) (set_matched_price a (mi_price mi)) mi)).
  { eapply logR_pre; [|apply settle_batch_own; exact E]. reflexivity. }
  assert (He : logR Q s (extend_round (set_flags s (a_id a) (mi_matched mi)) (set_matched_price a (mi_price mi)))).
  { unfold extend_round. apply logR_Ok_same. reflexivity. }
  repeat match goal with |- logR _ _ (if ?b then _ else _) => destruct b end; assumption.
Qed.
Lemma release_loop_own a t : a_id a = id0 -> forall vs s, logR Q s (release_loop s a t vs).
Proof.
  intros E. induction vs as [|v rest IH]; intros s; cbn [release_loop].
  - apply logQ_refl.
  - destruct ((v_time v <=? t) && negb (v_released v)); [|apply IH].
    apply logR_bind; [rewrite E; apply send_logR; intros _; apply Q_own|]. intros s1 _. cbv zeta.
    eapply logR_pre; [|apply IH]. destruct rest; reflexivity.
Qed.
Lemma process_own t orc s a : a_id a = id0 -> logR Q s (process t orc s a).
Proof.
  intros E. unfold process. destruct (a_status a).
  - destruct (a_start a <=? t); apply logR_Ok_same; reflexivity.
  - destruct (last_end a <=? t); [|apply logQ_refl].
    destruct (a_type a); [apply close_fixed_own, E|apply close_batch_own, E].
  - apply release_loop_own, E.
  - apply logQ_refl.
  - apply logQ_refl.
Qed.
End Own.

(* a walk over auctions other than id makes no transfer out of an escrow of id *)
Lemma process_all_not_from id t orc : forall l s, ~ In id (map a_id l) -> logR (not_from id) s (process_all t orc s l).
Proof.
  induction l as [|a rest IH]; intros s Hn; cbn [process_all]; [apply logQ_refl|].
  cbn [map In] in Hn. apply logR_bind.
  - apply (logR_mono (from_id (a_id a))); [|apply process_own; reflexivity].
    intros x (r & E) r' C. rewrite E in C. injection C as _ C. apply Hn. left. exact C.
  - intros s1 _. apply IH. intros C. apply Hn. right. exact C.
Qed.

Lemma sum_xfers_not_from id xs r t d :
  Forall (not_from id) xs -> sum_xfers xs (from_to (Escrow r id) t d) = 0.
Proof.
  intros H. apply sum_xfers_none. intros x Hx. rewrite Forall_forall in H. specialize (H x Hx r).
  unfold from_to. destruct (addr_eqb (x_from x) (Escrow r id)) eqn:E; [|reflexivity].
  apply EscrowBase.addr_eqb_eq in E. contradiction.
Qed.

(* ------------------------------------------------------------------ the settlement of one auction inside a block *)
Import FrameFacts.

Lemma NoDup_app_l {A} (l1 l2 : list A) : NoDup (l1 ++ l2) -> NoDup l1.
Proof.
  induction l1 as [|x r IH]; intros H; [constructor|]. cbn [app] in H. inversion H as [|? ? Hn H']; subst.
  constructor; [intros C; apply Hn, in_or_app; left; exact C|apply IH, H'].
Qed.
Lemma NoDup_app_r {A} (l1 l2 : list A) : NoDup (l1 ++ l2) -> NoDup l2.
Proof.
  induction l1 as [|x r IH]; intros H; [exact H|]. cbn [app] in H. inversion H as [|? ? Hn H']; subst. apply IH, H'.
Qed.

Theorem block_settlement_located s t orc s' a a' :
  Inv s -> begin_block s t orc = Ok s' -> In a (st_auctions s) -> a_status a = Started ->
  find_auction s' (a_id a) = Some a' -> (a_status a' = VestingS \/ a_status a' = Finished) ->
  exists mi wr pre post,
    settles_with t orc s a mi wr
    /\ dues s a mi wr
    /\ st_xfers s' = st_xfers s ++ pre ++ settle_xfers s a mi wr ++ post
    /\ Forall (not_from (a_id a)) pre /\ Forall (not_from (a_id a)) post
    /\ (wr = true -> a_matched_price a' = mi_price mi
                     /\ bids_of s' (a_id a) = map (PublishFacts.flag_with (mi_matched mi)) (bids_of s (a_id a)))
    /\ (wr = false -> bids_of s' (a_id a) = bids_of s (a_id a)).
Proof.
  intros I H Ha St Fa' Hst'. unfold begin_block in H. cbv zeta in H.
  assert (I0 : Inv (with_now s t)) by (apply InvAll.Inv_with_now, I).
  assert (ND : NoDup (map a_id (st_auctions (with_now s t)))) by (destruct (InvAll.Inv_ids_ok s I) as [ND _]; exact ND).
  change (st_auctions (with_now s t)) with (st_auctions s) in *.
  destruct (in_split a (st_auctions s) Ha) as (l1 & l2 & El). rewrite El in H, ND.
  destruct (LiveFacts.process_all_ok_each t orc l1 a l2 _ _ H) as (s1 & s2 & H1 & Hp & H2).
  rewrite map_app in ND. cbn [map] in ND.
  pose proof (NoDup_remove_1 _ _ _ ND) as ND12. pose proof (NoDup_remove_2 _ _ _ ND) as Hn12.
  assert (ND1 : NoDup (map a_id l1)) by (apply NoDup_app_l in ND12; exact ND12).
  assert (ND2 : NoDup (map a_id l2)) by (apply NoDup_app_r in ND12; exact ND12).
  assert (Hn1 : ~ In (a_id a) (map a_id l1)) by (intros C; apply Hn12, in_or_app; left; exact C).
  assert (Hn2 : ~ In (a_id a) (map a_id l2)) by (intros C; apply Hn12, in_or_app; right; exact C).
  assert (Hl1 : forall x, In x l1 -> In x (st_auctions (with_now s t))).
  { intros x Hx. change (st_auctions (with_now s t)) with (st_auctions s). rewrite El. apply in_or_app. left. exact Hx. }
  pose proof (InvAll.Inv_process_all t orc l1 _ _ I0 ND1 Hl1 H1) as I1.
  destruct (BlockFacts.process_all_spec t orc l1 _ _ ND1 H1) as (F1 & _).
  destruct (BlockFacts.process_all_spec t orc l2 _ _ ND2 H2) as (F2 & _).
  pose proof (F1 _ Hn1) as S1. pose proof (F2 _ Hn2) as S2.
  assert (S01 : slice_eq (a_id a) s s1).
  { eapply slice_eq_trans; [|exact S1]. split; reflexivity. }
  pose proof (InvAll.Inv_find_in s a I Ha) as Fa.
  assert (Fa1 : find_auction s1 (a_id a) = Some a) by (rewrite (se_auction _ _ _ S01); exact Fa).
  assert (Fa2 : find_auction s2 (a_id a) = Some a') by (rewrite <- (se_auction _ _ _ S2); exact Fa').
  destruct (settlement_dues t orc s1 a s2 a' I1 Fa1 St Hp Fa2 Hst') as (mi & wr & Hw & L & D & _).
  pose proof (process_all_not_from (a_id a) t orc l1 (with_now s t) Hn1) as L1. rewrite H1 in L1.
  pose proof (process_all_not_from (a_id a) t orc l2 s2 Hn2) as L2. rewrite H2 in L2.
  destruct L1 as (pre & X1 & Q1). destruct L2 as (post & X2 & Q2).
  exists mi, wr, pre, post.
  split; [eapply settles_with_slice; eassumption|]. split; [eapply dues_slice; eassumption|].
  split.
  { rewrite X2, (lb_xfers _ _ _ L), X1. cbn [st_xfers with_now].
    rewrite (settle_xfers_slice s s1 a mi wr S01), <- !app_assoc. reflexivity. }
  split; [exact Q1|]. split; [exact Q2|].
  rewrite (se_bids _ _ _ S2), <- (se_bids _ _ _ S01).
  destruct Hw as [Due [(Ty & -> & _)|(Ty & -> & Dec & order & HV & HC)]].
  - split; [discriminate|]. intros _.
    unfold process in Hp. rewrite St in Hp. apply Z.leb_le in Due. rewrite Due, Ty in Hp.
    apply PublishFacts.close_fixed_bids in Hp. destruct Hp as [Hb _]. unfold bids_of. rewrite Hb. reflexivity.
  - split; [|discriminate]. intros _.
    unfold process in Hp. rewrite St in Hp. apply Z.leb_le in Due. rewrite Due, Ty in Hp.
    pose proof (EscrowBlock.Inv_book_wf s1 (a_id a) I1) as BW.
    pose proof (EscrowBlock.InvStaticBase_find_wf s1 a I1 Fa1) as AW.
    assert (Hsup : 0 <= a_sell_amt a) by (pose proof (awf_amt _ AW); lia).
    destruct (PublishFacts.close_batch_publishes s1 orc a s2 Fa1 BW Hsup Hp)
      as (order' & mi' & a'' & HV' & HC' & Fa'' & _ & Epr & Ebids & _).
    cbv zeta in HV', HC', Fa'', Epr, Ebids.
    rewrite HV in HV'. injection HV' as <-. rewrite HC in HC'. injection HC' as <-.
    rewrite Fa2 in Fa''. injection Fa'' as <-. split; [exact Epr|exact Ebids].
Qed.

(* ------------------------------------------------------------------ the auctions a model transition settles *)
Lemma in_paired t a a' :
  In (a, a') (paired t) <-> In a (st_auctions (t_pre t)) /\ find_auction (t_post t) (a_id a) = Some a'.
Proof.
  unfold paired. rewrite in_flat_map. split.
  - intros (x & Hx & Hin). destruct (find_auction (t_post t) (a_id x)) as [x'|] eqn:F; [|destruct Hin].
    destruct Hin as [E|[]]. injection E as <- <-. split; assumption.
  - intros [Ha F]. exists a. split; [exact Ha|]. rewrite F. left. reflexivity.
Qed.

Lemma in_settling t a a' :
  In (a, a') (settling t) <->
  In a (st_auctions (t_pre t)) /\ find_auction (t_post t) (a_id a) = Some a'
  /\ a_status a = Started /\ (a_status a' = VestingS \/ a_status a' = Finished).
Proof.
  unfold settling. rewrite filter_In, in_paired. cbn [fst snd]. rewrite andb_true_iff.
  unfold settled. rewrite orb_true_iff, !TxFacts.status_eqb_eq. tauto.
Qed.

Definition op_block (o : op) (t : Z) (orc : list (N * list N)) : Prop :=
  o = OBlock t orc \/ exists k, o = OFaultBlock t orc k.

(* only a successful block settles anything *)
Theorem settling_block s o a a' :
  Inv s -> In (a, a') (settling (model_trans s o)) ->
  exists t orc s',
    op_block o t orc /\ begin_block (FixedFacts.ghost_reset s) t orc = Ok s'
    /\ t_post (model_trans s o) = s' /\ t_xfers (model_trans s o) = st_xfers s'
    /\ t_class (model_trans s o) = KBlockOk.
Proof.
  intros I Hin. pose proof (FixedFacts.Inv_ghost_reset s I) as I0.
  apply in_settling in Hin. destruct Hin as (Ha & Fa' & St & Hst').
  unfold model_trans in *. fold (FixedFacts.ghost_reset s) in *.
  destruct (step (FixedFacts.ghost_reset s) o) as [out s'] eqn:Es.
  assert (Es1 : fst (step (FixedFacts.ghost_reset s) o) = out) by (rewrite Es; reflexivity).
  assert (Es2 : snd (step (FixedFacts.ghost_reset s) o) = s') by (rewrite Es; reflexivity).
  cbn [t_pre t_post t_xfers t_class] in *.
  assert (Ha0 : In a (st_auctions (FixedFacts.ghost_reset s))) by exact Ha.
  pose proof (InvAll.Inv_find_in _ a I0 Ha0) as Fa.
  assert (Hnot : a_status a' <> a_status a) by (rewrite St; destruct Hst' as [-> | ->]; discriminate).
  destruct (FrameFacts.is_block o) eqn:B.
  - destruct (BlockFacts.step_block (FixedFacts.ghost_reset s) o B) as [[Ho Hb]|[_ (tr & Hs')]].
    + rewrite Es1 in Ho. rewrite Es2 in Hb. subst out.
      destruct o as [m|id l|id u max|t orc|t orc k|from to d amt|ls|]; try discriminate B.
      * exists t, orc, s'. split; [left; reflexivity|]. split; [exact Hb|]. split; [reflexivity|]. split; [reflexivity|rewrite Ho; reflexivity].
      * exists t, orc, s'. split; [right; exists k; reflexivity|]. split; [exact Hb|]. split; [reflexivity|]. split; [reflexivity|rewrite Ho; reflexivity].
    + exfalso. rewrite Es2 in Hs'. rewrite Hs' in Fa'.
      change (find_auction (FixedFacts.ghost_reset s) (a_id a) = Some a') in Fa'.
      rewrite Fa in Fa'. injection Fa' as <-. apply Hnot. reflexivity.
  - exfalso. destruct o as [m|id l|id u max|t orc|t orc k|from to d amt|ls|]; try discriminate B.
    6:{ destruct (GenesisImport.genesis_step _ I0) as (s'' & Hs & SS). rewrite Hs in Es. injection Es as <- <-.
        unfold find_auction in Fa'. rewrite (GenesisImport.ss_auctions _ _ SS) in Fa'.
        change (find_auction (FixedFacts.ghost_reset s) (a_id a) = Some a') in Fa'.
        rewrite Fa in Fa'. injection Fa' as <-. apply Hnot. reflexivity. }
    all: rewrite <- Es2 in Fa';
      match type of Fa' with find_auction (snd (step _ ?o)) _ = _ =>
        assert (Hg : o <> OGenesis) by discriminate;
        destruct (LifeTheorems.L_C08_only_block_or_cancel _ o _ _ _ Hg B Fa Fa') as [E|(_ & _ & E & _)];
        [apply Hnot; exact E|rewrite St in E; discriminate E] end.
Qed.

(* what the checkers see of a settlement: the sums over the whole list of transfers of the transition *)
Theorem settling_facts s o a a' :
  Inv s -> In (a, a') (settling (model_trans s o)) ->
  let tr := model_trans s o in
  exists t orc mi wr,
    In a (st_auctions s) /\ a_status a = Started
    /\ find_auction (t_post tr) (a_id a) = Some a'
    /\ settles_with t orc s a mi wr /\ dues s a mi wr
    /\ (forall u, received tr (a_id a) (a_sell_denom a) u
                  = (if existsb (N.eqb u) (mi_bidders mi) then mi_alloc mi u else 0)
                    + (if N.eqb (a_auctioneer a) u then unsold_of s a mi else 0))
    /\ (forall u, refunded tr (a_id a) (a_pay_denom a) u
                  = (if wr && existsb (N.eqb u) (mi_bidders mi) then mi_refund mi u else 0)
                    + (if match a_scheds a with [] => N.eqb (a_auctioneer a) u | _ => false end
                       then proceeds_of s a mi wr else 0))
    /\ (wr = true -> a_matched_price a' = mi_price mi
                     /\ bids_of (t_post tr) (a_id a)
                        = map (PublishFacts.flag_with (mi_matched mi)) (bids_of s (a_id a)))
    /\ (wr = false -> bids_of (t_post tr) (a_id a) = bids_of s (a_id a)).
Proof.
  intros I Hin tr. subst tr.
  destruct (settling_block s o a a' I Hin) as (t & orc & s' & _ & Hb & Ep & Ex & _).
  apply in_settling in Hin. destruct Hin as (Ha & Fa' & St & Hst').
  assert (Epre : t_pre (model_trans s o) = s) by (destruct (LedgerChecker.model_trans_fields s o) as (E & _); exact E).
  rewrite Epre in Ha. rewrite Ep in Fa'.
  pose proof (FixedFacts.Inv_ghost_reset s I) as I0.
  assert (Ha0 : In a (st_auctions (FixedFacts.ghost_reset s))) by exact Ha.
  destruct (block_settlement_located _ t orc s' a a' I0 Hb Ha0 St Fa' Hst')
    as (mi & wr & pre & post & Hw & D & X & Q1 & Q2 & Hbat & Hfix).
  exists t, orc, mi, wr. rewrite Ep.
  assert (S0 : FrameFacts.slice_eq (a_id a) s (FixedFacts.ghost_reset s)) by (split; reflexivity).
  split; [exact Ha|]. split; [exact St|]. split; [exact Fa'|].
  split; [eapply settles_with_slice; eassumption|]. split; [eapply dues_slice; eassumption|].
  assert (Hnd : NoDup (mi_bidders mi)).
  { pose proof (du_sorted _ _ _ _ D) as Hs. apply MatchBase.sorted_lt_nodup. exact Hs. }
  cbn [st_xfers FixedFacts.ghost_reset with_trace with_bank app] in X.
  split; [|split; [|split; [exact Hbat|exact Hfix]]].
  - intros u. unfold received. rewrite Ex, X, !sum_xfers_app.
    rewrite (sum_xfers_not_from _ pre), (sum_xfers_not_from _ post) by assumption.
    destruct (settle_xfers_received (FixedFacts.ghost_reset s) a mi wr u Hnd) as [E _]. rewrite E. unfold unsold_of. cbn [st_bal FixedFacts.ghost_reset with_trace with_bank]. lia.
  - intros u. unfold refunded. rewrite Ex, X, !sum_xfers_app.
    rewrite (sum_xfers_not_from _ pre), (sum_xfers_not_from _ post) by assumption.
    destruct (settle_xfers_received (FixedFacts.ghost_reset s) a mi wr u Hnd) as [_ E]. rewrite E. unfold proceeds_of. cbn [st_bal FixedFacts.ghost_reset with_trace with_bank]. lia.
Qed.
