(* C01, exact form: the excess equation for one auction of a block (process), for the whole walk
   (process_all, begin_block) and for the two block operations. *)
From Coq Require Import ZArith NArith List Bool Arith Lia Sorted.
From FR Require Import Dec Types Bank Match Step Genesis Model Spec.
From FR.Proofs Require Import InvDefs FrameFacts TxFacts BlockFacts InvStaticBase InvStaticBlock.
From FR.Proofs Require PrecondBase DecFacts VestingFacts VestingInv.
From FR.Proofs Require Import EscrowBase EscrowTx EscrowBlock InvAll ExcessDefs ExcessTx.
Import ListNotations.
Open Scope Z_scope.

(* ------------------------------------------------------------------ updates that move no coins *)
Lemma excess_set_flags s id m r j d : excess (set_flags s id m) r j d = excess s r j d.
Proof.
  unfold excess. change (st_bal (set_flags s id m)) with (st_bal s). f_equal. unfold owed.
  change (find_auction (set_flags s id m) j) with (find_auction s j).
  change (vqs_of (set_flags s id m) j) with (vqs_of s j).
  destruct (find_auction s j) as [a|]; [|reflexivity]. destruct r; try reflexivity.
  rewrite (bids_of_set_flags_map (pay_amount (a_pay_denom a)) s id m j); reflexivity.
Qed.

(* the record of the target changes, but neither its terms nor (essentially) its status *)
Lemma excess_target_static s s' id a a' :
  find_auction s id = Some a -> find_auction s' id = Some a' ->
  a_sell_denom a' = a_sell_denom a -> a_sell_amt a' = a_sell_amt a -> a_pay_denom a' = a_pay_denom a ->
  (forall r d, st_bal s' (Escrow r id) d = st_bal s (Escrow r id) d) ->
  map (pay_amount (a_pay_denom a)) (bids_of s' id) = map (pay_amount (a_pay_denom a)) (bids_of s id) ->
  vqs_of s' id = vqs_of s id ->
  (a_status a' = a_status a \/ (a_status a = StandBy /\ a_status a' = Started /\ bids_of s id = [])) ->
  forall r d, excess s' r id d = if sweepsP s s' r id d then 0 else excess s r id d.
Proof.
  intros F F' Hsd Hsa Hpd Hbal Hb Hv Hst r d.
  rewrite (sweepsP_some _ _ r id d a a' F F'). unfold excess.
  rewrite Hbal, (owed_some _ r id d a' F'), (owed_some _ r id d a F), Hsd, Hsa, Hpd, Hb, Hv.
  destruct Hst as [->|(S0 & S1 & Hnil)].
  - destruct r.
    + destruct (is_open (a_status a)); cbn [negb andb]; rewrite ?andb_false_r; reflexivity.
    + destruct (a_status a); cbn [status_eqb andb orb]; rewrite ?andb_false_r; reflexivity.
    + reflexivity.
  - rewrite S0, S1, Hnil. cbn [is_open status_eqb orb negb andb map]. change (sumZ []) with 0.
    rewrite !andb_false_r, ?andb_true_r. destruct r; [reflexivity| |reflexivity].
    destruct (N.eqb d (a_pay_denom a)); reflexivity.
Qed.

(* ------------------------------------------------------------------ settlement, exactly *)
Lemma pay_out_bal us : forall s from d f s', pay_out s from d us f = Ok s' ->
  (forall r j d', Escrow r j <> from \/ d' <> d -> st_bal s' (Escrow r j) d' = st_bal s (Escrow r j) d')
  /\ exists b xs, s' = with_bank s b xs.
Proof.
  induction us as [|u us IH]; intros s from d f s' H; cbn [pay_out] in H.
  - injection H as <-. split; [reflexivity|]. exists (st_bal s), (st_xfers s). symmetry. apply with_bank_eta.
  - destruct (f u =? 0); [exact (IH _ _ _ _ _ H)|].
    apply bind_inv in H. destruct H as [s1 [H1 H]].
    destruct (send_ok _ _ _ _ _ _ H1) as (_ & _ & Hbal & b1 & xs1 & S1).
    destruct (IH _ _ _ _ _ H) as (K & b2 & xs2 & S2). split.
    + intros r j d' Hx. rewrite (K r j d' Hx), Hbal, esc_neq_user. cbn [andb ind].
      assert (E : addr_eqb (Escrow r j) from && N.eqb d' d = false).
      { destruct Hx as [Hx|Hx]; [apply addr_eqb_neq in Hx; rewrite Hx; reflexivity|].
        apply N.eqb_neq in Hx. rewrite Hx. apply andb_false_r. }
      rewrite E. cbn [ind]. lia.
    + exists b2, xs2. rewrite S2, S1. reflexivity.
Qed.

Lemma settle_gen_exact s a mi wr s' :
  settle_gen s a mi wr = Ok s' ->
  exists R, 0 <= R /\
    st_vqs s' = st_vqs s ++ (match a_scheds a with [] => [] | vs => split a R R vs end) /\
    st_bids s' = st_bids s /\
    (forall d, st_bal s' (Escrow Selling (a_id a)) d
               = if N.eqb d (a_sell_denom a) then 0 else st_bal s (Escrow Selling (a_id a)) d) /\
    (forall d, st_bal s' (Escrow Paying (a_id a)) d
               = if N.eqb d (a_pay_denom a) then 0 else st_bal s (Escrow Paying (a_id a)) d) /\
    (forall d, st_bal s' (Escrow Vesting (a_id a)) d
               = st_bal s (Escrow Vesting (a_id a)) d
                 + match a_scheds a with [] => 0 | _ => if N.eqb d (a_pay_denom a) then R else 0 end).
Proof.
  unfold settle_gen, allocate, refund_selling. cbv zeta. intros H.
  apply bind_inv in H. destruct H as [s1 [H1 H]].
  apply bind_inv in H1. destruct H1 as [s0 [H0 H1]]. apply call_hook_fields in H0. destruct H0 as [tr ->].
  apply bind_inv in H. destruct H as [s2 [H2 H]].
  apply bind_inv in H. destruct H as [s3 [H3 H]].
  destruct (pay_out_bal _ _ _ _ _ _ H1) as (K1 & b1 & xs1 & S1).
  destruct (send_ok _ _ _ _ _ _ H2) as (_ & _ & Hbal2 & b2 & xs2 & S2).
  assert (K3 : (forall r j d', Escrow r j <> Escrow Paying (a_id a) \/ d' <> a_pay_denom a ->
                               st_bal s3 (Escrow r j) d' = st_bal s2 (Escrow r j) d')
               /\ exists b xs, s3 = with_bank s2 b xs).
  { destruct wr; [eapply pay_out_bal; exact H3|]. injection H3 as <-. split; [reflexivity|].
    exists (st_bal s2), (st_xfers s2). symmetry. apply with_bank_eta. }
  destruct K3 as (K3 & b3 & xs3 & S3).
  assert (B3S : forall d, st_bal s3 (Escrow Selling (a_id a)) d
                          = if N.eqb d (a_sell_denom a) then 0 else st_bal s (Escrow Selling (a_id a)) d).
  { intros d. rewrite K3 by (left; discriminate). rewrite Hbal2, esc_neq_user, addr_eqb_refl. cbn [andb ind].
    destruct (N.eqb d (a_sell_denom a)) eqn:Ed; cbn [ind].
    - apply N.eqb_eq in Ed. subst d. lia.
    - rewrite K1 by (right; apply N.eqb_neq; exact Ed). cbn [st_bal with_trace]. lia. }
  assert (B3P : forall d, d <> a_pay_denom a -> st_bal s3 (Escrow Paying (a_id a)) d = st_bal s (Escrow Paying (a_id a)) d).
  { intros d Hd. rewrite K3 by (right; exact Hd). rewrite Hbal2, esc_neq_user. cbn [addr_eqb role_eqb andb ind].
    rewrite K1 by (left; discriminate). cbn [st_bal with_trace]. lia. }
  assert (B3V : forall d, st_bal s3 (Escrow Vesting (a_id a)) d = st_bal s (Escrow Vesting (a_id a)) d).
  { intros d. rewrite K3 by (left; discriminate). rewrite Hbal2, esc_neq_user. cbn [addr_eqb role_eqb andb ind].
    rewrite K1 by (left; discriminate). cbn [st_bal with_trace]. lia. }
  assert (Hbids3 : st_bids s3 = st_bids s) by (subst s3 s2 s1; reflexivity).
  assert (Hvqs3 : st_vqs s3 = st_vqs s) by (subst s3 s2 s1; reflexivity).
  unfold apply_vesting in H. cbv zeta in H.
  set (R := st_bal s3 (Escrow Paying (a_id a)) (a_pay_denom a)) in *.
  exists R.
  destruct (a_scheds a) as [|v vs] eqn:Esch.
  - apply bind_inv in H. destruct H as [s4 [H4 H]]. injection H as <-.
    destruct (send_ok _ _ _ _ _ _ H4) as (HR & _ & Hbal4 & b4 & xs4 & S4).
    split; [exact HR|]. cbn [st_vqs st_bids st_bal put_auction with_auctions].
    split; [subst s4; cbn [st_vqs with_bank]; rewrite Hvqs3; symmetry; apply app_nil_r|].
    split; [subst s4; exact Hbids3|].
    split; [|split].
    + intros d. rewrite Hbal4, esc_neq_user. cbn [addr_eqb role_eqb andb ind]. rewrite B3S. lia.
    + intros d. rewrite Hbal4, esc_neq_user, addr_eqb_refl. cbn [andb ind].
      destruct (N.eqb d (a_pay_denom a)) eqn:Ed; cbn [ind].
      * apply N.eqb_eq in Ed. subst d. fold R. lia.
      * rewrite B3P by (apply N.eqb_neq; exact Ed). lia.
    + intros d. rewrite Hbal4, esc_neq_user. cbn [addr_eqb role_eqb andb ind]. rewrite B3V. lia.
  - apply bind_inv in H. destruct H as [s4 [H4 H]]. injection H as <-.
    destruct (send_ok _ _ _ _ _ _ H4) as (HR & _ & Hbal4 & b4 & xs4 & S4).
    split; [exact HR|]. cbn [st_vqs st_bids st_bal put_auction with_auctions with_vqs].
    split; [subst s4; cbn [st_vqs with_bank]; rewrite Hvqs3; reflexivity|].
    split; [subst s4; exact Hbids3|].
    split; [|split].
    + intros d. rewrite Hbal4. cbn [addr_eqb role_eqb andb ind]. rewrite B3S. lia.
    + intros d. rewrite Hbal4, addr_eqb_refl. cbn [addr_eqb role_eqb andb ind].
      destruct (N.eqb d (a_pay_denom a)) eqn:Ed; cbn [ind].
      * apply N.eqb_eq in Ed. subst d. fold R. lia.
      * rewrite B3P by (apply N.eqb_neq; exact Ed). lia.
    + intros d. rewrite Hbal4, addr_eqb_refl. cbn [addr_eqb role_eqb andb ind]. rewrite B3V.
      unfold ind. destruct (N.eqb d (a_pay_denom a)); lia.
Qed.

(* the three escrows of the auction that settles *)
Lemma settle_excess sf a0 a1 mi wr s' :
  find_auction sf (a_id a1) = Some a0 -> a_status a0 = Started ->
  a_sell_denom a0 = a_sell_denom a1 -> a_sell_amt a0 = a_sell_amt a1 -> a_pay_denom a0 = a_pay_denom a1 ->
  vqs_of sf (a_id a1) = [] ->
  settle_gen sf a1 mi wr = Ok s' ->
  forall r d, excess s' r (a_id a1) d = if sweepsP sf s' r (a_id a1) d then 0 else excess sf r (a_id a1) d.
Proof.
  intros Fa Hst Hsd Hsa Hpd Hnov H r d.
  destruct (settle_gen_exact _ _ _ _ _ H) as (R & HR & Svqs & Sbids & BS & BP & BV).
  pose proof (settle_gen_shape _ _ _ _ _ H) as Sh.
  pose proof (settle_auctions _ _ _ Sh) as Hauc.
  pose proof (find_auction_some _ _ _ Fa) as [_ Hid0].
  set (a' := set_status a1 (settled_st a1)) in *.
  assert (Fa' : find_auction s' (a_id a1) = Some a').
  { rewrite <- Hid0. apply (find_after_put sf s' a0 a' Hauc); [rewrite Hid0; reflexivity|rewrite Hid0; exact Fa]. }
  rewrite (sweepsP_some _ _ r (a_id a1) d a0 a' Fa Fa'). unfold excess.
  rewrite (owed_some _ r (a_id a1) d a' Fa'), (owed_some _ r (a_id a1) d a0 Fa), Hst, Hsd, Hpd.
  cbn [a_status a' set_status a_sell_denom a_pay_denom a_sell_amt].
  unfold settled_st. destruct (a_scheds a1) as [|v vs] eqn:Esch;
    cbn [is_open status_eqb orb negb andb]; rewrite ?andb_false_r, ?andb_true_r.
  - destruct r.
    + rewrite BS. destruct (N.eqb d (a_sell_denom a1)); lia.
    + rewrite BP. destruct (N.eqb d (a_pay_denom a1)); lia.
    + rewrite BV. lia.
  - destruct r.
    + rewrite BS. destruct (N.eqb d (a_sell_denom a1)); lia.
    + rewrite BP. destruct (N.eqb d (a_pay_denom a1)); lia.
    + rewrite BV. destruct (N.eqb d (a_pay_denom a1)) eqn:Ed; [|lia].
      unfold vqs_of. rewrite Svqs.
      rewrite (vqs_split_of sf a1 R (v :: vs) Hnov), sum_unreleased_split.
      rewrite (DecFacts.split_sum a1 R (v :: vs)) by discriminate. lia.
Qed.

(* ------------------------------------------------------------------ vesting release, exactly *)
Lemma sum_filter_ext {A} (f : A -> Z) (p q : A -> bool) l :
  (forall x, In x l -> p x = q x) -> sumZ (map f (filter p l)) = sumZ (map f (filter q l)).
Proof.
  intros H. f_equal. f_equal. apply filter_ext_in. exact H.
Qed.

Lemma release_excess s a t s' :
  Inv s -> find_auction s (a_id a) = Some a -> a_status a = VestingS ->
  release_loop s a t (vqs_of s (a_id a)) = Ok s' ->
  forall r d, excess s' r (a_id a) d = if sweepsP s s' r (a_id a) d then 0 else excess s r (a_id a) d.
Proof.
  intros I Fa Hst H0.
  destruct (inv_vqs _ I) as (W & Hnd & W3). rewrite Forall_forall in W.
  destruct (inv_escrow _ I) as [B E].
  pose proof (find_auction_some _ _ _ Fa) as [Hin _].
  assert (Hq : forall v, In v (vqs_of s (a_id a)) -> 0 <= v_amt v /\ v_denom v = a_pay_denom a).
  { intros v Hv. apply in_vqs_of in Hv. destruct Hv as [Hv Ha]. split; [apply (vwf_amt _ _ (W v Hv))|].
    destruct (vwf_auction _ _ (W v Hv)) as (a0 & Fa0 & _ & _ & Hd & _). rewrite Ha, Fa in Fa0. injection Fa0 as <-. exact Hd. }
  assert (Hfund : sumZ (map v_amt (filter (fun v => negb (v_released v)) (vqs_of s (a_id a))))
                  <= st_bal s (Escrow Vesting (a_id a)) (a_pay_denom a)).
  { specialize (E Vesting (a_id a) (a_pay_denom a)). unfold owed in E. rewrite Fa, Hst, N.eqb_refl in E. exact E. }
  destruct (VestingFacts.release_loop_ok s a t Hnd Hq Hfund) as (s'' & H & RS & _ & Hpaid & Hbv & Hbu & Hod & Hox & Hmono).
  rewrite H0 in H. injection H as <-.
  destruct (VestingFacts.release_own_spec s a t s' Hnd H0) as (_ & _ & Hown & Hoth).
  set (vs := vqs_of s (a_id a)) in *.
  set (paid := sumZ (map v_amt (VestingFacts.due_of t vs))) in *.
  assert (Hbids : st_bids s' = st_bids s) by apply (VestingFacts.rs_bids _ _ _ _ _ RS).
  assert (Hauc : st_auctions s' = if last_due_rec t vs then st_auctions (put_auction s (set_status a Finished)) else st_auctions s)
    by apply (VestingFacts.rs_auctions _ _ _ _ _ RS).
  assert (Hvsid : forall v, In v vs -> v_auction v = a_id a) by (intros v Hv; apply in_vqs_of in Hv; apply Hv).
  (* balances of the three escrows *)
  assert (HbalE : forall r d, st_bal s' (Escrow r (a_id a)) d
             = st_bal s (Escrow r (a_id a)) d - ind (role_eqb r Vesting && N.eqb d (a_pay_denom a)) paid).
  { intros r d. destruct r; cbn [role_eqb andb ind].
    - rewrite Hox by discriminate. lia.
    - rewrite Hox by discriminate. lia.
    - destruct (N.eqb d (a_pay_denom a)) eqn:Ed; cbn [ind].
      + apply N.eqb_eq in Ed. subst d. rewrite Hbv. lia.
      + rewrite Hod by (apply N.eqb_neq; exact Ed). lia. }
  intros r d.
  destruct (last_due_rec t vs) eqn:L.
  - (* the last instalment goes out: the auction finishes *)
    assert (Fa' : find_auction s' (a_id a) = Some (set_status a Finished)).
    { rewrite (find_auction_conv_put s s' (set_status a Finished) (a_id a) Hauc). cbn [a_id set_status].
      rewrite N.eqb_refl, Fa. reflexivity. }
    rewrite (sweepsP_some _ _ r (a_id a) d a _ Fa Fa'). unfold excess.
    rewrite HbalE, (owed_some _ r (a_id a) d _ Fa'), (owed_some _ r (a_id a) d a Fa), Hst.
    cbn [a_status set_status a_sell_denom a_pay_denom a_sell_amt is_open status_eqb orb negb andb].
    rewrite ?andb_false_r, ?andb_true_r.
    destruct r; cbn [role_eqb andb ind]; [lia|lia|].
    destruct (N.eqb d (a_pay_denom a)) eqn:Ed; cbn [ind]; [|lia].
    (* every unreleased instalment is due *)
    fold vs.
    assert (Hall : forall x, In x vs -> v_time x <= t).
    { destruct vs as [|v0 rest0] eqn:Evs; [discriminate L|].
      assert (Hv0 : In v0 (vqs_of s (a_id a))) by (fold vs; rewrite Evs; left; reflexivity).
      apply in_vqs_of in Hv0. destruct Hv0 as [Hv0 Ha0].
      destruct (vwf_auction _ _ (W v0 Hv0)) as (ax & Fax & _ & _ & _ & Hint & _).
      rewrite Ha0, Fa in Fax. injection Fax as <-.
      assert (Hne : a_scheds a <> []) by (intros C; rewrite C in Hint; destruct Hint).
      destruct (W3 a Hin (or_introl Hst) Hne) as (Ht & _). fold vs in Ht. rewrite Evs in Ht.
      pose proof (inv_auctions _ I) as Aw. unfold auctions_wf in Aw. rewrite Forall_forall in Aw.
      destruct (VestingInv.scheds_wf_cases a (awf_scheds _ (Aw a Hin)) Hne) as (HS & _). rewrite <- Ht in HS.
      apply (VestingInv.last_due_all_due t _ HS L). }
    assert (Heq : paid = sumZ (map v_amt (filter (fun v => negb (v_released v)) vs))).
    { unfold paid, VestingFacts.due_of. apply sum_filter_ext. intros x Hx. unfold vq_due.
      pose proof (Hall x Hx) as Hle. apply Z.leb_le in Hle. rewrite Hle. reflexivity. }
    lia.
  - (* the auction keeps vesting *)
    assert (Fa' : find_auction s' (a_id a) = Some a) by (unfold find_auction; rewrite Hauc; exact Fa).
    rewrite sweepsP_same by (rewrite Fa', Fa; reflexivity). unfold excess.
    rewrite HbalE, (owed_some _ r (a_id a) d a Fa'), (owed_some _ r (a_id a) d a Fa), Hst, Hown. fold vs.
    unfold bids_of. rewrite Hbids.
    destruct r; cbn [role_eqb andb ind status_eqb]; [lia|rewrite ?andb_false_r; lia|].
    rewrite andb_true_r. destruct (N.eqb d (a_pay_denom a)); cbn [ind]; [|lia].
    rewrite (sum_unreleased_after (a_id a) t vs Hvsid). fold paid. lia.
Qed.

(* ------------------------------------------------------------------ one auction of a block *)
Theorem process_excess t orc s a s' :
  Inv s -> find_auction s (a_id a) = Some a -> process t orc s a = Ok s' -> exc_rel s s'.
Proof.
  intros I Fa H.
  destruct (process_spec _ _ _ _ _ H) as [PE _].
  apply (exc_rel_by_frame (a_id a) _ _ (pe_frame _ _ _ PE)).
  unfold process in H.
  assert (Hsame : forall r d, excess s r (a_id a) d = if sweepsP s s r (a_id a) d then 0 else excess s r (a_id a) d)
    by (intros r d; apply exc_rel_refl).
  destruct (a_status a) eqn:St.
  - destruct (a_start a <=? t); injection H as <-; [|exact Hsame].
    apply (excess_target_static s _ (a_id a) a (set_status a Started)); try reflexivity; try exact Fa.
    + apply (find_auction_put_same s (set_status a Started) a). exact Fa.
    + right. split; [exact St|]. split; [reflexivity|].
      destruct (inv_fresh _ I) as [_ Hf]. apply Hf; [apply (find_auction_some _ _ _ Fa)|left; exact St].
  - destruct (last_end a <=? t); [|injection H as <-; exact Hsame].
    destruct (a_type a) eqn:Ty.
    + rewrite close_fixed_gen in H.
      apply (settle_excess s a a (calc_fixed a (bids_of s (a_id a))) false s' Fa St eq_refl eq_refl eq_refl
               (started_no_vqs s a I Fa St) H).
    + apply close_batch_inv in H. destruct H as (order & mi & HV & HC & Hd).
      set (sf := set_flags s (a_id a) (mi_matched mi)) in *.
      destruct (decision s a mi) eqn:D.
      * subst s'.
        apply (excess_target_static s _ (a_id a) a (extended s a mi)); try reflexivity; try exact Fa.
        -- apply (find_auction_put_same sf (extended s a mi) a). exact Fa.
        -- change (bids_of (put_auction sf (extended s a mi)) (a_id a)) with (bids_of sf (a_id a)).
           unfold sf. apply bids_of_set_flags_map. reflexivity.
        -- left. reflexivity.
      * rewrite settle_batch_gen in Hd. intros r d.
        pose proof (settle_excess sf a (set_matched_price a (mi_price mi)) mi true s') as X.
        cbn [a_id a_sell_denom a_sell_amt a_pay_denom set_matched_price] in X.
        specialize (X Fa St eq_refl eq_refl eq_refl (started_no_vqs s a I Fa St) Hd r d).
        rewrite X. unfold sf. rewrite excess_set_flags.
        rewrite (sweepsP_conv_l s (set_flags s (a_id a) (mi_matched mi)) s' r (a_id a) d eq_refl). reflexivity.
  - apply (release_excess s a t s' I Fa St H).
  - injection H as <-. exact Hsame.
  - injection H as <-. exact Hsame.
Qed.

(* ------------------------------------------------------------------ the walk over the snapshot of the store *)
Theorem process_all_excess t orc : forall l s s',
  Inv s -> NoDup (map a_id l) -> (forall a, In a l -> In a (st_auctions s)) ->
  process_all t orc s l = Ok s' -> exc_rel s s'.
Proof.
  induction l as [|a rest IH]; cbn [process_all]; intros s s' I ND Hl H.
  - injection H as <-. apply exc_rel_refl.
  - destruct (process t orc s a) as [s1|] eqn:E; cbn [bind] in H; [|discriminate].
    cbn [map] in ND. inversion ND as [|? ? Hn ND']; subst.
    assert (Ha : In a (st_auctions s)) by (apply Hl; left; reflexivity).
    pose proof (Inv_find_in s a I Ha) as Fa.
    pose proof (process_excess t orc s a s1 I Fa E) as P1.
    assert (I1 : Inv s1) by (eapply Inv_process; eassumption).
    assert (Hl1 : forall x, In x rest -> In x (st_auctions s1)).
    { intros x Hx. apply (process_keeps t orc s a s1 x (Inv_InvS s I) Ha E); [apply Hl; right; exact Hx|].
      intros C. apply Hn. rewrite <- C. apply in_map. exact Hx. }
    pose proof (IH s1 s' I1 ND' Hl1 H) as P2.
    intros r id d. destruct (N.eq_dec id (a_id a)) as [->|Hne].
    + destruct (process_all_spec t orc rest s1 s' ND' H) as (J1 & _).
      pose proof (J1 (a_id a) Hn) as Sl.
      rewrite (excess_slice _ _ _ r d Sl).
      rewrite (sweepsP_conv_r s s1 s' r (a_id a) d (se_auction _ _ _ Sl)). apply P1.
    + destruct (process_spec _ _ _ _ _ E) as [PE _].
      pose proof (pe_frame _ _ _ PE id Hne) as Sl.
      rewrite (P2 r id d), (excess_slice _ _ _ r d Sl).
      rewrite (sweepsP_conv_l s s1 s' r id d (se_auction _ _ _ Sl)). reflexivity.
Qed.

Theorem begin_block_excess s t orc s' : Inv s -> begin_block s t orc = Ok s' -> exc_rel s s'.
Proof.
  unfold begin_block. cbv zeta. intros I H.
  apply (exc_rel_pre s (with_now s t) s'); try reflexivity.
  apply (process_all_excess t orc _ _ _ (Inv_with_now s t I)) in H; [exact H| |auto].
  apply (Inv_ids_ok s I).
Qed.

(* ------------------------------------------------------------------ the two block operations *)
Theorem excess_step_block s o : Inv s -> is_block o = true -> exc_step s o.
Proof.
  intros I B. apply exc_step_of_rel.
  - intros out. destruct o; try discriminate B; reflexivity.
  - destruct (step_block s o B) as [[_ H]|[_ (tr & ->)]].
    + eapply begin_block_excess; eassumption.
    + apply exc_rel_ext; reflexivity.
Qed.
