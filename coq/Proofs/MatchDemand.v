(* B. match_at against demand_of / total_demand (order independence), and
   C. total_demand is antitone in the price. *)
From Coq Require Import ZArith NArith List Bool Arith Lia Permutation Sorting.
From FR Require Import Dec Types Match Spec.
From FR.Proofs Require Import MatchBase MatchSweep.
Import ListNotations.
Open Scope Z_scope.
Opaque P.

(* Well-formedness of an auction's book: bids bs (store order) and allow-list al.
   (Pairwise distinct bid ids are NOT assumed: they follow from valid_order, see valid_order_spec.) *)
Record book_wf (bs : list bid) (al : list allowed) : Prop := {
  wf_price : forall b, In b bs -> 0 < b_price b;
  wf_amt : forall b, In b bs -> 0 < b_amt b;
  wf_allowed : forall b, In b bs -> exists x, In x al /\ al_bidder x = b_bidder b;
  wf_al_nodup : NoDup (map al_bidder al);
  wf_al_pos : forall x, In x al -> 0 < al_max x
}.

(* ------------------------------------------------------------------ *)
(* the oracle: a valid order is a duplicate-free permutation with non-increasing prices *)

Lemma pick_bids_spec bs ids : forall l,
  pick_bids bs ids = Some l -> map b_id l = ids /\ incl l bs.
Proof.
  induction ids as [|i ids IH]; intros l H; cbn [pick_bids] in H.
  - inversion H; subst. split; [reflexivity|]. intros x [].
  - destruct (find (fun b => N.eqb (b_id b) i) bs) as [b|] eqn:F; [|discriminate].
    destruct (pick_bids bs ids) as [l'|] eqn:Pk; [|discriminate].
    inversion H; subst. destruct (IH l' eq_refl) as [E I].
    apply find_some in F. destruct F as [Hb Hi]. apply N.eqb_eq in Hi.
    split; [cbn [map]; rewrite E, Hi; reflexivity|].
    intros x [<-|Hx]; [exact Hb|apply I; exact Hx].
Qed.

Lemma nodupN_NoDup l : nodupN l = true -> NoDup l.
Proof.
  induction l as [|x l IH]; intros H; [constructor|].
  cbn [nodupN] in H. apply andb_prop in H. destruct H as [H1 H2].
  constructor; [|apply IH; exact H2].
  intros Hin. apply negb_true_iff in H1.
  assert (E : existsb (N.eqb x) l = true).
  { apply existsb_exists. exists x. split; [exact Hin|apply N.eqb_refl]. }
  congruence.
Qed.

Lemma valid_order_ties bs ids order : valid_order bs ids = Some order -> ties_by_id order = true.
Proof.
  unfold valid_order. intros H.
  destruct (Nat.eqb (length ids) (length bs) && nodupN ids); [|discriminate].
  destruct (pick_bids bs ids) as [l|]; [|discriminate].
  destruct (prices_desc l && ties_by_id l) eqn:D0; [|discriminate]. apply andb_prop in D0. inversion H; subst l. apply D0.
Qed.

Lemma valid_order_spec bs ids order :
  valid_order bs ids = Some order ->
  Permutation order bs /\ prices_desc order = true /\ map b_id order = ids /\ NoDup ids.
Proof.
  unfold valid_order. intros H.
  destruct (Nat.eqb (length ids) (length bs) && nodupN ids) eqn:C; [|discriminate].
  apply andb_prop in C. destruct C as [C1 C2]. apply Nat.eqb_eq in C1. apply nodupN_NoDup in C2.
  destruct (pick_bids bs ids) as [l|] eqn:Pk; [|discriminate].
  destruct (prices_desc l && ties_by_id l) eqn:D0; [|discriminate]. apply andb_prop in D0. destruct D0 as [D _]. inversion H; subst l.
  destruct (pick_bids_spec bs ids order Pk) as [E I].
  split; [|split; [exact D|split; [exact E|exact C2]]].
  apply NoDup_Permutation_bis.
  - apply (NoDup_map_inv b_id). rewrite E. exact C2.
  - rewrite <- (map_length b_id order), E, C1. apply le_n.
  - exact I.
Qed.

Lemma valid_order_ids_nodup bs ids order :
  valid_order bs ids = Some order -> NoDup (map b_id bs) /\ NoDup (map b_id order).
Proof.
  intros H. destruct (valid_order_spec bs ids order H) as (Pm & _ & E & ND).
  split; [|rewrite E; exact ND].
  apply (Permutation_NoDup (l := map b_id order)); [apply Permutation_map; exact Pm|rewrite E; exact ND].
Qed.

(* ------------------------------------------------------------------ *)
(* caps_of (Go map built front to back) against cap_of (first entry) *)

Lemma nodup_key_inj {A} (k : A -> N) l x y :
  NoDup (map k l) -> In x l -> In y l -> k x = k y -> x = y.
Proof.
  induction l as [|a l IH]; intros ND Hx Hy E; [destruct Hx|].
  cbn [map] in ND. inversion ND as [|? ? Hna ND']; subst.
  destruct Hx as [->|Hx], Hy as [->|Hy].
  - reflexivity.
  - exfalso. apply Hna. rewrite E. apply in_map. exact Hy.
  - exfalso. apply Hna. rewrite <- E. apply in_map. exact Hx.
  - apply IH; assumption.
Qed.

Lemma find_rev_key al u :
  NoDup (map al_bidder al) ->
  find (fun x => N.eqb (al_bidder x) u) (rev al) = find (fun x => N.eqb (al_bidder x) u) al.
Proof.
  intros ND.
  destruct (find (fun x => N.eqb (al_bidder x) u) al) as [x|] eqn:F1;
    destruct (find (fun x => N.eqb (al_bidder x) u) (rev al)) as [y|] eqn:F2; try reflexivity.
  - apply find_some in F1. apply find_some in F2. destruct F1 as [Hx Ex], F2 as [Hy Ey].
    apply in_rev in Hy. apply N.eqb_eq in Ex. apply N.eqb_eq in Ey.
    f_equal. apply (nodup_key_inj al_bidder al y x ND Hy Hx). congruence.
  - apply find_some in F1. destruct F1 as [Hx Ex].
    pose proof (find_none _ _ F2 x) as C. cbv beta in C. rewrite <- in_rev in C. specialize (C Hx). congruence.
  - apply find_some in F2. destruct F2 as [Hy Ey]. apply in_rev in Hy.
    pose proof (find_none _ _ F1 y Hy) as C. cbv beta in C. congruence.
Qed.

Lemma caps_of_cap_of al u :
  NoDup (map al_bidder al) -> (exists x, In x al /\ al_bidder x = u) ->
  caps_of al u = Some (cap_of al u).
Proof.
  intros ND (x & Hx & E). unfold caps_of, cap_of. rewrite find_rev_key by exact ND.
  destruct (find (fun x => N.eqb (al_bidder x) u) al) as [y|] eqn:F; [reflexivity|].
  pose proof (find_none _ _ F x Hx) as C. cbv beta in C. rewrite E, N.eqb_refl in C. discriminate.
Qed.

Lemma cap_of_nonneg al u : (forall x, In x al -> 0 < al_max x) -> 0 <= cap_of al u.
Proof.
  intros H. unfold cap_of. destruct (find (fun x => N.eqb (al_bidder x) u) al) as [y|] eqn:F; [|lia].
  apply find_some in F. destruct F as [Hy _]. specialize (H y Hy). lia.
Qed.

(* ------------------------------------------------------------------ *)
(* quantities *)

Lemma bid_qty_nonneg b p : 0 <= b_amt b -> 0 < p -> 0 <= bid_qty_at b p.
Proof.
  intros Ha Hp. unfold bid_qty_at. destruct (b_type b); try exact Ha.
  apply qty_of_worth_nonneg; assumption.
Qed.

Lemma bid_qty_antitone b p p' : 0 <= b_amt b -> 0 < p <= p' -> bid_qty_at b p' <= bid_qty_at b p.
Proof.
  intros Ha Hp. unfold bid_qty_at. destruct (b_type b); try lia.
  apply qty_of_worth_antitone; assumption.
Qed.

Lemma demand_of_asked bs order cap u p :
  Permutation order bs ->
  Z.min cap (asked p u (filter (fun b => p <=? b_price b) order)) = demand_of bs cap u p.
Proof.
  intros Pm. unfold demand_of, asked. f_equal. rewrite filter_filter.
  rewrite (filter_ext_in' (fun x => (p <=? b_price x) && N.eqb (b_bidder x) u)
                          (fun b => N.eqb (b_bidder b) u && (p <=? b_price b)) order)
    by (intros; apply andb_comm).
  apply sumZ_perm, Permutation_map, filter_perm. exact Pm.
Qed.

Lemma demand_of_bounds bs cap u p :
  (forall b, In b bs -> 0 <= b_amt b) -> 0 < p -> 0 <= cap ->
  0 <= demand_of bs cap u p <= cap.
Proof.
  intros Ha Hp Hc. unfold demand_of.
  assert (0 <= sumZ (map (fun b => bid_qty_at b p)
                         (filter (fun b => N.eqb (b_bidder b) u && (p <=? b_price b)) bs))).
  { apply sumZ_map_nonneg. intros b Hb. apply filter_In in Hb. apply bid_qty_nonneg; [apply Ha, Hb|exact Hp]. }
  lia.
Qed.

Lemma total_demand_nonneg bs al p :
  (forall b, In b bs -> 0 <= b_amt b) -> (forall x, In x al -> 0 < al_max x) -> 0 < p ->
  0 <= total_demand bs al p.
Proof.
  intros Ha Hal Hp. unfold total_demand. apply sumZ_map_nonneg. intros u _.
  apply demand_of_bounds; [exact Ha|exact Hp|apply cap_of_nonneg; exact Hal].
Qed.

(* ------------------------------------------------------------------ *)
(* B. the sweep at price p over any valid order *)

Theorem match_at_spec bs al ids order p supply :
  book_wf bs al -> valid_order bs ids = Some order -> 0 < p -> 0 <= supply ->
  let asg := assign p (filter (fun b => p <=? b_price b) order) (cap_of al) in
  match match_at p supply order al with
  | SPanic => False
  | SExceed => supply < total_demand bs al p
  | SFit r =>
      total_demand bs al p <= supply /\ mr_total r = total_demand bs al p /\
      mr_matched r = matched_ids asg /\
      (mr_matched r = [] <-> total_demand bs al p = 0) /\
      (forall u, getb (mr_bidders r) u = (demand_of bs (cap_of al u) u p, paid_in p u asg))
  end.
Proof.
  intros WF VO Hp Hs asg.
  destruct (valid_order_spec bs ids order VO) as (Pm & _ & _ & _).
  set (l := filter (fun b => p <=? b_price b) order) in *.
  assert (Hlbs : forall b, In b l -> In b bs).
  { intros b Hb. subst l. apply filter_In in Hb. apply (Permutation_in _ Pm), Hb. }
  assert (HinU : forall b, In b l -> In (b_bidder b) (bidders_of bs)).
  { intros b Hb. apply bidders_of_in. exists b. split; [apply Hlbs; exact Hb|reflexivity]. }
  assert (Hq : forall b, In b l -> 0 <= bid_qty_at b p).
  { intros b Hb. apply bid_qty_nonneg; [|exact Hp]. pose proof (wf_amt _ _ WF b (Hlbs b Hb)). lia. }
  assert (Hcaps : forall u, In u (bidders_of bs) -> caps_of al u = Some (cap_of al u)).
  { intros u Hu. apply bidders_of_in in Hu. destruct Hu as (b & Hb & E).
    apply caps_of_cap_of; [apply (wf_al_nodup _ _ WF)|]. rewrite <- E. apply (wf_allowed _ _ WF b Hb). }
  assert (Hcz : forall u, 0 <= cap_of al u) by (intros u; apply cap_of_nonneg, (wf_al_pos _ _ WF)).
  assert (Hgot : forall u, got u asg = demand_of bs (cap_of al u) u p).
  { intros u. subst asg. rewrite assign_got; [|exact Hq|apply Hcz]. apply demand_of_asked. exact Pm. }
  assert (ED : sumZ (map snd asg) = total_demand bs al p).
  { rewrite (total_by_bidder asg (bidders_of bs) (bidders_of_nodup bs)).
    - unfold total_demand. apply sumZ_map_ext. intros u _. apply Hgot.
    - intros x Hx. apply HinU. subst asg. rewrite <- (assign_fst p l (cap_of al)). apply in_map. exact Hx. }
  unfold match_at. fold l.
  pose proof (sweep_assign p supply (bidders_of bs) l (caps_of al) (cap_of al) 0 [] [] HinU Hq Hcaps
                (fun u _ => Hcz u) Hs) as H.
  fold asg in H. rewrite ED in H.
  destruct (sweep p supply l (caps_of al) 0 [] []) as [r| |]; [|lia|exact H].
  destruct H as (E1 & E2 & E3 & E4). cbn [app] in E3.
  split; [lia|]. split; [lia|]. split; [exact E3|]. split.
  - rewrite E3, <- ED. apply matched_ids_nil_iff. intros x Hx.
    apply (assign_bounds p l (cap_of al) Hq (fun b _ => Hcz _) x Hx).
  - intros u. rewrite E4, getb_nil, Hgot. cbn [fst snd]. f_equal.
Qed.

(* ------------------------------------------------------------------ *)
(* C. demand is antitone in the price *)

Lemma demand_of_antitone bs cap u p p' :
  (forall b, In b bs -> 0 <= b_amt b) -> 0 < p <= p' ->
  demand_of bs cap u p' <= demand_of bs cap u p.
Proof.
  intros Ha Hp. unfold demand_of. apply Z.min_le_compat_l.
  induction bs as [|b bs IH]; cbn [filter map]; [lia|].
  assert (Hb : 0 <= b_amt b) by (apply Ha; left; reflexivity).
  specialize (IH (fun b' Hb' => Ha b' (or_intror Hb'))).
  pose proof (bid_qty_antitone b p p' Hb Hp). pose proof (bid_qty_nonneg b p Hb ltac:(lia)).
  destruct (N.eqb (b_bidder b) u); cbn [andb]; [|exact IH].
  destruct (Z.leb_spec p' (b_price b)); destruct (Z.leb_spec p (b_price b)); cbn [map];
    rewrite ?sumZ_cons; lia.
Qed.

Theorem total_demand_antitone bs al p p' :
  (forall b, In b bs -> 0 <= b_amt b) -> 0 < p <= p' ->
  total_demand bs al p' <= total_demand bs al p.
Proof.
  intros Ha Hp. unfold total_demand. apply sumZ_map_le. intros u _.
  apply demand_of_antitone; assumption.
Qed.
