(* Checker link for C16: the executable monitor Checkers.c16_ok (published results: matched flags, matched length
   and matched price of a settled batch auction; the flag of a fixed price bid; released flag = paid) holds of
   every transition the model makes from a state satisfying the invariant.  No axioms. *)
From Coq Require Import ZArith NArith List Bool Arith Lia.
From FR Require Import Dec Types Bank Match Step Genesis Model Spec Checkers.
From FR.Proofs Require Import InvDefs EscrowBase FrameFacts BlockFacts VestingFacts HookBase Ledger LedgerCharges LedgerSettle.
From FR.Proofs Require TxFacts LifeTheorems DecFacts EscrowBlock InvStaticBlock InvAll VestingInv GenesisImport
     LedgerVesting LedgerChecker FixedFacts MatchBase MatchDemand PublishFacts.
From FR.Proofs Require Import Chk09.
Import ListNotations.
Open Scope Z_scope.

(* ------------------------------------------------------------------ the two conjuncts *)
Definition keyp (k : vq) (v : vq) : bool := N.eqb (v_auction v) (v_auction k) && (v_time v =? v_time k).

Definition c16_vest_id (t : trans) (id : N) : bool :=
  let newly := filter (fun v' =>
                 v_released v' &&
                 match find (fun v => N.eqb (v_auction v) (v_auction v') && (v_time v =? v_time v')) (st_vqs (t_pre t)) with
                 | Some v => negb (v_released v)
                 | None => true
                 end) (vqs_of (t_post t) id) in
  match t_op t with
  | OGenesis => true
  | _ =>
    zeqb_list (filter (fun z => negb (z =? 0)) (map v_amt newly))
              (map x_amt (filter (fun x => addr_eqb (x_from x) (Escrow Vesting id)) (t_xfers t)))
    && forallb (fun v => match find (fun v' => N.eqb (v_auction v) (v_auction v') && (v_time v =? v_time v')) (st_vqs (t_post t)) with
                         | Some v' => negb (v_released v) || v_released v'
                         | None => false
                         end) (vqs_of (t_pre t) id)
  end.

Definition c16_settle_part (t : trans) : bool :=
  forallb (fun p =>
    let a := fst p in let a' := snd p in
    let id := a_id a in
    let bs' := bids_of (t_post t) id in
    match a_type a with
    | Batch =>
        forallb (fun u => N.eqb u (a_auctioneer a) ||
                          Bool.eqb (existsb (fun b => N.eqb (b_bidder b) u && b_matched b) bs')
                                   (0 <? received t id (a_sell_denom a) u)) users
        && forallb (fun b => negb (b_matched b) || (a_matched_price a' <=? b_price b)) bs'
        && (st_mlen (t_post t) id =? Z.of_nat (length (filter b_matched bs')))
        && Bool.eqb (a_matched_price a' =? 0) (forallb (fun b => negb (b_matched b)) bs')
    | FixedPrice =>
        forallb (fun b => Bool.eqb (b_matched b) (0 <? sell_amount (a_pay_denom a) b)) bs'
    end) (settling t).

Definition c16_vest_part (t : trans) : bool :=
  forallb (c16_vest_id t) (ids_upto (st_aseq (t_post t) + 1)).

Lemma c16_ok_parts t : c16_ok t = c16_settle_part t && c16_vest_part t.
Proof. reflexivity. Qed.

(* ------------------------------------------------------------------ part 2: released = paid *)
(* looking an entry up by key in a store with unique keys *)
Lemma find_by_key l v k :
  NoDup (map vkey l) -> In v l -> vkey k = vkey v ->
  find (fun x => N.eqb (v_auction x) (v_auction k) && (v_time x =? v_time k)) l = Some v.
Proof.
  intros ND Hv Ek. induction l as [|x l IH]; [destruct Hv|]. cbn [find].
  cbn [map] in ND. inversion ND as [|? ? Hn ND']; subst.
  fold (same_key x k). destruct (same_key x k) eqn:E.
  - apply same_key_eq in E. destruct Hv as [->|Hv]; [reflexivity|]. exfalso. apply Hn.
    rewrite E, Ek. apply in_map. exact Hv.
  - destruct Hv as [->|Hv]; [|apply IH; assumption]. exfalso.
    assert (C : same_key v k = true) by (apply same_key_eq; symmetry; exact Ek). congruence.
Qed.

Lemma find_by_key' l v k :
  NoDup (map vkey l) -> In v l -> vkey k = vkey v ->
  find (fun x => N.eqb (v_auction k) (v_auction x) && (v_time k =? v_time x)) l = Some v.
Proof.
  intros ND Hv Ek. rewrite <- (find_by_key l v k ND Hv Ek). clear.
  induction l as [|x l IH]; [reflexivity|]. cbn [find]. rewrite (N.eqb_sym (v_auction k)), (Z.eqb_sym (v_time k)), IH. reflexivity.
Qed.

(* what one operation does to the vesting queue of auction id and to its vesting escrow *)
Inductive vq_rel (a_opt : option auction) (id : N) (vs vs' : list vq) (fv : list xfer) : Prop :=
| VR_idle : vs' = vs -> fv = [] -> vq_rel a_opt id vs vs' fv
| VR_settle : vs = [] -> (forall v, In v vs' -> v_released v = false) -> fv = [] -> vq_rel a_opt id vs vs' fv
| VR_release a t : a_opt = Some a -> vs' = map (release_vq id t) vs -> fv = rel_xfers a t vs -> vq_rel a_opt id vs vs' fv.

Definition fromV (id : N) (x : xfer) : bool := addr_eqb (x_from x) (Escrow Vesting id).

Lemma filter_false {A} (p : A -> bool) l : (forall x, In x l -> p x = false) -> filter p l = [].
Proof.
  induction l as [|x l IH]; intros H; [reflexivity|]. cbn [filter]. rewrite (H x (or_introl eq_refl)).
  apply IH. intros y Hy. apply H. now right.
Qed.

Definition vest_body (t : trans) (id : N) : bool :=
  let newly := filter (fun v' =>
                 v_released v' &&
                 match find (fun v => N.eqb (v_auction v) (v_auction v') && (v_time v =? v_time v')) (st_vqs (t_pre t)) with
                 | Some v => negb (v_released v)
                 | None => true
                 end) (vqs_of (t_post t) id) in
    zeqb_list (filter (fun z => negb (z =? 0)) (map v_amt newly))
              (map x_amt (filter (fun x => addr_eqb (x_from x) (Escrow Vesting id)) (t_xfers t)))
    && forallb (fun v => match find (fun v' => N.eqb (v_auction v) (v_auction v') && (v_time v =? v_time v')) (st_vqs (t_post t)) with
                         | Some v' => negb (v_released v) || v_released v'
                         | None => false
                         end) (vqs_of (t_pre t) id).

Lemma c16_vest_id_body t id : c16_vest_id t id = match t_op t with OGenesis => true | _ => vest_body t id end.
Proof. unfold c16_vest_id, vest_body. destruct (t_op t); reflexivity. Qed.

Lemma vest_body_ok t id :
  NoDup (map vkey (st_vqs (t_pre t))) -> NoDup (map vkey (st_vqs (t_post t))) ->
  vq_rel (find_auction (t_pre t) id) id (vqs_of (t_pre t) id) (vqs_of (t_post t) id) (filter (fromV id) (t_xfers t)) ->
  vest_body t id = true.
Proof.
  intros ND ND' R. unfold vest_body. fold (fromV id).
  set (C := fun v' : vq => v_released v' &&
                 match find (fun v => N.eqb (v_auction v) (v_auction v') && (v_time v =? v_time v')) (st_vqs (t_pre t)) with
                 | Some v => negb (v_released v) | None => true end).
  set (D := fun v : vq => match find (fun v' => N.eqb (v_auction v) (v_auction v') && (v_time v =? v_time v')) (st_vqs (t_post t)) with
                         | Some v' => negb (v_released v) || v_released v' | None => false end).
  assert (Hpre : forall v, In v (vqs_of (t_pre t) id) -> In v (st_vqs (t_pre t)) /\ v_auction v = id)
    by (intros v Hv; apply EscrowBlock.in_vqs_of; exact Hv).
  assert (Hpost : forall v, In v (vqs_of (t_post t) id) -> In v (st_vqs (t_post t)) /\ v_auction v = id)
    by (intros v Hv; apply EscrowBlock.in_vqs_of; exact Hv).
  cbv zeta. destruct R as [Ev Ef|Ev Hun Ef|a tm _ Ev Ef].
  - (* idle *)
    rewrite Ef. rewrite Ev in *.
    assert (En : filter C (vqs_of (t_pre t) id) = []).
    { apply filter_false. intros v Hv. unfold C. destruct (Hpre v Hv) as [Hin _].
      rewrite (find_by_key _ v v ND Hin eq_refl). destruct (v_released v); reflexivity. }
    rewrite En. cbn [map filter]. rewrite (zeqb_list_refl []). cbn [andb].
    apply forallb_forall. intros v Hv. unfold D. destruct (Hpost v Hv) as [Hin _].
    rewrite (find_by_key' _ v v ND' Hin eq_refl). destruct (v_released v); reflexivity.
  - (* settle *)
    rewrite Ef, Ev.
    assert (En : filter C (vqs_of (t_post t) id) = []).
    { apply filter_false. intros v Hv. unfold C. rewrite (Hun v Hv). reflexivity. }
    rewrite En. reflexivity.
  - (* release *)
    rewrite Ef. rewrite Ev in *.
    assert (En : filter C (map (release_vq id tm) (vqs_of (t_pre t) id))
                 = map (release_vq id tm) (due_of tm (vqs_of (t_pre t) id))).
    { rewrite filter_map_swap. f_equal. unfold due_of. apply filter_ext_in. intros v Hv. unfold C.
      destruct (Hpre v Hv) as [Hin Hau].
      rewrite (find_by_key _ v (release_vq id tm v) ND Hin (release_vq_key id tm v)), release_vq_flag, Hau, N.eqb_refl.
      unfold vq_due. cbn [andb]. destruct (v_released v), (v_time v <=? tm); reflexivity. }
    rewrite En, map_map.
    rewrite (map_ext (fun x => v_amt (release_vq id tm x)) v_amt) by (intros v; apply (release_vq_fields id tm v)).
    unfold rel_xfers, paid_of. rewrite map_map. cbn [xfer_of x_amt]. rewrite filter_map_swap, zeqb_list_refl. cbn [andb].
    apply forallb_forall. intros v Hv. unfold D. destruct (Hpre v Hv) as [Hin Hau].
    assert (Hin' : In (release_vq id tm v) (st_vqs (t_post t))).
    { apply (Hpost (release_vq id tm v)). apply in_map. exact Hv. }
    rewrite (find_by_key' _ (release_vq id tm v) v ND' Hin' (eq_sym (release_vq_key id tm v))), release_vq_flag.
    destruct (v_released v); reflexivity.
Qed.

(* a processing step of an auction that is not in the vesting status takes nothing out of a vesting escrow, and
   only a settlement adds instalments (all unreleased) *)
Lemma settle_xfers_novest s a mi wr : Forall (fun x => forall j, fromV j x = false) (settle_xfers s a mi wr).
Proof.
  assert (P : forall r id d us f, r <> Vesting -> Forall (fun x => forall j, fromV j x = false) (payouts (Escrow r id) d us f)).
  { intros r id d us f Hr. unfold payouts. apply Forall_forall. intros x Hx. apply in_map_iff in Hx.
    destruct Hx as (u & <- & _). intros j. unfold fromV. cbn [x_from addr_eqb]. destruct r; try reflexivity. congruence. }
  assert (S : forall r id t d z, r <> Vesting -> Forall (fun x => forall j, fromV j x = false) (send_xf (Escrow r id) t d z)).
  { intros r id t d z Hr. apply Forall_send_xf. intros j. unfold fromV. cbn [mkx x_from addr_eqb]. destruct r; try reflexivity. congruence. }
  unfold settle_xfers. repeat (apply Forall_app; split); try (apply P; discriminate); try (apply S; discriminate).
  destruct wr; [apply P; discriminate|constructor].
Qed.

Lemma split_unreleased_in a R vs v : In v (split a R R vs) -> v_released v = false.
Proof.
  intros Hv. pose proof (DecFacts.split_fields a R vs) as Hf. rewrite Forall_forall in Hf. apply (Hf v Hv).
Qed.

Lemma settle_gen_new s a mi wr s' :
  EscrowBlock.settle_gen s a mi wr = Ok s' ->
  exists xs new, st_xfers s' = st_xfers s ++ xs /\ Forall (fun x => forall j, fromV j x = false) xs
    /\ st_vqs s' = st_vqs s ++ new /\ (forall v, In v new -> v_released v = false).
Proof.
  intros H. destruct (settle_gen_xfers _ _ _ _ _ H) as (L & _). pose proof (settle_gen_vqs _ _ _ _ _ H) as V.
  eexists. eexists. split; [apply (lb_xfers _ _ _ L)|]. split; [apply settle_xfers_novest|]. split; [exact V|].
  intros v Hv. destruct (a_scheds a) as [|x vs]; [destruct Hv|]. eapply split_unreleased_in. exact Hv.
Qed.

Lemma process_novest t orc s a s' :
  a_status a <> VestingS -> process t orc s a = Ok s' ->
  exists xs new, st_xfers s' = st_xfers s ++ xs /\ Forall (fun x => forall j, fromV j x = false) xs
    /\ st_vqs s' = st_vqs s ++ new /\ (forall v, In v new -> v_released v = false)
    /\ (a_status a = Started \/ new = []).
Proof.
  intros Hnv H.
  assert (Triv : forall s0, st_xfers s0 = st_xfers s -> st_vqs s0 = st_vqs s ->
            exists xs new, st_xfers s0 = st_xfers s ++ xs /\ Forall (fun x => forall j, fromV j x = false) xs
              /\ st_vqs s0 = st_vqs s ++ new /\ (forall v, In v new -> v_released v = false)
              /\ (a_status a = Started \/ new = [])).
  { intros s0 X V. exists [], []. rewrite !app_nil_r. split; [exact X|]. split; [constructor|]. split; [exact V|].
    split; [intros v []|right; reflexivity]. }
  unfold process in H. destruct (a_status a) eqn:St.
  - destruct (a_start a <=? t); injection H as <-; apply Triv; reflexivity.
  - destruct (last_end a <=? t); [|injection H as <-; apply Triv; reflexivity].
    destruct (a_type a).
    + rewrite EscrowBlock.close_fixed_gen in H. destruct (settle_gen_new _ _ _ _ _ H) as (xs & new & X & F & V & U).
      exists xs, new. repeat split; try assumption. left. reflexivity.
    + apply close_batch_inv in H. destruct H as (order & mi & _ & _ & Hd). destruct (decision s a mi).
      * subst s'. apply Triv; reflexivity.
      * rewrite EscrowBlock.settle_batch_gen in Hd. destruct (settle_gen_new _ _ _ _ _ Hd) as (xs & new & X & F & V & U).
        exists xs, new. repeat split; try assumption. left. reflexivity.
  - congruence.
  - injection H as <-. apply Triv; reflexivity.
  - injection H as <-. apply Triv; reflexivity.
Qed.

Lemma block_vq_rel s t orc s' id :
  Inv s -> st_xfers s = [] -> begin_block s t orc = Ok s' ->
  vq_rel (find_auction s id) id (vqs_of s id) (vqs_of s' id) (filter (fromV id) (st_xfers s')).
Proof.
  intros I X0 H. destruct (find_auction s id) as [a|] eqn:Fa.
  - apply find_auction_some in Fa. destruct Fa as [Ha <-].
    destruct (status_eqb (a_status a) VestingS) eqn:St.
    + apply status_eqb_true in St. destruct (release_facts s t orc s' a I H Ha St) as [V X].
      rewrite X0 in X. cbn [filter app] in X. eapply VR_release; [reflexivity|exact V|exact X].
    + assert (Hnv : a_status a <> VestingS) by (intros C; apply status_eqb_true in C; congruence).
      destruct (block_at s t orc s' a I H Ha)
        as (s1 & s2 & pre & mid & post & I1 & Hin1 & S1 & Ep & Hp & S2 & X2 & X & F1 & F2 & F3).
      destruct (process_novest _ _ _ _ _ Hnv Hp) as (xs & new & Xs & Fnv & V & U & Hor).
      assert (Emid : mid = xs) by (rewrite X2 in Xs; apply app_inv_head in Xs; exact Xs). subst xs.
      assert (Ef : filter (fromV (a_id a)) (st_xfers s') = []).
      { rewrite X, X0. cbn [app]. change (pre ++ mid ++ post) with ([] ++ pre ++ mid ++ post).
        rewrite (filter_block (a_id a)); [|intros x Hx; eapply from_src; exact Hx|exact F1|exact F3]. cbn [filter app].
        apply filter_false. intros x Hx. rewrite Forall_forall in Fnv. apply Fnv, Hx. }
      assert (Ev : vqs_of s' (a_id a) = vqs_of s (a_id a) ++ filter (fun x => N.eqb (v_auction x) (a_id a)) new).
      { rewrite (se_vqs _ _ _ S2). unfold vqs_of at 1. rewrite V, filter_app. f_equal. apply (se_vqs _ _ _ S1). }
      destruct Hor as [St' | ->].
      * apply VR_settle; [|intros v Hv|exact Ef].
        -- rewrite <- (se_vqs _ _ _ S1). apply (EscrowBlock.started_no_vqs s1 a I1 (InvAll.Inv_find_in s1 a I1 Hin1) St').
        -- rewrite Ev in Hv. apply in_app_or in Hv. destruct Hv as [Hv|Hv].
           ++ exfalso. rewrite <- (se_vqs _ _ _ S1), (EscrowBlock.started_no_vqs s1 a I1 (InvAll.Inv_find_in s1 a I1 Hin1) St') in Hv. destruct Hv.
           ++ apply filter_In in Hv. apply U, Hv.
      * apply VR_idle; [|exact Ef]. rewrite Ev. cbn [filter]. apply app_nil_r.
  - apply VR_idle.
    + destruct (begin_block_spec s t orc s' (InvAll.Inv_ids_ok s I) H) as (_ & Hnone & _). apply (se_vqs _ _ _ (Hnone id Fa)).
    + unfold begin_block in H. cbv zeta in H. destruct (process_all_src _ _ _ _ _ H) as (xs & X & F).
      cbn [st_xfers with_now st_auctions] in X, F. rewrite X, X0. cbn [app]. apply filter_false. intros x Hx.
      rewrite Forall_forall in F. destruct (F x Hx) as (a & Ha & (r & Er)).
      unfold fromV. rewrite Er. cbn [addr_eqb]. destruct (N.eqb (a_id a) id) eqn:E; [|apply andb_false_r].
      exfalso. apply N.eqb_eq in E. rewrite <- E, (InvAll.Inv_find_in s a I Ha) in Fa. discriminate Fa.
Qed.

Theorem c16_vest_trans s o : Inv s -> st_xfers s = [] -> c16_vest_part (trans_of s o) = true.
Proof.
  intros I X0. unfold c16_vest_part. apply forallb_forall. intros id _. rewrite c16_vest_id_body.
  destruct (trans_of_fields s o) as (E1 & E2 & E3 & E4 & E5). rewrite E2.
  assert (G : vest_body (trans_of s o) id = true).
  { apply vest_body_ok.
    - rewrite E1. destruct (inv_vqs _ I) as (_ & ND & _). exact ND.
    - rewrite E5. destruct (inv_vqs _ (InvAll.Inv_step s o I)) as (_ & ND & _). exact ND.
    - rewrite E1, E4, E5. destruct (FrameFacts.is_block o) eqn:B.
      + destruct (block_of_step s o B) as [[_ K2]|[_ (_ & Ev & Ex & _)]].
        * apply (block_vq_rel s _ _ _ id I X0 K2).
        * apply VR_idle; [unfold vqs_of; rewrite Ev; reflexivity|rewrite Ex, X0; reflexivity].
      + apply VR_idle; [apply nonblock_vqs_of; assumption|apply nonblock_no_vout; assumption]. }
  destruct o; try exact G. reflexivity.
Qed.

(* ------------------------------------------------------------------ part 1: what a settlement publishes *)
Lemma filter_filter {A} (p q : A -> bool) l : filter q (filter p l) = filter (fun x => p x && q x) l.
Proof.
  induction l as [|x l IH]; cbn [filter]; [reflexivity|]. destruct (p x); cbn [filter andb]; [|exact IH].
  destruct (q x); rewrite IH; reflexivity.
Qed.

Lemma count_matched_bids_of s id : count_matched (st_bids s) id = Z.of_nat (length (filter b_matched (bids_of s id))).
Proof. unfold count_matched, bids_of. rewrite filter_filter. reflexivity. Qed.

Lemma batch_settle_facts s t orc s' a a' :
  Inv s -> st_xfers s = [] -> begin_block s t orc = Ok s' -> In a (st_auctions s) -> a_status a = Started ->
  a_type a = Batch -> find_auction s' (a_id a) = Some a' -> (a_status a' = VestingS \/ a_status a' = Finished) ->
  exists mi,
    (forall u, N.eqb (a_auctioneer a) u = false ->
       sum_xfers (st_xfers s') (from_to (Escrow Selling (a_id a)) (User u) (a_sell_denom a))
       = if existsb (N.eqb u) (bidders_of (bids_of s (a_id a))) then mi_alloc mi u else 0)
    /\ bids_of s' (a_id a) = map (PublishFacts.flag_with (mi_matched mi)) (bids_of s (a_id a))
    /\ st_mlen s' (a_id a) = Z.of_nat (length (filter b_matched (bids_of s' (a_id a))))
    /\ (forall b, In b (bids_of s' (a_id a)) -> b_matched b = true -> a_matched_price a' <= b_price b)
    /\ (forall u, 0 < mi_alloc mi u <-> exists b, In b (bids_of s' (a_id a)) /\ b_bidder b = u /\ b_matched b = true)
    /\ (a_matched_price a' = 0 <-> forall b, In b (bids_of s' (a_id a)) -> b_matched b = false).
Proof.
  intros I X0 H Ha St Ty Fa' Hst'.
  destruct (block_at s t orc s' a I H Ha)
    as (s1 & s2 & pre & mid & post & I1 & Hin1 & S1 & Ep & Hp & S2 & X2 & X & F1 & F2 & F3).
  pose proof (InvAll.Inv_find_in s1 a I1 Hin1) as Fa1.
  assert (Fa2 : find_auction s2 (a_id a) = Some a') by (rewrite <- (se_auction _ _ _ S2); exact Fa').
  destruct (settlement_dues t orc s1 a s2 a' I1 Fa1 St Hp Fa2 Hst') as (mi & wr & Hw & L & D & _).
  destruct Hw as [_ [(Ty' & _)|(_ & -> & Hdec & order & HV & HC)]]; [congruence|].
  assert (Hcb : close_batch s1 orc a = Ok s2).
  { unfold process in Hp. rewrite St in Hp. destruct (last_end a <=? t).
    - rewrite Ty in Hp. exact Hp.
    - exfalso. injection Hp as <-. rewrite Fa1 in Fa2. injection Fa2 as <-. rewrite St in Hst'. destruct Hst'; discriminate. }
  pose proof (EscrowBlock.Inv_book_wf s1 (a_id a) I1) as BW.
  assert (Hsup : 0 <= a_sell_amt a) by (pose proof (awf_amt _ (find_wf s1 a I1 Hin1)); lia).
  destruct (PublishFacts.close_batch_publishes s1 orc a s2 Fa1 BW Hsup Hcb)
    as (order' & mi' & a2 & HV' & HC' & Fa2' & _ & _ & Pb & _ & _ & _ & Pm & _ & Ppr & Pal & Pz).
  rewrite HV in HV'. injection HV' as <-. rewrite HC in HC'. injection HC' as <-.
  rewrite Fa2 in Fa2'. injection Fa2' as <-.
  assert (Emid : mid = settle_xfers s1 a mi true).
  { pose proof (lb_xfers _ _ _ L) as X'. rewrite X2 in X'. apply app_inv_head in X'. exact X'. }
  assert (Eb' : bids_of s' (a_id a) = bids_of s2 (a_id a)) by apply (se_bids _ _ _ S2).
  assert (Eb : bids_of s1 (a_id a) = bids_of s (a_id a)) by apply (se_bids _ _ _ S1).
  exists mi. rewrite Eb'. split; [|split; [|split; [|split; [|split]]]].
  - intros u Hu. rewrite X, X0. cbn [app]. change (pre ++ mid ++ post) with ([] ++ pre ++ mid ++ post).
    rewrite (sum_xfers_block (a_id a)); [|apply from_to_src|exact F1|exact F3]. rewrite sum_xfers_nil, Emid.
    assert (Hnd : NoDup (mi_bidders mi)).
    { rewrite (du_bidders _ _ _ _ D). apply MatchBase.bidders_of_nodup. }
    destruct (settle_xfers_received s1 a mi true u Hnd) as [E _]. rewrite E, Hu, (du_bidders _ _ _ _ D), Eb. lia.
  - rewrite Pb, Eb. reflexivity.
  - rewrite (se_mlen _ _ _ S2), Pm. apply count_matched_bids_of.
  - exact Ppr.
  - exact Pal.
  - exact Pz.
Qed.

Lemma forallb_negb_matched bs : forallb (fun b => negb (b_matched b)) bs = true <-> forall b, In b bs -> b_matched b = false.
Proof.
  rewrite forallb_forall. split; intros H b Hb; specialize (H b Hb); destruct (b_matched b); try reflexivity; discriminate H.
Qed.

Lemma eqb_of_iff (x y : bool) : (x = true <-> y = true) -> Bool.eqb x y = true.
Proof. destruct x, y; cbn; intros [H1 H2]; try reflexivity; [discriminate (H1 eq_refl)|discriminate (H2 eq_refl)]. Qed.

Lemma block_terms s t orc s' a a' :
  Inv s -> In a (st_auctions s) -> find_auction s' (a_id a) = Some a' -> begin_block s t orc = Ok s' ->
  a_type a' = a_type a /\ a_pay_denom a' = a_pay_denom a.
Proof.
  intros I Ha F' H. destruct (begin_block_spec s t orc s' (InvAll.Inv_ids_ok s I) H) as (Hrel & _).
  destruct (Hrel _ _ (InvAll.Inv_find_in s a I Ha)) as (a2 & F2 & R). rewrite F' in F2. injection F2 as <-.
  apply LifeTheorems.block_rel_terms in R. destruct R as (_ & Ety & _ & _ & _ & _ & _ & Epd & _). auto.
Qed.

Theorem c16_settle_trans s o : Inv s -> st_xfers s = [] -> c16_settle_part (trans_of s o) = true.
Proof.
  intros I X0. unfold c16_settle_part. apply forallb_forall. intros [a a'] Hin.
  unfold settling in Hin. apply filter_In in Hin. destruct Hin as [Hp Hc]. cbn [fst snd] in Hc.
  apply in_paired in Hp. destruct (trans_of_fields s o) as (E1 & E2 & E3 & E4 & E5). rewrite E1, E5 in Hp.
  destruct Hp as [Ha F']. apply andb_true_iff in Hc. destruct Hc as [St Hst'].
  apply status_eqb_true in St. apply settled_true in Hst'.
  destruct (settling_needs_block s o a a' I Ha St F' Hst') as (B & K1 & K2).
  cbv zeta. cbn [fst snd]. unfold received. rewrite E4, E5.
  destruct (a_type a) eqn:Ty.
  - (* fixed price: the flag clause of the invariant, in the post-state *)
    apply forallb_forall. intros b Hb. apply EscrowBlock.in_bids_of in Hb. destruct Hb as [Hb Eau].
    pose proof (InvAll.Inv_step s o I) as I'. destruct (inv_bids _ I') as [W _]. rewrite Forall_forall in W.
    destruct (bwf_auction _ _ (W b Hb)) as (a0 & Fa0 & Hm & _). rewrite Eau, F' in Fa0. injection Fa0 as <-.
    destruct (block_terms s _ _ _ a a' I Ha F' K2) as (Ety & Epd).
    rewrite Ety, Ty in Hm. destruct Hm as (_ & _ & _ & Hm). rewrite Hm, Epd. apply Bool.eqb_reflx.
  - destruct (batch_settle_facts s _ _ _ a a' I X0 K2 Ha St Ty F' Hst') as (mi & Hrec & Pb & Pm & Ppr & Pal & Pz).
    apply andb_true_iff. split; [apply andb_true_iff; split; [apply andb_true_iff; split|]|].
    + apply forallb_forall. intros u _. destruct (N.eqb u (a_auctioneer a)) eqn:Eu; [reflexivity|]. cbn [orb].
      rewrite Hrec by (rewrite N.eqb_sym; exact Eu).
      apply eqb_of_iff. rewrite existsb_exists, Z.ltb_lt. split.
      * intros (b & Hb & Hbm). apply andb_true_iff in Hbm. destruct Hbm as [Hu Hm]. apply N.eqb_eq in Hu.
        assert (Hal : 0 < mi_alloc mi u) by (apply Pal; exists b; auto).
        assert (Hbd : existsb (N.eqb u) (bidders_of (bids_of s (a_id a))) = true).
        { apply existsb_exists. exists u. split; [|apply N.eqb_refl]. apply MatchBase.bidders_of_in.
          rewrite Pb in Hb. apply in_map_iff in Hb. destruct Hb as (b0 & <- & Hb0). exists b0. split; [exact Hb0|exact Hu]. }
        rewrite Hbd. exact Hal.
      * intros Hpos. destruct (existsb (N.eqb u) (bidders_of (bids_of s (a_id a)))); [|lia].
        apply Pal in Hpos. destruct Hpos as (b & Hb & Hu & Hm). exists b. split; [exact Hb|].
        rewrite Hu, N.eqb_refl, Hm. reflexivity.
    + apply forallb_forall. intros b Hb. destruct (b_matched b) eqn:Hm; [|reflexivity]. cbn [negb orb].
      apply Z.leb_le. apply Ppr; assumption.
    + apply Z.eqb_eq. exact Pm.
    + apply eqb_of_iff. rewrite Z.eqb_eq, forallb_negb_matched. exact Pz.
Qed.

(* ------------------------------------------------------------------ the link *)
Theorem c16_ok_trans s o : Inv s -> st_xfers s = [] -> c16_ok (trans_of s o) = true.
Proof. intros I X0. rewrite c16_ok_parts, (c16_settle_trans s o I X0), (c16_vest_trans s o I X0). reflexivity. Qed.

Lemma c16_ok_pre s o : c16_ok (model_trans s o) = c16_ok (trans_of (FixedFacts.ghost_reset s) o).
Proof.
  unfold model_trans, trans_of. change (with_trace (with_bank s (st_bal s) []) []) with (FixedFacts.ghost_reset s).
  destruct (step (FixedFacts.ghost_reset s) o) as [out s']. reflexivity.
Qed.

Theorem c16_ok_model s o : Inv s -> oracle_ok s o -> c16_ok (model_trans s o) = true.
Proof.
  intros I _. rewrite c16_ok_pre. apply c16_ok_trans; [apply FixedFacts.Inv_ghost_reset, I|reflexivity].
Qed.
