(* C16: the executable statement c16_genesis (matched flags and released flags survive an export / import) holds of
   every model transition, by GenesisImport.genesis_step.  With Chk16.c16_ok_model this gives the link for c16_all. *)
From Coq Require Import ZArith NArith List Bool Arith Lia.
From FR Require Import Dec Types Bank Match Step Genesis Model Spec Checkers.
From FR.Proofs Require Import InvDefs InvAll FixedFacts GenesisImport.
From FR.Proofs Require Chk15 Chk16.
Import ListNotations.
Open Scope Z_scope.

Theorem c16_genesis_model s o : Inv s -> c16_genesis (model_trans s o) = true.
Proof.
  intros I. unfold model_trans. fold (ghost_reset s).
  destruct o as [m|id l|id u max|t orc|t orc k|from to d amt|ls|];
    try (destruct (step (ghost_reset s) _) as [out s']; reflexivity).
  destruct (genesis_step (ghost_reset s) (Inv_ghost_reset s I)) as (s' & E & SS). rewrite E.
  unfold c16_genesis. cbn [t_op t_class t_pre t_post class_of].
  apply forallb_forall. intros id _.
  rewrite (ss_vqs_of _ _ SS id), (ss_bids_of _ _ SS id).
  change (vqs_of (ghost_reset s) id) with (vqs_of s id). change (bids_of (ghost_reset s) id) with (bids_of s id).
  rewrite (Chk15.list_eqb_refl vq_eqb), (Chk15.list_eqb_refl bid_eqb); [reflexivity|apply bid_eqb_refl|apply Chk15.vq_eqb_refl].
Qed.

Theorem c16_all_model s o : Inv s -> oracle_ok s o -> c16_all (model_trans s o) = true.
Proof.
  intros I Ho. unfold c16_all. rewrite (Chk16.c16_ok_model s o I Ho), (c16_genesis_model s o I). reflexivity.
Qed.
