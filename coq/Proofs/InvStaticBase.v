(* The static parts of the global invariant (InvDefs J1-J4, J9-J11): definition of InvS, the fields each part
   depends on, and preservation by each *pure* update of the state (the explicit form the handlers and the
   block processing reduce to, modulo bank / trace / time / listeners which InvS does not mention). *)
From Coq Require Import ZArith NArith List Bool Arith Lia Permutation.
From FR Require Import Dec Types Bank Match Step Genesis Model Spec.
From FR.Proofs Require Import FrameFacts TxFacts InvDefs.
Import ListNotations.
Open Scope Z_scope.

Record InvS (s : state) : Prop := {
  is_ids : ids_seq s;
  is_auctions : auctions_wf s;
  is_bids : bids_wf s;
  is_allowed : allowed_wf s;
  is_mlen : mlen_inv s;
  is_params : params_wf s;
  is_fresh : fresh_inv s }.

(* ------------------------------------------------------------------ the fields each part reads *)
Lemma ids_seq_dep s s' :
  st_auctions s' = st_auctions s -> st_aseq s' = st_aseq s -> ids_seq s -> ids_seq s'.
Proof. unfold ids_seq. intros -> ->. auto. Qed.

Lemma auctions_wf_dep s s' : st_auctions s' = st_auctions s -> auctions_wf s -> auctions_wf s'.
Proof. unfold auctions_wf. intros ->. auto. Qed.

Lemma bid_wf_dep s s' b :
  st_auctions s' = st_auctions s -> st_bseq s' = st_bseq s -> bid_wf s b -> bid_wf s' b.
Proof.
  intros Ha Hb [H1 H2 H3 H4]. split; [exact H1|exact H2|rewrite Hb; exact H3|].
  unfold find_auction in *. rewrite Ha. exact H4.
Qed.

Lemma bids_wf_dep s s' :
  st_auctions s' = st_auctions s -> st_bids s' = st_bids s -> st_bseq s' = st_bseq s -> bids_wf s -> bids_wf s'.
Proof.
  intros Ha Hb Hq [H1 H2]. split.
  - rewrite Hb. eapply Forall_impl; [|exact H1]. intros b. apply bid_wf_dep; assumption.
  - intros id. unfold bids_of. rewrite Hb, Hq. apply H2.
Qed.

Lemma allowed_wf_dep s s' : st_allowed s' = st_allowed s -> allowed_wf s -> allowed_wf s'.
Proof. unfold allowed_wf. intros ->. auto. Qed.

Lemma mlen_inv_dep s s' :
  st_auctions s' = st_auctions s -> st_bids s' = st_bids s -> st_mlen s' = st_mlen s -> mlen_inv s -> mlen_inv s'.
Proof. unfold mlen_inv, find_auction. intros -> -> ->. auto. Qed.

Lemma params_wf_dep s s' : st_params s' = st_params s -> params_wf s -> params_wf s'.
Proof. unfold params_wf. intros ->. auto. Qed.

Lemma fresh_inv_dep s s' :
  st_auctions s' = st_auctions s -> st_bids s' = st_bids s -> st_allowed s' = st_allowed s ->
  st_vqs s' = st_vqs s -> st_aseq s' = st_aseq s -> st_bseq s' = st_bseq s -> st_mlen s' = st_mlen s ->
  fresh_inv s -> fresh_inv s'.
Proof.
  unfold fresh_inv, bids_of, allowed_of, vqs_of. intros -> -> -> -> -> -> ->. auto.
Qed.

(* equality of everything InvS reads *)
Definition ceq (s s' : state) : Prop :=
  st_params s' = st_params s /\ st_auctions s' = st_auctions s /\ st_bids s' = st_bids s
  /\ st_allowed s' = st_allowed s /\ st_vqs s' = st_vqs s /\ st_aseq s' = st_aseq s
  /\ st_bseq s' = st_bseq s /\ st_mlen s' = st_mlen s.

Lemma ceq_refl s : ceq s s.
Proof. repeat split. Qed.
Lemma ceq_sym s s' : ceq s s' -> ceq s' s.
Proof. unfold ceq. intros (H1 & H2 & H3 & H4 & H5 & H6 & H7 & H8). repeat split; congruence. Qed.
Lemma ceq_trans s1 s2 s3 : ceq s1 s2 -> ceq s2 s3 -> ceq s1 s3.
Proof.
  unfold ceq. intros (H1 & H2 & H3 & H4 & H5 & H6 & H7 & H8) (K1 & K2 & K3 & K4 & K5 & K6 & K7 & K8).
  repeat split; congruence.
Qed.

Lemma InvS_ceq s s' : ceq s s' -> InvS s -> InvS s'.
Proof.
  intros (H1 & H2 & H3 & H4 & H5 & H6 & H7 & H8) [I1 I2 I3 I4 I5 I6 I7]. split.
  - eapply ids_seq_dep; eassumption.
  - eapply auctions_wf_dep; eassumption.
  - eapply bids_wf_dep; eassumption.
  - eapply allowed_wf_dep; eassumption.
  - eapply mlen_inv_dep; eassumption.
  - eapply params_wf_dep; eassumption.
  - eapply fresh_inv_dep; eassumption.
Qed.

(* the fields InvS does not mention *)
Lemma ceq_with_trace s tr : ceq s (with_trace s tr). Proof. repeat split. Qed.
Lemma ceq_with_now s t : ceq s (with_now s t). Proof. repeat split. Qed.
Lemma ceq_with_bank s b xs : ceq s (with_bank s b xs). Proof. repeat split. Qed.
Lemma ceq_with_listeners s l : ceq s (with_listeners s l). Proof. repeat split. Qed.

Lemma InvS_with_trace s tr : InvS s -> InvS (with_trace s tr).
Proof. apply InvS_ceq, ceq_with_trace. Qed.
Lemma InvS_with_now s t : InvS s -> InvS (with_now s t).
Proof. apply InvS_ceq, ceq_with_now. Qed.
Lemma InvS_with_bank s b xs : InvS s -> InvS (with_bank s b xs).
Proof. apply InvS_ceq, ceq_with_bank. Qed.
Lemma InvS_with_listeners s l : InvS s -> InvS (with_listeners s l).
Proof. apply InvS_ceq, ceq_with_listeners. Qed.

(* the bank and the hooks only touch such fields *)
Lemma send_ceq s f t d a s1 : send s f t d a = Ok s1 -> ceq s s1.
Proof. intros H. apply send_inv0 in H. destruct H as (b & xs & ->). apply ceq_with_bank. Qed.
Lemma send_coins_ceq f t cs : forall s s1, send_coins s f t cs = Ok s1 -> ceq s s1.
Proof.
  induction cs as [|[d a] cs IH]; cbn [send_coins]; intros s s1 H.
  - injection H as <-. apply ceq_refl.
  - destruct (send s f t d a) as [s2|] eqn:E; cbn [bind] in H; [|discriminate].
    eapply ceq_trans; [eapply send_ceq; exact E|apply IH; exact H].
Qed.
Lemma fund_pool_ceq s u cs s1 : fund_pool s u cs = Ok s1 -> ceq s s1.
Proof. apply send_coins_ceq. Qed.
Lemma call_hook_ceq s k args s1 : call_hook s k args = Ok s1 -> ceq s s1.
Proof. intros H. apply call_hook_inv in H. destruct H as (tr & ->). apply ceq_with_trace. Qed.
Lemma pay_out_ceq from d f us : forall s s1, pay_out s from d us f = Ok s1 -> ceq s s1.
Proof.
  induction us as [|u us IH]; cbn [pay_out]; intros s s1 H.
  - injection H as <-. apply ceq_refl.
  - destruct (f u =? 0); [apply IH; exact H|].
    destruct (send s from (User u) d (f u)) as [s2|] eqn:E; cbn [bind] in H; [|discriminate].
    eapply ceq_trans; [eapply send_ceq; exact E|apply IH; exact H].
Qed.

(* ------------------------------------------------------------------ lists *)
Lemma ids_upto_succ n : ids_upto (n + 1) = ids_upto n ++ [n].
Proof.
  unfold ids_upto. replace (N.to_nat (n + 1)) with (S (N.to_nat n)) by lia.
  rewrite seq_S, map_app. cbn [map]. rewrite Nat.add_0_l, N2Nat.id. reflexivity.
Qed.
Lemma ids_upto_in x n : In x (ids_upto n) <-> (x < n)%N.
Proof.
  unfold ids_upto. rewrite in_map_iff. split.
  - intros (k & <- & Hk). apply in_seq in Hk. lia.
  - intros H. exists (N.to_nat x). split; [apply N2Nat.id|]. apply in_seq. lia.
Qed.
Lemma ids_upto_nodup n : NoDup (ids_upto n).
Proof.
  induction n as [|n IH] using N.peano_ind.
  - constructor.
  - rewrite <- N.add_1_r, ids_upto_succ. apply NoDup_snoc; [exact IH|]. rewrite ids_upto_in. lia.
Qed.
Lemma succ_ids_nodup n : NoDup (map N.succ (ids_upto n)).
Proof. apply FinFun.Injective_map_NoDup; [intros x y; apply N.succ_inj|apply ids_upto_nodup]. Qed.

Lemma filter_map_comm {A} (f : A -> bool) (g : A -> A) l :
  (forall x, f (g x) = f x) -> filter f (map g l) = map g (filter f l).
Proof.
  intros H. induction l as [|x l IH]; cbn [map filter]; [reflexivity|].
  rewrite H. destruct (f x); cbn [map]; rewrite IH; reflexivity.
Qed.
Lemma filter_map_swap {A B} (f : B -> bool) (g : A -> B) l :
  filter f (map g l) = map g (filter (fun x => f (g x)) l).
Proof.
  induction l as [|x l IH]; cbn [map filter]; [reflexivity|].
  destruct (f (g x)); cbn [map]; rewrite IH; reflexivity.
Qed.
Lemma filter_nil_iff {A} (f : A -> bool) l : filter f l = [] <-> forall x, In x l -> f x = false.
Proof.
  induction l as [|y l IH]; cbn [filter In].
  - split; [intros _ x []|reflexivity].
  - destruct (f y) eqn:E.
    + split; [discriminate|]. intros H. rewrite (H y (or_introl eq_refl)) in E. discriminate.
    + rewrite IH. split.
      * intros H x [<-|Hx]; [exact E|apply H; exact Hx].
      * intros H x Hx. apply H. right. exact Hx.
Qed.
Lemma NoDup_map_eq {A B} (f : A -> B) l x y :
  NoDup (map f l) -> In x l -> In y l -> f x = f y -> x = y.
Proof.
  induction l as [|z l IH]; cbn [map In]; intros ND Hx Hy E; [contradiction|].
  inversion ND as [|? ? Hn ND']; subst.
  destruct Hx as [->|Hx], Hy as [->|Hy].
  - reflexivity.
  - exfalso. apply Hn. rewrite E. apply in_map. exact Hy.
  - exfalso. apply Hn. rewrite <- E. apply in_map. exact Hx.
  - apply IH; assumption.
Qed.

(* the number of elements of a duplicate-free list l that occur in a duplicate-free m, m within l *)
Lemma count_mem (I m : list N) :
  NoDup I -> NoDup m -> incl m I -> length (filter (fun i => existsb (N.eqb i) m) I) = length m.
Proof.
  intros NI Nm Hm. apply Permutation_length. apply NoDup_Permutation.
  - apply NoDup_filter. exact NI.
  - exact Nm.
  - intros x. rewrite filter_In, existsb_exists. split.
    + intros (_ & y & Hy & E). apply N.eqb_eq in E. subst y. exact Hy.
    + intros Hx. split; [apply Hm; exact Hx|]. exists x. split; [exact Hx|apply N.eqb_refl].
Qed.

(* ------------------------------------------------------------------ consequences of the parts *)
Lemma ids_seq_ids_ok s : ids_seq s -> ids_ok s.
Proof.
  unfold ids_seq, ids_ok. intros H. split.
  - rewrite H. apply ids_upto_nodup.
  - rewrite Forall_forall. intros a Ha. apply ids_upto_in. rewrite <- H. apply in_map. exact Ha.
Qed.

Lemma InvS_find s a : InvS s -> In a (st_auctions s) -> find_auction s (a_id a) = Some a.
Proof. intros I Ha. apply ids_ok_find; [apply ids_seq_ids_ok, I|exact Ha]. Qed.
Lemma InvS_find_lt s id a : InvS s -> find_auction s id = Some a -> (id < st_aseq s)%N.
Proof.
  intros I F. apply find_auction_some in F. destruct F as [Ha <-].
  destruct (ids_seq_ids_ok s (is_ids s I)) as [_ H]. rewrite Forall_forall in H. apply H. exact Ha.
Qed.
Lemma InvS_find_wf s id a : InvS s -> find_auction s id = Some a -> auction_wf a.
Proof.
  intros I F. apply find_auction_some in F. destruct F as [Ha _].
  pose proof (is_auctions s I) as H. unfold auctions_wf in H. rewrite Forall_forall in H. apply H. exact Ha.
Qed.

Lemma bids_wf_nodup s id : bids_wf s -> NoDup (map b_id (bids_of s id)).
Proof. intros [_ H]. rewrite H. apply succ_ids_nodup. Qed.

Lemma bids_of_in s id b : In b (bids_of s id) <-> In b (st_bids s) /\ b_auction b = id.
Proof. unfold bids_of. rewrite filter_In, N.eqb_eq. reflexivity. Qed.

Lemma count_matched_bids_of bs id :
  count_matched bs id = Z.of_nat (length (filter b_matched (filter (fun b => N.eqb (b_auction b) id) bs))).
Proof.
  unfold count_matched. f_equal. f_equal.
  induction bs as [|b bs IH]; cbn [filter]; [reflexivity|].
  destruct (N.eqb (b_auction b) id); cbn [andb filter]; [destruct (b_matched b)|]; rewrite IH; reflexivity.
Qed.
Lemma count_matched_nil s id : bids_of s id = [] -> count_matched (st_bids s) id = 0.
Proof. intros H. rewrite count_matched_bids_of. fold (bids_of s id). rewrite H. reflexivity. Qed.

Lemma vqs_fresh_iff (l : list vq) (n : N) :
  (forall id, (n <= id)%N -> filter (fun x => N.eqb (v_auction x) id) l = [])
  <-> Forall (fun v => (v_auction v < n)%N) l.
Proof.
  rewrite Forall_forall. split.
  - intros H v Hv. destruct (N.lt_ge_cases (v_auction v) n) as [L|G]; [exact L|].
    specialize (H _ G). rewrite filter_nil_iff in H. specialize (H v Hv). rewrite N.eqb_refl in H. discriminate.
  - intros H id Hid. apply filter_nil_iff. intros v Hv. apply N.eqb_neq. specialize (H v Hv). lia.
Qed.
