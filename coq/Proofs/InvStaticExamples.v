(* A small concrete history for the Examples of C19: two auctions, one allow-listed bidder, two bids. *)
From Coq Require Import ZArith NArith List Bool.
From FR Require Import Dec Types Bank Match Step Genesis Model Spec.
From FR.Proofs Require Import InvDefs.
Import ListNotations.
Open Scope Z_scope.

Definition c19_params : params := {| p_cfee := [(0%N, 10)]; p_bfee := [(0%N, 1)]; p_period := 1 |}.
Definition c19_init : state :=
  init_state (fun a _ => match a with User _ => 1000000 | _ => 0 end) 100 true c19_params.

Definition c19_coin (d : N) (a : Z) : mcoin := {| mc_denom := Some d; mc_amt := Some a |}.

(* auction 0: fixed price, started at once; auction 1: batch, started at once *)
Definition c19_ops : list op :=
  [ OTx (MCreateFixed (AGood false 0) (Some P) (c19_coin 1 1000) (Some 2%N) [] 50 200);
    OTx (MCreateBatch (AGood false 1) (Some P) (Some P) (c19_coin 1 500) (Some 2%N)
           [{| ms_time := 400; ms_weight := Some P |}] 2 (Some (P / 10)) 60 300);
    OTx (MAddAllowed 0 0 (AGood false 2) (Some 100));
    OApiAdd 1 [(1%N, AGood false 2, Some 100)];
    OTx (MPlaceBid (AGood false 2) 0 1 (Some P) (c19_coin 2 30));
    OTx (MPlaceBid (AGood false 2) 1 2 (Some (2 * P)) (c19_coin 2 40));
    OTx (MPlaceBid (AGood false 2) 0 1 (Some P) (c19_coin 2 20));
    OTx (MPlaceBid (AGood false 2) 0 1 (Some P) (c19_coin 2 500));   (* over the bidder's maximum: rejected *)
    OBlock 210 [] ].

Definition c19_s : state := run c19_init c19_ops.
