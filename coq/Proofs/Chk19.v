(* Checker link for C19: Checkers.c19_ok never fires on a transition of the model from a state satisfying Inv.
   frame: LifeTheorems.L_C19_frame_tx / L_C19_frame_block / L_C19_frame_untargeted (+ the balance effect of a plain send);
   terms: L_C19_terms_eqb; bids: L_C19_bids; ids: the invariant of the post-state (ids_seq, bids_wf) and the
   counter lemmas L_C19_aseq_mono, L_C19_bseq_only_place, L_C19_place_ids, L_C19_rejected. *)
From Coq Require Import ZArith NArith List Bool Arith Lia.
From FR Require Import Dec Types Bank Match Step Genesis Model Spec Checkers.
From FR.Proofs Require Import InvDefs FrameFacts TxFacts BlockFacts LifeTheorems InvAll FixedFacts EscrowBase ExcessDefs.
From FR.Proofs Require Import Chk18 Chk11.
From FR.Proofs Require ExcessAll GenesisImport GenesisSort.
Import ListNotations.
Open Scope Z_scope.

(* ------------------------------------------------------------------ the boolean slice comparison *)
Lemma slice_eqb_intro s s' id :
  find_auction s' id = find_auction s id -> bids_of s' id = bids_of s id -> allowed_of s' id = allowed_of s id ->
  vqs_of s' id = vqs_of s id -> st_bseq s' id = st_bseq s id -> st_mlen s' id = st_mlen s id ->
  slice_eqb s s' id = true.
Proof.
  intros Ha Hb Hal Hv Hs Hm. unfold slice_eqb. rewrite Ha, Hb, Hal, Hv, Hs, Hm.
  rewrite same_bids_refl, same_allowed_refl, same_vqs_refl, N.eqb_refl, Z.eqb_refl.
  destruct (find_auction s id) as [a|]; [rewrite auction_eqb_refl|]; reflexivity.
Qed.

Lemma slice_eqb_of s s' id : slice_eq id s s' -> slice_eqb s s' id = true.
Proof. intros [A1 A2 A3 A4 A5 A6 _]. apply slice_eqb_intro; assumption. Qed.

Lemma donation_not_send o out r id d : (forall f t d0 a, o <> OSend f t d0 a) -> donation o out r id d = 0.
Proof. intros H. destruct o; try reflexivity. exfalso. eapply H. reflexivity. Qed.

(* an auction a block has nothing to do for, by status alone *)
Lemma idle_b_idle tm s a : idle_b tm s a = true -> idle tm s a.
Proof.
  unfold idle_b, idle. destruct (a_status a); intros H; try exact I.
  - apply Z.ltb_lt, H.
  - apply Z.ltb_lt, H.
  - intros v Hv. rewrite forallb_forall in H. specialize (H v Hv). apply negb_true_iff in H. exact H.
Qed.

(* everything about an auction that is not the target of the operation is left alone; its escrows change only by
   what a plain send puts into them *)
Lemma c19_frame_other s o id :
  Inv s -> o <> OGenesis ->
  match FrameFacts.target s o with
  | Some a => N.eqb a id
  | None => FrameFacts.is_block o && match find_auction s id with Some a => negb (idle_b (FrameFacts.block_time o) s a) | None => false end
  end = false ->
  slice_eqb s (snd (step s o)) id = true
  /\ forall r d, st_bal (snd (step s o)) (Escrow r id) d = st_bal s (Escrow r id) d + donation o (fst (step s o)) r id d.
Proof.
  intros I Hgen Hnt. destruct (FrameFacts.target s o) as [tid|] eqn:T.
  - apply N.eqb_neq in Hnt. assert (Hne : id <> tid) by congruence.
    pose proof (L_C19_frame_tx s o tid T id Hne) as F. split; [apply slice_eqb_of; exact F|].
    intros r d. rewrite (se_bal _ _ _ F), donation_not_send; [lia|].
    intros f t d0 a ->. discriminate T.
  - destruct (FrameFacts.is_block o) eqn:Hblk.
    + cbn [andb] in Hnt.
      assert (F : slice_eq id s (snd (step s o))).
      { apply (L_C19_frame_block s o id (Inv_ids_ok s I) Hblk).
        destruct (find_auction s id) as [a|] eqn:Fa; [right|left; reflexivity].
        exists a. split; [reflexivity|]. apply idle_b_idle. apply negb_false_iff. exact Hnt. }
      split; [apply slice_eqb_of; exact F|].
      intros r d. rewrite (se_bal _ _ _ F), donation_not_send; [lia|].
      intros f t d0 a ->. discriminate Hblk.
    + destruct (L_C19_frame_untargeted s o id T Hblk Hgen) as (A1 & A2 & A3 & A4 & A5 & A6 & A7).
      split; [apply slice_eqb_intro; try assumption; [rewrite A5|rewrite A6]; reflexivity|].
      intros r d'.
      destruct o as [m|a l|a u max|t orc|t orc k|from to d amt|ls|];
        try (rewrite A7 by (intros; discriminate); rewrite donation_not_send by (intros; discriminate); lia).
      cbn [step]. destruct (0 <? amt).
      * destruct (send s (User from) to d amt) as [s'|code tr] eqn:Eh; cbn [commit snd fst donation].
        -- destruct (send_ok _ _ _ _ _ _ Eh) as (_ & _ & Hbal & _). rewrite Hbal.
           assert (E : addr_eqb (Escrow r id) to = addr_eqb to (Escrow r id)).
           { destruct (addr_eqb to (Escrow r id)) eqn:E1.
             - apply addr_eqb_eq in E1. subst to. apply EscrowBase.addr_eqb_refl.
             - apply addr_eqb_neq. apply addr_eqb_neq in E1. congruence. }
           rewrite E. cbn [addr_eqb andb ind]. unfold ind. lia.
        -- cbn [with_trace st_bal]. lia.
      * cbn [fail commit snd fst donation with_trace st_bal]. lia.
Qed.

(* ------------------------------------------------------------------ small facts from the invariant *)
Lemma Inv_bounded s : Inv s -> bounded s.
Proof.
  intros I. pose proof (inv_auctions _ I) as W. unfold auctions_wf in W. unfold bounded.
  eapply Forall_impl; [|exact W]. intros a Wa. split; [apply (awf_ends _ Wa)|apply (awf_maxr _ Wa)].
Qed.

Lemma ids_upto_length n : length (ids_upto n) = N.to_nat n.
Proof. unfold ids_upto. rewrite map_length, seq_length. reflexivity. Qed.

Lemma list_eqbN_refl l : list_eqb N.eqb l l = true.
Proof. apply list_eqb_refl. intros; apply N.eqb_refl. Qed.

Lemma in_paired t p :
  In p (paired t) -> In (fst p) (st_auctions (t_pre t)) /\ find_auction (t_post t) (a_id (fst p)) = Some (snd p).
Proof.
  unfold paired. intros H. apply in_flat_map in H. destruct H as (a & Ha & Hp).
  destruct (find_auction (t_post t) (a_id a)) as [a'|] eqn:F; [|destruct Hp].
  destruct Hp as [<-|[]]. cbn [fst snd]. auto.
Qed.

(* ------------------------------------------------------------------ the link *)
Theorem c19_ok_model s o : Inv s -> c19_ok (model_trans s o) = true.
Proof.
  intros I. pose proof (Inv_ghost_reset s I) as I0.
  unfold model_trans. fold (ghost_reset s).
  destruct (step (ghost_reset s) o) as [out s'] eqn:Es.
  assert (Es1 : fst (step (ghost_reset s) o) = out) by (rewrite Es; reflexivity).
  assert (Es2 : snd (step (ghost_reset s) o) = s') by (rewrite Es; reflexivity).
  assert (I1 : Inv s') by (rewrite <- Es2; apply Inv_step, I0).
  set (t := {| t_pre := s; t_op := o; t_class := class_of out; t_xfers := st_xfers s'; t_trace := st_trace s';
               t_post := s';
               t_fault := match out, o with BlockErr c, OFaultBlock _ _ _ => N.eqb c E_FAULT | _, _ => false end;
               t_gen_valid := match out with GenOk v => v | _ => false end |}).
  assert (Hgoal : o <> OGenesis ->
    forallb (fun id =>
       let is_target := match Checkers.target t with
                        | Some a => N.eqb a id
                        | None => Checkers.is_block (t_op t)
                                  && match find_auction (t_pre t) id with Some a => touched_by_block t a | None => false end
                        end in
       is_target || (slice_eqb (t_pre t) (t_post t) id && escrows_eqb t id)) (ids_upto (st_aseq (t_post t) + 2))
    && forallb (fun p => auction_terms_eqb (fst p) (snd p)) (paired t)
    && forallb (fun b => match find_bid (t_post t) (b_auction b) (b_id b) with
                         | Some b' => N.eqb (b_bidder b) (b_bidder b') && btype_eqb (b_type b) (b_type b')
                         | None => false end) (st_bids (t_pre t))
    && N.leb (st_aseq (t_pre t)) (st_aseq (t_post t))
    && (length (st_auctions (t_post t)) =? N.to_nat (st_aseq (t_post t)))%nat
    && list_eqb N.eqb (map a_id (st_auctions (t_post t))) (ids_upto (st_aseq (t_post t)))
    && forallb (fun id => N.leb (st_bseq (t_pre t) id) (st_bseq (t_post t) id)
                          && list_eqb N.eqb (map b_id (sort_by bid_le (bids_of (t_post t) id)))
                                      (map N.succ (ids_upto (st_bseq (t_post t) id))))
               (ids_upto (st_aseq (t_post t) + 1))
    && (if oclass_eqb (t_class t) KRej then N.eqb (st_aseq (t_pre t)) (st_aseq (t_post t)) else true) = true).
  2:{ unfold c19_ok. fold t. destruct o; try (apply Hgoal; discriminate). reflexivity. }
  intros Hgen.
  change (t_pre t) with s. change (t_op t) with o. change (t_post t) with s'. change (t_class t) with (class_of out).
  repeat (apply andb_true_iff; split).
  - (* frame *)
    apply forallb_forall. intros id _. cbv zeta.
    rewrite target_agrees. change (t_pre t) with s. change (t_op t) with o.
    change (Checkers.is_block o) with (FrameFacts.is_block o).
    match goal with |- ?tg || _ = true => destruct tg eqn:Htg; [reflexivity|] end.
    cbn [orb].
    destruct (c19_frame_other (ghost_reset s) o id I0 Hgen) as [Hs He].
    { change (FrameFacts.target (ghost_reset s) o) with (FrameFacts.target s o).
      change (find_auction (ghost_reset s) id) with (find_auction s id).
      destruct (FrameFacts.target s o); [exact Htg|].
      destruct (FrameFacts.is_block o); [|reflexivity]. cbn [andb] in *.
      destruct (find_auction s id) as [a|]; [|reflexivity].
      unfold touched_by_block in Htg. cbn [t_op t_pre] in Htg. exact Htg. }
    rewrite Es2 in Hs, He. rewrite Es1 in He.
    apply andb_true_iff. split; [exact Hs|].
    unfold escrows_eqb. apply forallb_forall. intros r _. apply forallb_forall. intros d _.
    unfold t. rewrite ExcessAll.donated_same. cbn [t_post t_pre]. apply Z.eqb_eq. apply (He r d).
  - (* terms *)
    apply forallb_forall. intros p Hp. apply in_paired in Hp. change (t_pre t) with s in Hp. change (t_post t) with s' in Hp. destruct Hp as [Ha Fa'].
    pose proof (Inv_find_in (ghost_reset s) (fst p) I0 Ha) as Fa.
    destruct (L_C19_terms_eqb (ghost_reset s) o (a_id (fst p)) (fst p) (Inv_ids_ok _ I0) (Inv_bounded _ I0) Hgen Fa)
      as (a' & Fa'' & Te).
    rewrite Es2, Fa' in Fa''. injection Fa'' as <-. exact Te.
  - (* bids *)
    apply forallb_forall. intros b Hb. cbn [t_pre t_post] in *.
    pose proof (Inv_find_bid_in (ghost_reset s) b I0 Hb) as Fb.
    destruct (L_C19_bids (ghost_reset s) o (Inv_ids_ok _ I0) Hgen _ _ _ Fb) as (b' & Fb' & (_ & _ & Hu & Ht & _)).
    rewrite Es2 in Fb'. rewrite Fb', Hu, Ht, N.eqb_refl. apply Chk11.btype_eqb_refl.
  - (* the auction counter never decreases *)
    cbn [t_pre t_post]. apply N.leb_le.
    pose proof (L_C19_aseq_mono (ghost_reset s) o (Inv_ids_ok _ I0) Hgen) as H. rewrite Es2 in H. exact H.
  - cbn [t_post]. apply Nat.eqb_eq.
    rewrite <- (map_length a_id), (inv_ids _ I1). apply ids_upto_length.
  - cbn [t_post]. rewrite (inv_ids _ I1). apply list_eqbN_refl.
  - (* bid counters and bid ids *)
    apply forallb_forall. intros id _. cbn [t_pre t_post]. apply andb_true_iff. split.
    + apply N.leb_le.
      destruct (L_C19_bseq_only_place (ghost_reset s) o (Inv_ids_ok _ I0) Hgen) as [E|(Hacc & who & id0 & bt & price & coin & ->)].
      * rewrite Es2 in E. rewrite E. cbn [ghost_reset st_bseq with_trace with_bank]. lia.
      * destruct (L_C19_place_ids _ _ _ _ _ _ Hacc) as (nb & _ & _ & _ & E). rewrite Es2 in E. rewrite E.
        cbn [ghost_reset st_bseq with_trace with_bank]. unfold upd. destruct (N.eqb id id0) eqn:Eid; [|lia].
        apply N.eqb_eq in Eid. subst id0. lia.
    + destruct (inv_bids _ I1) as [W Hids].
      rewrite (GenesisSort.sort_by_id bid_le);
        [|apply GenesisImport.bids_of_sorted; split; assumption].
      rewrite Hids. apply list_eqbN_refl.
  - (* a rejected operation does not move the auction counter *)
    cbn [t_class t_pre t_post]. destruct (oclass_eqb (class_of out) KRej) eqn:Ek; [|reflexivity].
    apply class_rej_iff in Ek. destruct Ek as [c ->].
    destruct (L_C19_rejected (ghost_reset s) o c Es1) as [tr E]. rewrite Es2 in E. rewrite E. apply N.eqb_refl.
Qed.
