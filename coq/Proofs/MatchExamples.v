(* Concrete books used by the Examples of Properties/C03.v, C04_batch.v, C05_batch.v. *)
From Coq Require Import ZArith NArith List Bool.
From FR Require Import Dec Types Match Spec.
Import ListNotations.
Open Scope Z_scope.

Definition ex_auction (supply : Z) : auction :=
  {| a_id := 0; a_type := Batch; a_auctioneer := 9; a_upper := false; a_start_price := P;
     a_sell_denom := 1; a_sell_amt := supply; a_pay_denom := 0; a_scheds := []; a_start := 0;
     a_ends := [10]; a_status := Started; a_remaining := 0; a_min_price := P;
     a_matched_price := 0; a_max_round := 0; a_rate := 0 |}.
(* worth bids name the paying coin (denom 0), how-many bids the selling coin (denom 1) *)
Definition ex_bid (id u : N) (t : btype) (price : Z) (amt : Z) : bid :=
  {| b_auction := 0; b_id := id; b_bidder := u; b_type := t; b_price := price;
     b_denom := match t with BWorth => 0%N | _ => 1%N end; b_amt := amt; b_matched := false |}.
Definition ex_allowed (u : N) (m : Z) : allowed := {| al_auction := 0; al_bidder := u; al_max := m |}.

(* price, total, matched ids, bidders, allocations and refunds of the listed bidders *)
Definition ex_view (o : option minfo) (us : list N) :=
  option_map (fun mi => (mi_price mi, mi_total mi, mi_matched mi, mi_bidders mi,
                         map (mi_alloc mi) us, map (mi_refund mi) us)) o.

(* book 1 (defect D1 of the original code): worth 1 @ 2.0 (asks for 0 at 2.0, for 1 at 1.0)
   and 10 coins @ 1.0, supply 100: clears at 1.0, everybody is served *)
Definition ex1_bids : list bid := [ex_bid 1 1 BWorth (2 * P) 1; ex_bid 2 2 BMany P 10].
Definition ex1_al : list allowed := [ex_allowed 1 100; ex_allowed 2 100].

(* book 2: duplicate prices (bids 2 and 3 @ 2.0), bidder 1 capped at 40 (asks for 60 at 2.0),
   a worth bid with rounding (7 @ 2.5 buys 3 at 2.0 for 6, 1 refunded), supply 80:
   demand is 30 @ 3.0, 32 @ 2.5, 73 @ 2.0, 117 @ 1.0 -> clears at 2.0 *)
Definition ex2_bids : list bid :=
  [ex_bid 1 1 BMany (3 * P) 30; ex_bid 2 2 BMany (2 * P) 30; ex_bid 3 1 BMany (2 * P) 30;
   ex_bid 4 3 BWorth P 40; ex_bid 5 2 BWorth (2 * P + P / 2) 7].
Definition ex2_al : list allowed := [ex_allowed 1 40; ex_allowed 2 100; ex_allowed 3 100].
Definition ex2_order_a : list N := [1; 5; 2; 3; 4]%N.
Definition ex2_order_b : list N := [1; 5; 3; 2; 4]%N.
Definition ex2_run (ids : list N) :=
  match valid_order ex2_bids ids with
  | Some o => ex_view (calc_batch (ex_auction 80) ex2_bids o ex2_al) [1; 2; 3; 4]%N
  | None => None
  end.
