(* Checker link for C12 (cancellation): Checkers.c12_ok can never fire on a transition of the model taken from a
   state satisfying the global invariant. *)
From Coq Require Import ZArith NArith List Bool Arith Lia.
From FR Require Import Dec Types Bank Match Step Genesis Model Spec Checkers.
From FR.Proofs Require Import InvDefs FrameFacts TxFacts BlockFacts LifeTheorems InvAll FixedFacts Chk08.
From FR.Proofs Require GenesisImport PrecondFacts PrecondEffects.
Import ListNotations.
Open Scope Z_scope.

(* ------------------------------------------------------------------ reflexivity of the record comparison *)
Lemma auction_eqb_refl a : auction_eqb a a = true.
Proof.
  unfold auction_eqb. rewrite (terms_eqb_of a a (terms0_refl a) eq_refl), status_eqb_refl, list_eqb_Z_refl, !Z.eqb_refl.
  reflexivity.
Qed.

Lemma addr_eqb_refl x : addr_eqb x x = true.
Proof. destruct x as [u|r a|]; cbn [addr_eqb]; [apply N.eqb_refl| |reflexivity]. rewrite N.eqb_refl. destruct r; reflexivity. Qed.

(* ------------------------------------------------------------------ a cancelled auction is never touched again *)
Lemma cancelled_stays s o out s' a a' :
  Inv s -> step (ghost_reset s) o = (out, s') ->
  In a (st_auctions s) -> find_auction s' (a_id a) = Some a' -> a_status a = Cancelled -> a' = a.
Proof.
  intros I Es Ha F' St. pose proof (Inv_find_in s a I Ha) as F.
  pose proof (Inv_ids_ok _ (Inv_ghost_reset s I)) as OK0.
  assert (Es2 : snd (step (ghost_reset s) o) = s') by (rewrite Es; reflexivity).
  destruct (op_eq_genesis_dec o) as [Eo|Hg].
  - subst o. destruct (genesis_same _ _ _ I Es) as [_ SS].
    unfold find_auction in F'. rewrite (GenesisImport.ss_auctions _ _ SS) in F'.
    change (find_auction s (a_id a) = Some a') in F'. congruence.
  - destruct (step_auction (ghost_reset s) o (a_id a) a OK0 Hg F) as (a'' & F'' & R).
    rewrite Es2 in F''. assert (a'' = a') by congruence. subst a''.
    unfold step_arel in R. destruct (FrameFacts.is_block o).
    + destruct R as [[_ R]|[_ ->]]; [|reflexivity]. unfold block_rel in R. rewrite St in R. exact R.
    + destruct R as [->|[(St' & _)|(St' & _)]]; [reflexivity|congruence|congruence].
Qed.

(* ------------------------------------------------------------------ the cancellation itself *)
Lemma sum_single_refund id u d bal :
  sum_xfers (if bal =? 0 then [] else [{| x_from := Escrow Selling id; x_to := User u; x_denom := d; x_amt := bal |}])
            (from_to (Escrow Selling id) (User u) d) = bal.
Proof.
  destruct (bal =? 0) eqn:E; [apply Z.eqb_eq in E; subst bal; reflexivity|].
  unfold sum_xfers, from_to. cbn [filter x_from x_to x_denom].
  rewrite !addr_eqb_refl, N.eqb_refl. cbn [andb map x_amt sumZ]. unfold sumZ. cbn [fold_right map x_amt]. lia.
Qed.

Lemma cancel_ok s who id out s' :
  Inv s -> step (ghost_reset s) (OTx (MCancel who id)) = (out, s') ->
  match who with
  | ABad => oclass_eqb (class_of out) KRej
  | AGood _ u =>
      match find_auction s id with
      | None => oclass_eqb (class_of out) KRej
      | Some a =>
          Bool.eqb (oclass_eqb (class_of out) KOk)
                   (N.eqb u (a_auctioneer a) && status_eqb (a_status a) StandBy && no_veto s H_BeforeCanceled)
          && (if oclass_eqb (class_of out) KOk then
                match find_auction s' id with
                | Some a' =>
                    status_eqb (a_status a') Cancelled && (a_remaining a' =? 0)
                    && (st_bal s' (Escrow Selling id) (a_sell_denom a) =? 0)
                    && (sum_xfers (st_xfers s') (from_to (Escrow Selling id) (User (a_auctioneer a)) (a_sell_denom a))
                        =? st_bal s (Escrow Selling id) (a_sell_denom a))
                    && (a_sell_amt a <=? st_bal s (Escrow Selling id) (a_sell_denom a))
                    && (length (st_xfers s') <=? 1)%nat
                | None => false
                end
              else true)
      end
  end = true.
Proof.
  intros I Es. pose proof (Inv_ghost_reset s I) as I0. pose proof (Inv_WF _ I0) as W0.
  cbn [step] in Es.
  assert (Es1 : fst (deliver_tx (ghost_reset s) (MCancel who id)) = out) by (rewrite Es; reflexivity).
  assert (Es2 : snd (deliver_tx (ghost_reset s) (MCancel who id)) = s') by (rewrite Es; reflexivity).
  pose proof (PrecondEffects.C12_cancel_iff_proof (ghost_reset s) who id W0) as Hiff. rewrite Es1 in Hiff.
  destruct (PrecondEffects.deliver_outcome (ghost_reset s) (MCancel who id)) as [Hacc|(c & Hrej)]; rewrite Es1 in *.
  - (* accepted *)
    destruct Hiff as [Hiff _]. destruct (Hiff Hacc) as (up & u & a & -> & Fa & -> & St & Hnv).
    change (find_auction s id = Some a) in Fa. change (no_veto s H_BeforeCanceled = true) in Hnv.
    rewrite Fa, Hacc. cbn [class_of oclass_eqb]. rewrite N.eqb_refl, St, Hnv. cbn [status_eqb andb Bool.eqb].
    pose proof (PrecondEffects.C12_effects_proof (ghost_reset s) (AGood up (a_auctioneer a)) id a W0) as Eff.
    rewrite Es1, Es2 in Eff. specialize (Eff Hacc Fa). cbv zeta in Eff.
    destruct Eff as ((a' & Fa' & St' & Rf & Rb & _) & _ & _ & _ & _ & _ & _ & _ & _ & _ & _ & _ & Hx & Hb & _).
    change (st_bal (ghost_reset s)) with (st_bal s) in Hx, Hb.
    change (st_xfers (ghost_reset s)) with (@nil xfer) in Hx. cbn [app] in Hx.
    rewrite Fa', St'. cbn [status_eqb andb].
    assert (Hrem : a_remaining a' = 0).
    { destruct (a_type a) eqn:Ty; [apply Rf; reflexivity|]. rewrite (Rb eq_refl).
      pose proof (inv_auctions _ I) as Wf. unfold auctions_wf in Wf. rewrite Forall_forall in Wf.
      destruct (find_auction_some _ _ _ Fa) as [Ha _].
      destruct (awf_batch _ (Wf a Ha) Ty) as (_ & _ & R & _). exact R. }
    rewrite Hrem, Hb. cbn [Z.eqb andb]. rewrite Hx, sum_single_refund, Z.eqb_refl. cbn [andb].
    apply andb_true_iff. split.
    + apply Z.leb_le. destruct (inv_escrow _ I) as [_ E].
      specialize (E Selling id (a_sell_denom a)). unfold InvDefs.owed in E. rewrite Fa, St, N.eqb_refl in E. exact E.
    + destruct (st_bal s (Escrow Selling id) (a_sell_denom a) =? 0); reflexivity.
  - (* rejected *)
    destruct Hiff as [_ Hiff]. rewrite Hrej. cbn [class_of oclass_eqb].
    destruct who as [up u|]; [|reflexivity].
    destruct (find_auction s id) as [a|] eqn:Fa; [|reflexivity].
    destruct (N.eqb u (a_auctioneer a) && status_eqb (a_status a) StandBy && no_veto s H_BeforeCanceled) eqn:Ep; [|reflexivity].
    exfalso. apply andb_true_iff in Ep. destruct Ep as [Ep Hnv]. apply andb_true_iff in Ep. destruct Ep as [Eu St].
    apply N.eqb_eq in Eu. apply TxFacts.status_eqb_eq in St.
    assert (X : out = Accepted); [|rewrite Hrej in X; discriminate X].
    apply Hiff. exists up, u, a. repeat split; assumption.
Qed.

(* ------------------------------------------------------------------ the executable statement (Checkers.c12_ok) *)
Theorem c12_ok_model s o : Inv s -> c12_ok (model_trans s o) = true.
Proof.
  intros I. unfold model_trans. fold (ghost_reset s).
  destruct (step (ghost_reset s) o) as [out s'] eqn:Es.
  unfold c12_ok, paired. cbn [t_post t_pre t_op t_class t_xfers].
  apply andb_true_iff. split.
  - destruct o as [m|id l|id u max|t orc|t orc k|from to d amt|ls|]; try reflexivity.
    destruct m as [| |who id| | | |]; try reflexivity.
    exact (cancel_ok s who id out s' I Es).
  - apply forallb_forall. intros [a a'] Hp. apply in_pairs_gen in Hp. destruct Hp as [Ha F'].
    cbn [fst snd]. destruct (status_eqb (a_status a) Cancelled) eqn:St; [|reflexivity].
    apply TxFacts.status_eqb_eq in St.
    rewrite (cancelled_stays s o out s' a a' I Es Ha F' St). cbn [negb orb]. apply auction_eqb_refl.
Qed.
