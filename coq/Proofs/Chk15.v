(* Checker link for C15: the executable statement Checkers.c15_ok never fires on a transition of the model
   from a state satisfying the global invariant. *)
From Coq Require Import ZArith NArith List Bool Arith Lia Permutation.
From FR Require Import Dec Types Bank Match Step Genesis Model Spec Checkers.
From FR.Proofs Require Import InvDefs GenesisSort GenesisRT GenesisImport GenesisInv FixedFacts.
Import ListNotations.
Open Scope Z_scope.

(* ------------------------------------------------------------------ reflexivity of the executable equalities *)
Lemma list_eqb_refl {A} (eqb : A -> A -> bool) (l : list A) :
  (forall x, eqb x x = true) -> list_eqb eqb l l = true.
Proof.
  intros H. induction l as [|x r IH]; cbn [list_eqb]; [reflexivity|].
  rewrite H, IH. reflexivity.
Qed.

Lemma sched_eqb_refl x : sched_eqb x x = true.
Proof. unfold sched_eqb. rewrite !Z.eqb_refl. reflexivity. Qed.

Lemma atype_eqb_refl x : atype_eqb x x = true.
Proof. destruct x; reflexivity. Qed.
Lemma status_eqb_refl x : status_eqb x x = true.
Proof. destruct x; reflexivity. Qed.

Lemma auction_terms_eqb_refl a : auction_terms_eqb a a = true.
Proof.
  unfold auction_terms_eqb.
  rewrite !N.eqb_refl, !Z.eqb_refl, atype_eqb_refl, Bool.eqb_reflx.
  rewrite (list_eqb_refl sched_eqb _ sched_eqb_refl). reflexivity.
Qed.

Lemma auction_eqb_refl a : auction_eqb a a = true.
Proof.
  unfold auction_eqb. rewrite auction_terms_eqb_refl, status_eqb_refl, !Z.eqb_refl.
  rewrite (list_eqb_refl Z.eqb _ Z.eqb_refl). reflexivity.
Qed.

Lemma allowed_eqb_refl x : allowed_eqb x x = true.
Proof. unfold allowed_eqb. rewrite !N.eqb_refl, Z.eqb_refl. reflexivity. Qed.

Lemma vq_eqb_refl x : vq_eqb x x = true.
Proof. unfold vq_eqb. rewrite !N.eqb_refl, !Z.eqb_refl, Bool.eqb_reflx. reflexivity. Qed.

Lemma coins_eqb_refl c : coins_eqb c c = true.
Proof.
  unfold coins_eqb. apply list_eqb_refl. intros x. rewrite N.eqb_refl, Z.eqb_refl. reflexivity.
Qed.

(* ------------------------------------------------------------------ the stores, sorted, are the same *)
Section Same.
  Variables s s' : state.
  Hypothesis H : state_same s s'.

  Lemma sorted_bids_same : bids_wf s -> sort_by bid_le (st_bids s) = sort_by bid_le (st_bids s').
  Proof.
    intros Hb. apply (sort_by_perm_unique bid_le bid_le_total bid_le_trans).
    - intros x y Hx Hy Hxy Hyx. destruct (bid_le_antisym x y Hxy Hyx) as [E1 E2].
      apply (NoDup_map_inj_in bid_key (st_bids s)); [apply bid_keys_NoDup; exact Hb|exact Hx|exact Hy|].
      unfold bid_key. congruence.
    - apply Permutation_sym. apply (ss_bids_perm _ _ H).
  Qed.

  Lemma sorted_allowed_same : allowed_wf s -> sort_by allowed_le (st_allowed s) = sort_by allowed_le (st_allowed s').
  Proof.
    intros [_ Hnd]. apply (sort_by_perm_unique allowed_le allowed_le_total allowed_le_trans).
    - intros x y Hx Hy Hxy Hyx. destruct (allowed_le_antisym x y Hxy Hyx) as [E1 E2].
      apply (NoDup_map_inj_in (fun x => (al_auction x, al_bidder x)) (st_allowed s));
        [exact Hnd|exact Hx|exact Hy|congruence].
    - apply Permutation_sym. apply (ss_allowed_perm _ _ H).
  Qed.

  Lemma sorted_vqs_same : vqs_wf s -> sort_by vq_le (st_vqs s) = sort_by vq_le (st_vqs s').
  Proof.
    intros [_ [Hnd _]]. apply (sort_by_perm_unique vq_le vq_le_total vq_le_trans).
    - intros x y Hx Hy Hxy Hyx. destruct (vq_le_antisym x y Hxy Hyx) as [E1 E2].
      apply (NoDup_map_inj_in (fun v => (v_auction v, v_time v)) (st_vqs s));
        [exact Hnd|exact Hx|exact Hy|congruence].
    - apply Permutation_sym. apply (ss_vqs_perm _ _ H).
  Qed.

  Lemma module_state_eqb_same : bids_wf s -> allowed_wf s -> vqs_wf s -> module_state_eqb s s' = true.
  Proof.
    intros Hb Hal Hvq. unfold module_state_eqb, same_bids, same_allowed, same_vqs.
    rewrite <- (sorted_bids_same Hb), <- (sorted_allowed_same Hal), <- (sorted_vqs_same Hvq).
    rewrite (ss_auctions _ _ H), (ss_aseq _ _ H), (ss_params _ _ H).
    rewrite (list_eqb_refl auction_eqb _ auction_eqb_refl), (list_eqb_refl bid_eqb _ bid_eqb_refl),
      (list_eqb_refl allowed_eqb _ allowed_eqb_refl), (list_eqb_refl vq_eqb _ vq_eqb_refl).
    rewrite N.eqb_refl, !coins_eqb_refl, Z.eqb_refl. cbn [andb].
    rewrite !andb_true_r. apply forallb_forall. intros a _.
    rewrite (ss_bseq _ _ H), (ss_mlen _ _ H), N.eqb_refl, Z.eqb_refl. reflexivity.
  Qed.

  Lemma balances_eqb_same : balances_eqb s s' = true.
  Proof.
    unfold balances_eqb. apply forallb_forall. intros a _. apply forallb_forall. intros d _.
    rewrite (ss_bal _ _ H). apply Z.eqb_refl.
  Qed.
End Same.

(* ------------------------------------------------------------------ the executable statement (Checkers.c15_ok) *)
Theorem c15_ok_model s o : Inv s -> oracle_ok s o -> c15_ok (model_trans s o) = true.
Proof.
  intros I _. pose proof (Inv_ghost_reset s I) as I0.
  unfold model_trans. fold (ghost_reset s).
  destruct (step (ghost_reset s) o) as [out s'] eqn:Es.
  unfold c15_ok. cbn [t_post t_pre t_op t_class t_gen_valid].
  destruct o as [m|id l|id u max|t orc|t orc k|from to d amt|ls|]; try reflexivity.
  destruct (genesis_step (ghost_reset s) I0) as [s1 [Hstep Hsame]].
  rewrite Hstep in Es. injection Es as <- <-.
  cbn [class_of oclass_eqb andb].
  change (module_state_eqb s s1) with (module_state_eqb (ghost_reset s) s1).
  change (balances_eqb s s1) with (balances_eqb (ghost_reset s) s1).
  rewrite (module_state_eqb_same _ _ Hsame (inv_bids _ I0) (inv_allowed _ I0) (inv_vqs _ I0)).
  rewrite (balances_eqb_same _ _ Hsame). reflexivity.
Qed.
