(* C15, part 5: `state_same` is a congruence for BeginBlocker and hence for every operation; a history continued
   on the re-imported state evolves identically. *)
From Coq Require Import ZArith NArith List Bool Arith Lia Permutation Sorted.
From FR Require Import Dec Types Bank Match Step Genesis Model Spec.
From FR.Proofs Require Import InvDefs GenesisSort GenesisRT GenesisImport GenesisInv GenesisCongr.
Import ListNotations.
Open Scope Z_scope.

(* ------------------------------------------------------------------ the matching reads the allow-list through caps_of *)
Lemma sweep_ext p supply bs : forall caps caps' total matched byb,
  (forall u, caps u = caps' u) ->
  sweep p supply bs caps total matched byb = sweep p supply bs caps' total matched byb.
Proof.
  induction bs as [|b rest IH]; intros caps caps' total matched byb Hc; [reflexivity|].
  cbn [sweep]. rewrite <- (Hc (b_bidder b)).
  destruct (caps (b_bidder b)) as [cap|]; [|reflexivity].
  destruct (supply <? total + Z.min (bid_qty_at b p) cap); [reflexivity|].
  destruct (0 <? Z.min (bid_qty_at b p) cap).
  - apply IH. intros u. unfold upd. destruct (N.eqb u (b_bidder b)); [reflexivity|apply Hc].
  - apply IH. exact Hc.
Qed.

Lemma match_at_ext p supply order al al' :
  (forall u, caps_of al u = caps_of al' u) -> match_at p supply order al = match_at p supply order al'.
Proof. intros Hc. unfold match_at. apply sweep_ext. exact Hc. Qed.

Lemma search_ext fuel : forall probe probe' i j best,
  (forall h, probe h = probe' h) -> search fuel probe i j best = search fuel probe' i j best.
Proof.
  induction fuel as [|k IH]; intros probe probe' i j best Hp; [reflexivity|].
  cbn [search]. destruct (Nat.ltb i j); [|reflexivity].
  rewrite <- Hp. destruct (probe (Nat.div (i + j) 2)) as [r| |].
  - apply IH. exact Hp.
  - apply IH. exact Hp.
  - reflexivity.
Qed.

Lemma calc_batch_ext a bs order al al' :
  (forall u, caps_of al u = caps_of al' u) -> calc_batch a bs order al = calc_batch a bs order al'.
Proof.
  intros Hc. unfold calc_batch. cbv zeta.
  rewrite (search_ext _ _
    (fun h => match_at (nth (length (distinct_prices order) - 1 - h) (distinct_prices order) 0)
                       (a_sell_amt a) order al')).
  - reflexivity.
  - intros h. apply match_at_ext. exact Hc.
Qed.

(* ------------------------------------------------------------------ the pieces of BeginBlocker *)
Lemma same_allocate s s' a mi w : state_same s s' -> res_same (allocate s a mi w) (allocate s' a mi w).
Proof.
  intros H. unfold allocate. bind_step same_call_hook as s1 s1' H1. apply same_pay_out. exact H1.
Qed.

Lemma same_refund_selling s s' a : state_same s s' -> res_same (refund_selling s a) (refund_selling s' a).
Proof. intros H. unfold refund_selling. rewrite (ss_bal _ _ H). apply same_send. exact H. Qed.

Lemma same_apply_vesting s s' a : state_same s s' -> res_same (apply_vesting s a) (apply_vesting s' a).
Proof.
  intros H. unfold apply_vesting. rewrite (ss_bal _ _ H).
  destruct (a_scheds a) as [|v vs].
  - bind_step same_send as s1 s1' H1. apply same_put_auction. exact H1.
  - bind_step same_send as s1 s1' H1. apply same_put_auction. apply same_append_vqs. exact H1.
Qed.

Lemma same_close_fixed s s' a : state_same s s' -> res_same (close_fixed s a) (close_fixed s' a).
Proof.
  intros H. unfold close_fixed. rewrite (ss_bids_of _ _ H).
  bind_step same_allocate as s1 s1' H1. bind_step same_refund_selling as s2 s2' H2.
  apply same_apply_vesting. exact H2.
Qed.

Lemma same_settle_batch s s' a mi : state_same s s' -> res_same (settle_batch s a mi) (settle_batch s' a mi).
Proof.
  intros H. unfold settle_batch.
  bind_step same_allocate as s1 s1' H1. bind_step same_refund_selling as s2 s2' H2.
  bind_step same_pay_out as s3 s3' H3. apply same_apply_vesting. exact H3.
Qed.

Lemma same_extend_round s s' a : state_same s s' -> res_same (extend_round s a) (extend_round s' a).
Proof.
  intros H. unfold extend_round. rewrite (ss_params _ _ H). apply same_put_auction. exact H.
Qed.

Lemma same_close_batch s s' orc a : state_same s s' -> res_same (close_batch s orc a) (close_batch s' orc a).
Proof.
  intros H. unfold close_batch. rewrite (ss_bids_of _ _ H), (ss_mlen _ _ H).
  destruct (valid_order (bids_of s (a_id a))
              match find (fun x => N.eqb (fst x) (a_id a)) orc with Some (_, l) => l | None => [] end)
    as [order|]; [|apply fail_rel; exact H].
  rewrite (calc_batch_ext a (bids_of s (a_id a)) order (allowed_of s' (a_id a)) (allowed_of s (a_id a)))
    by (apply (ss_caps _ _ H)).
  destruct (calc_batch a (bids_of s (a_id a)) order (allowed_of s (a_id a))) as [mi|]; [|apply fail_rel; exact H].
  pose proof (same_set_flags _ _ H (a_id a) (mi_matched mi)) as Hf.
  destruct (N.eqb (a_max_round (set_matched_price a (mi_price mi)) + 1)
                  (N.of_nat (length (a_ends (set_matched_price a (mi_price mi)))))).
  - apply same_settle_batch. exact Hf.
  - destruct (st_mlen s (a_id a) =? 0); [apply same_extend_round; exact Hf|].
    destruct (extend_rule (Z.of_nat (length (mi_matched mi))) (st_mlen s (a_id a))
                          (a_rate (set_matched_price a (mi_price mi)))).
    + apply same_extend_round. exact Hf.
    + apply same_settle_batch. exact Hf.
Qed.

Lemma same_release_loop a t vs : forall s s', state_same s s' ->
  res_same (release_loop s a t vs) (release_loop s' a t vs).
Proof.
  induction vs as [|v rest IH]; intros s s' H.
  - exact H.
  - cbn [release_loop]. destruct ((v_time v <=? t) && negb (v_released v)); [|apply IH; exact H].
    bind_step same_send as s1 s1' H1.
    assert (state_same
      (with_vqs s1 (map (fun x => if N.eqb (v_auction x) (v_auction v) && (v_time x =? v_time v)
                                  then set_v_released x true else x) (st_vqs s1)))
      (with_vqs s1' (map (fun x => if N.eqb (v_auction x) (v_auction v) && (v_time x =? v_time v)
                                   then set_v_released x true else x) (st_vqs s1')))) as H2.
    { apply same_map_vqs; [exact H1|]. intros x.
      destruct (N.eqb (v_auction x) (v_auction v) && (v_time x =? v_time v)); reflexivity. }
    apply IH. destruct rest; [apply same_put_auction|]; exact H2.
Qed.

Lemma same_process t orc s s' a : state_same s s' -> res_same (process t orc s a) (process t orc s' a).
Proof.
  intros H. unfold process. destruct (a_status a).
  - destruct (a_start a <=? t); [apply same_put_auction|]; exact H.
  - destruct (last_end a <=? t); [|exact H].
    destruct (a_type a); [apply same_close_fixed|apply same_close_batch]; exact H.
  - rewrite (ss_vqs_of _ _ H). apply same_release_loop. exact H.
  - exact H.
  - exact H.
Qed.

Lemma same_process_all t orc l : forall s s', state_same s s' ->
  res_same (process_all t orc s l) (process_all t orc s' l).
Proof.
  induction l as [|a rest IH]; intros s s' H.
  - exact H.
  - cbn [process_all]. apply (bind_rel state_same); [apply same_process; exact H|].
    intros s1 s1' H1. apply IH. exact H1.
Qed.

Lemma same_begin_block s s' t orc : state_same s s' -> res_same (begin_block s t orc) (begin_block s' t orc).
Proof.
  intros H. unfold begin_block. pose proof (same_with_now _ _ H t) as Hn.
  rewrite (ss_auctions _ _ Hn). apply same_process_all. exact Hn.
Qed.

(* ------------------------------------------------------------------ every operation *)
Theorem step_congr_nogen s s' o : o <> OGenesis -> state_same s s' -> out_same (step s o) (step s' o).
Proof.
  intros Ho H. destruct o as [m|a l|a u max|t orc|t orc k|from to d amt|ls|]; cbn [step].
  - apply same_deliver_tx. exact H.
  - apply same_commit; [exact H|apply same_api_add; exact H].
  - apply same_commit; [exact H|apply same_api_update; exact H].
  - pose proof (same_begin_block s s' t orc H) as Hb.
    destruct (begin_block s t orc) as [x|c tr], (begin_block s' t orc) as [y|c' tr']; cbn in Hb; try contradiction.
    + split; [reflexivity|exact Hb].
    + destruct Hb as [-> ->]. split; [reflexivity|]. cbn [snd].
      apply same_with_trace. apply same_with_now. exact H.
  - pose proof (same_begin_block s s' t orc H) as Hb.
    destruct (begin_block s t orc) as [x|c tr], (begin_block s' t orc) as [y|c' tr']; cbn in Hb; try contradiction.
    + rewrite (ss_xfers _ _ Hb), (ss_xfers _ _ H).
      destruct (Nat.ltb k (length (st_xfers x) - length (st_xfers s))).
      * split; [reflexivity|]. cbn [snd]. apply same_with_now. exact H.
      * split; [reflexivity|exact Hb].
    + destruct Hb as [-> ->]. split; [reflexivity|]. cbn [snd].
      apply same_with_trace. apply same_with_now. exact H.
  - apply same_commit; [exact H|]. destruct (0 <? amt); [apply same_send|apply fail_rel]; exact H.
  - split; [reflexivity|]. cbn [snd]. apply same_with_listeners. exact H.
  - contradiction.
Qed.

Lemma op_eq_genesis o : o = OGenesis \/ o <> OGenesis.
Proof. destruct o; try (right; discriminate). left. reflexivity. Qed.

Theorem step_congr s s' o : Inv s -> state_same s s' -> out_same (step s o) (step s' o).
Proof.
  intros I H. destruct (op_eq_genesis o) as [E|E]; [|apply step_congr_nogen; assumption].
  subst o.
  destruct (genesis_step s I) as [s1 [E1 H1]].
  destruct (genesis_step s' (state_same_inv s s' H I)) as [s1' [E1' H1']].
  rewrite E1, E1'. split; [reflexivity|]. cbn [snd].
  apply (state_same_trans s1 s s1'); [apply state_same_sym; exact H1|].
  apply (state_same_trans s s' s1'); assumption.
Qed.

(* ------------------------------------------------------------------ histories *)
Fixpoint outcomes (s : state) (ops : list op) : list outcome :=
  match ops with
  | [] => []
  | o :: rest => fst (step s o) :: outcomes (snd (step s o)) rest
  end.

Lemma run_cons s o ops : run s (o :: ops) = run (snd (step s o)) ops.
Proof. reflexivity. Qed.

Theorem run_congr_nogen ops : forall s s', Forall (fun o => o <> OGenesis) ops -> state_same s s' ->
  outcomes s ops = outcomes s' ops /\ state_same (run s ops) (run s' ops).
Proof.
  induction ops as [|o rest IH]; intros s s' Hops H.
  - split; [reflexivity|exact H].
  - apply Forall_cons_iff in Hops. destruct Hops as [Ho Hrest].
    destruct (step_congr_nogen s s' o Ho H) as [Eo Hs].
    destruct (IH _ _ Hrest Hs) as [Eos Hrun].
    cbn [outcomes]. rewrite !run_cons. split; [|exact Hrun]. rewrite Eo, Eos. reflexivity.
Qed.

(* after GENESIS the state evolves as it would have without it: every later operation has the same outcome,
   and the states stay related (in particular every query answers the same, by run_query_same) *)
Theorem genesis_evolves s ops : Inv s -> Forall (fun o => o <> OGenesis) ops ->
  fst (step s OGenesis) = GenOk true
  /\ outcomes (snd (step s OGenesis)) ops = outcomes s ops
  /\ state_same (run s ops) (run (snd (step s OGenesis)) ops).
Proof.
  intros I Hops. destruct (genesis_step s I) as [s1 [E1 H1]]. rewrite E1. cbn [fst snd].
  split; [reflexivity|].
  destruct (run_congr_nogen ops s s1 Hops H1) as [Eo Hr]. split; [symmetry; exact Eo|exact Hr].
Qed.
