(* C01, exact form: the excess equation for every transaction, API call and plain send.
   The skeletons follow Proofs/EscrowTx.v, with the equation instead of the inequality. *)
From Coq Require Import ZArith NArith List Bool Arith Lia.
From FR Require Import Dec Types Bank Match Step Genesis Model Spec.
From FR.Proofs Require Import InvDefs FrameFacts TxFacts InvStaticBase.
From FR.Proofs Require PrecondBase DecFacts.
From FR.Proofs Require Import EscrowBase EscrowTx ExcessDefs.
Import ListNotations.
Open Scope Z_scope.

Lemma esc_neq_user r j u : addr_eqb (Escrow r j) (User u) = false. Proof. reflexivity. Qed.
Lemma esc_eqb r j q k : addr_eqb (Escrow r j) (Escrow q k) = role_eqb r q && N.eqb j k. Proof. reflexivity. Qed.

(* ------------------------------------------------------------------ create *)
Lemma created_excess s s' a u cs sd samt :
  Inv s -> a_id a = st_aseq s -> a_sell_denom a = sd -> a_sell_amt a = samt ->
  is_open (a_status a) = true -> a_status a <> VestingS ->
  (exists s1 s2 tr tr',
      send_coins (with_aseq s (st_aseq s + 1)%N) (User u) Pool cs = Ok s1 /\
      send s1 (User u) (Escrow Selling (st_aseq s)) sd samt = Ok s2 /\
      s' = with_trace (with_auctions (with_trace s2 tr) (st_auctions s2 ++ [a])) tr') ->
  exc_rel s s'.
Proof.
  intros I Hid Hsd Hamt Hopen Hnv (s1 & s2 & tr & tr' & H1 & H2 & ->).
  destruct (send_coins_pool _ _ _ _ H1) as (B1 & E1 & b1 & xs1 & S1).
  destruct (send_ok _ _ _ _ _ _ H2) as (_ & _ & Hbal2 & b2 & xs2 & S2).
  assert (Hauc : st_auctions s2 = st_auctions s) by (subst s2 s1; reflexivity).
  assert (Hbids : st_bids s2 = st_bids s) by (subst s2 s1; reflexivity).
  assert (Hvqs : st_vqs s2 = st_vqs s) by (subst s2 s1; reflexivity).
  set (id := st_aseq s) in *.
  assert (Hfresh : find_auction s id = None).
  { apply ids_ok_fresh; [apply ids_seq_ids_ok, (inv_ids _ I)|unfold id; lia]. }
  assert (Hnob : bids_of s id = [] /\ vqs_of s id = []).
  { destruct (inv_fresh _ I) as [F _]. destruct (F id ltac:(unfold id; lia)) as (_ & F1 & _ & F2 & _). now split. }
  destruct Hnob as [Hnob Hnov].
  set (sF := with_trace (with_auctions (with_trace s2 tr) (st_auctions s2 ++ [a])) tr').
  assert (Hfind : forall j, find_auction sF j
                            = match find_auction s j with Some x => Some x | None => if N.eqb (a_id a) j then Some a else None end).
  { intros j. apply find_auction_conv_app. unfold sF. cbn. now rewrite Hauc. }
  assert (HB : forall r j d, st_bal sF (Escrow r j) d
                 = st_bal s (Escrow r j) d + ind (role_eqb r Selling && N.eqb j id && N.eqb d sd) samt).
  { intros r j d. unfold sF. cbn [st_bal with_trace with_auctions]. rewrite Hbal2, esc_neq_user, esc_eqb, E1.
    cbn [andb ind st_bal with_aseq]. lia. }
  assert (HbF : forall j, bids_of sF j = bids_of s j) by (intros j; unfold bids_of, sF; cbn; now rewrite Hbids).
  assert (HvF : forall j, vqs_of sF j = vqs_of s j) by (intros j; unfold vqs_of, sF; cbn; now rewrite Hvqs).
  intros r j d. fold sF. unfold excess. rewrite HB.
  destruct (find_auction s j) as [x|] eqn:Fj.
  - assert (Hj : N.eqb j id = false) by (apply N.eqb_neq; intros ->; congruence).
    rewrite Hj, andb_false_r. cbn [andb ind].
    rewrite sweepsP_same by (rewrite Hfind, Fj; reflexivity).
    unfold owed. rewrite Hfind, Fj, HbF, HvF. lia.
  - rewrite (sweepsP_none _ _ _ _ _ Fj), (owed_none _ _ _ _ Fj).
    destruct (N.eqb (a_id a) j) eqn:Ej.
    + apply N.eqb_eq in Ej. rewrite Hid in Ej. fold id in Ej. subst j.
      rewrite (owed_some sF r id d a) by (rewrite Hfind, Fj, Hid; fold id; now rewrite N.eqb_refl).
      rewrite HbF, HvF, Hnob, Hnov, N.eqb_refl, andb_true_r, Hsd, Hamt, Hopen. cbn [map filter].
      change (sumZ []) with 0.
      destruct r; cbn [role_eqb andb ind].
      * rewrite andb_true_r. destruct (N.eqb d sd); cbn [ind]; lia.
      * destruct (_ && _); lia.
      * destruct (_ && _); lia.
    + assert (Hj : N.eqb j id = false).
      { apply N.eqb_neq. intros ->. apply N.eqb_neq in Ej. apply Ej. exact Hid. }
      rewrite Hj, andb_false_r. cbn [andb ind].
      rewrite (owed_none sF) by (rewrite Hfind, Fj, Ej; reflexivity). lia.
Qed.

Lemma create_fixed_excess s u up price sd samt pd vs start end_ s' :
  Inv s -> create_fixed s u up price sd samt pd vs start end_ = Ok s' -> exc_rel s s'.
Proof.
  intros I H. unfold create_fixed in H. cbv zeta in H.
  inv_step H; [inv_step H|]. inv_step H; [inv_step H|].
  apply bind_inv in H. destruct H as [s1 [H1 H]]. unfold fund_pool in H1. cbn [st_params with_aseq] in H1.
  apply bind_inv in H. destruct H as [s2 [H2 H]].
  apply bind_inv in H. destruct H as [s3 [H3 H]]. apply call_hook_fields in H3. destruct H3 as [tr ->].
  apply bind_inv in H. destruct H as [s4 [H4 H]]. apply call_hook_fields in H4. destruct H4 as [tr' ->].
  injection H as <-.
  eapply (created_excess s _ _ u (p_cfee (st_params s)) sd samt I); cycle 5.
  - exists s1, s2, tr, tr'. split; [exact H1|]. split; [exact H2|]. cbn [st_auctions with_trace]. reflexivity.
  - reflexivity.
  - reflexivity.
  - reflexivity.
  - cbn. destruct (start <=? st_now s2); reflexivity.
  - cbn. destruct (start <=? st_now s2); discriminate.
Qed.

Lemma create_batch_excess s u up price minp sd samt pd vs maxr rate start end_ s' :
  Inv s -> create_batch s u up price minp sd samt pd vs maxr rate start end_ = Ok s' -> exc_rel s s'.
Proof.
  intros I H. unfold create_batch in H. cbv zeta in H.
  inv_step H; [inv_step H|]. inv_step H; [inv_step H|]. inv_step H; [inv_step H|].
  apply bind_inv in H. destruct H as [s1 [H1 H]]. unfold fund_pool in H1. cbn [st_params with_aseq] in H1.
  apply bind_inv in H. destruct H as [s2 [H2 H]].
  apply bind_inv in H. destruct H as [s3 [H3 H]]. apply call_hook_fields in H3. destruct H3 as [tr ->].
  apply bind_inv in H. destruct H as [s4 [H4 H]]. apply call_hook_fields in H4. destruct H4 as [tr' ->].
  injection H as <-.
  eapply (created_excess s _ _ u (p_cfee (st_params s)) sd samt I); cycle 5.
  - exists s1, s2, tr, tr'. split; [exact H1|]. split; [exact H2|]. cbn [st_auctions with_trace]. reflexivity.
  - reflexivity.
  - reflexivity.
  - reflexivity.
  - cbn. destruct (start <=? st_now s2); reflexivity.
  - cbn. destruct (start <=? st_now s2); discriminate.
Qed.

(* ------------------------------------------------------------------ cancel *)
Lemma cancel_excess s u up id s' : Inv s -> cancel s u up id = Ok s' -> exc_rel s s'.
Proof.
  intros I H. pose proof H as H0. unfold cancel in H.
  destruct (find_auction s id) as [a|] eqn:Fa; [|discriminate].
  inv_step H; [inv_step H|]. inv_step H; [inv_step H|].
  apply bind_inv in H. destruct H as [s1 [H1 H]].
  apply bind_inv in H. destruct H as [s2 [H2 H]]. apply call_hook_fields in H2. destruct H2 as [tr ->].
  injection H as <-.
  apply negb_false_iff in E0. apply status_eqb_eq in E0.
  destruct (find_auction_id _ _ _ Fa) as [Hid Hin]. subst id.
  destruct (send_ok _ _ _ _ _ _ H1) as (_ & _ & Hbal1 & b1 & xs1 & S1).
  set (a' := set_status match a_type a with FixedPrice => set_remaining a 0 | Batch => a end Cancelled).
  assert (Hida : a_id a' = a_id a) by (unfold a'; destruct (a_type a); reflexivity).
  assert (F : frame (a_id a) s (put_auction (with_trace s1 tr) a')).
  { pose proof (tx_frame_of s (OTx (MCancel (AGood up u) (a_id a))) (a_id a) eq_refl ltac:(discriminate) eq_refl) as F.
    cbn [step deliver_tx check_basic commit handle] in F. rewrite H0 in F. exact F. }
  assert (Hfind : find_auction (put_auction (with_trace s1 tr) a') (a_id a) = Some a').
  { rewrite <- Hida. apply (find_auction_put_same _ a' a). rewrite Hida. subst s1. exact Fa. }
  assert (Hst : a_status a' = Cancelled) by (unfold a'; destruct (a_type a); reflexivity).
  apply (exc_rel_by_frame (a_id a) _ _ F). intros r d.
  rewrite (sweepsP_some _ _ r (a_id a) d a a' Fa Hfind), Hst, E0.
  unfold excess. rewrite (owed_some _ r (a_id a) d a' Hfind), (owed_some _ r (a_id a) d a Fa), Hst, E0.
  cbn [st_bal put_auction with_auctions with_trace]. rewrite Hbal1, esc_neq_user, esc_eqb, N.eqb_refl.
  cbn [is_open status_eqb orb negb andb ind]. rewrite !andb_false_r, !andb_true_r.
  destruct r; cbn [role_eqb andb ind]; [|lia|lia].
  destruct (N.eqb d (a_sell_denom a)) eqn:Ed; cbn [ind]; [|lia].
  apply N.eqb_eq in Ed. subst d. lia.
Qed.

(* ------------------------------------------------------------------ place_bid *)
Lemma place_bid_excess s u id bt price d amt s' :
  Inv s -> place_bid s u id bt price d amt = Ok s' -> exc_rel s s'.
Proof.
  intros I H. pose proof (place_bid_frame _ _ _ _ _ _ _ _ H) as F. unfold place_bid in H.
  destruct (find_auction s id) as [a|] eqn:Fa; [|discriminate].
  inv_step H; [inv_step H|]. inv_step H; [inv_step H|].
  destruct (find_allowed s id u) as [al|] eqn:Fal; [|discriminate].
  apply bind_inv in H. destruct H as [s1 [H1 H]]. unfold fund_pool in H1.
  cbv zeta in H.
  apply bind_inv in H. destruct H as [[s2 b] [H2 H]]. cbv beta iota in H.
  apply bind_inv in H. destruct H as [s3 [H3 H]]. apply call_hook_fields in H3. destruct H3 as [tr ->].
  injection H as <-.
  apply negb_false_iff in E. apply status_eqb_eq in E.
  destruct (find_auction_id _ _ _ Fa) as [Hid Hin]. subst id.
  destruct (send_coins_pool _ _ _ _ H1) as (B1 & E1 & b1 & xs1 & S1).
  set (b0 := {| b_auction := a_id a; b_id := (st_bseq s1 (a_id a) + 1)%N; b_bidder := u; b_type := bt; b_price := price;
                b_denom := d; b_amt := amt; b_matched := false |}) in *.
  set (s1' := with_bseq s1 (upd (st_bseq s1) (a_id a) (st_bseq s1 (a_id a) + 1)%N)) in *.
  set (pd := a_pay_denom a) in *.
  (* the common outcome of the three branches *)
  assert (Hcore : exists s4,
             send s1' (User u) (Escrow Paying (a_id a)) pd (pay_amount pd b0) = Ok s4 /\
             pay_amount pd b = pay_amount pd b0 /\ b_auction b = a_id a /\
             ((s2 = put_auction s4 (set_remaining a (a_remaining a - sell_amount pd b0)))
              \/ (s2 = s4))).
  { destruct bt.
    - apply bind_inv in H2. destruct H2 as [[] [Hv H2]]. apply bind_inv in H2. destruct H2 as [s4 [H4 H2]].
      injection H2 as <- <-. exists s4. split; [exact H4|]. repeat split.
      left. reflexivity.
    - apply bind_inv in H2. destruct H2 as [[] [Hv H2]]. apply bind_inv in H2. destruct H2 as [s4 [H4 H2]].
      injection H2 as <- <-. unfold validate_batch_bid in Hv.
      destruct (negb (atype_eqb (a_type a) Batch)) eqn:Et; [discriminate|].
      destruct (negb (N.eqb (b_denom b0) pd)) eqn:Ed; [discriminate|].
      apply negb_false_iff in Ed. apply N.eqb_eq in Ed. cbn [b_denom b0] in Ed.
      exists s4. split.
      + unfold pay_amount. cbn [b_denom b_amt b0]. rewrite Ed, N.eqb_refl. rewrite <- Ed. exact H4.
      + repeat split. right. reflexivity.
    - apply bind_inv in H2. destruct H2 as [[] [Hv H2]]. apply bind_inv in H2. destruct H2 as [s4 [H4 H2]].
      injection H2 as <- <-.
      exists s4. split; [exact H4|]. repeat split. right. reflexivity. }
  destruct Hcore as (s4 & H4 & Hpay & Hba & Hs2). clear H2.
  destruct (send_ok _ _ _ _ _ _ H4) as (Hpos4 & _ & Hbal4 & b4 & xs4 & S4).
  (* the final state *)
  remember (with_bids (with_trace s2 tr) (st_bids s2 ++ [b])) as sF eqn:EsF.
  assert (Hbal : st_bal sF = st_bal s4) by (subst sF; destruct Hs2 as [->| ->]; reflexivity).
  assert (Hbids : st_bids sF = st_bids s ++ [b]).
  { subst sF. cbn [st_bids with_bids]. f_equal. destruct Hs2 as [->| ->]; subst s4 s1' s1; reflexivity. }
  assert (Hvqs : st_vqs sF = st_vqs s) by (subst sF; destruct Hs2 as [->| ->]; subst s4 s1' s1; reflexivity).
  assert (Hbo : bids_of sF (a_id a) = bids_of s (a_id a) ++ [b]).
  { unfold bids_of. rewrite Hbids, filter_app. cbn [filter]. rewrite Hba, N.eqb_refl. reflexivity. }
  assert (Hvo : vqs_of sF (a_id a) = vqs_of s (a_id a)) by (unfold vqs_of; now rewrite Hvqs).
  (* the auction record afterwards *)
  assert (Hfa : exists a', find_auction sF (a_id a) = Some a' /\ a_status a' = Started /\ a_sell_denom a' = a_sell_denom a
                 /\ a_sell_amt a' = a_sell_amt a /\ a_pay_denom a' = pd).
  { destruct Hs2 as [->| ->].
    - exists (set_remaining a (a_remaining a - sell_amount pd b0)). split.
      + subst sF. unfold find_auction. cbn [st_auctions with_bids with_trace].
        change (find_auction (put_auction s4 (set_remaining a (a_remaining a - sell_amount pd b0))) (a_id a) = Some (set_remaining a (a_remaining a - sell_amount pd b0))).
        apply (find_auction_put_same s4 (set_remaining a (a_remaining a - sell_amount pd b0)) a).
        subst s4 s1' s1. exact Fa.
      + cbn. repeat split; auto.
    - exists a. split.
      + subst sF. unfold find_auction. cbn [st_auctions with_bids with_trace]. subst s4 s1' s1. exact Fa.
      + repeat split; auto. }
  destruct Hfa as (a' & Fa' & Hst' & Hsd' & Hsa' & Hpd').
  (* balances of the auction's escrows *)
  assert (HbalP : forall r d', st_bal sF (Escrow r (a_id a)) d'
                    = st_bal s (Escrow r (a_id a)) d' + ind (role_eqb r Paying && N.eqb d' pd) (pay_amount pd b0)).
  { intros r d'. pose proof (f_equal (fun f => f (Escrow r (a_id a)) d') Hbal) as HH. cbv beta in HH. rewrite HH. clear HH. rewrite Hbal4. cbn [addr_eqb]. unfold s1'. cbn [st_bal with_bseq]. rewrite E1. subst s1. cbn [st_bal with_bank].
    cbn. rewrite N.eqb_refl, andb_true_r. unfold ind. destruct (role_eqb r Paying && N.eqb d' pd); lia. }
  apply (exc_rel_by_frame (a_id a) _ _ F). intros r d'.
  rewrite (sweepsP_some _ _ r (a_id a) d' a a' Fa Fa'), Hst', E.
  unfold excess. rewrite HbalP, (owed_some _ r (a_id a) d' a' Fa'), (owed_some _ r (a_id a) d' a Fa).
  rewrite Hbo, Hvo, Hst', Hsd', Hsa', Hpd', E. fold pd.
  cbn [is_open status_eqb orb negb andb]. rewrite !andb_false_r.
  destruct r; cbn [role_eqb andb ind]; [lia| |lia].
  rewrite !andb_true_r. destruct (N.eqb d' pd); cbn [ind]; [|lia].
  rewrite pay_amount_sum_app, Hpay. lia.
Qed.

(* ------------------------------------------------------------------ modify_bid *)
Lemma modify_bid_excess s u id bid_id price d amt s' :
  Inv s -> modify_bid s u id bid_id price d amt = Ok s' -> exc_rel s s'.
Proof.
  intros I H. pose proof (modify_bid_frame _ _ _ _ _ _ _ _ H) as F. unfold modify_bid in H.
  destruct (find_auction s id) as [a|] eqn:Fa; [|discriminate].
  inv_step H; [inv_step H|]. inv_step H; [inv_step H|].
  destruct (find_bid s id bid_id) as [b|] eqn:Fb; [|discriminate].
  inv_step H; [inv_step H|]. inv_step H; [inv_step H|]. inv_step H; [inv_step H|].
  inv_step H; [inv_step H|]. inv_step H; [inv_step H|].
  apply negb_false_iff in E, E0, E1, E3. apply status_eqb_eq in E. apply atype_eqb_eq in E0.
  apply N.eqb_eq in E1, E3.
  apply orb_false_iff in E4. destruct E4 as [Ep Eam]. apply Z.ltb_ge in Ep, Eam.
  destruct (find_auction_id _ _ _ Fa) as [Hid Hin]. subst id.
  destruct (find_bid_some _ _ _ _ Fb) as (Hbin & Hba & Hbi).
  set (pd := a_pay_denom a) in *.
  (* the bid is well formed for a batch auction *)
  destruct (inv_bids _ I) as [Hbw Hbids].
  rewrite Forall_forall in Hbw. pose proof (Hbw b Hbin) as Wb. destruct Wb as [Wp Wa _ (a0 & Fa0 & Wty & _)].
  rewrite Hba, Fa in Fa0. injection Fa0 as <-. rewrite E0 in Wty. destruct Wty as [Wty Wmin].
  set (b' := set_b_terms b price amt) in *.
  assert (Hcommon : forall dd diff args, dd = pd -> diff = pay_amount pd b' - pay_amount pd b -> 0 <= diff ->
            (do s0 <- (if 0 <? diff then send s (User u) (Escrow Paying (a_id a)) dd diff else Ok s);
             do s1 <- call_hook s0 H_BeforeBidModified args;
             Ok (put_bid s1 b')) = Ok s' -> exc_rel s s').
  { clear H. intros dd diff args Hdd Hdiffv Hdpos H.
    apply bind_inv in H. destruct H as [s1 [H1 H]].
    apply bind_inv in H. destruct H as [s2 [H2 H]]. apply call_hook_fields in H2. destruct H2 as [tr ->].
    injection H as <-.
    (* the optional send *)
    assert (Hs1 : (forall r d', st_bal s1 (Escrow r (a_id a)) d' =
                   st_bal s (Escrow r (a_id a)) d' + ind (role_eqb r Paying && N.eqb d' pd) diff)
                  /\ exists bb xs, s1 = with_bank s bb xs).
    { destruct (0 <? diff) eqn:Ep0.
      - destruct (send_ok _ _ _ _ _ _ H1) as (_ & _ & Hbal1 & b1 & xs1 & S1). split; [|eauto].
        intros r d'. rewrite Hbal1. cbn [addr_eqb]. rewrite N.eqb_refl, andb_true_r, Hdd. unfold ind.
        cbn [andb]. destruct (role_eqb r Paying && N.eqb d' pd); cbv beta iota; lia.
      - injection H1 as <-. apply Z.ltb_ge in Ep0. assert (diff = 0) by lia. split.
        + intros r d'. unfold ind. destruct (role_eqb r Paying && N.eqb d' pd); lia.
        + exists (st_bal s), (st_xfers s). destruct s; reflexivity. }
    destruct Hs1 as (Hbal1 & bb & xs & S1).
    remember (put_bid (with_trace s1 tr) b') as sF eqn:EsF.
    assert (Hb'a : b_auction b' = a_id a) by exact Hba.
    assert (HbF : st_bal sF = st_bal s1) by (subst sF; reflexivity).
    assert (Hauc : st_auctions sF = st_auctions s) by (subst sF s1; reflexivity).
    assert (Hbo : bids_of sF (a_id a) = map (fun x => if N.eqb (b_id x) (b_id b') then b' else x) (bids_of s (a_id a))).
    { subst sF. rewrite (bids_of_put_bid _ b' (a_id a) Hb'a). subst s1. reflexivity. }
    assert (Hvo : vqs_of sF (a_id a) = vqs_of s (a_id a)) by (subst sF s1; reflexivity).
    assert (FaF : find_auction sF (a_id a) = Some a) by (unfold find_auction; rewrite Hauc; exact Fa).
    assert (Hinb : In b (bids_of s (a_id a))).
    { unfold bids_of. apply filter_In. split; [exact Hbin|]. rewrite Hba. apply N.eqb_refl. }
    assert (Hnd : NoDup (map b_id (bids_of s (a_id a)))) by (rewrite Hbids; apply NoDup_succ_upto).
    apply (exc_rel_by_frame (a_id a) _ _ F). intros r d'.
    rewrite sweepsP_same by (rewrite FaF, Fa; reflexivity).
    unfold excess. pose proof (f_equal (fun f => f (Escrow r (a_id a)) d') HbF) as HH. cbv beta in HH. rewrite HH, Hbal1.
    rewrite (owed_some _ r (a_id a) d' a FaF), (owed_some _ r (a_id a) d' a Fa), Hbo, Hvo, E. fold pd.
    destruct r; cbn [role_eqb andb ind]; [lia| |lia].
    cbn [status_eqb]. rewrite !andb_true_r. destruct (N.eqb d' pd); cbn [ind]; [|lia].
    change (b_id b') with (b_id b). rewrite (sum_replace (pay_amount pd) b b' _ Hnd Hinb). lia. }
  destruct Wty as [[Wt Wd]|[Wt Wd]]; rewrite Wt in H; cbv beta iota zeta in H.
  - eapply (Hcommon d (amt - b_amt b)); [unfold pd; congruence| |lia|exact H].
    unfold pay_amount, b'. cbn [b_denom set_b_terms b_amt]. fold pd in Wd. rewrite Wd, N.eqb_refl. reflexivity.
  - eapply (Hcommon pd (pay_of_qty amt price - pay_of_qty (b_amt b) (b_price b))); [reflexivity| | |exact H].
    + unfold pay_amount, b'. cbn [b_denom set_b_terms b_amt b_price].
      assert (Hne : N.eqb (b_denom b) pd = false).
      { apply N.eqb_neq. rewrite Wd. pose proof (inv_auctions _ I) as Aw. unfold auctions_wf in Aw. rewrite Forall_forall in Aw.
        apply (awf_denoms _ (Aw a Hin)). }
      rewrite Hne. reflexivity.
    + pose proof (DecFacts.pay_of_qty_mono (b_amt b) amt (b_price b) price ltac:(lia) ltac:(lia)). lia.
Qed.

(* ------------------------------------------------------------------ operations that move no coins of the module *)
Lemma api_add_excess s id l s' : api_add s id l = Ok s' -> exc_rel s s'.
Proof.
  intros H. unfold api_add in H. destruct l as [|e r]; [discriminate|].
  destruct (find_auction s id) as [a|]; [|discriminate].
  apply bind_inv in H. destruct H as [s1 [H1 H]]. apply call_hook_fields in H1. destruct H1 as [tr ->].
  apply add_entries_fields in H. destruct H as (H1 & H2 & H3 & H4).
  apply exc_rel_ext; assumption.
Qed.

Lemma api_update_excess s id u max s' : api_update s id u max = Ok s' -> exc_rel s s'.
Proof.
  intros H. unfold api_update in H. destruct (find_auction s id) as [a|]; [|discriminate].
  destruct (find_allowed s id u) eqn:Fal; [|discriminate]. destruct (check_pos max) as [m|]; [|discriminate].
  apply bind_inv in H. destruct H as [s1 [H1 H]]. apply call_hook_fields in H1. destruct H1 as [tr ->].
  injection H as <-.
  apply exc_rel_ext; unfold put_allowed; destruct (find_allowed (with_trace s tr) id u); reflexivity.
Qed.

Lemma update_params_excess s auth cfee bfee period s' :
  update_params s auth cfee bfee period = Ok s' -> exc_rel s s'.
Proof.
  intros H. apply update_params_inv in H. destruct H as [p ->]. apply exc_rel_ext; reflexivity.
Qed.

Lemma handle_excess s c s' : Inv s -> handle s c = Ok s' -> exc_rel s s'.
Proof.
  intros I H. destruct c; cbn [handle] in H.
  - eapply create_fixed_excess; eassumption.
  - eapply create_batch_excess; eassumption.
  - eapply cancel_excess; eassumption.
  - eapply place_bid_excess; eassumption.
  - eapply modify_bid_excess; eassumption.
  - destruct (st_switch s); [|discriminate]. eapply api_add_excess; eassumption.
  - eapply update_params_excess; eassumption.
Qed.

(* a plain send by a user: the receiving escrow's excess grows by the amount *)
Lemma user_send_excess s from to d amt s' :
  send s (User from) to d amt = Ok s' ->
  forall r id d', excess s' r id d'
    = excess s r id d' + (if addr_eqb to (Escrow r id) && N.eqb d' d then amt else 0).
Proof.
  intros H r id d'. destruct (send_ok _ _ _ _ _ _ H) as (_ & _ & Hbal & b & xs & S).
  unfold excess. rewrite Hbal, esc_neq_user. subst s'. rewrite owed_with_bank.
  assert (E : addr_eqb (Escrow r id) to = addr_eqb to (Escrow r id)).
  { destruct (addr_eqb to (Escrow r id)) eqn:E1.
    - apply addr_eqb_eq in E1. subst to. apply addr_eqb_refl.
    - apply addr_eqb_neq. apply addr_eqb_neq in E1. congruence. }
  rewrite E. cbn [andb ind]. unfold ind. lia.
Qed.

(* ------------------------------------------------------------------ every step that is not a block *)
Definition exc_step (s : state) (o : op) : Prop :=
  forall r id d,
    excess (snd (step s o)) r id d
    = if sweepsP s (snd (step s o)) r id d then 0 else excess s r id d + donation o (fst (step s o)) r id d.

Lemma exc_step_of_rel s o :
  (forall out, donation o out = fun _ _ _ => 0) -> exc_rel s (snd (step s o)) -> exc_step s o.
Proof. intros Hd H r id d. rewrite Hd, Z.add_0_r. apply H. Qed.

Theorem excess_step_tx s o : Inv s -> is_block o = false -> o <> OGenesis -> exc_step s o.
Proof.
  intros I Hb Hg. destruct o; try discriminate.
  - apply exc_step_of_rel; [reflexivity|]. cbn [step]. unfold deliver_tx.
    destruct (check_basic m) as [c|] eqn:Ec.
    + destruct (handle s c) as [s'|code tr] eqn:Eh; cbn [commit snd].
      * eapply handle_excess; eassumption.
      * apply exc_rel_ext; reflexivity.
    + cbn [snd]. apply exc_rel_refl.
  - apply exc_step_of_rel; [reflexivity|]. cbn [step].
    destruct (api_add s a l) as [s'|code tr] eqn:Eh; cbn [commit snd].
    + eapply api_add_excess; eassumption.
    + apply exc_rel_ext; reflexivity.
  - apply exc_step_of_rel; [reflexivity|]. cbn [step].
    destruct (api_update s a bidder max) as [s'|code tr] eqn:Eh; cbn [commit snd].
    + eapply api_update_excess; eassumption.
    + apply exc_rel_ext; reflexivity.
  - intros r id d'. cbn [step]. destruct (0 <? amt).
    + destruct (send s (User from) to d amt) as [s'|code tr] eqn:Eh; cbn [commit snd fst donation].
      * destruct (send_ok _ _ _ _ _ _ Eh) as (_ & _ & _ & b & xs & S).
        rewrite sweepsP_same by (subst s'; reflexivity).
        apply (user_send_excess _ _ _ _ _ _ Eh).
      * rewrite sweepsP_same by reflexivity. rewrite Z.add_0_r. apply excess_ext; reflexivity.
    + cbn [fail commit snd fst donation]. rewrite sweepsP_same by reflexivity. rewrite Z.add_0_r.
      apply excess_ext; reflexivity.
  - apply exc_step_of_rel; [reflexivity|]. cbn [step snd]. apply exc_rel_ext; reflexivity.
  - congruence.
Qed.
