(* C02, part 5: terminal auctions.  Once an auction is Finished or Cancelled the module's records owe nothing
   out of any of its three escrow accounts, and every vesting instalment of it has been released (a cancelled
   auction has no instalments and no bids at all).  No axioms. *)
From Coq Require Import ZArith NArith List Bool Arith Lia.
From FR Require Import Dec Types Bank Match Step Genesis Model Spec Checkers.
From FR.Proofs Require Import InvDefs.
From FR.Proofs Require InvAll EscrowBlock.
Import ListNotations.
Open Scope Z_scope.

Lemma owed_defs_agree s r id d : Checkers.owed s r id d = InvDefs.owed s r id d.
Proof. reflexivity. Qed.

Theorem terminal_auctions s a :
  Inv s -> In a (st_auctions s) -> a_status a = Finished \/ a_status a = Cancelled ->
  (forall r d, InvDefs.owed s r (a_id a) d = 0)
  /\ (forall v, In v (vqs_of s (a_id a)) -> v_released v = true)
  /\ (a_status a = Cancelled -> vqs_of s (a_id a) = [] /\ bids_of s (a_id a) = []).
Proof.
  intros I Ha Hst. pose proof (InvAll.Inv_find_in s a I Ha) as Fa.
  assert (Hv : forall v, In v (vqs_of s (a_id a)) ->
            (a_status a = VestingS \/ a_status a = Finished) /\ (a_status a = Finished -> v_released v = true)).
  { intros v Hv. apply EscrowBlock.in_vqs_of in Hv. destruct Hv as [Hv Eid].
    destruct (inv_vqs _ I) as [W _]. rewrite Forall_forall in W.
    destruct (vwf_auction _ _ (W v Hv)) as (a0 & Fa0 & Hs & _ & _ & _ & Hrel).
    rewrite Eid, Fa in Fa0. injection Fa0 as <-. split; assumption. }
  split; [|split].
  - intros r d. unfold InvDefs.owed. rewrite Fa.
    destruct r; destruct Hst as [E|E]; rewrite E; cbn [InvDefs.is_open status_eqb orb]; rewrite ?andb_false_r; reflexivity.
  - intros v Hin. destruct (Hv v Hin) as [Hs Hrel]. destruct Hst as [E|E]; [apply Hrel, E|].
    rewrite E in Hs. destruct Hs; discriminate.
  - intros E. split.
    + destruct (vqs_of s (a_id a)) as [|v r] eqn:Ev; [reflexivity|]. exfalso.
      destruct (Hv v) as [Hs _]; [now left|]. rewrite E in Hs. destruct Hs; discriminate.
    + destruct (inv_fresh _ I) as [_ Hf]. apply Hf; [exact Ha|now right].
Qed.

(* the same for the monitor's copy of `owed`: the excess of Checkers.c01_ok is the whole balance *)
Corollary terminal_excess s a r d :
  Inv s -> In a (st_auctions s) -> a_status a = Finished \/ a_status a = Cancelled ->
  Checkers.owed s r (a_id a) d = 0 /\ excess s r (a_id a) d = st_bal s (Escrow r (a_id a)) d.
Proof.
  intros I Ha Hst. destruct (terminal_auctions s a I Ha Hst) as (H0 & _).
  unfold excess. rewrite owed_defs_agree, H0. split; [reflexivity|lia].
Qed.
