(* Checker link for C09: the executable monitor Checkers.c09_ok holds of every transition the model makes from a
   state satisfying the invariant.
   Part 1 (shared with Chk16): where in a block each auction is processed, and which transfers of the block can
   come out of the escrow accounts of a given auction (only those of its own processing step).
   Part 2: the settlement conjunct (instalments = weight shares of what went into the vesting escrow).
   Part 3: the release conjunct (exactly the due unreleased instalments are paid, once).
   No axioms. *)
From Coq Require Import ZArith NArith List Bool Arith Lia.
From FR Require Import Dec Types Bank Match Step Genesis Model Spec Checkers.
From FR.Proofs Require Import InvDefs EscrowBase FrameFacts BlockFacts VestingFacts HookBase Ledger LedgerCharges LedgerSettle.
From FR.Proofs Require TxFacts LifeTheorems DecFacts EscrowBlock InvStaticBlock InvAll VestingInv GenesisImport
     LedgerVesting LedgerChecker FixedFacts.
Import ListNotations.
Open Scope Z_scope.

(* ------------------------------------------------------------------ the transition without resetting the logs *)
Definition trans_of (s : state) (o : op) : trans :=
  let '(out, s') := step s o in
  {| t_pre := s; t_op := o; t_class := class_of out; t_xfers := st_xfers s'; t_trace := st_trace s';
     t_post := s';
     t_fault := match out, o with BlockErr c, OFaultBlock _ _ _ => N.eqb c E_FAULT | _, _ => false end;
     t_gen_valid := match out with GenOk v => v | _ => false end |}.

Lemma trans_of_fields s o :
  t_pre (trans_of s o) = s /\ t_op (trans_of s o) = o
  /\ t_class (trans_of s o) = class_of (fst (step s o))
  /\ t_xfers (trans_of s o) = st_xfers (snd (step s o))
  /\ t_post (trans_of s o) = snd (step s o).
Proof. unfold trans_of. destruct (step s o) as [out s']. repeat split. Qed.

Lemma ghost_reset_xfers s : st_xfers (FixedFacts.ghost_reset s) = [].
Proof. reflexivity. Qed.

(* ------------------------------------------------------------------ sources of the transfers of a block *)
Definition src_of (id : N) (x : xfer) : Prop := exists r, x_from x = Escrow r id.
Definition not_src (id : N) (x : xfer) : Prop := forall r, x_from x <> Escrow r id.

Lemma src_not_src id j x : j <> id -> src_of j x -> not_src id x.
Proof. intros Hne [r E] q C. rewrite E in C. injection C as _ C. contradiction. Qed.

Lemma Forall_src_not_src id j xs : j <> id -> Forall (src_of j) xs -> Forall (not_src id) xs.
Proof. intros Hne H. eapply Forall_impl; [|exact H]. intros x. apply src_not_src, Hne. Qed.

Lemma payouts_src r id d us f : Forall (src_of id) (payouts (Escrow r id) d us f).
Proof.
  unfold payouts. apply Forall_forall. intros x Hx. apply in_map_iff in Hx. destruct Hx as (u & <- & _).
  exists r. reflexivity.
Qed.
Lemma send_xf_src r id t d a : Forall (src_of id) (send_xf (Escrow r id) t d a).
Proof. apply Forall_send_xf. exists r. reflexivity. Qed.

Lemma settle_xfers_src s a mi wr : Forall (src_of (a_id a)) (settle_xfers s a mi wr).
Proof.
  unfold settle_xfers. repeat (apply Forall_app; split); try apply payouts_src; try apply send_xf_src.
  destruct wr; [apply payouts_src|constructor].
Qed.

Lemma rel_xfers_src a t vs : Forall (src_of (a_id a)) (rel_xfers a t vs).
Proof.
  apply Forall_forall. intros x Hx. destruct (rel_xfers_ends a t vs x Hx) as [E _]. exists Vesting. exact E.
Qed.

(* the transfers of one auction's processing step all leave that auction's own escrow accounts *)
Lemma process_src t orc s a s' :
  process t orc s a = Ok s' -> exists xs, st_xfers s' = st_xfers s ++ xs /\ Forall (src_of (a_id a)) xs.
Proof.
  intros H. unfold process in H. destruct (a_status a) eqn:St.
  - exists []. split; [|constructor]. rewrite app_nil_r. destruct (a_start a <=? t); injection H as <-; reflexivity.
  - destruct (last_end a <=? t).
    2:{ injection H as <-. exists []. split; [rewrite app_nil_r; reflexivity|constructor]. }
    destruct (a_type a).
    + rewrite EscrowBlock.close_fixed_gen in H. destruct (settle_gen_xfers _ _ _ _ _ H) as (L & _).
      eexists. split; [apply (lb_xfers _ _ _ L)|apply settle_xfers_src].
    + apply close_batch_inv in H. destruct H as (order & mi & _ & _ & Hd).
      destruct (decision s a mi).
      * subst s'. exists []. split; [rewrite app_nil_r; reflexivity|constructor].
      * rewrite EscrowBlock.settle_batch_gen in Hd. destruct (settle_gen_xfers _ _ _ _ _ Hd) as (L & _).
        eexists. split; [apply (lb_xfers _ _ _ L)|].
        apply (settle_xfers_src _ (set_matched_price a (mi_price mi))).
  - apply release_loop_spec in H. eexists. split; [apply (rs_xfers _ _ _ _ _ H)|apply rel_xfers_src].
  - injection H as <-. exists []. split; [rewrite app_nil_r; reflexivity|constructor].
  - injection H as <-. exists []. split; [rewrite app_nil_r; reflexivity|constructor].
Qed.

Lemma process_all_src t orc : forall l s s',
  process_all t orc s l = Ok s' ->
  exists xs, st_xfers s' = st_xfers s ++ xs /\ Forall (fun x => exists a, In a l /\ src_of (a_id a) x) xs.
Proof.
  induction l as [|a rest IH]; cbn [process_all]; intros s s' H.
  - injection H as <-. exists []. split; [rewrite app_nil_r; reflexivity|constructor].
  - destruct (process t orc s a) as [s1|] eqn:E; cbn [bind] in H; [|discriminate H].
    destruct (process_src _ _ _ _ _ E) as (xs1 & X1 & F1). destruct (IH _ _ H) as (xs2 & X2 & F2).
    exists (xs1 ++ xs2). split; [rewrite X2, X1, app_assoc; reflexivity|].
    apply Forall_app. split.
    + eapply Forall_impl; [|exact F1]. intros x Hx. exists a. split; [now left|exact Hx].
    + eapply Forall_impl; [|exact F2]. intros x (y & Hy & Hx). exists y. split; [now right|exact Hx].
Qed.

(* where in the walk over the snapshot the auction a is processed, with the transfers before, of, and after it *)
Lemma process_all_at2 t orc : forall l s s',
  Inv s -> NoDup (map a_id l) -> (forall a, In a l -> In a (st_auctions s)) ->
  process_all t orc s l = Ok s' ->
  forall a, In a l ->
  exists s1 s2 pre mid post, Inv s1 /\ In a (st_auctions s1) /\ slice_eq (a_id a) s s1 /\ st_params s1 = st_params s
    /\ process t orc s1 a = Ok s2 /\ slice_eq (a_id a) s2 s'
    /\ st_xfers s1 = st_xfers s ++ pre /\ st_xfers s2 = st_xfers s1 ++ mid /\ st_xfers s' = st_xfers s2 ++ post
    /\ Forall (not_src (a_id a)) pre /\ Forall (src_of (a_id a)) mid /\ Forall (not_src (a_id a)) post.
Proof.
  induction l as [|x rest IH]; cbn [process_all map]; intros s s' I ND Hl H a Ha; [destruct Ha|].
  inversion ND as [|? ? Hn ND']; subst.
  destruct (process t orc s x) as [sx|] eqn:E; cbn [bind] in H; [|discriminate H].
  assert (Hx : In x (st_auctions s)) by (apply Hl; now left).
  assert (Ix : Inv sx) by (eapply InvAll.Inv_process; eassumption).
  assert (Hl' : forall y, In y rest -> In y (st_auctions sx)).
  { intros y Hy. apply (InvStaticBlock.process_keeps t orc s x sx y (InvAll.Inv_InvS s I) Hx E); [apply Hl; now right|].
    intros C. apply Hn. rewrite <- C. apply in_map. exact Hy. }
  destruct (process_spec _ _ _ _ _ E) as [[P1 P2 P3 P4 P5] _].
  destruct (process_src _ _ _ _ _ E) as (xsx & Xx & Fx).
  destruct Ha as [<-|Ha].
  - destruct (process_all_src _ _ _ _ _ H) as (post & Xp & Fp).
    exists s, sx, [], xsx, post. split; [exact I|]. split; [exact Hx|]. split; [apply slice_eq_refl|]. split; [reflexivity|].
    split; [exact E|].
    destruct (process_all_spec t orc rest sx s' ND' H) as (I1 & _).
    split; [apply I1; exact Hn|]. split; [rewrite app_nil_r; reflexivity|]. split; [exact Xx|]. split; [exact Xp|].
    split; [constructor|]. split; [exact Fx|].
    eapply Forall_impl; [|exact Fp]. intros z (y & Hy & Hz). apply (src_not_src _ (a_id y)); [|exact Hz].
    intros C. apply Hn. rewrite <- C. apply in_map. exact Hy.
  - destruct (IH sx s' Ix ND' Hl' H a Ha) as (s1 & s2 & pre & mid & post & I1 & Hin1 & S1 & Ep & Hp & S2 & X1 & X2 & X3 & F1 & F2 & F3).
    assert (Hne : a_id a <> a_id x) by (intros C; apply Hn; rewrite <- C; apply in_map; exact Ha).
    exists s1, s2, (xsx ++ pre), mid, post. split; [exact I1|]. split; [exact Hin1|].
    split; [eapply slice_eq_trans; [apply P1; exact Hne|exact S1]|].
    split; [destruct P2 as (Epx & _); congruence|]. split; [exact Hp|]. split; [exact S2|].
    split; [rewrite X1, Xx, app_assoc; reflexivity|]. split; [exact X2|]. split; [exact X3|].
    split; [|split; assumption]. apply Forall_app. split; [|exact F1].
    apply (Forall_src_not_src _ (a_id x)); [congruence|exact Fx].
Qed.

Lemma block_at s t orc s' a :
  Inv s -> begin_block s t orc = Ok s' -> In a (st_auctions s) ->
  exists s1 s2 pre mid post, Inv s1 /\ In a (st_auctions s1) /\ slice_eq (a_id a) s s1 /\ st_params s1 = st_params s
    /\ process t orc s1 a = Ok s2 /\ slice_eq (a_id a) s2 s'
    /\ st_xfers s2 = st_xfers s1 ++ mid /\ st_xfers s' = st_xfers s ++ pre ++ mid ++ post
    /\ Forall (not_src (a_id a)) pre /\ Forall (src_of (a_id a)) mid /\ Forall (not_src (a_id a)) post.
Proof.
  intros I H Ha. unfold begin_block in H. cbv zeta in H.
  assert (I0 : Inv (with_now s t)) by (apply InvAll.Inv_with_now, I).
  assert (ND : NoDup (map a_id (st_auctions (with_now s t)))) by (destruct (InvAll.Inv_ids_ok s I) as [ND _]; exact ND).
  destruct (process_all_at2 t orc _ _ _ I0 ND (fun y Hy => Hy) H a Ha)
    as (s1 & s2 & pre & mid & post & I1 & Hin1 & S1 & Ep & Hp & S2 & X1 & X2 & X3 & F1 & F2 & F3).
  exists s1, s2, pre, mid, post. split; [exact I1|]. split; [exact Hin1|].
  split; [eapply slice_eq_trans; [|exact S1]; split; reflexivity|]. split; [exact Ep|]. split; [exact Hp|].
  split; [exact S2|]. split; [exact X2|]. split; [|split; [exact F1|split; assumption]].
  rewrite X3, X2, X1. cbn [st_xfers with_now]. rewrite <- !app_assoc. reflexivity.
Qed.

(* filters and sums that only see transfers out of the escrow accounts of auction id *)
Lemma filter_not_src id (p : xfer -> bool) xs :
  (forall x, p x = true -> src_of id x) -> Forall (not_src id) xs -> filter p xs = [].
Proof.
  intros Hp H. induction H as [|x xs Hx _ IH]; [reflexivity|]. cbn [filter].
  destruct (p x) eqn:E; [|exact IH]. exfalso. destruct (Hp x E) as [r C]. exact (Hx r C).
Qed.

Lemma filter_block id (p : xfer -> bool) xs0 pre mid post :
  (forall x, p x = true -> src_of id x) -> Forall (not_src id) pre -> Forall (not_src id) post ->
  filter p (xs0 ++ pre ++ mid ++ post) = filter p xs0 ++ filter p mid.
Proof.
  intros Hp F1 F3. rewrite !filter_app, (filter_not_src id p pre Hp F1), (filter_not_src id p post Hp F3), app_nil_r.
  reflexivity.
Qed.

Lemma sum_xfers_block id (p : xfer -> bool) xs0 pre mid post :
  (forall x, p x = true -> src_of id x) -> Forall (not_src id) pre -> Forall (not_src id) post ->
  sum_xfers (xs0 ++ pre ++ mid ++ post) p = sum_xfers xs0 p + sum_xfers mid p.
Proof. intros Hp F1 F3. unfold sum_xfers. rewrite (filter_block id p xs0 pre mid post Hp F1 F3), map_app, sumZ_app. reflexivity. Qed.

Lemma from_to_src r id g d x : from_to (Escrow r id) g d x = true -> src_of id x.
Proof.
  unfold from_to. intros H. apply andb_true_iff in H. destruct H as [H _]. apply andb_true_iff in H. destruct H as [H _].
  apply addr_eqb_eq in H. exists r. exact H.
Qed.
Lemma from_src r id x : addr_eqb (x_from x) (Escrow r id) = true -> src_of id x.
Proof. intros H. apply addr_eqb_eq in H. exists r. exact H. Qed.

(* ------------------------------------------------------------------ part 2: what a settlement leaves behind *)
Lemma split_set_matched a p total : forall vs rem, split (set_matched_price a p) total rem vs = split a total rem vs.
Proof. induction vs as [|v vs IH]; intros rem; cbn [split]; [reflexivity|]. rewrite IH. reflexivity. Qed.

Lemma settled_status t orc s a a' :
  block_rel t orc s a a' -> a_status a = Started -> (a_status a' = VestingS \/ a_status a' = Finished) ->
  a_status a' = settled_st a.
Proof.
  unfold block_rel. intros R St Hst. rewrite St in R. destruct (last_end a <=? t).
  2:{ subst a'. rewrite St in Hst. destruct Hst; discriminate. }
  destruct (a_type a).
  - subst a'. reflexivity.
  - destruct R as (order & mi & _ & _ & ->). destruct (decision s a mi); [|reflexivity].
    exfalso. unfold extended in Hst. cbn [a_status set_ends set_matched_price] in Hst. rewrite St in Hst.
    destruct Hst; discriminate.
Qed.

Lemma sum_payouts_to_escrow from d us f f' r j d' :
  sum_xfers (payouts from d us f) (from_to f' (Escrow r j) d') = 0.
Proof.
  apply sum_xfers_none. intros x Hx. unfold payouts in Hx. apply in_map_iff in Hx. destruct Hx as (w & <- & _).
  unfold from_to. cbn [x_to addr_eqb]. rewrite andb_false_r. reflexivity.
Qed.

Lemma sum_settle_xfers_pv s a mi wr :
  sum_xfers (settle_xfers s a mi wr) (from_to (Escrow Paying (a_id a)) (Escrow Vesting (a_id a)) (a_pay_denom a))
  = match a_scheds a with [] => 0 | _ => proceeds_of s a mi wr end.
Proof.
  unfold settle_xfers. rewrite !sum_xfers_app, !sum_xfers_send_xf, !sum_payouts_to_escrow.
  assert (E : sum_xfers (if wr then payouts (Escrow Paying (a_id a)) (a_pay_denom a) (mi_bidders mi) (mi_refund mi) else [])
                (from_to (Escrow Paying (a_id a)) (Escrow Vesting (a_id a)) (a_pay_denom a)) = 0).
  { destruct wr; [apply sum_payouts_to_escrow|reflexivity]. }
  rewrite E. unfold vest_dest, ind. cbn [addr_eqb role_eqb andb]. rewrite !N.eqb_refl.
  destruct (a_scheds a); cbn [addr_eqb role_eqb andb]; rewrite ?N.eqb_refl; cbn [andb]; lia.
Qed.

Lemma settle_facts s t orc s' a a' :
  Inv s -> begin_block s t orc = Ok s' -> In a (st_auctions s) -> a_status a = Started ->
  find_auction s' (a_id a) = Some a' -> (a_status a' = VestingS \/ a_status a' = Finished) ->
  exists R, 0 <= R
    /\ a_status a' = settled_st a
    /\ vqs_of s' (a_id a) = match a_scheds a with [] => [] | vs => split a R R vs end
    /\ sum_xfers (st_xfers s') (from_to (Escrow Paying (a_id a)) (Escrow Vesting (a_id a)) (a_pay_denom a))
       = sum_xfers (st_xfers s) (from_to (Escrow Paying (a_id a)) (Escrow Vesting (a_id a)) (a_pay_denom a))
         + match a_scheds a with [] => 0 | _ => R end
    /\ st_bal s' (Escrow Paying (a_id a)) (a_pay_denom a) = 0.
Proof.
  intros I H Ha St Fa' Hst'.
  destruct (block_at s t orc s' a I H Ha)
    as (s1 & s2 & pre & mid & post & I1 & Hin1 & S1 & Ep & Hp & S2 & X2 & X & F1 & F2 & F3).
  pose proof (InvAll.Inv_find_in s1 a I1 Hin1) as Fa1.
  assert (Fa2 : find_auction s2 (a_id a) = Some a') by (rewrite <- (se_auction _ _ _ S2); exact Fa').
  destruct (process_spec _ _ _ _ _ Hp) as [_ PS]. destruct (PS Fa1) as (a2 & Fa2' & Rel).
  rewrite Fa2 in Fa2'. injection Fa2' as <-.
  pose proof (settled_status _ _ _ _ _ Rel St Hst') as Est.
  destruct (process_settling t orc s1 a s2 a' Fa1 St Hp Fa2 Hst') as (mi & wr & _ & Hg).
  set (sx := if wr then set_flags s1 (a_id a) (mi_matched mi) else s1) in *.
  set (ax := if wr then set_matched_price a (mi_price mi) else a) in *.
  assert (Eid : a_id ax = a_id a) by (unfold ax; destruct wr; reflexivity).
  assert (Esc : a_scheds ax = a_scheds a) by (unfold ax; destruct wr; reflexivity).
  assert (Epd : a_pay_denom ax = a_pay_denom a) by (unfold ax; destruct wr; reflexivity).
  assert (Exs : st_xfers sx = st_xfers s1) by (unfold sx; destruct wr; reflexivity).
  assert (Evq : st_vqs sx = st_vqs s1) by (unfold sx; destruct wr; reflexivity).
  destruct (settle_gen_xfers _ _ _ _ _ Hg) as (L & _ & _ & _ & HR).
  pose proof (settle_gen_vqs _ _ _ _ _ Hg) as V.
  destruct (settle_xfers_balances _ _ _ _ _ L) as (_ & B2 & _).
  set (R := proceeds_of sx ax mi wr) in *.
  assert (Emid : mid = settle_xfers sx ax mi wr).
  { pose proof (lb_xfers _ _ _ L) as X'. rewrite Exs, X2 in X'. apply app_inv_head in X'. exact X'. }
  exists R. split; [exact HR|]. split; [exact Est|]. split; [|split].
  - rewrite (se_vqs _ _ _ S2). unfold vqs_of at 1. rewrite V, Evq, Esc, filter_app.
    change (filter (fun x => N.eqb (v_auction x) (a_id a)) (st_vqs s1)) with (vqs_of s1 (a_id a)).
    rewrite (EscrowBlock.started_no_vqs s1 a I1 Fa1 St). cbn [app].
    destruct (a_scheds a) as [|v vs] eqn:Es; [reflexivity|].
    assert (Esp : split ax R R (v :: vs) = split a R R (v :: vs)).
    { unfold ax. destruct wr; [apply split_set_matched|reflexivity]. }
    rewrite Esp. rewrite LedgerVesting.split_filter_auction, N.eqb_refl. reflexivity.
  - rewrite X. rewrite (sum_xfers_block (a_id a)); [|apply from_to_src|exact F1|exact F3]. f_equal.
    rewrite Emid, <- Eid, <- Epd, sum_settle_xfers_pv, Esc. reflexivity.
  - rewrite (se_bal _ _ _ S2). rewrite <- Eid, <- Epd. exact B2.
Qed.

(* the auctions a transition settles are settled by a successful block *)
Lemma in_paired t a a' :
  In (a, a') (paired t) <-> In a (st_auctions (t_pre t)) /\ find_auction (t_post t) (a_id a) = Some a'.
Proof.
  unfold paired. rewrite in_flat_map. split.
  - intros (x & Hx & Hin). destruct (find_auction (t_post t) (a_id x)) as [x'|] eqn:F; [|destruct Hin].
    destruct Hin as [E|[]]. injection E as <- <-. auto.
  - intros [Hin F]. exists a. split; [exact Hin|]. rewrite F. now left.
Qed.

Lemma status_eqb_true x y : status_eqb x y = true <-> x = y.
Proof. destruct x, y; cbn; split; intros H; try reflexivity; discriminate H. Qed.

Lemma settled_true st : settled st = true <-> st = VestingS \/ st = Finished.
Proof. unfold settled. rewrite orb_true_iff, !status_eqb_true. reflexivity. Qed.

Lemma block_of_step s o : FrameFacts.is_block o = true ->
  (fst (step s o) = BlockOk /\ begin_block s (FrameFacts.block_time o) (block_orc o) = Ok (snd (step s o)))
  \/ ((exists c, fst (step s o) = BlockErr c) /\ st_auctions (snd (step s o)) = st_auctions s
      /\ st_vqs (snd (step s o)) = st_vqs s /\ st_xfers (snd (step s o)) = st_xfers s
      /\ st_bids (snd (step s o)) = st_bids s /\ st_mlen (snd (step s o)) = st_mlen s).
Proof.
  intros B. destruct (step_block s o B) as [K|[K (tr & ->)]]; [left; exact K|right].
  split; [exact K|]. repeat split.
Qed.

Lemma settling_needs_block s o a a' :
  Inv s -> In a (st_auctions s) -> a_status a = Started ->
  find_auction (snd (step s o)) (a_id a) = Some a' -> (a_status a' = VestingS \/ a_status a' = Finished) ->
  FrameFacts.is_block o = true /\ fst (step s o) = BlockOk
  /\ begin_block s (FrameFacts.block_time o) (block_orc o) = Ok (snd (step s o)).
Proof.
  intros I Ha St F' Hst'. pose proof (InvAll.Inv_find_in s a I Ha) as Fa.
  assert (Hno : find_auction (snd (step s o)) (a_id a) = Some a -> False).
  { intros C. rewrite C in F'. injection F' as <-. rewrite St in Hst'. destruct Hst'; discriminate. }
  destruct (FrameFacts.is_block o) eqn:B.
  - destruct (block_of_step s o B) as [[K1 K2]|[_ (Ea & _)]]; [auto|].
    exfalso. apply Hno. unfold find_auction in *. rewrite Ea. exact Fa.
  - exfalso. destruct o as [m|id l|id u max|t orc|t orc k|from to d amt|ls|]; try discriminate B.
    all: try (match type of F' with find_auction (snd (step _ ?o)) _ = _ =>
           destruct (LifeTheorems.L_C08_only_block_or_cancel s o (a_id a) a a' ltac:(discriminate) B Fa F')
             as [E|(_ & _ & E & _)]; [rewrite E, St in Hst'; destruct Hst'; discriminate|congruence] end).
    destruct (GenesisImport.genesis_step s I) as (s' & Hs & SS). rewrite Hs in *. cbn [snd] in *.
    apply Hno. unfold find_auction in *. rewrite (GenesisImport.ss_auctions _ _ SS). exact Fa.
Qed.

(* ------------------------------------------------------------------ the two conjuncts of the checker *)
Definition c09_settle_part (t : trans) : bool :=
  forallb (fun p =>
    let a := fst p in
    let id := a_id a in
    let proceeds_vest := sum_xfers (t_xfers t) (from_to (Escrow Paying id) (Escrow Vesting id) (a_pay_denom a)) in
    let proceeds_direct := sum_xfers (t_xfers t) (from_to (Escrow Paying id) (User (a_auctioneer a)) (a_pay_denom a)) in
    let new_vqs := vqs_of (t_post t) id in
    let bidders_refund := sumZ (map (refunded t id (a_pay_denom a)) (filter (fun u => negb (N.eqb u (a_auctioneer a))) users)) in
    match a_scheds a with
    | [] => (length new_vqs =? 0)%nat && status_eqb (a_status (snd p)) Finished && (proceeds_vest =? 0)
            && (st_bal (t_post t) (Escrow Paying id) (a_pay_denom a) =? 0)
    | vs =>
        status_eqb (a_status (snd p)) VestingS
        && zeqb_list (map v_amt new_vqs) (spec_split proceeds_vest (map s_weight vs) 0)
        && zeqb_list (map v_time new_vqs) (map s_time vs)
        && forallb (fun v => negb (v_released v) && N.eqb (v_auctioneer v) (a_auctioneer a) && N.eqb (v_denom v) (a_pay_denom a)
                             && (0 <=? v_amt v)) new_vqs
        && (sumZ (map v_amt new_vqs) =? proceeds_vest)
        && (st_bal (t_post t) (Escrow Paying id) (a_pay_denom a) =? 0)
        && (0 <=? bidders_refund + proceeds_direct)
    end) (settling t).

Definition c09_release_part (t : trans) : bool :=
  forallb (fun p =>
       let a := fst p in
       let id := a_id a in
       if status_eqb (a_status a) VestingS then
         let before := vqs_of (t_pre t) id in
         let after := vqs_of (t_post t) id in
         let due := if Checkers.is_block (t_op t) && oclass_eqb (t_class t) KBlockOk
                    then filter (fun v => negb (v_released v) && (v_time v <=? Checkers.block_time (t_op t))) before else [] in
         (length before =? length after)%nat
         && forallb (fun pr => let v := fst pr in let v' := snd pr in
               vq_eqb (set_v_released v (v_released v || existsb (fun x => v_time x =? v_time v) due)) v')
             (combine before after)
         && zeqb_list (map x_amt (filter (fun x => addr_eqb (x_from x) (Escrow Vesting id)) (t_xfers t)))
                      (filter (fun z => negb (z =? 0)) (map v_amt due))
         && forallb (fun x => negb (addr_eqb (x_from x) (Escrow Vesting id))
                              || (addr_eqb (x_to x) (User (a_auctioneer a)) && N.eqb (x_denom x) (a_pay_denom a))) (t_xfers t)
       else true) (paired t).

Lemma c09_ok_parts t : c09_ok t = c09_settle_part t && c09_release_part t.
Proof. reflexivity. Qed.

Lemma zeqb_list_refl l : zeqb_list l l = true.
Proof.
  unfold zeqb_list. rewrite Nat.eqb_refl. cbn [andb].
  induction l as [|x l IH]; cbn [combine forallb fst snd]; [reflexivity|]. rewrite Z.eqb_refl. exact IH.
Qed.

Lemma step_xfers_pos s o : st_xfers s = [] -> pos_xs (st_xfers (snd (step s o))).
Proof. intros X0. destruct (step_ledger s o) as (xs & X & _ & Hp). rewrite X, X0. exact Hp. Qed.

Lemma find_wf s a : Inv s -> In a (st_auctions s) -> auction_wf a.
Proof. intros I Ha. pose proof (inv_auctions _ I) as W. unfold auctions_wf in W. rewrite Forall_forall in W. apply W, Ha. Qed.

Theorem c09_settle_trans s o : Inv s -> st_xfers s = [] -> c09_settle_part (trans_of s o) = true.
Proof.
  intros I X0. unfold c09_settle_part. apply forallb_forall. intros [a a'] Hin.
  unfold settling in Hin. apply filter_In in Hin. destruct Hin as [Hp Hc]. cbn [fst snd] in Hc.
  apply in_paired in Hp. destruct (trans_of_fields s o) as (E1 & E2 & E3 & E4 & E5). rewrite E1, E5 in Hp.
  destruct Hp as [Ha F']. apply andb_true_iff in Hc. destruct Hc as [St Hst'].
  apply status_eqb_true in St. apply settled_true in Hst'.
  destruct (settling_needs_block s o a a' I Ha St F' Hst') as (B & K1 & K2).
  destruct (settle_facts s _ _ _ a a' I K2 Ha St F' Hst') as (R & HR & Est & V & Spv & Bal).
  rewrite X0, sum_xfers_nil, Z.add_0_l in Spv.
  pose proof (step_xfers_pos s o X0) as Pos.
  cbv zeta. cbn [fst snd]. unfold refunded. rewrite E4, E5, V, Spv, Bal, Est. unfold settled_st.
  pose proof (awf_scheds _ (find_wf s a I Ha)) as Wsc. unfold scheds_wf in Wsc.
  destruct (a_scheds a) as [|v vs] eqn:Es; [reflexivity|].
  destruct Wsc as [Wsc|Wsc]; [discriminate Wsc|].
  destruct (DecFacts.split_of_valid a R (v :: vs) _ _ Wsc HR) as (Hsum & Hamt & Hnn & Htm).
  pose proof (DecFacts.split_fields a R (v :: vs)) as Hf.
  rewrite Hamt, Htm, !zeqb_list_refl, <- Hamt, Hsum, Z.eqb_refl. cbn [status_eqb andb].
  change (0 =? 0) with true. rewrite !andb_true_r. apply andb_true_iff. split.
  - apply forallb_forall. intros x Hx. rewrite Forall_forall in Hnn, Hf. destruct (Hf x Hx) as (Hr & _ & Hau & Hd).
    rewrite Hr, Hau, Hd, !N.eqb_refl. cbn [negb andb]. apply Z.leb_le, Hnn, Hx.
  - apply Z.leb_le. apply Z.add_nonneg_nonneg; [|apply sum_xfers_nonneg, Pos].
    apply sumZ_nonneg. intros z Hz. apply in_map_iff in Hz. destruct Hz as (u & <- & _). apply sum_xfers_nonneg, Pos.
Qed.

(* ------------------------------------------------------------------ part 3: releases *)
Lemma filter_all_true {A} (p : A -> bool) l : (forall x, In x l -> p x = true) -> filter p l = l.
Proof. intros H. apply EscrowBlock.forallb_filter_id. apply forallb_forall. exact H. Qed.

Lemma filter_none {A} (p : A -> bool) l : filter p l = [] -> forall x, In x l -> p x = false.
Proof.
  intros H x Hx. destruct (p x) eqn:E; [|reflexivity]. exfalso.
  assert (Hin : In x (filter p l)) by (apply filter_In; auto). rewrite H in Hin. destruct Hin.
Qed.

Lemma release_facts s t orc s' a :
  Inv s -> begin_block s t orc = Ok s' -> In a (st_auctions s) -> a_status a = VestingS ->
  vqs_of s' (a_id a) = map (release_vq (a_id a) t) (vqs_of s (a_id a))
  /\ filter (fun x => addr_eqb (x_from x) (Escrow Vesting (a_id a))) (st_xfers s')
     = filter (fun x => addr_eqb (x_from x) (Escrow Vesting (a_id a))) (st_xfers s) ++ rel_xfers a t (vqs_of s (a_id a)).
Proof.
  intros I H Ha St.
  destruct (block_at s t orc s' a I H Ha)
    as (s1 & s2 & pre & mid & post & I1 & Hin1 & S1 & Ep & Hp & S2 & X2 & X & F1 & F2 & F3).
  unfold process in Hp. rewrite St in Hp.
  destruct (inv_vqs _ I1) as (_ & ND & _).
  destruct (release_own_spec s1 a t s2 ND Hp) as (RS & _ & Vown & _).
  assert (Emid : mid = rel_xfers a t (vqs_of s1 (a_id a))).
  { pose proof (rs_xfers _ _ _ _ _ RS) as X'. rewrite X2 in X'. apply app_inv_head in X'. exact X'. }
  rewrite (se_vqs _ _ _ S1) in Emid, Vown. split.
  - rewrite (se_vqs _ _ _ S2). exact Vown.
  - rewrite X. rewrite (filter_block (a_id a)); [|intros x Hx; eapply from_src; exact Hx|exact F1|exact F3].
    f_equal. rewrite Emid. apply filter_all_true. intros x Hx. destruct (rel_xfers_ends _ _ _ _ Hx) as [E _].
    rewrite E. apply EscrowBase.addr_eqb_refl.
Qed.

Lemma vq_eqb_refl v : vq_eqb v v = true.
Proof. unfold vq_eqb. rewrite !N.eqb_refl, !Z.eqb_refl. destruct (v_released v); reflexivity. Qed.

Lemma set_released_eta v : set_v_released v (v_released v) = v.
Proof. destruct v; reflexivity. Qed.

Lemma release_vq_as_set id t v : release_vq id t v = set_v_released v (v_released (release_vq id t v)).
Proof.
  unfold release_vq. destruct (N.eqb (v_auction v) id && vq_due t v); [reflexivity|]. symmetry. apply set_released_eta.
Qed.

Lemma forallb_combine_map {A} (f : A -> A) (g : A * A -> bool) l :
  (forall v, In v l -> g (v, f v) = true) -> forallb g (combine l (map f l)) = true.
Proof.
  induction l as [|x l IH]; intros H; cbn [map combine forallb]; [reflexivity|].
  rewrite (H x (or_introl eq_refl)), IH; [reflexivity|]. intros v Hv. apply H. now right.
Qed.

Lemma filter_map_swap {A B} (q : B -> bool) (f : A -> B) l :
  filter q (map f l) = map f (filter (fun x => q (f x)) l).
Proof.
  induction l as [|x l IH]; cbn [map filter]; [reflexivity|]. destruct (q (f x)); cbn [map]; rewrite IH; reflexivity.
Qed.

Definition due_at (t : Z) (vs : list vq) : list vq := filter (fun v => negb (v_released v) && (v_time v <=? t)) vs.
Lemma due_at_eq t vs : due_at t vs = due_of t vs.
Proof. unfold due_at, due_of. apply filter_ext. intros v. unfold vq_due. apply andb_comm. Qed.

(* the release conjunct for one vesting auction when the block releases *)
Lemma release_active_ok s a id t before after xs :
  Inv s -> In a (st_auctions s) -> id = a_id a -> before = vqs_of s id ->
  after = map (release_vq id t) before ->
  filter (fun x => addr_eqb (x_from x) (Escrow Vesting id)) xs = rel_xfers a t before ->
  let due := due_at t before in
  (length before =? length after)%nat
  && forallb (fun pr => let v := fst pr in let v' := snd pr in
        vq_eqb (set_v_released v (v_released v || existsb (fun x => v_time x =? v_time v) due)) v')
      (combine before after)
  && zeqb_list (map x_amt (filter (fun x => addr_eqb (x_from x) (Escrow Vesting id)) xs))
               (filter (fun z => negb (z =? 0)) (map v_amt due))
  && forallb (fun x => negb (addr_eqb (x_from x) (Escrow Vesting id))
                       || (addr_eqb (x_to x) (User (a_auctioneer a)) && N.eqb (x_denom x) (a_pay_denom a))) xs = true.
Proof.
  intros I Ha Eid Eb Ea Ex due. pose proof (InvAll.Inv_find_in s a I Ha) as Fa.
  apply andb_true_iff. split; [apply andb_true_iff; split; [apply andb_true_iff; split|]|].
  - rewrite Ea, map_length. apply Nat.eqb_refl.
  - rewrite Ea. apply forallb_combine_map. intros v Hv. cbv zeta. cbn [fst snd].
    rewrite (release_vq_as_set id t v), release_vq_flag.
    assert (Hau : v_auction v = id) by (rewrite Eb in Hv; eapply vqs_of_auction; exact Hv).
    rewrite Hau, N.eqb_refl. cbn [andb].
    assert (Eb2 : v_released v || existsb (fun x => v_time x =? v_time v) due = v_released v || (v_time v <=? t)).
    { destruct (v_released v) eqn:Rv; cbn [orb]; [reflexivity|].
      destruct (v_time v <=? t) eqn:Tv.
      - apply existsb_exists. exists v. split; [|apply Z.eqb_refl]. unfold due, due_at. apply filter_In.
        split; [exact Hv|]. rewrite Rv, Tv. reflexivity.
      - destruct (existsb (fun x => v_time x =? v_time v) due) eqn:E; [|reflexivity]. exfalso.
        apply existsb_exists in E. destruct E as (x & Hx & Et). apply Z.eqb_eq in Et.
        unfold due, due_at in Hx. apply filter_In in Hx. destruct Hx as [_ Hx]. apply andb_true_iff in Hx.
        destruct Hx as [_ Hx]. rewrite Et, Tv in Hx. discriminate Hx. }
    rewrite Eb2. apply vq_eqb_refl.
  - rewrite Ex. unfold rel_xfers, paid_of. rewrite map_map. cbn [xfer_of x_amt].
    rewrite filter_map_swap. unfold due. rewrite due_at_eq. apply zeqb_list_refl.
  - apply forallb_forall. intros x Hx.
    destruct (addr_eqb (x_from x) (Escrow Vesting id)) eqn:E; cbn [negb orb]; [|reflexivity].
    assert (Hin : In x (rel_xfers a t before)) by (rewrite <- Ex; apply filter_In; auto).
    unfold rel_xfers in Hin. apply in_map_iff in Hin. destruct Hin as (v & <- & Hv). cbn [xfer_of x_to x_denom].
    rewrite EscrowBase.addr_eqb_refl. cbn [andb]. apply N.eqb_eq.
    unfold paid_of, due_of in Hv. apply filter_In in Hv. destruct Hv as [Hv _]. apply filter_In in Hv. destruct Hv as [Hv _].
    rewrite Eb in Hv. apply EscrowBlock.in_vqs_of in Hv. destruct Hv as [Hv Hau].
    destruct (inv_vqs _ I) as (W & _). rewrite Forall_forall in W.
    destruct (vwf_auction _ _ (W v Hv)) as (a0 & Fa0 & _ & _ & Hd & _). rewrite Hau, Eid, Fa in Fa0. injection Fa0 as <-. exact Hd.
Qed.

(* ... and when nothing is released: the queue and the vesting escrow are left alone *)
Lemma release_idle_ok (a : auction) id before xs :
  filter (fun x => addr_eqb (x_from x) (Escrow Vesting id)) xs = [] ->
  (length before =? length before)%nat
  && forallb (fun pr => let v := fst pr in let v' := snd pr in
        vq_eqb (set_v_released v (v_released v || existsb (fun x => v_time x =? v_time v) [])) v')
      (combine before before)
  && zeqb_list (map x_amt (filter (fun x => addr_eqb (x_from x) (Escrow Vesting id)) xs))
               (filter (fun z => negb (z =? 0)) (map v_amt []))
  && forallb (fun x => negb (addr_eqb (x_from x) (Escrow Vesting id))
                       || (addr_eqb (x_to x) (User (a_auctioneer a)) && N.eqb (x_denom x) (a_pay_denom a))) xs = true.
Proof.
  intros Ex. rewrite Ex, Nat.eqb_refl. cbn [map filter andb]. rewrite (zeqb_list_refl []), andb_true_r.
  apply andb_true_iff. split.
  - rewrite <- (map_id before) at 2. apply forallb_combine_map. intros v _. cbv zeta. cbn [fst snd existsb].
    rewrite orb_false_r, set_released_eta. apply vq_eqb_refl.
  - apply forallb_forall. intros x Hx. rewrite (filter_none _ _ Ex x Hx). reflexivity.
Qed.

(* operations other than blocks never move coins out of a vesting escrow *)
Lemma nonblock_no_vout s o id :
  Inv s -> FrameFacts.is_block o = false -> st_xfers s = [] ->
  filter (fun x => addr_eqb (x_from x) (Escrow Vesting id)) (st_xfers (snd (step s o))) = [].
Proof.
  intros I B X0.
  assert (G : o <> OGenesis -> filter (fun x => addr_eqb (x_from x) (Escrow Vesting id)) (st_xfers (snd (step s o))) = []).
  { intros Hg. destruct (accepted (fst (step s o))) eqn:Ha.
    - apply accepted_iff in Ha. pose proof (lb_xfers _ _ _ (step_xfers_spec s o)) as X.
      rewrite (step_xfers_accepted s o I Ha), X0 in X. cbn [app] in X. rewrite X.
      pose proof (LedgerVesting.tx_xfers_plain s o) as Pl. rewrite Forall_forall in Pl.
      destruct (filter _ (tx_xfers s o)) as [|x r] eqn:E; [reflexivity|]. exfalso.
      assert (Hx : In x (filter (fun x => addr_eqb (x_from x) (Escrow Vesting id)) (tx_xfers s o))) by (rewrite E; now left).
      apply filter_In in Hx. destruct Hx as [Hx Hv]. destruct (Pl x Hx id) as [_ C]. unfold LedgerVesting.vout in C. congruence.
    - rewrite (LedgerVesting.step_nonblock_not_accepted s o B), X0; [reflexivity|].
      intros E. rewrite E in Ha. discriminate Ha. }
  destruct o as [m|a l|a u max|t orc|t orc k|from to d amt|ls|]; try (apply G; discriminate).
  destruct (GenesisImport.genesis_step s I) as (s' & Hs & SS). rewrite Hs. cbn [snd].
  rewrite (GenesisImport.ss_xfers _ _ SS), X0. reflexivity.
Qed.

Lemma nonblock_vqs_of s o id : Inv s -> FrameFacts.is_block o = false -> vqs_of (snd (step s o)) id = vqs_of s id.
Proof.
  intros I B.
  destruct o as [m|a l|a u max|t orc|t orc k|from to d amt|ls|];
    try (unfold vqs_of; rewrite (VestingInv.tx_shape_vqs _ _ _ _ (TxFacts.step_shape s _ B ltac:(discriminate))); reflexivity).
  destruct (GenesisImport.genesis_step s I) as (s' & Hs & SS). rewrite Hs. cbn [snd]. apply (GenesisImport.ss_vqs_of _ _ SS).
Qed.

Lemma class_of_err c : oclass_eqb (class_of (BlockErr c)) KBlockOk = false.
Proof. cbn. destruct (N.eqb c E_PANIC); reflexivity. Qed.

Theorem c09_release_trans s o : Inv s -> st_xfers s = [] -> c09_release_part (trans_of s o) = true.
Proof.
  intros I X0. unfold c09_release_part. apply forallb_forall. intros [a a'] Hp.
  apply in_paired in Hp. destruct (trans_of_fields s o) as (E1 & E2 & E3 & E4 & E5). rewrite E1, E5 in Hp.
  destruct Hp as [Ha F']. cbv zeta. cbn [fst snd].
  destruct (status_eqb (a_status a) VestingS) eqn:St; [|reflexivity]. apply status_eqb_true in St.
  rewrite E1, E2, E3, E4, E5.
  change (Checkers.is_block o) with (FrameFacts.is_block o).
  change (Checkers.block_time o) with (FrameFacts.block_time o).
  destruct (FrameFacts.is_block o) eqn:B.
  - destruct (block_of_step s o B) as [[K1 K2]|[(c & K1) (_ & Ev & Ex & _)]].
    + rewrite K1. cbn [class_of oclass_eqb andb].
      destruct (release_facts s _ _ _ a I K2 Ha St) as [V X]. rewrite X0 in X. cbn [filter app] in X.
      apply (release_active_ok s a (a_id a) (FrameFacts.block_time o) (vqs_of s (a_id a))); auto.
    + rewrite K1, class_of_err. cbn [andb].
      assert (V : vqs_of (snd (step s o)) (a_id a) = vqs_of s (a_id a)) by (unfold vqs_of; rewrite Ev; reflexivity).
      rewrite V. apply release_idle_ok. rewrite Ex, X0. reflexivity.
  - cbn [andb]. rewrite (nonblock_vqs_of s o (a_id a) I B). apply release_idle_ok. apply nonblock_no_vout; assumption.
Qed.

(* ------------------------------------------------------------------ the link *)
Theorem c09_ok_trans s o : Inv s -> st_xfers s = [] -> c09_ok (trans_of s o) = true.
Proof. intros I X0. rewrite c09_ok_parts, (c09_settle_trans s o I X0), (c09_release_trans s o I X0). reflexivity. Qed.

Lemma c09_ok_pre s o : c09_ok (model_trans s o) = c09_ok (trans_of (FixedFacts.ghost_reset s) o).
Proof.
  unfold model_trans, trans_of. change (with_trace (with_bank s (st_bal s) []) []) with (FixedFacts.ghost_reset s).
  destruct (step (FixedFacts.ghost_reset s) o) as [out s']. reflexivity.
Qed.

Theorem c09_ok_model s o : Inv s -> oracle_ok s o -> c09_ok (model_trans s o) = true.
Proof.
  intros I _. rewrite c09_ok_pre. apply c09_ok_trans; [apply FixedFacts.Inv_ghost_reset, I|reflexivity].
Qed.
