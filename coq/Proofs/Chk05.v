(* Checker link for C05: the executable monitor Checkers.c05_ok holds of every transition of the model from a state
   satisfying the invariant.  Settlement clause: ChkSettle.settling_facts + the dues of LedgerSettle + the allocation
   bounds of MatchConseq; acceptance clause: ChkFixedBid.fixed_bid_effect.  No axioms. *)
From Coq Require Import ZArith NArith List Bool Arith Lia.
From FR Require Import Dec Types Bank Match Step Genesis Model Spec Checkers.
From FR.Proofs Require Import InvDefs EscrowBase Ledger LedgerSettle ChkSettle ChkFixedBid.
From FR.Proofs Require FrameFacts BlockFacts InvAll FixedFacts LifeTheorems EscrowBlock MatchBase MatchSweep MatchDemand
     MatchConseq InvStaticBase LedgerChecker.
Import ListNotations.
Open Scope Z_scope.

(* ------------------------------------------------------------------ sums over the users *)
Lemma sumZ_zeros {A} (l : list A) : sumZ (map (fun _ => 0) l) = 0.
Proof. induction l as [|x r IH]; [reflexivity|]. cbn [map]. rewrite EscrowBase.sumZ_cons, IH. reflexivity. Qed.

Lemma sum_ind_le (l : list N) (v : N) (c : Z) :
  NoDup l -> 0 <= c -> sumZ (map (fun u => if N.eqb u v then c else 0) l) <= c.
Proof.
  intros ND Hc. destruct (in_dec N.eq_dec v l) as [Hin|Hn].
  - rewrite EscrowBlock.sum_ind_nodup by assumption. lia.
  - rewrite (EscrowBlock.sumZ_map_ext _ (fun _ => 0)), sumZ_zeros; [exact Hc|].
    intros u Hu. destruct (N.eqb u v) eqn:E; [|reflexivity]. apply N.eqb_eq in E. subst. contradiction.
Qed.

Lemma sum_members_le (B l : list N) (f : N -> Z) :
  NoDup l -> (forall u, 0 <= f u) ->
  sumZ (map (fun u => if existsb (N.eqb u) B then f u else 0) l) <= total_of B f.
Proof.
  intros ND Hf. unfold total_of. induction B as [|v B IH].
  - cbn [existsb map]. rewrite sumZ_zeros. cbn. lia.
  - cbn [map]. rewrite EscrowBase.sumZ_cons.
    pose proof (EscrowBlock.sumZ_le_pointwise
                  (fun u => if existsb (N.eqb u) (v :: B) then f u else 0)
                  (fun u => (if N.eqb u v then f v else 0) + (if existsb (N.eqb u) B then f u else 0)) l) as Hle.
    rewrite EscrowBlock.sumZ_map_add in Hle.
    pose proof (sum_ind_le l v (f v) ND (Hf v)) as H1.
    assert (Hpw : forall x, In x l ->
              (if existsb (N.eqb x) (v :: B) then f x else 0)
              <= (if N.eqb x v then f v else 0) + (if existsb (N.eqb x) B then f x else 0)).
    { intros x _. cbn [existsb]. destruct (N.eqb x v) eqn:E.
      - apply N.eqb_eq in E. subst x. cbn [orb]. destruct (existsb (N.eqb v) B); specialize (Hf v); lia.
      - cbn [orb]. destruct (existsb (N.eqb x) B); lia. }
    specialize (Hle Hpw). lia.
Qed.

Lemma users_nodup : NoDup users.
Proof. apply InvStaticBase.ids_upto_nodup. Qed.

Lemma not_bidder_filter bs u :
  existsb (N.eqb u) (bidders_of bs) = false -> filter (fun b => N.eqb (b_bidder b) u) bs = [].
Proof.
  intros H. induction bs as [|b r IH]; [reflexivity|]. cbn [filter].
  destruct (N.eqb (b_bidder b) u) eqn:E.
  - exfalso. apply N.eqb_eq in E.
    assert (X : existsb (N.eqb u) (bidders_of (b :: r)) = true); [|congruence].
    apply existsb_exists. exists u. split; [|apply N.eqb_refl].
    apply MatchBase.bidders_of_in. exists b. split; [left; reflexivity|exact E].
  - apply IH. destruct (existsb (N.eqb u) (bidders_of r)) eqn:X; [|reflexivity].
    apply existsb_exists in X. destruct X as (w & Hw & Ew). apply N.eqb_eq in Ew. subst w.
    apply MatchBase.bidders_of_in in Hw. destruct Hw as (b0 & Hb0 & Eb0).
    assert (Y : existsb (N.eqb u) (bidders_of (b :: r)) = true); [|congruence].
    apply existsb_exists. exists u. split; [|apply N.eqb_refl].
    apply MatchBase.bidders_of_in. exists b0. split; [right; exact Hb0|exact Eb0].
Qed.

(* ------------------------------------------------------------------ the settlement clause *)
Definition c05_settle (t : trans) : bool :=
  forallb (fun p =>
    let a := fst p in
    let id := a_id a in
    let bs := bids_of (t_pre t) id in
    let al := allowed_of (t_pre t) id in
    let others := filter (fun u => negb (N.eqb u (a_auctioneer a))) users in
    (sumZ (map (received t id (a_sell_denom a)) others) <=? a_sell_amt a)
    && forallb (fun u =>
         let got := received t id (a_sell_denom a) u in
         match a_type a with
         | Batch =>
             (got <=? cap_of al u)
             && (got <=? sumZ (map (fun b => bid_qty_at b (a_matched_price (snd p)))
                                   (filter (fun b => N.eqb (b_bidder b) u) bs)))
         | FixedPrice =>
             got =? sumZ (map (sell_amount (a_pay_denom a)) (filter (fun b => N.eqb (b_bidder b) u) bs))
         end) others) (settling t).

Definition c05_accept (t : trans) : bool :=
  match t_op t, t_class t with
  | OTx m, KOk =>
      match check_basic m with
      | Some (CPlaceBid u id BFixed _ _ _) =>
          match find_auction (t_post t) id with
          | Some a' =>
              sumZ (map (sell_amount (a_pay_denom a')) (filter (fun b => N.eqb (b_bidder b) u) (bids_of (t_post t) id)))
              <=? cap_of (allowed_of (t_pre t) id) u
          | None => false
          end
      | _ => true
      end
  | _, _ => true
  end.

Lemma c05_ok_split t : c05_ok t = c05_settle t && c05_accept t.
Proof. reflexivity. Qed.

Theorem c05_settle_model s o : Inv s -> c05_settle (model_trans s o) = true.
Proof.
  intros I. unfold c05_settle. apply forallb_forall. intros [a a'] Hin.
  destruct (settling_facts s o a a' I Hin) as (t & orc & mi & wr & Ha & St & Fa' & Hw & D & Hrec & _ & Hbat & _).
  cbv zeta in Hrec, Hbat. cbv zeta. cbn [fst snd].
  assert (Epre : t_pre (model_trans s o) = s) by (destruct (LedgerChecker.model_trans_fields s o) as (E & _); exact E).
  rewrite Epre.
  set (tr := model_trans s o) in *.
  set (others := filter (fun u => negb (N.eqb u (a_auctioneer a))) users).
  assert (Hoth : forall u, In u others ->
            received tr (a_id a) (a_sell_denom a) u = if existsb (N.eqb u) (mi_bidders mi) then mi_alloc mi u else 0).
  { intros u Hu. apply filter_In in Hu. destruct Hu as [_ Hu]. apply negb_true_iff in Hu.
    rewrite Hrec, (N.eqb_sym (a_auctioneer a) u), Hu. lia. }
  pose proof (du_alloc _ _ _ _ D) as Hal.
  apply andb_true_iff. split.
  - apply Z.leb_le. rewrite (EscrowBlock.sumZ_map_ext _ _ others Hoth).
    pose proof (sum_members_le (mi_bidders mi) others (mi_alloc mi)
                  (NoDup_filter _ users_nodup) Hal) as H1.
    pose proof (du_alloc_sum _ _ _ _ D) as H2. lia.
  - apply forallb_forall. intros u Hu. rewrite (Hoth u Hu).
    pose proof (InvAll.Inv_find_in s a I Ha) as Fa.
    destruct Hw as [_ [(Ty & -> & _)|(Ty & -> & _ & order & HV & HC)]]; rewrite Ty.
    + apply Z.eqb_eq. destruct (du_fixed _ _ _ _ D eq_refl u) as [E _].
      destruct (existsb (N.eqb u) (mi_bidders mi)) eqn:Ex; [exact E|].
      rewrite (du_bidders _ _ _ _ D) in Ex. rewrite (not_bidder_filter _ _ Ex). reflexivity.
    + destruct (Hbat eq_refl) as [Epr _]. rewrite Epr.
      pose proof (EscrowBlock.Inv_book_wf s (a_id a) I) as BW.
      pose proof (EscrowBlock.InvStaticBase_find_wf s a I Fa) as AW.
      assert (Hsup : 0 <= a_sell_amt a) by (pose proof (awf_amt _ AW); lia).
      destruct (MatchConseq.batch_alloc_bounds a _ _ order _ mi BW HV Hsup HC) as (B1 & B2 & _).
      specialize (B1 u). specialize (B2 u). unfold MatchSweep.asked in B2.
      apply andb_true_iff. split; apply Z.leb_le; destruct (existsb (N.eqb u) (mi_bidders mi)); lia.
Qed.

(* ------------------------------------------------------------------ the acceptance clause *)
Lemma filter_bidder_app (l1 l2 : list bid) u :
  filter (fun b => N.eqb (b_bidder b) u) (l1 ++ l2)
  = filter (fun b => N.eqb (b_bidder b) u) l1 ++ filter (fun b => N.eqb (b_bidder b) u) l2.
Proof. apply filter_app. Qed.

Theorem c05_accept_model s o : Inv s -> c05_accept (model_trans s o) = true.
Proof.
  intros I. pose proof (FixedFacts.Inv_ghost_reset s I) as I0. unfold c05_accept.
  pose proof (model_trans_accepted s o) as Hacc.
  destruct (LedgerChecker.model_trans_fields s o) as (E1 & E2 & _ & _ & E5).
  rewrite E1, E2, E5. change (LedgerChecker.fresh_logs s) with (FixedFacts.ghost_reset s).
  destruct o as [m| | | | | | |]; try reflexivity.
  destruct (t_class (model_trans s (OTx m))) eqn:Ek; try reflexivity. specialize (Hacc eq_refl).
  destruct (check_basic m) as [c|] eqn:CB; [|reflexivity].
  destruct c as [| | |u id bt price d amt| | |]; try reflexivity. destruct bt; try reflexivity.
  destruct (fixed_bid_effect _ m u id price d amt I0 CB Hacc)
    as (a & a' & nb & Fa & Fa' & Ty & St & T & Eb & B3 & B5 & B6 & B7 & Dn & Pr & _ & _ & Er & Hcap & _).
  cbv zeta in Fa', Eb. rewrite Fa', Eb. apply Z.leb_le.
  destruct T as (_ & _ & _ & _ & _ & _ & _ & T8 & _). rewrite T8.
  rewrite filter_bidder_app, map_app, EscrowBase.sumZ_app. cbn [filter]. rewrite B3, N.eqb_refl.
  cbn [map]. rewrite EscrowBase.sumZ_cons. cbn [sumZ fold_right].
  change (bids_of (FixedFacts.ghost_reset s) id) with (bids_of s id) in *.
  change (allowed_of (FixedFacts.ghost_reset s) id) with (allowed_of s id) in Hcap. lia.
Qed.

(* ------------------------------------------------------------------ the link *)
Theorem c05_ok_model_inv s o : Inv s -> c05_ok (model_trans s o) = true.
Proof.
  intros I. rewrite c05_ok_split, (c05_settle_model s o I), (c05_accept_model s o I). reflexivity.
Qed.

Theorem c05_ok_model s o : Inv s -> oracle_ok s o -> c05_ok (model_trans s o) = true.
Proof. intros I _. apply c05_ok_model_inv, I. Qed.
