(* J7: the vesting-queue part of the global invariant (InvDefs.vqs_wf) is preserved by every operation,
   by the processing of a single auction inside a block, and released flags are never reset. *)
From Coq Require Import ZArith NArith List Bool Arith Lia Sorted FinFun.
From FR Require Import Dec Types Bank Match Step Genesis Model Spec.
From FR.Proofs Require Import FrameFacts TxFacts BlockFacts DecFacts InvDefs VestingFacts.
Import ListNotations.
Open Scope Z_scope.

(* what is assumed of the rest of the invariant: J1 (as ids_ok) and the schedule part of J2 *)
Definition scheds_all_wf (s : state) : Prop := Forall scheds_wf (st_auctions s).

Lemma auctions_wf_scheds s : auctions_wf s -> scheds_all_wf s.
Proof. unfold auctions_wf, scheds_all_wf. apply Forall_impl. intros a H. apply (awf_scheds a H). Qed.

Lemma ids_seq_ids_ok s : ids_seq s -> ids_ok s.
Proof.
  unfold ids_seq, ids_ok, ids_upto. intros H. split.
  - rewrite H. apply FinFun.Injective_map_NoDup; [|apply seq_NoDup].
    intros x y E. apply Nat2N.inj. exact E.
  - apply Forall_forall. intros a Ha.
    assert (HI : In (a_id a) (map a_id (st_auctions s))) by (apply in_map; exact Ha).
    rewrite H in HI. apply in_map_iff in HI. destruct HI as (i & <- & Hi). apply in_seq in Hi. lia.
Qed.

Definition vest_status (a : auction) : Prop := a_status a = VestingS \/ a_status a = Finished.

(* ------------------------------------------------------------------ schedules: strictly increasing times *)
Lemma scheds_ok_sorted : forall vs e prev acc, scheds_ok vs e prev acc = true ->
  StronglySorted Z.lt (map s_time vs).
Proof.
  induction vs as [|v rest IH]; intros e prev acc H; cbn [map]; [constructor|].
  pose proof H as H0. cbn [scheds_ok] in H.
  apply andb_prop in H. destruct H as [_ Hrest].
  constructor; [eapply IH; exact Hrest|].
  apply scheds_ok_times_gen in Hrest. rewrite Forall_map. eapply Forall_impl; [|exact Hrest].
  cbn beta. intros x [_ Hx]. exact Hx.
Qed.

Lemma sorted_lt_NoDup l : StronglySorted Z.lt l -> NoDup l.
Proof.
  induction 1 as [|x l _ IH Hx]; constructor; [|exact IH].
  intros HI. rewrite Forall_forall in Hx. specialize (Hx x HI). lia.
Qed.

Lemma scheds_wf_cases a : scheds_wf a -> a_scheds a <> [] ->
  StronglySorted Z.lt (map s_time (a_scheds a))
  /\ Forall (fun v => 0 < s_weight v) (a_scheds a) /\ sumZ (map s_weight (a_scheds a)) = P.
Proof.
  intros [H|H] Hne; [contradiction|]. split; [eapply scheds_ok_sorted; exact H|].
  eapply scheds_ok_weights. exact H.
Qed.

(* ------------------------------------------------------------------ the released flags stay a prefix *)
Lemma map_const_false {A} (f : A -> bool) l : (forall x, In x l -> f x = false) -> map f l = repeat false (length l).
Proof.
  induction l as [|x l IH]; intros H; cbn [map length repeat]; [reflexivity|].
  rewrite (H x (or_introl eq_refl)), IH; [reflexivity|]. intros y Hy. apply H. right. exact Hy.
Qed.
Lemma repeat_false_all l m : l = repeat false m -> forall b, In b l -> b = false.
Proof. intros -> b Hb. apply repeat_spec in Hb. exact Hb. Qed.

Lemma flags_prefix_release t id : forall vs k m,
  StronglySorted Z.lt (map v_time vs) -> (forall v, In v vs -> v_auction v = id) ->
  map v_released vs = repeat true k ++ repeat false m ->
  exists k', (k' <= length vs)%nat /\
    map v_released (map (release_vq id t) vs) = repeat true k' ++ repeat false (length vs - k').
Proof.
  induction vs as [|v rest IH]; intros k m HS Hid HF.
  - exists 0%nat. split; [cbn; lia|reflexivity].
  - cbn [map] in HS. inversion HS as [|? ? HS' Hlt]; subst.
    assert (Hid' : forall x, In x rest -> v_auction x = id) by (intros x Hx; apply Hid; right; exact Hx).
    assert (Hnew : v_released (release_vq id t v) = v_released v || (v_time v <=? t)).
    { rewrite release_vq_flag, (Hid v (or_introl eq_refl)), N.eqb_refl. reflexivity. }
    destruct k as [|k1].
    + cbn [repeat app] in HF. destruct m as [|m1]; [discriminate HF|].
      cbn [repeat map] in HF. injection HF as Hv Hrest.
      destruct (v_time v <=? t) eqn:Et.
      * destruct (IH 0%nat m1 HS' Hid' Hrest) as (k' & Hk & HF').
        exists (S k'). split; [cbn [length]; lia|]. cbn [map length repeat app].
        rewrite Hnew, Hv, HF'. cbn [orb]. replace (S (length rest) - S k')%nat with (length rest - k')%nat by lia.
        reflexivity.
      * exists 0%nat. split; [lia|]. cbn [repeat app]. rewrite Nat.sub_0_r. rewrite map_map.
        apply map_const_false. intros x [<-|Hx].
        -- rewrite Hnew, Hv. reflexivity.
        -- rewrite release_vq_flag.
           assert (v_released x = false).
           { eapply repeat_false_all; [exact Hrest|]. apply in_map. exact Hx. }
           assert (v_time v < v_time x).
           { rewrite Forall_forall in Hlt. apply Hlt. apply in_map. exact Hx. }
           apply Z.leb_gt in Et. assert (E2 : v_time x <=? t = false) by (apply Z.leb_gt; lia).
           rewrite H, E2, andb_false_r. reflexivity.
    + cbn [repeat app map] in HF. injection HF as Hv Hrest.
      destruct (IH k1 m HS' Hid' Hrest) as (k' & Hk & HF').
      exists (S k'). split; [cbn [length]; lia|]. cbn [map length repeat app].
      rewrite Hnew, Hv, HF'. cbn [orb]. replace (S (length rest) - S k')%nat with (length rest - k')%nat by lia.
      reflexivity.
Qed.

Lemma last_due_all_due t : forall vs,
  StronglySorted Z.lt (map v_time vs) -> last_due_rec t vs = true -> forall x, In x vs -> v_time x <= t.
Proof.
  induction vs as [|v rest IH]; intros HS HL x Hx; [contradiction|].
  cbn [map] in HS. inversion HS as [|? ? HS' Hlt]; subst.
  destruct rest as [|r rs].
  - destruct Hx as [<-|[]]. cbn [last_due_rec] in HL. unfold vq_due in HL.
    apply andb_true_iff in HL. destruct HL as [HL _]. apply Z.leb_le. exact HL.
  - change (last_due_rec t (v :: r :: rs)) with (last_due_rec t (r :: rs)) in HL.
    destruct Hx as [<-|Hx]; [|apply IH; assumption].
    assert (v_time r <= t) by (apply IH; [assumption|assumption|left; reflexivity]).
    rewrite Forall_forall in Hlt. specialize (Hlt (v_time r) (or_introl eq_refl)). lia.
Qed.

Lemma last_due_all_released t id vs :
  StronglySorted Z.lt (map v_time vs) -> (forall v, In v vs -> v_auction v = id) ->
  last_due_rec t vs = true -> forall x, In x vs -> v_released (release_vq id t x) = true.
Proof.
  intros HS Hid HL x Hx. rewrite release_vq_flag, (Hid x Hx), N.eqb_refl.
  pose proof (last_due_all_due t vs HS HL x Hx) as H. apply Z.leb_le in H. rewrite H. apply orb_true_r.
Qed.

(* ------------------------------------------------------------------ vqs_wf only reads two fields *)
Lemma NoDup_app_intro {A} (l1 l2 : list A) :
  NoDup l1 -> NoDup l2 -> (forall x, In x l1 -> ~ In x l2) -> NoDup (l1 ++ l2).
Proof.
  induction l1 as [|x l1 IH]; intros N1 N2 D; cbn [app]; [exact N2|].
  inversion N1 as [|? ? Hn N1']; subst. constructor.
  - intros HI. apply in_app_or in HI. destruct HI as [HI|HI]; [contradiction|].
    exact (D x (or_introl eq_refl) HI).
  - apply IH; [exact N1'|exact N2|]. intros y Hy. apply D. right. exact Hy.
Qed.

(* vesting queues untouched; auctions in a vesting status have the same record before and after *)
Lemma vqs_wf_transfer s s' :
  ids_ok s' -> st_vqs s' = st_vqs s ->
  (forall j a, find_auction s j = Some a -> vest_status a -> find_auction s' j = Some a) ->
  (forall j a, find_auction s' j = Some a -> vest_status a -> find_auction s j = Some a) ->
  vqs_wf s -> vqs_wf s'.
Proof.
  intros OK HV Hfw Hbw (W1 & W2 & W3). unfold vqs_wf. rewrite HV. split; [|split].
  - eapply Forall_impl; [|exact W1]. intros v [Hamt (a & F & St & R)]. split; [exact Hamt|].
    exists a. split; [apply Hfw; assumption|]. split; assumption.
  - exact W2.
  - intros a Ha St Hne. assert (F : find_auction s (a_id a) = Some a).
    { apply Hbw; [apply ids_ok_find; assumption|exact St]. }
    apply find_auction_some in F. destruct F as [F _].
    unfold vqs_of. rewrite HV. apply (W3 a F St Hne).
Qed.

Lemma vqs_wf_ext s s' : st_vqs s' = st_vqs s -> st_auctions s' = st_auctions s -> vqs_wf s -> vqs_wf s'.
Proof.
  intros HV HA (W1 & W2 & W3). unfold vqs_wf, vqs_of. rewrite HV, HA. split; [|split; [exact W2|exact W3]].
  eapply Forall_impl; [|exact W1]. intros v [Hamt (a & F & R)]. split; [exact Hamt|].
  exists a. split; [rewrite (find_auction_conv s s' _ HA); exact F|exact R].
Qed.

Lemma vqs_wf_with_now s t : vqs_wf s -> vqs_wf (with_now s t).
Proof. apply vqs_wf_ext; reflexivity. Qed.
Lemma vqs_wf_with_trace s tr : vqs_wf s -> vqs_wf (with_trace s tr).
Proof. apply vqs_wf_ext; reflexivity. Qed.

(* replacing the record of an auction that is in no vesting status by another such record *)
Lemma vqs_wf_put_inert s s' a a' :
  ids_ok s' -> st_vqs s' = st_vqs s -> st_auctions s' = st_auctions (put_auction s a') ->
  a_id a' = a_id a -> find_auction s (a_id a) = Some a -> ~ vest_status a -> ~ vest_status a' ->
  vqs_wf s -> vqs_wf s'.
Proof.
  intros OK HV HA Hid F Na Na'. apply vqs_wf_transfer; [exact OK|exact HV| |].
  - intros j x Fx St. rewrite (find_auction_conv_put s s' a' j HA), Hid.
    destruct (N.eqb j (a_id a)) eqn:E; [|exact Fx].
    apply N.eqb_eq in E. subst j. rewrite F in Fx. injection Fx as <-. contradiction.
  - intros j x Fx St. rewrite (find_auction_conv_put s s' a' j HA), Hid in Fx.
    destruct (N.eqb j (a_id a)) eqn:E; [|exact Fx].
    apply N.eqb_eq in E. subst j. rewrite F in Fx. injection Fx as <-. contradiction.
Qed.

(* ------------------------------------------------------------------ settlement creates the queue *)
Lemma apply_vesting_reserve s a s' :
  apply_vesting s a = Ok s' -> a_scheds a <> [] -> 0 <= st_bal s (Escrow Paying (a_id a)) (a_pay_denom a).
Proof.
  unfold apply_vesting. cbv zeta. intros H Hne. destruct (a_scheds a) as [|v vs]; [congruence|].
  inv_step H. apply send_ok_inv in E. destruct E as [[E _]|(E & _)]; lia.
Qed.

Lemma bt_only_fields id s s1 : bt_only id s s1 -> st_vqs s1 = st_vqs s /\ st_auctions s1 = st_auctions s.
Proof. intros (b & xs & tr & -> & _). split; reflexivity. Qed.

Definition settle_vqs (s s' : state) (a : auction) : Prop :=
  exists r, (a_scheds a <> [] -> 0 <= r) /\ st_vqs s' = st_vqs s ++ split a r r (a_scheds a).

Lemma apply_vesting_settle s a s' : apply_vesting s a = Ok s' -> settle_vqs s s' a.
Proof.
  intros H. exists (st_bal s (Escrow Paying (a_id a)) (a_pay_denom a)).
  split; [apply (apply_vesting_reserve s a s' H)|apply apply_vesting_vqs; exact H].
Qed.

Lemma close_fixed_vqs s a s' : close_fixed s a = Ok s' -> settle_vqs s s' a.
Proof.
  unfold close_fixed. cbv zeta. intros H. inv_step H. inv_step H.
  apply allocate_inv in E. apply refund_selling_inv in E0.
  destruct (bt_only_fields _ _ _ (bt_only_trans _ _ _ _ E E0)) as [HV _].
  apply apply_vesting_settle in H. destruct H as (r & Hr & H). exists r. split; [exact Hr|]. rewrite H, HV. reflexivity.
Qed.

Lemma settle_batch_vqs s a mi s' : settle_batch s a mi = Ok s' -> settle_vqs s s' a.
Proof.
  unfold settle_batch. intros H. inv_step H. inv_step H. inv_step H.
  apply allocate_inv in E. apply refund_selling_inv in E0.
  apply (pay_out_inv (a_id a)) in E1; [|reflexivity]. destruct E1 as (b & xs & -> & K).
  destruct (bt_only_fields _ _ _ (bt_only_trans _ _ _ _ E E0)) as [HV _].
  apply apply_vesting_settle in H. destruct H as (r & Hr & H). exists r. split; [exact Hr|].
  rewrite H. cbn [st_vqs with_bank]. rewrite HV. reflexivity.
Qed.

Lemma split_key a total : forall vs rem v, In v (split a total rem vs) -> v_auction v = a_id a.
Proof. exact (split_auction a total). Qed.

Lemma split_keys a total : forall vs rem,
  map vkey (split a total rem vs) = map (fun x => (a_id a, s_time x)) vs.
Proof.
  induction vs as [|v vs IH]; intros rem; cbn [split map]; [reflexivity|].
  rewrite IH. reflexivity.
Qed.

Lemma split_nonneg_rem a total : forall vs rem,
  0 <= total -> Forall (fun v => 0 <= s_weight v) vs -> total * sumZ (map s_weight vs) <= rem * P ->
  Forall (fun x => 0 <= v_amt x) (split a total rem vs).
Proof. intros vs rem. apply split_nonneg_gen. Qed.

Lemma filter_all {A} (f : A -> bool) l : (forall x, In x l -> f x = true) -> filter f l = l.
Proof.
  induction l as [|x l IH]; intros H; cbn [filter]; [reflexivity|].
  rewrite (H x (or_introl eq_refl)), IH; [reflexivity|]. intros y Hy. apply H. right. exact Hy.
Qed.

Lemma nil_or_not {A} (l : list A) : l = [] \/ l <> [].
Proof. destruct l; [left; reflexivity|right; discriminate]. Qed.

(* a0: the stored record (Started); a: the record settlement works with (same terms) *)
Lemma vqs_wf_settle s s' a0 a r :
  ids_ok s -> ids_ok s' -> vqs_wf s ->
  find_auction s (a_id a0) = Some a0 -> a_status a0 = Started -> scheds_wf a0 ->
  a_id a = a_id a0 -> a_scheds a = a_scheds a0 -> a_auctioneer a = a_auctioneer a0 -> a_pay_denom a = a_pay_denom a0 ->
  st_auctions s' = st_auctions (put_auction s (set_status a (settled_st a))) ->
  (a_scheds a <> [] -> 0 <= r) -> st_vqs s' = st_vqs s ++ split a r r (a_scheds a) ->
  vqs_wf s'.
Proof.
  intros OK OK' (W1 & W2 & W3) F St SW Hid Hsc Hau Hpd HA Hr HV.
  set (a' := set_status a (settled_st a)) in *.
  assert (Hid' : a_id a' = a_id a0) by exact Hid.
  assert (Fsame : find_auction s' (a_id a0) = Some a').
  { rewrite (find_auction_conv_put s s' a' _ HA), Hid', N.eqb_refl, F. reflexivity. }
  assert (Fother : forall j, j <> a_id a0 -> find_auction s' j = find_auction s j).
  { intros j Hj. rewrite (find_auction_conv_put s s' a' _ HA), Hid'. apply N.eqb_neq in Hj. rewrite Hj. reflexivity. }
  (* no queue of this auction exists before *)
  assert (Hnone : forall v, In v (st_vqs s) -> v_auction v <> a_id a0).
  { intros v Hv E. rewrite Forall_forall in W1. destruct (W1 v Hv) as [_ (x & Fx & [Sx|Sx] & _)];
      rewrite E, F in Fx; injection Fx as <-; congruence. }
  assert (Hvq0 : vqs_of s (a_id a0) = []).
  { unfold vqs_of. destruct (filter _ (st_vqs s)) as [|v l] eqn:E; [reflexivity|].
    assert (Hv : In v (filter (fun x => N.eqb (v_auction x) (a_id a0)) (st_vqs s))) by (rewrite E; left; reflexivity).
    apply filter_In in Hv. destruct Hv as [Hv Ev]. apply N.eqb_eq in Ev. exfalso. exact (Hnone v Hv Ev). }
  unfold vqs_wf. split; [|split].
  - rewrite HV. apply Forall_app. split.
    + rewrite Forall_forall in *. intros v Hv. destruct (W1 v Hv) as [Hamt (x & Fx & R)].
      split; [exact Hamt|]. exists x. split; [|exact R]. rewrite Fother; [exact Fx|]. apply Hnone. exact Hv.
    + destruct (nil_or_not (a_scheds a)) as [ES|ES]; [rewrite ES; constructor|].
      assert (Hne : a_scheds a0 <> []) by (rewrite <- Hsc; exact ES).
      destruct (scheds_wf_cases a0 SW Hne) as (HS & Hw & Hsum).
      assert (Hr0 : 0 <= r) by (apply Hr; exact ES).
      assert (Hnn : Forall (fun x => 0 <= v_amt x) (split a r r (a_scheds a))).
      { apply split_nonneg; [exact Hr0|rewrite Hsc; exact Hw|rewrite Hsc; exact Hsum]. }
      pose proof (split_fields a r (a_scheds a)) as Hf.
      pose proof (split_times a r (a_scheds a)) as Ht.
      rewrite Forall_forall in *. intros v Hv. split; [apply Hnn; exact Hv|].
      destruct (Hf v Hv) as (R1 & R2 & R3 & R4).
      exists a'. rewrite R2, Hid. split; [exact Fsame|].
      assert (Sa' : a_status a' = VestingS).
      { unfold a', settled_st. destruct (a_scheds a); [congruence|reflexivity]. }
      split; [left; exact Sa'|]. split; [exact R3|]. split; [exact R4|]. split.
      * change (a_scheds a') with (a_scheds a). rewrite <- Ht. apply in_map. exact Hv.
      * intros Hfin. congruence.
  - rewrite HV, map_app. apply NoDup_app_intro; [exact W2| |].
    + rewrite split_keys. destruct (nil_or_not (a_scheds a)) as [ES|ES]; [rewrite ES; constructor|].
      assert (Hne : a_scheds a0 <> []) by (rewrite <- Hsc; exact ES).
      destruct (scheds_wf_cases a0 SW Hne) as (HS & _). rewrite <- Hsc in HS.
      apply sorted_lt_NoDup in HS.
      apply (Injective_map_NoDup (f := fun z : Z => (a_id a, z))) in HS; [|intros x y E; congruence].
      rewrite map_map in HS. exact HS.
    + intros k Hk1 Hk2. apply in_map_iff in Hk1. destruct Hk1 as (v & <- & Hv).
      apply in_map_iff in Hk2. destruct Hk2 as (w & Ew & Hw). apply split_key in Hw.
      unfold vkey in Ew. injection Ew as E1 _. apply (Hnone v Hv). congruence.
  - intros x Hx Sx Hne. destruct (N.eq_dec (a_id x) (a_id a0)) as [E|E].
    + assert (x = a').
      { pose proof (ids_ok_find s' x OK' Hx) as Fx. rewrite E, Fsame in Fx. congruence. }
      subst x. change (a_scheds a') with (a_scheds a) in *. change (a_id a') with (a_id a).
      assert (HVQ : vqs_of s' (a_id a) = split a r r (a_scheds a)).
      { unfold vqs_of. rewrite HV, filter_app. fold (vqs_of s (a_id a)). rewrite Hid, Hvq0. cbn [app].
        rewrite <- Hid. apply filter_all.
        intros v Hv. apply split_key in Hv. apply N.eqb_eq. exact Hv. }
      rewrite HVQ. split; [apply split_times|]. exists 0%nat. cbn [repeat app]. rewrite Nat.sub_0_r.
      rewrite <- (split_length a r (a_scheds a) r). apply map_const_false.
      pose proof (split_fields a r (a_scheds a)) as Hf. rewrite Forall_forall in Hf.
      intros v Hv. apply (Hf v Hv).
    + assert (Fx : find_auction s (a_id x) = Some x).
      { rewrite <- (Fother _ E). apply ids_ok_find; assumption. }
      apply find_auction_some in Fx. destruct Fx as [Fx _].
      assert (HVQ : vqs_of s' (a_id x) = vqs_of s (a_id x)).
      { unfold vqs_of. rewrite HV. apply filter_app_none. intros v Hv. apply split_key in Hv.
        apply N.eqb_neq. congruence. }
      rewrite HVQ. apply (W3 x Fx Sx Hne).
Qed.

(* ------------------------------------------------------------------ release keeps the queue well formed *)
Lemma vqs_of_in s id v : In v (vqs_of s id) <-> In v (st_vqs s) /\ v_auction v = id.
Proof. unfold vqs_of. rewrite filter_In, N.eqb_eq. reflexivity. Qed.

Lemma vqs_wf_release s a t s' :
  ids_ok s' -> vqs_wf s -> find_auction s (a_id a) = Some a -> a_status a = VestingS -> scheds_wf a ->
  release_loop s a t (vqs_of s (a_id a)) = Ok s' -> vqs_wf s'.
Proof.
  intros OK' W F St SW H. pose proof W as (W1 & W2 & W3).
  pose proof (find_auction_some _ _ _ F) as [Ha _].
  destruct (nil_or_not (a_scheds a)) as [ES|ES].
  { assert (Hvq0 : vqs_of s (a_id a) = []).
    { destruct (vqs_of s (a_id a)) as [|v l] eqn:E; [reflexivity|].
      assert (Hv : In v (vqs_of s (a_id a))) by (rewrite E; left; reflexivity).
      apply vqs_of_in in Hv. destruct Hv as [Hv Ev]. rewrite Forall_forall in W1.
      destruct (W1 v Hv) as [_ (x & Fx & _ & _ & _ & Hin & _)]. rewrite Ev, F in Fx. injection Fx as <-.
      rewrite ES in Hin. destruct Hin. }
    rewrite Hvq0 in H. cbn [release_loop] in H. injection H as <-. exact W. }
  destruct (release_own_spec s a t s' W2 H) as (R & HV & HVa & HVo).
  pose proof (rs_auctions _ _ _ _ _ R) as HA.
  set (vs := vqs_of s (a_id a)) in *.
  destruct (W3 a Ha (or_introl St) ES) as (Ht & k & Hk).
  fold vs in Ht, Hk.
  destruct (scheds_wf_cases a SW ES) as (HS & _). rewrite <- Ht in HS.
  assert (Hvs : forall v, In v vs -> v_auction v = a_id a) by (intros v Hv; apply vqs_of_in in Hv; apply Hv).
  set (a' := if last_due_rec t vs then set_status a Finished else a).
  assert (Hid' : a_id a' = a_id a) by (unfold a'; destruct (last_due_rec t vs); reflexivity).
  assert (Hsc' : a_scheds a' = a_scheds a) by (unfold a'; destruct (last_due_rec t vs); reflexivity).
  assert (Fsame : find_auction s' (a_id a) = Some a').
  { unfold a'. destruct (last_due_rec t vs).
    - rewrite (find_auction_conv_put s s' _ _ HA). cbn [a_id set_status]. rewrite N.eqb_refl, F. reflexivity.
    - rewrite (find_auction_conv s s' _ HA). exact F. }
  assert (Fother : forall j, j <> a_id a -> find_auction s' j = find_auction s j).
  { intros j Hj. destruct (last_due_rec t vs).
    - rewrite (find_auction_conv_put s s' _ _ HA). cbn [a_id set_status]. apply N.eqb_neq in Hj. rewrite Hj. reflexivity.
    - apply find_auction_conv. exact HA. }
  unfold vqs_wf. split; [|split].
  - rewrite HV, Forall_map. rewrite Forall_forall in *. intros v Hv.
    destruct (W1 v Hv) as [Hamt (x & Fx & Sx & X1 & X2 & X3 & X4)].
    destruct (release_vq_fields (a_id a) t v) as (G1 & G2 & G3 & G4).
    split; [rewrite G4; exact Hamt|]. rewrite release_vq_auction, G1, G2, G3.
    destruct (N.eq_dec (v_auction v) (a_id a)) as [E|E].
    + rewrite E, F in Fx. injection Fx as <-. exists a'. rewrite E. split; [exact Fsame|].
      unfold a'. destruct (last_due_rec t vs) eqn:L.
      * split; [right; reflexivity|]. repeat split; try assumption.
        intros _. apply (last_due_all_released t (a_id a) vs HS Hvs L). apply vqs_of_in. split; assumption.
      * split; [left; exact St|]. repeat split; try assumption. intros Hf. congruence.
    + exists x. rewrite (Fother _ E). split; [exact Fx|]. rewrite (release_vq_other _ _ _ E).
      repeat split; assumption.
  - rewrite HV, map_map. erewrite map_ext; [exact W2|]. intros v. apply release_vq_key.
  - intros x Hx Sx Hne. destruct (N.eq_dec (a_id x) (a_id a)) as [E|E].
    + assert (x = a').
      { pose proof (ids_ok_find s' x OK' Hx) as Fx. rewrite E, Fsame in Fx. congruence. }
      subst x. rewrite Hid', Hsc', HVa. split.
      * rewrite map_map. erewrite map_ext; [exact Ht|]. intros v. apply release_vq_fields.
      * destruct (flags_prefix_release t (a_id a) vs k _ HS Hvs Hk) as (k' & _ & Hk').
        exists k'. rewrite Hk'. f_equal. f_equal.
        rewrite <- (map_length v_time vs), Ht, map_length. reflexivity.
    + assert (Fx : find_auction s (a_id x) = Some x).
      { rewrite <- (Fother _ E). apply ids_ok_find; assumption. }
      apply find_auction_some in Fx. destruct Fx as [Fx _].
      rewrite (HVo _ E). apply (W3 x Fx Sx Hne).
Qed.

(* ------------------------------------------------------------------ one auction of BeginBlocker *)
Lemma proc_eff_ids_ok id s s' : proc_eff id s s' -> ids_ok s -> ids_ok s'.
Proof.
  intros [_ (_ & G2 & _ & _ & _ & G6) _ _ _]. apply ids_ok_same; assumption.
Qed.

Theorem vqs_wf_process t orc s a s' :
  ids_ok s -> vqs_wf s -> find_auction s (a_id a) = Some a -> scheds_wf a ->
  process t orc s a = Ok s' -> vqs_wf s'.
Proof.
  intros OK W F SW H.
  assert (OK' : ids_ok s').
  { destruct (process_spec _ _ _ _ _ H) as [PE _]. eapply proc_eff_ids_ok; eassumption. }
  unfold process in H. destruct (a_status a) eqn:St.
  - destruct (a_start a <=? t).
    + injection H as <-. eapply (vqs_wf_put_inert s _ a (set_status a Started)); try eassumption; try reflexivity.
      * unfold vest_status. rewrite St. intros [?|?]; discriminate.
      * unfold vest_status. cbn [a_status set_status]. intros [?|?]; discriminate.
    + injection H as <-. exact W.
  - destruct (last_end a <=? t); [|injection H as <-; exact W].
    destruct (a_type a).
    + pose proof (settle_auctions _ _ _ (close_fixed_inv _ _ _ H)) as HA.
      destruct (close_fixed_vqs _ _ _ H) as (r & Hr & HV).
      eapply (vqs_wf_settle s s' a a r); try eassumption; reflexivity.
    + apply close_batch_inv in H. destruct H as (order & mi & _ & _ & H).
      destruct (decision s a mi).
      * subst s'. eapply (vqs_wf_put_inert s _ a (extended s a mi)); try eassumption; try reflexivity.
        -- unfold vest_status. rewrite St. intros [?|?]; discriminate.
        -- unfold vest_status, extended. cbn [a_status set_ends set_matched_price]. rewrite St.
           intros [?|?]; discriminate.
      * pose proof (settle_auctions _ _ _ (settle_batch_inv _ _ _ _ H)) as HA.
        destruct (settle_batch_vqs _ _ _ _ H) as (r & Hr & HV).
        eapply (vqs_wf_settle s s' a (set_matched_price a (mi_price mi)) r); try eassumption; try reflexivity.
  - eapply vqs_wf_release; eassumption.
  - injection H as <-. exact W.
  - injection H as <-. exact W.
Qed.

Corollary vqs_wf_process_in t orc s a s' :
  ids_ok s -> scheds_all_wf s -> vqs_wf s -> In a (st_auctions s) ->
  process t orc s a = Ok s' -> vqs_wf s'.
Proof.
  intros OK SW W Ha. apply vqs_wf_process; try assumption.
  - apply ids_ok_find; assumption.
  - unfold scheds_all_wf in SW. rewrite Forall_forall in SW. apply SW. exact Ha.
Qed.

(* the whole list, as BeginBlocker walks it: the records are those of the state the walk started from *)
Theorem vqs_wf_process_all t orc : forall l s s',
  ids_ok s -> vqs_wf s -> NoDup (map a_id l) ->
  (forall a, In a l -> find_auction s (a_id a) = Some a /\ scheds_wf a) ->
  process_all t orc s l = Ok s' -> vqs_wf s' /\ ids_ok s'.
Proof.
  induction l as [|a rest IH]; cbn [process_all map]; intros s s' OK W ND Hl H.
  - injection H as <-. split; assumption.
  - inversion ND as [|? ? Hn ND']; subst.
    destruct (process t orc s a) as [s1|] eqn:E; cbn [bind] in H; [|discriminate H].
    destruct (Hl a (or_introl eq_refl)) as [Fa SWa].
    pose proof (vqs_wf_process _ _ _ _ _ OK W Fa SWa E) as W1.
    destruct (process_spec _ _ _ _ _ E) as [PE _].
    pose proof (proc_eff_ids_ok _ _ _ PE OK) as OK1.
    apply (IH s1 s' OK1 W1 ND'); [|exact H].
    intros b Hb. destruct (Hl b (or_intror Hb)) as [Fb SWb]. split; [|exact SWb].
    assert (Hne : a_id b <> a_id a).
    { intros Heq. apply Hn. rewrite <- Heq. apply in_map. exact Hb. }
    rewrite (se_auction _ _ _ (pe_frame _ _ _ PE _ Hne)). exact Fb.
Qed.

Theorem vqs_wf_begin_block s t orc s' :
  ids_ok s -> scheds_all_wf s -> vqs_wf s -> begin_block s t orc = Ok s' -> vqs_wf s' /\ ids_ok s'.
Proof.
  intros OK SW W H. unfold begin_block in H. cbv zeta in H.
  change (st_auctions (with_now s t)) with (st_auctions s) in H.
  apply (vqs_wf_process_all t orc (st_auctions s) (with_now s t) s').
  - exact OK.
  - apply vqs_wf_with_now. exact W.
  - apply OK.
  - intros a Ha. split.
    + change (find_auction (with_now s t) (a_id a)) with (find_auction s (a_id a)). apply ids_ok_find; assumption.
    + unfold scheds_all_wf in SW. rewrite Forall_forall in SW. apply SW. exact Ha.
  - exact H.
Qed.

(* ------------------------------------------------------------------ transactions and API calls *)
Lemma find_auction_none_ids s s' j :
  map a_id (st_auctions s') = map a_id (st_auctions s) -> find_auction s j = None -> find_auction s' j = None.
Proof.
  intros HM HN. unfold find_auction in *. apply find_none_of_notin. intros HI. rewrite HM in HI.
  apply in_map_iff in HI. destruct HI as (x & Hx & HI).
  pose proof (find_none _ _ HN x HI) as Hc. cbn beta in Hc. rewrite Hx, N.eqb_refl in Hc. discriminate Hc.
Qed.

Lemma tx_shape_vqs s o out s' : tx_shape s o out s' -> st_vqs s' = st_vqs s.
Proof. intros Sh. shape_cases Sh; reflexivity. Qed.

Lemma tx_ids_ok s o out s' : tx_shape s o out s' -> ids_ok s -> ids_ok s'.
Proof.
  intros Sh OK. destruct (tx_auction_list _ _ _ _ Sh) as [(a & _ & _ & HA & Hid & Hseq & _)|[HM HS]].
  - eapply ids_ok_create; eassumption.
  - eapply ids_ok_same; eassumption.
Qed.

Lemma vqs_wf_tx s o out s' : tx_shape s o out s' -> ids_ok s -> vqs_wf s -> vqs_wf s'.
Proof.
  intros Sh OK W. apply (vqs_wf_transfer s s'); [eapply tx_ids_ok; eassumption|eapply tx_shape_vqs; eassumption| | |exact W].
  - intros j a F St. destruct (tx_auction _ _ _ _ j a Sh F) as (a' & F' & [->|[(S1 & _)|(S1 & _)]]);
      [exact F'| |]; destruct St as [St|St]; congruence.
  - intros j a' F' St. destruct (find_auction s j) as [a|] eqn:F.
    + destruct (tx_auction _ _ _ _ j a Sh F) as (a2 & F2 & Rel). rewrite F' in F2. injection F2 as <-.
      destruct Rel as [->|[(S1 & _ & _ & ->)|(S1 & _ & _ & x & ->)]]; [reflexivity| |].
      * exfalso. unfold cancel_of in St. destruct St as [St|St]; cbn [a_status set_status] in St; discriminate St.
      * exfalso. destruct St as [St|St]; cbn [a_status set_remaining] in St; congruence.
    + exfalso. destruct (tx_auction_list _ _ _ _ Sh) as [(a & _ & _ & HA & Hid & _ & Hst & _)|[HM _]].
      * rewrite (find_auction_conv_app s s' a j HA), F in F'.
        destruct (N.eqb (a_id a) j); [|discriminate F']. injection F' as <-.
        destruct (a_start a <=? st_now s); destruct St as [St|St]; congruence.
      * rewrite (find_auction_none_ids s s' j HM F) in F'. discriminate F'.
Qed.

(* ------------------------------------------------------------------ (c) J7 is preserved by every operation *)
Theorem vqs_wf_step s o :
  ids_ok s -> scheds_all_wf s -> vqs_wf s -> o <> OGenesis -> vqs_wf (snd (step s o)).
Proof.
  intros OK SW W Hg. destruct (is_block o) eqn:B.
  - destruct (step_block s o B) as [[_ H]|[_ (tr & ->)]].
    + apply (vqs_wf_begin_block _ _ _ _ OK SW W H).
    + apply vqs_wf_with_trace, vqs_wf_with_now. exact W.
  - eapply vqs_wf_tx; [apply step_shape; assumption|exact OK|exact W].
Qed.

Corollary vqs_wf_step_inv s o :
  ids_seq s -> auctions_wf s -> vqs_wf s -> oracle_ok s o -> o <> OGenesis -> vqs_wf (snd (step s o)).
Proof.
  intros I1 I2 W _ Hg. apply vqs_wf_step; [apply ids_seq_ids_ok|apply auctions_wf_scheds| |]; assumption.
Qed.

(* ------------------------------------------------------------------ (b) never again: flags are never reset,
   queue entries are never removed or altered otherwise; new entries are appended *)
Definition vq_evolve (v v' : vq) : Prop := v' = v \/ (v_released v = false /\ v' = set_v_released v true).
Definition vqs_evolve (s s' : state) : Prop :=
  exists l new, st_vqs s' = l ++ new /\ Forall2 vq_evolve (st_vqs s) l.

Lemma vq_evolve_refl v : vq_evolve v v.
Proof. left. reflexivity. Qed.
Lemma vq_evolve_trans v1 v2 v3 : vq_evolve v1 v2 -> vq_evolve v2 v3 -> vq_evolve v1 v3.
Proof.
  intros [->|[R1 ->]] [->|[R2 ->]].
  - left; reflexivity.
  - right; split; [exact R2|reflexivity].
  - right; split; [exact R1|reflexivity].
  - cbn in R2. discriminate R2.
Qed.
Lemma Forall2_map_r {A} (R : A -> A -> Prop) (f : A -> A) l : (forall x, R x (f x)) -> Forall2 R l (map f l).
Proof. intros H. induction l as [|x l IH]; cbn [map]; constructor; auto. Qed.
Lemma Forall2_trans' {A} (R : A -> A -> Prop) :
  (forall x y z, R x y -> R y z -> R x z) ->
  forall l1 l2 l3, Forall2 R l1 l2 -> Forall2 R l2 l3 -> Forall2 R l1 l3.
Proof.
  intros HT l1 l2 l3 H12. revert l3. induction H12 as [|x y l1 l2 Hxy _ IH]; intros l3 H23.
  - inversion H23. constructor.
  - inversion H23 as [|? z ? l3' Hyz H23']; subst. constructor; [eapply HT; eassumption|apply IH; exact H23'].
Qed.
Lemma Forall2_in_l {A} (R : A -> A -> Prop) l l' x : Forall2 R l l' -> In x l -> exists y, In y l' /\ R x y.
Proof.
  induction 1 as [|a b l l' Hab _ IH]; intros Hx; [contradiction|].
  destruct Hx as [<-|Hx]; [exists b; split; [left; reflexivity|exact Hab]|].
  destruct (IH Hx) as (y & Hy & Hr). exists y. split; [right; exact Hy|exact Hr].
Qed.

Lemma vqs_evolve_same s s' : st_vqs s' = st_vqs s -> vqs_evolve s s'.
Proof.
  intros H. exists (st_vqs s), []. split; [rewrite app_nil_r; exact H|].
  rewrite <- (map_id (st_vqs s)) at 2. apply Forall2_map_r. intros x. apply vq_evolve_refl.
Qed.
Lemma vqs_evolve_refl s : vqs_evolve s s.
Proof. apply vqs_evolve_same. reflexivity. Qed.
Lemma vqs_evolve_trans s1 s2 s3 : vqs_evolve s1 s2 -> vqs_evolve s2 s3 -> vqs_evolve s1 s3.
Proof.
  intros (l1 & n1 & E1 & F1) (l2 & n2 & E2 & F2). rewrite E1 in F2.
  apply Forall2_app_inv_l in F2. destruct F2 as (la & lb & Fa & Fb & ->).
  exists la, (lb ++ n2). split; [rewrite E2, app_assoc; reflexivity|].
  eapply Forall2_trans'; [exact vq_evolve_trans|exact F1|exact Fa].
Qed.
Lemma vqs_evolve_app s s' new : st_vqs s' = st_vqs s ++ new -> vqs_evolve s s'.
Proof.
  intros H. exists (st_vqs s), new. split; [exact H|].
  rewrite <- (map_id (st_vqs s)) at 2. apply Forall2_map_r. intros x. apply vq_evolve_refl.
Qed.
Lemma mark_evolve ks x : vq_evolve x (mark ks x).
Proof.
  unfold mark. destruct (existsb (same_key x) ks); [|left; reflexivity].
  destruct (v_released x) eqn:R; [left; apply set_released_idem; exact R|right; split; [exact R|reflexivity]].
Qed.

Lemma release_loop_evolve a t vs s s' : release_loop s a t vs = Ok s' -> vqs_evolve s s'.
Proof.
  intros H. apply release_loop_spec in H. exists (st_vqs s'), []. split; [symmetry; apply app_nil_r|].
  rewrite (rs_vqs _ _ _ _ _ H). apply Forall2_map_r. intros x. apply mark_evolve.
Qed.

Lemma process_evolve t orc s a s' : process t orc s a = Ok s' -> vqs_evolve s s'.
Proof.
  unfold process. intros H. destruct (a_status a).
  - destruct (a_start a <=? t); injection H as <-; apply vqs_evolve_same; reflexivity.
  - destruct (last_end a <=? t); [|injection H as <-; apply vqs_evolve_refl].
    destruct (a_type a).
    + destruct (close_fixed_vqs _ _ _ H) as (r & _ & HV). eapply vqs_evolve_app. exact HV.
    + apply close_batch_inv in H. destruct H as (order & mi & _ & _ & H).
      destruct (decision s a mi).
      * subst s'. apply vqs_evolve_same. reflexivity.
      * destruct (settle_batch_vqs _ _ _ _ H) as (r & _ & HV). eapply vqs_evolve_app. exact HV.
  - eapply release_loop_evolve. exact H.
  - injection H as <-. apply vqs_evolve_refl.
  - injection H as <-. apply vqs_evolve_refl.
Qed.

Lemma process_all_evolve t orc : forall l s s', process_all t orc s l = Ok s' -> vqs_evolve s s'.
Proof.
  induction l as [|a l IH]; cbn [process_all]; intros s s' H.
  - injection H as <-. apply vqs_evolve_refl.
  - destruct (process t orc s a) as [s1|] eqn:E; cbn [bind] in H; [|discriminate H].
    eapply vqs_evolve_trans; [eapply process_evolve; exact E|apply IH; exact H].
Qed.

Theorem step_vqs_evolve s o : o <> OGenesis -> vqs_evolve s (snd (step s o)).
Proof.
  intros Hg. destruct (is_block o) eqn:B.
  - destruct (step_block s o B) as [[_ H]|[_ (tr & ->)]]; [|apply vqs_evolve_same; reflexivity].
    unfold begin_block in H. cbv zeta in H. apply process_all_evolve in H.
    eapply vqs_evolve_trans; [|exact H]. apply vqs_evolve_same. reflexivity.
  - apply vqs_evolve_same. eapply tx_shape_vqs. apply step_shape; assumption.
Qed.

Theorem run_vqs_evolve : forall ops s, Forall (fun o => o <> OGenesis) ops -> vqs_evolve s (run s ops).
Proof.
  unfold run. induction ops as [|o ops IH]; intros s H; cbn [fold_left]; [apply vqs_evolve_refl|].
  inversion H as [|? ? Ho Hops]; subst.
  eapply vqs_evolve_trans; [apply step_vqs_evolve; exact Ho|apply IH; exact Hops].
Qed.

(* a released entry stays in the store, unchanged, for ever *)
Lemma evolve_released_stays s s' v :
  vqs_evolve s s' -> In v (st_vqs s) -> v_released v = true -> In v (st_vqs s').
Proof.
  intros (l & new & E & F) Hv R. destruct (Forall2_in_l _ _ _ _ F Hv) as (y & Hy & [->|[R' _]]); [|congruence].
  rewrite E. apply in_or_app. left. exact Hy.
Qed.
(* no entry is ever removed: it stays under its key with the same terms *)
Lemma evolve_entry_stays s s' v :
  vqs_evolve s s' -> In v (st_vqs s) ->
  exists v', In v' (st_vqs s') /\ vkey v' = vkey v /\ v_auctioneer v' = v_auctioneer v /\ v_denom v' = v_denom v
             /\ v_amt v' = v_amt v /\ (v_released v = true -> v_released v' = true).
Proof.
  intros (l & new & E & F) Hv. destruct (Forall2_in_l _ _ _ _ F Hv) as (y & Hy & Hr).
  exists y. split; [rewrite E; apply in_or_app; left; exact Hy|].
  destruct Hr as [->|[_ ->]]; repeat split; auto.
Qed.

Theorem released_never_reset s o v :
  o <> OGenesis -> In v (st_vqs s) -> v_released v = true -> In v (st_vqs (snd (step s o))).
Proof. intros Hg. apply evolve_released_stays. apply step_vqs_evolve. exact Hg. Qed.

(* release_loop pays nothing for an entry that is already released, and leaves it alone *)
Lemma released_not_due t v : v_released v = true -> vq_due t v = false.
Proof. unfold vq_due. intros ->. apply andb_false_r. Qed.
Lemma released_not_paid t vs v : v_released v = true -> ~ In v (paid_of t vs).
Proof.
  intros R H. unfold paid_of, due_of in H. apply filter_In in H. destruct H as [H _].
  apply filter_In in H. destruct H as [_ H]. rewrite (released_not_due t v R) in H. discriminate H.
Qed.
Lemma released_unchanged id t v : v_released v = true -> release_vq id t v = v.
Proof. intros R. unfold release_vq. rewrite (released_not_due t v R), andb_false_r. reflexivity. Qed.

(* ------------------------------------------------------------------ (h) released flag = paid *)
(* the entries whose flag flips in this release are exactly the due ones *)
Lemma flipped_due id t vs :
  (forall v, In v vs -> v_auction v = id) ->
  filter (fun v => negb (v_released v) && v_released (release_vq id t v)) vs = due_of t vs.
Proof.
  intros Hid. unfold due_of. apply filter_ext_in. intros v Hv.
  rewrite release_vq_flag, (Hid v Hv), N.eqb_refl. unfold vq_due. cbn [andb].
  destruct (v_released v), (v_time v <=? t); reflexivity.
Qed.

Theorem released_iff_paid s a t s' :
  NoDup (map vkey (st_vqs s)) -> release_loop s a t (vqs_of s (a_id a)) = Ok s' ->
  let vs := vqs_of s (a_id a) in
  let flipped := filter (fun v => negb (v_released v) && v_released (release_vq (a_id a) t v)) vs in
  vqs_of s' (a_id a) = map (release_vq (a_id a) t) vs
  /\ (forall v, In v vs -> v_released (release_vq (a_id a) t v) = v_released v || (v_time v <=? t))
  /\ st_xfers s' = st_xfers s ++ map (xfer_of a) (filter (fun v => negb (v_amt v =? 0)) flipped).
Proof.
  intros ND H vs flipped. destruct (release_own_spec s a t s' ND H) as (R & _ & HVa & _).
  assert (Hid : forall v, In v vs -> v_auction v = a_id a) by (intros v Hv; apply vqs_of_in in Hv; apply Hv).
  split; [exact HVa|]. split.
  - intros v Hv. rewrite release_vq_flag, (Hid v Hv), N.eqb_refl. reflexivity.
  - rewrite (rs_xfers _ _ _ _ _ R). unfold flipped. rewrite (flipped_due _ t vs Hid). reflexivity.
Qed.
