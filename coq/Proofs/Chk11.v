(* Checker link for C11: Checkers.c11_ok never fires on a transition of the model from a state satisfying Inv.
   Part A (exact acceptance of a modification and its effects) comes from PrecondFacts / PrecondEffects;
   part B (no operation other than GENESIS removes a bid or changes its identity, price, amount; only an accepted
   modification raises price / amount / reservation) needs that blocks only rewrite the matched flags. *)
From Coq Require Import ZArith NArith List Bool Arith Lia.
From FR Require Import Dec Types Bank Match Step Genesis Model Spec Checkers.
From FR.Proofs Require Import InvDefs FrameFacts TxFacts BlockFacts InvAll FixedFacts.
From FR.Proofs Require PrecondBase PrecondFacts PrecondEffects PublishInv.
Import ListNotations.
Open Scope Z_scope.

(* ------------------------------------------------------------------ blocks only rewrite matched flags *)
Definition flag_only (g : bid -> bid) : Prop := forall b, exists x, g b = set_b_matched b x.
Definition bids_flagged (s s' : state) : Prop := exists g, flag_only g /\ st_bids s' = map g (st_bids s).

Lemma set_b_matched_eta b : set_b_matched b (b_matched b) = b.
Proof. destruct b; reflexivity. Qed.

Lemma bids_flagged_same s s' : st_bids s' = st_bids s -> bids_flagged s s'.
Proof.
  intros H. exists (fun b => b). split.
  - intros b. exists (b_matched b). symmetry. apply set_b_matched_eta.
  - rewrite H. symmetry. apply map_id.
Qed.
Lemma bids_flagged_refl s : bids_flagged s s.
Proof. apply bids_flagged_same. reflexivity. Qed.
Lemma bids_flagged_trans s1 s2 s3 : bids_flagged s1 s2 -> bids_flagged s2 s3 -> bids_flagged s1 s3.
Proof.
  intros (g & Hg & E1) (h & Hh & E2). exists (fun b => h (g b)). split.
  - intros b. destruct (Hg b) as [x Ex]. destruct (Hh (g b)) as [y Ey]. exists y. rewrite Ey, Ex. reflexivity.
  - rewrite E2, E1. apply map_map.
Qed.
Lemma bids_flagged_set_flags s id m : bids_flagged s (set_flags s id m).
Proof.
  eexists. split; [|reflexivity]. intros b. cbn beta.
  destruct (N.eqb (b_auction b) id); [eexists; reflexivity|].
  exists (b_matched b). symmetry. apply set_b_matched_eta.
Qed.

Lemma bt_only_bids id s s1 : bt_only id s s1 -> st_bids s1 = st_bids s.
Proof. intros (b & xs & tr & -> & _). reflexivity. Qed.
Lemma vest_shape_bids s1 s' a : vest_shape s1 s' a -> st_bids s' = st_bids s1.
Proof. intros (b & xs & _ & [(_ & ->)|(vs & _ & ->)]); reflexivity. Qed.
Lemma settle_shape_bids s s' a : settle_shape s s' a -> st_bids s' = st_bids s.
Proof. intros (s1 & B & V). rewrite (vest_shape_bids _ _ _ V). apply (bt_only_bids _ _ _ B). Qed.

Lemma process_bids_flagged t orc s a s' : process t orc s a = Ok s' -> bids_flagged s s'.
Proof.
  unfold process. intros H. destruct (a_status a).
  - destruct (a_start a <=? t); injection H as <-; apply bids_flagged_same; reflexivity.
  - destruct (last_end a <=? t); [|injection H as <-; apply bids_flagged_refl].
    destruct (a_type a).
    + apply close_fixed_inv in H. apply bids_flagged_same. eapply settle_shape_bids. exact H.
    + apply close_batch_inv in H. destruct H as (order & mi & _ & _ & H).
      destruct (decision s a mi).
      * subst s'. apply (bids_flagged_trans _ (set_flags s (a_id a) (mi_matched mi))); [apply bids_flagged_set_flags|].
        apply bids_flagged_same. reflexivity.
      * apply settle_batch_inv in H.
        apply (bids_flagged_trans _ (set_flags s (a_id a) (mi_matched mi))); [apply bids_flagged_set_flags|].
        apply bids_flagged_same. eapply settle_shape_bids. exact H.
  - apply bids_flagged_same. eapply release_loop_bids. exact H.
  - injection H as <-. apply bids_flagged_refl.
  - injection H as <-. apply bids_flagged_refl.
Qed.

Lemma process_all_bids_flagged t orc : forall l s s', process_all t orc s l = Ok s' -> bids_flagged s s'.
Proof.
  induction l as [|a rest IH]; cbn [process_all]; intros s s' H.
  - injection H as <-. apply bids_flagged_refl.
  - destruct (process t orc s a) as [s1|] eqn:E; cbn [bind] in H; [|discriminate H].
    eapply bids_flagged_trans; [eapply process_bids_flagged; exact E|eapply IH; exact H].
Qed.

Lemma block_bids_flagged s o : FrameFacts.is_block o = true -> bids_flagged s (snd (step s o)).
Proof.
  intros B. destruct (step_block s o B) as [[_ H]|[_ (tr & ->)]].
  - unfold begin_block in H. cbv zeta in H. apply process_all_bids_flagged in H.
    eapply bids_flagged_trans; [|exact H]. apply bids_flagged_same. reflexivity.
  - apply bids_flagged_same. reflexivity.
Qed.

(* ------------------------------------------------------------------ a bid keeps everything but, possibly, its flag *)
Definition kept (b b' : bid) : Prop := bid_keys_eq b b' /\ b_price b' = b_price b /\ b_amt b' = b_amt b.
Definition bids_kept (s s' : state) : Prop :=
  forall a i b, find_bid s a i = Some b -> exists b', find_bid s' a i = Some b' /\ kept b b'.

Lemma kept_refl b : kept b b.
Proof. split; [apply bid_keys_eq_refl|split; reflexivity]. Qed.

Lemma bids_kept_same s s' : st_bids s' = st_bids s -> bids_kept s s'.
Proof. intros H a i b F. exists b. split; [|apply kept_refl]. unfold find_bid in *. rewrite H. exact F. Qed.

Lemma bids_kept_app s s' e : st_bids s' = st_bids s ++ e -> bids_kept s s'.
Proof.
  intros H a i b F. exists b. split; [|apply kept_refl]. unfold find_bid in *. rewrite H.
  apply find_app_some. exact F.
Qed.

Lemma bids_kept_flagged s s' : bids_flagged s s' -> bids_kept s s'.
Proof.
  intros (g & Hg & E) a i b F. exists (g b). split.
  - unfold find_bid in *. rewrite E. rewrite find_map_keep; [rewrite F; reflexivity|].
    intros x. destruct (Hg x) as [y ->]. reflexivity.
  - destruct (Hg b) as [y ->]. repeat split.
Qed.

(* every operation that is not an accepted modification (nor GENESIS) *)
Lemma step_bids_kept s o :
  o <> OGenesis ->
  (forall who id bid price coin, o = OTx (MModifyBid who id bid price coin) -> fst (step s o) <> Accepted) ->
  bids_kept s (snd (step s o)).
Proof.
  intros Hgen Hmod. destruct (FrameFacts.is_block o) eqn:Hblk.
  - apply bids_kept_flagged, block_bids_flagged, Hblk.
  - pose proof (step_shape s o Hblk Hgen) as Sh.
    remember (fst (step s o)) as out eqn:Eout. remember (snd (step s o)) as s' eqn:Es'.
    clear Hblk Hgen Eout Es'.
    shape_cases Sh; try (apply bids_kept_same; reflexivity).
    + eapply bids_kept_app. reflexivity.
    + eapply bids_kept_app. reflexivity.
    + exfalso. eapply Hmod; reflexivity.
Qed.

(* ------------------------------------------------------------------ the per-bid check of part B *)
Definition bid_check (o : op) (pd : N) (b b' : bid) : bool :=
  N.eqb (b_bidder b') (b_bidder b) && btype_eqb (b_type b') (b_type b) && N.eqb (b_denom b') (b_denom b)
  && (b_price b <=? b_price b') && (b_amt b <=? b_amt b')
  && (pay_amount pd b <=? pay_amount pd b')
  && (match o with
      | OTx (MModifyBid _ id i _ _) => (N.eqb id (b_auction b) && N.eqb i (b_id b)) || ((b_price b =? b_price b') && (b_amt b =? b_amt b'))
      | _ => (b_price b =? b_price b') && (b_amt b =? b_amt b')
      end).

Lemma btype_eqb_refl x : btype_eqb x x = true. Proof. destruct x; reflexivity. Qed.

Lemma bid_check_kept o pd b b' : kept b b' -> bid_check o pd b b' = true.
Proof.
  intros ((_ & _ & Hu & Ht & Hd) & Hp & Ha). unfold bid_check, pay_amount.
  rewrite Hu, Ht, Hd, Hp, Ha, !N.eqb_refl, btype_eqb_refl, !Z.leb_refl, !Z.eqb_refl. cbn [andb].
  destruct o as [m| | | | | | |]; try reflexivity. destruct m; try reflexivity. apply orb_true_r.
Qed.

(* the bid that an accepted modification rewrites *)
Lemma bid_check_modified who id i price coin pd b p amt :
  b_auction b = id -> b_id b = i -> b_price b <= p -> b_amt b <= amt ->
  pay_amount pd b <= pay_amount pd (set_b_terms b p amt) ->
  bid_check (OTx (MModifyBid who id i price coin)) pd b (set_b_terms b p amt) = true.
Proof.
  intros Ha Hi Hp Hamt Hpay. unfold bid_check. cbn [set_b_terms b_bidder b_type b_denom b_price b_amt].
  rewrite !N.eqb_refl, btype_eqb_refl, Ha, Hi, !N.eqb_refl. cbn [andb orb]. rewrite andb_true_r.
  apply Z.leb_le in Hp, Hamt, Hpay. rewrite Hp, Hamt, Hpay. reflexivity.
Qed.

Lemma Inv_find_bid_in s b : Inv s -> In b (st_bids s) -> find_bid s (b_auction b) (b_id b) = Some b.
Proof.
  intros I Hb. unfold find_bid. apply find_of_in_unique; [|exact Hb].
  apply PublishInv.bids_wf_keys, (inv_bids _ I).
Qed.

Lemma Inv_bid_auction s b : Inv s -> In b (st_bids s) -> exists a, find_auction s (b_auction b) = Some a.
Proof.
  intros I Hb. destruct (inv_bids _ I) as [W _]. rewrite Forall_forall in W.
  destruct (bwf_auction _ _ (W b Hb)) as (a & Fa & _). eauto.
Qed.

(* ------------------------------------------------------------------ messages that ValidateBasic reads as a modification *)
Lemma check_basic_modify_form m u id bid_id p d amt :
  check_basic m = Some (CModifyBid u id bid_id p d amt) ->
  exists up, m = MModifyBid (AGood up u) id bid_id (Some p) {| mc_denom := Some d; mc_amt := Some amt |}
             /\ 0 < p /\ 0 < amt.
Proof.
  intros CB. pose proof (check_basic_matches m _ CB) as M.
  destruct m as [| | | |who id' bid' price coin| |]; cbn [cmsg_matches] in M; try contradiction.
  destruct M as [-> ->].
  apply PrecondEffects.check_basic_modify in CB.
  destruct CB as (up & u' & p' & d' & amt' & -> & -> & Hp & Hd & Ha & Hamt & E).
  injection E as -> -> -> ->. destruct coin as [cd ca]. cbn [mc_denom mc_amt] in Hd, Ha. subst cd ca.
  exists up. auto.
Qed.

Lemma sumZ_single z : sumZ [z] = z.
Proof. unfold sumZ. cbn [fold_right]. lia. Qed.

(* ------------------------------------------------------------------ the link *)
Theorem c11_ok_model s o : Inv s -> c11_ok (model_trans s o) = true.
Proof.
  intros I. pose proof (Inv_ghost_reset s I) as I0.
  unfold model_trans. fold (ghost_reset s).
  destruct (step (ghost_reset s) o) as [out s'] eqn:Es.
  assert (Es1 : fst (step (ghost_reset s) o) = out) by (rewrite Es; reflexivity).
  assert (Es2 : snd (step (ghost_reset s) o) = s') by (rewrite Es; reflexivity).
  unfold c11_ok. cbn [t_post t_pre t_op t_class t_xfers].
  apply andb_true_iff. split.
  - (* part A *)
    destruct o as [m| | | | | | |]; try reflexivity.
    destruct (check_basic m) as [c|] eqn:CB; [|reflexivity].
    destruct c as [| | | |u id bid_id price d amt| |]; try reflexivity.
    destruct (check_basic_modify_form _ _ _ _ _ _ _ CB) as (up & -> & Hp & Hamt).
    cbn [step] in Es1, Es2.
    set (m := MModifyBid (AGood up u) id bid_id (Some price) {| mc_denom := Some d; mc_amt := Some amt |}) in *.
    pose proof (PrecondFacts.C18_exact_proof (ghost_reset s) m (Inv_WF _ I0)) as Hacc.
    unfold precond in Hacc at 1. rewrite CB, Es1 in Hacc. subst m.
    change (modify_precond (ghost_reset s) u id bid_id price d amt && no_veto (ghost_reset s) H_BeforeBidModified)
      with (modify_precond s u id bid_id price d amt && no_veto s H_BeforeBidModified) in Hacc.
    destruct (modify_precond s u id bid_id price d amt && no_veto s H_BeforeBidModified) eqn:Epre.
    + assert (Ho : out = Accepted) by (apply Hacc; reflexivity). rewrite Ho in Es1 |- *. clear Hacc.
      cbn [class_of oclass_eqb Bool.eqb andb].
      apply andb_true_iff in Epre. destruct Epre as [Epre _]. unfold modify_precond in Epre.
      destruct (find_auction s id) as [a|] eqn:Fa; [|discriminate Epre].
      destruct (find_bid s id bid_id) as [b|] eqn:Fb; [|discriminate Epre].
      pose proof (PrecondEffects.C11_effects_proof (ghost_reset s) up u id bid_id price d amt a b
                    (Inv_WF _ I0) (Inv_bids_pos _ I0) Es1 Fa Fb) as Eff.
      cbv zeta in Eff. rewrite Es2 in Eff.
      destruct Eff as (Fb' & _ & _ & _ & _ & _ & _ & _ & _ & _ & _ & _ & _ & _ & _ & _ & _ & _ & _ & _ & _ & _ &
                       Hdiff & Hx & _).
      rewrite Fb', bid_eqb_refl. cbn [andb].
      set (diff := pay_amount (a_pay_denom a) (set_b_terms b price amt) - pay_amount (a_pay_denom a) b) in *.
      rewrite Hx. cbn [ghost_reset st_xfers with_trace with_bank app].
      destruct (0 <? diff) eqn:Ed.
      * unfold sum_xfers, from_to. cbn [filter x_from x_to x_denom x_amt addr_eqb role_eqb].
        rewrite !N.eqb_refl. cbn [andb map x_amt]. rewrite sumZ_single, Z.eqb_refl. reflexivity.
      * apply Z.ltb_ge in Ed. assert (E0 : diff = 0) by lia. rewrite E0. reflexivity.
    + destruct (oclass_eqb (class_of out) KOk) eqn:Ek; [|reflexivity].
      apply class_ok_iff in Ek. apply Hacc in Ek. discriminate Ek.
  - (* part B *)
    apply forallb_forall. intros b Hb.
    destruct (Inv_bid_auction s b I Hb) as [a Fa].
    pose proof (Inv_find_bid_in s b I Hb) as Fb.
    assert (Goal : o <> OGenesis ->
                   match find_bid s' (b_auction b) (b_id b) with
                   | Some b' => bid_check o (a_pay_denom a) b b'
                   | None => false end = true).
    2:{ destruct o as [m| | | | | | |]; try (rewrite Fa; apply Goal; discriminate). reflexivity. }
    intros Hg.
    (* is this an accepted modification? *)
    assert (Hcase : (forall who id bid price coin, o = OTx (MModifyBid who id bid price coin) -> out <> Accepted)
                    \/ exists who id bid price coin, o = OTx (MModifyBid who id bid price coin) /\ out = Accepted).
    { destruct o as [m| | | | | | |]; try (left; intros; discriminate).
      destruct m; try (left; intros; discriminate).
      destruct out; try (left; intros; discriminate). right. do 5 eexists. split; reflexivity. }
    destruct Hcase as [Hm|(who & id & bid & price & coin & -> & ->)].
    + assert (K : bids_kept (ghost_reset s) s').
      { rewrite <- Es2. apply step_bids_kept; [exact Hg|]. rewrite Es1. exact Hm. }
      destruct (K _ _ _ Fb) as (b' & Fb' & Kb). rewrite Fb'. apply bid_check_kept, Kb.
    + cbn [step] in Es1, Es2.
      pose proof (PrecondFacts.C18_exact_proof (ghost_reset s) (MModifyBid who id bid price coin) (Inv_WF _ I0)) as Hacc.
      destruct Hacc as [Hacc _]. specialize (Hacc Es1). unfold precond in Hacc.
      destruct (check_basic (MModifyBid who id bid price coin)) as [c|] eqn:CB; [|discriminate Hacc].
      pose proof (check_basic_matches _ _ CB) as M.
      destruct c as [| | | |u id' bid' p d amt| |]; cbn [cmsg_matches] in M; try contradiction.
      destruct M as [<- <-].
      destruct (check_basic_modify_form _ _ _ _ _ _ _ CB) as (up & Em & Hp & Hamt).
      apply andb_true_iff in Hacc. destruct Hacc as [Epre _]. unfold modify_precond in Epre.
      destruct (find_auction (ghost_reset s) id) as [a0|] eqn:Fa0; [|discriminate Epre].
      destruct (find_bid (ghost_reset s) id bid) as [b0|] eqn:Fb0; [|discriminate Epre].
      rewrite Em in Es1, Es2.
      pose proof (PrecondEffects.C11_effects_proof (ghost_reset s) up u id bid p d amt a0 b0
                    (Inv_WF _ I0) (Inv_bids_pos _ I0) Es1 Fa0 Fb0) as Eff.
      cbv zeta in Eff. rewrite Es2 in Eff.
      destruct Eff as (Fb' & _ & _ & _ & _ & _ & _ & _ & _ & _ & _ & Hother & _ & _ & _ & _ & _ & _ & _ & _ & _ & _ &
                       Hdiff & _).
      destruct (N.eq_dec (b_auction b) id) as [Ea|Ea]; [destruct (N.eq_dec (b_id b) bid) as [Ei|Ei]|].
      * (* the modified bid *)
        rewrite Ea, Ei, Fb'.
        assert (b0 = b).
        { change (find_bid (ghost_reset s) id bid) with (find_bid s id bid) in Fb0.
          rewrite <- Ea, <- Ei in Fb0. congruence. }
        subst b0.
        assert (a0 = a).
        { change (find_auction (ghost_reset s) id) with (find_auction s id) in Fa0. rewrite <- Ea in Fa0. congruence. }
        subst a0.
        assert (Hle : b_price b <= p /\ b_amt b <= amt).
        { repeat (apply andb_true_iff in Epre; destruct Epre as [Epre ?]).
          split; apply Z.leb_le; assumption. }
        apply bid_check_modified; [exact Ea|exact Ei|apply Hle|apply Hle|lia].
      * rewrite (Hother (b_auction b) (b_id b) (or_intror Ei)).
        change (find_bid (ghost_reset s) (b_auction b) (b_id b)) with (find_bid s (b_auction b) (b_id b)).
        rewrite Fb. apply bid_check_kept, kept_refl.
      * rewrite (Hother (b_auction b) (b_id b) (or_introl Ea)).
        change (find_bid (ghost_reset s) (b_auction b) (b_id b)) with (find_bid s (b_auction b) (b_id b)).
        rewrite Fb. apply bid_check_kept, kept_refl.
Qed.
