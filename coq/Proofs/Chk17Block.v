(* Checker link for C17 (hooks), part 2: a successful block.  One BeforeAllocated hook per auction that the block
   settles, in store order, whose allocation / refund maps are the amounts then transferred out of the auction's
   selling / paying escrow (read off the whole block's transfers, as the checker does). *)
From Coq Require Import ZArith NArith List Bool Arith Lia Sorting.
From FR Require Import Dec Types Bank Match Step Genesis Model Spec Checkers.
From FR.Proofs Require Import InvDefs HookBase HookFacts HookSites HookVeto HookBlock HookSettle HookBlockTrace
  Ledger LedgerCharges LedgerSettle FixedFacts Chk17.
From FR.Proofs Require FrameFacts BlockFacts InvStaticBlock InvAll MatchBase EscrowBlock.
Import ListNotations.
Open Scope Z_scope.

(* ------------------------------------------------------------------ processing an auction moves coins out of its own escrows only *)
Definition ownQ (id : N) (x : xfer) : Prop := exists r, x_from x = Escrow r id.

Section Own.
Variable id : N.
Let Q := ownQ id.
Lemma own_mk r t d a : Q (mkx (Escrow r id) t d a).
Proof. exists r. reflexivity. Qed.

Lemma allocate_own s a mi w : a_id a = id -> logR Q s (allocate s a mi w).
Proof.
  intros E. unfold allocate. apply logR_bind; [apply call_hook_logR|]. intros s1 _. apply pay_out_logR.
  intros u x _. rewrite E. apply own_mk.
Qed.
Lemma apply_vesting_own s a : a_id a = id -> logR Q s (apply_vesting s a).
Proof.
  intros E. unfold apply_vesting. cbv zeta. rewrite E. destruct (a_scheds a) as [|v vs].
  - apply logR_bind; [apply send_logR; intros _; apply own_mk|]. intros s1 _. apply logR_Ok_same. reflexivity.
  - apply logR_bind; [apply send_logR; intros _; apply own_mk|]. intros s1 _. apply logR_Ok_same. reflexivity.
Qed.
Lemma refund_selling_own s a : a_id a = id -> logR Q s (refund_selling s a).
Proof. intros E. unfold refund_selling. rewrite E. apply send_logR. intros _. apply own_mk. Qed.
Lemma close_fixed_own s a : a_id a = id -> logR Q s (close_fixed s a).
Proof.
  intros E. unfold close_fixed. cbv zeta. apply logR_bind; [apply allocate_own, E|]. intros s1 _.
  apply logR_bind; [apply refund_selling_own, E|]. intros s2 _. apply apply_vesting_own, E.
Qed.
Lemma settle_batch_own s a mi : a_id a = id -> logR Q s (settle_batch s a mi).
Proof.
  intros E. unfold settle_batch. apply logR_bind; [apply allocate_own, E|]. intros s1 _.
  apply logR_bind; [apply refund_selling_own, E|]. intros s2 _.
  apply logR_bind; [apply pay_out_logR; intros u x _; rewrite E; apply own_mk|]. intros s3 _. apply apply_vesting_own, E.
Qed.
Lemma close_batch_own s orc a : a_id a = id -> logR Q s (close_batch s orc a).
Proof.
  intros E. unfold close_batch. cbv zeta.
  destruct (valid_order (bids_of s (a_id a)) _) as [order|]; [|exact I].
  destruct (calc_batch a (bids_of s (a_id a)) order (allowed_of s (a_id a))) as [mi|]; [|exact I].
  assert (Hs : logR Q s (settle_batch (set_flags s (a_id a) (mi_matched mi)) (set_matched_price a (mi_price mi)) mi)).
  { eapply logR_pre; [|apply settle_batch_own; exact E]. reflexivity. }
  assert (He : logR Q s (extend_round (set_flags s (a_id a) (mi_matched mi)) (set_matched_price a (mi_price mi)))).
  { unfold extend_round. apply logR_Ok_same. reflexivity. }
  repeat match goal with |- logR _ _ (if ?b then _ else _) => destruct b end; assumption.
Qed.
Lemma release_loop_own a t : a_id a = id -> forall vs s, logR Q s (release_loop s a t vs).
Proof.
  intros E. induction vs as [|v rest IH]; intros s; cbn [release_loop].
  - apply logQ_refl.
  - destruct ((v_time v <=? t) && negb (v_released v)); [|apply IH].
    apply logR_bind; [apply send_logR; intros _; rewrite E; apply own_mk|]. intros s1 _. cbv zeta.
    eapply logR_pre; [|apply IH]. destruct rest; reflexivity.
Qed.
Lemma process_own t orc s a : a_id a = id -> logR Q s (process t orc s a).
Proof.
  intros E. unfold process. destruct (a_status a).
  - destruct (a_start a <=? t); apply logR_Ok_same; reflexivity.
  - destruct (last_end a <=? t); [|apply logQ_refl].
    destruct (a_type a); [apply close_fixed_own, E|apply close_batch_own, E].
  - apply release_loop_own, E.
  - apply logQ_refl.
  - apply logQ_refl.
Qed.
End Own.

(* ------------------------------------------------------------------ what the checker expects, per auction *)
Definition chk_hook (xs : list xfer) (bs : list bid) (a : auction) : N * list Z :=
  (H_BeforeAllocated,
   zN (a_id a) :: enc_map (bidders_of bs)
       (fun u => if N.eqb u (a_auctioneer a) then -1
                 else sum_xfers xs (from_to (Escrow Selling (a_id a)) (User u) (a_sell_denom a)))
   ++ match a_type a with
      | Batch => enc_map (bidders_of bs)
                   (fun u => if N.eqb u (a_auctioneer a) then -1
                             else sum_xfers xs (from_to (Escrow Paying (a_id a)) (User u) (a_pay_denom a)))
      | FixedPrice => [0]
      end).

Definition settles_in (s' : state) (a : auction) : bool :=
  match find_auction s' (a_id a) with
  | Some a' => status_eqb (a_status a) Started && settled (a_status a')
  | None => false
  end.

Lemma enc_map_ext us f g : (forall u, f u = g u) -> enc_map us f = enc_map us g.
Proof.
  intros H. unfold enc_map. f_equal. induction us as [|u r IH]; cbn [flat_map]; [reflexivity|]. rewrite H, IH. reflexivity.
Qed.

Lemma chk_hook_ext xs xs' bs a :
  (forall r to d, sum_xfers xs (from_to (Escrow r (a_id a)) to d) = sum_xfers xs' (from_to (Escrow r (a_id a)) to d)) ->
  chk_hook xs bs a = chk_hook xs' bs a.
Proof.
  intros H. unfold chk_hook. f_equal. f_equal. f_equal.
  - apply enc_map_ext. intros u. rewrite H. reflexivity.
  - destruct (a_type a); [reflexivity|]. apply enc_map_ext. intros u. rewrite H. reflexivity.
Qed.

Lemma paired_filter_map {B} (f : auction -> option auction) (g : auction * auction -> bool)
      (F : auction * auction -> B) (F' : auction -> B) (L : list auction) :
  (forall p, F p = F' (fst p)) ->
  map F (filter g (flat_map (fun a => match f a with Some a' => [(a, a')] | None => [] end) L))
  = map F' (filter (fun a => match f a with Some a' => g (a, a') | None => false end) L).
Proof.
  intros HF. induction L as [|a L IH]; cbn [flat_map filter map]; [reflexivity|].
  destruct (f a) as [a'|]; cbn [app filter]; [|exact IH].
  destruct (g (a, a')); cbn [map]; [rewrite HF, IH; reflexivity|exact IH].
Qed.

Lemma block_expected_hooks t : Checkers.is_block (t_op t) = true ->
  expected_hooks t
  = map (fun a => chk_hook (t_xfers t) (bids_of (t_pre t) (a_id a)) a) (filter (settles_in (t_post t)) (st_auctions (t_pre t))).
Proof.
  intros B. unfold expected_hooks.
  assert (E : map (fun p : auction * auction =>
                (H_BeforeAllocated,
                 zN (a_id (fst p)) :: enc_map (bidders_of (bids_of (t_pre t) (a_id (fst p))))
                   (fun u => if N.eqb u (a_auctioneer (fst p)) then -1 else received t (a_id (fst p)) (a_sell_denom (fst p)) u)
                 ++ match a_type (fst p) with
                    | Batch => enc_map (bidders_of (bids_of (t_pre t) (a_id (fst p))))
                                 (fun u => if N.eqb u (a_auctioneer (fst p)) then -1 else refunded t (a_id (fst p)) (a_pay_denom (fst p)) u)
                    | FixedPrice => [0]
                    end)) (settling t)
          = map (fun a => chk_hook (t_xfers t) (bids_of (t_pre t) (a_id a)) a) (filter (settles_in (t_post t)) (st_auctions (t_pre t)))).
  { unfold settling, paired.
    apply (paired_filter_map (fun a => find_auction (t_post t) (a_id a))
             (fun p => status_eqb (a_status (fst p)) Started && settled (a_status (snd p)))).
    intros p. reflexivity. }
  destruct (t_op t); try discriminate B; exact E.
Qed.

(* ------------------------------------------------------------------ sums over the transfers of other auctions *)
Definition src_in (ids : list N) (x : xfer) : Prop := exists r j, x_from x = Escrow r j /\ In j ids.

Lemma sum_xfers_src_none xs ids r id to d :
  Forall (src_in ids) xs -> ~ In id ids -> sum_xfers xs (from_to (Escrow r id) to d) = 0.
Proof.
  intros HF Hn. apply sum_xfers_none. intros x Hx. rewrite Forall_forall in HF.
  destruct (HF x Hx) as (r' & j & E & Hj). unfold from_to. rewrite E. cbn [addr_eqb].
  assert (N.eqb j id = false) as ->; [apply N.eqb_neq; intros C; subst; contradiction|].
  rewrite andb_false_r. reflexivity.
Qed.

Lemma sum_xfers_own_none xs j r id to d :
  Forall (ownQ j) xs -> id <> j -> sum_xfers xs (from_to (Escrow r id) to d) = 0.
Proof.
  intros HF Hn. apply (sum_xfers_src_none xs [j]).
  - eapply Forall_impl; [|exact HF]. intros x [r' E]. exists r', j. split; [exact E|left; reflexivity].
  - intros [C|[]]. congruence.
Qed.

(* ------------------------------------------------------------------ one settling auction *)
Lemma settling_process t orc s a s1 a' :
  Inv s -> find_auction s (a_id a) = Some a -> a_status a = Started -> process t orc s a = Ok s1 ->
  find_auction s1 (a_id a) = Some a' -> settled (a_status a') = true ->
  exists a2 mi wr,
    a_id a2 = a_id a
    /\ st_trace s1 = st_trace s ++ expected_trace s [(H_BeforeAllocated, alloc_args a2 mi wr)]
    /\ st_xfers s1 = st_xfers s ++ settle_xfers s a mi wr
    /\ mi_bidders mi = bidders_of (bids_of s (a_id a))
    /\ wr = match a_type a with Batch => true | FixedPrice => false end.
Proof.
  intros I Fa St H Fa' Hs.
  assert (Hst' : a_status a' = VestingS \/ a_status a' = Finished).
  { unfold settled in Hs. destruct (a_status a'); cbn in Hs; try discriminate Hs; auto. }
  destruct (process_settling t orc s a s1 a' Fa St H Fa' Hst') as (mi & wr & Hw & Hg).
  pose proof (settles_dues t orc s a mi wr I Fa St Hw) as D.
  pose proof Hg as Hg'. apply settle_gen_xfers in Hg'. destruct Hg' as (L & _).
  destruct Hw as [_ [(Ty & -> & ->)|(Ty & -> & _)]].
  - exists a, (calc_fixed a (bids_of s (a_id a))), false. split; [reflexivity|].
    rewrite <- EscrowBlock.close_fixed_gen in Hg. apply close_fixed_hooks in Hg. cbv zeta in Hg. destruct Hg as [Ht _].
    split; [exact Ht|]. split; [exact (lb_xfers _ _ _ L)|]. split; [apply (du_bidders _ _ _ _ D)|]. rewrite Ty. reflexivity.
  - exists (set_matched_price a (mi_price mi)), mi, true. split; [reflexivity|].
    rewrite <- EscrowBlock.settle_batch_gen in Hg. apply settle_batch_hooks in Hg. destruct Hg as [Ht _].
    split; [exact Ht|]. split; [exact (lb_xfers _ _ _ L)|]. split; [apply (du_bidders _ _ _ _ D)|]. rewrite Ty. reflexivity.
Qed.

Lemma head_hook_ok s a mi wr a2 xr :
  a_id a2 = a_id a -> mi_bidders mi = bidders_of (bids_of s (a_id a)) ->
  wr = match a_type a with Batch => true | FixedPrice => false end ->
  (forall r to d, sum_xfers xr (from_to (Escrow r (a_id a)) to d) = 0) ->
  hm (chk_hook (settle_xfers s a mi wr ++ xr) (bids_of s (a_id a)) a) (H_BeforeAllocated, alloc_args a2 mi wr).
Proof.
  intros Eid Eb Ew Hxr. split; [reflexivity|]. cbn [snd chk_hook]. unfold alloc_args.
  assert (Hnd : NoDup (mi_bidders mi)) by (rewrite Eb; apply MatchBase.bidders_of_nodup).
  assert (Hin : forall u, In u (mi_bidders mi) -> existsb (N.eqb u) (mi_bidders mi) = true).
  { intros u Hu. apply existsb_exists. exists u. split; [exact Hu|apply N.eqb_refl]. }
  constructor; [right; rewrite Eid; reflexivity|]. rewrite <- Eb. apply okm_app.
  - apply okm_enc_map. intros u Hu. destruct (N.eqb u (a_auctioneer a)) eqn:Eu; [left; reflexivity|right].
    rewrite sum_xfers_app, Hxr. destruct (settle_xfers_received s a mi wr u Hnd) as [E _]. rewrite E, (Hin u Hu).
    rewrite N.eqb_sym, Eu. lia.
  - subst wr. destruct (a_type a); [apply okm_refl|].
    apply okm_enc_map. intros u Hu. destruct (N.eqb u (a_auctioneer a)) eqn:Eu; [left; reflexivity|right].
    rewrite sum_xfers_app, Hxr. destruct (settle_xfers_received s a mi true u Hnd) as [_ E]. rewrite E, (Hin u Hu).
    cbn [andb]. rewrite N.eqb_sym, Eu. destruct (a_scheds a); lia.
Qed.

(* ------------------------------------------------------------------ the whole walk *)
Lemma process_all_hooks t orc : forall l sc s',
  Inv sc -> NoDup (map a_id l) -> (forall a, In a l -> In a (st_auctions sc)) ->
  process_all t orc sc l = Ok s' ->
  exists xs G,
    st_xfers s' = st_xfers sc ++ xs /\ Forall (src_in (map a_id l)) xs /\
    st_trace s' = st_trace sc ++ expected_trace sc G /\
    Forall2 hm (map (fun a => chk_hook xs (bids_of sc (a_id a)) a) (filter (settles_in s') l)) G.
Proof.
  induction l as [|a rest IH]; intros sc s' I ND Hl H; cbn [process_all] in H.
  - injection H as <-. exists [], []. rewrite !app_nil_r. cbn [filter map].
    split; [reflexivity|]. split; [constructor|]. split; [reflexivity|constructor].
  - apply bind_ok_inv in H as [s1 [H1 H]]. inversion ND as [|? ? Hn ND']; subst.
    assert (Ha : In a (st_auctions sc)) by (apply Hl; left; reflexivity).
    pose proof (InvAll.Inv_find_in sc a I Ha) as Fa.
    assert (I1 : Inv s1) by (eapply InvAll.Inv_process; eassumption).
    assert (Hl' : forall y, In y rest -> In y (st_auctions s1)).
    { intros y Hy. apply (InvStaticBlock.process_keeps t orc sc a s1 y (InvAll.Inv_InvS sc I) Ha H1); [apply Hl; right; exact Hy|].
      intros C. apply Hn. rewrite <- C. apply in_map. exact Hy. }
    destruct (IH s1 s' I1 ND' Hl' H) as (xr & Gr & Xr & Qr & Tr & Mr).
    pose proof (process_own (a_id a) t orc sc a eq_refl) as Own. rewrite H1 in Own. destruct Own as (xa & Xa & Qa).
    pose proof (process_listeners _ _ _ _ _ H1) as Hls.
    pose proof (process_all_other rest t orc s1 s' (a_id a) H Hn) as Ff.
    destruct (BlockFacts.process_spec _ _ _ _ _ H1) as [[P1 _ _ _ _] _].
    rewrite (expected_trace_listeners sc s1 Gr Hls) in Tr.
    assert (Hxr0 : forall r to d, sum_xfers xr (from_to (Escrow r (a_id a)) to d) = 0).
    { intros r to d. apply (sum_xfers_src_none xr (map a_id rest)); assumption. }
    (* the tail, over the transfers of the whole walk *)
    assert (Tail : map (fun y => chk_hook (xa ++ xr) (bids_of sc (a_id y)) y) (filter (settles_in s') rest)
                   = map (fun y => chk_hook xr (bids_of s1 (a_id y)) y) (filter (settles_in s') rest)).
    { apply map_ext_in. intros y Hy. apply filter_In in Hy. destruct Hy as [Hy _].
      assert (Hne : a_id y <> a_id a) by (intros C; apply Hn; rewrite <- C; apply in_map; exact Hy).
      rewrite (FrameFacts.se_bids _ _ _ (P1 (a_id y) Hne)).
      apply chk_hook_ext. intros r to d. rewrite sum_xfers_app, (sum_xfers_own_none xa (a_id a)) by assumption. lia. }
    assert (Src : Forall (src_in (map a_id (a :: rest))) (xa ++ xr)).
    { apply Forall_app. split.
      - eapply Forall_impl; [|exact Qa]. intros x [r E]. exists r, (a_id a). split; [exact E|left; reflexivity].
      - eapply Forall_impl; [|exact Qr]. intros x (r & j & E & Hj). exists r, j. split; [exact E|right; exact Hj]. }
    assert (Xs : st_xfers s' = st_xfers sc ++ xa ++ xr) by (rewrite Xr, Xa, app_assoc; reflexivity).
    cbn [filter]. destruct (settles_in s' a) eqn:Sa.
    + unfold settles_in in Sa. rewrite Ff in Sa. destruct (find_auction s1 (a_id a)) as [a'|] eqn:Fa'; [|discriminate Sa].
      apply andb_true_iff in Sa. destruct Sa as [St Hs].
      assert (St' : a_status a = Started) by (destruct (a_status a); try discriminate St; reflexivity).
      destruct (settling_process t orc sc a s1 a' I Fa St' H1 Fa' Hs) as (a2 & mi & wr & Eid & Ta & Xa' & Eb & Ew).
      assert (xa = settle_xfers sc a mi wr) by (rewrite Xa in Xa'; apply app_inv_head in Xa'; exact Xa'). subst xa.
      exists (settle_xfers sc a mi wr ++ xr), ((H_BeforeAllocated, alloc_args a2 mi wr) :: Gr).
      split; [exact Xs|]. split; [exact Src|]. split.
      * rewrite Tr, Ta. change ((H_BeforeAllocated, alloc_args a2 mi wr) :: Gr) with ([(H_BeforeAllocated, alloc_args a2 mi wr)] ++ Gr).
        rewrite expected_trace_app, app_assoc. reflexivity.
      * cbn [map]. constructor; [apply head_hook_ok; assumption|]. rewrite Tail. exact Mr.
    + exists (xa ++ xr), Gr. split; [exact Xs|]. split; [exact Src|]. split; [|rewrite Tail; exact Mr].
      destruct (process_settles t orc sc a s1 H1 (in_map a_id _ _ Ha)) as [Ht|(St & x & Fx & Hx)]; [rewrite Tr, Ht; reflexivity|].
      exfalso. unfold settles_in in Sa. rewrite Ff, Fx, St, Hx in Sa. discriminate Sa.
Qed.

Theorem block_hooks s t orc s' :
  Inv s -> begin_block s t orc = Ok s' ->
  exists xs G,
    st_xfers s' = st_xfers s ++ xs /\ st_trace s' = st_trace s ++ expected_trace s G /\
    Forall2 hm (map (fun a => chk_hook xs (bids_of s (a_id a)) a) (filter (settles_in s') (st_auctions s))) G.
Proof.
  intros I H. unfold begin_block in H. cbv zeta in H.
  assert (I0 : Inv (with_now s t)) by (apply InvAll.Inv_with_now, I).
  assert (ND : NoDup (map a_id (st_auctions (with_now s t)))) by (destruct (InvAll.Inv_ids_ok s I) as [ND _]; exact ND).
  destruct (process_all_hooks t orc _ _ _ I0 ND (fun y Hy => Hy) H) as (xs & G & X & _ & T & M).
  exists xs, G. split; [exact X|]. split; [exact T|exact M].
Qed.

(* ------------------------------------------------------------------ the executable statement (Checkers.c17_ok) *)
Theorem c17_ok_model s o : Inv s -> oracle_ok s o -> c17_ok (model_trans s o) = true.
Proof.
  intros I _.
  destruct o as [m|id l|id u max|t orc|t orc k|from to d amt|ls|].
  - apply c17_call; [exact I|exact Logic.I].
  - apply c17_call; [exact I|exact Logic.I].
  - apply c17_call; [exact I|exact Logic.I].
  - (* OBlock *)
    pose proof (Inv_ghost_reset s I) as I0.
    pose proof (block_verdict (ghost_reset s) t orc) as V.
    unfold model_trans. fold (ghost_reset s). cbn [step] in *.
    destruct (begin_block (ghost_reset s) t orc) as [s'|c tr] eqn:Hb.
    + cbn [fst snd] in V.
      assert (Htr : st_trace s' = st_trace (ghost_reset s) ++ st_trace s') by reflexivity.
      apply c17_succeeded; cbn [t_class t_pre t_trace class_of]; [right; reflexivity| |].
      * rewrite vetoed_gr. destruct (vetoed (ghost_reset s) (st_trace s')) eqn:Hv; [|reflexivity].
        apply (vd_iff _ _ _ _ V _ Htr) in Hv. discriminate Hv.
      * rewrite block_expected_hooks by reflexivity. cbn [t_xfers t_pre t_post].
        destruct (block_hooks (ghost_reset s) t orc s' I0 Hb) as (xs & G & X & T & M).
        change (st_xfers (ghost_reset s) ++ xs) with xs in X. change (st_trace (ghost_reset s) ++ expected_trace (ghost_reset s) G)
          with (expected_trace s G) in T. rewrite X, T. apply expected_trace_hm. exact M.
    + cbn [fst snd] in V.
      assert (Htr : st_trace (with_trace (with_now (ghost_reset s) t) tr) = st_trace (ghost_reset s) ++ tr) by reflexivity.
      apply c17_failed; cbn [t_class t_pre t_trace class_of with_trace st_trace].
      * destruct (N.eqb c E_PANIC); auto.
      * rewrite stops_gr. exact (vd_stops _ _ _ _ V _ Htr).
  - (* OFaultBlock *)
    pose proof (Inv_ghost_reset s I) as I0.
    pose proof (fault_block_verdict (ghost_reset s) t orc k) as V.
    unfold model_trans. fold (ghost_reset s). cbn [step] in *.
    destruct (begin_block (ghost_reset s) t orc) as [s'|c tr] eqn:Hb.
    + destruct (Nat.ltb k (length (st_xfers s') - length (st_xfers (ghost_reset s)))).
      * apply c17_silent; [reflexivity|]. cbn [t_class class_of]. intros [C|C]; discriminate C.
      * cbn [fst snd] in V.
        assert (Htr : st_trace s' = st_trace (ghost_reset s) ++ st_trace s') by reflexivity.
        apply c17_succeeded; cbn [t_class t_pre t_trace class_of]; [right; reflexivity| |].
        -- rewrite vetoed_gr. destruct (vetoed (ghost_reset s) (st_trace s')) eqn:Hv; [|reflexivity].
           apply (vd_iff _ _ _ _ V _ Htr) in Hv. discriminate Hv.
        -- rewrite block_expected_hooks by reflexivity. cbn [t_xfers t_pre t_post].
           destruct (block_hooks (ghost_reset s) t orc s' I0 Hb) as (xs & G & X & T & M).
           change (st_xfers (ghost_reset s) ++ xs) with xs in X. change (st_trace (ghost_reset s) ++ expected_trace (ghost_reset s) G)
             with (expected_trace s G) in T. rewrite X, T. apply expected_trace_hm. exact M.
    + cbn [fst snd] in V.
      assert (Htr : st_trace (with_trace (with_now (ghost_reset s) t) tr) = st_trace (ghost_reset s) ++ tr) by reflexivity.
      apply c17_failed; cbn [t_class t_pre t_trace class_of with_trace st_trace].
      * destruct (N.eqb c E_PANIC); auto.
      * rewrite stops_gr. exact (vd_stops _ _ _ _ V _ Htr).
  - (* OSend *)
    unfold model_trans. fold (ghost_reset s).
    pose proof (send_no_hooks (ghost_reset s) from to d amt) as Hn.
    destruct (step (ghost_reset s) (OSend from to d amt)) as [out s'] eqn:Es. cbn [snd] in Hn.
    apply c17_silent; cbn [t_trace]; [exact Hn|]. intros _. reflexivity.
  - (* OSetListeners *)
    unfold model_trans. cbn [step]. apply c17_silent; [reflexivity|]. intros _. reflexivity.
  - (* OGenesis *)
    unfold model_trans. fold (ghost_reset s).
    pose proof (genesis_no_hooks (ghost_reset s)) as Hn.
    destruct (step (ghost_reset s) OGenesis) as [out s'] eqn:Es. cbn [snd] in Hn.
    apply c17_silent; cbn [t_trace]; [exact Hn|]. intros _. reflexivity.
Qed.
