(* C01, exact form: the excess equation for every operation (including GENESIS), along every history,
   from the empty module, and the link to the executable checker Checkers.c01_ok. *)
From Coq Require Import ZArith NArith List Bool Arith Lia.
From FR Require Import Dec Types Bank Match Step Genesis Model Spec.
From FR Require Checkers.
From FR.Proofs Require Import InvDefs FrameFacts TxFacts BlockFacts.
From FR.Proofs Require GenesisImport.
From FR.Proofs Require Import EscrowBase InvAll ExcessDefs ExcessTx ExcessBlock.
Import ListNotations.
Open Scope Z_scope.

(* ------------------------------------------------------------------ GENESIS *)
Lemma excess_step_genesis s : Inv s -> exc_step s OGenesis.
Proof.
  intros I. destruct (GenesisImport.genesis_step s I) as (s' & Hs & SS).
  apply exc_step_of_rel; [reflexivity|]. rewrite Hs. cbn [snd].
  destruct SS as [Ha _ Hb _ _ _ _ Hv _ _ _ _ Hbal _ _ _ _ _].
  intros r id d.
  rewrite sweepsP_same by (unfold find_auction; now rewrite Ha).
  unfold excess, owed, find_auction. rewrite Hbal, Ha, Hb, Hv. reflexivity.
Qed.

(* ------------------------------------------------------------------ every operation *)
Theorem excess_step s o : Inv s -> forall r id d,
  excess (snd (step s o)) r id d
  = if sweepsP s (snd (step s o)) r id d then 0 else excess s r id d + donation o (fst (step s o)) r id d.
Proof.
  intros I. change (exc_step s o). destruct (is_block o) eqn:B.
  - apply excess_step_block; assumption.
  - destruct o as [m|id l|id u max|t orc|t orc k|from to d amt|ls|];
      try (apply excess_step_tx; [exact I|exact B|discriminate]).
    apply excess_step_genesis, I.
Qed.

(* ------------------------------------------------------------------ every history *)
Fixpoint ghost (s : state) (ops : list op) (e : Z) (r : role) (id d : N) : Z :=
  match ops with
  | [] => e
  | o :: rest => ghost (snd (step s o)) rest
                   (if sweepsP s (snd (step s o)) r id d then 0 else e + donation o (fst (step s o)) r id d) r id d
  end.

Theorem excess_run ops : forall s, Inv s -> forall r id d, excess (run s ops) r id d = ghost s ops (excess s r id d) r id d.
Proof.
  unfold run. induction ops as [|o ops IH]; cbn [fold_left ghost]; intros s I r id d; [reflexivity|].
  rewrite (IH _ (Inv_step s o I)). rewrite (excess_step s o I). reflexivity.
Qed.

(* from the empty module: balance = owed + unswept third-party coins *)
Theorem escrow_exact bal now sw p ops r id d :
  (forall x d, 0 <= bal x d) -> coins_ok (p_cfee p) None = true -> coins_ok (p_bfee p) None = true ->
  let s := run (init_state bal now sw p) ops in
  st_bal s (Escrow r id) d = owed s r id d + ghost (init_state bal now sw p) ops (bal (Escrow r id) d) r id d
  /\ 0 <= ghost (init_state bal now sw p) ops (bal (Escrow r id) d) r id d.
Proof.
  intros Hb H1 H2 s.
  pose proof (Inv_init bal now sw p Hb H1 H2) as I0.
  pose proof (excess_run ops _ I0 r id d) as E. fold s in E.
  assert (E0 : excess (init_state bal now sw p) r id d = bal (Escrow r id) d).
  { unfold excess, owed. cbn. lia. }
  rewrite E0 in E. rewrite <- E. unfold excess. split; [lia|].
  pose proof (Inv_run ops _ I0) as I. fold s in I. destruct (inv_escrow _ I) as [_ He].
  specialize (He r id d). lia.
Qed.

(* histories without deposits into the escrow (r,id) in denom d *)
Definition no_deposit (r : role) (id d : N) (o : op) : Prop :=
  match o with OSend _ to d' _ => to <> Escrow r id \/ d' <> d | _ => True end.
(* the plain form of the property text: no send to that account at all *)
Definition no_send_to (r : role) (id : N) (o : op) : Prop :=
  match o with OSend _ to _ _ => to <> Escrow r id | _ => True end.

Lemma no_send_no_deposit r id d o : no_send_to r id o -> no_deposit r id d o.
Proof. destruct o; cbn; auto. Qed.

Lemma donation_no_deposit r id d o out : no_deposit r id d o -> donation o out r id d = 0.
Proof.
  destruct o; try reflexivity. cbn [no_deposit donation]. intros H. destruct out; try reflexivity.
  destruct (addr_eqb to (Escrow r id) && N.eqb d d0) eqn:E; [|reflexivity].
  apply andb_true_iff in E. destruct E as [E1 E2]. apply addr_eqb_eq in E1. apply N.eqb_eq in E2.
  destruct H as [H|H]; [contradiction|congruence].
Qed.

Theorem ghost_no_deposits ops : forall s r id d,
  Forall (no_deposit r id d) ops -> ghost s ops 0 r id d = 0.
Proof.
  induction ops as [|o ops IH]; cbn [ghost]; intros s r id d H; [reflexivity|].
  inversion H as [|? ? Ho Hops]; subst.
  rewrite (donation_no_deposit r id d o _ Ho). destruct (sweepsP _ _ _ _ _); apply IH; exact Hops.
Qed.

Theorem ghost_no_donations ops : forall s r id d,
  Forall (no_send_to r id) ops -> ghost s ops 0 r id d = 0.
Proof.
  intros s r id d H. apply ghost_no_deposits. eapply Forall_impl; [|exact H].
  intros o. apply no_send_no_deposit.
Qed.

(* the first sentence of the property: without third-party deposits the escrow holds exactly what is owed *)
Theorem escrow_exact_no_deposits bal now sw p ops r id d :
  (forall x d, 0 <= bal x d) -> coins_ok (p_cfee p) None = true -> coins_ok (p_bfee p) None = true ->
  bal (Escrow r id) d = 0 -> Forall (no_deposit r id d) ops ->
  let s := run (init_state bal now sw p) ops in st_bal s (Escrow r id) d = owed s r id d.
Proof.
  intros Hb H1 H2 H0 Hops s.
  destruct (escrow_exact bal now sw p ops r id d Hb H1 H2) as [E _]. fold s in E.
  rewrite H0, ghost_no_deposits in E by exact Hops. lia.
Qed.

Corollary escrow_exact_no_donations bal now sw p ops r id d :
  (forall x d, 0 <= bal x d) -> coins_ok (p_cfee p) None = true -> coins_ok (p_bfee p) None = true ->
  bal (Escrow r id) d = 0 -> Forall (no_send_to r id) ops ->
  let s := run (init_state bal now sw p) ops in st_bal s (Escrow r id) d = owed s r id d.
Proof.
  intros Hb H1 H2 H0 Hops. apply escrow_exact_no_deposits; try assumption.
  eapply Forall_impl; [|exact Hops]. intros o. apply no_send_no_deposit.
Qed.

(* ------------------------------------------------------------------ the checker *)
Lemma owed_same s r id d : Checkers.owed s r id d = owed s r id d.
Proof. reflexivity. Qed.
Lemma excess_same s r id d : Checkers.excess s r id d = excess s r id d.
Proof. reflexivity. Qed.

Lemma donated_same s o out s' xs tr f g r id d :
  Checkers.donated {| Checkers.t_pre := s; Checkers.t_op := o; Checkers.t_class := Checkers.class_of out;
                      Checkers.t_xfers := xs; Checkers.t_trace := tr; Checkers.t_post := s';
                      Checkers.t_fault := f; Checkers.t_gen_valid := g |} r id d
  = donation o out r id d.
Proof.
  unfold Checkers.donated, donation. cbn [Checkers.t_op Checkers.t_class].
  destruct o; try reflexivity. destruct out; try reflexivity.
  cbn [Checkers.class_of]. destruct (N.eqb code E_PANIC); reflexivity.
Qed.

Lemma sweeps_same s o c s' xs tr f g r id d :
  Checkers.sweeps {| Checkers.t_pre := s; Checkers.t_op := o; Checkers.t_class := c;
                     Checkers.t_xfers := xs; Checkers.t_trace := tr; Checkers.t_post := s';
                     Checkers.t_fault := f; Checkers.t_gen_valid := g |} r id d
  = sweepsP s s' r id d.
Proof. reflexivity. Qed.

Theorem c01_ok_model s o : Inv s -> Checkers.c01_ok (Checkers.model_trans s o) = true.
Proof.
  intros I. set (s0 := with_trace (with_bank s (st_bal s) []) []).
  assert (I0 : Inv s0) by (apply (Inv_ext s s0); try reflexivity; exact I).
  unfold Checkers.model_trans. fold s0.
  pose proof (excess_step s0 o I0) as ES. pose proof (Inv_step s0 o I0) as I1.
  destruct (step s0 o) as [out s'] eqn:Est. cbn [fst snd] in ES, I1.
  unfold Checkers.c01_ok. cbn [Checkers.t_post Checkers.t_pre].
  apply forallb_forall. intros id _. apply forallb_forall. intros r _. apply forallb_forall. intros d _.
  cbv zeta. rewrite sweeps_same, donated_same, !excess_same.
  apply andb_true_iff. split.
  - apply Z.leb_le. destruct (inv_escrow _ I1) as [_ He]. specialize (He r id d). unfold excess. lia.
  - rewrite (ES r id d).
    assert (E0 : excess s0 r id d = excess s r id d) by (apply excess_ext; reflexivity).
    rewrite (sweepsP_conv_l s s0 s' r id d eq_refl), E0.
    destruct (sweepsP s s' r id d); apply Z.eqb_refl.
Qed.
