(* escrow_inv (J8) and remaining_inv (J6) are preserved by every transaction, API call and plain send. *)
From Coq Require Import ZArith NArith List Bool Arith Lia.
From FR Require Import Dec Types Bank Match Step Genesis Model Spec.
From FR.Proofs Require Import InvDefs FrameFacts TxFacts InvStaticBase.
From FR.Proofs Require PrecondBase.
From FR.Proofs Require Import EscrowBase.
Definition find_auction_id := PrecondBase.find_auction_id.
Import ListNotations.
Open Scope Z_scope.

Definition bal_ok (s : state) : Prop := forall x d, 0 <= st_bal s x d.

Ltac ifs := repeat match goal with |- context [if ?c then _ else _] => let E := fresh "Eif" in destruct c eqn:E end.

Lemma bind_inv {A B} (r : res A) (f : A -> res B) y : bind r f = Ok y -> exists x, r = Ok x /\ f x = Ok y.
Proof. destruct r as [x|c t]; cbn; intros H; [eauto|discriminate]. Qed.

Lemma send_bal_ok s f t d amt s' : bal_ok s -> send s f t d amt = Ok s' -> bal_ok s'.
Proof.
  intros Hb H x d'. destruct (send_ok _ _ _ _ _ _ H) as (Ha & Hle & Hbal & _). rewrite Hbal.
  specialize (Hb x d'). unfold ind.
  destruct (addr_eqb x f && N.eqb d' d) eqn:Ef; destruct (addr_eqb x t && N.eqb d' d) eqn:Et; try lia.
  apply andb_true_iff in Ef. destruct Ef as [Ef Ed]. apply addr_eqb_eq in Ef. apply N.eqb_eq in Ed. subst x d'.
  destruct (Z.eq_dec amt 0); [lia|]. specialize (Hle ltac:(lia)). lia.
Qed.

(* sends between a user and the pool or an escrow of auction id do not touch the escrows of other auctions *)
Lemma send_user_esc s u t d amt s' :
  send s (User u) t d amt = Ok s' ->
  forall r j d', t <> Escrow r j -> st_bal s' (Escrow r j) d' = st_bal s (Escrow r j) d'.
Proof.
  intros H r j d' Ht. destruct (send_ok _ _ _ _ _ _ H) as (_ & _ & Hbal & _). rewrite Hbal.
  assert (E1 : addr_eqb (Escrow r j) (User u) = false) by reflexivity.
  assert (E2 : addr_eqb (Escrow r j) t = false) by (apply addr_eqb_neq; congruence).
  rewrite E1, E2. cbn. lia.
Qed.

Lemma send_coins_pool cs : forall s u s',
  send_coins s (User u) Pool cs = Ok s' ->
  (bal_ok s -> bal_ok s') /\ (forall r j d, st_bal s' (Escrow r j) d = st_bal s (Escrow r j) d)
  /\ exists b xs, s' = with_bank s b xs.
Proof.
  induction cs as [|[d a] rest IH]; intros s u s' H; cbn [send_coins] in H.
  - inversion H; subst. repeat split; auto. exists (st_bal s'), (st_xfers s'). destruct s'; reflexivity.
  - apply bind_inv in H. destruct H as [s1 [H1 H2]]. destruct (IH _ _ _ H2) as (I1 & I2 & b2 & xs2 & I3).
    destruct (send_ok _ _ _ _ _ _ H1) as (_ & _ & _ & b1 & xs1 & E1).
    repeat split.
    + intros Hb. apply I1. eapply send_bal_ok; eassumption.
    + intros r j d'. rewrite I2. eapply send_user_esc; [eassumption|discriminate].
    + subst s1. exists b2, xs2. rewrite I3. destruct s; reflexivity.
Qed.

(* escrow_inv split in its two halves *)
Lemma escrow_inv_intro s : bal_ok s -> (forall r id d, owed s r id d <= st_bal s (Escrow r id) d) -> escrow_inv s.
Proof. intros; split; assumption. Qed.

(* owed only depends on the slice of the auction *)
Lemma owed_slice s s' r id d :
  find_auction s' id = find_auction s id -> bids_of s' id = bids_of s id -> vqs_of s' id = vqs_of s id ->
  owed s' r id d = owed s r id d.
Proof. intros Ha Hb Hv. unfold owed. now rewrite Ha, Hb, Hv. Qed.

Lemma owed_frame id s s' : frame id s s' -> forall r j d, j <> id -> owed s' r j d = owed s r j d.
Proof. intros F r j d Hj. destruct (F j Hj). apply owed_slice; assumption. Qed.

(* the generic step: other auctions by the frame, the target by hand *)
Lemma escrow_inv_by_frame id s s' :
  escrow_inv s -> frame id s s' -> bal_ok s' ->
  (forall r d, owed s' r id d <= st_bal s' (Escrow r id) d) -> escrow_inv s'.
Proof.
  intros [Hb He] F Hb' Hid. split; [exact Hb'|]. intros r j d.
  destruct (N.eq_dec j id) as [->|Hj]; [apply Hid|].
  rewrite (owed_frame id s s' F r j d Hj). destruct (F j Hj) as [_ _ _ _ _ _ Hbal]. rewrite Hbal. apply He.
Qed.

Lemma owed_nonneg_none s r id d : find_auction s id = None -> owed s r id d = 0.
Proof. intros H. unfold owed. now rewrite H. Qed.

Lemma pay_amount_sum_app pd l b :
  sumZ (map (pay_amount pd) (l ++ [b])) = sumZ (map (pay_amount pd) l) + pay_amount pd b.
Proof. rewrite map_app, sumZ_app. cbn [map]. rewrite sumZ_cons. cbn. lia. Qed.
Lemma sell_amount_sum_app pd l b :
  sumZ (map (sell_amount pd) (l ++ [b])) = sumZ (map (sell_amount pd) l) + sell_amount pd b.
Proof. rewrite map_app, sumZ_app. cbn [map]. rewrite sumZ_cons. cbn. lia. Qed.

Lemma bids_of_app s l id :
  bids_of (with_bids s (st_bids s ++ l)) id = bids_of s id ++ filter (fun b => N.eqb (b_auction b) id) l.
Proof. unfold bids_of. cbn [st_bids with_bids]. apply filter_app. Qed.

(* ------------------------------------------------------------------ create *)
Lemma call_hook_fields s k args s' : call_hook s k args = Ok s' -> exists tr, s' = with_trace s tr.
Proof. apply call_hook_inv. Qed.

Lemma is_open_new st start now : st = (if start <=? now then Started else StandBy) -> is_open st = true.
Proof. intros ->. destruct (start <=? now); reflexivity. Qed.

Lemma created_escrow s s' a u cs sd samt :
  (* the shape of both create handlers after the checks *)
  Inv s -> 0 < samt -> a_id a = st_aseq s -> a_sell_denom a = sd -> a_sell_amt a = samt ->
  is_open (a_status a) = true -> a_status a <> VestingS ->
  (a_type a = FixedPrice -> a_remaining a = samt) ->
  (exists s1 s2 tr tr',
      send_coins (with_aseq s (st_aseq s + 1)%N) (User u) Pool cs = Ok s1 /\
      send s1 (User u) (Escrow Selling (st_aseq s)) sd samt = Ok s2 /\
      s' = with_trace (with_auctions (with_trace s2 tr) (st_auctions s2 ++ [a])) tr') ->
  escrow_inv s' /\ remaining_inv s'.
Proof.
  intros I Hpos Hid Hsd Hamt Hopen Hnv Hrem (s1 & s2 & tr & tr' & H1 & H2 & ->).
  destruct (send_coins_pool _ _ _ _ H1) as (B1 & E1 & b1 & xs1 & S1).
  destruct (send_ok _ _ _ _ _ _ H2) as (_ & _ & Hbal2 & b2 & xs2 & S2).
  destruct (inv_escrow _ I) as [Hb He].
  assert (Hb2 : bal_ok s2).
  { eapply send_bal_ok; [|exact H2]. apply B1. exact Hb. }
  assert (Hauc : st_auctions s2 = st_auctions s) by (subst s2 s1; reflexivity).
  assert (Hbids : st_bids s2 = st_bids s) by (subst s2 s1; reflexivity).
  assert (Hvqs : st_vqs s2 = st_vqs s) by (subst s2 s1; reflexivity).
  set (id := st_aseq s) in *.
  assert (Hfresh : find_auction s id = None).
  { unfold find_auction. destruct (find _ _) as [x|] eqn:F; [|reflexivity]. exfalso.
    apply find_some in F. destruct F as [Hin Hx]. apply N.eqb_eq in Hx.
    pose proof (inv_ids _ I) as Hids. unfold ids_seq in Hids.
    assert (In id (map a_id (st_auctions s))) by (rewrite <- Hx; now apply in_map).
    rewrite Hids in H. unfold ids_upto in H. apply in_map_iff in H. destruct H as [n [Hn Hin']].
    apply in_seq in Hin'. unfold id in Hn. lia. }
  assert (Hnob : bids_of s id = [] /\ vqs_of s id = []).
  { destruct (inv_fresh _ I) as [F _]. destruct (F id ltac:(unfold id; lia)) as (_ & F1 & _ & F2 & _). now split. }
  destruct Hnob as [Hnob Hnov].
  (* find_auction in the new state *)
  assert (Hfind : forall j, find_auction (with_trace (with_auctions (with_trace s2 tr) (st_auctions s2 ++ [a])) tr') j
                            = match find_auction s j with Some x => Some x | None => if N.eqb (a_id a) j then Some a else None end).
  { intros j. apply find_auction_conv_app. cbn. now rewrite Hauc. }
  split.
  - split.
    + intros x d. cbn. apply Hb2.
    + intros r j d. cbn [st_bal with_trace with_auctions].
      unfold owed. rewrite Hfind. unfold bids_of, vqs_of. cbn [st_bids st_vqs with_trace with_auctions]. rewrite Hbids, Hvqs.
      fold (bids_of s j) (vqs_of s j).
      destruct (find_auction s j) as [x|] eqn:Fj.
      * (* an existing auction: nothing about it changed *)
        assert (Hj : j <> id) by (intros ->; congruence).
        specialize (He r j d). unfold owed in He. rewrite Fj in He.
        assert (Hbj : st_bal s2 (Escrow r j) d = st_bal s (Escrow r j) d).
        { rewrite (send_user_esc _ _ _ _ _ _ H2) by (intros E; inversion E; congruence). rewrite E1. subst s1; reflexivity. }
        rewrite Hbj. exact He.
      * destruct (N.eqb (a_id a) j) eqn:Ej; [|apply Hb2].
        apply N.eqb_eq in Ej. rewrite Hid in Ej. subst j. rewrite Hnob, Hnov.
        destruct r.
        -- rewrite Hsd, Hamt, Hopen. destruct (N.eqb d sd) eqn:Ed; cbn [andb]; [|apply Hb2].
           apply N.eqb_eq in Ed. subst d. rewrite Hbal2. rewrite addr_eqb_refl, N.eqb_refl. cbn.
           assert (0 <= st_bal s1 (Escrow Selling id) sd) by (apply B1; exact Hb). lia.
        -- destruct (_ && _); [change (0 <= st_bal s2 (Escrow Paying id) d)|]; apply Hb2.
        -- destruct (status_eqb (a_status a) VestingS) eqn:Ev; [apply status_eqb_eq in Ev; contradiction|].
           rewrite andb_false_r. apply Hb2.
  - intros x Hin Hty. cbn [st_auctions with_trace with_auctions] in Hin. rewrite Hauc in Hin.
    unfold bids_of. cbn [st_bids with_trace with_auctions]. rewrite Hbids. fold (bids_of s (a_id x)).
    apply in_app_iff in Hin. destruct Hin as [Hin|[<-|[]]].
    + apply (inv_remaining _ I x Hin Hty).
    + rewrite Hid. fold id. rewrite Hnob. cbn [map]. 
      assert (status_eqb (a_status a) Cancelled = false) by (destruct (a_status a); try reflexivity; discriminate Hopen).
      rewrite H, (Hrem Hty), Hamt. unfold sumZ; cbn. lia.
Qed.

Lemma create_fixed_escrow s u up price sd samt pd vs start end_ s' :
  Inv s -> 0 < samt -> create_fixed s u up price sd samt pd vs start end_ = Ok s' ->
  escrow_inv s' /\ remaining_inv s'.
Proof.
  intros I Hpos H. unfold create_fixed in H. cbv zeta in H.
  inv_step H; [inv_step H|]. inv_step H; [inv_step H|].
  apply bind_inv in H. destruct H as [s1 [H1 H]]. unfold fund_pool in H1. cbn [st_params with_aseq] in H1.
  apply bind_inv in H. destruct H as [s2 [H2 H]].
  apply bind_inv in H. destruct H as [s3 [H3 H]]. apply call_hook_fields in H3. destruct H3 as [tr ->].
  apply bind_inv in H. destruct H as [s4 [H4 H]]. apply call_hook_fields in H4. destruct H4 as [tr' ->].
  injection H as <-.
  assert (Hnow : st_now s2 = st_now s).
  { destruct (send_ok _ _ _ _ _ _ H2) as (_ & _ & _ & b2 & xs2 & ->).
    destruct (send_coins_pool _ _ _ _ H1) as (_ & _ & b1 & xs1 & ->). reflexivity. }
  eapply (created_escrow s _ _ u (p_cfee (st_params s)) sd samt I Hpos); cycle 6.
  - exists s1, s2, tr, tr'. split; [exact H1|]. split; [exact H2|]. cbn [st_auctions with_trace]. reflexivity.
  - reflexivity.
  - reflexivity.
  - reflexivity.
  - cbn. rewrite Hnow. destruct (start <=? st_now s); reflexivity.
  - cbn. rewrite Hnow. destruct (start <=? st_now s); discriminate.
  - reflexivity.
Qed.

Lemma create_batch_escrow s u up price minp sd samt pd vs maxr rate start end_ s' :
  Inv s -> 0 < samt -> create_batch s u up price minp sd samt pd vs maxr rate start end_ = Ok s' ->
  escrow_inv s' /\ remaining_inv s'.
Proof.
  intros I Hpos H. unfold create_batch in H. cbv zeta in H.
  inv_step H; [inv_step H|]. inv_step H; [inv_step H|]. inv_step H; [inv_step H|].
  apply bind_inv in H. destruct H as [s1 [H1 H]]. unfold fund_pool in H1. cbn [st_params with_aseq] in H1.
  apply bind_inv in H. destruct H as [s2 [H2 H]].
  apply bind_inv in H. destruct H as [s3 [H3 H]]. apply call_hook_fields in H3. destruct H3 as [tr ->].
  apply bind_inv in H. destruct H as [s4 [H4 H]]. apply call_hook_fields in H4. destruct H4 as [tr' ->].
  injection H as <-.
  assert (Hnow : st_now s2 = st_now s).
  { destruct (send_ok _ _ _ _ _ _ H2) as (_ & _ & _ & b2 & xs2 & ->).
    destruct (send_coins_pool _ _ _ _ H1) as (_ & _ & b1 & xs1 & ->). reflexivity. }
  eapply (created_escrow s _ _ u (p_cfee (st_params s)) sd samt I Hpos); cycle 6.
  - exists s1, s2, tr, tr'. split; [exact H1|]. split; [exact H2|]. cbn [st_auctions with_trace]. reflexivity.
  - reflexivity.
  - reflexivity.
  - reflexivity.
  - cbn. rewrite Hnow. destruct (start <=? st_now s); reflexivity.
  - cbn. rewrite Hnow. destruct (start <=? st_now s); discriminate.
  - cbn. discriminate.
Qed.

(* ------------------------------------------------------------------ generic: the frame of a transaction *)
Lemma tx_frame_of s o tid :
  is_block o = false -> o <> OGenesis -> target s o = Some tid -> frame tid s (snd (step s o)).
Proof.
  intros Hb Hg Ht. eapply tx_frame; [|exact Ht]. apply step_shape; assumption.
Qed.

(* remaining_inv only looks at fixed price auctions and their bids *)
Lemma remaining_inv_frame id s s' :
  remaining_inv s -> frame id s s' ->
  (forall a, In a (st_auctions s') -> a_id a <> id -> In a (st_auctions s)) ->
  (forall a, In a (st_auctions s') -> a_id a = id -> a_type a = FixedPrice ->
     if status_eqb (a_status a) Cancelled then a_remaining a = 0
     else a_remaining a = a_sell_amt a - sumZ (map (sell_amount (a_pay_denom a)) (bids_of s' id))) ->
  remaining_inv s'.
Proof.
  intros R F Hold Hnew a Hin Hty. destruct (N.eq_dec (a_id a) id) as [E|E].
  - rewrite E. apply Hnew; assumption.
  - destruct (F _ E) as [_ Hb _ _ _ _ _]. rewrite Hb. apply R; [apply Hold; assumption|assumption].
Qed.

Lemma in_put_auction s a x :
  In x (st_auctions (put_auction s a)) -> (a_id x <> a_id a /\ In x (st_auctions s)) \/ x = a.
Proof.
  unfold put_auction. cbn [st_auctions with_auctions]. intros H. apply in_map_iff in H.
  destruct H as [y [E Hy]]. destruct (N.eqb (a_id y) (a_id a)) eqn:Ey.
  - right. now subst.
  - left. subst y. apply N.eqb_neq in Ey. now split.
Qed.

(* ------------------------------------------------------------------ cancel *)
Lemma cancel_escrow s u up id s' :
  Inv s -> cancel s u up id = Ok s' -> escrow_inv s' /\ remaining_inv s'.
Proof.
  intros I H. pose proof H as H0. unfold cancel in H.
  destruct (find_auction s id) as [a|] eqn:Fa; [|discriminate].
  inv_step H; [inv_step H|]. inv_step H; [inv_step H|].
  apply bind_inv in H. destruct H as [s1 [H1 H]].
  apply bind_inv in H. destruct H as [s2 [H2 H]]. apply call_hook_fields in H2. destruct H2 as [tr ->].
  injection H as <-.
  apply negb_false_iff in E0. apply status_eqb_eq in E0.
  destruct (find_auction_id _ _ _ Fa) as [Hid Hin]. subst id.
  destruct (inv_escrow _ I) as [Hb He].
  destruct (send_ok _ _ _ _ _ _ H1) as (_ & _ & Hbal1 & b1 & xs1 & S1).
  assert (Hb1 : bal_ok s1) by (eapply send_bal_ok; eassumption).
  set (a' := set_status match a_type a with FixedPrice => set_remaining a 0 | Batch => a end Cancelled).
  assert (Hida : a_id a' = a_id a) by (unfold a'; destruct (a_type a); reflexivity).
  assert (F : frame (a_id a) s (put_auction (with_trace s1 tr) a')).
  { pose proof (tx_frame_of s (OTx (MCancel (AGood up u) (a_id a))) (a_id a) eq_refl ltac:(discriminate) eq_refl) as F.
    cbn [step deliver_tx check_basic commit handle] in F. rewrite H0 in F. exact F. }
  assert (Hfind : find_auction (put_auction (with_trace s1 tr) a') (a_id a) = Some a').
  { rewrite <- Hida. apply (find_auction_put_same _ a' a). rewrite Hida. subst s1. exact Fa. }
  split.
  - apply (escrow_inv_by_frame (a_id a) s); [exact (inv_escrow _ I)|exact F| |].
    + intros x d. cbn. apply Hb1.
    + intros r d. unfold owed. rewrite Hfind. cbn [st_bal put_auction with_auctions with_trace].
      assert (Hst : a_status a' = Cancelled) by (unfold a'; destruct (a_type a); reflexivity).
      rewrite Hst. cbn [is_open status_eqb orb]. rewrite !andb_false_r. destruct r; apply Hb1.
  - apply (remaining_inv_frame (a_id a) s); [exact (inv_remaining _ I)|exact F| |].
    + intros x Hx Hne. apply in_put_auction in Hx. rewrite Hida in Hx. destruct Hx as [[_ Hx] | ->]; [|congruence].
      subst s1. exact Hx.
    + intros x Hx Hxe Hty. apply in_put_auction in Hx. rewrite Hida in Hx. destruct Hx as [[Hne _] | ->]; [congruence|].
      unfold a' in *. destruct (a_type a) eqn:Ety; cbn in Hty; [reflexivity|congruence].
Qed.

(* ------------------------------------------------------------------ place_bid *)
Lemma place_bid_frame s u id bt price d amt s' : place_bid s u id bt price d amt = Ok s' -> frame id s s'.
Proof.
  intros H. destruct (place_bid_inv _ _ _ _ _ _ _ _ H) as (a & nb & Fa & Hst & B1 & B2 & _ & _ & _ & C).
  apply (tx_frame s (OTx (MPlaceBid ABad id 0%N None {| mc_denom := None; mc_amt := None |})) Accepted s' id); [|reflexivity].
  eapply SPlace; eassumption.
Qed.

Lemma pay_amount_flag pd b m : pay_amount pd (set_b_matched b m) = pay_amount pd b. Proof. reflexivity. Qed.
Lemma sell_amount_flag pd b m : sell_amount pd (set_b_matched b m) = sell_amount pd b. Proof. reflexivity. Qed.

Lemma atype_eqb_eq x y : atype_eqb x y = true <-> x = y.
Proof. destruct x, y; cbn; split; intros H; try reflexivity; discriminate H. Qed.

Lemma place_bid_escrow s u id bt price d amt s' :
  Inv s -> place_bid s u id bt price d amt = Ok s' -> escrow_inv s' /\ remaining_inv s'.
Proof.
  intros I H. pose proof (place_bid_frame _ _ _ _ _ _ _ _ H) as F. unfold place_bid in H.
  destruct (find_auction s id) as [a|] eqn:Fa; [|discriminate].
  inv_step H; [inv_step H|]. inv_step H; [inv_step H|].
  destruct (find_allowed s id u) as [al|] eqn:Fal; [|discriminate].
  apply bind_inv in H. destruct H as [s1 [H1 H]]. unfold fund_pool in H1.
  cbv zeta in H.
  apply bind_inv in H. destruct H as [[s2 b] [H2 H]]. cbv beta iota in H.
  apply bind_inv in H. destruct H as [s3 [H3 H]]. apply call_hook_fields in H3. destruct H3 as [tr ->].
  injection H as <-.
  apply negb_false_iff in E. apply status_eqb_eq in E.
  destruct (find_auction_id _ _ _ Fa) as [Hid Hin]. subst id.
  destruct (send_coins_pool _ _ _ _ H1) as (B1 & E1 & b1 & xs1 & S1).
  destruct (inv_escrow _ I) as [Hb He].
  set (b0 := {| b_auction := a_id a; b_id := (st_bseq s1 (a_id a) + 1)%N; b_bidder := u; b_type := bt; b_price := price;
                b_denom := d; b_amt := amt; b_matched := false |}) in *.
  set (s1' := with_bseq s1 (upd (st_bseq s1) (a_id a) (st_bseq s1 (a_id a) + 1)%N)) in *.
  set (pd := a_pay_denom a) in *.
  (* the common outcome of the three branches *)
  assert (Hcore : exists s4,
             send s1' (User u) (Escrow Paying (a_id a)) pd (pay_amount pd b0) = Ok s4 /\
             pay_amount pd b = pay_amount pd b0 /\ sell_amount pd b = sell_amount pd b0 /\ b_auction b = a_id a /\
             ((a_type a = FixedPrice /\ s2 = put_auction s4 (set_remaining a (a_remaining a - sell_amount pd b0)))
              \/ (a_type a = Batch /\ s2 = s4))).
  { destruct bt.
    - apply bind_inv in H2. destruct H2 as [[] [Hv H2]]. apply bind_inv in H2. destruct H2 as [s4 [H4 H2]].
      injection H2 as <- <-. exists s4. split; [exact H4|]. repeat split.
      left. split; [|reflexivity]. unfold validate_fixed_bid in Hv.
      destruct (negb (atype_eqb (a_type a) FixedPrice)) eqn:Et; [discriminate|].
      apply negb_false_iff in Et. now apply atype_eqb_eq in Et.
    - apply bind_inv in H2. destruct H2 as [[] [Hv H2]]. apply bind_inv in H2. destruct H2 as [s4 [H4 H2]].
      injection H2 as <- <-. unfold validate_batch_bid in Hv.
      destruct (negb (atype_eqb (a_type a) Batch)) eqn:Et; [discriminate|].
      destruct (negb (N.eqb (b_denom b0) pd)) eqn:Ed; [discriminate|].
      apply negb_false_iff in Et, Ed. apply atype_eqb_eq in Et. apply N.eqb_eq in Ed. cbn [b_denom b0] in Ed.
      exists s4. split.
      + unfold pay_amount. cbn [b_denom b_amt b0]. rewrite Ed, N.eqb_refl. rewrite <- Ed. exact H4.
      + repeat split. right. now split.
    - apply bind_inv in H2. destruct H2 as [[] [Hv H2]]. apply bind_inv in H2. destruct H2 as [s4 [H4 H2]].
      injection H2 as <- <-. unfold validate_batch_bid in Hv.
      destruct (negb (atype_eqb (a_type a) Batch)) eqn:Et; [discriminate|].
      apply negb_false_iff in Et. apply atype_eqb_eq in Et.
      exists s4. split; [exact H4|]. repeat split. right. now split. }
  destruct Hcore as (s4 & H4 & Hpay & Hsell & Hba & Hs2). clear H2.
  destruct (send_ok _ _ _ _ _ _ H4) as (Hpos4 & _ & Hbal4 & b4 & xs4 & S4).
  assert (Hb4 : bal_ok s4).
  { eapply send_bal_ok; [|exact H4]. intros x d'. unfold s1'. cbn. apply B1. exact Hb. }
  (* the final state *)
  remember (with_bids (with_trace s2 tr) (st_bids s2 ++ [b])) as sF eqn:EsF.
  assert (Hbal : st_bal sF = st_bal s4) by (subst sF; destruct Hs2 as [[_ ->]|[_ ->]]; reflexivity).
  assert (Hbids : st_bids sF = st_bids s ++ [b]).
  { subst sF. cbn [st_bids with_bids]. f_equal. destruct Hs2 as [[_ ->]|[_ ->]]; subst s4 s1' s1; reflexivity. }
  assert (Hvqs : st_vqs sF = st_vqs s) by (subst sF; destruct Hs2 as [[_ ->]|[_ ->]]; subst s4 s1' s1; reflexivity).
  assert (Hbo : bids_of sF (a_id a) = bids_of s (a_id a) ++ [b]).
  { unfold bids_of. rewrite Hbids, filter_app. cbn [filter]. rewrite Hba, N.eqb_refl. reflexivity. }
  assert (Hvo : vqs_of sF (a_id a) = vqs_of s (a_id a)) by (unfold vqs_of; now rewrite Hvqs).
  (* the auction record afterwards *)
  assert (Hfa : exists a', find_auction sF (a_id a) = Some a' /\ a_status a' = Started /\ a_sell_denom a' = a_sell_denom a
                 /\ a_sell_amt a' = a_sell_amt a /\ a_pay_denom a' = pd /\ a_type a' = a_type a /\
                 (a_type a = FixedPrice -> a_remaining a' = a_remaining a - sell_amount pd b0)).
  { destruct Hs2 as [[Ht ->]|[Ht ->]].
    - exists (set_remaining a (a_remaining a - sell_amount pd b0)). split.
      + subst sF. unfold find_auction. cbn [st_auctions with_bids with_trace].
        change (find_auction (put_auction s4 (set_remaining a (a_remaining a - sell_amount pd b0))) (a_id a) = Some (set_remaining a (a_remaining a - sell_amount pd b0))).
        apply (find_auction_put_same s4 (set_remaining a (a_remaining a - sell_amount pd b0)) a).
        subst s4 s1' s1. exact Fa.
      + cbn. repeat split; auto.
    - exists a. split.
      + subst sF. unfold find_auction. cbn [st_auctions with_bids with_trace]. subst s4 s1' s1. exact Fa.
      + repeat split; auto. intros; congruence. }
  destruct Hfa as (a' & Fa' & Hst' & Hsd' & Hsa' & Hpd' & Hty' & Hrem').
  (* balances of the auction's escrows *)
  assert (HbalP : forall r d', st_bal sF (Escrow r (a_id a)) d'
                    = st_bal s (Escrow r (a_id a)) d' + ind (role_eqb r Paying && N.eqb d' pd) (pay_amount pd b0)).
  { intros r d'. pose proof (f_equal (fun f => f (Escrow r (a_id a)) d') Hbal) as HH. cbv beta in HH. rewrite HH. clear HH. rewrite Hbal4. cbn [addr_eqb]. unfold s1'. cbn [st_bal with_bseq]. rewrite E1. subst s1. cbn [st_bal with_bank].
    cbn. rewrite N.eqb_refl, andb_true_r. unfold ind. destruct (role_eqb r Paying && N.eqb d' pd); lia. }
  split.
  - apply (escrow_inv_by_frame (a_id a) s); [exact (inv_escrow _ I)|exact F| |].
    + intros x d'. pose proof (f_equal (fun f => f x d') Hbal) as HH. cbv beta in HH. pose proof (Hb4 x d') as K. rewrite <- HH in K. exact K.
    + intros r d'. rewrite HbalP. unfold owed. rewrite Fa', Hbo, Hvo, Hst', Hsd', Hsa', Hpd'.
      specialize (He r (a_id a) d'). unfold owed in He. rewrite Fa, E in He. fold pd in He.
      destruct r; cbn [role_eqb andb ind is_open status_eqb orb] in *.
      * revert He. destruct (N.eqb d' (a_sell_denom a) && true); intros; lia.
      * destruct (N.eqb d' pd) eqn:Ed; cbn [andb status_eqb ind] in *; [|lia].
        rewrite pay_amount_sum_app, Hpay. lia.
      * revert He. rewrite !andb_false_r. intros; lia.
  - apply (remaining_inv_frame (a_id a) s); [exact (inv_remaining _ I)|exact F| |].
    + intros x Hx Hne. rewrite EsF in Hx. cbn [st_auctions with_bids with_trace] in Hx.
      destruct Hs2 as [[_ ->]|[_ ->]].
      * apply in_put_auction in Hx. cbn in Hx. destruct Hx as [[_ Hx] | ->]; [|cbn in Hne; congruence].
        subst s4 s1' s1. exact Hx.
      * subst s4 s1' s1. exact Hx.
    + intros x Hx Hxe Hty.
      assert (x = a').
      { assert (Fx : find_auction sF (a_id x) = Some x).
        { assert (Hnd : NoDup (map a_id (st_auctions sF))).
          { assert (Hm : map a_id (st_auctions sF) = map a_id (st_auctions s)).
            { rewrite EsF. cbn [st_auctions with_bids with_trace]. destruct Hs2 as [[_ ->]|[_ ->]].
              - unfold put_auction. cbn [st_auctions with_auctions]. rewrite map_id_put. subst s4 s1' s1. reflexivity.
              - subst s4 s1' s1; reflexivity. }
            rewrite Hm. apply (ids_seq_ids_ok s (inv_ids _ I)). }
          unfold find_auction. apply find_some_of_in; assumption. }
        rewrite Hxe, Fa' in Fx. congruence. }
      subst x. rewrite Hst'. cbn [status_eqb]. rewrite Hbo, Hsa', Hpd', sell_amount_sum_app, Hsell.
      rewrite Hty' in Hty. rewrite (Hrem' Hty).
      pose proof (inv_remaining _ I a Hin Hty) as R. rewrite E in R. cbn [status_eqb] in R. fold pd in R. lia.
Qed.

(* ------------------------------------------------------------------ modify_bid *)
Lemma modify_bid_frame s u id bid_id price d amt s' : modify_bid s u id bid_id price d amt = Ok s' -> frame id s s'.
Proof.
  intros H. destruct (modify_bid_inv _ _ _ _ _ _ _ _ H) as (a & b0 & Fa & Hst & Fb & C).
  apply (tx_frame s (OTx (MModifyBid ABad id bid_id None {| mc_denom := None; mc_amt := None |})) Accepted s' id); [|reflexivity].
  eapply SModify; eassumption.
Qed.

Lemma sum_replace (f : bid -> Z) (b b' : bid) : forall l,
  NoDup (map b_id l) -> In b l ->
  sumZ (map f (map (fun x => if N.eqb (b_id x) (b_id b) then b' else x) l)) = sumZ (map f l) - f b + f b'.
Proof.
  induction l as [|x r IH]; intros Hnd Hin; [contradiction|].
  cbn [map] in *. rewrite !sumZ_cons. inversion Hnd as [|? ? Hnotin Hnd']; subst.
  destruct Hin as [->|Hin].
  - rewrite N.eqb_refl.
    assert (Hsame : map (fun x => if N.eqb (b_id x) (b_id b) then b' else x) r = r).
    { clear IH Hnd Hnd'. induction r as [|y r' IH']; [reflexivity|]. cbn [map] in *.
      destruct (N.eqb (b_id y) (b_id b)) eqn:Ey.
      - apply N.eqb_eq in Ey. exfalso. apply Hnotin. left. exact Ey.
      - f_equal. apply IH'. intros Hc. apply Hnotin. now right. }
    rewrite Hsame. lia.
  - destruct (N.eqb (b_id x) (b_id b)) eqn:Ex.
    + apply N.eqb_eq in Ex. exfalso. apply Hnotin. rewrite Ex. now apply in_map.
    + rewrite IH by assumption. lia.
Qed.

Lemma bids_of_put_bid s b' id :
  b_auction b' = id ->
  bids_of (put_bid s b') id = map (fun x => if N.eqb (b_id x) (b_id b') then b' else x) (bids_of s id).
Proof.
  intros Hb. subst id. unfold bids_of, put_bid. cbn [st_bids with_bids].
  induction (st_bids s) as [|x r IH]; [reflexivity|]. cbn [map filter].
  destruct (N.eqb (b_auction x) (b_auction b')) eqn:Ea; cbn [andb].
  - destruct (N.eqb (b_id x) (b_id b')) eqn:Ei.
    + rewrite N.eqb_refl. cbn [map]. rewrite Ei. f_equal. exact IH.
    + rewrite Ea. cbn [map]. rewrite Ei. f_equal. exact IH.
  - rewrite Ea. exact IH.
Qed.

Lemma NoDup_succ_upto n : NoDup (map N.succ (ids_upto n)).
Proof.
  apply FinFun.Injective_map_NoDup; [intros x y; apply N.succ_inj | apply ids_upto_nodup].
Qed.

Lemma modify_bid_escrow s u id bid_id price d amt s' :
  Inv s -> modify_bid s u id bid_id price d amt = Ok s' -> escrow_inv s' /\ remaining_inv s'.
Proof.
  intros I H. pose proof (modify_bid_frame _ _ _ _ _ _ _ _ H) as F. unfold modify_bid in H.
  destruct (find_auction s id) as [a|] eqn:Fa; [|discriminate].
  inv_step H; [inv_step H|]. inv_step H; [inv_step H|].
  destruct (find_bid s id bid_id) as [b|] eqn:Fb; [|discriminate].
  inv_step H; [inv_step H|]. inv_step H; [inv_step H|]. inv_step H; [inv_step H|].
  inv_step H; [inv_step H|]. inv_step H; [inv_step H|].
  apply negb_false_iff in E, E0, E1, E3. apply status_eqb_eq in E. apply atype_eqb_eq in E0.
  apply N.eqb_eq in E1, E3.
  destruct (find_auction_id _ _ _ Fa) as [Hid Hin]. subst id.
  destruct (find_bid_some _ _ _ _ Fb) as (Hbin & Hba & Hbi).
  destruct (inv_escrow _ I) as [Hb He].
  set (pd := a_pay_denom a) in *.
  (* the bid is well formed for a batch auction *)
  destruct (inv_bids _ I) as [Hbw Hbids].
  rewrite Forall_forall in Hbw. pose proof (Hbw b Hbin) as Wb. destruct Wb as [Wp Wa _ (a0 & Fa0 & Wty & _)].
  rewrite Hba, Fa in Fa0. injection Fa0 as <-. rewrite E0 in Wty. destruct Wty as [Wty Wmin].
  set (b' := set_b_terms b price amt) in *.
  assert (Hcommon : forall dd diff args, dd = pd -> diff = pay_amount pd b' - pay_amount pd b ->
            (do s0 <- (if 0 <? diff then send s (User u) (Escrow Paying (a_id a)) dd diff else Ok s);
             do s1 <- call_hook s0 H_BeforeBidModified args;
             Ok (put_bid s1 b')) = Ok s' -> escrow_inv s' /\ remaining_inv s').
  { clear H. intros dd diff args Hdd Hdiffv H.
  apply bind_inv in H. destruct H as [s1 [H1 H]].
    apply bind_inv in H. destruct H as [s2 [H2 H]]. apply call_hook_fields in H2. destruct H2 as [tr ->].
    injection H as <-.
    (* the optional send *)
    assert (Hs1 : bal_ok s1 /\ (forall r d', st_bal s1 (Escrow r (a_id a)) d' =
                   st_bal s (Escrow r (a_id a)) d' + ind (role_eqb r Paying && N.eqb d' pd) (if 0 <? diff then diff else 0))
                  /\ exists bb xs, s1 = with_bank s bb xs).
    { destruct (0 <? diff) eqn:Ep.
      - destruct (send_ok _ _ _ _ _ _ H1) as (_ & _ & Hbal1 & b1 & xs1 & S1). split; [eapply send_bal_ok; eassumption|]. split; [|eauto].
        intros r d'. rewrite Hbal1. cbn [addr_eqb]. rewrite N.eqb_refl, andb_true_r, Hdd. unfold ind.
        cbn [andb]. destruct (role_eqb r Paying && N.eqb d' pd); cbv beta iota; lia.
      - injection H1 as <-. split; [exact Hb|]. split.
        + intros r d'. unfold ind. destruct (role_eqb r Paying && N.eqb d' pd); lia.
        + exists (st_bal s), (st_xfers s). destruct s; reflexivity. }
    destruct Hs1 as (Hb1 & Hbal1 & bb & xs & S1).
    remember (put_bid (with_trace s1 tr) b') as sF eqn:EsF.
    assert (Hb'a : b_auction b' = a_id a) by exact Hba.
    assert (HbF : st_bal sF = st_bal s1) by (subst sF; reflexivity).
    assert (Hauc : st_auctions sF = st_auctions s) by (subst sF s1; reflexivity).
    assert (Hbo : bids_of sF (a_id a) = map (fun x => if N.eqb (b_id x) (b_id b') then b' else x) (bids_of s (a_id a))).
    { subst sF. rewrite (bids_of_put_bid _ b' (a_id a) Hb'a). subst s1. reflexivity. }
    assert (Hvo : vqs_of sF (a_id a) = vqs_of s (a_id a)) by (subst sF s1; reflexivity).
    assert (FaF : find_auction sF (a_id a) = Some a) by (unfold find_auction; rewrite Hauc; exact Fa).
    assert (Hinb : In b (bids_of s (a_id a))).
    { unfold bids_of. apply filter_In. split; [exact Hbin|]. rewrite Hba. apply N.eqb_refl. }
    assert (Hnd : NoDup (map b_id (bids_of s (a_id a)))) by (rewrite Hbids; apply NoDup_succ_upto).
    split.
    - apply (escrow_inv_by_frame (a_id a) s); [exact (inv_escrow _ I)|exact F| |].
      + intros x d'. pose proof (f_equal (fun f => f x d') HbF) as HH. cbv beta in HH. rewrite HH. apply Hb1.
      + intros r d'. pose proof (f_equal (fun f => f (Escrow r (a_id a)) d') HbF) as HH. cbv beta in HH. rewrite HH, Hbal1.
        unfold owed. rewrite FaF, Hbo, Hvo.
        specialize (He r (a_id a) d'). unfold owed in He. rewrite Fa in He. fold pd in He |- *.
        destruct r; cbn [role_eqb andb ind] in *; try lia.
        destruct (N.eqb d' pd && status_eqb (a_status a) Started) eqn:Ec.
        * apply andb_true_iff in Ec. destruct Ec as [Ec _]. rewrite Ec. cbn [ind].
          change (b_id b') with (b_id b). rewrite (sum_replace (pay_amount pd) b b' _ Hnd Hinb).
          destruct (0 <? diff) eqn:Ep; [lia|]. apply Z.ltb_ge in Ep. lia.
        * unfold ind. destruct (N.eqb d' pd); [destruct (0 <? diff) eqn:Ep; [apply Z.ltb_lt in Ep|]|]; lia.
    - apply (remaining_inv_frame (a_id a) s); [exact (inv_remaining _ I)|exact F| |].
      + intros x Hx _. rewrite Hauc in Hx. exact Hx.
      + intros x Hx Hxe Hty. rewrite Hauc in Hx.
        assert (x = a).
        { pose proof (ids_ok_find s x (ids_seq_ids_ok s (inv_ids _ I)) Hx) as Fx. rewrite Hxe, Fa in Fx. congruence. }
        subst x. congruence.
  }
  destruct Wty as [[Wt Wd]|[Wt Wd]]; rewrite Wt in H; cbv beta iota zeta in H.
  - eapply (Hcommon d (amt - b_amt b)); [unfold pd; congruence| |exact H].
    unfold pay_amount, b'. cbn [b_denom set_b_terms b_amt]. fold pd in Wd. rewrite Wd, N.eqb_refl. reflexivity.
  - eapply (Hcommon pd (pay_of_qty amt price - pay_of_qty (b_amt b) (b_price b))); [reflexivity| |exact H].
    unfold pay_amount, b'. cbn [b_denom set_b_terms b_amt b_price].
    assert (Hne : N.eqb (b_denom b) pd = false).
    { apply N.eqb_neq. rewrite Wd. pose proof (inv_auctions _ I) as Aw. unfold auctions_wf in Aw. rewrite Forall_forall in Aw.
      apply (awf_denoms _ (Aw a Hin)). }
    rewrite Hne. reflexivity.
Qed.

(* ------------------------------------------------------------------ operations that move no coins of the module *)
Lemma escrow_ext s s' :
  st_auctions s' = st_auctions s -> st_bids s' = st_bids s -> st_vqs s' = st_vqs s -> st_bal s' = st_bal s ->
  (escrow_inv s -> escrow_inv s') /\ (remaining_inv s -> remaining_inv s').
Proof.
  intros Ha Hb Hv Hbal. split.
  - intros [B E]. split.
    + intros x d. rewrite Hbal. apply B.
    + intros r id d. rewrite Hbal. rewrite (owed_ext s s' Ha Hb Hv). apply E.
  - intros R a Hin Hty. rewrite Ha in Hin. unfold bids_of. rewrite Hb. apply R; assumption.
Qed.

Lemma add_entries_fields a l : forall s s', add_entries s a l = Ok s' ->
  st_auctions s' = st_auctions s /\ st_bids s' = st_bids s /\ st_vqs s' = st_vqs s /\ st_bal s' = st_bal s.
Proof.
  induction l as [|[[ea who] max] r IH]; intros s s' H; cbn [add_entries] in H.
  - injection H as <-. repeat split.
  - destruct who as [up u|]; [|discriminate]. destruct max as [m|]; [|discriminate].
    destruct (negb (0 <? m)); [discriminate|]. destruct (a_sell_amt a <? m); [discriminate|].
    apply IH in H. destruct H as (H1 & H2 & H3 & H4).
    unfold put_allowed in *. destruct (find_allowed s (a_id a) u); cbn in *; repeat split; assumption.
Qed.

Lemma api_add_escrow s id l s' : Inv s -> api_add s id l = Ok s' -> escrow_inv s' /\ remaining_inv s'.
Proof.
  intros I H. unfold api_add in H. destruct l as [|e r]; [discriminate|].
  destruct (find_auction s id) as [a|]; [|discriminate].
  apply bind_inv in H. destruct H as [s1 [H1 H]]. apply call_hook_fields in H1. destruct H1 as [tr ->].
  apply add_entries_fields in H. destruct H as (H1 & H2 & H3 & H4).
  destruct (escrow_ext s s' H1 H2 H3 H4) as [X Y]. split; [apply X, (inv_escrow _ I)|apply Y, (inv_remaining _ I)].
Qed.

Lemma api_update_escrow s id u max s' : Inv s -> api_update s id u max = Ok s' -> escrow_inv s' /\ remaining_inv s'.
Proof.
  intros I H. unfold api_update in H. destruct (find_auction s id) as [a|]; [|discriminate].
  destruct (find_allowed s id u) eqn:Fal; [|discriminate]. destruct (check_pos max) as [m|]; [|discriminate].
  apply bind_inv in H. destruct H as [s1 [H1 H]]. apply call_hook_fields in H1. destruct H1 as [tr ->].
  injection H as <-.
  assert (Hf : forall X, (st_auctions (put_allowed (with_trace s tr) id u m) = st_auctions s /\
                          st_bids (put_allowed (with_trace s tr) id u m) = st_bids s /\
                          st_vqs (put_allowed (with_trace s tr) id u m) = st_vqs s /\
                          st_bal (put_allowed (with_trace s tr) id u m) = st_bal s -> X) -> X).
  { intros X HX. apply HX. unfold put_allowed. destruct (find_allowed (with_trace s tr) id u); cbn; repeat split. }
  apply Hf. intros (H1 & H2 & H3 & H4).
  destruct (escrow_ext s _ H1 H2 H3 H4) as [X Y]. split; [apply X, (inv_escrow _ I)|apply Y, (inv_remaining _ I)].
Qed.

Lemma update_params_escrow s auth cfee bfee period s' :
  Inv s -> update_params s auth cfee bfee period = Ok s' -> escrow_inv s' /\ remaining_inv s'.
Proof.
  intros I H. unfold update_params in H. destruct auth as [|[]]; try discriminate.
  destruct (check_coins cfee None); [|discriminate]. destruct (check_coins bfee None); [|discriminate].
  injection H as <-.
  destruct (escrow_ext s (with_params s {| p_cfee := c; p_bfee := c0; p_period := period |}) eq_refl eq_refl eq_refl eq_refl) as [X Y].
  split; [apply X, (inv_escrow _ I)|apply Y, (inv_remaining _ I)].
Qed.

(* a plain send by a user: an escrow account can only gain *)
Lemma user_send_escrow s from to d amt s' :
  Inv s -> send s (User from) to d amt = Ok s' -> escrow_inv s' /\ remaining_inv s'.
Proof.
  intros I H. destruct (send_ok _ _ _ _ _ _ H) as (Ha & _ & Hbal & b & xs & S).
  destruct (inv_escrow _ I) as [B E]. split.
  - split; [eapply send_bal_ok; eassumption|].
    intros r id d'. rewrite Hbal. subst s'. rewrite owed_with_bank.
    assert (E1 : addr_eqb (Escrow r id) (User from) = false) by reflexivity. rewrite E1. cbn [andb ind].
    specialize (E r id d'). unfold ind. destruct (addr_eqb (Escrow r id) to && N.eqb d' d); lia.
  - subst s'. intros a Hin Hty. apply (inv_remaining _ I a Hin Hty).
Qed.

(* ------------------------------------------------------------------ every step that is not a block *)
Lemma handle_escrow s c s' :
  Inv s -> (match c with
            | CCreateFixed _ _ _ _ samt _ _ _ _ | CCreateBatch _ _ _ _ _ samt _ _ _ _ _ _ => 0 < samt
            | _ => True end) ->
  handle s c = Ok s' -> escrow_inv s' /\ remaining_inv s'.
Proof.
  intros I Hc H. destruct c; cbn [handle] in H.
  - eapply create_fixed_escrow; eassumption.
  - eapply create_batch_escrow; eassumption.
  - eapply cancel_escrow; eassumption.
  - eapply place_bid_escrow; eassumption.
  - eapply modify_bid_escrow; eassumption.
  - destruct (st_switch s); [|discriminate]. eapply api_add_escrow; eassumption.
  - eapply update_params_escrow; eassumption.
Qed.

Lemma check_basic_samt m c : check_basic m = Some c ->
  match c with
  | CCreateFixed _ _ _ _ samt _ _ _ _ | CCreateBatch _ _ _ _ _ samt _ _ _ _ _ _ => 0 < samt
  | _ => True end.
Proof.
  destruct m; cbn [check_basic]; intros H.
  - destruct who; [|discriminate]. destruct (check_pos price); [|discriminate].
    destruct (check_coin sell) as [[sd sa]|] eqn:Ec; [|discriminate]. destruct pay; [|discriminate].
    destruct (_ && _); [|discriminate]. destruct (valid_scheds vs end_); [|discriminate]. injection H as <-.
    unfold check_coin in Ec. destruct (mc_denom sell), (mc_amt sell); try discriminate.
    destruct (0 <? z0) eqn:Ez; [|discriminate]. injection Ec as <- <-. now apply Z.ltb_lt.
  - destruct who; [|discriminate]. destruct (check_pos price); [|discriminate]. destruct (check_pos minp); [|discriminate].
    destruct (check_coin sell) as [[sd sa]|] eqn:Ec; [|discriminate]. destruct pay; [|discriminate].
    destruct (check_pos rate); [|discriminate].
    destruct (_ && _); [|discriminate]. destruct (valid_scheds vs end_); [|discriminate]. injection H as <-.
    unfold check_coin in Ec. destruct (mc_denom sell), (mc_amt sell); try discriminate.
    destruct (0 <? z2) eqn:Ez; [|discriminate]. injection Ec as <- <-. now apply Z.ltb_lt.
  - destruct who; [|discriminate]. injection H as <-. exact I.
  - destruct who; [|discriminate]. destruct (check_pos price), (check_coin coin) as [[]|], (decode_btype bt); try discriminate.
    injection H as <-. exact I.
  - destruct who; [|discriminate]. destruct (check_pos price), (check_coin coin) as [[]|]; try discriminate.
    injection H as <-. exact I.
  - destruct who; [|discriminate]. injection H as <-. exact I.
  - injection H as <-. exact I.
Qed.

Lemma escrow_unchanged s tr : Inv s -> escrow_inv (with_trace s tr) /\ remaining_inv (with_trace s tr).
Proof.
  intros I. destruct (escrow_ext s (with_trace s tr) eq_refl eq_refl eq_refl eq_refl) as [X Y].
  split; [apply X, (inv_escrow _ I)|apply Y, (inv_remaining _ I)].
Qed.

Theorem escrow_step_tx s o :
  Inv s -> is_block o = false -> o <> OGenesis ->
  escrow_inv (snd (step s o)) /\ remaining_inv (snd (step s o)).
Proof.
  intros I Hb Hg. destruct o; try discriminate; cbn [step].
  - unfold deliver_tx. destruct (check_basic m) as [c|] eqn:Ec.
    + destruct (handle s c) as [s'|code tr] eqn:Eh; cbn [commit snd].
      * eapply handle_escrow; [exact I|exact (check_basic_samt _ _ Ec)|exact Eh].
      * now apply escrow_unchanged.
    + cbn [snd]. split; [apply (inv_escrow _ I)|apply (inv_remaining _ I)].
  - destruct (api_add s a l) as [s'|code tr] eqn:Eh; cbn [commit snd].
    + eapply api_add_escrow; eassumption.
    + now apply escrow_unchanged.
  - destruct (api_update s a bidder max) as [s'|code tr] eqn:Eh; cbn [commit snd].
    + eapply api_update_escrow; eassumption.
    + now apply escrow_unchanged.
  - destruct (0 <? amt).
    + destruct (send s (User from) to d amt) as [s'|code tr] eqn:Eh; cbn [commit snd].
      * eapply user_send_escrow; eassumption.
      * now apply escrow_unchanged.
    + cbn [fail commit snd]. now apply escrow_unchanged.
  - cbn [snd]. destruct (escrow_ext s (with_listeners s ls) eq_refl eq_refl eq_refl eq_refl) as [X Y].
    split; [apply X, (inv_escrow _ I)|apply Y, (inv_remaining _ I)].
  - congruence.
Qed.
