(* C17, the hook call sites: an accepted operation calls every registered listener exactly once
   per hook it offers, in program order, with the values of the records it then stores.
   Inversion lemmas for the handlers (the exact shape of an Ok result).  No axioms. *)
From Coq Require Import ZArith NArith List Bool Arith Lia.
From FR Require Import Dec Types Bank Match Step Genesis Model Spec Checkers.
From FR.Proofs Require Import HookBase HookFacts.
Import ListNotations.
Open Scope Z_scope.

Lemma expected_trace_cons : forall s e r,
  expected_trace s (e :: r) = all_calls s (fst e) (snd e) ++ expected_trace s r.
Proof.
  intros s e r. unfold expected_trace. cbn [flat_map]. f_equal.
  unfold all_calls. rewrite calls_from_map. apply map_ext. intros k. reflexivity.
Qed.

Lemma all_calls_listeners : forall s s' kind args,
  st_listeners s' = st_listeners s -> all_calls s' kind args = all_calls s kind args.
Proof. intros s s' kind args H. unfold all_calls. now rewrite H. Qed.

Lemma no_veto_listeners : forall s s' kind,
  st_listeners s' = st_listeners s -> no_veto s' kind = no_veto s kind.
Proof. intros s s' kind H. unfold no_veto. now rewrite H. Qed.

Lemma expected_trace_listeners : forall s s' exp,
  st_listeners s' = st_listeners s -> expected_trace s' exp = expected_trace s exp.
Proof. intros s s' exp H. unfold expected_trace. now rewrite H. Qed.

(* call_hook on a state with the listeners of s *)
Lemma call_hook_ok_inv' : forall s s1 kind args s',
  st_listeners s1 = st_listeners s ->
  call_hook s1 kind args = Ok s' ->
  no_veto s kind = true /\ s' = with_trace s1 (st_trace s1 ++ all_calls s kind args).
Proof.
  intros s s1 kind args s' Hl H. apply call_hook_ok_inv in H as [Hn ->].
  rewrite (no_veto_listeners s s1) in Hn by exact Hl.
  rewrite (all_calls_listeners s s1) by exact Hl. split; [exact Hn | reflexivity].
Qed.

(* ------------------------------------------------------------------ create_fixed *)
Lemma create_fixed_ok : forall s u up price sd samt pd vs start end_ s',
  create_fixed s u up price sd samt pd vs start end_ = Ok s' ->
  let a := new_auction (st_aseq s) FixedPrice u up price sd samt pd vs start end_
             (if start <=? st_now s then Started else StandBy) samt 0 0 0 in
  exists s1,                                  (* the state the Before hook sees: fees and escrow paid *)
    nobank (with_aseq s (st_aseq s + 1)%N) s1 /\
    no_veto s H_BeforeFixedCreated = true /\ no_veto s H_AfterFixedCreated = true /\
    let s2 := with_trace s1 (st_trace s1 ++ all_calls s H_BeforeFixedCreated (enc_auction_args a)) in
    let s3 := with_auctions s2 (st_auctions s2 ++ [a]) in    (* the store: after Before, before After *)
    call_hook s1 H_BeforeFixedCreated (enc_auction_args a) = Ok s2 /\
    call_hook s3 H_AfterFixedCreated (zN (a_id a) :: enc_auction_args a) = Ok s' /\
    s' = with_trace s3 (st_trace s3 ++ all_calls s H_AfterFixedCreated (zN (a_id a) :: enc_auction_args a)).
Proof.
  intros s u up price sd samt pd vs start end_ s' H a. unfold create_fixed in H.
  destruct (end_ <? st_now s) eqn:E1; [discriminate|].
  destruct (Nat.ltb MaxNumVestingSchedules (length vs)) eqn:E2; [discriminate|].
  cbv zeta in H.
  apply bind_ok_inv in H as [s0 [H0 H]]. apply fund_pool_ok in H0.
  apply bind_ok_inv in H as [s1 [H1 H]]. apply send_ok in H1.
  pose proof (nobank_trans _ _ _ H0 H1) as Hnb. clear H0 H1.
  apply bind_ok_inv in H as [s2 [H2 H]].
  apply bind_ok_inv in H as [s3 [H3 H]]. injection H as <-.
  assert (Hl1 : st_listeners s1 = st_listeners s) by (rewrite (nb_listeners _ _ Hnb); reflexivity).
  assert (Hnow : st_now s1 = st_now s) by (rewrite (nb_now _ _ Hnb); reflexivity).
  rewrite Hnow in H3.
  change (enc_addr_str (AGood up u) ++ [price; zN sd; samt; zN pd] ++ enc_scheds vs ++ [start; end_])
    with (enc_auction_args a) in H2, H3.
  change (new_auction (st_aseq s) FixedPrice u up price sd samt pd vs start end_
            (if start <=? st_now s then Started else StandBy) samt 0 0 0) with a in H3.
  change (zN (st_aseq s)) with (zN (a_id a)) in H3.
  exists s1. split; [exact Hnb|].
  pose proof H2 as H2'. apply (call_hook_ok_inv' s) in H2' as [Hn2 E2s]; [|exact Hl1].
  pose proof H3 as H3'. apply (call_hook_ok_inv' s) in H3' as [Hn3 E3s]; [|rewrite E2s; sproj; exact Hl1].
  split; [exact Hn2|]. split; [exact Hn3|]. cbv zeta. rewrite <- E2s.
  split; [exact H2|]. split; [exact H3 | exact E3s].
Qed.

Lemma create_fixed_hooks : forall s u up price sd samt pd vs start end_ s',
  create_fixed s u up price sd samt pd vs start end_ = Ok s' ->
  exists a, st_auctions s' = st_auctions s ++ [a] /\ a_id a = st_aseq s /\ a_type a = FixedPrice /\
    st_trace s' = st_trace s ++ expected_trace s [(H_BeforeFixedCreated, enc_auction_args a);
                                                  (H_AfterFixedCreated, zN (a_id a) :: enc_auction_args a)].
Proof.
  intros s u up price sd samt pd vs start end_ s' H. apply create_fixed_ok in H.
  cbv zeta in H. destruct H as [s1 [Hnb [_ [_ [_ [_ ->]]]]]].
  eexists. sproj. rewrite (nb_auctions _ _ Hnb), (nb_trace _ _ Hnb). sproj.
  split; [reflexivity|]. split; [reflexivity|]. split; [reflexivity|].
  rewrite !expected_trace_cons. cbn [fst snd expected_trace flat_map]. rewrite app_nil_r, <- app_assoc. reflexivity.
Qed.

(* the Before hook runs on a store without the auction, the After hook on a store with it *)
Lemma create_fixed_before_precedes_store : forall s u up price sd samt pd vs start end_ s',
  create_fixed s u up price sd samt pd vs start end_ = Ok s' ->
  exists a sb sb' sa,
    call_hook sb H_BeforeFixedCreated (enc_auction_args a) = Ok sb' /\ st_auctions sb = st_auctions s /\
    sa = with_auctions sb' (st_auctions sb' ++ [a]) /\
    call_hook sa H_AfterFixedCreated (zN (a_id a) :: enc_auction_args a) = Ok s' /\
    st_auctions sa = st_auctions s ++ [a] /\ st_auctions s' = st_auctions s ++ [a] /\
    st_trace sb = st_trace s.
Proof.
  intros s u up price sd samt pd vs start end_ s' H. apply create_fixed_ok in H.
  cbv zeta in H. destruct H as [s1 [Hnb [_ [_ [Hb [Ha Es]]]]]].
  do 4 eexists. split; [exact Hb|]. split; [rewrite (nb_auctions _ _ Hnb); reflexivity|].
  split; [reflexivity|]. split; [exact Ha|]. sproj. rewrite (nb_auctions _ _ Hnb). sproj.
  split; [reflexivity|]. split; [rewrite Es; sproj; rewrite (nb_auctions _ _ Hnb); reflexivity|].
  rewrite (nb_trace _ _ Hnb). reflexivity.
Qed.

(* ------------------------------------------------------------------ create_batch *)
Lemma create_batch_ok : forall s u up price minp sd samt pd vs maxr rate start end_ s',
  create_batch s u up price minp sd samt pd vs maxr rate start end_ = Ok s' ->
  let a := new_auction (st_aseq s) Batch u up price sd samt pd vs start end_
             (if start <=? st_now s then Started else StandBy) 0 minp maxr rate in
  exists s1,
    nobank (with_aseq s (st_aseq s + 1)%N) s1 /\
    no_veto s H_BeforeBatchCreated = true /\ no_veto s H_AfterBatchCreated = true /\
    let s2 := with_trace s1 (st_trace s1 ++ all_calls s H_BeforeBatchCreated (enc_auction_args a)) in
    let s3 := with_auctions s2 (st_auctions s2 ++ [a]) in
    call_hook s1 H_BeforeBatchCreated (enc_auction_args a) = Ok s2 /\
    call_hook s3 H_AfterBatchCreated (zN (a_id a) :: enc_auction_args a) = Ok s' /\
    s' = with_trace s3 (st_trace s3 ++ all_calls s H_AfterBatchCreated (zN (a_id a) :: enc_auction_args a)).
Proof.
  intros s u up price minp sd samt pd vs maxr rate start end_ s' H a. unfold create_batch in H.
  destruct (end_ <? st_now s) eqn:E1; [discriminate|].
  destruct (Nat.ltb MaxNumVestingSchedules (length vs)) eqn:E2; [discriminate|].
  destruct (N.ltb MaxExtendedRound maxr) eqn:E3; [discriminate|].
  cbv zeta in H.
  apply bind_ok_inv in H as [s0 [H0 H]]. apply fund_pool_ok in H0.
  apply bind_ok_inv in H as [s1 [H1 H]]. apply send_ok in H1.
  pose proof (nobank_trans _ _ _ H0 H1) as Hnb. clear H0 H1.
  apply bind_ok_inv in H as [s2 [H2 H]].
  apply bind_ok_inv in H as [s3 [H3 H]]. injection H as <-.
  assert (Hl1 : st_listeners s1 = st_listeners s) by (rewrite (nb_listeners _ _ Hnb); reflexivity).
  assert (Hnow : st_now s1 = st_now s) by (rewrite (nb_now _ _ Hnb); reflexivity).
  rewrite Hnow in H3.
  change (enc_addr_str (AGood up u) ++ [price; minp; zN sd; samt; zN pd] ++ enc_scheds vs
          ++ [zN maxr; rate; start; end_])
    with (enc_auction_args a) in H2, H3.
  change (new_auction (st_aseq s) Batch u up price sd samt pd vs start end_
            (if start <=? st_now s then Started else StandBy) 0 minp maxr rate) with a in H3.
  change (zN (st_aseq s)) with (zN (a_id a)) in H3.
  exists s1. split; [exact Hnb|].
  pose proof H2 as H2'. apply (call_hook_ok_inv' s) in H2' as [Hn2 E2s]; [|exact Hl1].
  pose proof H3 as H3'. apply (call_hook_ok_inv' s) in H3' as [Hn3 E3s]; [|rewrite E2s; sproj; exact Hl1].
  split; [exact Hn2|]. split; [exact Hn3|]. cbv zeta. rewrite <- E2s.
  split; [exact H2|]. split; [exact H3 | exact E3s].
Qed.

Lemma create_batch_hooks : forall s u up price minp sd samt pd vs maxr rate start end_ s',
  create_batch s u up price minp sd samt pd vs maxr rate start end_ = Ok s' ->
  exists a, st_auctions s' = st_auctions s ++ [a] /\ a_id a = st_aseq s /\ a_type a = Batch /\
    st_trace s' = st_trace s ++ expected_trace s [(H_BeforeBatchCreated, enc_auction_args a);
                                                  (H_AfterBatchCreated, zN (a_id a) :: enc_auction_args a)].
Proof.
  intros s u up price minp sd samt pd vs maxr rate start end_ s' H. apply create_batch_ok in H.
  cbv zeta in H. destruct H as [s1 [Hnb [_ [_ [_ [_ ->]]]]]].
  eexists. sproj. rewrite (nb_auctions _ _ Hnb), (nb_trace _ _ Hnb). sproj.
  split; [reflexivity|]. split; [reflexivity|]. split; [reflexivity|].
  rewrite !expected_trace_cons. cbn [fst snd expected_trace flat_map]. rewrite app_nil_r, <- app_assoc. reflexivity.
Qed.

Lemma create_batch_before_precedes_store : forall s u up price minp sd samt pd vs maxr rate start end_ s',
  create_batch s u up price minp sd samt pd vs maxr rate start end_ = Ok s' ->
  exists a sb sb' sa,
    call_hook sb H_BeforeBatchCreated (enc_auction_args a) = Ok sb' /\ st_auctions sb = st_auctions s /\
    sa = with_auctions sb' (st_auctions sb' ++ [a]) /\
    call_hook sa H_AfterBatchCreated (zN (a_id a) :: enc_auction_args a) = Ok s' /\
    st_auctions sa = st_auctions s ++ [a] /\ st_auctions s' = st_auctions s ++ [a] /\
    st_trace sb = st_trace s.
Proof.
  intros s u up price minp sd samt pd vs maxr rate start end_ s' H. apply create_batch_ok in H.
  cbv zeta in H. destruct H as [s1 [Hnb [_ [_ [Hb [Ha Es]]]]]].
  do 4 eexists. split; [exact Hb|]. split; [rewrite (nb_auctions _ _ Hnb); reflexivity|].
  split; [reflexivity|]. split; [exact Ha|]. sproj. rewrite (nb_auctions _ _ Hnb). sproj.
  split; [reflexivity|]. split; [rewrite Es; sproj; rewrite (nb_auctions _ _ Hnb); reflexivity|].
  rewrite (nb_trace _ _ Hnb). reflexivity.
Qed.

(* ------------------------------------------------------------------ cancel *)
Lemma cancel_ok : forall s u up id s',
  cancel s u up id = Ok s' ->
  exists a s1, find_auction s id = Some a /\ a_auctioneer a = u /\ a_status a = StandBy /\
    nobank s s1 /\ no_veto s H_BeforeCanceled = true /\
    s' = put_auction (with_trace s1 (st_trace s1 ++ all_calls s H_BeforeCanceled (zN id :: enc_addr_str (AGood up u))))
           (set_status (match a_type a with FixedPrice => set_remaining a 0 | Batch => a end) Cancelled).
Proof.
  intros s u up id s' H. unfold cancel in H.
  destruct (find_auction s id) as [a|] eqn:Hfa; [|discriminate].
  destruct (negb (N.eqb (a_auctioneer a) u)) eqn:E1; [discriminate|].
  destruct (negb (status_eqb (a_status a) StandBy)) eqn:E2; [discriminate|].
  apply bind_ok_inv in H as [s1 [H1 H]]. apply send_ok in H1.
  apply bind_ok_inv in H as [s2 [H2 H]]. injection H as <-.
  apply (call_hook_ok_inv' s) in H2 as [Hn ->]; [|apply (nb_listeners _ _ H1)].
  exists a, s1. split; [reflexivity|].
  apply negb_false_iff in E1. apply N.eqb_eq in E1.
  apply negb_false_iff in E2. destruct (a_status a); try discriminate.
  split; [exact E1|]. split; [reflexivity|]. split; [exact H1|]. split; [exact Hn | reflexivity].
Qed.

Lemma cancel_hooks : forall s u up id s',
  cancel s u up id = Ok s' ->
  st_trace s' = st_trace s ++ expected_trace s [(H_BeforeCanceled, zN id :: enc_addr_str (AGood up u))].
Proof.
  intros s u up id s' H. apply cancel_ok in H as [a [s1 [_ [_ [_ [Hnb [_ ->]]]]]]].
  sproj. rewrite (nb_trace _ _ Hnb), expected_trace_cons. cbn [fst snd expected_trace flat_map].
  rewrite app_nil_r. reflexivity.
Qed.

(* ------------------------------------------------------------------ place_bid *)
Lemma place_bid_ok : forall s u id bt price d amt s',
  place_bid s u id bt price d amt = Ok s' ->
  exists a e s2 b,
    find_auction s id = Some a /\ a_status a = Started /\ find_allowed s id u = Some e /\
    b_auction b = id /\ b_id b = (st_bseq s id + 1)%N /\ b_bidder b = u /\ b_type b = bt /\
    b_price b = price /\ b_denom b = d /\ b_amt b = amt /\
    (* s2: the state the hook sees *)
    st_bids s2 = st_bids s /\ st_allowed s2 = st_allowed s /\ st_listeners s2 = st_listeners s /\
    st_trace s2 = st_trace s /\ st_switch s2 = st_switch s /\
    st_bseq s2 = upd (st_bseq s) id (st_bseq s id + 1)%N /\
    no_veto s H_BeforeBidPlaced = true /\
    s' = with_bids (with_trace s2 (st_trace s2 ++ all_calls s H_BeforeBidPlaced (enc_bid_args b)))
                   (st_bids s2 ++ [b]).
Proof.
  intros s u id bt price d amt s' H. unfold place_bid in H.
  destruct (find_auction s id) as [a|] eqn:Hfa; [|discriminate].
  destruct (negb (status_eqb (a_status a) Started)) eqn:E1; [discriminate|].
  destruct (atype_eqb (a_type a) Batch && (price <? a_min_price a)) eqn:E2; [discriminate|].
  destruct (find_allowed s id u) as [e|] eqn:Hal; [|discriminate].
  apply bind_ok_inv in H as [s1 [H1 H]]. apply fund_pool_ok in H1. cbv beta zeta in H.
  apply bind_ok_inv in H as [[s2 b] [H2 H]]. cbv beta iota in H.
  apply bind_ok_inv in H as [s3 [H3 H]]. injection H as <-.
  assert (Hst : a_status a = Started).
  { apply negb_false_iff in E1. destruct (a_status a); try discriminate; reflexivity. }
  rewrite (nb_bseq _ _ H1) in H2, H3.
  set (b0 := {| b_auction := id; b_id := (st_bseq s id + 1)%N; b_bidder := u; b_type := bt; b_price := price;
                b_denom := d; b_amt := amt; b_matched := false |}) in *.
  set (s1' := with_bseq s1 (upd (st_bseq s) id (st_bseq s id + 1)%N)) in *.
  assert (Hcore : exists s4, nobank s1' s4 /\
            (s2 = s4 \/ exists x, s2 = put_auction s4 x) /\ (b = b0 \/ exists m, b = set_b_matched b0 m)).
  { destruct bt.
    - apply bind_ok_inv in H2 as [[] [Hv H2]]. apply bind_ok_inv in H2 as [s4 [H4 H2]].
      injection H2 as <- <-. apply send_ok in H4. exists s4. split; [exact H4|].
      split; [right; eexists; reflexivity | right; eexists; reflexivity].
    - apply bind_ok_inv in H2 as [[] [Hv H2]]. apply bind_ok_inv in H2 as [s4 [H4 H2]].
      injection H2 as <- <-. apply send_ok in H4. exists s4. split; [exact H4|].
      split; left; reflexivity.
    - apply bind_ok_inv in H2 as [[] [Hv H2]]. apply bind_ok_inv in H2 as [s4 [H4 H2]].
      injection H2 as <- <-. apply send_ok in H4. exists s4. split; [exact H4|].
      split; left; reflexivity. }
  destruct Hcore as [s4 [H4 [Hs2 Hb]]]. clear H2.
  assert (Hf : st_bids s2 = st_bids s /\ st_allowed s2 = st_allowed s /\ st_listeners s2 = st_listeners s /\
               st_trace s2 = st_trace s /\ st_switch s2 = st_switch s /\
               st_bseq s2 = upd (st_bseq s) id (st_bseq s id + 1)%N).
  { destruct Hs2 as [->|[x ->]]; sproj;
      rewrite (nb_bids _ _ H4), (nb_allowed _ _ H4), (nb_listeners _ _ H4), (nb_trace _ _ H4),
              (nb_switch _ _ H4), (nb_bseq _ _ H4); subst s1'; sproj;
      rewrite (nb_bids _ _ H1), (nb_allowed _ _ H1), (nb_listeners _ _ H1), (nb_trace _ _ H1),
              (nb_switch _ _ H1); repeat split; reflexivity. }
  destruct Hf as [F1 [F2 [F3 [F4 [F5 F6]]]]].
  assert (Hbf : b_auction b = id /\ b_id b = (st_bseq s id + 1)%N /\ b_bidder b = u /\ b_type b = bt /\
                b_price b = price /\ b_denom b = d /\ b_amt b = amt /\ enc_bid_args b = enc_bid_args b0).
  { destruct Hb as [->|[m ->]]; repeat split; reflexivity. }
  destruct Hbf as [B1 [B2 [B3 [B4 [B5 [B6 [B7 B8]]]]]]].
  change [zN id; zN (st_bseq s id + 1); zN u; enc_btype bt; price; zN d; amt] with (enc_bid_args b0) in H3.
  rewrite <- B8 in H3.
  apply (call_hook_ok_inv' s) in H3 as [Hn ->]; [|exact F3].
  exists a, e, s2, b. repeat (split; [first [assumption | reflexivity]|]). reflexivity.
Qed.

Lemma place_bid_hooks : forall s u id bt price d amt s',
  place_bid s u id bt price d amt = Ok s' ->
  exists b, st_bids s' = st_bids s ++ [b] /\
    b_auction b = id /\ b_bidder b = u /\ b_id b = (st_bseq s id + 1)%N /\ b_type b = bt /\
    b_price b = price /\ b_denom b = d /\ b_amt b = amt /\
    st_trace s' = st_trace s ++ expected_trace s [(H_BeforeBidPlaced, enc_bid_args b)].
Proof.
  intros s u id bt price d amt s' H.
  apply place_bid_ok in H as [a [e [s2 [b [_ [_ [_ [B1 [B2 [B3 [B4 [B5 [B6 [B7 [F1 [_ [_ [F4 [_ [_ [_ ->]]]]]]]]]]]]]]]]]]]]].
  exists b. sproj. rewrite F1, F4, expected_trace_cons. cbn [fst snd expected_trace flat_map]. rewrite app_nil_r.
  repeat (split; [first [assumption | reflexivity]|]). reflexivity.
Qed.

(* ------------------------------------------------------------------ modify_bid *)
Lemma modify_bid_ok : forall s u id bid_id price d amt s',
  modify_bid s u id bid_id price d amt = Ok s' ->
  exists a b s1,
    find_auction s id = Some a /\ find_bid s id bid_id = Some b /\ b_bidder b = u /\
    nobank s s1 /\ no_veto s H_BeforeBidModified = true /\
    s' = put_bid (with_trace s1 (st_trace s1 ++ all_calls s H_BeforeBidModified
                                                  (enc_bid_args (set_b_terms b price amt))))
                 (set_b_terms b price amt).
Proof.
  intros s u id bid_id price d amt s' H. unfold modify_bid in H.
  destruct (find_auction s id) as [a|] eqn:Hfa; [|discriminate].
  destruct (negb (status_eqb (a_status a) Started)) eqn:E1; [discriminate|].
  destruct (negb (atype_eqb (a_type a) Batch)) eqn:E2; [discriminate|].
  destruct (find_bid s id bid_id) as [b|] eqn:Hfb; [|discriminate].
  destruct (negb (N.eqb (b_bidder b) u)) eqn:E3; [discriminate|].
  destruct (price <? a_min_price a) eqn:E4; [discriminate|].
  destruct (negb (N.eqb (b_denom b) d)) eqn:E5; [discriminate|].
  destruct ((price <? b_price b) || (amt <? b_amt b)) eqn:E6; [discriminate|].
  destruct ((price =? b_price b) && (amt =? b_amt b)) eqn:E7; [discriminate|].
  destruct (match b_type b with
            | BFixed => (d, 0)
            | BWorth => (d, amt - b_amt b)
            | BMany => (a_pay_denom a, pay_of_qty amt price - pay_of_qty (b_amt b) (b_price b))
            end) as [dd diff] eqn:Edd.
  apply bind_ok_inv in H as [s1 [H1 H]]. cbv beta zeta in H.
  apply bind_ok_inv in H as [s2 [H2 H]]. injection H as <-.
  assert (Hnb : nobank s s1).
  { destruct (0 <? diff); [eapply send_ok; exact H1 | injection H1 as <-; apply nobank_refl]. }
  apply negb_false_iff in E3. apply N.eqb_eq in E3.
  apply negb_false_iff in E5. apply N.eqb_eq in E5.
  pose proof (find_some _ _ Hfb) as [_ Hk]. apply andb_true_iff in Hk as [Hka Hki].
  apply N.eqb_eq in Hka. apply N.eqb_eq in Hki.
  assert (Hargs : [zN id; zN bid_id; zN (b_bidder b); enc_btype (b_type b); price; zN d; amt]
                  = enc_bid_args (set_b_terms b price amt)).
  { unfold enc_bid_args, set_b_terms. cbn [b_auction b_id b_bidder b_type b_price b_denom b_amt].
    rewrite Hka, Hki, E5. reflexivity. }
  rewrite Hargs in H2.
  apply (call_hook_ok_inv' s) in H2 as [Hn ->]; [|apply (nb_listeners _ _ Hnb)].
  exists a, b, s1. repeat (split; [first [assumption | reflexivity]|]). reflexivity.
Qed.

Lemma modify_bid_hooks : forall s u id bid_id price d amt s',
  modify_bid s u id bid_id price d amt = Ok s' ->
  exists b, find_bid s id bid_id = Some b /\
    st_bids s' = st_bids (put_bid s (set_b_terms b price amt)) /\
    st_trace s' = st_trace s ++ expected_trace s [(H_BeforeBidModified, enc_bid_args (set_b_terms b price amt))].
Proof.
  intros s u id bid_id price d amt s' H.
  apply modify_bid_ok in H as [a [b [s1 [_ [Hfb [_ [Hnb [_ ->]]]]]]]].
  exists b. split; [exact Hfb|]. sproj. rewrite (nb_bids _ _ Hnb), (nb_trace _ _ Hnb), expected_trace_cons.
  cbn [fst snd expected_trace flat_map]. rewrite app_nil_r. split; reflexivity.
Qed.

(* ------------------------------------------------------------------ the allow-list API *)
Lemma put_allowed_shape : forall s a u m, exists x, put_allowed s a u m = with_allowed s x.
Proof. intros s a u m. unfold put_allowed. destruct (find_allowed s a u); eexists; reflexivity. Qed.

Lemma with_allowed_twice : forall s x y, with_allowed (with_allowed s x) y = with_allowed s y.
Proof. reflexivity. Qed.

Lemma add_entries_shape : forall l s a s', add_entries s a l = Ok s' -> exists x, s' = with_allowed s x.
Proof.
  induction l as [|[[ea who] max] rest IH]; intros s a s' H; cbn [add_entries] in H.
  - injection H as <-. exists (st_allowed s). destruct s; reflexivity.
  - destruct who as [up u|]; [|discriminate]. destruct max as [m|]; [|discriminate].
    destruct (negb (0 <? m)); [discriminate|]. destruct (a_sell_amt a <? m); [discriminate|].
    apply IH in H as [x ->]. destruct (put_allowed_shape s (a_id a) u m) as [y ->].
    exists x. reflexivity.
Qed.

Lemma add_entries_err : forall l s a c tr, add_entries s a l = Err c tr ->
  tr = st_trace s /\ (c = E_INVALID \/ c = E_REMAINING).
Proof.
  induction l as [|[[ea who] max] rest IH]; intros s a c tr H; cbn [add_entries] in H.
  - discriminate.
  - destruct who as [up u|]; [|injection H as <- <-; split; [reflexivity | left; reflexivity]].
    destruct max as [m|]; [|injection H as <- <-; split; [reflexivity | left; reflexivity]].
    destruct (negb (0 <? m)); [injection H as <- <-; split; [reflexivity | left; reflexivity]|].
    destruct (a_sell_amt a <? m); [injection H as <- <-; split; [reflexivity | right; reflexivity]|].
    apply IH in H as [-> Hc]. destruct (put_allowed_shape s (a_id a) u m) as [y ->]. split; [reflexivity | exact Hc].
Qed.

Lemma find_auction_id : forall s id a, find_auction s id = Some a -> a_id a = id /\ In a (st_auctions s).
Proof.
  intros s id a H. unfold find_auction in H. apply find_some in H as [Hin Hk].
  apply N.eqb_eq in Hk. split; assumption.
Qed.

Lemma api_add_ok : forall s id l s',
  api_add s id l = Ok s' ->
  exists a, l <> [] /\ find_auction s id = Some a /\ a_id a = id /\ no_veto s H_BeforeAllowedAdded = true /\
    add_entries (with_trace s (st_trace s ++ all_calls s H_BeforeAllowedAdded (enc_entries l))) a l = Ok s'.
Proof.
  intros s id l s' H. unfold api_add in H.
  destruct l as [|e0 rest]; [discriminate|].
  destruct (find_auction s id) as [a|] eqn:Hfa; [|discriminate].
  apply bind_ok_inv in H as [s1 [H1 H]]. apply call_hook_ok_inv in H1 as [Hn ->].
  exists a. split; [discriminate|]. split; [reflexivity|].
  split; [apply (find_auction_id s id a Hfa)|]. split; [exact Hn | exact H].
Qed.

Lemma api_add_hooks : forall s id l s',
  api_add s id l = Ok s' ->
  st_trace s' = st_trace s ++ expected_trace s [(H_BeforeAllowedAdded, enc_entries l)]
  /\ exists x, s' = with_allowed (with_trace s (st_trace s')) x.
Proof.
  intros s id l s' H. apply api_add_ok in H as [a [_ [_ [_ [_ H]]]]].
  apply add_entries_shape in H as [x ->]. sproj.
  rewrite expected_trace_cons. cbn [fst snd expected_trace flat_map]. rewrite app_nil_r.
  split; [reflexivity | exists x; reflexivity].
Qed.

Lemma check_pos_Some : forall x m, check_pos x = Some m -> x = Some m /\ 0 < m.
Proof.
  intros x m H. unfold check_pos in H. destruct x as [z|]; [|discriminate].
  destruct (0 <? z) eqn:E; [|discriminate]. injection H as <-. apply Z.ltb_lt in E. split; [reflexivity | exact E].
Qed.

Lemma api_update_ok : forall s id u max s',
  api_update s id u max = Ok s' ->
  exists a e m, find_auction s id = Some a /\ find_allowed s id u = Some e /\ max = Some m /\ 0 < m /\
    no_veto s H_BeforeAllowedUpdated = true /\
    s' = put_allowed (with_trace s (st_trace s ++ all_calls s H_BeforeAllowedUpdated [zN id; zN u; m])) id u m.
Proof.
  intros s id u max s' H. unfold api_update in H.
  destruct (find_auction s id) as [a|] eqn:Hfa; [|discriminate].
  destruct (find_allowed s id u) as [e|] eqn:Hal; [|discriminate].
  destruct (check_pos max) as [m|] eqn:Hm; [|discriminate].
  apply bind_ok_inv in H as [s1 [H1 H]]. apply call_hook_ok_inv in H1 as [Hn ->]. injection H as <-.
  apply check_pos_Some in Hm as [-> Hpos].
  exists a, e, m. repeat (split; [first [assumption | reflexivity]|]). reflexivity.
Qed.

Lemma api_update_hooks : forall s id u max s',
  api_update s id u max = Ok s' ->
  exists m, max = Some m /\
    st_trace s' = st_trace s ++ expected_trace s [(H_BeforeAllowedUpdated, [zN id; zN u; m])].
Proof.
  intros s id u max s' H. apply api_update_ok in H as [a [e [m [_ [_ [-> [_ [_ ->]]]]]]]].
  exists m. split; [reflexivity|].
  destruct (put_allowed_shape (with_trace s (st_trace s ++ all_calls s H_BeforeAllowedUpdated [zN id; zN u; m])) id u m)
    as [x ->]. sproj.
  rewrite expected_trace_cons. cbn [fst snd expected_trace flat_map]. rewrite app_nil_r. reflexivity.
Qed.

(* ------------------------------------------------------------------ BeginBlocker: the allocation hook *)
Definition alloc_args (a : auction) (mi : minfo) (with_refund_map : bool) : list Z :=
  zN (a_id a) :: enc_map (mi_bidders mi) (mi_alloc mi)
  ++ (if with_refund_map then enc_map (mi_bidders mi) (mi_refund mi) else [0]).

(* the hook is offered once, before any transfer, with the allocation map whose values are the
   amounts that pay_out then transfers: one transfer of f u per bidder u with f u <> 0, in order *)
Lemma allocate_ok : forall s a mi w s',
  allocate s a mi w = Ok s' ->
  no_veto s H_BeforeAllocated = true /\
  nobank (with_trace s (st_trace s ++ all_calls s H_BeforeAllocated (alloc_args a mi w))) s' /\
  st_xfers s' = st_xfers s ++ payouts (Escrow Selling (a_id a)) (a_sell_denom a) (mi_bidders mi) (mi_alloc mi) /\
  (forall u, In u (mi_bidders mi) -> 0 <= mi_alloc mi u).
Proof.
  intros s a mi w s' H. unfold allocate in H.
  apply bind_ok_inv in H as [s1 [H1 H]]. apply call_hook_ok_inv in H1 as [Hn ->].
  split; [exact Hn|]. split; [eapply pay_out_ok; exact H|].
  apply pay_out_xfers in H as [Hx Hp]. split; [exact Hx | exact Hp].
Qed.

Lemma refund_selling_ok : forall s a s', refund_selling s a = Ok s' ->
  nobank s s' /\ exists r, st_xfers s' = st_xfers s ++ r /\ (length r <= 1)%nat.
Proof.
  intros s a s' H. unfold refund_selling in H. split; [eapply send_ok; exact H|].
  apply send_xfers in H as [Hx _]. eexists. split; [exact Hx|].
  destruct (_ =? 0); cbn; lia.
Qed.

Lemma apply_vesting_ok : forall s a s', apply_vesting s a = Ok s' ->
  st_trace s' = st_trace s /\ st_listeners s' = st_listeners s /\
  exists r, st_xfers s' = st_xfers s ++ r /\ (length r <= 1)%nat.
Proof.
  intros s a s' H. unfold apply_vesting in H.
  destruct (a_scheds a) as [|v vs].
  - apply bind_ok_inv in H as [s1 [H1 H]]. injection H as <-. sproj.
    pose proof (send_ok _ _ _ _ _ _ H1) as Hnb. apply send_xfers in H1 as [Hx _].
    split; [apply (nb_trace _ _ Hnb)|]. split; [apply (nb_listeners _ _ Hnb)|].
    eexists. split; [exact Hx|]. destruct (_ =? 0); cbn; lia.
  - apply bind_ok_inv in H as [s1 [H1 H]]. injection H as <-. sproj.
    pose proof (send_ok _ _ _ _ _ _ H1) as Hnb. apply send_xfers in H1 as [Hx _].
    split; [apply (nb_trace _ _ Hnb)|]. split; [apply (nb_listeners _ _ Hnb)|].
    eexists. split; [exact Hx|]. destruct (_ =? 0); cbn; lia.
Qed.

Lemma close_fixed_hooks : forall s a s',
  close_fixed s a = Ok s' ->
  let mi := calc_fixed a (bids_of s (a_id a)) in
  st_trace s' = st_trace s ++ expected_trace s [(H_BeforeAllocated, alloc_args a mi false)] /\
  exists rest, st_xfers s' = st_xfers s
      ++ payouts (Escrow Selling (a_id a)) (a_sell_denom a) (mi_bidders mi) (mi_alloc mi) ++ rest
    /\ (length rest <= 2)%nat.
Proof.
  intros s a s' H mi. unfold close_fixed in H. fold mi in H.
  apply bind_ok_inv in H as [s1 [H1 H]]. apply bind_ok_inv in H as [s2 [H2 H]].
  apply allocate_ok in H1 as [_ [Hnb1 [Hx1 _]]].
  apply refund_selling_ok in H2 as [Hnb2 [r2 [Hx2 Hl2]]].
  apply apply_vesting_ok in H as [Ht3 [_ [r3 [Hx3 Hl3]]]].
  split.
  - rewrite Ht3, (nb_trace _ _ Hnb2), (nb_trace _ _ Hnb1). sproj.
    rewrite expected_trace_cons. cbn [fst snd expected_trace flat_map]. rewrite app_nil_r. reflexivity.
  - exists (r2 ++ r3). split; [|rewrite app_length; lia].
    rewrite Hx3, Hx2, Hx1, <- !app_assoc. reflexivity.
Qed.

Lemma settle_batch_hooks : forall s a mi s',
  settle_batch s a mi = Ok s' ->
  st_trace s' = st_trace s ++ expected_trace s [(H_BeforeAllocated, alloc_args a mi true)] /\
  (forall u, In u (mi_bidders mi) -> 0 <= mi_alloc mi u /\ 0 <= mi_refund mi u) /\
  exists r1 r2, st_xfers s' = st_xfers s
      ++ payouts (Escrow Selling (a_id a)) (a_sell_denom a) (mi_bidders mi) (mi_alloc mi) ++ r1
      ++ payouts (Escrow Paying (a_id a)) (a_pay_denom a) (mi_bidders mi) (mi_refund mi) ++ r2
    /\ (length r1 <= 1)%nat /\ (length r2 <= 1)%nat.
Proof.
  intros s a mi s' H. unfold settle_batch in H.
  apply bind_ok_inv in H as [s1 [H1 H]]. apply bind_ok_inv in H as [s2 [H2 H]].
  apply bind_ok_inv in H as [s3 [H3 H]].
  apply allocate_ok in H1 as [_ [Hnb1 [Hx1 Hp1]]].
  apply refund_selling_ok in H2 as [Hnb2 [r2 [Hx2 Hl2]]].
  pose proof (pay_out_ok _ _ _ _ _ _ H3) as Hnb3. apply pay_out_xfers in H3 as [Hx3 Hp3].
  apply apply_vesting_ok in H as [Ht4 [_ [r4 [Hx4 Hl4]]]].
  split; [|split].
  - rewrite Ht4, (nb_trace _ _ Hnb3), (nb_trace _ _ Hnb2), (nb_trace _ _ Hnb1). sproj.
    rewrite expected_trace_cons. cbn [fst snd expected_trace flat_map]. rewrite app_nil_r. reflexivity.
  - intros u Hu. split; [apply Hp1 | apply Hp3]; exact Hu.
  - exists r2, r4. split; [|split; assumption].
    rewrite Hx4, Hx3, Hx2, Hx1, <- !app_assoc. reflexivity.
Qed.

(* ------------------------------------------------------------------ all transactions at once *)
Lemma update_params_ok : forall s auth cfee bfee period s',
  update_params s auth cfee bfee period = Ok s' -> exists p, s' = with_params s p.
Proof.
  intros s auth cfee bfee period s' H. unfold update_params in H.
  destruct auth as [|[up u|]]; try discriminate.
  destruct (check_coins cfee None); [|discriminate]. destruct (check_coins bfee None); [|discriminate].
  injection H as <-. eexists. reflexivity.
Qed.

(* what an accepted message leaves behind, per message kind: the stored record and the hook calls
   made with exactly that record's values *)
Definition site_spec (s : state) (c : cmsg) (s' : state) : Prop :=
  match c with
  | CCreateFixed _ _ _ _ _ _ _ _ _ =>
      exists a, st_auctions s' = st_auctions s ++ [a] /\ a_id a = st_aseq s /\ a_type a = FixedPrice /\
        st_trace s' = st_trace s ++ expected_trace s [(H_BeforeFixedCreated, enc_auction_args a);
                                                      (H_AfterFixedCreated, zN (a_id a) :: enc_auction_args a)]
  | CCreateBatch _ _ _ _ _ _ _ _ _ _ _ _ =>
      exists a, st_auctions s' = st_auctions s ++ [a] /\ a_id a = st_aseq s /\ a_type a = Batch /\
        st_trace s' = st_trace s ++ expected_trace s [(H_BeforeBatchCreated, enc_auction_args a);
                                                      (H_AfterBatchCreated, zN (a_id a) :: enc_auction_args a)]
  | CCancel u up id =>
      st_trace s' = st_trace s ++ expected_trace s [(H_BeforeCanceled, zN id :: enc_addr_str (AGood up u))]
  | CPlaceBid u id bt price d amt =>
      exists b, st_bids s' = st_bids s ++ [b] /\
        b_auction b = id /\ b_bidder b = u /\ b_id b = (st_bseq s id + 1)%N /\ b_type b = bt /\
        b_price b = price /\ b_denom b = d /\ b_amt b = amt /\
        st_trace s' = st_trace s ++ expected_trace s [(H_BeforeBidPlaced, enc_bid_args b)]
  | CModifyBid u id bid_id price d amt =>
      exists b, find_bid s id bid_id = Some b /\
        st_bids s' = st_bids (put_bid s (set_b_terms b price amt)) /\
        st_trace s' = st_trace s ++ expected_trace s [(H_BeforeBidModified, enc_bid_args (set_b_terms b price amt))]
  | CAddAllowed a ea up u max =>
      st_trace s' = st_trace s ++ expected_trace s [(H_BeforeAllowedAdded, enc_entries [(ea, AGood up u, max)])]
  | CUpdateParams _ _ _ _ => st_trace s' = st_trace s
  end.

Theorem handle_sites : forall s c s', handle s c = Ok s' -> site_spec s c s'.
Proof.
  intros s c s' H. destruct c; cbn [handle] in H; cbn [site_spec].
  - eapply create_fixed_hooks; exact H.
  - eapply create_batch_hooks; exact H.
  - eapply cancel_hooks; exact H.
  - eapply place_bid_hooks; exact H.
  - eapply modify_bid_hooks; exact H.
  - destruct (st_switch s); [|discriminate]. apply api_add_hooks in H as [H _]. exact H.
  - apply update_params_ok in H as [p ->]. reflexivity.
Qed.

Theorem accepted_tx_sites : forall s m,
  fst (step s (OTx m)) = Accepted ->
  exists c, check_basic m = Some c /\ handle s c = Ok (snd (step s (OTx m)))
            /\ site_spec s c (snd (step s (OTx m))).
Proof.
  intros s m H. cbn [step] in *. unfold deliver_tx in *.
  destruct (check_basic m) as [c|]; [|discriminate]. exists c. split; [reflexivity|].
  destruct (handle s c) as [s'|code tr] eqn:Hh; cbn [commit fst snd] in *; [|discriminate].
  split; [reflexivity | apply handle_sites; exact Hh].
Qed.

Theorem accepted_api_add_sites : forall s id l,
  fst (step s (OApiAdd id l)) = Accepted ->
  st_trace (snd (step s (OApiAdd id l))) = st_trace s ++ expected_trace s [(H_BeforeAllowedAdded, enc_entries l)].
Proof.
  intros s id l H. cbn [step] in *.
  destruct (api_add s id l) as [s'|code tr] eqn:Hh; cbn [commit fst snd] in *; [|discriminate].
  apply api_add_hooks in Hh as [Hh _]. exact Hh.
Qed.

Theorem accepted_api_update_sites : forall s id u max,
  fst (step s (OApiUpdate id u max)) = Accepted ->
  exists m, max = Some m /\
    st_trace (snd (step s (OApiUpdate id u max)))
    = st_trace s ++ expected_trace s [(H_BeforeAllowedUpdated, [zN id; zN u; m])].
Proof.
  intros s id u max H. cbn [step] in *.
  destruct (api_update s id u max) as [s'|code tr] eqn:Hh; cbn [commit fst snd] in *; [|discriminate].
  apply api_update_hooks in Hh. exact Hh.
Qed.

(* ------------------------------------------------------------------ 5. operations without hooks *)
Lemma with_trace_same' : forall s, with_trace s (st_trace s) = s.
Proof. intros s. destruct s; reflexivity. Qed.

Theorem send_no_hooks : forall s from to d amt, st_trace (snd (step s (OSend from to d amt))) = st_trace s.
Proof.
  intros s from to d amt. cbn [step]. destruct (0 <? amt); [|reflexivity].
  pose proof (send_err s (User from) to d amt) as He.
  destruct (send s (User from) to d amt) as [s'|c tr] eqn:Hs; cbn [commit snd].
  - apply send_ok in Hs. apply (nb_trace _ _ Hs).
  - destruct He as [-> _]. reflexivity.
Qed.

Theorem set_listeners_no_hooks : forall s ls, st_trace (snd (step s (OSetListeners ls))) = st_trace s.
Proof. reflexivity. Qed.

Lemma import_bids_trace : forall l s0 s1, import_bids s0 l = Some s1 -> st_trace s1 = st_trace s0.
Proof.
  induction l as [|b r IH]; intros s0 s1 H; cbn [import_bids] in H.
  - injection H as <-. reflexivity.
  - destruct (find_auction s0 (b_auction b)); [|discriminate]. apply IH in H. exact H.
Qed.

Lemma import_vqs_trace : forall l s0 s1, import_vqs s0 l = Some s1 -> st_trace s1 = st_trace s0.
Proof.
  induction l as [|v r IH]; intros s0 s1 H; cbn [import_vqs] in H.
  - injection H as <-. reflexivity.
  - destruct (find_auction s0 (v_auction v)); [|discriminate]. apply IH in H. exact H.
Qed.

Lemma fold_put_allowed_trace : forall (l : list allowed) s0,
  st_trace (fold_left (fun s x => put_allowed s (al_auction x) (al_bidder x) (al_max x)) l s0) = st_trace s0.
Proof.
  induction l as [|x r IH]; intros s0; cbn [fold_left]; [reflexivity|].
  rewrite IH. destruct (put_allowed_shape s0 (al_auction x) (al_bidder x) (al_max x)) as [y ->]. reflexivity.
Qed.

Theorem genesis_no_hooks : forall s, st_trace (snd (step s OGenesis)) = st_trace s.
Proof.
  intros s. cbn [step]. destruct (genesis_roundtrip s) as [[v s']|] eqn:Hg; cbn [snd]; [|reflexivity].
  unfold genesis_roundtrip in Hg. destruct (import s (export s)) as [s2|] eqn:Hi; [|discriminate].
  injection Hg as _ <-. unfold import in Hi.
  destruct (import_auctions (g_auctions (export s)) 0%N) as [aus seq].
  match type of Hi with context [import_bids ?x ?l] => destruct (import_bids x l) as [s1|] eqn:Hb; [|discriminate] end.
  match type of Hi with context [import_vqs ?x ?l] => destruct (import_vqs x l) as [s3|] eqn:Hv; [|discriminate] end.
  injection Hi as <-. apply import_vqs_trace in Hv. apply import_bids_trace in Hb.
  sproj. sproj_in Hv. rewrite Hv, Hb, fold_put_allowed_trace. reflexivity.
Qed.
