(* C17, the hook call sites: an accepted operation calls every registered listener exactly once
   per hook it offers, in program order, with the values of the records it then stores.
   Inversion lemmas for the handlers (the exact shape of an Ok result).  No axioms. *)
From Coq Require Import ZArith NArith List Bool Arith Lia.
From FR Require Import Dec Types Bank Match Step Genesis Model Spec Checkers.
From FR.Proofs Require Import HookBase HookFacts.
Import ListNotations.
Open Scope Z_scope.

Lemma expected_trace_cons : forall s e r,
  expected_trace s (e :: r) = all_calls s (fst e) (snd e) ++ expected_trace s r.
Proof.
  intros s e r. unfold expected_trace. cbn [flat_map]. f_equal.
  unfold all_calls. rewrite calls_from_map. apply map_ext. intros k. reflexivity.
Qed.

Lemma all_calls_listeners : forall s s' kind args,
  st_listeners s' = st_listeners s -> all_calls s' kind args = all_calls s kind args.
Proof. intros s s' kind args H. unfold all_calls. now rewrite H. Qed.

Lemma no_veto_listeners : forall s s' kind,
  st_listeners s' = st_listeners s -> no_veto s' kind = no_veto s kind.
Proof. intros s s' kind H. unfold no_veto. now rewrite H. Qed.

Lemma expected_trace_listeners : forall s s' exp,
  st_listeners s' = st_listeners s -> expected_trace s' exp = expected_trace s exp.
Proof. intros s s' exp H. unfold expected_trace. now rewrite H. Qed.

(* call_hook on a state with the listeners of s *)
Lemma call_hook_ok_inv' : forall s s1 kind args s',
  st_listeners s1 = st_listeners s ->
  call_hook s1 kind args = Ok s' ->
  no_veto s kind = true /\ s' = with_trace s1 (st_trace s1 ++ all_calls s kind args).
Proof.
  intros s s1 kind args s' Hl H. apply call_hook_ok_inv in H as [Hn ->].
  rewrite (no_veto_listeners s s1) in Hn by exact Hl.
  rewrite (all_calls_listeners s s1) by exact Hl. split; [exact Hn | reflexivity].
Qed.

(* ------------------------------------------------------------------ create_fixed *)
Lemma create_fixed_ok : forall s u up price sd samt pd vs start end_ s',
  create_fixed s u up price sd samt pd vs start end_ = Ok s' ->
  let a := new_auction (st_aseq s) FixedPrice u up price sd samt pd vs start end_
             (if start <=? st_now s then Started else StandBy) samt 0 0 0 in
  exists s1,                                  (* the state the Before hook sees: fees and escrow paid *)
    nobank (with_aseq s (st_aseq s + 1)%N) s1 /\
    no_veto s H_BeforeFixedCreated = true /\ no_veto s H_AfterFixedCreated = true /\
    let s2 := with_trace s1 (st_trace s1 ++ all_calls s H_BeforeFixedCreated (enc_auction_args a)) in
    let s3 := with_auctions s2 (st_auctions s2 ++ [a]) in    (* the store: after Before, before After *)
    call_hook s1 H_BeforeFixedCreated (enc_auction_args a) = Ok s2 /\
    call_hook s3 H_AfterFixedCreated (zN (a_id a) :: enc_auction_args a) = Ok s' /\
    s' = with_trace s3 (st_trace s3 ++ all_calls s H_AfterFixedCreated (zN (a_id a) :: enc_auction_args a)).
Proof.
  intros s u up price sd samt pd vs start end_ s' H a. unfold create_fixed in H.
  destruct (end_ <? st_now s) eqn:E1; [discriminate|].
  destruct (Nat.ltb MaxNumVestingSchedules (length vs)) eqn:E2; [discriminate|].
  cbv zeta in H.
  apply bind_ok_inv in H as [s0 [H0 H]]. apply fund_pool_ok in H0.
  apply bind_ok_inv in H as [s1 [H1 H]]. apply send_ok in H1.
  pose proof (nobank_trans _ _ _ H0 H1) as Hnb. clear H0 H1.
  apply bind_ok_inv in H as [s2 [H2 H]].
  apply bind_ok_inv in H as [s3 [H3 H]]. injection H as <-.
  assert (Hl1 : st_listeners s1 = st_listeners s) by (rewrite (nb_listeners _ _ Hnb); reflexivity).
  assert (Hnow : st_now s1 = st_now s) by (rewrite (nb_now _ _ Hnb); reflexivity).
  rewrite Hnow in H3.
  change (enc_addr_str (AGood up u) ++ [price; zN sd; samt; zN pd] ++ enc_scheds vs ++ [start; end_])
    with (enc_auction_args a) in H2, H3.
  change (new_auction (st_aseq s) FixedPrice u up price sd samt pd vs start end_
            (if start <=? st_now s then Started else StandBy) samt 0 0 0) with a in H3.
  change (zN (st_aseq s)) with (zN (a_id a)) in H3.
  exists s1. split; [exact Hnb|].
  pose proof H2 as H2'. apply (call_hook_ok_inv' s) in H2' as [Hn2 E2s]; [|exact Hl1].
  pose proof H3 as H3'. apply (call_hook_ok_inv' s) in H3' as [Hn3 E3s]; [|rewrite E2s; sproj; exact Hl1].
  split; [exact Hn2|]. split; [exact Hn3|]. cbv zeta. rewrite <- E2s.
  split; [exact H2|]. split; [exact H3 | exact E3s].
Qed.

Lemma create_fixed_hooks : forall s u up price sd samt pd vs start end_ s',
  create_fixed s u up price sd samt pd vs start end_ = Ok s' ->
  exists a, st_auctions s' = st_auctions s ++ [a] /\ a_id a = st_aseq s /\ a_type a = FixedPrice /\
    st_trace s' = st_trace s ++ expected_trace s [(H_BeforeFixedCreated, enc_auction_args a);
                                                  (H_AfterFixedCreated, zN (a_id a) :: enc_auction_args a)].
Proof.
  intros s u up price sd samt pd vs start end_ s' H. apply create_fixed_ok in H.
  cbv zeta in H. destruct H as [s1 [Hnb [_ [_ [_ [_ ->]]]]]].
  eexists. sproj. rewrite (nb_auctions _ _ Hnb), (nb_trace _ _ Hnb). sproj.
  split; [reflexivity|]. split; [reflexivity|]. split; [reflexivity|].
  rewrite !expected_trace_cons. cbn [fst snd expected_trace flat_map]. rewrite app_nil_r, <- app_assoc. reflexivity.
Qed.

(* the Before hook runs on a store without the auction, the After hook on a store with it *)
Lemma create_fixed_before_precedes_store : forall s u up price sd samt pd vs start end_ s',
  create_fixed s u up price sd samt pd vs start end_ = Ok s' ->
  exists a sb sb' sa,
    call_hook sb H_BeforeFixedCreated (enc_auction_args a) = Ok sb' /\ st_auctions sb = st_auctions s /\
    sa = with_auctions sb' (st_auctions sb' ++ [a]) /\
    call_hook sa H_AfterFixedCreated (zN (a_id a) :: enc_auction_args a) = Ok s' /\
    st_auctions sa = st_auctions s ++ [a] /\ st_auctions s' = st_auctions s ++ [a] /\
    st_trace sb = st_trace s.
Proof.
  intros s u up price sd samt pd vs start end_ s' H. apply create_fixed_ok in H.
  cbv zeta in H. destruct H as [s1 [Hnb [_ [_ [Hb [Ha Es]]]]]].
  do 4 eexists. split; [exact Hb|]. split; [rewrite (nb_auctions _ _ Hnb); reflexivity|].
  split; [reflexivity|]. split; [exact Ha|]. sproj. rewrite (nb_auctions _ _ Hnb). sproj.
  split; [reflexivity|]. split; [rewrite Es; sproj; rewrite (nb_auctions _ _ Hnb); reflexivity|].
  rewrite (nb_trace _ _ Hnb). reflexivity.
Qed.

(* ------------------------------------------------------------------ create_batch *)
Lemma create_batch_ok : forall s u up price minp sd samt pd vs maxr rate start end_ s',
  create_batch s u up price minp sd samt pd vs maxr rate start end_ = Ok s' ->
  let a := new_auction (st_aseq s) Batch u up price sd samt pd vs start end_
             (if start <=? st_now s then Started else StandBy) 0 minp maxr rate in
  exists s1,
    nobank (with_aseq s (st_aseq s + 1)%N) s1 /\
    no_veto s H_BeforeBatchCreated = true /\ no_veto s H_AfterBatchCreated = true /\
    let s2 := with_trace s1 (st_trace s1 ++ all_calls s H_BeforeBatchCreated (enc_auction_args a)) in
    let s3 := with_auctions s2 (st_auctions s2 ++ [a]) in
    call_hook s1 H_BeforeBatchCreated (enc_auction_args a) = Ok s2 /\
    call_hook s3 H_AfterBatchCreated (zN (a_id a) :: enc_auction_args a) = Ok s' /\
    s' = with_trace s3 (st_trace s3 ++ all_calls s H_AfterBatchCreated (zN (a_id a) :: enc_auction_args a)).
Proof.
  intros s u up price minp sd samt pd vs maxr rate start end_ s' H a. unfold create_batch in H.
  destruct (end_ <? st_now s) eqn:E1; [discriminate|].
  destruct (Nat.ltb MaxNumVestingSchedules (length vs)) eqn:E2; [discriminate|].
  destruct (N.ltb MaxExtendedRound maxr) eqn:E3; [discriminate|].
  cbv zeta in H.
  apply bind_ok_inv in H as [s0 [H0 H]]. apply fund_pool_ok in H0.
  apply bind_ok_inv in H as [s1 [H1 H]]. apply send_ok in H1.
  pose proof (nobank_trans _ _ _ H0 H1) as Hnb. clear H0 H1.
  apply bind_ok_inv in H as [s2 [H2 H]].
  apply bind_ok_inv in H as [s3 [H3 H]]. injection H as <-.
  assert (Hl1 : st_listeners s1 = st_listeners s) by (rewrite (nb_listeners _ _ Hnb); reflexivity).
  assert (Hnow : st_now s1 = st_now s) by (rewrite (nb_now _ _ Hnb); reflexivity).
  rewrite Hnow in H3.
  change (enc_addr_str (AGood up u) ++ [price; minp; zN sd; samt; zN pd] ++ enc_scheds vs
          ++ [zN maxr; rate; start; end_])
    with (enc_auction_args a) in H2, H3.
  change (new_auction (st_aseq s) Batch u up price sd samt pd vs start end_
            (if start <=? st_now s then Started else StandBy) 0 minp maxr rate) with a in H3.
  change (zN (st_aseq s)) with (zN (a_id a)) in H3.
  exists s1. split; [exact Hnb|].
  pose proof H2 as H2'. apply (call_hook_ok_inv' s) in H2' as [Hn2 E2s]; [|exact Hl1].
  pose proof H3 as H3'. apply (call_hook_ok_inv' s) in H3' as [Hn3 E3s]; [|rewrite E2s; sproj; exact Hl1].
  split; [exact Hn2|]. split; [exact Hn3|]. cbv zeta. rewrite <- E2s.
  split; [exact H2|]. split; [exact H3 | exact E3s].
Qed.

Lemma create_batch_hooks : forall s u up price minp sd samt pd vs maxr rate start end_ s',
  create_batch s u up price minp sd samt pd vs maxr rate start end_ = Ok s' ->
  exists a, st_auctions s' = st_auctions s ++ [a] /\ a_id a = st_aseq s /\ a_type a = Batch /\
    st_trace s' = st_trace s ++ expected_trace s [(H_BeforeBatchCreated, enc_auction_args a);
                                                  (H_AfterBatchCreated, zN (a_id a) :: enc_auction_args a)].
Proof.
  intros s u up price minp sd samt pd vs maxr rate start end_ s' H. apply create_batch_ok in H.
  cbv zeta in H. destruct H as [s1 [Hnb [_ [_ [_ [_ ->]]]]]].
  eexists. sproj. rewrite (nb_auctions _ _ Hnb), (nb_trace _ _ Hnb). sproj.
  split; [reflexivity|]. split; [reflexivity|]. split; [reflexivity|].
  rewrite !expected_trace_cons. cbn [fst snd expected_trace flat_map]. rewrite app_nil_r, <- app_assoc. reflexivity.
Qed.

Lemma create_batch_before_precedes_store : forall s u up price minp sd samt pd vs maxr rate start end_ s',
  create_batch s u up price minp sd samt pd vs maxr rate start end_ = Ok s' ->
  exists a sb sb' sa,
    call_hook sb H_BeforeBatchCreated (enc_auction_args a) = Ok sb' /\ st_auctions sb = st_auctions s /\
    sa = with_auctions sb' (st_auctions sb' ++ [a]) /\
    call_hook sa H_AfterBatchCreated (zN (a_id a) :: enc_auction_args a) = Ok s' /\
    st_auctions sa = st_auctions s ++ [a] /\ st_auctions s' = st_auctions s ++ [a] /\
    st_trace sb = st_trace s.
Proof.
  intros s u up price minp sd samt pd vs maxr rate start end_ s' H. apply create_batch_ok in H.
  cbv zeta in H. destruct H as [s1 [Hnb [_ [_ [Hb [Ha Es]]]]]].
  do 4 eexists. split; [exact Hb|]. split; [rewrite (nb_auctions _ _ Hnb); reflexivity|].
  split; [reflexivity|]. split; [exact Ha|]. sproj. rewrite (nb_auctions _ _ Hnb). sproj.
  split; [reflexivity|]. split; [rewrite Es; sproj; rewrite (nb_auctions _ _ Hnb); reflexivity|].
  rewrite (nb_trace _ _ Hnb). reflexivity.
Qed.

(* ------------------------------------------------------------------ cancel *)
Lemma cancel_ok : forall s u up id s',
  cancel s u up id = Ok s' ->
  exists a s1, find_auction s id = Some a /\ a_auctioneer a = u /\ a_status a = StandBy /\
    nobank s s1 /\ no_veto s H_BeforeCanceled = true /\
    s' = put_auction (with_trace s1 (st_trace s1 ++ all_calls s H_BeforeCanceled (zN id :: enc_addr_str (AGood up u))))
           (set_status (match a_type a with FixedPrice => set_remaining a 0 | Batch => a end) Cancelled).
Proof.
  intros s u up id s' H. unfold cancel in H.
  destruct (find_auction s id) as [a|] eqn:Hfa; [|discriminate].
  destruct (negb (N.eqb (a_auctioneer a) u)) eqn:E1; [discriminate|].
  destruct (negb (status_eqb (a_status a) StandBy)) eqn:E2; [discriminate|].
  apply bind_ok_inv in H as [s1 [H1 H]]. apply send_ok in H1.
  apply bind_ok_inv in H as [s2 [H2 H]]. injection H as <-.
  apply (call_hook_ok_inv' s) in H2 as [Hn ->]; [|apply (nb_listeners _ _ H1)].
  exists a, s1. split; [reflexivity|].
  apply negb_false_iff in E1. apply N.eqb_eq in E1.
  apply negb_false_iff in E2. destruct (a_status a); try discriminate.
  split; [exact E1|]. split; [reflexivity|]. split; [exact H1|]. split; [exact Hn | reflexivity].
Qed.

Lemma cancel_hooks : forall s u up id s',
  cancel s u up id = Ok s' ->
  st_trace s' = st_trace s ++ expected_trace s [(H_BeforeCanceled, zN id :: enc_addr_str (AGood up u))].
Proof.
  intros s u up id s' H. apply cancel_ok in H as [a [s1 [_ [_ [_ [Hnb [_ ->]]]]]]].
  sproj. rewrite (nb_trace _ _ Hnb), expected_trace_cons. cbn [fst snd expected_trace flat_map].
  rewrite app_nil_r. reflexivity.
Qed.

(* ------------------------------------------------------------------ place_bid *)
Lemma place_bid_ok : forall s u id bt price d amt s',
  place_bid s u id bt price d amt = Ok s' ->
  exists a e s2 b,
    find_auction s id = Some a /\ a_status a = Started /\ find_allowed s id u = Some e /\
    b_auction b = id /\ b_id b = (st_bseq s id + 1)%N /\ b_bidder b = u /\ b_type b = bt /\
    b_price b = price /\ b_denom b = d /\ b_amt b = amt /\
    (* s2: the state the hook sees *)
    st_bids s2 = st_bids s /\ st_allowed s2 = st_allowed s /\ st_listeners s2 = st_listeners s /\
    st_trace s2 = st_trace s /\ st_switch s2 = st_switch s /\
    st_bseq s2 = upd (st_bseq s) id (st_bseq s id + 1)%N /\
    no_veto s H_BeforeBidPlaced = true /\
    s' = with_bids (with_trace s2 (st_trace s2 ++ all_calls s H_BeforeBidPlaced (enc_bid_args b)))
                   (st_bids s2 ++ [b]).
Proof.
  intros s u id bt price d amt s' H. unfold place_bid in H.
  destruct (find_auction s id) as [a|] eqn:Hfa; [|discriminate].
  destruct (negb (status_eqb (a_status a) Started)) eqn:E1; [discriminate|].
  destruct (atype_eqb (a_type a) Batch && (price <? a_min_price a)) eqn:E2; [discriminate|].
  destruct (find_allowed s id u) as [e|] eqn:Hal; [|discriminate].
  apply bind_ok_inv in H as [s1 [H1 H]]. apply fund_pool_ok in H1. cbv beta zeta in H.
  apply bind_ok_inv in H as [[s2 b] [H2 H]]. cbv beta iota in H.
  apply bind_ok_inv in H as [s3 [H3 H]]. injection H as <-.
  assert (Hst : a_status a = Started).
  { apply negb_false_iff in E1. destruct (a_status a); try discriminate; reflexivity. }
  rewrite (nb_bseq _ _ H1) in H2, H3.
  set (b0 := {| b_auction := id; b_id := (st_bseq s id + 1)%N; b_bidder := u; b_type := bt; b_price := price;
                b_denom := d; b_amt := amt; b_matched := false |}) in *.
  set (s1' := with_bseq s1 (upd (st_bseq s) id (st_bseq s id + 1)%N)) in *.
  assert (Hcore : exists s4, nobank s1' s4 /\
            (s2 = s4 \/ exists x, s2 = put_auction s4 x) /\ (b = b0 \/ exists m, b = set_b_matched b0 m)).
  { destruct bt.
    - apply bind_ok_inv in H2 as [[] [Hv H2]]. apply bind_ok_inv in H2 as [s4 [H4 H2]].
      injection H2 as <- <-. apply send_ok in H4. exists s4. split; [exact H4|].
      split; [right; eexists; reflexivity | right; eexists; reflexivity].
    - apply bind_ok_inv in H2 as [[] [Hv H2]]. apply bind_ok_inv in H2 as [s4 [H4 H2]].
      injection H2 as <- <-. apply send_ok in H4. exists s4. split; [exact H4|].
      split; left; reflexivity.
    - apply bind_ok_inv in H2 as [[] [Hv H2]]. apply bind_ok_inv in H2 as [s4 [H4 H2]].
      injection H2 as <- <-. apply send_ok in H4. exists s4. split; [exact H4|].
      split; left; reflexivity. }
  destruct Hcore as [s4 [H4 [Hs2 Hb]]]. clear H2.
  assert (Hf : st_bids s2 = st_bids s /\ st_allowed s2 = st_allowed s /\ st_listeners s2 = st_listeners s /\
               st_trace s2 = st_trace s /\ st_switch s2 = st_switch s /\
               st_bseq s2 = upd (st_bseq s) id (st_bseq s id + 1)%N).
  { destruct Hs2 as [->|[x ->]]; sproj;
      rewrite (nb_bids _ _ H4), (nb_allowed _ _ H4), (nb_listeners _ _ H4), (nb_trace _ _ H4),
              (nb_switch _ _ H4), (nb_bseq _ _ H4); subst s1'; sproj;
      rewrite (nb_bids _ _ H1), (nb_allowed _ _ H1), (nb_listeners _ _ H1), (nb_trace _ _ H1),
              (nb_switch _ _ H1); repeat split; reflexivity. }
  destruct Hf as [F1 [F2 [F3 [F4 [F5 F6]]]]].
  assert (Hbf : b_auction b = id /\ b_id b = (st_bseq s id + 1)%N /\ b_bidder b = u /\ b_type b = bt /\
                b_price b = price /\ b_denom b = d /\ b_amt b = amt /\ enc_bid_args b = enc_bid_args b0).
  { destruct Hb as [->|[m ->]]; repeat split; reflexivity. }
  destruct Hbf as [B1 [B2 [B3 [B4 [B5 [B6 [B7 B8]]]]]]].
  change [zN id; zN (st_bseq s id + 1); zN u; enc_btype bt; price; zN d; amt] with (enc_bid_args b0) in H3.
  rewrite <- B8 in H3.
  apply (call_hook_ok_inv' s) in H3 as [Hn ->]; [|exact F3].
  exists a, e, s2, b. repeat (split; [first [assumption | reflexivity]|]). reflexivity.
Qed.

Lemma place_bid_hooks : forall s u id bt price d amt s',
  place_bid s u id bt price d amt = Ok s' ->
  exists b, st_bids s' = st_bids s ++ [b] /\
    b_auction b = id /\ b_bidder b = u /\ b_id b = (st_bseq s id + 1)%N /\ b_type b = bt /\
    b_price b = price /\ b_denom b = d /\ b_amt b = amt /\
    st_trace s' = st_trace s ++ expected_trace s [(H_BeforeBidPlaced, enc_bid_args b)].
Proof.
  intros s u id bt price d amt s' H.
  apply place_bid_ok in H as [a [e [s2 [b [_ [_ [_ [B1 [B2 [B3 [B4 [B5 [B6 [B7 [F1 [_ [_ [F4 [_ [_ [_ ->]]]]]]]]]]]]]]]]]]]]].
  exists b. sproj. rewrite F1, F4, expected_trace_cons. cbn [fst snd expected_trace flat_map]. rewrite app_nil_r.
  repeat (split; [first [assumption | reflexivity]|]). reflexivity.
Qed.

(* ------------------------------------------------------------------ modify_bid *)
Lemma modify_bid_ok : forall s u id bid_id price d amt s',
  modify_bid s u id bid_id price d amt = Ok s' ->
  exists a b s1,
    find_auction s id = Some a /\ find_bid s id bid_id = Some b /\ b_bidder b = u /\
    nobank s s1 /\ no_veto s H_BeforeBidModified = true /\
    s' = put_bid (with_trace s1 (st_trace s1 ++ all_calls s H_BeforeBidModified
                                                  (enc_bid_args (set_b_terms b price amt))))
                 (set_b_terms b price amt).
Proof.
  intros s u id bid_id price d amt s' H. unfold modify_bid in H.
  destruct (find_auction s id) as [a|] eqn:Hfa; [|discriminate].
  destruct (negb (status_eqb (a_status a) Started)) eqn:E1; [discriminate|].
  destruct (negb (atype_eqb (a_type a) Batch)) eqn:E2; [discriminate|].
  destruct (find_bid s id bid_id) as [b|] eqn:Hfb; [|discriminate].
  destruct (negb (N.eqb (b_bidder b) u)) eqn:E3; [discriminate|].
  destruct (price <? a_min_price a) eqn:E4; [discriminate|].
  destruct (negb (N.eqb (b_denom b) d)) eqn:E5; [discriminate|].
  destruct ((price <? b_price b) || (amt <? b_amt b)) eqn:E6; [discriminate|].
  destruct ((price =? b_price b) && (amt =? b_amt b)) eqn:E7; [discriminate|].
  destruct (match b_type b with
            | BFixed => (d, 0)
            | BWorth => (d, amt - b_amt b)
            | BMany => (a_pay_denom a, pay_of_qty amt price - pay_of_qty (b_amt b) (b_price b))
            end) as [dd diff] eqn:Edd.
  apply bind_ok_inv in H as [s1 [H1 H]]. cbv beta zeta in H.
  apply bind_ok_inv in H as [s2 [H2 H]]. injection H as <-.
  assert (Hnb : nobank s s1).
  { destruct (0 <? diff); [eapply send_ok; exact H1 | injection H1 as <-; apply nobank_refl]. }
  apply negb_false_iff in E3. apply N.eqb_eq in E3.
  apply negb_false_iff in E5. apply N.eqb_eq in E5.
  pose proof (find_some _ _ Hfb) as [_ Hk]. apply andb_true_iff in Hk as [Hka Hki].
  apply N.eqb_eq in Hka. apply N.eqb_eq in Hki.
  assert (Hargs : [zN id; zN bid_id; zN (b_bidder b); enc_btype (b_type b); price; zN d; amt]
                  = enc_bid_args (set_b_terms b price amt)).
  { unfold enc_bid_args, set_b_terms. cbn [b_auction b_id b_bidder b_type b_price b_denom b_amt].
    rewrite Hka, Hki, E5. reflexivity. }
  rewrite Hargs in H2.
  apply (call_hook_ok_inv' s) in H2 as [Hn ->]; [|apply (nb_listeners _ _ Hnb)].
  exists a, b, s1. repeat (split; [first [assumption | reflexivity]|]). reflexivity.
Qed.

Lemma modify_bid_hooks : forall s u id bid_id price d amt s',
  modify_bid s u id bid_id price d amt = Ok s' ->
  exists b, find_bid s id bid_id = Some b /\
    st_bids s' = st_bids (put_bid s (set_b_terms b price amt)) /\
    st_trace s' = st_trace s ++ expected_trace s [(H_BeforeBidModified, enc_bid_args (set_b_terms b price amt))].
Proof.
  intros s u id bid_id price d amt s' H.
  apply modify_bid_ok in H as [a [b [s1 [_ [Hfb [_ [Hnb [_ ->]]]]]]]].
  exists b. split; [exact Hfb|]. sproj. rewrite (nb_bids _ _ Hnb), (nb_trace _ _ Hnb), expected_trace_cons.
  cbn [fst snd expected_trace flat_map]. rewrite app_nil_r. split; reflexivity.
Qed.

(* ------------------------------------------------------------------ the allow-list API *)
Lemma put_allowed_shape : forall s a u m, exists x, put_allowed s a u m = with_allowed s x.
Proof. intros s a u m. unfold put_allowed. destruct (find_allowed s a u); eexists; reflexivity. Qed.

Lemma with_allowed_twice : forall s x y, with_allowed (with_allowed s x) y = with_allowed s y.
Proof. reflexivity. Qed.

Lemma add_entries_shape : forall l s a s', add_entries s a l = Ok s' -> exists x, s' = with_allowed s x.
Proof.
  induction l as [|[[ea who] max] rest IH]; intros s a s' H; cbn [add_entries] in H.
  - injection H as <-. exists (st_allowed s). destruct s; reflexivity.
  - destruct who as [up u|]; [|discriminate]. destruct max as [m|]; [|discriminate].
    destruct (negb (0 <? m)); [discriminate|]. destruct (a_sell_amt a <? m); [discriminate|].
    apply IH in H as [x ->]. destruct (put_allowed_shape s (a_id a) u m) as [y ->].
    exists x. reflexivity.
Qed.

Lemma add_entries_err : forall l s a c tr, add_entries s a l = Err c tr ->
  tr = st_trace s /\ (c = E_INVALID \/ c = E_REMAINING).
Proof.
  induction l as [|[[ea who] max] rest IH]; intros s a c tr H; cbn [add_entries] in H.
  - discriminate.
  - destruct who as [up u|]; [|injection H as <- <-; split; [reflexivity | left; reflexivity]].
    destruct max as [m|]; [|injection H as <- <-; split; [reflexivity | left; reflexivity]].
    destruct (negb (0 <? m)); [injection H as <- <-; split; [reflexivity | left; reflexivity]|].
    destruct (a_sell_amt a <? m); [injection H as <- <-; split; [reflexivity | right; reflexivity]|].
    apply IH in H as [-> Hc]. destruct (put_allowed_shape s (a_id a) u m) as [y ->]. split; [reflexivity | exact Hc].
Qed.

Lemma find_auction_id : forall s id a, find_auction s id = Some a -> a_id a = id /\ In a (st_auctions s).
Proof.
  intros s id a H. unfold find_auction in H. apply find_some in H as [Hin Hk].
  apply N.eqb_eq in Hk. split; assumption.
Qed.

Lemma api_add_ok : forall s id l s',
  api_add s id l = Ok s' ->
  exists a, l <> [] /\ find_auction s id = Some a /\ a_id a = id /\ no_veto s H_BeforeAllowedAdded = true /\
    add_entries (with_trace s (st_trace s ++ all_calls s H_BeforeAllowedAdded (enc_entries l))) a l = Ok s'.
Proof.
  intros s id l s' H. unfold api_add in H.
  destruct l as [|e0 rest]; [discriminate|].
  destruct (find_auction s id) as [a|] eqn:Hfa; [|discriminate].
  apply bind_ok_inv in H as [s1 [H1 H]]. apply call_hook_ok_inv in H1 as [Hn ->].
  exists a. split; [discriminate|]. split; [reflexivity|].
  split; [apply (find_auction_id s id a Hfa)|]. split; [exact Hn | exact H].
Qed.

Lemma api_add_hooks : forall s id l s',
  api_add s id l = Ok s' ->
  st_trace s' = st_trace s ++ expected_trace s [(H_BeforeAllowedAdded, enc_entries l)]
  /\ exists x, s' = with_allowed (with_trace s (st_trace s')) x.
Proof.
  intros s id l s' H. apply api_add_ok in H as [a [_ [_ [_ [_ H]]]]].
  apply add_entries_shape in H as [x ->]. sproj.
  rewrite expected_trace_cons. cbn [fst snd expected_trace flat_map]. rewrite app_nil_r.
  split; [reflexivity | exists x; reflexivity].
Qed.

Lemma check_pos_Some : forall x m, check_pos x = Some m -> x = Some m /\ 0 < m.
Proof.
  intros x m H. unfold check_pos in H. destruct x as [z|]; [|discriminate].
  destruct (0 <? z) eqn:E; [|discriminate]. injection H as <-. apply Z.ltb_lt in E. split; [reflexivity | exact E].
Qed.

Lemma api_update_ok : forall s id u max s',
  api_update s id u max = Ok s' ->
  exists a e m, find_auction s id = Some a /\ find_allowed s id u = Some e /\ max = Some m /\ 0 < m /\
    no_veto s H_BeforeAllowedUpdated = true /\
    s' = put_allowed (with_trace s (st_trace s ++ all_calls s H_BeforeAllowedUpdated [zN id; zN u; m])) id u m.
Proof.
  intros s id u max s' H. unfold api_update in H.
  destruct (find_auction s id) as [a|] eqn:Hfa; [|discriminate].
  destruct (find_allowed s id u) as [e|] eqn:Hal; [|discriminate].
  destruct (check_pos max) as [m|] eqn:Hm; [|discriminate].
  apply bind_ok_inv in H as [s1 [H1 H]]. apply call_hook_ok_inv in H1 as [Hn ->]. injection H as <-.
  apply check_pos_Some in Hm as [-> Hpos].
  exists a, e, m. repeat (split; [first [assumption | reflexivity]|]). reflexivity.
Qed.

Lemma api_update_hooks : forall s id u max s',
  api_update s id u max = Ok s' ->
  exists m, max = Some m /\
    st_trace s' = st_trace s ++ expected_trace s [(H_BeforeAllowedUpdated, [zN id; zN u; m])].
Proof.
  intros s id u max s' H. apply api_update_ok in H as [a [e [m [_ [_ [-> [_ [_ ->]]]]]]]].
  exists m. split; [reflexivity|].
  destruct (put_allowed_shape (with_trace s (st_trace s ++ all_calls s H_BeforeAllowedUpdated [zN id; zN u; m])) id u m)
    as [x ->]. sproj.
  rewrite expected_trace_cons. cbn [fst snd expected_trace flat_map]. rewrite app_nil_r. reflexivity.
Qed.
