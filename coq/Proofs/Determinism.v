(* C14: the computations behind the five Go map-range loops of the module do not depend on the
   order in which the runtime enumerates the map.  Three shapes:
   - collect the keys, then sort them (AllocateSellingCoin, RefundPayingCoin, BidsByPrice);
   - write one entry per (distinct) key into other maps (CalculateBatchAllocation, twice). *)
From Coq Require Import ZArith NArith List Bool Arith Lia Permutation Sorted.
From FR Require Import Dec Types Bank Match Step Genesis Model.
Import ListNotations.

(* ---- collect, then sort: the model's sorted duplicate-free key list *)
Lemma insert_sorted_comm : forall a b l, insert_sorted a (insert_sorted b l) = insert_sorted b (insert_sorted a l).
Proof.
  intros a b l. induction l as [|v r IH]; cbn [insert_sorted].
  - destruct (N.ltb a b) eqn:Hab, (N.ltb b a) eqn:Hba, (N.eqb a b) eqn:Eab, (N.eqb b a) eqn:Eba;
      try rewrite N.ltb_lt in *; try rewrite N.ltb_ge in *; try rewrite N.eqb_eq in *; try rewrite N.eqb_neq in *;
      try lia; subst; try reflexivity; try (exfalso; lia).
  - destruct (N.ltb a v) eqn:Hav, (N.ltb b v) eqn:Hbv, (N.eqb a v) eqn:Eav, (N.eqb b v) eqn:Ebv;
      cbn [insert_sorted];
      repeat match goal with
             | |- context [N.ltb ?x ?y] => let H := fresh "L" in destruct (N.ltb x y) eqn:H
             | |- context [N.eqb ?x ?y] => let H := fresh "E" in destruct (N.eqb x y) eqn:H
             end;
      try rewrite N.ltb_lt in *; try rewrite N.ltb_ge in *; try rewrite N.eqb_eq in *; try rewrite N.eqb_neq in *;
      subst; try lia; try reflexivity; try (f_equal; assumption); try (exfalso; lia).
Qed.

Lemma sorted_keys_perm : forall (l l' : list N),
  Permutation l l' -> fold_right insert_sorted [] l = fold_right insert_sorted [] l'.
Proof.
  intros l l' H. induction H as [| x l l' _ IH | x y l | l l' l'' _ IH1 _ IH2]; cbn [fold_right].
  - reflexivity.
  - now rewrite IH.
  - apply insert_sorted_comm.
  - now rewrite IH1.
Qed.

Lemma bidders_of_eq : forall bs, bidders_of bs = fold_right insert_sorted [] (map b_bidder bs).
Proof. induction bs as [|b r IH]; cbn; [reflexivity|]. unfold bidders_of in IH. cbn. now rewrite IH. Qed.

(* whatever order the bids (or the keys of the allocation map) are enumerated in, the list the transfers
   are issued from is the same *)
Theorem bidders_of_perm : forall bs bs', Permutation bs bs' -> bidders_of bs = bidders_of bs'.
Proof.
  intros. rewrite !bidders_of_eq. apply sorted_keys_perm. now apply Permutation_map.
Qed.

(* ---- keyed writes: one write per distinct key *)
Definition write_all {V} (f0 : N -> V) (l : list (N * V)) : N -> V :=
  fold_left (fun f kv => upd f (fst kv) (snd kv)) l f0.

Lemma write_all_notin {V} : forall (l : list (N * V)) f0 k, ~ In k (map fst l) -> write_all f0 l k = f0 k.
Proof.
  induction l as [|[k0 v0] r IH]; intros f0 k Hn; cbn in *; [reflexivity|].
  unfold write_all in *. cbn. rewrite IH by tauto. unfold upd. destruct (N.eqb_spec k k0); [subst; tauto|reflexivity].
Qed.
Lemma write_all_in {V} : forall (l : list (N * V)) f0 k v,
  NoDup (map fst l) -> In (k, v) l -> write_all f0 l k = v.
Proof.
  induction l as [|[k0 v0] r IH]; intros f0 k v Hnd Hin; cbn in *; [tauto|].
  inversion Hnd as [|? ? Hnotin Hnd']; subst. unfold write_all in *. cbn.
  destruct Hin as [E|Hin].
  - inversion E; subst. fold (write_all (upd f0 k v) r). rewrite write_all_notin by assumption.
    unfold upd. now rewrite N.eqb_refl.
  - apply IH; assumption.
Qed.

Theorem keyed_writes_perm {V} : forall (l l' : list (N * V)) f0,
  NoDup (map fst l) -> Permutation l l' -> forall k, write_all f0 l k = write_all f0 l' k.
Proof.
  intros l l' f0 Hnd Hp k.
  assert (Hnd' : NoDup (map fst l')) by (eapply Permutation_NoDup; [apply Permutation_map; eassumption|assumption]).
  destruct (in_dec N.eq_dec k (map fst l)) as [Hin|Hnin].
  - apply in_map_iff in Hin. destruct Hin as [[k0 v] [E Hin]]. cbn in E; subst k0.
    rewrite (write_all_in l f0 k v) by assumption.
    symmetry. apply write_all_in; [assumption|]. eapply Permutation_in; eassumption.
  - rewrite write_all_notin by assumption.
    rewrite write_all_notin; [reflexivity|]. intro Hin. apply Hnin.
    eapply Permutation_in; [apply Permutation_sym, Permutation_map; eassumption|assumption].
Qed.

(* ---- sorting distinct prices in descending order: a sorted rearrangement of a duplicate-free list is unique *)
Definition desc (x y : Z) : Prop := (y < x)%Z.
Lemma sorted_desc_unique : forall l l' : list Z,
  Permutation l l' -> StronglySorted desc l -> StronglySorted desc l' -> l = l'.
Proof.
  induction l as [|x r IH]; intros l' Hp Hs Hs'.
  - apply Permutation_nil in Hp. now subst.
  - destruct l' as [|y r']; [apply Permutation_sym, Permutation_nil in Hp; discriminate|].
    inversion Hs as [|? ? Hsr Hall]; subst. inversion Hs' as [|? ? Hsr' Hall']; subst.
    assert (x = y).
    { assert (Hx : In x (y :: r')) by (eapply Permutation_in; [eassumption|now left]).
      assert (Hy : In y (x :: r)) by (eapply Permutation_in; [apply Permutation_sym; eassumption|now left]).
      destruct Hx as [E|Hx]; [now subst|]. destruct Hy as [E|Hy]; [now subst|].
      rewrite Forall_forall in Hall, Hall'. specialize (Hall _ Hy). specialize (Hall' _ Hx). unfold desc in *. lia. }
    subst y. f_equal. apply IH; [eapply Permutation_cons_inv; eassumption|assumption|assumption].
Qed.

(* ---- the result of a batch matching does not depend on the order in which the store hands over the bids ---- *)
Lemma sumZ_perm : forall l l' : list Z, Permutation l l' -> sumZ l = sumZ l'.
Proof.
  induction 1 as [|x l l' _ IH|x y l|l l' l'' _ IH1 _ IH2]; unfold sumZ in *; cbn [fold_right] in *.
  - reflexivity.
  - rewrite IH. reflexivity.
  - ring.
  - congruence.
Qed.

Lemma filter_perm {A} (f : A -> bool) : forall l l', Permutation l l' -> Permutation (filter f l) (filter f l').
Proof.
  induction 1; cbn [filter].
  - constructor.
  - destruct (f x); [constructor|]; assumption.
  - destruct (f x), (f y); try apply Permutation_refl; [apply perm_swap].
  - eapply Permutation_trans; eassumption.
Qed.

Lemma reserved_of_perm pd u : forall bs bs', Permutation bs bs' -> reserved_of pd bs u = reserved_of pd bs' u.
Proof. intros bs bs' H. unfold reserved_of. apply sumZ_perm, Permutation_map, filter_perm, H. Qed.

(* same sweep order, the recorded bids in any order: same clearing price, same matched bids, same total, same ordered
   list of bidders, same allocation and same refund of everybody *)
Theorem calc_batch_store_order a bs bs' order al :
  Permutation bs bs' ->
  match calc_batch a bs order al, calc_batch a bs' order al with
  | Some m, Some m' =>
      mi_price m = mi_price m' /\ mi_matched m = mi_matched m' /\ mi_total m = mi_total m' /\
      mi_bidders m = mi_bidders m' /\ (forall u, mi_alloc m u = mi_alloc m' u) /\ (forall u, mi_refund m u = mi_refund m' u)
  | None, None => True
  | _, _ => False
  end.
Proof.
  intros H. unfold calc_batch.
  destruct (search _ _ _ _ _) as [best|]; [|exact I].
  cbn [mi_price mi_matched mi_total mi_bidders mi_alloc mi_refund].
  repeat split; try reflexivity.
  - apply bidders_of_perm, H.
  - intros u. rewrite (reserved_of_perm (a_pay_denom a) u bs bs' H). reflexivity.
Qed.
