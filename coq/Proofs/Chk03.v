(* Checker link for C03: the executable monitor Checkers.c03_ok holds of every transition of the model from a state
   satisfying the invariant: at the settlement of a batch auction every bidder other than the auctioneer receives -
   summed over ALL the transfers of the block out of the auction's selling escrow - exactly Spec.spec_alloc, and the
   published price is Spec.clearing_spec (0 if there is none).  ChkSettle.settling_facts + MatchBatch.calc_batch_spec.
   No axioms. *)
From Coq Require Import ZArith NArith List Bool Arith Lia.
From FR Require Import Dec Types Bank Match Step Genesis Model Spec Checkers.
From FR.Proofs Require Import InvDefs EscrowBase Ledger LedgerSettle ChkSettle Chk05.
From FR.Proofs Require FrameFacts BlockFacts InvAll FixedFacts EscrowBlock MatchBase MatchSweep MatchDemand MatchBatch
     LedgerChecker.
Import ListNotations.
Open Scope Z_scope.

Lemma not_bidder_all bs u :
  existsb (N.eqb u) (bidders_of bs) = false -> forall b, In b bs -> N.eqb (b_bidder b) u = false.
Proof.
  intros H b Hb. destruct (N.eqb (b_bidder b) u) eqn:E; [|reflexivity]. apply N.eqb_eq in E.
  assert (X : existsb (N.eqb u) (bidders_of bs) = true); [|congruence].
  apply existsb_exists. exists u. split; [|apply N.eqb_refl]. apply MatchBase.bidders_of_in. eauto.
Qed.

Lemma filter_none {A} (f : A -> bool) l : (forall x, In x l -> f x = false) -> filter f l = [].
Proof.
  induction l as [|x r IH]; intros H; [reflexivity|]. cbn [filter]. rewrite (H x (or_introl eq_refl)).
  apply IH. intros y Hy. apply H. right. exact Hy.
Qed.

(* a user without a bid is allocated nothing by the specification *)
Lemma spec_alloc_not_bidder bs al supply u :
  (forall x, In x al -> 0 < al_max x) -> existsb (N.eqb u) (bidders_of bs) = false -> spec_alloc bs al supply u = 0.
Proof.
  intros Hal Ex. unfold spec_alloc. destruct (clearing_spec bs al supply) as [p|]; [|reflexivity].
  unfold demand_of. rewrite (filter_none (fun b => N.eqb (b_bidder b) u && (p <=? b_price b)) bs).
  - cbn [map sumZ fold_right]. pose proof (MatchDemand.cap_of_nonneg al u Hal). lia.
  - intros b Hb. rewrite (not_bidder_all bs u Ex b Hb). reflexivity.
Qed.

Theorem c03_ok_model_inv s o : Inv s -> c03_ok (model_trans s o) = true.
Proof.
  intros I. unfold c03_ok. apply forallb_forall. intros [a a'] Hin.
  destruct (settling_facts s o a a' I Hin) as (t & orc & mi & wr & Ha & St & Fa' & Hw & D & Hrec & _ & Hbat & _).
  cbv zeta in Hrec, Hbat. cbv zeta. cbn [fst snd].
  destruct (a_type a) eqn:Ty; [reflexivity|].
  destruct Hw as [_ [(Ty' & _)|(_ & -> & _ & order & HV & HC)]]; [congruence|].
  destruct (Hbat eq_refl) as [Epr _].
  assert (Epre : t_pre (model_trans s o) = s) by (destruct (LedgerChecker.model_trans_fields s o) as (E & _); exact E).
  rewrite Epre, Epr.
  set (tr := model_trans s o) in *.
  pose proof (InvAll.Inv_find_in s a I Ha) as Fa.
  pose proof (EscrowBlock.Inv_book_wf s (a_id a) I) as BW.
  pose proof (EscrowBlock.InvStaticBase_find_wf s a I Fa) as AW.
  assert (Hsup : 0 <= a_sell_amt a) by (pose proof (awf_amt _ AW); lia).
  destruct (MatchBatch.calc_batch_spec_alloc a _ _ order _ BW HV Hsup) as (mi1 & HC1 & Hspec).
  rewrite HC in HC1. injection HC1 as <-.
  destruct (MatchBatch.calc_batch_spec a _ _ order _ BW HV Hsup) as (mi2 & HC2 & Hcl).
  rewrite HC in HC2. injection HC2 as <-.
  apply andb_true_iff. split.
  - apply forallb_forall. intros u _.
    destruct (N.eqb u (a_auctioneer a)) eqn:Eu; [reflexivity|]. cbn [orb]. apply Z.eqb_eq.
    rewrite Hrec, (N.eqb_sym (a_auctioneer a) u), Eu, Z.add_0_r.
    destruct (existsb (N.eqb u) (mi_bidders mi)) eqn:Ex; [apply Hspec|].
    rewrite (du_bidders _ _ _ _ D) in Ex. symmetry.
    apply spec_alloc_not_bidder; [apply (MatchDemand.wf_al_pos _ _ BW)|exact Ex].
  - apply Z.eqb_eq.
    destruct (clearing_spec (bids_of s (a_id a)) (allowed_of s (a_id a)) (a_sell_amt a)); apply Hcl.
Qed.

Theorem c03_ok_model s o : Inv s -> oracle_ok s o -> c03_ok (model_trans s o) = true.
Proof. intros I _. apply c03_ok_model_inv, I. Qed.
