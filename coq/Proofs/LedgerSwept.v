(* C02: the "nothing is stranded" conjunct of the executable statement (Checkers.c02_swept, c02_all) holds of every
   model transition: it is the sweeping clause of the exact escrow equation (C01). *)
From Coq Require Import ZArith NArith List Bool.
From FR Require Import Dec Types Bank Match Step Genesis Model Spec Checkers.
From FR.Proofs Require Import InvDefs InvAll ExcessAll LedgerChecker.
From FR.Proofs Require Chk04.
Import ListNotations.
Open Scope Z_scope.

Lemma forallb_impl {A} (f g : A -> bool) l :
  (forall x, In x l -> f x = true -> g x = true) -> forallb f l = true -> forallb g l = true.
Proof.
  intros H Hf. apply forallb_forall. intros x Hx. apply (H x Hx). rewrite forallb_forall in Hf. apply Hf, Hx.
Qed.

Lemma c01_implies_swept t : c01_ok t = true -> c02_swept t = true.
Proof.
  unfold c01_ok, c02_swept. apply forallb_impl. intros id _. apply forallb_impl. intros r _.
  apply forallb_impl. intros d _ H. cbv zeta in H. apply andb_true_iff in H. destruct H as [_ H].
  destruct (sweeps t r id d); [exact H|reflexivity].
Qed.

Theorem c02_swept_model s o : Inv s -> c02_swept (model_trans s o) = true.
Proof. intros I. apply c01_implies_swept, c01_ok_model, I. Qed.

Lemma c01_implies_vested t : c01_ok t = true -> c02_vested t = true.
Proof.
  unfold c01_ok, c02_vested. apply forallb_impl. intros id _ H.
  rewrite forallb_forall in H. assert (Hv : In Vesting roles) by (unfold roles; cbn; tauto).
  specialize (H Vesting Hv). revert H. apply forallb_impl. intros d _ H. cbv zeta in H.
  apply andb_true_iff in H. destruct H as [_ H].
  destruct (sweeps t Vesting id d); [reflexivity|exact H].
Qed.

Theorem c02_vested_model s o : Inv s -> c02_vested (model_trans s o) = true.
Proof. intros I. apply c01_implies_vested, c01_ok_model, I. Qed.

Theorem c02_all_model s o : Inv s -> tracked s o -> c02_all (model_trans s o) = true.
Proof.
  intros I T. unfold c02_all. apply andb_true_iff. split; [apply andb_true_iff; split; [apply andb_true_iff; split|]|].
  - apply c02_ok_model; assumption.
  - apply c02_swept_model, I.
  - apply Chk04.c04_batch_model, I.
  - apply c02_vested_model, I.
Qed.
