(* A concrete reachable state for the Examples of Properties/C15.v: the history below leaves
   auction 0 (batch) in the middle of its extended rounds with flagged bids, and auction 1 (fixed price)
   in vesting with two instalments, the first one released; two allowed bidders each. *)
From Coq Require Import ZArith NArith List Bool Arith Lia.
From FR Require Import Dec Types Bank Match Step Genesis Model Spec Checkers.
From FR.Proofs Require Import InvDefs.
Import ListNotations.
Open Scope Z_scope.

Definition g_init : state :=
  init_state (fun a _ => match a with User _ => 1000000 | _ => 0 end) 100 true
             {| p_cfee := [(0%N, 10)]; p_bfee := [(0%N, 1)]; p_period := 1 |}.

Definition g_coin (d : N) (a : Z) : mcoin := {| mc_denom := Some d; mc_amt := Some a |}.

Definition g_ops : list op :=
  [ OTx (MCreateBatch (AGood false 0) (Some P) (Some (P / 2)) (g_coin 1 500) (Some 2%N) [] 2 (Some (P / 10)) 50 200);
    OTx (MCreateFixed (AGood true 1) (Some P) (g_coin 1 1000) (Some 2%N)
           [{| ms_time := 400; ms_weight := Some (P / 2) |}; {| ms_time := 500; ms_weight := Some (P / 2) |}] 50 300);
    OApiAdd 1 [(1%N, AGood false 3, Some 200); (1%N, AGood false 2, Some 200)];
    OApiAdd 0 [(0%N, AGood false 3, Some 100); (0%N, AGood false 2, Some 100)];
    OTx (MPlaceBid (AGood false 2) 1 1 (Some P) (g_coin 2 100));
    OTx (MPlaceBid (AGood false 2) 0 2 (Some P) (g_coin 2 50));
    OTx (MPlaceBid (AGood false 3) 0 3 (Some (2 * P)) (g_coin 1 30));
    OTx (MPlaceBid (AGood false 3) 1 1 (Some P) (g_coin 1 50));
    OTx (MPlaceBid (AGood false 2) 0 2 (Some (P / 2)) (g_coin 2 10));
    OBlock 200 [(0%N, [2%N; 1%N; 3%N])];
    OBlock 300 [];
    OBlock 400 [] ].

Definition g_state : state := run g_init g_ops.

(* the empty store satisfies the invariant *)
Lemma g_init_Inv : Inv g_init.
Proof.
  constructor.
  - reflexivity.
  - constructor.
  - split; [constructor|intros id; reflexivity].
  - split; constructor.
  - intros b [].
  - intros a [].
  - split; [constructor|split; [constructor|intros a []]].
  - split.
    + intros x d. destruct x; cbn; discriminate.
    + intros r id d. cbn. discriminate.
  - intros id. reflexivity.
  - split; reflexivity.
  - split; [intros id _; repeat split|intros a []].
Qed.

(* ------------------------------------------------------------------ the invariant holds in g_state *)
(* g_lit is g_state with every field computed; the counters and the bank are closures over literals *)
Definition g_lit : state := Eval vm_compute in g_state.
Lemma g_lit_eq : g_state = g_lit.
Proof. vm_compute. reflexivity. Qed.

Ltac fin := vm_compute; repeat split; try reflexivity; try discriminate;
            try (let HH := fresh in intro HH; discriminate HH); try lia; auto.

Lemma g_lit_ids : ids_seq g_lit. Proof. vm_compute. reflexivity. Qed.

Lemma g_lit_auctions : auctions_wf g_lit.
Proof.
  unfold auctions_wf. cbn [st_auctions g_lit].
  constructor; [|constructor; [|constructor]]; constructor; fin.
Qed.

Ltac case_id id := destruct id as [|[?p|?p|]].

Lemma g_lit_bids : bids_wf g_lit.
Proof.
  split.
  - cbn [st_bids g_lit]. repeat (apply Forall_cons || apply Forall_nil).
    all: constructor; [fin|fin|fin|].
    all: eexists; split; [vm_compute; reflexivity|].
    all: fin.
  - intros id. case_id id; vm_compute; reflexivity.
Qed.

Lemma g_lit_allowed : allowed_wf g_lit.
Proof.
  split.
  - cbn [st_allowed g_lit]. repeat (apply Forall_cons || apply Forall_nil); reflexivity.
  - vm_compute. repeat (apply NoDup_cons || apply NoDup_nil); cbn; intuition discriminate.
Qed.

Lemma g_lit_bids_allowed : bids_allowed g_lit.
Proof.
  intros b Hb. vm_compute in Hb.
  repeat (destruct Hb as [<-|Hb]; [vm_compute; discriminate|]). destruct Hb.
Qed.

Lemma g_lit_remaining : remaining_inv g_lit.
Proof.
  intros a Ha. vm_compute in Ha.
  repeat (destruct Ha as [<-|Ha]; [fin|]). destruct Ha.
Qed.

Lemma g_lit_vqs : vqs_wf g_lit.
Proof.
  split; [|split].
  - cbn [st_vqs g_lit]. repeat (apply Forall_cons || apply Forall_nil).
    all: constructor; [fin|].
    all: eexists; split; [vm_compute; reflexivity|].
    all: fin.
  - vm_compute. repeat (apply NoDup_cons || apply NoDup_nil); cbn; intuition discriminate.
  - intros a Ha. vm_compute in Ha. destruct Ha as [<-|[<-|[]]].
    + intros [Hs|Hs]; discriminate Hs.
    + intros _ _. split; [vm_compute; reflexivity|]. exists 1%nat. vm_compute. reflexivity.
Qed.

Lemma g_lit_mlen : mlen_inv g_lit.
Proof. intros id. case_id id; vm_compute; reflexivity. Qed.

Lemma g_lit_params : params_wf g_lit.
Proof. split; vm_compute; reflexivity. Qed.

Lemma g_lit_fresh : fresh_inv g_lit.
Proof.
  split.
  - intros id. case_id id; intros Hle; try (exfalso; vm_compute in Hle; apply Hle; reflexivity);
      vm_compute; repeat split; reflexivity.
  - intros a Ha. vm_compute in Ha. destruct Ha as [<-|[<-|[]]]; intros [Hs|Hs]; discriminate Hs.
Qed.

Lemma g_lit_bal_nonneg x d : 0 <= st_bal g_lit x d.
Proof.
  let t := eval vm_compute in (st_bal g_lit x d) in change (0 <= t).
  repeat match goal with |- 0 <= (if ?c then _ else _) => destruct c; [lia|] end. destruct x; lia.
Qed.

Lemma g_lit_escrow : escrow_inv g_lit.
Proof.
  split; [exact g_lit_bal_nonneg|].
  intros r id d. case_id id.
  - destruct r; destruct d as [|[q|[q|q|]|]]; vm_compute; intro HH; discriminate HH.
  - replace (owed g_lit r (N.pos p~1) d) with 0 by (vm_compute; reflexivity). apply g_lit_bal_nonneg.
  - replace (owed g_lit r (N.pos p~0) d) with 0 by (vm_compute; reflexivity). apply g_lit_bal_nonneg.
  - destruct r; destruct d as [|[q|[q|q|]|]]; vm_compute; intro HH; discriminate HH.
Qed.

Theorem g_state_Inv : Inv g_state.
Proof.
  rewrite g_lit_eq. constructor.
  - exact g_lit_ids.
  - exact g_lit_auctions.
  - exact g_lit_bids.
  - exact g_lit_allowed.
  - exact g_lit_bids_allowed.
  - exact g_lit_remaining.
  - exact g_lit_vqs.
  - exact g_lit_escrow.
  - exact g_lit_mlen.
  - exact g_lit_params.
  - exact g_lit_fresh.
Qed.
Print Assumptions g_state_Inv.
