(* A concrete reachable state for the Examples of Properties/C15.v: the history below leaves
   auction 0 (batch) in the middle of its extended rounds with flagged bids, and auction 1 (fixed price)
   in vesting with two instalments, the first one released; two allowed bidders each. *)
From Coq Require Import ZArith NArith List Bool Arith.
From FR Require Import Dec Types Bank Match Step Genesis Model Spec Checkers.
From FR.Proofs Require Import InvDefs.
Import ListNotations.
Open Scope Z_scope.

Definition g_init : state :=
  init_state (fun a _ => match a with User _ => 1000000 | _ => 0 end) 100 true
             {| p_cfee := [(0%N, 10)]; p_bfee := [(0%N, 1)]; p_period := 1 |}.

Definition g_coin (d : N) (a : Z) : mcoin := {| mc_denom := Some d; mc_amt := Some a |}.

Definition g_ops : list op :=
  [ OTx (MCreateBatch (AGood false 0) (Some P) (Some (P / 2)) (g_coin 1 500) (Some 2%N) [] 2 (Some (P / 10)) 50 200);
    OTx (MCreateFixed (AGood true 1) (Some P) (g_coin 1 1000) (Some 2%N)
           [{| ms_time := 400; ms_weight := Some (P / 2) |}; {| ms_time := 500; ms_weight := Some (P / 2) |}] 50 300);
    OApiAdd 1 [(1%N, AGood false 3, Some 200); (1%N, AGood false 2, Some 200)];
    OApiAdd 0 [(0%N, AGood false 3, Some 100); (0%N, AGood false 2, Some 100)];
    OTx (MPlaceBid (AGood false 2) 1 1 (Some P) (g_coin 2 100));
    OTx (MPlaceBid (AGood false 2) 0 2 (Some P) (g_coin 2 50));
    OTx (MPlaceBid (AGood false 3) 0 3 (Some (2 * P)) (g_coin 1 30));
    OTx (MPlaceBid (AGood false 3) 1 1 (Some P) (g_coin 1 50));
    OTx (MPlaceBid (AGood false 2) 0 2 (Some (P / 2)) (g_coin 2 10));
    OBlock 200 [(0%N, [2%N; 1%N; 3%N])];
    OBlock 300 [];
    OBlock 400 [] ].

Definition g_state : state := run g_init g_ops.

(* the empty store satisfies the invariant *)
Lemma g_init_Inv : Inv g_init.
Proof.
  constructor.
  - reflexivity.
  - constructor.
  - split; [constructor|intros id; reflexivity].
  - split; constructor.
  - intros b [].
  - intros a [].
  - split; [constructor|split; [constructor|intros a []]].
  - split.
    + intros x d. destruct x; cbn; discriminate.
    + intros r id d. cbn. discriminate.
  - intros id. reflexivity.
  - split; reflexivity.
  - split; [intros id _; repeat split|intros a []].
Qed.
