(* Checker link for C17 (hooks): the executable statement Checkers.c17_ok never fires on a transition of the model
   from a state satisfying the global invariant.
   Part 1: the comparison functions; every operation other than a successful block.
   (The successful block is in Proofs/Chk17Block.v.) *)
From Coq Require Import ZArith NArith List Bool Arith Lia.
From FR Require Import Dec Types Bank Match Step Genesis Model Spec Checkers.
From FR.Proofs Require Import InvDefs HookBase HookFacts HookSites HookVeto AllowFacts FrameFacts TxFacts InvAll FixedFacts.
Import ListNotations.
Open Scope Z_scope.

(* ------------------------------------------------------------------ the comparison of hook calls *)
Lemma zeqb_list_refl l : zeqb_list l l = true.
Proof.
  unfold zeqb_list. rewrite Nat.eqb_refl. cbn [andb].
  induction l as [|x r IH]; cbn [combine forallb fst snd]; [reflexivity|]. rewrite Z.eqb_refl, IH. reflexivity.
Qed.

(* position by position the expectation is the value, or the "cannot tell" mark *)
Definition okm (exp got : list Z) : Prop := Forall2 (fun e g => e = -1 \/ e = g) exp got.

Lemma mask_okm exp : forall got, okm exp got -> mask_auctioneer exp got = got.
Proof.
  induction exp as [|e er IH]; intros got H; inversion H as [|? g ? gr Hh Ht]; subst; cbn [mask_auctioneer]; [reflexivity|].
  rewrite (IH gr Ht). destruct Hh as [->| ->]; [reflexivity|].
  destruct (g =? -1) eqn:E; reflexivity.
Qed.

Lemma okm_refl l : okm l l.
Proof. induction l as [|x r IH]; constructor; [right; reflexivity|exact IH]. Qed.

Lemma okm_app e1 g1 e2 g2 : okm e1 g1 -> okm e2 g2 -> okm (e1 ++ e2) (g1 ++ g2).
Proof. apply Forall2_app. Qed.

Lemma okm_enc_map us f g : (forall u, In u us -> f u = -1 \/ f u = g u) -> okm (enc_map us f) (enc_map us g).
Proof.
  intros H. unfold enc_map. constructor; [right; reflexivity|].
  induction us as [|u r IH]; cbn [flat_map]; [constructor|].
  constructor; [right; reflexivity|]. constructor; [apply H; left; reflexivity|].
  apply IH. intros v Hv. apply H. right. exact Hv.
Qed.

(* expected hook e is met by the hook g that was called *)
Definition hm (e g : N * list Z) : Prop := fst e = fst g /\ okm (snd e) (snd g).

Lemma hm_refl e : hm e e.
Proof. split; [reflexivity|apply okm_refl]. Qed.

Lemma list_eqb_app {A} (eqb : A -> A -> bool) l1 l2 : forall r1 r2,
  list_eqb eqb l1 r1 = true -> list_eqb eqb l2 r2 = true -> list_eqb eqb (l1 ++ l2) (r1 ++ r2) = true.
Proof.
  induction l1 as [|x l1 IH]; intros r1 r2 H1 H2; destruct r1 as [|y r1]; cbn [list_eqb app] in *; try discriminate H1.
  - exact H2.
  - apply andb_true_iff in H1. destruct H1 as [Hx H1]. rewrite Hx. cbn [andb]. apply IH; assumption.
Qed.

Lemma expected_trace_hm s E : forall G,
  Forall2 hm E G -> list_eqb hookcall_eqb (expected_trace s E) (expected_trace s G) = true.
Proof.
  induction E as [|e E IH]; intros G H; inversion H as [|? g ? G' Hh Ht]; subst; [reflexivity|].
  unfold expected_trace. cbn [flat_map]. apply list_eqb_app; [|apply IH; exact Ht].
  destruct Hh as [Hk Ho].
  induction (seq 0 (length (st_listeners s))) as [|i r IHr]; cbn [map list_eqb]; [reflexivity|].
  rewrite IHr, andb_true_r. unfold hookcall_eqb. cbn [h_listener h_kind h_args].
  rewrite N.eqb_refl, Hk, N.eqb_refl, (mask_okm _ _ Ho), zeqb_list_refl. reflexivity.
Qed.

Lemma expected_trace_refl s E : list_eqb hookcall_eqb (expected_trace s E) (expected_trace s E) = true.
Proof.
  apply expected_trace_hm. induction E as [|e E IH]; constructor; [apply hm_refl|exact IH].
Qed.

(* the ghost logs are not read by the comparison *)
Lemma vetoed_gr s tr : vetoed s tr = vetoed (ghost_reset s) tr.
Proof. reflexivity. Qed.
Lemma stops_gr s tr : stops_at_veto s tr = stops_at_veto (ghost_reset s) tr.
Proof. rewrite !stops_L. reflexivity. Qed.
Lemma expected_trace_gr s E : expected_trace s E = expected_trace (ghost_reset s) E.
Proof. reflexivity. Qed.

(* ------------------------------------------------------------------ the shape of c17_ok *)
(* an operation that does not succeed: whatever was called stops at the first veto *)
Lemma c17_failed t :
  (t_class t = KRej \/ t_class t = KBlockErr \/ t_class t = KPanic) ->
  stops_at_veto (t_pre t) (t_trace t) = true -> c17_ok t = true.
Proof.
  intros Hc Hs. unfold c17_ok.
  destruct Hc as [->|[->| ->]]; rewrite Hs; destruct (vetoed (t_pre t) (t_trace t)); reflexivity.
Qed.

(* an operation without hooks *)
Lemma c17_silent t :
  t_trace t = [] -> (t_class t = KOk \/ t_class t = KBlockOk -> expected_hooks t = []) -> c17_ok t = true.
Proof.
  intros Ht He. unfold c17_ok. rewrite Ht. cbn [vetoed existsb negb andb stops_at_veto].
  destruct (t_class t) eqn:Ec; try reflexivity.
  - rewrite He by (left; reflexivity). reflexivity.
  - rewrite He by (right; reflexivity). reflexivity.
Qed.

(* an operation that succeeds: nothing vetoed, and the calls are the expected ones *)
Lemma c17_succeeded t :
  (t_class t = KOk \/ t_class t = KBlockOk) -> vetoed (t_pre t) (t_trace t) = false ->
  list_eqb hookcall_eqb (expected_trace (t_pre t) (expected_hooks t)) (t_trace t) = true -> c17_ok t = true.
Proof.
  intros Hc Hv Hl. unfold c17_ok. rewrite Hv, Hl. destruct Hc as [->| ->]; reflexivity.
Qed.

(* ------------------------------------------------------------------ messages and API calls *)
Lemma call_outcome s o : is_call o -> fst (step s o) = Accepted \/ exists c, fst (step s o) = Rejected c.
Proof.
  intros Hc. assert (K : forall r, fst (commit s r) = Accepted \/ exists c, fst (commit s r) = Rejected c).
  { intros [x|c tr]; cbn [commit fst]; [left; reflexivity|right; exists c; reflexivity]. }
  destruct o as [m|a l|a u max| | | | |]; try contradiction; cbn [step]; try apply K.
  unfold deliver_tx. destruct (check_basic m); [apply K|right; exists E_BASIC; reflexivity].
Qed.

Lemma bids_wf_fresh_id s id : bids_wf s ->
  find (fun b => N.eqb (b_auction b) id && N.eqb (b_id b) (st_bseq s id + 1)) (st_bids s) = None.
Proof.
  intros [Hb _]. destruct (find _ (st_bids s)) as [b|] eqn:F; [|reflexivity]. exfalso.
  apply find_some in F. destruct F as [Hin E]. apply andb_true_iff in E. destruct E as [E1 E2].
  apply N.eqb_eq in E1, E2. rewrite Forall_forall in Hb. pose proof (bwf_id _ _ (Hb b Hin)) as K.
  rewrite E1, E2 in K. lia.
Qed.

(* the hooks an accepted message must have made, read off the post-state, are the ones it made *)
Lemma tx_expected s m s' :
  Inv s -> step s (OTx m) = (Accepted, s') ->
  st_trace s' = st_trace s ++
    expected_trace s (expected_hooks {| t_pre := s; t_op := OTx m; t_class := KOk; t_xfers := st_xfers s';
                                        t_trace := st_trace s'; t_post := s'; t_fault := false; t_gen_valid := false |}).
Proof.
  intros I Es.
  assert (Es1 : fst (step s (OTx m)) = Accepted) by (rewrite Es; reflexivity).
  assert (Es2 : snd (step s (OTx m)) = s') by (rewrite Es; reflexivity).
  destruct (accepted_tx_sites s m Es1) as (c & Hcb & Hh & Hsite). rewrite Es2 in Hh, Hsite.
  unfold expected_hooks. cbn [t_op t_pre t_post]. rewrite Hcb.
  destruct c as [u up price sd samt pd vs start end_|u up price minp sd samt pd vs maxr rate start end_|u up id
                 |u id bt price d amt|u id bid_id price d amt|a ea up u max|auth cfee bfee period];
    cbn [site_spec] in Hsite.
  - destruct Hsite as (a & Ha & Hid & _ & Ht).
    assert (F : find_auction s' (st_aseq s) = Some a).
    { unfold find_auction. rewrite Ha, find_app_single.
      change (find (fun x => N.eqb (a_id x) (st_aseq s)) (st_auctions s)) with (find_auction s (st_aseq s)).
      rewrite (ids_ok_fresh s (st_aseq s) (Inv_ids_ok s I)) by lia. rewrite Hid, N.eqb_refl. reflexivity. }
    rewrite F. exact Ht.
  - destruct Hsite as (a & Ha & Hid & _ & Ht).
    assert (F : find_auction s' (st_aseq s) = Some a).
    { unfold find_auction. rewrite Ha, find_app_single.
      change (find (fun x => N.eqb (a_id x) (st_aseq s)) (st_auctions s)) with (find_auction s (st_aseq s)).
      rewrite (ids_ok_fresh s (st_aseq s) (Inv_ids_ok s I)) by lia. rewrite Hid, N.eqb_refl. reflexivity. }
    rewrite F. exact Ht.
  - exact Hsite.
  - cbn [handle] in Hh. destruct (place_bid_ok _ _ _ _ _ _ _ _ Hh)
      as (a & e & s2 & b & _ & _ & _ & B1 & B2 & B3 & B4 & B5 & B6 & B7 & S1 & _ & _ & S4 & _ & S6 & _ & ->).
    assert (Q : st_bseq (with_bids (with_trace s2 (st_trace s2 ++ all_calls s H_BeforeBidPlaced (enc_bid_args b)))
                                   (st_bids s2 ++ [b])) id = (st_bseq s id + 1)%N).
    { sproj. rewrite S6. unfold upd. rewrite N.eqb_refl. reflexivity. }
    rewrite Q. unfold find_bid. sproj. rewrite S1, find_app_single, (bids_wf_fresh_id s id (inv_bids _ I)).
    rewrite B1, B2, !N.eqb_refl. cbn [andb]. rewrite S4, all_calls_expected. reflexivity.
  - destruct Hsite as (b & Fb & Hb & Ht).
    assert (F : find_bid s' id bid_id = Some (set_b_terms b price amt)).
    { unfold find_bid. rewrite Hb. unfold put_bid. sproj. rewrite find_put_bid.
      destruct (find_bid_some _ _ _ _ Fb) as (_ & K1 & K2). cbn [set_b_terms b_auction b_id].
      rewrite K1, K2, !N.eqb_refl. cbn [andb].
      change (find (fun x => N.eqb (b_auction x) id && N.eqb (b_id x) bid_id) (st_bids s)) with (find_bid s id bid_id).
      rewrite Fb. reflexivity. }
    rewrite F. exact Ht.
  - exact Hsite.
  - rewrite Hsite. cbn [expected_trace flat_map]. rewrite app_nil_r. reflexivity.
Qed.

Lemma api_add_expected s id l s' :
  step s (OApiAdd id l) = (Accepted, s') ->
  st_trace s' = st_trace s ++
    expected_trace s (expected_hooks {| t_pre := s; t_op := OApiAdd id l; t_class := KOk; t_xfers := st_xfers s';
                                        t_trace := st_trace s'; t_post := s'; t_fault := false; t_gen_valid := false |}).
Proof.
  intros Es. assert (Es1 : fst (step s (OApiAdd id l)) = Accepted) by (rewrite Es; reflexivity).
  pose proof (accepted_api_add_sites s id l Es1) as K. rewrite Es in K. exact K.
Qed.

Lemma api_update_expected s id u max s' :
  step s (OApiUpdate id u max) = (Accepted, s') ->
  st_trace s' = st_trace s ++
    expected_trace s (expected_hooks {| t_pre := s; t_op := OApiUpdate id u max; t_class := KOk; t_xfers := st_xfers s';
                                        t_trace := st_trace s'; t_post := s'; t_fault := false; t_gen_valid := false |}).
Proof.
  intros Es. cbn [step] in Es.
  destruct (api_update s id u max) as [s1|c tr] eqn:H; cbn [commit] in Es; [|discriminate Es].
  injection Es as <-.
  destruct (api_update_ok _ _ _ _ _ H) as (a & e & m & _ & _ & -> & _ & _ & ->).
  unfold expected_hooks. cbn [t_op t_post]. rewrite find_put_allowed, !N.eqb_refl. cbn [andb al_max].
  destruct (put_allowed_shape (with_trace s (st_trace s ++ all_calls s H_BeforeAllowedUpdated [zN id; zN u; m])) id u m)
    as [x ->]. sproj. rewrite all_calls_expected. reflexivity.
Qed.

(* expected_hooks reads only the operation and the two states *)
Lemma expected_hooks_ext t1 t2 :
  t_op t1 = t_op t2 -> t_pre t1 = t_pre t2 -> t_post t1 = t_post t2 -> t_xfers t1 = t_xfers t2 ->
  expected_hooks t1 = expected_hooks t2.
Proof.
  intros A B C D. unfold expected_hooks, settling, paired, received, refunded. rewrite A, B, C, D. reflexivity.
Qed.

Theorem c17_call s o : Inv s -> is_call o -> c17_ok (model_trans s o) = true.
Proof.
  intros I Hc. pose proof (Inv_ghost_reset s I) as I0.
  pose proof (call_verdict (ghost_reset s) o Hc) as V.
  unfold model_trans. fold (ghost_reset s).
  destruct (step (ghost_reset s) o) as [out s'] eqn:Es.
  assert (Es1 : fst (step (ghost_reset s) o) = out) by (rewrite Es; reflexivity).
  assert (Es2 : snd (step (ghost_reset s) o) = s') by (rewrite Es; reflexivity).
  cbn [fst snd] in V.
  assert (Htr : st_trace s' = st_trace (ghost_reset s) ++ st_trace s') by reflexivity.
  destruct (call_outcome (ghost_reset s) o Hc) as [Ha|[c Ha]]; rewrite Es1 in Ha; clear Es1; subst out.
  - apply c17_succeeded; cbn [t_class t_pre t_trace class_of]; [left; reflexivity| |].
    + rewrite vetoed_gr. destruct (vetoed (ghost_reset s) (st_trace s')) eqn:Hv; [|reflexivity].
      apply (vd_iff _ _ _ _ V _ Htr) in Hv. discriminate Hv.
    + assert (K : st_trace s' = expected_trace s (expected_hooks
                    {| t_pre := ghost_reset s; t_op := o; t_class := KOk; t_xfers := st_xfers s';
                       t_trace := st_trace s'; t_post := s'; t_fault := false; t_gen_valid := false |})).
      { destruct o as [m|a l|a u max| | | | |]; try contradiction.
        - exact (tx_expected (ghost_reset s) m s' I0 Es).
        - exact (api_add_expected (ghost_reset s) a l s' Es).
        - exact (api_update_expected (ghost_reset s) a u max s' Es). }
      rewrite K at 2.
      match goal with |- list_eqb _ (expected_trace s (expected_hooks ?t1)) (expected_trace s (expected_hooks ?t2)) = true =>
        replace (expected_hooks t1) with (expected_hooks t2); [apply expected_trace_refl|] end.
      destruct o as [m|a l|a u max| | | | |]; try contradiction; reflexivity.
  - apply c17_failed; cbn [t_class t_pre t_trace class_of]; [left; reflexivity|].
    rewrite stops_gr. exact (vd_stops _ _ _ _ V _ Htr).
Qed.
