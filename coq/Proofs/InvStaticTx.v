(* InvS is preserved by every transaction, API call, bank send and listener registration. *)
From Coq Require Import ZArith NArith List Bool Arith Lia Permutation.
From FR Require Import Dec Types Bank Match Step Genesis Model Spec.
From FR.Proofs Require Import FrameFacts TxFacts DecFacts MatchBase InvDefs InvStaticBase InvStaticUpd.
Import ListNotations.
Open Scope Z_scope.

(* ------------------------------------------------------------------ what ValidateBasic establishes *)
Definition scheds_chk (vs : list sched) (end_ : Z) : Prop := vs = [] \/ scheds_ok vs end_ year1_ns 0 = true.

Definition cmsg_wf (c : cmsg) : Prop :=
  match c with
  | CCreateFixed _ _ price sd samt pd vs _ end_ => 0 < price /\ 0 < samt /\ sd <> pd /\ scheds_chk vs end_
  | CCreateBatch _ _ price minp sd samt pd vs _ rate _ end_ =>
      0 < price /\ 0 < minp /\ 0 < samt /\ sd <> pd /\ 0 < rate /\ scheds_chk vs end_
  | CPlaceBid _ _ _ price _ amt => 0 < price /\ 0 < amt
  | CModifyBid _ _ _ price _ amt => 0 < price /\ 0 < amt
  | _ => True
  end.

Lemma check_pos_some x p : check_pos x = Some p -> 0 < p.
Proof.
  unfold check_pos. destruct x as [z|]; [|discriminate]. destruct (0 <? z) eqn:E; [|discriminate].
  intros H. injection H as <-. apply Z.ltb_lt. exact E.
Qed.
Lemma check_coin_some c d a : check_coin c = Some (d, a) -> 0 < a.
Proof.
  unfold check_coin. destruct (mc_denom c); [|discriminate]. destruct (mc_amt c) as [z|]; [|discriminate].
  destruct (0 <? z) eqn:E; [|discriminate]. intros H. injection H as _ <-. apply Z.ltb_lt. exact E.
Qed.
Lemma valid_scheds_some vs end_ l : valid_scheds vs end_ = Some l -> scheds_chk l end_.
Proof.
  unfold valid_scheds, scheds_chk. destruct vs as [|v vs].
  - intros H. injection H as <-. left. reflexivity.
  - intros H. right. eapply check_scheds_ok. exact H.
Qed.

Lemma check_basic_wf m c : check_basic m = Some c -> cmsg_wf c.
Proof.
  destruct m as [who price sell pay vs start end_|who price minp sell pay vs maxr rate start end_|who a
                |who a bt price coin|who a b price coin|a ea who max|auth cfee bfee period];
    cbn [check_basic]; intros H.
  - destruct who as [up u|]; [|discriminate].
    destruct (check_pos price) as [p|] eqn:E1; [|discriminate].
    destruct (check_coin sell) as [[sd sa]|] eqn:E2; [|discriminate].
    destruct pay as [pd|]; [|discriminate].
    destruct (negb (N.eqb sd pd) && (start <? end_)) eqn:E3; [|discriminate].
    destruct (valid_scheds vs end_) as [l|] eqn:E4; [|discriminate].
    injection H as <-. cbn [cmsg_wf]. apply andb_true_iff in E3. destruct E3 as [E3 _].
    apply negb_true_iff, N.eqb_neq in E3.
    repeat split; [eapply check_pos_some; eassumption|eapply check_coin_some; eassumption|exact E3|
                   eapply valid_scheds_some; eassumption].
  - destruct who as [up u|]; [|discriminate].
    destruct (check_pos price) as [p|] eqn:E1; [|discriminate].
    destruct (check_pos minp) as [mp|] eqn:E1'; [|discriminate].
    destruct (check_coin sell) as [[sd sa]|] eqn:E2; [|discriminate].
    destruct pay as [pd|]; [|discriminate].
    destruct (check_pos rate) as [r|] eqn:E1''; [|discriminate].
    destruct (negb (N.eqb sd pd) && (start <? end_)) eqn:E3; [|discriminate].
    destruct (valid_scheds vs end_) as [l|] eqn:E4; [|discriminate].
    injection H as <-. cbn [cmsg_wf]. apply andb_true_iff in E3. destruct E3 as [E3 _].
    apply negb_true_iff, N.eqb_neq in E3.
    repeat split; [eapply check_pos_some; eassumption|eapply check_pos_some; eassumption|
                   eapply check_coin_some; eassumption|exact E3|eapply check_pos_some; eassumption|
                   eapply valid_scheds_some; eassumption].
  - destruct who; [|discriminate]. injection H as <-. exact I.
  - destruct who as [up u|]; [|discriminate].
    destruct (check_pos price) as [p|] eqn:E1; [|discriminate].
    destruct (check_coin coin) as [[d amt]|] eqn:E2; [|discriminate].
    destruct (decode_btype bt); [|discriminate]. injection H as <-. cbn [cmsg_wf].
    split; [eapply check_pos_some; eassumption|eapply check_coin_some; eassumption].
  - destruct who as [up u|]; [|discriminate].
    destruct (check_pos price) as [p|] eqn:E1; [|discriminate].
    destruct (check_coin coin) as [[d amt]|] eqn:E2; [|discriminate].
    injection H as <-. cbn [cmsg_wf].
    split; [eapply check_pos_some; eassumption|eapply check_coin_some; eassumption].
  - destruct who; [|discriminate]. injection H as <-. exact I.
  - injection H as <-. exact I.
Qed.

(* ------------------------------------------------------------------ creation *)
Lemma fund_pool_inv0 s u cs s1 : fund_pool s u cs = Ok s1 -> exists b xs, s1 = with_bank s b xs.
Proof. intros H. apply (fund_pool_inv 0%N) in H. destruct H as (b & xs & -> & _). eauto. Qed.

Lemma new_auction_wf id ty u up price sd samt pd vs start end_ st rem minp maxr rate :
  0 < price -> 0 < samt -> sd <> pd -> scheds_chk vs end_ -> (length vs <= MaxNumVestingSchedules)%nat ->
  (maxr <= MaxExtendedRound)%N ->
  (ty = Batch -> 0 < minp /\ 0 < rate /\ rem = 0) ->
  (ty = FixedPrice -> minp = 0 /\ rate = 0 /\ maxr = 0%N /\ rem = samt) ->
  auction_wf (new_auction id ty u up price sd samt pd vs start end_ st rem minp maxr rate).
Proof.
  intros H1 H2 H3 H4 H5 H6 H7 H8. split; cbn [new_auction a_start_price a_sell_amt a_sell_denom a_pay_denom a_ends
    a_max_round a_scheds a_type a_min_price a_rate a_remaining a_matched_price].
  - exact H1.
  - exact H2.
  - exact H3.
  - cbn [length]. lia.
  - exact H6.
  - unfold scheds_wf, first_end. cbn [new_auction a_scheds a_ends hd]. exact H4.
  - exact H5.
  - intros T. destruct (H7 T) as (K1 & K2 & K3). repeat split; try assumption. lia.
  - intros T. destruct (H8 T) as (K1 & K2 & K3 & K4). repeat split; try assumption; lia.
Qed.

Lemma InvS_create_fixed s u up price sd samt pd vs start end_ s' :
  InvS s -> 0 < price -> 0 < samt -> sd <> pd -> scheds_chk vs end_ ->
  create_fixed s u up price sd samt pd vs start end_ = Ok s' -> InvS s'.
Proof.
  unfold create_fixed. cbv zeta. intros I H1 H2 H3 H4 H.
  inv_step H; [inv_step H|]. inv_step H; [inv_step H|].
  inv_step H. apply fund_pool_inv0 in E1. destruct E1 as (b1 & xs1 & ->).
  inv_step H. apply send_inv0 in E1. destruct E1 as (b2 & xs2 & ->).
  inv_step H. inv_hook E1. inv_step H. inv_hook E1. inv_step H. subst s'.
  apply Nat.ltb_ge in E0.
  match goal with |- InvS (with_trace (with_auctions _ (_ ++ [?a])) _) =>
    apply (InvS_ceq (with_auctions (with_aseq s (st_aseq s + 1)) (st_auctions s ++ [a]))) end.
  - repeat split.
  - apply InvS_create; [exact I|reflexivity|].
    apply new_auction_wf; try assumption; try lia; try (intros C; discriminate C).
Qed.

Lemma InvS_create_batch s u up price minp sd samt pd vs maxr rate start end_ s' :
  InvS s -> 0 < price -> 0 < minp -> 0 < samt -> sd <> pd -> 0 < rate -> scheds_chk vs end_ ->
  create_batch s u up price minp sd samt pd vs maxr rate start end_ = Ok s' -> InvS s'.
Proof.
  unfold create_batch. cbv zeta. intros I H1 H1' H2 H3 H3' H4 H.
  inv_step H; [inv_step H|]. inv_step H; [inv_step H|]. inv_step H; [inv_step H|].
  inv_step H. apply fund_pool_inv0 in E2. destruct E2 as (b1 & xs1 & ->).
  inv_step H. apply send_inv0 in E2. destruct E2 as (b2 & xs2 & ->).
  inv_step H. inv_hook E2. inv_step H. inv_hook E2. inv_step H. subst s'.
  apply Nat.ltb_ge in E0. unfold MaxExtendedRound in E1. apply N.ltb_ge in E1.
  match goal with |- InvS (with_trace (with_auctions _ (_ ++ [?a])) _) =>
    apply (InvS_ceq (with_auctions (with_aseq s (st_aseq s + 1)) (st_auctions s ++ [a]))) end.
  - repeat split.
  - apply InvS_create; [exact I|reflexivity|].
    apply new_auction_wf; try assumption; try lia; try (intros C; discriminate C);
      try (intros _; repeat split; assumption).
Qed.

(* ------------------------------------------------------------------ cancel *)
Lemma InvS_cancel s u up id s' : InvS s -> cancel s u up id = Ok s' -> InvS s'.
Proof.
  intros I H. apply cancel_inv in H. destruct H as (a & F & St & _ & (b & xs & tr & _ & ->)).
  pose proof (find_auction_some _ _ _ F) as [_ Hid]. pose proof (InvS_find_wf s id a I F) as W.
  apply (InvS_put_auction _ a); [apply InvS_with_trace, InvS_with_bank, I|rewrite Hid; exact F| |].
  - unfold upd_ok. destruct (a_type a) eqn:T; cbn; repeat split; try exact T; intros _; exact St.
  - apply auction_wf_set_status. destruct (a_type a) eqn:T; [|exact W].
    apply auction_wf_set_remaining; [exact T| |exact W]. destruct W as [_ W2 _ _ _ _ _ _ _]. lia.
Qed.

(* ------------------------------------------------------------------ bids *)
Lemma atype_eqb_eq x y : atype_eqb x y = true <-> x = y.
Proof. destruct x, y; cbn; split; intros H; try reflexivity; try discriminate. Qed.

Lemma validate_fixed_bid_ok s a b x :
  validate_fixed_bid s a b = Ok x ->
  a_type a = FixedPrice /\ (b_denom b = a_pay_denom a \/ b_denom b = a_sell_denom a)
  /\ b_price b = a_start_price a /\ sell_amount (a_pay_denom a) b <= a_remaining a.
Proof.
  unfold validate_fixed_bid. cbv zeta. intros H.
  inv_step H; [inv_step H|]. inv_step H; [inv_step H|]. inv_step H; [inv_step H|]. inv_step H; [inv_step H|].
  apply negb_false_iff, atype_eqb_eq in E. apply negb_false_iff, Z.eqb_eq in E1. apply Z.ltb_ge in E2.
  repeat split; try assumption.
  destruct (N.eqb (b_denom b) (a_pay_denom a)) eqn:D1; [left; apply N.eqb_eq; exact D1|].
  destruct (N.eqb (b_denom b) (a_sell_denom a)) eqn:D2; [right; apply N.eqb_eq; exact D2|discriminate E0].
Qed.

Lemma validate_batch_bid_ok s a b d x :
  validate_batch_bid s a b d = Ok x -> a_type a = Batch /\ b_denom b = d.
Proof.
  unfold validate_batch_bid. intros H. inv_step H; [inv_step H|]. inv_step H; [inv_step H|].
  apply negb_false_iff, atype_eqb_eq in E. apply negb_false_iff, N.eqb_eq in E0. split; assumption.
Qed.

Lemma sell_amount_nonneg pd b : 0 < b_price b -> 0 < b_amt b -> 0 <= sell_amount pd b.
Proof.
  intros Hp Ha. unfold sell_amount. destruct (N.eqb (b_denom b) pd); [|lia].
  apply qty_of_worth_nonneg; lia.
Qed.

Lemma InvS_place_bid s u id bt price d amt s' :
  InvS s -> 0 < price -> 0 < amt -> place_bid s u id bt price d amt = Ok s' -> InvS s'.
Proof.
  unfold place_bid. cbv zeta. intros I Hp Ha H.
  inv_step H; [|inv_step H]. inv_step H; [inv_step H|]. inv_step H; [inv_step H|].
  inv_step H; [|inv_step H].
  inv_step H. apply fund_pool_inv0 in E3. destruct E3 as (b1 & xs1 & ->).
  inv_step H. destruct s0 as [s2 nb].
  inv_step H. inv_hook_as E4 tr1. inv_step H. subst s'.
  apply negb_false_iff in E0. apply status_eqb_eq in E0.
  pose proof (find_auction_some _ _ _ E) as [_ Hid]. pose proof (InvS_find_wf s id a I E) as W.
  cbn [st_bseq with_bank] in E3.
  destruct bt.
  - (* fixed price *)
    inv_step E3. apply validate_fixed_bid_ok in E4. cbn [b_denom b_price] in E4.
    destruct E4 as (T & Hd & Hpr & Hrem).
    inv_step E3. apply send_inv0 in E4. destruct E4 as (b2 & xs2 & ->). injection E3 as <- <-.
    set (b0 := {| b_auction := id; b_id := (st_bseq s id + 1)%N; b_bidder := u; b_type := BFixed;
                  b_price := price; b_denom := d; b_amt := amt; b_matched := false |}) in *.
    set (q := sell_amount (a_pay_denom a) b0) in *.
    assert (Hq : 0 <= q) by (apply sell_amount_nonneg; assumption).
    set (a' := set_remaining a (a_remaining a - q)).
    set (nb := set_b_matched b0 (0 <? q)).
    assert (IP : InvS (put_auction s a')).
    { apply (InvS_put_auction s a); [exact I|rewrite Hid; exact E| |].
      - apply upd_ok_same_status; try reflexivity. rewrite E0. discriminate.
      - apply auction_wf_set_remaining; [exact T| |exact W].
        destruct W as [_ _ _ _ _ _ _ _ W9]. destruct (W9 T) as (_ & _ & _ & _ & K). lia. }
    apply (InvS_ceq (with_bids (with_bseq (put_auction s a') (upd (st_bseq (put_auction s a')) (b_auction nb) (b_id nb)))
                               (st_bids (put_auction s a') ++ [nb]))); [repeat split|].
    apply (InvS_place (put_auction s a') a' nb); try assumption.
    + change (b_auction nb) with id. rewrite <- Hid.
      apply (find_auction_put_same s a' a). change (a_id a') with (a_id a). rewrite Hid. exact E.
    + reflexivity.
    + unfold bid_terms_ok. cbn [a_type a' set_remaining]. rewrite T.
      repeat split; try assumption.
    + cbn [a_type a' set_remaining]. rewrite T. discriminate.
  - (* worth *)
    inv_step E3. apply validate_batch_bid_ok in E4. cbn [b_denom] in E4. destruct E4 as (T & Hd).
    inv_step E3. apply send_inv0 in E4. destruct E4 as (b2 & xs2 & ->). injection E3 as <- <-.
    rewrite T in E1. cbn [atype_eqb andb] in E1. apply Z.ltb_ge in E1.
    match goal with |- InvS (with_bids _ (_ ++ [?x])) => set (nb := x) end.
    apply (InvS_ceq (with_bids (with_bseq s (upd (st_bseq s) (b_auction nb) (b_id nb))) (st_bids s ++ [nb])));
      [repeat split|].
    apply (InvS_place s a nb); try assumption; try reflexivity.
    unfold bid_terms_ok. rewrite T. split; [left; split; [reflexivity|exact Hd]|exact E1].
  - (* many *)
    inv_step E3. apply validate_batch_bid_ok in E4. cbn [b_denom] in E4. destruct E4 as (T & Hd).
    inv_step E3. apply send_inv0 in E4. destruct E4 as (b2 & xs2 & ->). injection E3 as <- <-.
    rewrite T in E1. cbn [atype_eqb andb] in E1. apply Z.ltb_ge in E1.
    match goal with |- InvS (with_bids _ (_ ++ [?x])) => set (nb := x) end.
    apply (InvS_ceq (with_bids (with_bseq s (upd (st_bseq s) (b_auction nb) (b_id nb))) (st_bids s ++ [nb])));
      [repeat split|].
    apply (InvS_place s a nb); try assumption; try reflexivity.
    unfold bid_terms_ok. rewrite T. split; [right; split; [reflexivity|exact Hd]|exact E1].
Qed.

Lemma InvS_modify_bid s u id bid_id price d amt s' :
  InvS s -> 0 < price -> 0 < amt -> modify_bid s u id bid_id price d amt = Ok s' -> InvS s'.
Proof.
  unfold modify_bid. cbv zeta. intros Hinv Hp Ha H.
  inv_step H; [|inv_step H]. inv_step H; [inv_step H|]. inv_step H; [inv_step H|].
  inv_step H; [|inv_step H].
  inv_step H; [inv_step H|]. inv_step H; [inv_step H|]. inv_step H; [inv_step H|].
  inv_step H; [inv_step H|]. inv_step H; [inv_step H|].
  inv_step H. inv_step H.
  apply (opt_send_inv id) in E9; [|exact I|reflexivity]. destruct E9 as (b1 & xs1 & -> & _).
  inv_step H. inv_hook_as E9 tr1. inv_step H. subst s'.
  apply negb_false_iff, atype_eqb_eq in E1. apply Z.ltb_ge in E4.
  destruct (find_bid_some _ _ _ _ E2) as (_ & Hb1 & Hb2).
  apply (InvS_ceq (put_bid s (set_b_terms b price amt))); [repeat split|].
  pose proof Hinv as I'. apply (InvS_put_bid s a b price amt); try assumption.
  - rewrite Hb1, Hb2. exact E2.
  - rewrite Hb1. exact E.
Qed.

(* ------------------------------------------------------------------ the allow-list *)
Lemma InvS_add_entries a l : forall s s',
  InvS s -> find_auction s (a_id a) = Some a -> add_entries s a l = Ok s' -> InvS s'.
Proof.
  induction l as [|[[ea who] max] l IH]; cbn [add_entries]; intros s s' I F H.
  - injection H as <-. exact I.
  - destruct who as [up u|]; [|discriminate H]. destruct max as [m|]; [|discriminate H].
    destruct (negb (0 <? m)) eqn:E1; [discriminate H|]. destruct (a_sell_amt a <? m); [discriminate H|].
    apply negb_false_iff, Z.ltb_lt in E1.
    apply IH in H; [exact H| |].
    + eapply InvS_put_allowed; eassumption.
    + rewrite put_allowed_eq. exact F.
Qed.

Lemma InvS_api_add s id l s' : InvS s -> api_add s id l = Ok s' -> InvS s'.
Proof.
  unfold api_add. intros I H. destruct l as [|e l]; [discriminate H|].
  inv_step H; [|inv_step H]. inv_step H. inv_hook_as E0 tr1.
  pose proof (find_auction_some _ _ _ E) as [_ Hid].
  apply (InvS_add_entries a (e :: l) (with_trace s tr1) s'); [apply InvS_with_trace, I| |exact H].
  rewrite Hid. exact E.
Qed.

Lemma InvS_api_update s id u max s' : InvS s -> api_update s id u max = Ok s' -> InvS s'.
Proof.
  unfold api_update. intros I H.
  inv_step H; [|inv_step H]. inv_step H; [|inv_step H]. inv_step H; [|inv_step H].
  inv_step H. inv_hook_as E2 tr1. inv_step H. subst s'. apply check_pos_some in E1.
  apply (InvS_put_allowed _ id a); [apply InvS_with_trace, I|exact E|exact E1].
Qed.

(* ------------------------------------------------------------------ parameters *)
Lemma check_coins_ok l : forall low r, check_coins l low = Some r -> coins_ok r low = true.
Proof.
  induction l as [|c l IH]; cbn [check_coins]; intros low r H.
  - injection H as <-. reflexivity.
  - destruct (check_coin c) as [[d a]|] eqn:E; [|discriminate].
    destruct (match low with Some lo => N.ltb lo d | None => true end) eqn:E2; [|discriminate].
    destruct (check_coins l (Some d)) as [r'|] eqn:E3; [|discriminate]. injection H as <-.
    cbn [coins_ok]. rewrite E2, (IH _ _ E3). apply check_coin_some, Z.ltb_lt in E. rewrite E. reflexivity.
Qed.

Lemma InvS_update_params s auth cfee bfee period s' :
  InvS s -> update_params s auth cfee bfee period = Ok s' -> InvS s'.
Proof.
  unfold update_params. intros I H. destruct auth as [|[up u|]]; try discriminate H.
  inv_step H; [|inv_step H]. inv_step H; [|inv_step H]. inv_step H. subst s'.
  apply InvS_with_params; [exact I| |]; cbn [p_cfee p_bfee]; eapply check_coins_ok; eassumption.
Qed.

(* ------------------------------------------------------------------ all handlers *)
Theorem InvS_handle s c s' : InvS s -> cmsg_wf c -> handle s c = Ok s' -> InvS s'.
Proof.
  intros I W H. destruct c; cbn [handle cmsg_wf] in *.
  - destruct W as (W1 & W2 & W3 & W4). exact (InvS_create_fixed _ _ _ _ _ _ _ _ _ _ _ I W1 W2 W3 W4 H).
  - destruct W as (W1 & W2 & W3 & W4 & W5 & W6).
    exact (InvS_create_batch _ _ _ _ _ _ _ _ _ _ _ _ _ _ I W1 W2 W3 W4 W5 W6 H).
  - eapply InvS_cancel; eassumption.
  - destruct W as (W1 & W2). exact (InvS_place_bid _ _ _ _ _ _ _ _ I W1 W2 H).
  - destruct W as (W1 & W2). exact (InvS_modify_bid _ _ _ _ _ _ _ _ I W1 W2 H).
  - destruct (st_switch s); [|discriminate H]. eapply InvS_api_add; eassumption.
  - eapply InvS_update_params; eassumption.
Qed.

Lemma InvS_commit s r : InvS s -> (forall s', r = Ok s' -> InvS s') -> InvS (snd (commit s r)).
Proof.
  intros I H. destruct r as [s'|c tr]; cbn [commit snd]; [apply H; reflexivity|apply InvS_with_trace, I].
Qed.

Theorem InvS_step_tx s m : InvS s -> InvS (snd (step s (OTx m))).
Proof.
  intros I. cbn [step]. unfold deliver_tx. destruct (check_basic m) as [c|] eqn:CB; [|exact I].
  apply InvS_commit; [exact I|]. intros s' H. eapply InvS_handle; [exact I| |exact H].
  eapply check_basic_wf. exact CB.
Qed.

Theorem InvS_step_api_add s a l : InvS s -> InvS (snd (step s (OApiAdd a l))).
Proof. intros I. cbn [step]. apply InvS_commit; [exact I|]. intros s'. apply InvS_api_add. exact I. Qed.

Theorem InvS_step_api_update s a u max : InvS s -> InvS (snd (step s (OApiUpdate a u max))).
Proof. intros I. cbn [step]. apply InvS_commit; [exact I|]. intros s'. apply InvS_api_update. exact I. Qed.

Theorem InvS_step_send s from to d amt : InvS s -> InvS (snd (step s (OSend from to d amt))).
Proof.
  intros I. cbn [step]. apply InvS_commit; [exact I|]. intros s' H.
  destruct (0 <? amt); [|discriminate H]. apply send_ceq in H. eapply InvS_ceq; eassumption.
Qed.

Theorem InvS_step_listeners s ls : InvS s -> InvS (snd (step s (OSetListeners ls))).
Proof. intros I. cbn [step snd]. apply InvS_with_listeners, I. Qed.
