(* Checker link for C04: the executable monitor Checkers.c04_ok holds of every transition of the model from a state
   satisfying the invariant.  Batch clause: ChkSettle.settling_facts + the refund facts of MatchConseq + the flags of
   PublishFacts; fixed price clause: ChkFixedBid.fixed_bid_effect + the conversions of DecFacts.  No axioms. *)
From Coq Require Import ZArith NArith List Bool Arith Lia.
From FR Require Import Dec Types Bank Match Step Genesis Model Spec Checkers.
From FR.Proofs Require Import InvDefs EscrowBase Ledger LedgerCharges LedgerSettle ChkSettle ChkFixedBid Chk05.
From FR.Proofs Require FrameFacts BlockFacts InvAll FixedFacts LifeTheorems EscrowBlock MatchBase MatchSweep MatchDemand
     MatchConseq PublishFacts DecFacts InvStaticBase LedgerChecker.
Import ListNotations.
Open Scope Z_scope.

Lemma P_pos' : 0 < P. Proof. reflexivity. Qed.
Local Opaque P.

(* ------------------------------------------------------------------ the flags after the settlement, counted *)
Lemma flagged_count m u bs :
  Z.of_nat (length (filter (fun b => N.eqb (b_bidder b) u && b_matched b) (map (PublishFacts.flag_with m) bs)))
  = MatchConseq.matched_count bs m u.
Proof.
  unfold MatchConseq.matched_count. f_equal. induction bs as [|b r IH]; [reflexivity|].
  cbn [map filter]. unfold PublishFacts.flag_with at 1 2. cbn [set_b_matched b_bidder b_matched].
  destruct (N.eqb (b_bidder b) u && existsb (N.eqb (b_id b)) m); cbn [length]; rewrite IH; reflexivity.
Qed.

Lemma matched_count_pos bs m u b :
  In b bs -> b_bidder b = u -> In (b_id b) m -> 0 < MatchConseq.matched_count bs m u.
Proof.
  intros Hb Eu Hm. unfold MatchConseq.matched_count.
  assert (Hin : In b (filter (fun b0 => N.eqb (b_bidder b0) u && existsb (N.eqb (b_id b0)) m) bs)).
  { apply filter_In. split; [exact Hb|]. apply andb_true_iff. split; [apply N.eqb_eq, Eu|].
    apply PublishFacts.existsb_eqb_in. exact Hm. }
  destruct (filter _ bs) as [|x l]; [destruct Hin|]. cbn [length]. lia.
Qed.

(* ------------------------------------------------------------------ the batch clause *)
Theorem c04_batch_model s o : Inv s -> c04_batch (model_trans s o) = true.
Proof.
  intros I. unfold c04_batch. apply forallb_forall. intros [a a'] Hin.
  destruct (settling_facts s o a a' I Hin) as (t & orc & mi & wr & Ha & St & Fa' & Hw & D & Hrec & Href & Hbat & _).
  cbv zeta in Hrec, Href, Hbat. cbv zeta. cbn [fst snd].
  destruct (a_type a) eqn:Ty; [reflexivity|].
  destruct Hw as [_ [(Ty' & _)|(_ & -> & _ & order & HV & HC)]]; [congruence|].
  destruct (Hbat eq_refl) as [Epr Ebs].
  assert (Epre : t_pre (model_trans s o) = s) by (destruct (LedgerChecker.model_trans_fields s o) as (E & _); exact E).
  rewrite Epre, Epr, Ebs.
  set (tr := model_trans s o) in *.
  pose proof (InvAll.Inv_find_in s a I Ha) as Fa.
  pose proof (EscrowBlock.Inv_book_wf s (a_id a) I) as BW.
  pose proof (EscrowBlock.InvStaticBase_find_wf s a I Fa) as AW.
  pose proof (EscrowBlock.Inv_denoms_wf s a I Fa Ty) as DW.
  assert (Hsup : 0 <= a_sell_amt a) by (pose proof (awf_amt _ AW); lia).
  destruct (MatchConseq.batch_refund_facts a _ _ order _ mi BW HV Hsup DW HC) as (R1 & R2 & R3 & _).
  cbv zeta in R1, R2, R3.
  pose proof (MatchConseq.batch_paid_strict a _ _ order _ mi BW HV Hsup DW HC) as R5.
  destruct (PublishFacts.batch_flag_facts a _ _ order _ mi BW HV Hsup HC) as (_ & _ & _ & _ & _ & _ & F7 & F8 & _).
  pose proof (du_alloc _ _ _ _ D) as Hal.
  set (bs := bids_of s (a_id a)) in *. set (pd := a_pay_denom a) in *.
  apply forallb_forall. intros u _.
  destruct (N.eqb u (a_auctioneer a)) eqn:Eu; [reflexivity|]. cbn [orb].
  assert (Eg : received tr (a_id a) (a_sell_denom a) u = if existsb (N.eqb u) (mi_bidders mi) then mi_alloc mi u else 0).
  { rewrite Hrec, (N.eqb_sym (a_auctioneer a) u), Eu. lia. }
  assert (Er : refunded tr (a_id a) pd u = if existsb (N.eqb u) (mi_bidders mi) then mi_refund mi u else 0).
  { subst pd. rewrite Href, (N.eqb_sym (a_auctioneer a) u), Eu. cbn [andb]. destruct (a_scheds a); lia. }
  rewrite Eg, Er, flagged_count.
  apply andb_true_iff. split.
  - (* amounts *)
    destruct (existsb (N.eqb u) (mi_bidders mi)) eqn:Ex.
    + specialize (R1 u). specialize (R2 u). specialize (R3 u). specialize (Hal u).
      apply andb_true_iff. split; [apply andb_true_iff; split; [apply Z.leb_le; lia|apply Z.leb_le; lia]|].
      destruct (mi_alloc mi u =? 0) eqn:E0.
      * apply Z.eqb_eq in E0. apply Z.eqb_eq. apply R2. exact E0.
      * apply Z.eqb_neq in E0. assert (Hpos : 0 < mi_alloc mi u) by lia.
        apply F8 in Hpos. destruct Hpos as (b & Hb & Eb & Hm).
        pose proof (matched_count_pos bs (mi_matched mi) u b Hb Eb Hm) as Hk.
        specialize (R5 u Hk). apply andb_true_iff. split; [apply Z.leb_le; lia|apply Z.ltb_lt; exact R5].
    + rewrite (du_bidders _ _ _ _ D) in Ex. fold bs in Ex.
      assert (E0 : reserved_of pd bs u = 0).
      { unfold reserved_of. rewrite (not_bidder_filter _ _ Ex). reflexivity. }
      rewrite E0. reflexivity.
  - (* matched bids are priced at or above the published price *)
    apply forallb_forall. intros b' Hb'. apply in_map_iff in Hb'. destruct Hb' as (b & <- & Hb).
    unfold PublishFacts.flag_with. cbn [set_b_matched b_bidder b_matched b_price].
    destruct (N.eqb (b_bidder b) u && existsb (N.eqb (b_id b)) (mi_matched mi)) eqn:E; [|reflexivity].
    cbn [negb orb]. apply andb_true_iff in E. destruct E as [_ E]. apply PublishFacts.existsb_eqb_in in E.
    apply Z.leb_le. apply F7; assumption.
Qed.

(* ------------------------------------------------------------------ the fixed price clause *)
Lemma sum_xfers_coin_to_pool f cs f' r id d :
  sum_xfers (coin_xfers f Pool cs) (from_to f' (Escrow r id) d) = 0.
Proof.
  apply sum_xfers_none. intros x Hx. unfold coin_xfers in Hx. apply in_flat_map in Hx.
  destruct Hx as (c & _ & Hx). unfold send_xf in Hx. destruct (snd c =? 0); [destruct Hx|].
  destruct Hx as [<-|[]]. unfold from_to. cbn [mkx x_to addr_eqb]. rewrite andb_false_r. reflexivity.
Qed.

Theorem c04_fixed_model s o : Inv s -> c04_fixed (model_trans s o) = true.
Proof.
  intros I. pose proof (FixedFacts.Inv_ghost_reset s I) as I0. unfold c04_fixed.
  pose proof (model_trans_accepted s o) as Hacc.
  pose proof (LedgerChecker.model_xfers s o) as Exs.
  destruct (LedgerChecker.model_trans_fields s o) as (E1 & E2 & _ & _ & E5).
  rewrite E1, E2, E5, Exs. change (LedgerChecker.fresh_logs s) with (FixedFacts.ghost_reset s).
  destruct o as [m| | | | | | |]; try reflexivity.
  destruct (t_class (model_trans s (OTx m))) eqn:Ek; try reflexivity. specialize (Hacc eq_refl).
  destruct (check_basic m) as [c|] eqn:CB; [|reflexivity].
  destruct c as [| | |u id bt price d amt| | |]; try reflexivity. destruct bt; try reflexivity.
  destruct (fixed_bid_effect _ m u id price d amt I0 CB Hacc)
    as (a & a' & nb & Fa & Fa' & Ty & St & T & Eb & B3 & B5 & B6 & B7 & Dn & Pr & Hp & Hamt & Er & _ & Exf).
  cbv zeta in Fa', Eb, Exf.
  change (find_auction (FixedFacts.ghost_reset s) id = Some a) with (find_auction s id = Some a) in Fa.
  rewrite Fa, Fa', Exf. cbv zeta.
  rewrite sum_xfers_app, sum_xfers_coin_to_pool, sum_xfers_send_xf.
  rewrite !EscrowBase.addr_eqb_refl, N.eqb_refl. cbn [andb]. unfold ind.
  rewrite Er.
  replace (a_remaining a - (a_remaining a - sell_amount (a_pay_denom a) nb)) with (sell_amount (a_pay_denom a) nb) by lia.
  assert (Hbp : 0 < b_price nb) by (rewrite B5; exact Hp).
  assert (Hba : 0 < b_amt nb) by (rewrite B7; exact Hamt).
  destruct (N.eqb d (a_pay_denom a)) eqn:Ed.
  - apply N.eqb_eq in Ed. assert (Hd : b_denom nb = a_pay_denom a) by congruence.
    destruct (DecFacts.fixed_bid_paying (a_pay_denom a) nb Hd Hba Hbp) as (H1 & _ & H3). cbv zeta in H1.
    rewrite B7, B5, Pr in H1. rewrite H3, B7.
    apply andb_true_iff. split; [apply andb_true_iff; split|].
    + apply Z.eqb_eq. lia.
    + apply Z.leb_le. lia.
    + apply Z.ltb_lt. lia.
  - apply N.eqb_neq in Ed. assert (Hd : b_denom nb <> a_pay_denom a) by congruence.
    destruct (DecFacts.fixed_bid_selling (a_pay_denom a) nb Hd Hba Hbp) as (H1 & _ & H3). cbv zeta in H1.
    rewrite B7, B5, Pr in H1. rewrite H3, B7.
    apply andb_true_iff. split; [apply andb_true_iff; split|].
    + apply Z.eqb_eq. reflexivity.
    + apply Z.leb_le. lia.
    + apply Z.ltb_lt. lia.
Qed.

(* ------------------------------------------------------------------ the link *)
Theorem c04_ok_model_inv s o : Inv s -> c04_ok (model_trans s o) = true.
Proof.
  intros I. unfold c04_ok. rewrite (c04_batch_model s o I), (c04_fixed_model s o I). reflexivity.
Qed.

Theorem c04_ok_model s o : Inv s -> oracle_ok s o -> c04_ok (model_trans s o) = true.
Proof. intros I _. apply c04_ok_model_inv, I. Qed.
