(* A small concrete history with two auctions, used by the Examples of C08 / C13 / C19. *)
From Coq Require Import ZArith NArith List Bool Arith Lia.
From FR Require Import Dec Types Bank Match Step Genesis Model Spec.
From FR.Proofs Require Import FrameFacts TxFacts BlockFacts LifeTheorems.
Import ListNotations.
Open Scope Z_scope.

Definition ex_init : state :=
  {| st_params := {| p_cfee := [(0%N, 10)]; p_bfee := [(0%N, 1)]; p_period := 1 |};
     st_auctions := []; st_bids := []; st_allowed := []; st_vqs := [];
     st_aseq := 0; st_bseq := fun _ => 0%N; st_mlen := fun _ => 0;
     st_bal := fun a _ => match a with User _ => 1000000 | _ => 0 end;
     st_now := 100; st_listeners := []; st_switch := true; st_xfers := []; st_trace := [] |}.

Definition coin (d : N) (a : Z) : mcoin := {| mc_denom := Some d; mc_amt := Some a |}.

(* auction 0: fixed price, already started; auction 1: batch with 2 extension rounds and one vesting
   instalment, still in stand-by *)
Definition ex_create_fixed : op :=
  OTx (MCreateFixed (AGood false 0) (Some P) (coin 1 1000) (Some 2%N) [] 50 200).
Definition ex_create_batch : op :=
  OTx (MCreateBatch (AGood false 1) (Some P) (Some P) (coin 1 500) (Some 2%N)
         [{| ms_time := 400; ms_weight := Some P |}] 2 (Some (P / 10)) 150 300).
Definition ex_allow : op := OTx (MAddAllowed 0 0 (AGood false 2) (Some 100)).
Definition ex_bid : op := OTx (MPlaceBid (AGood false 2) 0 1 (Some P) (coin 2 50)).

Definition ex_s : state := run ex_init [ex_create_fixed; ex_create_batch; ex_allow; ex_bid].

Lemma ex_init_ok : ids_ok ex_init /\ bounded ex_init.
Proof. split; [apply ids_ok_empty|apply bounded_empty]; reflexivity. Qed.

Lemma ex_ops_no_genesis : Forall (fun o => o <> OGenesis) [ex_create_fixed; ex_create_batch; ex_allow; ex_bid].
Proof. repeat constructor; discriminate. Qed.

Lemma ex_ids_ok : ids_ok ex_s.
Proof. apply L_run_invariants; [exact ex_ops_no_genesis|apply ex_init_ok|apply ex_init_ok]. Qed.
Lemma ex_bounded : bounded ex_s.
Proof. apply L_run_invariants; [exact ex_ops_no_genesis|apply ex_init_ok|apply ex_init_ok]. Qed.
Lemma ex_bid_keys_unique : bid_keys_unique ex_s.
Proof. unfold bid_keys_unique. vm_compute. repeat constructor. intros []. Qed.

(* the same history continued: auction 1 opened by a block at t = 160 *)
Definition ex_s2 : state := snd (step ex_s (OBlock 160 [])).
Lemma ex_ids_ok2 : ids_ok ex_s2.
Proof. apply L_ids_ok_step; [exact ex_ids_ok|discriminate]. Qed.
