(* Lifecycle (C08), bounded extension rounds (C13, structural part), isolation and immutable terms (C19):
   the theorems, proved from the shapes of TxFacts and BlockFacts. *)
From Coq Require Import ZArith NArith List Bool Arith Lia.
From FR Require Import Dec Types Bank Match Step Genesis Model Spec Checkers.
From FR.Proofs Require Import FrameFacts TxFacts BlockFacts.
Import ListNotations.
Open Scope Z_scope.

(* ------------------------------------------------------------------ one relation for every step *)
Definition step_arel (s : state) (o : op) (a a' : auction) : Prop :=
  if FrameFacts.is_block o
  then (fst (step s o) = BlockOk /\ block_rel (FrameFacts.block_time o) (block_orc o) s a a')
       \/ ((exists c, fst (step s o) = BlockErr c) /\ a' = a)
  else tx_arel o (fst (step s o)) (a_id a) a a'.

Lemma step_auction s o id a :
  ids_ok s -> o <> OGenesis -> find_auction s id = Some a ->
  exists a', find_auction (snd (step s o)) id = Some a' /\ step_arel s o a a'.
Proof.
  intros OK Hg F. unfold step_arel. destruct (FrameFacts.is_block o) eqn:B.
  - destruct (step_block s o B) as [[Ho Hb]|[Ho (tr & Hs)]].
    + destruct (begin_block_spec _ _ _ _ OK Hb) as (A & _).
      destruct (A id a F) as (a' & F' & R). exists a'. split; [exact F'|]. left. split; assumption.
    + exists a. split; [rewrite Hs; exact F|]. right. split; [exact Ho|reflexivity].
  - pose proof (step_shape s o B Hg) as Sh.
    destruct (tx_auction _ _ _ _ id a Sh F) as (a' & F' & R). exists a'. split; [exact F'|].
    pose proof (find_auction_some _ _ _ F) as [_ ->]. exact R.
Qed.

(* ------------------------------------------------------------------ consequences of the relations *)
Lemma status_eqb_refl x : status_eqb x x = true.
Proof. destruct x; reflexivity. Qed.
Lemma forward_refl x : forward x x = true.
Proof. unfold forward. rewrite status_eqb_refl. reflexivity. Qed.

Lemma a_status_cancel_of a : a_status (cancel_of a) = Cancelled.
Proof. reflexivity. Qed.
Lemma a_ends_cancel_of a : a_ends (cancel_of a) = a_ends a.
Proof. unfold cancel_of. destruct (a_type a); reflexivity. Qed.

(* the immutable terms, without first_end (which is derived from a_ends) *)
Definition terms0_eq (a a' : auction) : Prop :=
  a_id a' = a_id a /\ a_type a' = a_type a /\ a_auctioneer a' = a_auctioneer a /\ a_upper a' = a_upper a
  /\ a_start_price a' = a_start_price a /\ a_sell_denom a' = a_sell_denom a /\ a_sell_amt a' = a_sell_amt a
  /\ a_pay_denom a' = a_pay_denom a /\ a_scheds a' = a_scheds a /\ a_start a' = a_start a
  /\ a_min_price a' = a_min_price a /\ a_max_round a' = a_max_round a /\ a_rate a' = a_rate a.

Lemma terms0_refl a : terms0_eq a a.
Proof. repeat split. Qed.
Lemma terms0_cancel_of a : terms0_eq a (cancel_of a).
Proof. unfold cancel_of. destruct (a_type a); repeat split. Qed.

(* what a step can do to the end times *)
Definition ends_rel (s : state) (o : op) (a a' : auction) : Prop :=
  a_ends a' = a_ends a
  \/ (a_ends a' = a_ends a ++ [last_end a + p_period (st_params s) * day_ns]
      /\ a_type a = Batch /\ a_status a = Started /\ a_status a' = Started
      /\ FrameFacts.is_block o = true /\ fst (step s o) = BlockOk
      /\ last_end a <= FrameFacts.block_time o /\ N.of_nat (length (a_ends a)) <> (a_max_round a + 1)%N).

Lemma settled_st_cases a : settled_st a = Finished \/ settled_st a = VestingS.
Proof. unfold settled_st. destruct (a_scheds a); auto. Qed.

Lemma block_rel_forward t orc s a a' : block_rel t orc s a a' -> forward (a_status a) (a_status a') = true.
Proof.
  unfold block_rel. destruct (a_status a) eqn:St.
  - destruct (a_start a <=? t); intros ->; cbn [a_status set_status]; [reflexivity|rewrite St; reflexivity].
  - destruct (last_end a <=? t); [|intros ->; rewrite St; reflexivity].
    destruct (a_type a).
    + intros ->. cbn [a_status set_status]. destruct (settled_st_cases a) as [-> | ->]; reflexivity.
    + intros (order & mi & _ & _ & ->). destruct (decision s a mi).
      * cbn. rewrite St. reflexivity.
      * cbn [a_status set_status]. destruct (settled_st_cases a) as [-> | ->]; reflexivity.
  - destruct (last_due t (vqs_of s (a_id a))); intros ->; [reflexivity|rewrite St; reflexivity].
  - intros ->. rewrite St. reflexivity.
  - intros ->. rewrite St. reflexivity.
Qed.

Lemma block_rel_terms t orc s a a' : block_rel t orc s a a' -> terms0_eq a a'.
Proof.
  unfold block_rel. destruct (a_status a) eqn:St.
  - destruct (a_start a <=? t); intros ->; repeat split.
  - destruct (last_end a <=? t); [|intros ->; repeat split].
    destruct (a_type a) eqn:Ty.
    + intros ->. repeat split.
    + intros (order & mi & _ & _ & ->). destruct (decision s a mi); repeat split.
  - destruct (last_due t (vqs_of s (a_id a))); intros ->; repeat split.
  - intros ->. repeat split.
  - intros ->. repeat split.
Qed.

Lemma step_arel_forward s o a a' : step_arel s o a a' -> forward (a_status a) (a_status a') = true.
Proof.
  unfold step_arel. destruct (FrameFacts.is_block o).
  - intros [[_ R]|[_ ->]]; [eapply block_rel_forward; exact R|apply forward_refl].
  - intros [->|[(St & _ & _ & ->)|(St & _ & _ & x & ->)]].
    + apply forward_refl.
    + rewrite St. reflexivity.
    + cbn [a_status set_remaining]. apply forward_refl.
Qed.

Lemma step_arel_terms s o a a' : step_arel s o a a' -> terms0_eq a a'.
Proof.
  unfold step_arel. destruct (FrameFacts.is_block o).
  - intros [[_ R]|[_ ->]]; [eapply block_rel_terms; exact R|apply terms0_refl].
  - intros [->|[(St & _ & _ & ->)|(St & _ & _ & x & ->)]].
    + apply terms0_refl.
    + apply terms0_cancel_of.
    + repeat split.
Qed.

Lemma step_arel_ends s o a a' : step_arel s o a a' -> ends_rel s o a a'.
Proof.
  unfold step_arel, ends_rel. destruct (FrameFacts.is_block o) eqn:B.
  - intros [[Ho R]|[_ ->]]; [|left; reflexivity].
    unfold block_rel in R. destruct (a_status a) eqn:St.
    + left. destruct (a_start a <=? FrameFacts.block_time o); subst a'; reflexivity.
    + destruct (last_end a <=? FrameFacts.block_time o) eqn:Due; [|left; subst a'; reflexivity].
      destruct (a_type a) eqn:Ty; [left; subst a'; reflexivity|].
      destruct R as (order & mi & _ & _ & ->). destruct (decision s a mi) eqn:D; [|left; reflexivity].
      right. unfold decision in D. apply andb_true_iff in D. destruct D as [D _].
      apply negb_true_iff in D. apply N.eqb_neq in D. apply Z.leb_le in Due.
      repeat split; try assumption; try reflexivity. congruence.
    + left. destruct (last_due (FrameFacts.block_time o) (vqs_of s (a_id a))); subst a'; reflexivity.
    + left. subst a'. reflexivity.
    + left. subst a'. reflexivity.
  - intros [->|[(St & _ & _ & ->)|(St & _ & _ & x & ->)]]; left.
    + reflexivity.
    + apply a_ends_cancel_of.
    + reflexivity.
Qed.

(* ------------------------------------------------------------------ ids: the auction list and its counter *)
Lemma step_ids s o :
  ids_ok s -> o <> OGenesis ->
  (exists a, creation s o (fst (step s o)) (snd (step s o)) a)
  \/ (map a_id (st_auctions (snd (step s o))) = map a_id (st_auctions s)
      /\ st_aseq (snd (step s o)) = st_aseq s).
Proof.
  intros OK Hg. destruct (FrameFacts.is_block o) eqn:B.
  - right. destruct (step_block s o B) as [[Ho Hb]|[Ho (tr & Hs)]].
    + destruct (begin_block_spec _ _ _ _ OK Hb) as (_ & _ & _ & G & _).
      destruct G as (_ & G2 & _ & _ & _ & G6). split; [exact G6|exact G2].
    + rewrite Hs. split; reflexivity.
  - apply tx_auction_list. apply step_shape; assumption.
Qed.

Lemma L_ids_ok_step s o : ids_ok s -> o <> OGenesis -> ids_ok (snd (step s o)).
Proof.
  intros OK Hg. destruct (step_ids s o OK Hg) as [(a & C)|[H1 H2]].
  - destruct C as (_ & _ & C1 & C2 & C3 & _). eapply ids_ok_create; eassumption.
  - eapply ids_ok_same; eassumption.
Qed.

(* ------------------------------------------------------------------ C08 *)
Lemma L_C08_forward s o id a :
  ids_ok s -> o <> OGenesis -> find_auction s id = Some a ->
  exists a', find_auction (snd (step s o)) id = Some a' /\ forward (a_status a) (a_status a') = true.
Proof.
  intros OK Hg F. destruct (step_auction s o id a OK Hg F) as (a' & F' & R).
  exists a'. split; [exact F'|]. eapply step_arel_forward. exact R.
Qed.

Lemma L_C08_only_block_or_cancel s o id a a' :
  o <> OGenesis -> FrameFacts.is_block o = false ->
  find_auction s id = Some a -> find_auction (snd (step s o)) id = Some a' ->
  a_status a' = a_status a
  \/ (fst (step s o) = Accepted /\ (exists who, o = OTx (MCancel who id))
      /\ a_status a = StandBy /\ a_status a' = Cancelled).
Proof.
  intros Hg B F F'. pose proof (step_shape s o B Hg) as Sh.
  destruct (tx_auction _ _ _ _ id a Sh F) as (a'' & F'' & R).
  assert (a'' = a') by congruence. subst a''.
  destruct R as [->|[(St & Ho & Hc & ->)|(St & _ & _ & x & ->)]].
  - left. reflexivity.
  - right. repeat split; assumption.
  - left. reflexivity.
Qed.

Lemma L_C08_block_rel s o id a :
  ids_ok s -> FrameFacts.is_block o = true -> fst (step s o) = BlockOk -> find_auction s id = Some a ->
  exists a', find_auction (snd (step s o)) id = Some a'
             /\ block_rel (FrameFacts.block_time o) (block_orc o) s a a'.
Proof.
  intros OK B Ho F. assert (Hg : o <> OGenesis) by (intros ->; discriminate B).
  destruct (step_auction s o id a OK Hg F) as (a' & F' & R).
  exists a'. split; [exact F'|]. unfold step_arel in R. rewrite B in R.
  destruct R as [[_ R]|[(c & Hc) _]]; [exact R|congruence].
Qed.

Lemma block_rel_timing t orc s a a' :
  block_rel t orc s a a' ->
  match a_status a with
  | StandBy => (a_status a' = Started <-> a_start a <= t) /\ (t < a_start a -> a' = a)
               /\ a_status a' <> Cancelled
  | Started => ((a_status a' = VestingS \/ a_status a' = Finished \/ exists e, a_ends a' = a_ends a ++ [e])
                <-> last_end a <= t)
               /\ (t < last_end a -> a' = a)
  | VestingS => (a_status a' = Finished <-> last_due t (vqs_of s (a_id a)) = true)
                /\ (last_due t (vqs_of s (a_id a)) = false -> a' = a)
  | Finished | Cancelled => a' = a
  end.
Proof.
  unfold block_rel. destruct (a_status a) eqn:St.
  - destruct (a_start a <=? t) eqn:E; intros ->.
    + apply Z.leb_le in E. cbn [a_status set_status]. repeat split; intros; try lia; try discriminate.
    + apply Z.leb_gt in E. rewrite St. repeat split; intros; try lia; try discriminate.
  - destruct (last_end a <=? t) eqn:E.
    + apply Z.leb_le in E. split; [|intros; lia]. split; [intros _; exact E|intros _].
      destruct (a_type a).
      * subst a'. cbn [a_status set_status]. destruct (settled_st_cases a) as [-> | ->]; auto.
      * destruct H as (order & mi & _ & _ & ->). destruct (decision s a mi).
        -- right; right. eexists. reflexivity.
        -- cbn [a_status set_status]. destruct (settled_st_cases a) as [-> | ->]; auto.
    + apply Z.leb_gt in E. intros ->. split; [|reflexivity]. rewrite St. split; [|intros; lia].
      intros [H|[H|(e & H)]]; try discriminate.
      apply (f_equal (@length Z)) in H. rewrite app_length in H. cbn [length] in H. lia.
  - destruct (last_due t (vqs_of s (a_id a))); intros ->.
    + cbn [a_status set_status]. repeat split; intros; try reflexivity; discriminate.
    + rewrite St. repeat split; intros; try reflexivity; discriminate.
  - auto.
  - auto.
Qed.

Lemma L_C08_creation_status s m :
  ids_ok s -> is_create m = true -> fst (step s (OTx m)) = Accepted ->
  exists a, st_auctions (snd (step s (OTx m))) = st_auctions s ++ [a]
    /\ a_id a = st_aseq s /\ find_auction (snd (step s (OTx m))) (st_aseq s) = Some a
    /\ find_auction s (st_aseq s) = None
    /\ st_aseq (snd (step s (OTx m))) = (st_aseq s + 1)%N
    /\ a_status a = (if a_start a <=? st_now s then Started else StandBy)
    /\ (exists e, a_ends a = [e]) /\ (a_max_round a <= MaxExtendedRound)%N /\ (a_type a = FixedPrice -> a_max_round a = 0%N).
Proof.
  intros OK Hc Ho. assert (Sh : tx_shape s (OTx m) Accepted (snd (step s (OTx m)))).
  { rewrite <- Ho. apply step_shape; [reflexivity|discriminate]. }
  destruct (tx_create _ _ _ Sh Hc) as (a & _ & _ & C1 & C2 & C3 & C4 & C5 & C6 & C7).
  pose proof (ids_ok_fresh s (st_aseq s) OK (N.le_refl _)) as Fr.
  exists a. repeat split; try assumption.
  rewrite (find_auction_conv_app s _ a (st_aseq s) C1), Fr, C2, N.eqb_refl. reflexivity.
Qed.

Lemma L_C08_no_other_creation s o :
  ids_ok s -> o <> OGenesis ->
  (forall m, o = OTx m -> is_create m = true -> fst (step s o) <> Accepted) ->
  map a_id (st_auctions (snd (step s o))) = map a_id (st_auctions s) /\ st_aseq (snd (step s o)) = st_aseq s.
Proof.
  intros OK Hg Hn. destruct (step_ids s o OK Hg) as [(a & C)|H]; [|exact H].
  destruct C as ((m & -> & Hc) & Ho & _). exfalso. exact (Hn m eq_refl Hc Ho).
Qed.

Lemma L_C08_bids_only_open_place s who id bt price coin :
  fst (step s (OTx (MPlaceBid who id bt price coin))) = Accepted ->
  exists a, find_auction s id = Some a /\ a_status a = Started.
Proof.
  intros Ho. assert (Sh : tx_shape s (OTx (MPlaceBid who id bt price coin)) Accepted
                                   (snd (step s (OTx (MPlaceBid who id bt price coin))))).
  { rewrite <- Ho. apply step_shape; [reflexivity|discriminate]. }
  destruct (tx_place _ _ _ _ _ _ _ Sh) as (a & nb & F & St & _). exists a. auto.
Qed.

Lemma L_C08_bids_only_open_modify s who id bid price coin :
  fst (step s (OTx (MModifyBid who id bid price coin))) = Accepted ->
  exists a, find_auction s id = Some a /\ a_status a = Started.
Proof.
  intros Ho. assert (Sh : tx_shape s (OTx (MModifyBid who id bid price coin)) Accepted
                                   (snd (step s (OTx (MModifyBid who id bid price coin))))).
  { rewrite <- Ho. apply step_shape; [reflexivity|discriminate]. }
  destruct (tx_modify _ _ _ _ _ _ _ Sh) as (a & b0 & F & St & _). exists a. auto.
Qed.

(* ------------------------------------------------------------------ C13 (structural part) *)
Lemma L_C13_ends_grow s o id a :
  ids_ok s -> o <> OGenesis -> find_auction s id = Some a ->
  exists a', find_auction (snd (step s o)) id = Some a' /\ ends_rel s o a a'.
Proof.
  intros OK Hg F. destruct (step_auction s o id a OK Hg F) as (a' & F' & R).
  exists a'. split; [exact F'|]. apply step_arel_ends. exact R.
Qed.

Lemma bounded_empty s : st_auctions s = [] -> bounded s.
Proof. unfold bounded. intros ->. constructor. Qed.

Lemma round_bounded_step s o a a' :
  terms0_eq a a' -> ends_rel s o a a' -> round_bounded a -> round_bounded a'.
Proof.
  intros T E [[B1 B2] B3]. destruct T as (_ & _ & _ & _ & _ & _ & _ & _ & _ & _ & _ & Tm & _).
  unfold round_bounded. rewrite Tm. destruct E as [->|(-> & _ & _ & _ & _ & _ & _ & Hn)].
  - auto.
  - rewrite app_length. cbn [length]. repeat split; try lia.
Qed.

(* every auction of the post-state is the image of an auction of the pre-state, or was just created *)
Lemma step_auctions_origin s o a' :
  ids_ok s -> o <> OGenesis -> In a' (st_auctions (snd (step s o))) ->
  (exists a, In a (st_auctions s) /\ step_arel s o a a')
  \/ creation s o (fst (step s o)) (snd (step s o)) a'.
Proof.
  intros OK Hg HI. pose proof (L_ids_ok_step s o OK Hg) as OK'.
  pose proof (ids_ok_find _ _ OK' HI) as F'.
  assert (Old : In (a_id a') (map a_id (st_auctions s)) ->
                exists a, In a (st_auctions s) /\ step_arel s o a a').
  { intros HM. apply in_map_iff in HM. destruct HM as (a & Hid & Ha).
    pose proof (ids_ok_find _ _ OK Ha) as F. rewrite Hid in F.
    destruct (step_auction s o (a_id a') a OK Hg F) as (a'' & F'' & R).
    exists a. split; [exact Ha|]. congruence. }
  destruct (step_ids s o OK Hg) as [(a0 & C)|[H1 _]].
  - pose proof C as (_ & _ & C1 & _). rewrite C1 in HI. apply in_app_or in HI.
    destruct HI as [HI|[<-|[]]]; [|right; exact C].
    left. apply Old. apply in_map. exact HI.
  - left. apply Old. rewrite <- H1. apply in_map. exact HI.
Qed.

Lemma L_C13_bounded s o : ids_ok s -> o <> OGenesis -> bounded s -> bounded (snd (step s o)).
Proof.
  intros OK Hg B. unfold bounded in *. rewrite Forall_forall in *. intros a' HI.
  destruct (step_auctions_origin s o a' OK Hg HI) as [(a & Ha & R)|C].
  - eapply round_bounded_step; [eapply step_arel_terms; exact R|apply step_arel_ends; exact R|apply B; exact Ha].
  - destruct C as (_ & _ & _ & _ & _ & _ & (e & He) & Hm & _).
    unfold round_bounded. rewrite He. cbn [length]. repeat split; lia.
Qed.

Lemma decision_true_iff s a mi :
  decision s a mi = true <->
  N.of_nat (length (a_ends a)) <> (a_max_round a + 1)%N
  /\ (st_mlen s (a_id a) = 0
      \/ extend_rule (Z.of_nat (length (mi_matched mi))) (st_mlen s (a_id a)) (a_rate a) = true).
Proof.
  unfold decision. rewrite andb_true_iff, negb_true_iff, N.eqb_neq, orb_true_iff, Z.eqb_eq.
  split; intros [H1 H2]; (split; [congruence|exact H2]).
Qed.

Lemma L_C13_last_round_settles s orc a order mi :
  length (a_ends a) = (N.to_nat (a_max_round a) + 1)%nat ->
  valid_order (bids_of s (a_id a)) (oracle_ids orc (a_id a)) = Some order ->
  calc_batch a (bids_of s (a_id a)) order (allowed_of s (a_id a)) = Some mi ->
  close_batch s orc a
  = settle_batch (set_flags s (a_id a) (mi_matched mi)) (set_matched_price a (mi_price mi)) mi.
Proof.
  intros HL HV HC. rewrite (close_batch_unfold s orc a order mi HV HC).
  destruct (decision s a mi) eqn:D; [|reflexivity].
  apply decision_true_iff in D. destruct D as [D _]. exfalso. apply D. lia.
Qed.

(* ------------------------------------------------------------------ C19 *)
Lemma target_some_tx s o tid : FrameFacts.target s o = Some tid -> FrameFacts.is_block o = false /\ o <> OGenesis.
Proof. destruct o; cbn; intros H; try discriminate H; split; try reflexivity; discriminate. Qed.

Lemma L_C19_frame_tx s o tid : FrameFacts.target s o = Some tid -> frame tid s (snd (step s o)).
Proof.
  intros T. destruct (target_some_tx s o tid T) as [B Hg].
  eapply tx_frame; [apply step_shape; assumption|exact T].
Qed.

Lemma L_C19_frame_process t orc s a s' : process t orc s a = Ok s' -> frame (a_id a) s s'.
Proof. intros H. destruct (process_spec _ _ _ _ _ H) as [[P _ _ _ _] _]. exact P. Qed.

Lemma L_C19_frame_block s o j :
  ids_ok s -> FrameFacts.is_block o = true ->
  (find_auction s j = None \/ exists a, find_auction s j = Some a /\ idle (FrameFacts.block_time o) s a) ->
  slice_eq j s (snd (step s o)).
Proof.
  intros OK B H. destruct (step_block s o B) as [[Ho Hb]|[Ho (tr & Hs)]].
  - destruct (begin_block_spec _ _ _ _ OK Hb) as (_ & A2 & A3 & _).
    destruct H as [H|(a & F & Hi)]; [apply A2; exact H|eapply A3; eassumption].
  - rewrite Hs. split; reflexivity.
Qed.

Lemma L_C19_block_independent s t orc s' a :
  ids_ok s -> begin_block s t orc = Ok s' -> In a (st_auctions s) ->
  exists s1 s2, slice_eq (a_id a) s s1 /\ find_auction s1 (a_id a) = Some a
    /\ st_params s1 = st_params s /\ st_listeners s1 = st_listeners s /\ st_now s1 = t
    /\ process t orc s1 a = Ok s2 /\ slice_eq (a_id a) s2 s'.
Proof.
  intros OK H HI. pose proof (ids_ok_find _ _ OK HI) as F. destruct OK as [ND _].
  unfold begin_block in H. cbv zeta in H. change (st_auctions (with_now s t)) with (st_auctions s) in H.
  destruct (process_all_spec t orc _ _ _ ND H) as (_ & _ & _ & _ & _ & I6).
  destruct (I6 a HI) as (s1 & s2 & A1 & A2 & A3 & A4).
  assert (N0 : slice_eq (a_id a) s (with_now s t)) by (split; reflexivity).
  assert (A1' : slice_eq (a_id a) s s1) by (eapply slice_eq_trans; eassumption).
  destruct A2 as (G1 & _ & G3 & G4 & _).
  exists s1, s2. split; [exact A1'|]. split; [rewrite (se_auction _ _ _ A1'); exact F|].
  split; [exact G1|]. split; [exact G4|]. split; [exact G3|]. split; [exact A3|exact A4].
Qed.

Lemma hd_app_nonempty (l : list Z) x : l <> [] -> hd 0 (l ++ [x]) = hd 0 l.
Proof. destruct l; [congruence|reflexivity]. Qed.

Lemma L_C19_terms s o id a :
  ids_ok s -> o <> OGenesis -> find_auction s id = Some a ->
  exists a', find_auction (snd (step s o)) id = Some a' /\ terms0_eq a a'
             /\ (a_ends a <> [] -> first_end a' = first_end a).
Proof.
  intros OK Hg F. destruct (step_auction s o id a OK Hg F) as (a' & F' & R).
  exists a'. split; [exact F'|]. split; [eapply step_arel_terms; exact R|].
  intros Hne. unfold first_end. destruct (step_arel_ends _ _ _ _ R) as [->|(-> & _)]; [reflexivity|].
  apply hd_app_nonempty. exact Hne.
Qed.

Lemma list_eqb_sched_refl l : list_eqb sched_eqb l l = true.
Proof.
  induction l as [|x l IH]; cbn [list_eqb]; [reflexivity|]. rewrite IH. unfold sched_eqb.
  rewrite !Z.eqb_refl. reflexivity.
Qed.
Lemma atype_eqb_refl x : atype_eqb x x = true.
Proof. destruct x; reflexivity. Qed.

Lemma terms_eqb_of a a' : terms0_eq a a' -> first_end a' = first_end a -> auction_terms_eqb a a' = true.
Proof.
  intros (T1 & T2 & T3 & T4 & T5 & T6 & T7 & T8 & T9 & T10 & T11 & T12 & T13) T14.
  unfold auction_terms_eqb. rewrite T1, T2, T3, T4, T5, T6, T7, T8, T9, T10, T11, T12, T13, T14.
  rewrite !N.eqb_refl, !Z.eqb_refl, atype_eqb_refl, eqb_reflx, list_eqb_sched_refl. reflexivity.
Qed.

Lemma L_C19_terms_eqb s o id a :
  ids_ok s -> bounded s -> o <> OGenesis -> find_auction s id = Some a ->
  exists a', find_auction (snd (step s o)) id = Some a' /\ auction_terms_eqb a a' = true.
Proof.
  intros OK B Hg F. destruct (L_C19_terms s o id a OK Hg F) as (a' & F' & T & Tf).
  exists a'. split; [exact F'|]. apply terms_eqb_of; [exact T|]. apply Tf.
  pose proof (find_auction_some _ _ _ F) as [HI _]. unfold bounded in B. rewrite Forall_forall in B.
  destruct (B a HI) as [[B1 _] _]. intros E. rewrite E in B1. cbn in B1. lia.
Qed.

Lemma L_C19_bids s o : ids_ok s -> o <> OGenesis -> bids_evolve s (snd (step s o)).
Proof.
  intros OK Hg. destruct (FrameFacts.is_block o) eqn:B.
  - destruct (step_block s o B) as [[Ho Hb]|[Ho (tr & Hs)]].
    + destruct (begin_block_spec _ _ _ _ OK Hb) as (_ & _ & _ & _ & E & _). exact E.
    + rewrite Hs. apply bids_evolve_same. reflexivity.
  - eapply tx_bids_evolve. apply step_shape; assumption.
Qed.

Lemma L_C19_bids_in s o b :
  ids_ok s -> bid_keys_unique s -> o <> OGenesis -> In b (st_bids s) ->
  exists b', In b' (st_bids (snd (step s o))) /\ bid_keys_eq b b'.
Proof. intros OK U Hg HI. eapply bids_evolve_in; [exact U|apply L_C19_bids; assumption|exact HI]. Qed.

(* ids *)
Lemma L_C19_aseq_mono s o : ids_ok s -> o <> OGenesis -> (st_aseq s <= st_aseq (snd (step s o)))%N.
Proof.
  intros OK Hg. destruct (step_ids s o OK Hg) as [(a & C)|[_ H]].
  - destruct C as (_ & _ & _ & _ & C3 & _). lia.
  - lia.
Qed.

Lemma L_C19_rejected s o c : fst (step s o) = Rejected c -> exists tr, snd (step s o) = with_trace s tr.
Proof.
  intros Ho. destruct (FrameFacts.is_block o) eqn:B.
  - destruct (step_block s o B) as [[Ho' _]|[(c' & Ho') _]]; congruence.
  - assert (Hg : o <> OGenesis).
    { intros ->. cbn [step] in Ho. destruct (genesis_roundtrip s) as [[v s']|]; discriminate Ho. }
    pose proof (step_shape s o B Hg) as Sh. rewrite Ho in Sh. eapply tx_rejected. exact Sh.
Qed.

Lemma L_C19_place_ids s who id bt price coin :
  fst (step s (OTx (MPlaceBid who id bt price coin))) = Accepted ->
  exists nb, st_bids (snd (step s (OTx (MPlaceBid who id bt price coin)))) = st_bids s ++ [nb]
    /\ b_auction nb = id /\ b_id nb = (st_bseq s id + 1)%N
    /\ st_bseq (snd (step s (OTx (MPlaceBid who id bt price coin)))) = upd (st_bseq s) id (st_bseq s id + 1)%N.
Proof.
  intros Ho. assert (Sh : tx_shape s (OTx (MPlaceBid who id bt price coin)) Accepted
                                   (snd (step s (OTx (MPlaceBid who id bt price coin))))).
  { rewrite <- Ho. apply step_shape; [reflexivity|discriminate]. }
  destruct (tx_place _ _ _ _ _ _ _ Sh) as (a & nb & _ & _ & H1 & H2 & H3 & H4). exists nb. auto.
Qed.

Lemma L_C19_bseq_only_place s o :
  ids_ok s -> o <> OGenesis ->
  st_bseq (snd (step s o)) = st_bseq s
  \/ (fst (step s o) = Accepted /\ exists who id bt price coin, o = OTx (MPlaceBid who id bt price coin)).
Proof.
  intros OK Hg. destruct (FrameFacts.is_block o) eqn:B.
  - left. destruct (step_block s o B) as [[Ho Hb]|[Ho (tr & Hs)]].
    + destruct (begin_block_spec _ _ _ _ OK Hb) as (_ & _ & _ & _ & _ & E & _). exact E.
    + rewrite Hs. reflexivity.
  - eapply tx_bseq. apply step_shape; assumption.
Qed.

(* ------------------------------------------------------------------ packaged statements *)
Lemma L_C08_block_timing s o id a :
  ids_ok s -> FrameFacts.is_block o = true -> fst (step s o) = BlockOk -> find_auction s id = Some a ->
  exists a', find_auction (snd (step s o)) id = Some a'
    /\ block_rel (FrameFacts.block_time o) (block_orc o) s a a'
    /\ match a_status a with
       | StandBy => (a_status a' = Started <-> a_start a <= FrameFacts.block_time o)
                    /\ (FrameFacts.block_time o < a_start a -> a' = a) /\ a_status a' <> Cancelled
       | Started => ((a_status a' = VestingS \/ a_status a' = Finished \/ exists e, a_ends a' = a_ends a ++ [e])
                     <-> last_end a <= FrameFacts.block_time o)
                    /\ (FrameFacts.block_time o < last_end a -> a' = a)
       | VestingS => (a_status a' = Finished <-> last_due (FrameFacts.block_time o) (vqs_of s (a_id a)) = true)
                     /\ (last_due (FrameFacts.block_time o) (vqs_of s (a_id a)) = false -> a' = a)
       | Finished | Cancelled => a' = a
       end.
Proof.
  intros OK B Ho F. destruct (L_C08_block_rel s o id a OK B Ho F) as (a' & F' & R).
  exists a'. split; [exact F'|]. split; [exact R|]. eapply block_rel_timing. exact R.
Qed.

Lemma L_C13_decision s orc a order mi :
  valid_order (bids_of s (a_id a)) (oracle_ids orc (a_id a)) = Some order ->
  calc_batch a (bids_of s (a_id a)) order (allowed_of s (a_id a)) = Some mi ->
  close_batch s orc a =
    (if decision s a mi
     then Ok (put_auction (set_flags s (a_id a) (mi_matched mi)) (extended s a mi))
     else settle_batch (set_flags s (a_id a) (mi_matched mi)) (set_matched_price a (mi_price mi)) mi)
  /\ (decision s a mi = true <->
      N.of_nat (length (a_ends a)) <> (a_max_round a + 1)%N
      /\ (st_mlen s (a_id a) = 0
          \/ extend_rule (Z.of_nat (length (mi_matched mi))) (st_mlen s (a_id a)) (a_rate a) = true)).
Proof. intros HV HC. split; [exact (close_batch_unfold s orc a order mi HV HC)|apply decision_true_iff]. Qed.

(* along a run without GENESIS *)
Lemma L_run_invariants ops : forall s,
  Forall (fun o => o <> OGenesis) ops -> ids_ok s -> bounded s -> ids_ok (run s ops) /\ bounded (run s ops).
Proof.
  unfold run. induction ops as [|o ops IH]; cbn [fold_left]; intros s Hf OK B; [auto|].
  inversion Hf as [|? ? Hg Hf']; subst. apply IH; [exact Hf'|apply L_ids_ok_step|apply L_C13_bounded]; assumption.
Qed.

Lemma ids_ok_empty s : st_auctions s = [] -> ids_ok s.
Proof. unfold ids_ok. intros ->. split; constructor. Qed.

(* ------------------------------------------------------------------ operations without a target auction *)
Lemma L_C19_frame_untargeted s o j :
  FrameFacts.target s o = None -> FrameFacts.is_block o = false -> o <> OGenesis ->
  find_auction (snd (step s o)) j = find_auction s j
  /\ bids_of (snd (step s o)) j = bids_of s j
  /\ allowed_of (snd (step s o)) j = allowed_of s j
  /\ vqs_of (snd (step s o)) j = vqs_of s j
  /\ st_bseq (snd (step s o)) = st_bseq s
  /\ st_mlen (snd (step s o)) = st_mlen s
  /\ ((forall from to d amt, o <> OSend from to d amt) -> st_bal (snd (step s o)) = st_bal s).
Proof.
  intros T B Hg. pose proof (step_shape s o B Hg) as Sh. revert Sh.
  generalize (fst (step s o)) (snd (step s o)). intros out s' Sh.
  destruct Sh as [o c tr s' -> | from to d amt b xs | ls | auth cfee bfee period p
    | m a0 s' Hc C Hid Hst He Hm Hf | who id a0 s' F0 S0 C | who id bt price coin a0 nb s' F0 S0 B1 B2 C
    | who id bid price coin a0 b0 p amt s' F0 S0 B0 C | o id a0 s' T0 A F0 C ];
    try discriminate T.
  - repeat split.
  - repeat split. intros H. exfalso. exact (H from to d amt eq_refl).
  - repeat split.
  - repeat split.
  - rewrite (target_create s m Hc) in T. discriminate T.
  - congruence.
Qed.

(* the target used here is the one of the executable checker *)
Lemma target_agrees t : Checkers.target t = FrameFacts.target (t_pre t) (t_op t).
Proof. unfold Checkers.target. destruct (t_op t) as [m| | | | | | |]; try reflexivity; destruct m; reflexivity. Qed.
