(* The static parts of the global invariant of reachable states (InvDefs J1-J4, J9-J11):
   they hold initially and are preserved by every operation other than OGenesis (for OGenesis see
   InvStaticGenesis.v).  No hypothesis on the block oracles is needed: a block with an invalid sweep order
   fails and leaves the module state as it was.
   InvS itself, its dependency lemmas and the preservation lemmas per pure update / per handler / per
   auction of a block live in InvStaticBase / InvStaticUpd / InvStaticTx / InvStaticBlock (re-exported). *)
From Coq Require Import ZArith NArith List Bool Arith Lia.
From FR Require Import Dec Types Bank Match Step Genesis Model Spec.
From FR.Proofs Require Import FrameFacts TxFacts InvDefs.
From FR.Proofs Require Export InvStaticBase InvStaticUpd InvStaticTx InvStaticBlock.
Import ListNotations.
Open Scope Z_scope.

Theorem InvS_init bal now sw p :
  coins_ok (p_cfee p) None = true -> coins_ok (p_bfee p) None = true -> InvS (init_state bal now sw p).
Proof.
  intros H1 H2. split.
  - reflexivity.
  - constructor.
  - split; [constructor|]. intros id. reflexivity.
  - split; constructor.
  - intros id. reflexivity.
  - split; assumption.
  - split.
    + intros id _. repeat split.
    + intros a [].
Qed.

Theorem InvS_step s o : InvS s -> o <> OGenesis -> InvS (snd (step s o)).
Proof.
  intros I Hg. destruct o as [m|id l|id u max|t orc|t orc k|from to d amt|ls|].
  - apply InvS_step_tx, I.
  - apply InvS_step_api_add, I.
  - apply InvS_step_api_update, I.
  - apply InvS_step_block, I.
  - apply InvS_step_faultblock, I.
  - apply InvS_step_send, I.
  - apply InvS_step_listeners, I.
  - congruence.
Qed.

(* the version with the oracle side condition of InvDefs (not needed, kept for uniformity with the dynamic parts) *)
Corollary InvS_step_oracle s o : InvS s -> oracle_ok s o -> o <> OGenesis -> InvS (snd (step s o)).
Proof. intros I _ Hg. apply InvS_step; assumption. Qed.

(* part by part *)
Corollary ids_seq_step s o : InvS s -> o <> OGenesis -> ids_seq (snd (step s o)).
Proof. intros I Hg. apply is_ids, InvS_step; assumption. Qed.
Corollary auctions_wf_step s o : InvS s -> o <> OGenesis -> auctions_wf (snd (step s o)).
Proof. intros I Hg. apply is_auctions, InvS_step; assumption. Qed.
Corollary bids_wf_step s o : InvS s -> o <> OGenesis -> bids_wf (snd (step s o)).
Proof. intros I Hg. apply is_bids, InvS_step; assumption. Qed.
Corollary allowed_wf_step s o : InvS s -> o <> OGenesis -> allowed_wf (snd (step s o)).
Proof. intros I Hg. apply is_allowed, InvS_step; assumption. Qed.
Corollary mlen_inv_step s o : InvS s -> o <> OGenesis -> mlen_inv (snd (step s o)).
Proof. intros I Hg. apply is_mlen, InvS_step; assumption. Qed.
Corollary params_wf_step s o : InvS s -> o <> OGenesis -> params_wf (snd (step s o)).
Proof. intros I Hg. apply is_params, InvS_step; assumption. Qed.
Corollary fresh_inv_step s o : InvS s -> o <> OGenesis -> fresh_inv (snd (step s o)).
Proof. intros I Hg. apply is_fresh, InvS_step; assumption. Qed.

Theorem InvS_run : forall ops s, InvS s -> Forall (fun o => o <> OGenesis) ops -> InvS (run s ops).
Proof.
  unfold run. induction ops as [|o ops IH]; cbn [fold_left]; intros s I HF; [exact I|].
  inversion HF as [|? ? Ho HF']; subst. apply IH; [apply InvS_step; assumption|exact HF'].
Qed.

(* with the oracle side condition stated along the run, as the dynamic parts of the invariant need it *)
Fixpoint oracles_ok (s : state) (ops : list op) : Prop :=
  match ops with
  | [] => True
  | o :: rest => oracle_ok s o /\ oracles_ok (snd (step s o)) rest
  end.
Corollary InvS_run_oracles ops s :
  InvS s -> oracles_ok s ops -> Forall (fun o => o <> OGenesis) ops -> InvS (run s ops).
Proof. intros I _ HF. apply InvS_run; assumption. Qed.

(* every state reachable from an empty module *)
Corollary InvS_reachable bal now sw p ops :
  coins_ok (p_cfee p) None = true -> coins_ok (p_bfee p) None = true ->
  Forall (fun o => o <> OGenesis) ops -> InvS (run (init_state bal now sw p) ops).
Proof. intros H1 H2 HF. apply InvS_run; [apply InvS_init; assumption|exact HF]. Qed.

(* ------------------------------------------------------------------ store order = creation / placement order *)
(* an accepted creation appends the new auction, whose id is the old counter *)
Lemma create_appends s m :
  is_create m = true -> fst (step s (OTx m)) = Accepted ->
  exists a, st_auctions (snd (step s (OTx m))) = st_auctions s ++ [a] /\ a_id a = st_aseq s
            /\ st_aseq (snd (step s (OTx m))) = (st_aseq s + 1)%N.
Proof.
  intros Hc Ha. assert (Hg : OTx m <> OGenesis) by discriminate.
  pose proof (step_shape s (OTx m) eq_refl Hg) as Sh. rewrite Ha in Sh.
  destruct (tx_create _ _ _ Sh Hc) as (a & _ & _ & H1 & H2 & H3 & _). exists a. auto.
Qed.

(* an accepted bid appends the new bid, whose id is the auction's old bid counter plus one *)
Lemma place_appends s who id bt price coin :
  fst (step s (OTx (MPlaceBid who id bt price coin))) = Accepted ->
  exists nb, st_bids (snd (step s (OTx (MPlaceBid who id bt price coin)))) = st_bids s ++ [nb]
             /\ b_auction nb = id /\ b_id nb = (st_bseq s id + 1)%N
             /\ st_bseq (snd (step s (OTx (MPlaceBid who id bt price coin)))) id = (st_bseq s id + 1)%N.
Proof.
  intros Ha. assert (Hg : OTx (MPlaceBid who id bt price coin) <> OGenesis) by discriminate.
  pose proof (step_shape s (OTx (MPlaceBid who id bt price coin)) eq_refl Hg) as Sh. rewrite Ha in Sh.
  destruct (tx_place _ _ _ _ _ _ _ Sh) as (a & nb & _ & _ & H1 & H2 & H3 & H4).
  exists nb. repeat split; try assumption. rewrite H4. unfold upd. rewrite N.eqb_refl. reflexivity.
Qed.

(* the two id statements of C19, for every reachable state *)
Theorem reachable_auction_ids bal now sw p ops :
  coins_ok (p_cfee p) None = true -> coins_ok (p_bfee p) None = true ->
  Forall (fun o => o <> OGenesis) ops ->
  let s := run (init_state bal now sw p) ops in
  map a_id (st_auctions s) = ids_upto (st_aseq s).
Proof. intros H1 H2 HF. exact (is_ids _ (InvS_reachable bal now sw p ops H1 H2 HF)). Qed.

Theorem reachable_bid_ids bal now sw p ops :
  coins_ok (p_cfee p) None = true -> coins_ok (p_bfee p) None = true ->
  Forall (fun o => o <> OGenesis) ops ->
  let s := run (init_state bal now sw p) ops in
  forall id, map b_id (bids_of s id) = map N.succ (ids_upto (st_bseq s id)).
Proof. intros H1 H2 HF. exact (proj2 (is_bids _ (InvS_reachable bal now sw p ops H1 H2 HF))). Qed.
