(* C02, part 2: only the advertised amounts leave a user's account.
   - tx_xfers s o: the exact list of transfers of an ACCEPTED operation o in state s (fee to the community
     pool, then the reservation into the signer's own auction's escrow);
   - a non-accepted operation (rejected message, any block, listeners, GENESIS) only moves coins out of
     escrow accounts;
   - step_charges: what leaves User u in denomination d is exactly `advertised s o u d`.  No axioms. *)
From Coq Require Import ZArith NArith List Bool Arith Lia.
From FR Require Import Dec Types Bank Match Step Genesis Model Spec Checkers.
From FR.Proofs Require Import InvDefs EscrowBase VestingFacts HookBase Ledger.
From FR.Proofs Require FrameFacts TxFacts PrecondBase.
Import ListNotations.
Open Scope Z_scope.

(* ------------------------------------------------------------------ definitions *)
Definition accepted (o : outcome) : bool := match o with Accepted => true | _ => false end.

(* the bid a MsgPlaceBid describes (the id is assigned by the handler; it does not matter for amounts) *)
Definition bid0 (id u : N) (bt : btype) (price : Z) (d : N) (amt : Z) : bid :=
  {| b_auction := id; b_id := 0; b_bidder := u; b_type := bt; b_price := price; b_denom := d; b_amt := amt;
     b_matched := false |}.

(* what an accepted operation may take from user u in denomination d: Checkers.advertised_charge over (s, o) *)
Definition advertised (s : state) (o : op) (u d : N) : Z :=
  match o with
  | OTx m =>
      match check_basic m with
      | Some (CCreateFixed v _ _ sd samt _ _ _ _) | Some (CCreateBatch v _ _ _ sd samt _ _ _ _ _ _) =>
          if N.eqb u v then coins_amount (p_cfee (st_params s)) d + (if N.eqb d sd then samt else 0) else 0
      | Some (CPlaceBid v id bt price bd amt) =>
          match find_auction s id with
          | Some a =>
              if N.eqb u v then
                coins_amount (p_bfee (st_params s)) d
                + (if N.eqb d (a_pay_denom a) then pay_amount (a_pay_denom a) (bid0 id v bt price bd amt) else 0)
              else 0
          | None => 0
          end
      | Some (CModifyBid v id bid_id price bd amt) =>
          match find_auction s id, find_bid s id bid_id with
          | Some a, Some b =>
              if N.eqb u v && N.eqb d (a_pay_denom a)
              then Z.max 0 (pay_amount (a_pay_denom a) (set_b_terms b price amt) - pay_amount (a_pay_denom a) b) else 0
          | _, _ => 0
          end
      | _ => 0
      end
  | OSend from _ d' amt => if N.eqb u from && N.eqb d d' then amt else 0
  | _ => 0
  end.

Lemma advertised_charge_eq t u d : advertised_charge t u d = advertised (t_pre t) (t_op t) u d.
Proof. reflexivity. Qed.

(* the transfers of an accepted operation, in order, with their destinations *)
Definition tx_xfers (s : state) (o : op) : list xfer :=
  match o with
  | OTx m =>
      match check_basic m with
      | Some (CCreateFixed v _ _ sd samt _ _ _ _) | Some (CCreateBatch v _ _ _ sd samt _ _ _ _ _ _) =>
          coin_xfers (User v) Pool (p_cfee (st_params s)) ++ send_xf (User v) (Escrow Selling (st_aseq s)) sd samt
      | Some (CCancel v _ id) =>
          match find_auction s id with
          | Some a => send_xf (Escrow Selling id) (User (a_auctioneer a)) (a_sell_denom a)
                              (st_bal s (Escrow Selling id) (a_sell_denom a))
          | None => []
          end
      | Some (CPlaceBid v id bt price bd amt) =>
          match find_auction s id with
          | Some a => coin_xfers (User v) Pool (p_bfee (st_params s))
                      ++ send_xf (User v) (Escrow Paying id) (a_pay_denom a)
                                 (pay_amount (a_pay_denom a) (bid0 id v bt price bd amt))
          | None => []
          end
      | Some (CModifyBid v id bid_id price bd amt) =>
          match find_auction s id, find_bid s id bid_id with
          | Some a, Some b =>
              send_xf (User v) (Escrow Paying id) (a_pay_denom a)
                      (Z.max 0 (pay_amount (a_pay_denom a) (set_b_terms b price amt) - pay_amount (a_pay_denom a) b))
          | _, _ => []
          end
      | _ => []
      end
  | OSend from to d amt => [mkx (User from) to d amt]
  | _ => []
  end.

(* what leaves User u in denomination d *)
Definition out_of (xs : list xfer) (u d : N) : Z :=
  sum_xfers xs (fun x => addr_eqb (x_from x) (User u) && N.eqb (x_denom x) d).

(* a transfer out of an escrow account *)
Definition esc_src (x : xfer) : Prop := exists r id, x_from x = Escrow r id.

(* ------------------------------------------------------------------ sums *)
Lemma out_of_nil u d : out_of [] u d = 0. Proof. reflexivity. Qed.
Lemma out_of_app xs ys u d : out_of (xs ++ ys) u d = out_of xs u d + out_of ys u d.
Proof. apply sum_xfers_app. Qed.
Lemma out_of_send_xf v t d' a u d :
  out_of (send_xf (User v) t d' a) u d = if N.eqb u v && N.eqb d d' then a else 0.
Proof.
  unfold send_xf, out_of. destruct (a =? 0) eqn:E0.
  - apply Z.eqb_eq in E0. subst a. rewrite sum_xfers_nil. destruct (_ && _); reflexivity.
  - rewrite sum_xfers_cons, sum_xfers_nil. cbn [mkx x_from x_denom x_amt addr_eqb].
    rewrite (N.eqb_sym v u), (N.eqb_sym d' d). destruct (_ && _); lia.
Qed.
Lemma out_of_coin_xfers v t cs u d :
  out_of (coin_xfers (User v) t cs) u d = if N.eqb u v then coins_amount cs d else 0.
Proof.
  unfold coin_xfers, coins_amount. induction cs as [|[d' a] r IH]; cbn [flat_map filter fst snd].
  - rewrite out_of_nil. destruct (N.eqb u v); reflexivity.
  - rewrite out_of_app, IH, out_of_send_xf. rewrite (N.eqb_sym d d').
    destruct (N.eqb u v); cbn [andb]; [|lia].
    destruct (N.eqb d' d); cbn [map snd]; rewrite ?sumZ_cons; lia.
Qed.
Lemma out_of_esc xs u d : Forall esc_src xs -> out_of xs u d = 0.
Proof.
  intros H. apply sum_xfers_none. intros x Hx. rewrite Forall_forall in H.
  destruct (H x Hx) as (r & id & E). rewrite E. reflexivity.
Qed.

(* ------------------------------------------------------------------ the log of transfers with a property *)
Section LogQ.
Variable Q : xfer -> Prop.
Definition logQ (s s' : state) : Prop := exists xs, st_xfers s' = st_xfers s ++ xs /\ Forall Q xs.
Definition same_log (s s' : state) : Prop := st_xfers s' = st_xfers s.
Lemma logQ_same s s' : same_log s s' -> logQ s s'.
Proof. intros H. exists []. rewrite app_nil_r. split; [exact H|constructor]. Qed.
Lemma logQ_refl s : logQ s s. Proof. apply logQ_same. reflexivity. Qed.
Lemma logQ_trans s1 s2 s3 : logQ s1 s2 -> logQ s2 s3 -> logQ s1 s3.
Proof.
  intros (xs & X1 & Q1) (ys & X2 & Q2). exists (xs ++ ys). split; [rewrite X2, X1, app_assoc; reflexivity|].
  apply Forall_app. split; assumption.
Qed.
Lemma logQ_pre s0 s s' : same_log s0 s -> logQ s s' -> logQ s0 s'.
Proof. intros E (xs & X & Hq). exists xs. split; [rewrite X, E; reflexivity|exact Hq]. Qed.

Definition logR (s : state) (r : res state) : Prop := match r with Ok s' => logQ s s' | Err _ _ => True end.
Lemma logR_bind s (r : res state) (f : state -> res state) :
  logR s r -> (forall a, r = Ok a -> logR a (f a)) -> logR s (bind r f).
Proof.
  intros Hr Hf. destruct r as [a|c tr]; cbn [bind]; [|exact I].
  specialize (Hf a eq_refl). destruct (f a) as [b|c tr]; [|exact I]. cbn [logR] in *. eapply logQ_trans; eassumption.
Qed.
Lemma logR_pre s0 s r : same_log s s0 -> logR s0 r -> logR s r.
Proof. intros E H. destruct r as [x|c tr]; [|exact I]. cbn [logR] in *. eapply logQ_pre; eassumption. Qed.
Lemma logR_Ok_same s s' : same_log s s' -> logR s (Ok s').
Proof. intros H. apply logQ_same, H. Qed.

Lemma send_logR s f t d a : (0 < a -> Q (mkx f t d a)) -> logR s (send s f t d a).
Proof.
  intros Hq. destruct (send s f t d a) as [s'|c tr] eqn:H; [|exact I]. cbn [logR].
  apply send_ok_inv in H. destruct H as [[-> ->]|(Hpos & _ & ->)]; [apply logQ_refl|].
  eexists. split; [reflexivity|]. constructor; [apply Hq, Hpos|constructor].
Qed.
Lemma pay_out_logR us : forall s from d f,
  (forall u a, 0 < a -> Q (mkx from (User u) d a)) -> logR s (pay_out s from d us f).
Proof.
  induction us as [|u rest IH]; intros s from d f Hq; cbn [pay_out].
  - apply logQ_refl.
  - destruct (f u =? 0); [apply IH, Hq|].
    apply logR_bind; [apply send_logR, Hq|]. intros s1 _. apply IH, Hq.
Qed.
Lemma call_hook_logR s k args : logR s (call_hook s k args).
Proof.
  unfold call_hook. destruct (dispatch (st_listeners s) 0%N k args) as [ok cs].
  destruct ok; [|exact I]. apply logR_Ok_same. reflexivity.
Qed.

(* BeginBlocker, one auction: every transfer leaves one of the auction's own escrow accounts *)
Hypothesis Q_own : forall r id t d a, 0 < a -> Q (mkx (Escrow r id) t d a).

Lemma allocate_logR s a mi w : logR s (allocate s a mi w).
Proof.
  unfold allocate. apply logR_bind; [apply call_hook_logR|]. intros s1 _. apply pay_out_logR.
  intros u x Hx. apply Q_own, Hx.
Qed.
Lemma apply_vesting_logR s a : logR s (apply_vesting s a).
Proof.
  unfold apply_vesting. cbv zeta. destruct (a_scheds a) as [|v vs].
  - apply logR_bind; [apply send_logR, Q_own|]. intros s1 _. apply logR_Ok_same. reflexivity.
  - apply logR_bind; [apply send_logR, Q_own|]. intros s1 _. apply logR_Ok_same. reflexivity.
Qed.
Lemma close_fixed_logR s a : logR s (close_fixed s a).
Proof.
  unfold close_fixed. cbv zeta. apply logR_bind; [apply allocate_logR|]. intros s1 _.
  apply logR_bind; [apply send_logR, Q_own|]. intros s2 _. apply apply_vesting_logR.
Qed.
Lemma settle_batch_logR s a mi : logR s (settle_batch s a mi).
Proof.
  unfold settle_batch. apply logR_bind; [apply allocate_logR|]. intros s1 _.
  apply logR_bind; [apply send_logR, Q_own|]. intros s2 _.
  apply logR_bind; [apply pay_out_logR; intros u x Hx; apply Q_own, Hx|]. intros s3 _. apply apply_vesting_logR.
Qed.
Lemma close_batch_logR s orc a : logR s (close_batch s orc a).
Proof.
  unfold close_batch. cbv zeta.
  destruct (valid_order (bids_of s (a_id a)) _) as [order|]; [|exact I].
  destruct (calc_batch a (bids_of s (a_id a)) order (allowed_of s (a_id a))) as [mi|]; [|exact I].
  assert (Hs : logR s (settle_batch (set_flags s (a_id a) (mi_matched mi)) (set_matched_price a (mi_price mi)) mi)).
  { eapply logR_pre; [|apply settle_batch_logR]. reflexivity. }
  assert (He : logR s (extend_round (set_flags s (a_id a) (mi_matched mi)) (set_matched_price a (mi_price mi)))).
  { unfold extend_round. apply logR_Ok_same. reflexivity. }
  repeat match goal with |- logR _ (if ?b then _ else _) => destruct b end; assumption.
Qed.
Lemma release_loop_logR a t : forall vs s, logR s (release_loop s a t vs).
Proof.
  induction vs as [|v rest IH]; intros s; cbn [release_loop].
  - apply logQ_refl.
  - destruct ((v_time v <=? t) && negb (v_released v)); [|apply IH].
    apply logR_bind; [apply send_logR, Q_own|]. intros s1 _. cbv zeta.
    eapply logR_pre; [|apply IH]. destruct rest; reflexivity.
Qed.
Lemma process_logR t orc s a : logR s (process t orc s a).
Proof.
  unfold process. destruct (a_status a).
  - destruct (a_start a <=? t); apply logR_Ok_same; reflexivity.
  - destruct (last_end a <=? t); [|apply logQ_refl].
    destruct (a_type a); [apply close_fixed_logR|apply close_batch_logR].
  - apply release_loop_logR.
  - apply logQ_refl.
  - apply logQ_refl.
Qed.
Lemma process_all_logR t orc l : forall s, logR s (process_all t orc s l).
Proof.
  induction l as [|a rest IH]; intros s; cbn [process_all]; [apply logQ_refl|].
  apply logR_bind; [apply process_logR|]. intros s1 _. apply IH.
Qed.
Lemma begin_block_logR s t orc : logR s (begin_block s t orc).
Proof. unfold begin_block. cbv zeta. eapply logR_pre; [|apply process_all_logR]. reflexivity. Qed.
End LogQ.

Lemma esc_src_own r id t d a : 0 < a -> esc_src (mkx (Escrow r id) t d a).
Proof. intros _. exists r, id. reflexivity. Qed.

(* every transfer of a block leaves an escrow account *)
Theorem block_xfers_from_escrow s t orc s' :
  begin_block s t orc = Ok s' -> exists xs, st_xfers s' = st_xfers s ++ xs /\ Forall esc_src xs.
Proof.
  intros H. pose proof (begin_block_logR esc_src esc_src_own s t orc) as L. rewrite H in L. exact L.
Qed.

(* an operation that is not an accepted message/API call/send moves coins out of escrow accounts only *)
Lemma commit_not_accepted s r : fst (commit s r) <> Accepted -> same_log s (snd (commit s r)).
Proof. destruct r as [s'|c tr]; cbn [commit fst snd]; [congruence|reflexivity]. Qed.

Theorem step_not_accepted s o : fst (step s o) <> Accepted -> Forall esc_src (step_xfers s o).
Proof.
  intros Hna.
  assert (L : logQ esc_src s (snd (step s o))).
  { destruct o as [m|a l|a u max|t orc|t orc k|from to d amt|ls|]; cbn [step] in *.
    - unfold deliver_tx in *. destruct (check_basic m) as [c|]; [|apply logQ_refl].
      apply logQ_same, commit_not_accepted, Hna.
    - apply logQ_same, commit_not_accepted, Hna.
    - apply logQ_same, commit_not_accepted, Hna.
    - pose proof (begin_block_logR esc_src esc_src_own s t orc) as H.
      destruct (begin_block s t orc) as [s'|c tr]; cbn [snd]; [exact H|apply logQ_same; reflexivity].
    - pose proof (begin_block_logR esc_src esc_src_own s t orc) as H.
      destruct (begin_block s t orc) as [s'|c tr]; [|apply logQ_same; reflexivity].
      destruct (Nat.ltb k (length (st_xfers s') - length (st_xfers s))); cbn [snd]; [apply logQ_same; reflexivity|exact H].
    - apply logQ_same, commit_not_accepted, Hna.
    - apply logQ_same. reflexivity.
    - destruct (genesis_roundtrip s) as [[v s']|] eqn:H; cbn [snd]; [|apply logQ_refl].
      apply logQ_same. apply genesis_same_bank in H. apply H. }
  destruct L as (xs & X & Hq). pose proof (step_xfers_spec s o) as [X' _ _].
  rewrite X in X'. apply app_inv_head in X'. rewrite <- X'. exact Hq.
Qed.

(* ------------------------------------------------------------------ exact transfers of the accepted handlers *)
Lemma call_hook_same_bank s k args s1 : call_hook s k args = Ok s1 -> same_bank s s1.
Proof. intros H. apply PrecondBase.call_hook_ok_inv in H. destruct H as (_ & cs & ->). split; reflexivity. Qed.

Lemma fund_pool_ledger s u cs s' : fund_pool s u cs = Ok s' ->
  ledger_by s s' (coin_xfers (User u) Pool cs) /\ nobank s s'.
Proof.
  intros H. split; [apply (proj1 (send_coins_ledger _ _ _ _ _ H))|eapply fund_pool_ok; exact H].
Qed.

Lemma create_fixed_xfers s u up price sd samt pd vs start end_ s' :
  create_fixed s u up price sd samt pd vs start end_ = Ok s' ->
  ledger_by s s' (coin_xfers (User u) Pool (p_cfee (st_params s)) ++ send_xf (User u) (Escrow Selling (st_aseq s)) sd samt).
Proof.
  unfold create_fixed. destruct (end_ <? st_now s); [discriminate|].
  destruct (Nat.ltb MaxNumVestingSchedules (length vs)); [discriminate|]. cbv zeta. intros H.
  apply bind_ok_inv in H. destruct H as (s1 & H1 & H). apply bind_ok_inv in H. destruct H as (s2 & H2 & H).
  apply bind_ok_inv in H. destruct H as (s3 & H3 & H). apply bind_ok_inv in H. destruct H as (s4 & H4 & H).
  injection H as <-.
  apply fund_pool_ledger in H1. destruct H1 as [L1 _]. apply send_ledger in H2. destruct H2 as [L2 _].
  apply call_hook_same_bank in H3. apply call_hook_same_bank in H4.
  eapply ledger_by_post; [|exact H4]. eapply ledger_by_post; [|split; reflexivity].
  eapply ledger_by_post; [|exact H3]. eapply ledger_by_trans; [|exact L2].
  eapply ledger_by_pre; [|exact L1]. split; reflexivity.
Qed.

Lemma create_batch_xfers s u up price minp sd samt pd vs maxr rate start end_ s' :
  create_batch s u up price minp sd samt pd vs maxr rate start end_ = Ok s' ->
  ledger_by s s' (coin_xfers (User u) Pool (p_cfee (st_params s)) ++ send_xf (User u) (Escrow Selling (st_aseq s)) sd samt).
Proof.
  unfold create_batch. destruct (end_ <? st_now s); [discriminate|].
  destruct (Nat.ltb MaxNumVestingSchedules (length vs)); [discriminate|].
  destruct (N.ltb MaxExtendedRound maxr); [discriminate|]. cbv zeta. intros H.
  apply bind_ok_inv in H. destruct H as (s1 & H1 & H). apply bind_ok_inv in H. destruct H as (s2 & H2 & H).
  apply bind_ok_inv in H. destruct H as (s3 & H3 & H). apply bind_ok_inv in H. destruct H as (s4 & H4 & H).
  injection H as <-.
  apply fund_pool_ledger in H1. destruct H1 as [L1 _]. apply send_ledger in H2. destruct H2 as [L2 _].
  apply call_hook_same_bank in H3. apply call_hook_same_bank in H4.
  eapply ledger_by_post; [|exact H4]. eapply ledger_by_post; [|split; reflexivity].
  eapply ledger_by_post; [|exact H3]. eapply ledger_by_trans; [|exact L2].
  eapply ledger_by_pre; [|exact L1]. split; reflexivity.
Qed.

Lemma cancel_xfers s u up id s' a :
  find_auction s id = Some a -> cancel s u up id = Ok s' ->
  a_auctioneer a = u /\
  ledger_by s s' (send_xf (Escrow Selling id) (User (a_auctioneer a)) (a_sell_denom a)
                          (st_bal s (Escrow Selling id) (a_sell_denom a))).
Proof.
  intros Ha. unfold cancel. rewrite Ha.
  destruct (N.eqb (a_auctioneer a) u) eqn:Eu; cbn [negb]; [|discriminate]. apply N.eqb_eq in Eu.
  destruct (negb (status_eqb (a_status a) StandBy)); [discriminate|]. intros H.
  apply bind_ok_inv in H. destruct H as (s1 & H1 & H). apply bind_ok_inv in H. destruct H as (s2 & H2 & H).
  injection H as <-. split; [exact Eu|].
  apply send_ledger in H1. destruct H1 as [L1 _]. apply call_hook_same_bank in H2.
  eapply ledger_by_post; [|split; reflexivity]. eapply ledger_by_post; [exact L1|exact H2].
Qed.

Lemma pay_amount_ext pd b b' :
  b_denom b = b_denom b' -> b_amt b = b_amt b' -> b_price b = b_price b' -> pay_amount pd b = pay_amount pd b'.
Proof. intros E1 E2 E3. unfold pay_amount. rewrite E1, E2, E3. reflexivity. Qed.

Lemma validate_batch_bid_denom s a b w : validate_batch_bid s a b w = Ok tt -> b_denom b = w.
Proof.
  unfold validate_batch_bid. destruct (negb (atype_eqb (a_type a) Batch)); [discriminate|].
  destruct (N.eqb (b_denom b) w) eqn:E; cbn [negb]; [|discriminate]. intros _. apply N.eqb_eq, E.
Qed.

Lemma place_bid_xfers s u id bt price d amt s' a :
  find_auction s id = Some a -> place_bid s u id bt price d amt = Ok s' ->
  ledger_by s s' (coin_xfers (User u) Pool (p_bfee (st_params s))
                  ++ send_xf (User u) (Escrow Paying id) (a_pay_denom a)
                             (pay_amount (a_pay_denom a) (bid0 id u bt price d amt))).
Proof.
  intros Ha. unfold place_bid. rewrite Ha.
  destruct (negb (status_eqb (a_status a) Started)); [discriminate|].
  destruct (atype_eqb (a_type a) Batch && (price <? a_min_price a)); [discriminate|].
  destruct (find_allowed s id u) as [al|]; [|discriminate]. intros H.
  apply bind_ok_inv in H. destruct H as (s1 & H1 & H). cbv zeta in H.
  apply fund_pool_ledger in H1. destruct H1 as [L1 N1].
  set (s2 := with_bseq s1 _) in H. set (b := Build_bid _ _ _ _ _ _ _ _) in H.
  assert (E12 : same_bank s1 s2) by (split; reflexivity).
  assert (Epay : pay_amount (a_pay_denom a) b = pay_amount (a_pay_denom a) (bid0 id u bt price d amt))
    by (apply pay_amount_ext; reflexivity).
  apply bind_ok_inv in H. destruct H as ([s3 b3] & H3 & H).
  apply bind_ok_inv in H. destruct H as (s4 & H4 & H). injection H as <-.
  apply call_hook_same_bank in H4.
  eapply ledger_by_post; [|split; reflexivity]. eapply ledger_by_post; [|exact H4].
  eapply ledger_by_trans; [exact L1|]. eapply ledger_by_pre; [exact E12|].
  destruct bt.
  - destruct (validate_fixed_bid s2 a b) as [[]|c tr]; cbn [bind] in H3; [|discriminate].
    apply bind_ok_inv in H3. destruct H3 as (s5 & H5 & H3). injection H3 as <- _.
    apply send_ledger in H5. destruct H5 as [L5 _]. rewrite <- Epay.
    eapply ledger_by_post; [exact L5|split; reflexivity].
  - destruct (validate_batch_bid s2 a b (a_pay_denom a)) as [[]|c tr] eqn:V; cbn [bind] in H3; [|discriminate].
    apply validate_batch_bid_denom in V. cbn [b b_denom] in V.
    apply bind_ok_inv in H3. destruct H3 as (s5 & H5 & H3). injection H3 as <- _.
    apply send_ledger in H5. destruct H5 as [L5 _]. rewrite <- Epay.
    assert (Ew : pay_amount (a_pay_denom a) b = amt).
    { unfold pay_amount. cbn [b b_denom b_amt]. rewrite V, N.eqb_refl. reflexivity. }
    rewrite Ew, <- V. exact L5.
  - destruct (validate_batch_bid s2 a b (a_sell_denom a)) as [[]|c tr]; cbn [bind] in H3; [|discriminate].
    apply bind_ok_inv in H3. destruct H3 as (s5 & H5 & H3). injection H3 as <- _.
    apply send_ledger in H5. destruct H5 as [L5 _]. rewrite <- Epay. exact L5.
Qed.

(* ModifyBid, as the handler computes it *)
Lemma modify_bid_xfers_raw s u id bid_id price d amt s' a b :
  find_auction s id = Some a -> find_bid s id bid_id = Some b -> modify_bid s u id bid_id price d amt = Ok s' ->
  a_type a = Batch /\ b_denom b = d /\
  ledger_by s s'
    (match b_type b with
     | BWorth => if 0 <? amt - b_amt b then send_xf (User u) (Escrow Paying id) d (amt - b_amt b) else []
     | BMany => if 0 <? pay_of_qty amt price - pay_of_qty (b_amt b) (b_price b)
                then send_xf (User u) (Escrow Paying id) (a_pay_denom a)
                             (pay_of_qty amt price - pay_of_qty (b_amt b) (b_price b)) else []
     | BFixed => []
     end).
Proof.
  intros Ha Hb. unfold modify_bid. rewrite Ha, Hb.
  destruct (negb (status_eqb (a_status a) Started)); [discriminate|].
  destruct (atype_eqb (a_type a) Batch) eqn:Et; cbn [negb]; [|discriminate].
  destruct (negb (N.eqb (b_bidder b) u)); [discriminate|].
  destruct (price <? a_min_price a); [discriminate|].
  destruct (N.eqb (b_denom b) d) eqn:Ed; cbn [negb]; [|discriminate].
  destruct ((price <? b_price b) || (amt <? b_amt b)); [discriminate|].
  destruct ((price =? b_price b) && (amt =? b_amt b)); [discriminate|].
  intros H. split; [destruct (a_type a); [discriminate Et|reflexivity]|]. split; [apply N.eqb_eq, Ed|].
  destruct (b_type b).
  - cbn [Z.ltb Z.compare] in H. change (0 <? 0) with false in H.
    apply bind_ok_inv in H. destruct H as (s1 & H1 & H). injection H1 as <-.
    apply bind_ok_inv in H. destruct H as (s2 & H2 & H). injection H as <-.
    apply call_hook_same_bank in H2. eapply ledger_by_post; [|split; reflexivity]. apply ledger_by_nil, H2.
  - apply bind_ok_inv in H. destruct H as (s1 & H1 & H).
    apply bind_ok_inv in H. destruct H as (s2 & H2 & H). injection H as <-.
    apply call_hook_same_bank in H2. eapply ledger_by_post; [|split; reflexivity].
    eapply ledger_by_post; [|exact H2].
    destruct (0 <? amt - b_amt b); [apply (proj1 (send_ledger _ _ _ _ _ _ H1))|injection H1 as <-; apply ledger_by_refl].
  - apply bind_ok_inv in H. destruct H as (s1 & H1 & H).
    apply bind_ok_inv in H. destruct H as (s2 & H2 & H). injection H as <-.
    apply call_hook_same_bank in H2. eapply ledger_by_post; [|split; reflexivity].
    eapply ledger_by_post; [|exact H2].
    destruct (0 <? _); [apply (proj1 (send_ledger _ _ _ _ _ _ H1))|injection H1 as <-; apply ledger_by_refl].
Qed.

Lemma send_xf_max f t d x : (if 0 <? x then send_xf f t d x else []) = send_xf f t d (Z.max 0 x).
Proof.
  destruct (0 <? x) eqn:E.
  - apply Z.ltb_lt in E. rewrite Z.max_r by lia. reflexivity.
  - apply Z.ltb_ge in E. rewrite Z.max_l by lia. reflexivity.
Qed.

(* ModifyBid in a reachable state: exactly the increase of the reservation, into the auction's paying escrow *)
Lemma modify_bid_xfers s u id bid_id price d amt s' a b :
  Inv s -> find_auction s id = Some a -> find_bid s id bid_id = Some b ->
  modify_bid s u id bid_id price d amt = Ok s' ->
  ledger_by s s' (send_xf (User u) (Escrow Paying id) (a_pay_denom a)
                    (Z.max 0 (pay_amount (a_pay_denom a) (set_b_terms b price amt) - pay_amount (a_pay_denom a) b))).
Proof.
  intros I Ha Hb H. destruct (modify_bid_xfers_raw _ _ _ _ _ _ _ _ _ _ Ha Hb H) as (Ety & Ed & L).
  destruct (TxFacts.find_bid_some _ _ _ _ Hb) as (Hin & Eau & _).
  destruct (inv_bids _ I) as [Hbw _]. rewrite Forall_forall in Hbw. specialize (Hbw b Hin).
  destruct (bwf_auction _ _ Hbw) as (a' & Ha' & Hty & _). rewrite Eau, Ha in Ha'. injection Ha' as <-.
  rewrite Ety in Hty. destruct Hty as [Hk _].
  destruct (FrameFacts.find_auction_some _ _ _ Ha) as [Hain _].
  pose proof (inv_auctions _ I) as Haw. red in Haw. rewrite Forall_forall in Haw. specialize (Haw a Hain).
  pose proof (awf_denoms _ Haw) as Hne.
  destruct Hk as [[Ebt Eden]|[Ebt Eden]]; rewrite Ebt in L.
  - assert (E1 : pay_amount (a_pay_denom a) (set_b_terms b price amt) = amt).
    { unfold pay_amount. cbn [set_b_terms b_denom b_amt]. rewrite Eden, N.eqb_refl. reflexivity. }
    assert (E2 : pay_amount (a_pay_denom a) b = b_amt b).
    { unfold pay_amount. rewrite Eden, N.eqb_refl. reflexivity. }
    rewrite E1, E2, <- send_xf_max. rewrite <- Eden, Ed. exact L.
  - assert (En : N.eqb (b_denom b) (a_pay_denom a) = false) by (apply N.eqb_neq; congruence).
    assert (E1 : pay_amount (a_pay_denom a) (set_b_terms b price amt) = pay_of_qty amt price).
    { unfold pay_amount. cbn [set_b_terms b_denom b_amt b_price]. rewrite En. reflexivity. }
    assert (E2 : pay_amount (a_pay_denom a) b = pay_of_qty (b_amt b) (b_price b)).
    { unfold pay_amount. rewrite En. reflexivity. }
    rewrite E1, E2, <- send_xf_max. exact L.
Qed.

Lemma add_entries_same_bank a l : forall s s', add_entries s a l = Ok s' -> same_bank s s'.
Proof.
  induction l as [|[[ea who] max] rest IH]; intros s s' H; cbn [add_entries] in H.
  - injection H as <-. apply same_bank_refl.
  - destruct who as [up u|]; [|discriminate]. destruct max as [m|]; [|discriminate].
    destruct (negb (0 <? m)); [discriminate|]. destruct (a_sell_amt a <? m); [discriminate|].
    apply IH in H. eapply same_bank_trans; [apply put_allowed_same_bank|exact H].
Qed.
Lemma api_add_same_bank s id l s' : api_add s id l = Ok s' -> same_bank s s'.
Proof.
  unfold api_add. destruct l as [|e l]; [discriminate|]. destruct (find_auction s id) as [a|]; [|discriminate].
  intros H. apply bind_ok_inv in H. destruct H as (s1 & H1 & H). apply call_hook_same_bank in H1.
  apply add_entries_same_bank in H. eapply same_bank_trans; eassumption.
Qed.
Lemma api_update_same_bank s id u max s' : api_update s id u max = Ok s' -> same_bank s s'.
Proof.
  unfold api_update. destruct (find_auction s id) as [a|]; [|discriminate].
  destruct (find_allowed s id u); [|discriminate]. destruct (check_pos max) as [m|]; [|discriminate].
  intros H. apply bind_ok_inv in H. destruct H as (s1 & H1 & H). apply call_hook_same_bank in H1.
  injection H as <-. eapply same_bank_trans; [exact H1|apply put_allowed_same_bank].
Qed.
Lemma update_params_same_bank s auth cfee bfee period s' :
  update_params s auth cfee bfee period = Ok s' -> same_bank s s'.
Proof.
  unfold update_params. destruct auth as [|[up u|]]; try discriminate.
  destruct (check_coins cfee None); [|discriminate]. destruct (check_coins bfee None); [|discriminate].
  intros H. injection H as <-. split; reflexivity.
Qed.

Lemma place_bid_found s u id bt price d amt s' : place_bid s u id bt price d amt = Ok s' -> exists a, find_auction s id = Some a.
Proof. unfold place_bid. destruct (find_auction s id) as [a|]; [eauto|discriminate]. Qed.
Lemma cancel_found s u up id s' : cancel s u up id = Ok s' -> exists a, find_auction s id = Some a.
Proof. unfold cancel. destruct (find_auction s id) as [a|]; [eauto|discriminate]. Qed.
Lemma modify_bid_found s u id bid_id price d amt s' : modify_bid s u id bid_id price d amt = Ok s' ->
  exists a b, find_auction s id = Some a /\ find_bid s id bid_id = Some b.
Proof.
  unfold modify_bid. destruct (find_auction s id) as [a|]; [|discriminate].
  destruct (negb (status_eqb (a_status a) Started)); [discriminate|].
  destruct (negb (atype_eqb (a_type a) Batch)); [discriminate|].
  destruct (find_bid s id bid_id) as [b|]; [eauto|discriminate].
Qed.

Lemma handle_xfers s m c s' :
  Inv s -> check_basic m = Some c -> handle s c = Ok s' -> ledger_by s s' (tx_xfers s (OTx m)).
Proof.
  intros I Hc H. cbn [tx_xfers]. rewrite Hc. destruct c; cbn [handle] in H.
  - apply create_fixed_xfers in H. exact H.
  - apply create_batch_xfers in H. exact H.
  - destruct (cancel_found _ _ _ _ _ H) as [a0 Ha]. rewrite Ha.
    apply (proj2 (cancel_xfers _ _ _ _ _ _ Ha H)).
  - destruct (place_bid_found _ _ _ _ _ _ _ _ H) as [a0 Ha]. rewrite Ha.
    apply (place_bid_xfers _ _ _ _ _ _ _ _ _ Ha H).
  - destruct (modify_bid_found _ _ _ _ _ _ _ _ H) as (a0 & b0 & Ha & Hb). rewrite Ha, Hb.
    apply (modify_bid_xfers _ _ _ _ _ _ _ _ _ _ I Ha Hb H).
  - destruct (st_switch s); [|discriminate]. apply ledger_by_nil. eapply api_add_same_bank; exact H.
  - apply ledger_by_nil. eapply update_params_same_bank; exact H.
Qed.

Lemma commit_accepted s r : fst (commit s r) = Accepted -> exists s', r = Ok s' /\ snd (commit s r) = s'.
Proof. destruct r as [s'|c tr]; cbn [commit fst snd]; [eauto|discriminate]. Qed.

(* the transfers of an accepted operation are exactly tx_xfers *)
Theorem step_accepted_ledger s o : Inv s -> fst (step s o) = Accepted -> ledger_by s (snd (step s o)) (tx_xfers s o).
Proof.
  intros I Hacc. destruct o as [m|a l|a u max|t orc|t orc k|from to d amt|ls|]; cbn [step] in *.
  - unfold deliver_tx in *. destruct (check_basic m) as [c|] eqn:Hc; [|discriminate].
    apply commit_accepted in Hacc. destruct Hacc as (s' & H & ->). eapply handle_xfers; eassumption.
  - apply commit_accepted in Hacc. destruct Hacc as (s' & H & ->). apply ledger_by_nil. eapply api_add_same_bank; exact H.
  - apply commit_accepted in Hacc. destruct Hacc as (s' & H & ->). apply ledger_by_nil. eapply api_update_same_bank; exact H.
  - destruct (begin_block s t orc); discriminate.
  - destruct (begin_block s t orc) as [s'|]; [destruct (Nat.ltb _ _)|]; discriminate.
  - apply commit_accepted in Hacc. destruct Hacc as (s' & H & ->).
    destruct (0 <? amt) eqn:Ea; [|discriminate]. apply Z.ltb_lt in Ea.
    apply send_ledger in H. destruct H as [L _]. unfold send_xf in L.
    assert (E : amt =? 0 = false) by (apply Z.eqb_neq; lia). rewrite E in L. exact L.
  - discriminate.
  - destruct (genesis_roundtrip s) as [[v s']|]; discriminate.
Qed.

Corollary step_xfers_accepted s o : Inv s -> fst (step s o) = Accepted -> step_xfers s o = tx_xfers s o.
Proof.
  intros I H. eapply ledger_by_unique; [apply step_xfers_spec|apply step_accepted_ledger; assumption].
Qed.

(* ------------------------------------------------------------------ charges *)
Lemma accepted_iff o : accepted o = true <-> o = Accepted.
Proof. destruct o; cbn; split; intros H; try reflexivity; discriminate H. Qed.

Lemma out_of_tx_xfers s o u d : out_of (tx_xfers s o) u d = advertised s o u d.
Proof.
  destruct o as [m|a l|a v max|t orc|t orc k|from to d' amt|ls|]; cbn [tx_xfers advertised]; try apply out_of_nil.
  - destruct (check_basic m) as [c|]; [|apply out_of_nil]. destruct c; try apply out_of_nil.
    + rewrite out_of_app, out_of_coin_xfers, out_of_send_xf. destruct (N.eqb u u0); cbn [andb]; lia.
    + rewrite out_of_app, out_of_coin_xfers, out_of_send_xf. destruct (N.eqb u u0); cbn [andb]; lia.
    + destruct (find_auction s a) as [a0|]; [|apply out_of_nil].
      apply out_of_esc. unfold send_xf. destruct (_ =? 0); constructor; [|constructor].
      exists Selling, a. reflexivity.
    + destruct (find_auction s a) as [a0|]; [|apply out_of_nil].
      rewrite out_of_app, out_of_coin_xfers, out_of_send_xf. destruct (N.eqb u u0); cbn [andb]; lia.
    + destruct (find_auction s a) as [a0|]; [|apply out_of_nil].
      destruct (find_bid s a b) as [b0|]; [|apply out_of_nil]. apply out_of_send_xf.
  - unfold out_of. rewrite sum_xfers_cons, sum_xfers_nil. cbn [mkx x_from x_denom x_amt addr_eqb].
    rewrite (N.eqb_sym from u), (N.eqb_sym d' d). destruct (_ && _); lia.
Qed.

Theorem step_charges s o : Inv s -> forall u d,
  sum_xfers (step_xfers s o) (fun x => addr_eqb (x_from x) (User u) && N.eqb (x_denom x) d)
  = if accepted (fst (step s o)) then advertised s o u d else 0.
Proof.
  intros I u d. fold (out_of (step_xfers s o) u d). destruct (accepted (fst (step s o))) eqn:Ha.
  - apply accepted_iff in Ha. rewrite (step_xfers_accepted s o I Ha). apply out_of_tx_xfers.
  - apply out_of_esc, step_not_accepted. intros E. rewrite E in Ha. discriminate Ha.
Qed.

(* destinations: the fee part goes to the community pool, the rest into the signer's own auction's escrow
   (the new auction's selling escrow / the bid's auction's paying escrow); OSend: where the sender says *)
Definition own_dest (s : state) (o : op) (x : xfer) : Prop :=
  match x_from x with
  | User _ =>
      x_to x = Pool \/
      match o with
      | OTx m =>
          match check_basic m with
          | Some (CCreateFixed _ _ _ _ _ _ _ _ _) | Some (CCreateBatch _ _ _ _ _ _ _ _ _ _ _ _) =>
              x_to x = Escrow Selling (st_aseq s)
          | Some (CPlaceBid _ id _ _ _ _) | Some (CModifyBid _ id _ _ _ _) => x_to x = Escrow Paying id
          | _ => False
          end
      | OSend _ to _ _ => x_to x = to
      | _ => False
      end
  | _ => True
  end.

Lemma Forall_coin_xfers (Q : xfer -> Prop) f t cs :
  (forall d a, Q (mkx f t d a)) -> Forall Q (coin_xfers f t cs).
Proof.
  intros H. unfold coin_xfers. induction cs as [|[d a] r IH]; cbn [flat_map]; [constructor|].
  apply Forall_app. split; [|exact IH]. unfold send_xf. cbn [fst snd]. destruct (a =? 0); constructor; [apply H|constructor].
Qed.
Lemma Forall_send_xf (Q : xfer -> Prop) f t d a : Q (mkx f t d a) -> Forall Q (send_xf f t d a).
Proof. intros H. unfold send_xf. destruct (a =? 0); constructor; [exact H|constructor]. Qed.

Theorem tx_xfers_dest s o : Forall (own_dest s o) (tx_xfers s o).
Proof.
  destruct o as [m|a l|a v max|t orc|t orc k|from to d' amt|ls|]; cbn [tx_xfers]; try constructor.
  - destruct (check_basic m) as [c|] eqn:Hc; [|constructor]. destruct c; try constructor.
    + apply Forall_app. split; [apply Forall_coin_xfers; intros; left; reflexivity|].
      apply Forall_send_xf. unfold own_dest. cbn [mkx x_from x_to]. rewrite Hc. right. reflexivity.
    + apply Forall_app. split; [apply Forall_coin_xfers; intros; left; reflexivity|].
      apply Forall_send_xf. unfold own_dest. cbn [mkx x_from x_to]. rewrite Hc. right. reflexivity.
    + destruct (find_auction s a) as [a0|]; [|constructor]. apply Forall_send_xf. exact I.
    + destruct (find_auction s a) as [a0|]; [|constructor].
      apply Forall_app. split; [apply Forall_coin_xfers; intros; left; reflexivity|].
      apply Forall_send_xf. unfold own_dest. cbn [mkx x_from x_to]. rewrite Hc. right. reflexivity.
    + destruct (find_auction s a) as [a0|]; [|constructor]. destruct (find_bid s a b) as [b0|]; [|constructor].
      apply Forall_send_xf. unfold own_dest. cbn [mkx x_from x_to]. rewrite Hc. right. reflexivity.
  - unfold own_dest. cbn [mkx x_from x_to]. right. reflexivity.
  - constructor.
Qed.

Theorem step_dest s o : Inv s -> Forall (own_dest s o) (step_xfers s o).
Proof.
  intros HI. destruct (accepted (fst (step s o))) eqn:Ha.
  - apply accepted_iff in Ha. rewrite (step_xfers_accepted s o HI Ha). apply tx_xfers_dest.
  - assert (Hn : fst (step s o) <> Accepted) by (intros E; rewrite E in Ha; discriminate Ha).
    apply step_not_accepted in Hn. eapply Forall_impl; [|exact Hn].
    intros x (r & id & E). unfold own_dest. rewrite E. exact I.
Qed.
