(* C07: block processing never fails, and never hides a failure.
   - in every state satisfying the global invariant, for every valid sweep-order oracle, BeginBlocker either succeeds
     or returns the veto of a registered listener (E_HOOK); with no vetoing listener it succeeds (InvAll.block_never_fails);
   - a valid oracle always exists (the price-descending insertion sort of the auction's bids);
   - a failure of any auction of the walk is the result of the block, and the block's effects are rolled back;
   - the executable statement c07_ok holds of every model transition. *)
From Coq Require Import ZArith NArith List Bool Arith Lia Permutation Sorted.
From FR Require Import Dec Types Bank Match Step Genesis Model Spec Checkers.
From FR.Proofs Require Import InvDefs FrameFacts TxFacts BlockFacts InvStaticBase InvStaticBlock.
From FR.Proofs Require PrecondBase HookVeto GenesisRT GenesisSort.
From FR.Proofs Require Import EscrowBase EscrowTx EscrowBlock InvAll FixedFacts.
Import ListNotations.
Open Scope Z_scope.

(* ------------------------------------------------------------------ a vetoed settlement is an E_HOOK error *)
Lemma settle_gen_veto s a mi wr :
  no_veto s H_BeforeAllocated = false -> exists tr, settle_gen s a mi wr = Err E_HOOK tr.
Proof.
  intros Hnv. unfold settle_gen, allocate. cbv zeta.
  match goal with |- context [call_hook s H_BeforeAllocated ?args] =>
    pose proof (PrecondBase.call_hook_cases s H_BeforeAllocated args) as Hc;
    destruct (call_hook s H_BeforeAllocated args) as [s1|c tr] eqn:Eh end.
  - destruct Hc as [Hc _]. congruence.
  - unfold call_hook in Eh. destruct (dispatch (st_listeners s) 0 H_BeforeAllocated _) as [ok cs].
    destruct ok; [discriminate|]. injection Eh as <- <-. cbn [bind]. eauto.
Qed.

(* one auction: success, or the listener's veto *)
Lemma process_verdict t orc s a :
  Inv s -> find_auction s (a_id a) = Some a ->
  (a_type a = Batch -> a_status a = Started -> last_end a <= t ->
   exists order, valid_order (bids_of s (a_id a)) (oracle_ids orc (a_id a)) = Some order) ->
  (exists s', process t orc s a = Ok s') \/
  (no_veto s H_BeforeAllocated = false /\ exists tr, process t orc s a = Err E_HOOK tr).
Proof.
  intros I Fa Horc. destruct (no_veto s H_BeforeAllocated) eqn:Hnv.
  - left. apply process_live; assumption.
  - unfold process. destruct (a_status a) eqn:St.
    + left. destruct (a_start a <=? t); eauto.
    + destruct (last_end a <=? t) eqn:Et; [|left; eauto]. apply Z.leb_le in Et.
      destruct (a_type a) eqn:Ty.
      * right. split; [reflexivity|]. rewrite close_fixed_gen. apply settle_gen_veto. exact Hnv.
      * destruct (Horc eq_refl eq_refl Et) as [order HV].
        destruct (close_batch_core s orc a order I Fa St Ty HV) as (mi & HC & K).
        destruct (decision s a mi) eqn:D.
        -- left. destruct K as (s' & H & _); [left; reflexivity|]. eauto.
        -- right. split; [reflexivity|].
           rewrite (close_batch_unfold s orc a order mi HV HC), D, settle_batch_gen.
           apply settle_gen_veto. rewrite <- Hnv. apply PrecondBase.no_veto_ext. reflexivity.
    + left. destruct (release_live s a t I Fa St) as (s' & H & _). eauto.
    + left. eauto.
    + left. eauto.
Qed.

Theorem process_all_verdict t orc : forall l s,
  Inv s -> NoDup (map a_id l) -> (forall a, In a l -> In a (st_auctions s)) ->
  (forall a, In a l -> a_type a = Batch -> a_status a = Started -> last_end a <= t ->
     exists order, valid_order (bids_of s (a_id a)) (oracle_ids orc (a_id a)) = Some order) ->
  (exists s', process_all t orc s l = Ok s') \/ (exists tr, process_all t orc s l = Err E_HOOK tr).
Proof.
  induction l as [|a rest IH]; cbn [process_all]; intros s I ND Hl Horc; [left; eauto|].
  cbn [map] in ND. inversion ND as [|? ? Hn ND']; subst.
  assert (Ha : In a (st_auctions s)) by (apply Hl; left; reflexivity).
  pose proof (Inv_find_in s a I Ha) as Fa.
  destruct (process_verdict t orc s a I Fa (Horc a (or_introl eq_refl))) as [[s1 E]|[_ [tr E]]].
  2:{ right. rewrite E. cbn [bind]. eauto. }
  rewrite E. cbn [bind].
  destruct (process_spec _ _ _ _ _ E) as [PE _].
  apply IH.
  - eapply Inv_process; eassumption.
  - exact ND'.
  - intros x Hx. apply (process_keeps t orc s a s1 x (Inv_InvS s I) Ha E); [apply Hl; right; exact Hx|].
    intros C. apply Hn. rewrite <- C. apply in_map. exact Hx.
  - intros x Hx Hty Hst Hle. destruct (Horc x (or_intror Hx) Hty Hst Hle) as [order HV]. exists order.
    assert (Hne : a_id x <> a_id a) by (intros C; apply Hn; rewrite <- C; apply in_map; exact Hx).
    rewrite (se_bids _ _ _ (pe_frame _ _ _ PE _ Hne)). exact HV.
Qed.

Theorem begin_block_verdict s t orc :
  Inv s -> orc_ok s t orc ->
  (exists s', begin_block s t orc = Ok s') \/ (exists tr, begin_block s t orc = Err E_HOOK tr).
Proof.
  intros I Horc. unfold begin_block. cbv zeta. apply process_all_verdict.
  - apply Inv_with_now, I.
  - apply (Inv_ids_ok s I).
  - auto.
  - intros a Ha. apply (Horc a Ha).
Qed.

(* the only way a block can fail in a reachable state is a listener's veto *)
Theorem block_fails_only_by_veto s t orc :
  Inv s -> oracle_ok s (OBlock t orc) ->
  fst (step s (OBlock t orc)) = BlockOk \/ fst (step s (OBlock t orc)) = BlockErr E_HOOK.
Proof.
  intros I Ho. cbn [step].
  destruct (begin_block_verdict s t orc I (oracle_ok_orc_ok _ _ _ Ho)) as [[s' H]|[tr H]]; rewrite H; cbn [fst]; auto.
Qed.

(* ------------------------------------------------------------------ a failure anywhere in the walk is the block's result *)
Lemma process_all_error t orc l1 a l2 s s1 c tr :
  process_all t orc s l1 = Ok s1 -> process t orc s1 a = Err c tr ->
  process_all t orc s (l1 ++ a :: l2) = Err c tr.
Proof.
  revert s. induction l1 as [|x l1 IH]; cbn [app process_all]; intros s H1 H2.
  - injection H1 as <-. rewrite H2. reflexivity.
  - destruct (process t orc s x) as [s0|c0 tr0]; cbn [bind] in *; [|discriminate]. apply IH; assumption.
Qed.

(* conversely a successful walk means every auction was processed successfully, in store order *)
Lemma process_all_ok_each t orc l1 a l2 s s' :
  process_all t orc s (l1 ++ a :: l2) = Ok s' ->
  exists s1 s2, process_all t orc s l1 = Ok s1 /\ process t orc s1 a = Ok s2 /\ process_all t orc s2 l2 = Ok s'.
Proof.
  intros H. apply process_all_app in H. destruct H as (s1 & H1 & H2). cbn [process_all] in H2.
  destruct (process t orc s1 a) as [s2|] eqn:E; cbn [bind] in H2; [|discriminate]. eauto.
Qed.

(* a failing block is reported and leaves the module state and all balances as they were *)
Theorem block_error_reported s t orc c tr :
  begin_block s t orc = Err c tr ->
  step s (OBlock t orc) = (BlockErr c, with_trace (with_now s t) tr).
Proof. intros H. cbn [step]. rewrite H. reflexivity. Qed.

Theorem walk_error_is_block_error s t orc l1 a l2 s1 c tr :
  st_auctions s = l1 ++ a :: l2 ->
  process_all t orc (with_now s t) l1 = Ok s1 -> process t orc s1 a = Err c tr ->
  fst (step s (OBlock t orc)) = BlockErr c
  /\ st_bal (snd (step s (OBlock t orc))) = st_bal s /\ st_auctions (snd (step s (OBlock t orc))) = st_auctions s
  /\ st_bids (snd (step s (OBlock t orc))) = st_bids s /\ st_vqs (snd (step s (OBlock t orc))) = st_vqs s
  /\ st_mlen (snd (step s (OBlock t orc))) = st_mlen s.
Proof.
  intros Hs H1 H2. assert (H : begin_block s t orc = Err c tr).
  { unfold begin_block. cbv zeta. change (st_auctions (with_now s t)) with (st_auctions s). rewrite Hs.
    eapply process_all_error; eassumption. }
  rewrite (block_error_reported _ _ _ _ _ H). repeat split.
Qed.

(* an injected failure of the k-th bank transfer of the block: reported, everything rolled back *)
Theorem fault_reported s t orc k s' :
  begin_block s t orc = Ok s' -> (k < length (st_xfers s') - length (st_xfers s))%nat ->
  step s (OFaultBlock t orc k) = (BlockErr E_FAULT, with_now s t).
Proof.
  intros H Hk. cbn [step]. rewrite H. apply Nat.ltb_lt in Hk. rewrite Hk. reflexivity.
Qed.

(* ------------------------------------------------------------------ a valid sweep order always exists *)
Fixpoint insert_desc (b : bid) (l : list bid) : list bid :=
  match l with
  | [] => [b]
  | x :: r => if b_price x <=? b_price b then b :: l else x :: insert_desc b r
  end.
Definition sort_desc (l : list bid) : list bid := fold_right insert_desc [] l.

Lemma insert_desc_perm b l : Permutation (insert_desc b l) (b :: l).
Proof.
  induction l as [|x r IH]; cbn [insert_desc]; [reflexivity|].
  destruct (b_price x <=? b_price b); [reflexivity|].
  rewrite IH. apply perm_swap.
Qed.
Lemma sort_desc_perm l : Permutation (sort_desc l) l.
Proof.
  induction l as [|x r IH]; cbn [sort_desc fold_right]; [reflexivity|].
  fold (sort_desc r). rewrite insert_desc_perm. now constructor.
Qed.

Lemma prices_desc_cons b l :
  prices_desc (b :: l) = match l with [] => true | b' :: _ => (b_price b' <=? b_price b) && prices_desc l end.
Proof. destruct l; reflexivity. Qed.

Lemma insert_desc_sorted b l : prices_desc l = true -> prices_desc (insert_desc b l) = true.
Proof.
  induction l as [|x r IH]; intros H; [reflexivity|]. cbn [insert_desc].
  destruct (b_price x <=? b_price b) eqn:E.
  - rewrite prices_desc_cons. rewrite E. exact H.
  - rewrite prices_desc_cons in H. rewrite prices_desc_cons.
    assert (Hr : prices_desc r = true) by (destruct r; [reflexivity|apply andb_true_iff in H; apply H]).
    specialize (IH Hr). destruct r as [|y r'].
    + cbn [insert_desc]. apply Z.leb_gt in E. apply andb_true_iff. split; [apply Z.leb_le; lia|reflexivity].
    + cbn [insert_desc] in *. apply andb_true_iff in H. destruct H as [Hyx _].
      destruct (b_price y <=? b_price b) eqn:E2.
      * apply andb_true_iff. split; [apply Z.leb_gt in E; apply Z.leb_le; lia|exact IH].
      * apply andb_true_iff. split; [exact Hyx|exact IH].
Qed.
Lemma sort_desc_sorted l : prices_desc (sort_desc l) = true.
Proof.
  induction l as [|x r IH]; [reflexivity|]. cbn [sort_desc fold_right]. apply insert_desc_sorted. exact IH.
Qed.

Lemma nodupN_iff l : nodupN l = true <-> NoDup l.
Proof.
  induction l as [|x r IH]; cbn [nodupN]; [split; [constructor|reflexivity]|].
  rewrite andb_true_iff, IH, negb_true_iff. split.
  - intros [H1 H2]. constructor; [|exact H2]. intros Hin.
    assert (existsb (N.eqb x) r = true) by (apply existsb_exists; exists x; split; [exact Hin|apply N.eqb_refl]). congruence.
  - intros H. inversion H as [|? ? Hn Hr]; subst. split; [|exact Hr].
    destruct (existsb (N.eqb x) r) eqn:E; [|reflexivity]. apply existsb_exists in E. destruct E as [y [Hy Ey]].
    apply N.eqb_eq in Ey. subst y. contradiction.
Qed.

Lemma find_by_id bs x : NoDup (map b_id bs) -> In x bs -> find (fun b => N.eqb (b_id b) (b_id x)) bs = Some x.
Proof.
  induction bs as [|y r IH]; intros ND Hx; [destruct Hx|]. cbn [map] in ND. inversion ND as [|? ? Hn ND']; subst.
  cbn [find]. destruct Hx as [->|Hx]; [rewrite N.eqb_refl; reflexivity|].
  destruct (N.eqb (b_id y) (b_id x)) eqn:E; [|apply IH; assumption].
  apply N.eqb_eq in E. exfalso. apply Hn. rewrite E. apply in_map. exact Hx.
Qed.

Lemma pick_bids_self bs : NoDup (map b_id bs) -> forall l, (forall x, In x l -> In x bs) -> pick_bids bs (map b_id l) = Some l.
Proof.
  intros ND. induction l as [|x r IH]; intros Hl; [reflexivity|]. cbn [map pick_bids].
  rewrite (find_by_id bs x ND (Hl x (or_introl eq_refl))). rewrite IH; [reflexivity|].
  intros y Hy. apply Hl. now right.
Qed.

(* sort_desc keeps equal-priced bids in the order of the input: with ids ascending in the input, ties come by id *)
Lemma ties_by_id_cons b l :
  ties_by_id (b :: l) = match l with [] => true | b' :: _ => (negb (b_price b' =? b_price b) || N.ltb (b_id b) (b_id b')) && ties_by_id l end.
Proof. destruct l; reflexivity. Qed.

Lemma insert_desc_ties b l :
  ties_by_id l = true -> (forall x, In x l -> (b_id b < b_id x)%N) -> ties_by_id (insert_desc b l) = true.
Proof.
  induction l as [|x r IH]; intros H Hid; [reflexivity|]. cbn [insert_desc].
  destruct (b_price x <=? b_price b) eqn:E.
  - rewrite ties_by_id_cons. apply andb_true_iff. split; [|exact H].
    apply orb_true_iff. right. apply N.ltb_lt. apply Hid. now left.
  - rewrite ties_by_id_cons in H.
    assert (Hr : ties_by_id r = true) by (destruct r; [reflexivity|apply andb_true_iff in H; apply H]).
    assert (IH' := IH Hr (fun y Hy => Hid y (or_intror Hy))).
    rewrite ties_by_id_cons. destruct r as [|y r'].
    + cbn [insert_desc]. apply andb_true_iff. split; [|reflexivity].
      apply orb_true_iff. left. apply negb_true_iff, Z.eqb_neq. apply Z.leb_gt in E. lia.
    + cbn [insert_desc] in *. apply andb_true_iff in H. destruct H as [Hxy _].
      destruct (b_price y <=? b_price b) eqn:E2.
      * apply andb_true_iff. split; [|exact IH'].
        apply orb_true_iff. left. apply negb_true_iff, Z.eqb_neq. apply Z.leb_gt in E. lia.
      * apply andb_true_iff. split; [exact Hxy|exact IH'].
Qed.

Lemma sort_desc_ties l : StronglySorted N.lt (map b_id l) -> ties_by_id (sort_desc l) = true.
Proof.
  induction l as [|x r IH]; intros H; [reflexivity|]. cbn [map] in H. inversion H as [|? ? Hs Hf]; subst.
  cbn [sort_desc fold_right]. fold (sort_desc r). apply insert_desc_ties; [apply IH, Hs|].
  intros y Hy. apply (Permutation_in _ (sort_desc_perm r)) in Hy.
  rewrite Forall_forall in Hf. apply Hf, in_map, Hy.
Qed.

Lemma ssorted_lt_nodup l : StronglySorted N.lt l -> NoDup l.
Proof.
  induction 1 as [|x l _ IH Hf]; constructor; [|exact IH].
  intros Hin. rewrite Forall_forall in Hf. specialize (Hf x Hin). lia.
Qed.

Theorem valid_order_exists bs :
  StronglySorted N.lt (map b_id bs) -> valid_order bs (map b_id (sort_desc bs)) = Some (sort_desc bs).
Proof.
  intros SS. pose proof (ssorted_lt_nodup _ SS) as ND.
  unfold valid_order. pose proof (sort_desc_perm bs) as Hp.
  rewrite map_length, (Permutation_length Hp), Nat.eqb_refl. cbn [andb].
  assert (Hnd : nodupN (map b_id (sort_desc bs)) = true).
  { apply nodupN_iff. eapply Permutation_NoDup; [|exact ND]. apply Permutation_map. symmetry. exact Hp. }
  rewrite Hnd. rewrite (pick_bids_self bs ND).
  - rewrite sort_desc_sorted, (sort_desc_ties bs SS). reflexivity.
  - intros x Hx. eapply Permutation_in; [exact Hp|exact Hx].
Qed.

(* the oracle that lists this order for every auction *)
Definition natural_orc (s : state) : list (N * list N) :=
  map (fun a => (a_id a, map b_id (sort_desc (bids_of s (a_id a))))) (st_auctions s).

Lemma find_natural (f : auction -> list N) l a :
  NoDup (map a_id l) -> In a l ->
  find (fun x => N.eqb (fst x) (a_id a)) (map (fun a => (a_id a, f a)) l) = Some (a_id a, f a).
Proof.
  induction l as [|y r IH]; intros ND Ha; [destruct Ha|]. cbn [map] in ND. inversion ND as [|? ? Hn ND']; subst.
  cbn [map find fst]. destruct Ha as [->|Ha]; [rewrite N.eqb_refl; reflexivity|].
  destruct (N.eqb (a_id y) (a_id a)) eqn:E; [|apply IH; assumption].
  apply N.eqb_eq in E. exfalso. apply Hn. rewrite E. apply in_map. exact Ha.
Qed.

Theorem natural_oracle_ok s t : Inv s -> oracle_ok s (OBlock t (natural_orc s)).
Proof.
  intros I a Ha _ _ _. exists (map b_id (sort_desc (bids_of s (a_id a)))), (sort_desc (bids_of s (a_id a))). split.
  - unfold natural_orc.
    apply (find_natural (fun a => map b_id (sort_desc (bids_of s (a_id a)))) (st_auctions s) a); [apply (Inv_ids_ok s I)|exact Ha].
  - apply valid_order_exists. destruct (inv_bids _ I) as [_ Hids]. rewrite Hids, GenesisRT.succ_ids_upto. apply GenesisSort.seqN_sorted.
Qed.

(* so: in every reachable state, at every block time, there is a block that succeeds when no listener vetoes *)
Corollary some_block_succeeds s t :
  Inv s -> no_veto s H_BeforeAllocated = true -> fst (step s (OBlock t (natural_orc s))) = BlockOk.
Proof. intros I Hnv. apply block_never_fails; [exact I|exact Hnv|apply natural_oracle_ok, I]. Qed.

(* ------------------------------------------------------------------ the outcome of a block operation *)
Lemma oracle_ok_fault s t orc k : oracle_ok s (OFaultBlock t orc k) -> oracle_ok s (OBlock t orc).
Proof. intros H. exact H. Qed.

Theorem block_outcomes s o :
  Inv s -> oracle_ok s o -> is_block o = true ->
  fst (step s o) = BlockOk \/ fst (step s o) = BlockErr E_HOOK
  \/ ((exists t orc k, o = OFaultBlock t orc k) /\ fst (step s o) = BlockErr E_FAULT).
Proof.
  intros I Ho B. destruct o as [m|id l|id u max|t orc|t orc k|from to d amt|ls|]; try discriminate B.
  - destruct (block_fails_only_by_veto s t orc I Ho); auto.
  - cbn [step].
    destruct (begin_block_verdict s t orc I (oracle_ok_orc_ok _ _ _ (oracle_ok_fault _ _ _ _ Ho))) as [[s' H]|[tr H]]; rewrite H.
    + destruct (Nat.ltb k (length (st_xfers s') - length (st_xfers s))); cbn [fst]; [|auto].
      right. right. split; [eauto|reflexivity].
    + cbn [fst]. auto.
Qed.

(* ------------------------------------------------------------------ the executable statement (Checkers.c07_ok) *)
Theorem c07_ok_model s o : Inv s -> oracle_ok s o -> c07_ok (model_trans s o) = true.
Proof.
  intros I Ho. pose proof (Inv_ghost_reset s I) as I0.
  unfold model_trans. fold (ghost_reset s).
  destruct (step (ghost_reset s) o) as [out s'] eqn:Es.
  assert (Es1 : fst (step (ghost_reset s) o) = out) by (rewrite Es; reflexivity).
  assert (Es2 : snd (step (ghost_reset s) o) = s') by (rewrite Es; reflexivity).
  unfold c07_ok. cbn [t_post t_pre t_op t_class t_fault t_trace].
  change (Checkers.is_block o) with (FrameFacts.is_block o).
  destruct (FrameFacts.is_block o) eqn:B; [|reflexivity].
  assert (Ho0 : oracle_ok (ghost_reset s) o) by (destruct o; exact Ho).
  assert (V : vetoed s (st_trace s') = true <-> out = BlockErr E_HOOK).
  { assert (HV : HookVeto.verdict (ghost_reset s) (step (ghost_reset s) o) (BlockErr E_HOOK) (with_now (ghost_reset s) (block_time o))).
    { destruct o as [m|id l|id u max|t orc|t orc k|from to d amt|ls|]; try discriminate B;
        [apply HookVeto.block_verdict|apply HookVeto.fault_block_verdict]. }
    pose proof (HookVeto.vd_iff _ _ _ _ HV (st_trace s')) as K. rewrite Es1, Es2 in K. apply K. reflexivity. }
  destruct (block_outcomes (ghost_reset s) o I0 Ho0 B) as [H|[H|[(t & orc & k & ->) H]]]; rewrite Es1 in H; clear Es Es1; subst out.
  - assert (Hv : vetoed s (st_trace s') = false).
    { destruct (vetoed s (st_trace s')); [|reflexivity]. destruct V as [V _]. pose proof (V eq_refl) as X. discriminate X. }
    rewrite Hv. destruct o; reflexivity.
  - destruct V as [_ V]. rewrite (V eq_refl). rewrite orb_true_r. reflexivity.
  - reflexivity.
Qed.
