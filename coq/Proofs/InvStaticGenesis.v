(* The GENESIS operation preserves the static parts of the invariant.
   The round trip itself is the work of C15 (GenesisSort / GenesisRT / GenesisImport / GenesisInv): under
   the full invariant, import (export s) is `state_same` to s, and `state_same` preserves every part.
   Here: (1) InvS is preserved by `state_same`; (2) InvS_genesis_vq, directly from import_export_parts, under
   the extra hypothesis vqs_wf (J7); (3) InvS_genesis, without any hypothesis on the vesting queues: the
   import of the queues is the last phase and InvS only needs that every imported queue belongs to an existing
   auction, which import_vqs checks itself (if it fails, the operation leaves the state as it is). *)
From Coq Require Import ZArith NArith List Bool Arith Lia Permutation Sorted.
From FR Require Import Dec Types Bank Match Step Genesis Model Spec.
From FR.Proofs Require Import InvDefs GenesisSort GenesisRT GenesisImport GenesisInv InvStatic.
Import ListNotations.
Open Scope Z_scope.

Theorem InvS_state_same s s' : state_same s s' -> InvS s -> InvS s'.
Proof.
  intros H [I1 I2 I3 I4 I5 I6 I7]. split.
  - exact (ids_seq_same s s' H I1).
  - exact (auctions_wf_same s s' H I2).
  - exact (bids_wf_same s s' H I3).
  - exact (allowed_wf_same s s' H I4).
  - exact (mlen_inv_same s s' H I5).
  - exact (params_wf_same s s' H I6).
  - exact (fresh_inv_same s s' H I7).
Qed.

Theorem InvS_genesis_vq s : InvS s -> vqs_wf s -> InvS (snd (step s OGenesis)).
Proof.
  intros I Hvq. destruct (import_export_parts s (is_ids s I) (is_auctions s I) (is_bids s I) (is_allowed s I)
                            Hvq (is_mlen s I)) as (s' & Himp & Hsame).
  cbn [step]. unfold genesis_roundtrip. rewrite Himp. cbn [snd]. exact (InvS_state_same s s' Hsame I).
Qed.

(* ------------------------------------------------------------------ import_vqs, whatever the queues are *)
Lemma with_vqs_eta s : with_vqs s (st_vqs s) = s.
Proof. destruct s; reflexivity. Qed.

Lemma import_vqs_gen L : forall s s',
  import_vqs s L = Some s' ->
  s' = with_vqs s (st_vqs s')
  /\ (forall v, In v (st_vqs s') -> In v (st_vqs s) \/ In v L)
  /\ (forall v, In v L -> find_auction s (v_auction v) <> None).
Proof.
  induction L as [|v r IH]; cbn [import_vqs]; intros s s' H.
  - injection H as <-. split; [symmetry; apply with_vqs_eta|]. split; [auto|intros v []].
  - destruct (find_auction s (v_auction v)) as [a|] eqn:Ea; [|discriminate].
    apply IH in H. destruct H as (H1 & H2 & H3). split; [|split].
    + rewrite H1 at 1. reflexivity.
    + intros x Hx. apply H2 in Hx. cbn [st_vqs with_vqs] in Hx. destruct Hx as [Hx|Hx]; [|right; right; exact Hx].
      apply in_app_or in Hx. destruct Hx as [Hx|[<-|[]]]; [|right; left; reflexivity].
      left. apply filter_In in Hx. apply Hx.
    + intros x [<-|Hx]; [congruence|]. apply (H3 x Hx).
Qed.

(* ------------------------------------------------------------------ the round trip without J7 *)
(* the first phases of GenesisImport.import_export_parts (auctions, allow-list, bids, mlen), which do not
   look at the vesting queues; the proof script of these phases is taken from there *)
Lemma import_export_novq s :
  ids_seq s -> bids_wf s -> allowed_wf s -> mlen_inv s ->
  forall s', import s (export s) = Some s' ->
  state_same s (with_vqs s' (st_vqs s))
  /\ forall v, In v (st_vqs s') -> find_auction s (v_auction v) <> None.
Proof.
  intros Hids Hb Hal Hml s'.
  rewrite import_eq. unfold export. cbn [g_auctions g_allowed g_bids g_vqs g_params].
  rewrite (import_auctions_seq (st_auctions s) 0 (N.to_nat (st_aseq s)))
    by (rewrite <- ids_upto_seqN; exact Hids).
  cbn [fst snd]. replace (0 + N.of_nat (N.to_nat (st_aseq s)))%N with (st_aseq s) by lia.
  unfold import_rest. cbn [g_auctions g_allowed g_bids g_vqs g_params].
  set (La := sort_by allowed_le (st_allowed s)).
  set (Lb := sort_by bid_le (st_bids s)).
  set (Lv := sort_by vq_le (st_vqs s)).
  set (s0 := base_state s (st_auctions s) (st_aseq s)).
  (* allow-list *)
  assert (fold_left put_entry La s0 = with_allowed s0 La) as Eal.
  { rewrite fold_put_allowed; [reflexivity|].
    change (NoDup (map allowed_key La)). apply sort_by_NoDup_keys. apply Hal. }
  rewrite Eal. set (s1 := with_allowed s0 La).
  (* bids *)
  assert (forall id, filter (of_auction id) Lb = bids_of s id) as Efil.
  { intros id. unfold Lb. apply (filter_sort_by_sorted bid_le bid_le_total bid_le_trans).
    apply bids_of_sorted. exact Hb. }
  assert (forall id, length (bids_of s id) = N.to_nat (st_bseq s id)) as Elen.
  { intros id. destruct Hb as [_ Hb2]. rewrite <- (map_length b_id), Hb2, succ_ids_upto. apply seqN_length. }
  destruct (import_bids_ok Lb s1) as [s2 [Himp [Hbids [Hseq Hrs]]]].
  { intros b Hb'. change (find_auction s1 (b_auction b)) with (find_auction s (b_auction b)).
    apply sort_by_in in Hb'. destruct Hb as [Hb1 _]. rewrite Forall_forall in Hb1.
    destruct (bwf_auction s b (Hb1 b Hb')) as [a [Ha _]]. congruence. }
  { intros id. rewrite Efil. change (st_bseq s1 id) with 0%N.
    destruct Hb as [_ Hb2]. rewrite Hb2, succ_ids_upto, Elen. reflexivity. }
  rewrite Himp.
  change (st_bids s1) with (@nil bid) in Hbids. cbn [app] in Hbids.
  assert (st_auctions s2 = st_auctions s) as Eau2 by exact (rs_auctions _ _ Hrs).
  (* vesting queues: whatever import_vqs makes of them *)
  set (s3 := with_mlen s2 (mlen_of s2 Lb)).
  assert (st_vqs s3 = []) as Evq3 by exact (rs_vqs _ _ Hrs).
  destruct (import_vqs s3 Lv) as [s4|] eqn:Evq; [|discriminate].
  intros Hs'. injection Hs' as <-.
  destruct (import_vqs_gen Lv s3 s4 Evq) as (E4 & Hin & Hfound).
  split.
  2:{ intros v Hv. cbn [st_vqs with_params] in Hv. apply Hin in Hv. rewrite Evq3 in Hv.
      destruct Hv as [[]|Hv]. rewrite <- (find_auction_eq s s3) by exact Eau2. apply Hfound. exact Hv. }
  rewrite E4.
  change (with_vqs (with_params (with_vqs s3 (st_vqs s4)) (st_params s)) (st_vqs s))
    with (with_params (with_vqs s3 (st_vqs s)) (st_params s)).
  constructor.
  - exact Eau2.
  - exact (rs_aseq _ _ Hrs).
  - intros id. change (filter (of_auction id) (st_bids s2) = bids_of s id). rewrite Hbids. apply Efil.
  - change (Permutation (st_bids s2) (st_bids s)). rewrite Hbids. apply sort_by_perm.
  - intros a u.
    change (find (fun x => N.eqb (al_auction x) a && N.eqb (al_bidder x) u) (st_allowed s2) = find_allowed s a u).
    rewrite (rs_allowed _ _ Hrs). change (st_allowed s1) with La. unfold find_allowed.
    apply find_perm_unique; [|apply Permutation_sym; apply sort_by_perm].
    intros x y Hx Hy Ex Ey.
    apply andb_prop in Ex. destruct Ex as [Ex1 Ex2]. apply N.eqb_eq in Ex1. apply N.eqb_eq in Ex2.
    apply andb_prop in Ey. destruct Ey as [Ey1 Ey2]. apply N.eqb_eq in Ey1. apply N.eqb_eq in Ey2.
    apply (NoDup_map_inj_in allowed_key (st_allowed s)); [apply Hal|exact Hx|exact Hy|].
    unfold allowed_key. congruence.
  - change (Permutation (st_allowed s2) (st_allowed s)). rewrite (rs_allowed _ _ Hrs).
    change (st_allowed s1) with La. apply sort_by_perm.
  - intros id u. destruct Hal as [_ Hnd].
    rewrite (caps_of_allowed_of s id u) by exact Hnd.
    change (caps_of (filter (fun x => N.eqb (al_auction x) id) (st_allowed s2)) u
            = option_map al_max (find_allowed s id u)).
    rewrite (rs_allowed _ _ Hrs). change (st_allowed s1) with La.
    unfold caps_of. rewrite caps_find by (apply sort_by_NoDup_keys; exact Hnd).
    unfold find_allowed. f_equal.
    apply find_perm_unique; [|apply Permutation_sym; apply sort_by_perm].
    intros x y Hx Hy Ex Ey.
    apply andb_prop in Ex. destruct Ex as [Ex1 Ex2]. apply N.eqb_eq in Ex1. apply N.eqb_eq in Ex2.
    apply andb_prop in Ey. destruct Ey as [Ey1 Ey2]. apply N.eqb_eq in Ey1. apply N.eqb_eq in Ey2.
    apply (NoDup_map_inj_in allowed_key (st_allowed s)); [exact Hnd|exact Hx|exact Hy|].
    unfold allowed_key. congruence.
  - intros id. reflexivity.
  - apply Permutation_refl.
  - intros id. change (st_bseq s2 id = st_bseq s id). rewrite Hseq, Efil, Elen.
    change (st_bseq s1 id) with 0%N. lia.
  - intros id. change (mlen_of s2 Lb id = st_mlen s id). unfold mlen_of.
    rewrite (find_auction_eq s s2) by exact Eau2.
    specialize (Hml id). destruct (find_auction s id) as [a|]; [|symmetry; exact Hml].
    destruct (a_type a); [symmetry; exact Hml|].
    rewrite Hml. apply count_matched_perm. apply sort_by_perm.
  - reflexivity.
  - exact (rs_bal _ _ Hrs).
  - exact (rs_now _ _ Hrs).
  - exact (rs_listeners _ _ Hrs).
  - exact (rs_switch _ _ Hrs).
  - exact (rs_xfers _ _ Hrs).
  - exact (rs_trace _ _ Hrs).
Qed.

(* ------------------------------------------------------------------ GENESIS preserves InvS *)
Theorem InvS_genesis s : InvS s -> InvS (snd (step s OGenesis)).
Proof.
  intros I. cbn [step]. unfold genesis_roundtrip.
  destruct (import s (export s)) as [s'|] eqn:E; cbn [snd]; [|exact I].
  destruct (import_export_novq s (is_ids s I) (is_bids s I) (is_allowed s I) (is_mlen s I) s' E) as [Hsame Hv].
  pose proof (InvS_state_same _ _ Hsame I) as I2.
  replace s' with (with_vqs (with_vqs s' (st_vqs s)) (st_vqs s')) by exact (with_vqs_eta s').
  apply InvS_with_vqs; [exact I2|].
  rewrite Forall_forall. intros v Hv'. rewrite (ss_aseq _ _ Hsame).
  specialize (Hv v Hv'). destruct (find_auction s (v_auction v)) as [a|] eqn:F; [|congruence].
  exact (InvS_find_lt s _ a I F).
Qed.

(* hence every operation preserves InvS, and every reachable state satisfies it *)
Theorem InvS_step_all s o : InvS s -> InvS (snd (step s o)).
Proof.
  intros I. destruct o; try (apply InvS_step; [exact I|discriminate]). apply InvS_genesis, I.
Qed.

Theorem InvS_run_all : forall ops s, InvS s -> InvS (run s ops).
Proof.
  unfold run. induction ops as [|o ops IH]; cbn [fold_left]; intros s I; [exact I|].
  apply IH, InvS_step_all, I.
Qed.

Corollary InvS_reachable_all bal now sw p ops :
  coins_ok (p_cfee p) None = true -> coins_ok (p_bfee p) None = true ->
  InvS (run (init_state bal now sw p) ops).
Proof. intros H1 H2. apply InvS_run_all, InvS_init; assumption. Qed.
