(* InvS is preserved by each pure update of the state the handlers and the block processing perform. *)
From Coq Require Import ZArith NArith List Bool Arith Lia Permutation.
From FR Require Import Dec Types Bank Match Step Genesis Model Spec.
From FR.Proofs Require Import FrameFacts TxFacts InvDefs InvStaticBase.
Import ListNotations.
Open Scope Z_scope.

(* ------------------------------------------------------------------ auction_wf through the record setters *)
Lemma auction_wf_set_status a x : auction_wf a -> auction_wf (set_status a x).
Proof.
  intros [H1 H2 H3 H4 H5 H6 H7 H8 H9].
  split; [exact H1|exact H2|exact H3|exact H4|exact H5|exact H6|exact H7|exact H8|exact H9].
Qed.

Lemma auction_wf_set_remaining a x :
  a_type a = FixedPrice -> 0 <= x <= a_sell_amt a -> auction_wf a -> auction_wf (set_remaining a x).
Proof.
  intros T Hx [H1 H2 H3 H4 H5 H6 H7 H8 H9].
  split; [exact H1|exact H2|exact H3|exact H4|exact H5|exact H6|exact H7| |].
  - cbn [a_type set_remaining]. intros C. congruence.
  - cbn [a_type a_min_price a_rate a_max_round a_matched_price a_remaining a_sell_amt set_remaining].
    intros C. destruct (H9 C) as (K1 & K2 & K3 & K4 & _). repeat split; try assumption; lia.
Qed.

Lemma auction_wf_set_matched_price a p :
  a_type a = Batch -> 0 <= p -> auction_wf a -> auction_wf (set_matched_price a p).
Proof.
  intros T Hp [H1 H2 H3 H4 H5 H6 H7 H8 H9].
  split; [exact H1|exact H2|exact H3|exact H4|exact H5|exact H6|exact H7| |].
  - cbn [a_type a_min_price a_rate a_remaining a_matched_price set_matched_price].
    intros C. destruct (H8 C) as (K1 & K2 & K3 & _). repeat split; assumption.
  - cbn [a_type set_matched_price]. intros C. congruence.
Qed.

Lemma auction_wf_set_ends a e :
  (1 <= length e <= N.to_nat (a_max_round a) + 1)%nat -> hd 0 e = hd 0 (a_ends a) ->
  auction_wf a -> auction_wf (set_ends a e).
Proof.
  intros He Hh [H1 H2 H3 H4 H5 H6 H7 H8 H9].
  split; [exact H1|exact H2|exact H3|exact He|exact H5| |exact H7|exact H8|exact H9].
  unfold scheds_wf, first_end in *. cbn [a_scheds a_ends set_ends]. rewrite Hh. exact H6.
Qed.

(* ------------------------------------------------------------------ put_auction *)
(* what an update of an auction record may change: not its terms, and it never goes back to waiting *)
Definition upd_ok (a a' : auction) : Prop :=
  a_id a' = a_id a /\ a_type a' = a_type a /\ a_start_price a' = a_start_price a
  /\ a_sell_denom a' = a_sell_denom a /\ a_pay_denom a' = a_pay_denom a /\ a_min_price a' = a_min_price a
  /\ (a_status a' = StandBy \/ a_status a' = Cancelled -> a_status a = StandBy).

Lemma upd_ok_set_status a0 a x : upd_ok a0 a -> x <> StandBy -> x <> Cancelled -> upd_ok a0 (set_status a x).
Proof.
  intros (U1 & U2 & U3 & U4 & U5 & U6 & _) N1 N2. unfold upd_ok. cbn [set_status a_id a_type a_start_price
    a_sell_denom a_pay_denom a_min_price a_status]. repeat split; try assumption. intros [C|C]; congruence.
Qed.
(* updates that keep the status *)
Lemma upd_ok_same_status a a' :
  a_id a' = a_id a -> a_type a' = a_type a -> a_start_price a' = a_start_price a ->
  a_sell_denom a' = a_sell_denom a -> a_pay_denom a' = a_pay_denom a -> a_min_price a' = a_min_price a ->
  a_status a' = a_status a -> a_status a <> Cancelled -> upd_ok a a'.
Proof.
  intros H1 H2 H3 H4 H5 H6 H7 H8. unfold upd_ok. repeat split; try assumption.
  rewrite H7. intros [C|C]; [exact C|contradiction].
Qed.

Lemma bid_wf_put_auction s a a' b :
  find_auction s (a_id a) = Some a -> upd_ok a a' -> bid_wf s b -> bid_wf (put_auction s a') b.
Proof.
  intros F (U1 & U2 & U3 & U4 & U5 & U6 & U7) [H1 H2 H3 (a0 & F0 & HT & S1 & S2)].
  split; [exact H1|exact H2|exact H3|].
  rewrite find_auction_put. destruct (N.eqb (b_auction b) (a_id a')) eqn:E.
  - apply N.eqb_eq in E. rewrite U1 in E. rewrite E in F0. rewrite F in F0. injection F0 as <-.
    rewrite E, F. exists a'. split; [reflexivity|]. rewrite U2, U3, U4, U5, U6. split; [exact HT|].
    split; intros C; apply S1; apply U7; [left|right]; exact C.
  - exists a0. repeat split; assumption.
Qed.

Lemma InvS_put_auction s a a' :
  InvS s -> find_auction s (a_id a) = Some a -> upd_ok a a' -> auction_wf a' -> InvS (put_auction s a').
Proof.
  intros [I1 I2 I3 I4 I5 I6 I7] F U W. pose proof U as (U1 & U2 & U3 & U4 & U5 & U6 & U7). split.
  - unfold ids_seq, put_auction in *. cbn [st_auctions st_aseq with_auctions]. rewrite map_id_put. exact I1.
  - unfold auctions_wf, put_auction in *. cbn [st_auctions with_auctions].
    rewrite Forall_forall in *. intros x Hx. apply in_map_iff in Hx. destruct Hx as (y & <- & Hy).
    destruct (N.eqb (a_id y) (a_id a')); [exact W|apply I2; exact Hy].
  - destruct I3 as [B1 B2]. split.
    + change (st_bids (put_auction s a')) with (st_bids s).
      eapply Forall_impl; [|exact B1]. intros b. apply (bid_wf_put_auction s a a' b F U).
    + exact B2.
  - exact I4.
  - intros id. specialize (I5 id). rewrite find_auction_put. destruct (N.eqb id (a_id a')) eqn:E.
    + apply N.eqb_eq in E. subst id. rewrite U1 in *. rewrite F in *. rewrite U2. exact I5.
    + exact I5.
  - exact I6.
  - destruct I7 as [F1 F2]. split; [exact F1|].
    intros a1 Ha1 St. unfold put_auction in Ha1. cbn [st_auctions with_auctions] in Ha1.
    apply in_map_iff in Ha1. destruct Ha1 as (x & Hx & Hin).
    change (bids_of (put_auction s a') (a_id a1)) with (bids_of s (a_id a1)).
    destruct (N.eqb (a_id x) (a_id a')) eqn:E.
    + subst a1. rewrite U1. apply F2; [apply find_auction_some in F; apply F|]. left. apply U7. exact St.
    + subst a1. apply F2; assumption.
Qed.

(* ------------------------------------------------------------------ set_flags *)
Definition flag_fn (id : N) (m : list N) (b : bid) : bid :=
  if N.eqb (b_auction b) id then set_b_matched b (existsb (N.eqb (b_id b)) m) else b.

Lemma set_flags_eq s id m :
  set_flags s id m = with_mlen (with_bids s (map (flag_fn id m) (st_bids s)))
                               (upd (st_mlen s) id (Z.of_nat (length m))).
Proof. reflexivity. Qed.

Lemma flag_fn_auction id m b : b_auction (flag_fn id m b) = b_auction b.
Proof. unfold flag_fn. destruct (N.eqb (b_auction b) id); reflexivity. Qed.
Lemma flag_fn_id id m b : b_id (flag_fn id m b) = b_id b.
Proof. unfold flag_fn. destruct (N.eqb (b_auction b) id); reflexivity. Qed.

Lemma bids_of_set_flags s id m j : bids_of (set_flags s id m) j = map (flag_fn id m) (bids_of s j).
Proof.
  unfold bids_of. rewrite set_flags_eq. cbn [st_bids with_bids with_mlen].
  apply filter_map_comm. intros x. rewrite flag_fn_auction. reflexivity.
Qed.

Lemma count_matched_flags_same bs id m :
  count_matched (map (flag_fn id m) bs) id
  = Z.of_nat (length (filter (fun b => existsb (N.eqb (b_id b)) m) (filter (fun b => N.eqb (b_auction b) id) bs))).
Proof.
  unfold count_matched. f_equal.
  induction bs as [|b bs IH]; cbn [map filter]; [reflexivity|].
  rewrite flag_fn_auction. unfold flag_fn at 1. destruct (N.eqb (b_auction b) id) eqn:E.
  - cbn [b_matched set_b_matched andb filter].
    destruct (existsb (N.eqb (b_id b)) m); cbn [length]; rewrite IH; reflexivity.
  - cbn [andb]. exact IH.
Qed.

Lemma count_matched_flags_other bs id m j :
  j <> id -> count_matched (map (flag_fn id m) bs) j = count_matched bs j.
Proof.
  intros Hj. unfold count_matched. f_equal.
  induction bs as [|b bs IH]; cbn [map filter]; [reflexivity|].
  rewrite flag_fn_auction. destruct (N.eqb (b_auction b) j) eqn:E; cbn [andb]; [|exact IH].
  unfold flag_fn at 1. destruct (N.eqb (b_auction b) id) eqn:E2; [neqb; congruence|].
  destruct (b_matched b); cbn [length]; rewrite IH; reflexivity.
Qed.

Lemma InvS_set_flags s id a m :
  InvS s -> find_auction s id = Some a -> a_type a = Batch ->
  NoDup m -> incl m (map b_id (bids_of s id)) -> InvS (set_flags s id m).
Proof.
  intros I F T Nm Hm. pose proof (InvS_find_lt s id a I F) as Hlt.
  destruct I as [I1 I2 I3 I4 I5 I6 I7]. split.
  - exact I1.
  - exact I2.
  - pose proof I3 as [B1 B2]. split.
    + rewrite set_flags_eq. cbn [st_bids with_bids with_mlen]. rewrite Forall_forall in *.
      intros x Hx. apply in_map_iff in Hx. destruct Hx as (b & <- & Hb). specialize (B1 b Hb).
      destruct B1 as [H1 H2 H3 (a0 & F0 & HT & S1 & S2)].
      unfold flag_fn. destruct (N.eqb (b_auction b) id) eqn:E; [|split; try assumption; exists a0; auto].
      apply N.eqb_eq in E. split; [exact H1|exact H2|exact H3|].
      exists a0. split; [exact F0|]. split; [|split; assumption].
      rewrite E, F in F0. injection F0 as <-. rewrite T in *. exact HT.
    + intros j. rewrite bids_of_set_flags, map_map.
      rewrite (map_ext _ b_id (flag_fn_id id m)). apply B2.
  - exact I4.
  - intros j. specialize (I5 j). rewrite set_flags_eq.
    change (find_auction (with_mlen (with_bids s (map (flag_fn id m) (st_bids s)))
                                    (upd (st_mlen s) id (Z.of_nat (length m)))) j)
      with (find_auction s j).
    cbn [st_mlen st_bids with_mlen with_bids]. unfold upd.
    destruct (N.eqb j id) eqn:E.
    + apply N.eqb_eq in E. subst j. rewrite F, T. rewrite count_matched_flags_same. f_equal.
      fold (bids_of s id). symmetry.
      rewrite <- (map_length b_id), <- (filter_map_swap (fun i => existsb (N.eqb i) m) b_id).
      apply count_mem; [apply bids_wf_nodup; exact I3|exact Nm|exact Hm].
    + apply N.eqb_neq in E. rewrite (count_matched_flags_other _ id m j E). exact I5.
  - exact I6.
  - destruct I7 as [F1 F2]. split.
    + intros j Hj. change (st_aseq s <= j)%N in Hj. destruct (F1 j Hj) as (K1 & K2 & K3 & K4 & K5).
      split; [exact K1|]. split; [rewrite bids_of_set_flags, K2; reflexivity|].
      split; [exact K3|]. split; [exact K4|].
      rewrite set_flags_eq. cbn [st_mlen with_mlen]. unfold upd.
      destruct (N.eqb j id) eqn:E; [apply N.eqb_eq in E; lia|exact K5].
    + intros a1 Ha1 St. rewrite bids_of_set_flags. rewrite (F2 a1 Ha1 St). reflexivity.
Qed.

(* ------------------------------------------------------------------ vesting queues *)
Lemma InvS_vqs_lt s : InvS s -> Forall (fun v => (v_auction v < st_aseq s)%N) (st_vqs s).
Proof.
  intros I. apply vqs_fresh_iff. intros id Hid. destruct (is_fresh s I) as [F1 _].
  destruct (F1 id Hid) as (_ & _ & _ & K & _). exact K.
Qed.

Lemma InvS_with_vqs s l :
  InvS s -> Forall (fun v => (v_auction v < st_aseq s)%N) l -> InvS (with_vqs s l).
Proof.
  intros [I1 I2 I3 I4 I5 I6 I7] Hl. split; [exact I1|exact I2| |exact I4|exact I5|exact I6|].
  - eapply bids_wf_dep; [| | |exact I3]; reflexivity.
  - destruct I7 as [F1 F2]. split; [|exact F2].
    intros j Hj. destruct (F1 j Hj) as (K1 & K2 & K3 & K4 & K5).
    repeat split; try assumption.
    unfold vqs_of. cbn [st_vqs with_vqs]. apply (proj2 (vqs_fresh_iff l (st_aseq s))); assumption.
Qed.

(* ------------------------------------------------------------------ creation *)
Lemma InvS_create s a :
  InvS s -> a_id a = st_aseq s -> auction_wf a ->
  InvS (with_auctions (with_aseq s (st_aseq s + 1)) (st_auctions s ++ [a])).
Proof.
  intros I Hid W. pose proof (ids_seq_ids_ok s (is_ids s I)) as IO.
  destruct I as [I1 I2 I3 I4 I5 I6 I7].
  set (s' := with_auctions (with_aseq s (st_aseq s + 1)) (st_auctions s ++ [a])).
  assert (FA : forall j, find_auction s' j
                 = match find_auction s j with Some x => Some x
                   | None => if N.eqb (a_id a) j then Some a else None end).
  { intros j. apply find_auction_conv_app. reflexivity. }
  destruct I7 as [F1 F2]. split.
  - unfold ids_seq in *. subst s'. cbn [st_auctions st_aseq with_auctions with_aseq].
    rewrite map_app, ids_upto_succ, I1. cbn [map]. rewrite Hid. reflexivity.
  - unfold auctions_wf in *. subst s'. cbn [st_auctions with_auctions].
    apply Forall_app. split; [exact I2|constructor; [exact W|constructor]].
  - destruct I3 as [B1 B2]. split; [|exact B2].
    change (st_bids s') with (st_bids s). eapply Forall_impl; [|exact B1].
    intros b [H1 H2 H3 (a0 & F0 & HT)]. split; [exact H1|exact H2|exact H3|].
    exists a0. rewrite FA, F0. split; [reflexivity|exact HT].
  - exact I4.
  - intros j. specialize (I5 j). rewrite FA.
    change (st_mlen s' j) with (st_mlen s j). change (st_bids s') with (st_bids s).
    destruct (find_auction s j) as [x|] eqn:Fj; [exact I5|].
    destruct (N.eqb (a_id a) j) eqn:E; [|exact I5].
    apply N.eqb_eq in E. rewrite Hid in E. subst j.
    destruct (F1 (st_aseq s) (N.le_refl _)) as (_ & K2 & _ & _ & K5).
    destruct (a_type a); [exact K5|]. rewrite K5. symmetry. apply count_matched_nil. exact K2.
  - exact I6.
  - split.
    + intros j Hj. subst s'. cbn [st_aseq with_auctions with_aseq] in Hj. apply (F1 j). lia.
    + intros a1 Ha1 St. subst s'. cbn [st_auctions with_auctions] in Ha1.
      change (bids_of (with_auctions (with_aseq s (st_aseq s + 1)) (st_auctions s ++ [a])) (a_id a1))
        with (bids_of s (a_id a1)).
      apply in_app_or in Ha1. destruct Ha1 as [Ha1|[<-|[]]]; [apply F2; assumption|].
      rewrite Hid. apply (F1 (st_aseq s) (N.le_refl _)).
Qed.

(* ------------------------------------------------------------------ a new bid *)
Definition bid_terms_ok (a : auction) (b : bid) : Prop :=
  match a_type a with
  | FixedPrice => b_type b = BFixed /\ (b_denom b = a_pay_denom a \/ b_denom b = a_sell_denom a)
                  /\ b_price b = a_start_price a
                  /\ b_matched b = (0 <? sell_amount (a_pay_denom a) b)
  | Batch => ((b_type b = BWorth /\ b_denom b = a_pay_denom a) \/ (b_type b = BMany /\ b_denom b = a_sell_denom a))
             /\ a_min_price a <= b_price b
  end.

Lemma count_matched_snoc bs b j :
  N.eqb (b_auction b) j && b_matched b = false -> count_matched (bs ++ [b]) j = count_matched bs j.
Proof.
  intros H. unfold count_matched. rewrite filter_app. cbn [filter]. rewrite H, app_nil_r. reflexivity.
Qed.

Lemma InvS_place s a b :
  InvS s -> find_auction s (b_auction b) = Some a -> a_status a = Started ->
  b_id b = (st_bseq s (b_auction b) + 1)%N -> 0 < b_price b -> 0 < b_amt b ->
  bid_terms_ok a b -> (a_type a = Batch -> b_matched b = false) ->
  InvS (with_bids (with_bseq s (upd (st_bseq s) (b_auction b) (b_id b))) (st_bids s ++ [b])).
Proof.
  intros I F St Hid Hp Ha HT Hm. pose proof (InvS_find_lt s _ a I F) as Hlt.
  pose proof (ids_seq_ids_ok s (is_ids s I)) as IO.
  destruct I as [I1 I2 I3 I4 I5 I6 I7].
  set (id := b_auction b) in *.
  set (s' := with_bids (with_bseq s (upd (st_bseq s) id (b_id b))) (st_bids s ++ [b])).
  assert (BO : forall j, bids_of s' j = if N.eqb id j then bids_of s j ++ [b] else bids_of s j).
  { intros j. unfold bids_of. subst s'. cbn [st_bids with_bids]. rewrite filter_app. cbn [filter].
    fold id. destruct (N.eqb id j); [reflexivity|apply app_nil_r]. }
  split.
  - exact I1.
  - exact I2.
  - destruct I3 as [B1 B2]. split.
    + subst s'. cbn [st_bids with_bids]. apply Forall_app. split.
      * eapply Forall_impl; [|exact B1]. intros x [H1 H2 H3 H4]. split; [exact H1|exact H2| |exact H4].
        cbn [st_bseq with_bids with_bseq]. unfold upd.
        destruct (N.eqb (b_auction x) id) eqn:E; [|exact H3]. apply N.eqb_eq in E. rewrite E in H3. lia.
      * constructor; [|constructor]. split; [exact Hp|exact Ha| |].
        -- cbn [st_bseq with_bids with_bseq]. unfold upd. fold id. rewrite N.eqb_refl. lia.
        -- exists a. split; [exact F|]. split; [exact HT|]. rewrite St. split; discriminate.
    + intros j. rewrite BO. subst s'. cbn [st_bseq with_bids with_bseq]. unfold upd.
      rewrite (N.eqb_sym j id). destruct (N.eqb id j) eqn:E; [|apply B2].
      apply N.eqb_eq in E. subst j. rewrite map_app, B2, Hid, ids_upto_succ, map_app. cbn [map].
      rewrite Hid, N.add_1_r. reflexivity.
  - exact I4.
  - intros j. specialize (I5 j). change (find_auction s' j) with (find_auction s j).
    change (st_mlen s' j) with (st_mlen s j). subst s'. cbn [st_bids with_bids].
    destruct (find_auction s j) as [x|] eqn:Fj; [|exact I5].
    destruct (a_type x) eqn:Tx; [exact I5|]. rewrite count_matched_snoc; [exact I5|].
    fold id. destruct (N.eqb id j) eqn:E; [|reflexivity]. apply N.eqb_eq in E. subst j.
    rewrite F in Fj. injection Fj as <-. rewrite (Hm Tx). reflexivity.
  - exact I6.
  - destruct I7 as [F1 F2]. split.
    + intros j Hj. change (st_aseq s <= j)%N in Hj. destruct (F1 j Hj) as (K1 & K2 & K3 & K4 & K5).
      assert (E : N.eqb id j = false) by (apply N.eqb_neq; lia).
      rewrite BO, E. subst s'. cbn [st_bseq with_bids with_bseq]. unfold upd.
      rewrite (N.eqb_sym j id), E. repeat split; assumption.
    + intros a1 Ha1 St1. rewrite BO. destruct (N.eqb id (a_id a1)) eqn:E; [|apply F2; assumption].
      apply N.eqb_eq in E. pose proof (ids_ok_find s a1 IO Ha1) as F1'. rewrite <- E, F in F1'.
      injection F1' as <-. rewrite St in St1. destruct St1; discriminate.
Qed.

(* ------------------------------------------------------------------ a modified bid *)
Definition repl_fn (b' : bid) (x : bid) : bid :=
  if N.eqb (b_auction x) (b_auction b') && N.eqb (b_id x) (b_id b') then b' else x.
Lemma put_bid_eq s b' : put_bid s b' = with_bids s (map (repl_fn b') (st_bids s)).
Proof. reflexivity. Qed.
Lemma repl_fn_auction b' x : b_auction (repl_fn b' x) = b_auction x.
Proof.
  unfold repl_fn. destruct (N.eqb (b_auction x) (b_auction b') && N.eqb (b_id x) (b_id b')) eqn:E; [|reflexivity].
  neqb. congruence.
Qed.
Lemma repl_fn_id b' x : b_id (repl_fn b' x) = b_id x.
Proof.
  unfold repl_fn. destruct (N.eqb (b_auction x) (b_auction b') && N.eqb (b_id x) (b_id b')) eqn:E; [|reflexivity].
  neqb. congruence.
Qed.
Lemma bids_of_put_bid s b' j : bids_of (put_bid s b') j = map (repl_fn b') (bids_of s j).
Proof.
  unfold bids_of. rewrite put_bid_eq. cbn [st_bids with_bids].
  apply filter_map_comm. intros x. rewrite repl_fn_auction. reflexivity.
Qed.

Lemma count_matched_map_keep (g : bid -> bid) bs j :
  (forall x, In x bs -> b_auction (g x) = b_auction x /\ b_matched (g x) = b_matched x) ->
  count_matched (map g bs) j = count_matched bs j.
Proof.
  intros H. unfold count_matched. f_equal.
  induction bs as [|b bs IH]; cbn [map filter]; [reflexivity|].
  destruct (H b (or_introl eq_refl)) as [E1 E2]. rewrite E1, E2.
  destruct (N.eqb (b_auction b) j && b_matched b); cbn [length]; rewrite IH; auto;
    intros x Hx; apply H; right; exact Hx.
Qed.

Lemma InvS_put_bid s a b0 p amt :
  InvS s -> find_bid s (b_auction b0) (b_id b0) = Some b0 -> find_auction s (b_auction b0) = Some a ->
  a_type a = Batch -> a_min_price a <= p -> 0 < p -> 0 < amt ->
  InvS (put_bid s (set_b_terms b0 p amt)).
Proof.
  intros I FB F T Hmin Hp Ha. set (b' := set_b_terms b0 p amt).
  destruct (find_bid_some _ _ _ _ FB) as (Hin0 & _ & _).
  destruct I as [I1 I2 I3 I4 I5 I6 I7].
  pose proof I3 as [B1 B2].
  assert (W0 : bid_wf s b0) by (rewrite Forall_forall in B1; apply B1; exact Hin0).
  assert (KEEP : forall x, In x (st_bids s) ->
            b_auction (repl_fn b' x) = b_auction x /\ b_matched (repl_fn b' x) = b_matched x).
  { intros x Hx. split; [apply repl_fn_auction|]. unfold repl_fn.
    destruct (N.eqb (b_auction x) (b_auction b') && N.eqb (b_id x) (b_id b')) eqn:E; [|reflexivity].
    apply andb_true_iff in E. destruct E as [E1 E2]. apply N.eqb_eq in E1, E2.
    change (b_auction b') with (b_auction b0) in E1. change (b_id b') with (b_id b0) in E2.
    assert (x = b0).
    { apply (NoDup_map_eq b_id (bids_of s (b_auction b0))); [apply bids_wf_nodup; exact I3| | |exact E2];
        apply bids_of_in; auto. }
    subst x. reflexivity. }
  split.
  - exact I1.
  - exact I2.
  - split.
    + rewrite put_bid_eq. cbn [st_bids with_bids]. rewrite Forall_forall in *.
      intros y Hy. apply in_map_iff in Hy. destruct Hy as (x & <- & Hx).
      unfold repl_fn. destruct (N.eqb (b_auction x) (b_auction b') && N.eqb (b_id x) (b_id b')) eqn:E.
      * destruct W0 as [H1 H2 H3 (a0 & F0 & HT & S1 & S2)]. split; [exact Hp|exact Ha|exact H3|].
        exists a0. split; [exact F0|]. split; [|split; assumption].
        rewrite F in F0. injection F0 as <-. rewrite T in *. destruct HT as [HT _]. split; [exact HT|exact Hmin].
      * eapply bid_wf_dep; [| |apply B1; exact Hx]; reflexivity.
    + intros j. rewrite bids_of_put_bid, map_map. rewrite (map_ext _ b_id (repl_fn_id b')). apply B2.
  - exact I4.
  - intros j. specialize (I5 j). change (find_auction (put_bid s b') j) with (find_auction s j).
    change (st_mlen (put_bid s b') j) with (st_mlen s j). rewrite put_bid_eq. cbn [st_bids with_bids].
    rewrite (count_matched_map_keep _ _ j KEEP). exact I5.
  - exact I6.
  - destruct I7 as [F1 F2]. split.
    + intros j Hj. destruct (F1 j Hj) as (K1 & K2 & K3 & K4 & K5).
      split; [exact K1|]. split; [rewrite bids_of_put_bid, K2; reflexivity|]. repeat split; assumption.
    + intros a1 Ha1 St. rewrite bids_of_put_bid. rewrite (F2 a1 Ha1 St). reflexivity.
Qed.

(* ------------------------------------------------------------------ the allow-list *)
Lemma put_allowed_list_wf l a u m :
  0 < m -> Forall (fun x => 0 < al_max x) l -> NoDup (map (fun x => (al_auction x, al_bidder x)) l) ->
  Forall (fun x => 0 < al_max x) (put_allowed_list l a u m)
  /\ NoDup (map (fun x => (al_auction x, al_bidder x)) (put_allowed_list l a u m)).
Proof.
  intros Hm HF HN. unfold put_allowed_list.
  destruct (find (fun x => N.eqb (al_auction x) a && N.eqb (al_bidder x) u) l) as [e|] eqn:E.
  - split.
    + rewrite Forall_forall in *. intros y Hy. apply in_map_iff in Hy. destruct Hy as (x & <- & Hx).
      destruct (N.eqb (al_auction x) a && N.eqb (al_bidder x) u); [exact Hm|apply HF; exact Hx].
    + rewrite map_map. erewrite map_ext; [exact HN|]. intros x. cbn beta.
      destruct (N.eqb (al_auction x) a && N.eqb (al_bidder x) u) eqn:E2; [|reflexivity].
      apply andb_true_iff in E2. destruct E2 as [E2 E3]. apply N.eqb_eq in E2, E3. cbn. congruence.
  - split.
    + apply Forall_app. split; [exact HF|constructor; [exact Hm|constructor]].
    + rewrite map_app. cbn [map al_auction al_bidder]. apply NoDup_snoc; [exact HN|].
      intros HI. apply in_map_iff in HI. destruct HI as (x & Hx & HI). injection Hx as X1 X2.
      pose proof (find_none _ _ E x HI) as C. cbn beta in C. rewrite X1, X2, !N.eqb_refl in C. discriminate.
Qed.

Lemma InvS_put_allowed s id a u m :
  InvS s -> find_auction s id = Some a -> 0 < m -> InvS (put_allowed s id u m).
Proof.
  intros I F Hm. pose proof (InvS_find_lt s id a I F) as Hlt.
  destruct I as [I1 I2 I3 I4 I5 I6 I7]. rewrite put_allowed_eq. split.
  - exact I1.
  - exact I2.
  - eapply bids_wf_dep; [| | |exact I3]; reflexivity.
  - destruct I4 as [A1 A2]. unfold allowed_wf. cbn [st_allowed with_allowed].
    apply put_allowed_list_wf; assumption.
  - exact I5.
  - exact I6.
  - destruct I7 as [F1 F2]. split; [|exact F2].
    intros j Hj. change (st_aseq s <= j)%N in Hj. destruct (F1 j Hj) as (K1 & K2 & K3 & K4 & K5).
    repeat split; try assumption.
    unfold allowed_of. cbn [st_allowed with_allowed]. rewrite put_allowed_list_other; [exact K3|lia].
Qed.

(* ------------------------------------------------------------------ parameters *)
Lemma InvS_with_params s p :
  InvS s -> coins_ok (p_cfee p) None = true -> coins_ok (p_bfee p) None = true -> InvS (with_params s p).
Proof.
  intros [I1 I2 I3 I4 I5 I6 I7] H1 H2. split; [exact I1|exact I2| |exact I4|exact I5| |exact I7].
  - eapply bids_wf_dep; [| | |exact I3]; reflexivity.
  - split; assumption.
Qed.
