(* Frame facts: what the primitive state updates of the model leave unchanged.
   Everything here is about the shape of the state, no arithmetic. *)
From Coq Require Import ZArith NArith List Bool Arith Lia.
From FR Require Import Dec Types Bank Match Step Genesis Model Spec.
Import ListNotations.
Open Scope Z_scope.

(* ------------------------------------------------------------------ definitions used by the statements *)

(* auction ids are pairwise distinct and below the sequence counter *)
Definition ids_ok (s : state) : Prop :=
  NoDup (map a_id (st_auctions s)) /\ Forall (fun a => (a_id a < st_aseq s)%N) (st_auctions s).

(* everything the module keeps about auction j *)
Record slice_eq (j : N) (s s' : state) : Prop := {
  se_auction : find_auction s' j = find_auction s j;
  se_bids : bids_of s' j = bids_of s j;
  se_allowed : allowed_of s' j = allowed_of s j;
  se_vqs : vqs_of s' j = vqs_of s j;
  se_bseq : st_bseq s' j = st_bseq s j;
  se_mlen : st_mlen s' j = st_mlen s j;
  se_bal : forall r d, st_bal s' (Escrow r j) d = st_bal s (Escrow r j) d }.

(* nothing of any auction other than id changes *)
Definition frame (id : N) (s s' : state) : Prop := forall j, j <> id -> slice_eq j s s'.

(* the fields that are not per-auction and that block processing never writes *)
Definition glob_eq (s s' : state) : Prop :=
  st_params s' = st_params s /\ st_aseq s' = st_aseq s /\ st_now s' = st_now s
  /\ st_listeners s' = st_listeners s /\ st_switch s' = st_switch s
  /\ map a_id (st_auctions s') = map a_id (st_auctions s).

Definition esc_keep (id : N) (b0 b : addr -> N -> Z) : Prop :=
  forall r j d, j <> id -> b (Escrow r j) d = b0 (Escrow r j) d.
Definition addr_ok (id : N) (x : addr) : Prop := match x with Escrow _ j => j = id | _ => True end.

Definition is_block (o : op) : bool := match o with OBlock _ _ | OFaultBlock _ _ _ => true | _ => false end.
Definition block_time (o : op) : Z := match o with OBlock t _ | OFaultBlock t _ _ => t | _ => 0 end.

(* the auction an operation is about (Checkers.target) *)
Definition target (s : state) (o : op) : option N :=
  match o with
  | OTx (MCreateFixed _ _ _ _ _ _ _) | OTx (MCreateBatch _ _ _ _ _ _ _ _ _ _) => Some (st_aseq s)
  | OTx (MCancel _ a) | OTx (MPlaceBid _ a _ _ _) | OTx (MModifyBid _ a _ _ _) | OTx (MAddAllowed a _ _ _) => Some a
  | OApiAdd a _ | OApiUpdate a _ _ => Some a
  | _ => None
  end.

(* the immutable terms of an auction *)
Definition terms_eq (a a' : auction) : Prop :=
  a_id a' = a_id a /\ a_type a' = a_type a /\ a_auctioneer a' = a_auctioneer a /\ a_upper a' = a_upper a
  /\ a_start_price a' = a_start_price a /\ a_sell_denom a' = a_sell_denom a /\ a_sell_amt a' = a_sell_amt a
  /\ a_pay_denom a' = a_pay_denom a /\ a_scheds a' = a_scheds a /\ a_start a' = a_start a
  /\ first_end a' = first_end a /\ a_min_price a' = a_min_price a /\ a_max_round a' = a_max_round a
  /\ a_rate a' = a_rate a.
Definition bid_keys_eq (b b' : bid) : Prop :=
  b_auction b' = b_auction b /\ b_id b' = b_id b /\ b_bidder b' = b_bidder b /\ b_type b' = b_type b
  /\ b_denom b' = b_denom b.
(* every bid that can be looked up stays, under the same key, with the same bidder, type and denomination *)
Definition bids_evolve (s s' : state) : Prop :=
  forall a i b, find_bid s a i = Some b -> exists b', find_bid s' a i = Some b' /\ bid_keys_eq b b'.
(* bid keys are unique (holds in every reachable state) *)
Definition bid_keys_unique (s : state) : Prop :=
  NoDup (map (fun b => (b_auction b, b_id b)) (st_bids s)).

Definition round_bounded (a : auction) : Prop :=
  (1 <= length (a_ends a) <= N.to_nat (a_max_round a) + 1)%nat /\ (a_max_round a <= MaxExtendedRound)%N.
Definition bounded (s : state) : Prop := Forall round_bounded (st_auctions s).

(* is the last instalment of a vesting queue due and unreleased at time t *)
Definition last_due (t : Z) (vs : list vq) : bool :=
  match rev vs with v :: _ => negb (v_released v) && (v_time v <=? t) | [] => false end.

(* ------------------------------------------------------------------ small tactics *)
Ltac neqb :=
  repeat match goal with
  | H : N.eqb _ _ = true |- _ => apply N.eqb_eq in H
  | H : N.eqb _ _ = false |- _ => apply N.eqb_neq in H
  | H : andb _ _ = true |- _ => apply andb_true_iff in H; destruct H
  end.

(* ------------------------------------------------------------------ records: eta *)
Lemma with_bank_eta s : with_bank s (st_bal s) (st_xfers s) = s.
Proof. destruct s; reflexivity. Qed.
Lemma with_trace_eta s : with_trace s (st_trace s) = s.
Proof. destruct s; reflexivity. Qed.
Lemma set_id_eta a : set_id a (a_id a) = a.
Proof. destruct a; reflexivity. Qed.

(* ------------------------------------------------------------------ lists *)
Lemma find_app_single {A} (f : A -> bool) l a :
  find f (l ++ [a]) = match find f l with Some x => Some x | None => if f a then Some a else None end.
Proof. induction l as [|x l IH]; cbn [app find]; [reflexivity|]. destruct (f x); auto. Qed.

Lemma find_put (l : list auction) (a : auction) (j : N) :
  find (fun x => N.eqb (a_id x) j) (map (fun x => if N.eqb (a_id x) (a_id a) then a else x) l)
  = if N.eqb j (a_id a)
    then match find (fun x => N.eqb (a_id x) j) l with Some _ => Some a | None => None end
    else find (fun x => N.eqb (a_id x) j) l.
Proof.
  induction l as [|x l IH]; cbn [map find].
  - destruct (N.eqb j (a_id a)); reflexivity.
  - destruct (N.eqb (a_id x) (a_id a)) eqn:E1; destruct (N.eqb j (a_id a)) eqn:E2.
    + neqb. subst j. rewrite N.eqb_refl. rewrite E1, N.eqb_refl. reflexivity.
    + rewrite IH. neqb. rewrite E1.
      destruct (N.eqb (a_id a) j) eqn:E3; [neqb; congruence|reflexivity].
    + rewrite IH. neqb. subst j.
      destruct (N.eqb (a_id x) (a_id a)) eqn:E3; [neqb; congruence|reflexivity].
    + rewrite IH. destruct (N.eqb (a_id x) j); reflexivity.
Qed.

Lemma map_id_put (l : list auction) (a : auction) :
  map a_id (map (fun x => if N.eqb (a_id x) (a_id a) then a else x) l) = map a_id l.
Proof.
  induction l as [|x l IH]; cbn [map]; [reflexivity|]. rewrite IH. f_equal.
  destruct (N.eqb (a_id x) (a_id a)) eqn:E; [neqb; congruence|reflexivity].
Qed.

Lemma filter_map_keep {A} (f : A -> bool) (g : A -> A) l :
  (forall x, f x = true -> g x = x) -> (forall x, f x = false -> f (g x) = false) ->
  filter f (map g l) = filter f l.
Proof.
  intros H1 H2. induction l as [|x l IH]; cbn [map filter]; [reflexivity|].
  destruct (f x) eqn:E.
  - rewrite (H1 x E), E, IH. reflexivity.
  - rewrite (H2 x E), IH. reflexivity.
Qed.

Lemma filter_app_none {A} (f : A -> bool) l e :
  (forall x, In x e -> f x = false) -> filter f (l ++ e) = filter f l.
Proof.
  intros H. rewrite filter_app. replace (filter f e) with (@nil A); [apply app_nil_r|].
  induction e as [|x e IH]; cbn [filter]; [reflexivity|].
  rewrite (H x (or_introl eq_refl)). apply IH. intros y Hy. apply H. right; exact Hy.
Qed.

Lemma find_some_of_in (l : list auction) (a : auction) :
  NoDup (map a_id l) -> In a l -> find (fun x => N.eqb (a_id x) (a_id a)) l = Some a.
Proof.
  induction l as [|x l IH]; cbn [map find In]; intros ND HI; [contradiction|].
  inversion ND as [|? ? Hn ND']; subst. destruct HI as [->|HI].
  - rewrite N.eqb_refl. reflexivity.
  - destruct (N.eqb (a_id x) (a_id a)) eqn:E.
    + neqb. exfalso. apply Hn. rewrite E. apply in_map. exact HI.
    + apply IH; assumption.
Qed.

Lemma find_none_of_notin (l : list auction) (j : N) :
  ~ In j (map a_id l) -> find (fun x => N.eqb (a_id x) j) l = None.
Proof.
  induction l as [|x l IH]; cbn [map find In]; intros H; [reflexivity|].
  destruct (N.eqb (a_id x) j) eqn:E; [neqb; exfalso; apply H; left; exact E|].
  apply IH. intros HI. apply H. right; exact HI.
Qed.

Lemma find_auction_some s j a : find_auction s j = Some a -> In a (st_auctions s) /\ a_id a = j.
Proof.
  unfold find_auction. intros H. apply find_some in H. destruct H as [H1 H2]. neqb. auto.
Qed.

(* ------------------------------------------------------------------ slice_eq / frame: preorder *)
Lemma slice_eq_refl j s : slice_eq j s s.
Proof. split; reflexivity. Qed.
Lemma slice_eq_trans j s1 s2 s3 : slice_eq j s1 s2 -> slice_eq j s2 s3 -> slice_eq j s1 s3.
Proof.
  intros [A1 A2 A3 A4 A5 A6 A7] [B1 B2 B3 B4 B5 B6 B7]. split; first [congruence | intros r d; rewrite B7; apply A7].
Qed.
Lemma slice_eq_sym j s1 s2 : slice_eq j s1 s2 -> slice_eq j s2 s1.
Proof. intros [A1 A2 A3 A4 A5 A6 A7]. split; first [congruence | intros r d; symmetry; apply A7]. Qed.

Lemma frame_refl id s : frame id s s.
Proof. intros j _. apply slice_eq_refl. Qed.
Lemma frame_trans id s1 s2 s3 : frame id s1 s2 -> frame id s2 s3 -> frame id s1 s3.
Proof. intros H1 H2 j Hj. eapply slice_eq_trans; [apply H1|apply H2]; exact Hj. Qed.

Lemma glob_eq_refl s : glob_eq s s.
Proof. repeat split. Qed.
Lemma glob_eq_trans s1 s2 s3 : glob_eq s1 s2 -> glob_eq s2 s3 -> glob_eq s1 s3.
Proof.
  unfold glob_eq. intros (A1 & A2 & A3 & A4 & A5 & A6) (B1 & B2 & B3 & B4 & B5 & B6).
  repeat split; congruence.
Qed.

Lemma esc_keep_refl id b : esc_keep id b b.
Proof. intros r j d _. reflexivity. Qed.
Lemma esc_keep_trans id b1 b2 b3 : esc_keep id b1 b2 -> esc_keep id b2 b3 -> esc_keep id b1 b3.
Proof. intros H1 H2 r j d Hj. rewrite (H2 r j d Hj). apply H1. exact Hj. Qed.

(* ------------------------------------------------------------------ find_auction through the updates *)
Lemma find_auction_put s a j :
  find_auction (put_auction s a) j
  = if N.eqb j (a_id a) then match find_auction s j with Some _ => Some a | None => None end
    else find_auction s j.
Proof. unfold find_auction, put_auction. cbn [st_auctions with_auctions]. apply find_put. Qed.

Lemma find_auction_put_same s a a0 :
  find_auction s (a_id a) = Some a0 -> find_auction (put_auction s a) (a_id a) = Some a.
Proof. intros H. rewrite find_auction_put, N.eqb_refl, H. reflexivity. Qed.

Lemma find_auction_put_other s a j : j <> a_id a -> find_auction (put_auction s a) j = find_auction s j.
Proof. intros H. rewrite find_auction_put. apply N.eqb_neq in H. rewrite H. reflexivity. Qed.

Lemma find_auction_append s a j :
  find_auction (with_auctions s (st_auctions s ++ [a])) j
  = match find_auction s j with Some x => Some x | None => if N.eqb (a_id a) j then Some a else None end.
Proof.
  unfold find_auction. cbn [st_auctions with_auctions].
  exact (find_app_single (fun x => N.eqb (a_id x) j) (st_auctions s) a).
Qed.

Lemma ids_ok_fresh s j : ids_ok s -> (st_aseq s <= j)%N -> find_auction s j = None.
Proof.
  intros [_ H] Hj. unfold find_auction. apply find_none_of_notin. intros HI.
  apply in_map_iff in HI. destruct HI as (x & Hx & HI). rewrite Forall_forall in H. specialize (H x HI). lia.
Qed.

Lemma ids_ok_find s a : ids_ok s -> In a (st_auctions s) -> find_auction s (a_id a) = Some a.
Proof. intros [H _] HI. unfold find_auction. apply find_some_of_in; assumption. Qed.

(* ------------------------------------------------------------------ put_allowed as a list update *)
Definition put_allowed_list (l : list allowed) (a u : N) (max : Z) : list allowed :=
  let e := {| al_auction := a; al_bidder := u; al_max := max |} in
  match find (fun x => N.eqb (al_auction x) a && N.eqb (al_bidder x) u) l with
  | Some _ => map (fun x => if N.eqb (al_auction x) a && N.eqb (al_bidder x) u then e else x) l
  | None => l ++ [e]
  end.
Lemma put_allowed_eq s a u m : put_allowed s a u m = with_allowed s (put_allowed_list (st_allowed s) a u m).
Proof.
  unfold put_allowed, put_allowed_list, find_allowed.
  destruct (find (fun x => N.eqb (al_auction x) a && N.eqb (al_bidder x) u) (st_allowed s)); reflexivity.
Qed.
Lemma put_allowed_list_other l a u m j :
  j <> a -> filter (fun x => N.eqb (al_auction x) j) (put_allowed_list l a u m)
            = filter (fun x => N.eqb (al_auction x) j) l.
Proof.
  intros Hj. unfold put_allowed_list.
  destruct (find (fun x => N.eqb (al_auction x) a && N.eqb (al_bidder x) u) l).
  - apply filter_map_keep; intros x Hx.
    + destruct (N.eqb (al_auction x) a && N.eqb (al_bidder x) u) eqn:E; [|reflexivity].
      neqb. congruence.
    + destruct (N.eqb (al_auction x) a && N.eqb (al_bidder x) u) eqn:E; [|exact Hx].
      cbn [al_auction]. apply N.eqb_neq. congruence.
  - apply filter_app_none. intros x [<-|[]]. cbn [al_auction]. apply N.eqb_neq. congruence.
Qed.

(* ------------------------------------------------------------------ frame: each primitive update *)
Ltac triv_slice := intros j Hj; split; try reflexivity.

Lemma frame_with_trace id s tr : frame id s (with_trace s tr).
Proof. triv_slice. Qed.
Lemma frame_with_aseq id s n : frame id s (with_aseq s n).
Proof. triv_slice. Qed.
Lemma frame_with_now id s t : frame id s (with_now s t).
Proof. triv_slice. Qed.
Lemma frame_with_params id s p : frame id s (with_params s p).
Proof. triv_slice. Qed.
Lemma frame_with_listeners id s l : frame id s (with_listeners s l).
Proof. triv_slice. Qed.
Lemma frame_with_bank id s b xs : esc_keep id (st_bal s) b -> frame id s (with_bank s b xs).
Proof. intros H. triv_slice. intros r d. cbn [st_bal with_bank]. apply H. exact Hj. Qed.
Lemma frame_with_bseq id s n : frame id s (with_bseq s (upd (st_bseq s) id n)).
Proof.
  triv_slice. cbn [st_bseq with_bseq]. unfold upd. apply N.eqb_neq in Hj. rewrite Hj. reflexivity.
Qed.
Lemma frame_put_auction id s a : a_id a = id -> frame id s (put_auction s a).
Proof. intros <-. triv_slice. apply find_auction_put_other. exact Hj. Qed.
Lemma frame_append_auction id s l a :
  l = st_auctions s -> a_id a = id -> frame id s (with_auctions s (l ++ [a])).
Proof.
  intros -> <-. triv_slice. rewrite find_auction_append.
  destruct (find_auction s j); [reflexivity|].
  destruct (N.eqb (a_id a) j) eqn:E; [neqb; congruence|reflexivity].
Qed.
Lemma frame_append_bid id s l b : l = st_bids s -> b_auction b = id -> frame id s (with_bids s (l ++ [b])).
Proof.
  intros -> <-. triv_slice. unfold bids_of. cbn [st_bids with_bids].
  apply filter_app_none. intros x [<-|[]]. apply N.eqb_neq. congruence.
Qed.
Lemma frame_put_bid id s b : b_auction b = id -> frame id s (put_bid s b).
Proof.
  intros <-. triv_slice. unfold bids_of, put_bid. cbn [st_bids with_bids].
  apply filter_map_keep; intros x Hx.
  - destruct (N.eqb (b_auction x) (b_auction b) && N.eqb (b_id x) (b_id b)) eqn:E; [|reflexivity].
    neqb. congruence.
  - destruct (N.eqb (b_auction x) (b_auction b) && N.eqb (b_id x) (b_id b)) eqn:E; [|exact Hx].
    apply N.eqb_neq. congruence.
Qed.
Lemma frame_put_allowed id s u m : frame id s (put_allowed s id u m).
Proof.
  rewrite put_allowed_eq. triv_slice. unfold allowed_of. cbn [st_allowed with_allowed].
  apply put_allowed_list_other. exact Hj.
Qed.
Lemma frame_set_flags id s m : frame id s (set_flags s id m).
Proof.
  triv_slice.
  - unfold bids_of, set_flags. cbn [st_bids with_bids with_mlen].
    apply filter_map_keep; intros x Hx.
    + destruct (N.eqb (b_auction x) id) eqn:E; [neqb; congruence|reflexivity].
    + destruct (N.eqb (b_auction x) id) eqn:E; [|exact Hx]. exact Hx.
  - unfold set_flags. cbn [st_mlen with_mlen with_bids]. unfold upd.
    apply N.eqb_neq in Hj. rewrite Hj. reflexivity.
Qed.
Lemma frame_append_vqs id s l0 l :
  l0 = st_vqs s -> (forall v, In v l -> v_auction v = id) -> frame id s (with_vqs s (l0 ++ l)).
Proof.
  intros -> H. triv_slice. unfold vqs_of. cbn [st_vqs with_vqs].
  apply filter_app_none. intros x Hx. apply N.eqb_neq. rewrite (H x Hx). congruence.
Qed.
Lemma frame_map_vqs id s (g : vq -> vq) :
  (forall v, v_auction v <> id -> g v = v) -> (forall v, v_auction (g v) = v_auction v) ->
  frame id s (with_vqs s (map g (st_vqs s))).
Proof.
  intros H1 H2. triv_slice. unfold vqs_of. cbn [st_vqs with_vqs].
  apply filter_map_keep; intros x Hx.
  - apply H1. neqb. congruence.
  - rewrite H2. exact Hx.
Qed.

(* peel the outermost update of an explicit state term *)
Ltac frame_tac :=
  lazymatch goal with
  | |- frame _ ?s ?s => apply frame_refl
  | |- frame _ ?s (with_trace ?s1 _) => apply frame_trans with s1; [frame_tac | apply frame_with_trace]
  | |- frame _ ?s (with_aseq ?s1 _) => apply frame_trans with s1; [frame_tac | apply frame_with_aseq]
  | |- frame _ ?s (with_now ?s1 _) => apply frame_trans with s1; [frame_tac | apply frame_with_now]
  | |- frame _ ?s (with_params ?s1 _) => apply frame_trans with s1; [frame_tac | apply frame_with_params]
  | |- frame _ ?s (with_listeners ?s1 _) => apply frame_trans with s1; [frame_tac | apply frame_with_listeners]
  | |- frame _ ?s (with_bank ?s1 _ _) =>
      apply frame_trans with s1; [frame_tac | apply frame_with_bank; try assumption]
  | |- frame _ ?s (with_bseq ?s1 _) => apply frame_trans with s1; [frame_tac | apply frame_with_bseq]
  | |- frame _ ?s (put_auction ?s1 _) =>
      apply frame_trans with s1; [frame_tac | apply frame_put_auction; try reflexivity; try assumption]
  | |- frame _ ?s (with_auctions ?s1 (_ ++ [_])) =>
      apply frame_trans with s1; [frame_tac | apply frame_append_auction; [reflexivity | try reflexivity; try assumption]]
  | |- frame _ ?s (with_bids ?s1 (_ ++ [_])) =>
      apply frame_trans with s1; [frame_tac | apply frame_append_bid; [reflexivity | try reflexivity; try assumption]]
  | |- frame _ ?s (put_bid ?s1 _) =>
      apply frame_trans with s1; [frame_tac | apply frame_put_bid; try reflexivity; try assumption]
  | |- frame _ ?s (put_allowed ?s1 _ _ _) => apply frame_trans with s1; [frame_tac | apply frame_put_allowed]
  | |- frame _ ?s (set_flags ?s1 _ _) => apply frame_trans with s1; [frame_tac | apply frame_set_flags]
  | |- frame _ ?s (with_vqs ?s1 (_ ++ _)) =>
      apply frame_trans with s1; [frame_tac | apply frame_append_vqs; [reflexivity | try assumption]]
  | |- _ => try assumption
  end.

(* ------------------------------------------------------------------ glob_eq: each primitive update *)
Lemma glob_with_trace s tr : glob_eq s (with_trace s tr). Proof. repeat split. Qed.
Lemma glob_with_bank s b xs : glob_eq s (with_bank s b xs). Proof. repeat split. Qed.
Lemma glob_with_vqs s l : glob_eq s (with_vqs s l). Proof. repeat split. Qed.
Lemma glob_with_bids s l : glob_eq s (with_bids s l). Proof. repeat split. Qed.
Lemma glob_set_flags s id m : glob_eq s (set_flags s id m). Proof. repeat split. Qed.
Lemma glob_put_auction s a : glob_eq s (put_auction s a).
Proof. repeat split. unfold put_auction. cbn [st_auctions with_auctions]. apply map_id_put. Qed.

Ltac glob_tac :=
  lazymatch goal with
  | |- glob_eq ?s ?s => apply glob_eq_refl
  | |- glob_eq ?s (with_trace ?s1 _) => apply glob_eq_trans with s1; [glob_tac | apply glob_with_trace]
  | |- glob_eq ?s (with_bank ?s1 _ _) => apply glob_eq_trans with s1; [glob_tac | apply glob_with_bank]
  | |- glob_eq ?s (with_vqs ?s1 _) => apply glob_eq_trans with s1; [glob_tac | apply glob_with_vqs]
  | |- glob_eq ?s (with_bids ?s1 _) => apply glob_eq_trans with s1; [glob_tac | apply glob_with_bids]
  | |- glob_eq ?s (set_flags ?s1 _ _) => apply glob_eq_trans with s1; [glob_tac | apply glob_set_flags]
  | |- glob_eq ?s (put_auction ?s1 _) => apply glob_eq_trans with s1; [glob_tac | apply glob_put_auction]
  | |- _ => try assumption
  end.

(* ------------------------------------------------------------------ the bank and the hooks *)
Lemma addr_eqb_esc_false id r j x : addr_ok id x -> j <> id -> addr_eqb (Escrow r j) x = false.
Proof.
  intros Hx Hj. destruct x as [u|q k|]; cbn [addr_eqb]; try reflexivity.
  cbn [addr_ok] in Hx. subst k. apply N.eqb_neq in Hj. rewrite Hj. apply andb_false_r.
Qed.

Lemma move_esc_keep id b f t d a : addr_ok id f -> addr_ok id t -> esc_keep id b (move b f t d a).
Proof.
  intros Hf Ht r j d' Hj. unfold move, bal_upd.
  rewrite (addr_eqb_esc_false id r j t Ht Hj), (addr_eqb_esc_false id r j f Hf Hj). reflexivity.
Qed.

Lemma send_inv0 s f t d a s1 : send s f t d a = Ok s1 -> exists b xs, s1 = with_bank s b xs.
Proof.
  unfold send. intros H. destruct (a =? 0) eqn:E0.
  - injection H as <-. exists (st_bal s), (st_xfers s). symmetry. apply with_bank_eta.
  - destruct (a <? 0); [discriminate|]. destruct (st_bal s f d <? a); [discriminate|].
    injection H as <-. eauto.
Qed.

Lemma send_inv id s f t d a s1 :
  addr_ok id f -> addr_ok id t -> send s f t d a = Ok s1 ->
  exists b xs, s1 = with_bank s b xs /\ esc_keep id (st_bal s) b.
Proof.
  unfold send. intros Hf Ht H. destruct (a =? 0) eqn:E0.
  - injection H as <-. exists (st_bal s), (st_xfers s). split; [symmetry; apply with_bank_eta|apply esc_keep_refl].
  - destruct (a <? 0); [discriminate|]. destruct (st_bal s f d <? a); [discriminate|].
    injection H as <-. do 2 eexists. split; [reflexivity|]. apply move_esc_keep; assumption.
Qed.

Lemma with_bank_twice s b xs b' xs' : with_bank (with_bank s b xs) b' xs' = with_bank s b' xs'.
Proof. reflexivity. Qed.

Lemma send_coins_inv id f t cs : addr_ok id f -> addr_ok id t -> forall s s1,
  send_coins s f t cs = Ok s1 -> exists b xs, s1 = with_bank s b xs /\ esc_keep id (st_bal s) b.
Proof.
  intros Hf Ht. induction cs as [|[d a] cs IH]; cbn [send_coins]; intros s s1 H.
  - injection H as <-. exists (st_bal s), (st_xfers s). split; [symmetry; apply with_bank_eta|apply esc_keep_refl].
  - destruct (send s f t d a) as [s2|] eqn:E; cbn [bind] in H; [|discriminate].
    apply (send_inv id) in E; [|assumption|assumption]. destruct E as (b & xs & -> & K).
    apply IH in H. destruct H as (b' & xs' & -> & K').
    exists b', xs'. split; [reflexivity|]. eapply esc_keep_trans; [exact K|exact K'].
Qed.

Lemma fund_pool_inv id s u cs s1 :
  fund_pool s u cs = Ok s1 -> exists b xs, s1 = with_bank s b xs /\ esc_keep id (st_bal s) b.
Proof. unfold fund_pool. apply send_coins_inv; exact I. Qed.

Lemma pay_out_inv id from d f us : addr_ok id from -> forall s s1,
  pay_out s from d us f = Ok s1 -> exists b xs, s1 = with_bank s b xs /\ esc_keep id (st_bal s) b.
Proof.
  intros Hf. induction us as [|u us IH]; cbn [pay_out]; intros s s1 H.
  - injection H as <-. exists (st_bal s), (st_xfers s). split; [symmetry; apply with_bank_eta|apply esc_keep_refl].
  - destruct (f u =? 0); [apply IH; exact H|].
    destruct (send s from (User u) d (f u)) as [s2|] eqn:E; cbn [bind] in H; [|discriminate].
    apply (send_inv id) in E; [|assumption|exact I]. destruct E as (b & xs & -> & K).
    apply IH in H. destruct H as (b' & xs' & -> & K').
    exists b', xs'. split; [reflexivity|]. eapply esc_keep_trans; [exact K|exact K'].
Qed.

Lemma call_hook_inv s k args s1 : call_hook s k args = Ok s1 -> exists tr, s1 = with_trace s tr.
Proof.
  unfold call_hook. destruct (dispatch (st_listeners s) 0%N k args) as [ok cs].
  destruct ok; [|discriminate]. intros H. injection H as <-. eauto.
Qed.

(* ------------------------------------------------------------------ ids_ok depends on two fields only *)
Lemma ids_ok_same s s' :
  map a_id (st_auctions s') = map a_id (st_auctions s) -> st_aseq s' = st_aseq s -> ids_ok s -> ids_ok s'.
Proof.
  unfold ids_ok. intros H1 H2 [N1 F1]. rewrite H1, H2. split; [exact N1|].
  rewrite Forall_forall in *. intros x Hx.
  assert (HI : In (a_id x) (map a_id (st_auctions s))) by (rewrite <- H1; apply in_map; exact Hx).
  apply in_map_iff in HI. destruct HI as (y & Hy & HI). rewrite <- Hy. apply F1. exact HI.
Qed.

Lemma NoDup_snoc {A} (l : list A) x : NoDup l -> ~ In x l -> NoDup (l ++ [x]).
Proof.
  induction l as [|y l IH]; cbn [app]; intros ND HI.
  - constructor; [intros []|constructor].
  - inversion ND as [|? ? Hn ND']; subst. constructor.
    + intros H. apply in_app_or in H. destruct H as [H|[H|[]]]; [contradiction|].
      apply HI. left. symmetry. exact H.
    + apply IH; [exact ND'|]. intros H. apply HI. right. exact H.
Qed.

Lemma ids_ok_create s s' a :
  st_auctions s' = st_auctions s ++ [a] -> a_id a = st_aseq s -> st_aseq s' = (st_aseq s + 1)%N ->
  ids_ok s -> ids_ok s'.
Proof.
  unfold ids_ok. intros H1 H2 H3 [N1 F1]. rewrite H1, H3. split.
  - rewrite map_app. cbn [map]. apply NoDup_snoc; [exact N1|].
    intros HI. apply in_map_iff in HI. destruct HI as (y & Hy & HI).
    rewrite Forall_forall in F1. specialize (F1 y HI). lia.
  - apply Forall_app. split.
    + eapply Forall_impl; [|exact F1]. cbn beta. intros x Hx. lia.
    + constructor; [lia|constructor].
Qed.

(* ------------------------------------------------------------------ more frame lemmas *)
Lemma frame_with_allowed id s al :
  (forall j, j <> id -> filter (fun x => N.eqb (al_auction x) j) al
                        = filter (fun x => N.eqb (al_auction x) j) (st_allowed s)) ->
  frame id s (with_allowed s al).
Proof. intros H. triv_slice. unfold allowed_of. cbn [st_allowed with_allowed]. apply H. exact Hj. Qed.

(* find_auction only looks at st_auctions *)
Lemma find_auction_conv s s' j : st_auctions s' = st_auctions s -> find_auction s' j = find_auction s j.
Proof. unfold find_auction. intros ->. reflexivity. Qed.
Lemma find_auction_conv_app s s' a j :
  st_auctions s' = st_auctions s ++ [a] ->
  find_auction s' j = match find_auction s j with Some x => Some x | None => if N.eqb (a_id a) j then Some a else None end.
Proof. intros H. rewrite <- find_auction_append. apply find_auction_conv. exact H. Qed.
Lemma find_auction_conv_put s s' a j :
  st_auctions s' = st_auctions (put_auction s a) ->
  find_auction s' j = if N.eqb j (a_id a) then match find_auction s j with Some _ => Some a | None => None end
                      else find_auction s j.
Proof. intros H. rewrite <- find_auction_put. apply find_auction_conv. exact H. Qed.

(* bids_evolve *)
Lemma bid_keys_eq_refl b : bid_keys_eq b b.
Proof. repeat split. Qed.
Lemma bid_keys_eq_trans b1 b2 b3 : bid_keys_eq b1 b2 -> bid_keys_eq b2 b3 -> bid_keys_eq b1 b3.
Proof. intros (A1 & A2 & A3 & A4 & A5) (B1 & B2 & B3 & B4 & B5). repeat split; congruence. Qed.
Lemma bids_evolve_same s s' : st_bids s' = st_bids s -> bids_evolve s s'.
Proof.
  intros H a i b F. exists b. split; [|apply bid_keys_eq_refl]. unfold find_bid in *. rewrite H. exact F.
Qed.
Lemma bids_evolve_trans s1 s2 s3 : bids_evolve s1 s2 -> bids_evolve s2 s3 -> bids_evolve s1 s3.
Proof.
  intros H1 H2 a i b F. destruct (H1 a i b F) as (b' & F' & K'). destruct (H2 a i b' F') as (b'' & F'' & K'').
  exists b''. split; [exact F''|]. eapply bid_keys_eq_trans; eassumption.
Qed.
Lemma find_app_some {A} (f : A -> bool) l e x : find f l = Some x -> find f (l ++ e) = Some x.
Proof. induction l as [|y l IH]; cbn [app find]; [discriminate|]. destruct (f y); auto. Qed.
Lemma bids_evolve_app s s' e : st_bids s' = st_bids s ++ e -> bids_evolve s s'.
Proof.
  intros H a i b F. exists b. split; [|apply bid_keys_eq_refl]. unfold find_bid in *. rewrite H.
  apply find_app_some. exact F.
Qed.
Lemma find_map_keep {A} (f : A -> bool) (g : A -> A) l :
  (forall x, f (g x) = f x) -> find f (map g l) = option_map g (find f l).
Proof.
  intros H. induction l as [|x l IH]; cbn [map find]; [reflexivity|]. rewrite H.
  destruct (f x); [reflexivity|exact IH].
Qed.
Lemma bids_evolve_map s s' g :
  st_bids s' = map g (st_bids s) -> (forall b, bid_keys_eq b (g b)) -> bids_evolve s s'.
Proof.
  intros H K a i b F. exists (g b). split; [|apply K]. unfold find_bid in *. rewrite H.
  rewrite find_map_keep; [rewrite F; reflexivity|].
  intros x. destruct (K x) as (A1 & A2 & _). rewrite A1, A2. reflexivity.
Qed.
Lemma find_replace_same {A} (p q : A -> bool) (b : A) l :
  p b = true -> (forall x, q x = p x) ->
  find p (map (fun x => if q x then b else x) l) = match find p l with Some _ => Some b | None => None end.
Proof.
  intros Hb Hq. induction l as [|x l IH]; cbn [map find]; [reflexivity|].
  rewrite Hq. destruct (p x) eqn:E; [rewrite Hb; reflexivity|rewrite E; exact IH].
Qed.
Lemma find_replace_other {A} (p q : A -> bool) (b : A) l :
  p b = false -> (forall x, q x = true -> p x = false) ->
  find p (map (fun x => if q x then b else x) l) = find p l.
Proof.
  intros Hb Hq. induction l as [|x l IH]; cbn [map find]; [reflexivity|].
  destruct (q x) eqn:E; [rewrite Hb, (Hq x E); exact IH|]. destruct (p x); [reflexivity|exact IH].
Qed.
Lemma find_put_bid (l : list bid) (b : bid) (a i : N) :
  find (fun x => N.eqb (b_auction x) a && N.eqb (b_id x) i)
       (map (fun x => if N.eqb (b_auction x) (b_auction b) && N.eqb (b_id x) (b_id b) then b else x) l)
  = if N.eqb a (b_auction b) && N.eqb i (b_id b)
    then match find (fun x => N.eqb (b_auction x) a && N.eqb (b_id x) i) l with Some _ => Some b | None => None end
    else find (fun x => N.eqb (b_auction x) a && N.eqb (b_id x) i) l.
Proof.
  destruct (N.eqb a (b_auction b) && N.eqb i (b_id b)) eqn:E.
  - apply andb_true_iff in E. destruct E as [Ea Ei]. apply N.eqb_eq in Ea, Ei. subst a i.
    apply (find_replace_same (fun x => N.eqb (b_auction x) (b_auction b) && N.eqb (b_id x) (b_id b))).
    + rewrite !N.eqb_refl. reflexivity.
    + intros x. reflexivity.
  - apply (find_replace_other (fun x => N.eqb (b_auction x) a && N.eqb (b_id x) i)).
    + rewrite (N.eqb_sym (b_auction b)), (N.eqb_sym (b_id b)). exact E.
    + intros x Hx. apply andb_true_iff in Hx. destruct Hx as [Ha Hi]. apply N.eqb_eq in Ha, Hi.
      rewrite Ha, Hi, (N.eqb_sym (b_auction b)), (N.eqb_sym (b_id b)). exact E.
Qed.
Lemma bids_evolve_put_bid s s' b0 b :
  st_bids s' = st_bids (put_bid s b) -> find_bid s (b_auction b) (b_id b) = Some b0 -> bid_keys_eq b0 b ->
  bids_evolve s s'.
Proof.
  intros H F0 K a i x F. unfold find_bid in *. rewrite H. unfold put_bid. cbn [st_bids with_bids].
  rewrite find_put_bid. destruct (N.eqb a (b_auction b) && N.eqb i (b_id b)) eqn:E.
  - apply andb_true_iff in E. destruct E as [Ea Ei]. apply N.eqb_eq in Ea, Ei. subst a i.
    rewrite F. exists b. split; [reflexivity|]. congruence.
  - exists x. split; [exact F|apply bid_keys_eq_refl].
Qed.
Lemma find_of_in_unique (l : list bid) (b : bid) :
  NoDup (map (fun b => (b_auction b, b_id b)) l) -> In b l ->
  find (fun x => N.eqb (b_auction x) (b_auction b) && N.eqb (b_id x) (b_id b)) l = Some b.
Proof.
  induction l as [|x l IH]; cbn [map find In]; intros ND HI; [contradiction|].
  inversion ND as [|? ? Hn ND']; subst. destruct HI as [->|HI].
  - rewrite !N.eqb_refl. reflexivity.
  - destruct (N.eqb (b_auction x) (b_auction b) && N.eqb (b_id x) (b_id b)) eqn:E.
    + apply andb_true_iff in E. destruct E as [Ea Ei]. apply N.eqb_eq in Ea, Ei.
      exfalso. apply Hn. apply in_map_iff. exists b. split; [|exact HI]. congruence.
    + apply IH; assumption.
Qed.
Lemma bids_evolve_in s s' b :
  bid_keys_unique s -> bids_evolve s s' -> In b (st_bids s) ->
  exists b', In b' (st_bids s') /\ bid_keys_eq b b'.
Proof.
  intros U H HI. destruct (H (b_auction b) (b_id b) b) as (b' & F & K).
  - unfold find_bid. apply find_of_in_unique; assumption.
  - exists b'. split; [|exact K]. unfold find_bid in F. apply find_some in F. apply F.
Qed.

Ltac frame_tac2 :=
  lazymatch goal with
  | |- frame _ ?s (with_allowed ?s1 _) =>
      apply frame_trans with s1; [frame_tac2 | apply frame_with_allowed; try assumption]
  | |- _ => frame_tac
  end.
