(* Block processing: every due auction is processed successfully (C07, liveness) and the escrow invariant
   J8 / the remainder invariant J6 survive (C01, C06). *)
From Coq Require Import ZArith NArith List Bool Arith Lia.
From FR Require Import Dec Types Bank Match Step Genesis Model Spec.
From FR.Proofs Require Import InvDefs FrameFacts TxFacts BlockFacts InvStaticBase.
From FR.Proofs Require PrecondBase DecFacts MatchBase MatchDemand MatchBatch MatchConseq VestingFacts.
From FR.Proofs Require Import EscrowBase EscrowTx.
Import ListNotations.
Open Scope Z_scope.

(* ------------------------------------------------------------------ sums by bidder *)
Lemma sum_ind_nodup (U : list N) (v : N) (c : Z) :
  NoDup U -> In v U -> sumZ (map (fun u => if N.eqb u v then c else 0) U) = c.
Proof.
  induction U as [|x r IH]; intros Hnd Hin; [contradiction|]. cbn [map]. rewrite sumZ_cons.
  inversion Hnd as [|? ? Hnot Hnd']; subst. destruct Hin as [->|Hin].
  - rewrite N.eqb_refl.
    assert (H0 : sumZ (map (fun u => if N.eqb u v then c else 0) r) = 0).
    { clear IH Hnd Hnd'. induction r as [|y r' IH']; [reflexivity|]. cbn [map]. rewrite sumZ_cons.
      destruct (N.eqb y v) eqn:E; [apply N.eqb_eq in E; subst; exfalso; apply Hnot; now left|].
      rewrite IH'; [lia|]. intros Hc. apply Hnot. now right. }
    lia.
  - destruct (N.eqb x v) eqn:E; [apply N.eqb_eq in E; subst; contradiction|]. rewrite IH by assumption. lia.
Qed.

Lemma sumZ_map_add {A} (f g : A -> Z) l : sumZ (map (fun x => f x + g x) l) = sumZ (map f l) + sumZ (map g l).
Proof. induction l as [|x r IH]; cbn [map]; rewrite ?sumZ_cons; [reflexivity|]. rewrite IH. lia. Qed.
Lemma sumZ_map_ext {A} (f g : A -> Z) l : (forall x, In x l -> f x = g x) -> sumZ (map f l) = sumZ (map g l).
Proof.
  induction l as [|x r IH]; intros H; cbn [map]; rewrite ?sumZ_cons; [reflexivity|].
  rewrite (H x (or_introl eq_refl)), IH; [reflexivity|]. intros y Hy. apply H. now right.
Qed.

Lemma sumZ_le_pointwise {A} (f g : A -> Z) l : (forall x, In x l -> f x <= g x) -> sumZ (map f l) <= sumZ (map g l).
Proof.
  induction l as [|x r IH]; intros H; cbn [map]; rewrite ?sumZ_cons; [reflexivity|].
  specialize (IH (fun y Hy => H y (or_intror Hy))). specialize (H x (or_introl eq_refl)). lia.
Qed.

Lemma sum_by_bidder_gen (f : bid -> Z) (U : list N) : forall bs,
  NoDup U -> (forall b, In b bs -> In (b_bidder b) U) ->
  sumZ (map (fun u => sumZ (map f (filter (fun b => N.eqb (b_bidder b) u) bs))) U) = sumZ (map f bs).
Proof.
  induction bs as [|b r IH]; intros Hnd Hin.
  - cbn [filter map]. clear. induction U as [|x U IH]; cbn [map]; rewrite ?sumZ_cons; [reflexivity|]. rewrite IH. reflexivity.
  - cbn [map]. rewrite sumZ_cons.
    rewrite (sumZ_map_ext _ (fun u => (if N.eqb u (b_bidder b) then f b else 0)
                                      + sumZ (map f (filter (fun b0 => N.eqb (b_bidder b0) u) r))) U).
    + rewrite sumZ_map_add, IH; [|assumption|intros x Hx; apply Hin; now right].
      rewrite sum_ind_nodup; [reflexivity|assumption|apply Hin; now left].
    + intros u _. cbn [filter]. rewrite (N.eqb_sym u). destruct (N.eqb (b_bidder b) u); cbn [map]; rewrite ?sumZ_cons; lia.
Qed.

Lemma sum_by_bidder (f : bid -> Z) bs :
  sumZ (map (fun u => sumZ (map f (filter (fun b => N.eqb (b_bidder b) u) bs))) (bidders_of bs)) = sumZ (map f bs).
Proof.
  apply sum_by_bidder_gen; [apply MatchBase.bidders_of_nodup|].
  intros b Hb. apply MatchBase.bidders_of_in. eauto.
Qed.

(* ------------------------------------------------------------------ flags do not matter for amounts *)
Lemma bids_of_set_flags_map (f : bid -> Z) s id m j :
  (forall b x, f (set_b_matched b x) = f b) ->
  map f (bids_of (set_flags s id m) j) = map f (bids_of s j).
Proof.
  intros Hf. unfold bids_of, set_flags. cbn [st_bids with_mlen with_bids].
  induction (st_bids s) as [|b r IH]; [reflexivity|]. cbn [map filter].
  destruct (N.eqb (b_auction b) id) eqn:E.
  - cbn [b_auction set_b_matched]. destruct (N.eqb (b_auction b) j); [cbn [map]; rewrite Hf; f_equal; exact IH|exact IH].
  - destruct (N.eqb (b_auction b) j); [cbn [map]; f_equal; exact IH|exact IH].
Qed.

Lemma set_flags_fields s id m :
  st_auctions (set_flags s id m) = st_auctions s /\ st_vqs (set_flags s id m) = st_vqs s
  /\ st_bal (set_flags s id m) = st_bal s /\ st_listeners (set_flags s id m) = st_listeners s
  /\ st_allowed (set_flags s id m) = st_allowed s /\ st_params (set_flags s id m) = st_params s.
Proof. repeat split. Qed.

(* ------------------------------------------------------------------ settlement: allocate, return unsold, refund, vest *)
Definition settle_gen (s : state) (a : auction) (mi : minfo) (wr : bool) : res state :=
  do s <- allocate s a mi wr;
  do s <- refund_selling s a;
  do s <- (if wr then pay_out s (Escrow Paying (a_id a)) (a_pay_denom a) (mi_bidders mi) (mi_refund mi) else Ok s);
  apply_vesting s a.

Lemma close_fixed_gen s a : close_fixed s a = settle_gen s a (calc_fixed a (bids_of s (a_id a))) false.
Proof. unfold close_fixed, settle_gen. reflexivity. Qed.
Lemma settle_batch_gen s a mi : settle_batch s a mi = settle_gen s a mi true.
Proof. reflexivity. Qed.

Lemma addr_eq_dec_selling (x : addr) id : {x = Escrow Selling id} + {x <> Escrow Selling id}.
Proof. destruct (addr_eqb x (Escrow Selling id)) eqn:E; [left; now apply addr_eqb_eq|right; now apply addr_eqb_neq]. Qed.
Lemma addr_eq_dec_paying (x : addr) id : {x = Escrow Paying id} + {x <> Escrow Paying id}.
Proof. destruct (addr_eqb x (Escrow Paying id)) eqn:E; [left; now apply addr_eqb_eq|right; now apply addr_eqb_neq]. Qed.

Lemma no_user_esc r id : forall x, Escrow r id <> User x. Proof. intros x; discriminate. Qed.

(* what a successful settlement leaves behind, for the auction's own three escrow accounts *)
Record settled_facts (s s' : state) (a : auction) : Prop := {
  sf_bal_ok : bal_ok s';
  sf_selling : st_bal s' (Escrow Selling (a_id a)) (a_sell_denom a) = 0;
  sf_paying : st_bal s' (Escrow Paying (a_id a)) (a_pay_denom a) = 0;
  sf_bids : st_bids s' = st_bids s;
  sf_vqs : exists R, 0 <= R /\
      st_vqs s' = st_vqs s ++ (match a_scheds a with [] => [] | vs => split a R R vs end) /\
      (a_scheds a <> [] ->
         st_bal s' (Escrow Vesting (a_id a)) (a_pay_denom a) = st_bal s (Escrow Vesting (a_id a)) (a_pay_denom a) + R)
}.

Lemma settle_gen_ok s a mi wr :
  bal_ok s -> no_veto s H_BeforeAllocated = true ->
  (forall u, In u (mi_bidders mi) -> 0 <= mi_alloc mi u) ->
  total_of (mi_bidders mi) (mi_alloc mi) <= st_bal s (Escrow Selling (a_id a)) (a_sell_denom a) ->
  (wr = true -> (forall u, In u (mi_bidders mi) -> 0 <= mi_refund mi u) /\
                total_of (mi_bidders mi) (mi_refund mi) <= st_bal s (Escrow Paying (a_id a)) (a_pay_denom a)) ->
  exists s', settle_gen s a mi wr = Ok s' /\ settled_facts s s' a.
Proof.
  intros Hb Hnv Hapos Hatot Hr. unfold settle_gen, allocate. cbv zeta.
  (* hook *)
  destruct (PrecondBase.call_hook_ok_intro s H_BeforeAllocated
              (zN (a_id a) :: enc_map (mi_bidders mi) (mi_alloc mi) ++
               (if wr then enc_map (mi_bidders mi) (mi_refund mi) else [0])) Hnv) as [cs Hh].
  rewrite Hh. cbn [bind]. set (s0 := with_trace s (st_trace s ++ cs)).
  assert (Hb0 : bal_ok s0) by (intros x d; apply Hb).
  (* allocation *)
  destruct (pay_out_ok (mi_bidders mi) s0 (Escrow Selling (a_id a)) (a_sell_denom a) (mi_alloc mi)
              (no_user_esc _ _) Hapos Hatot) as (s1 & H1 & B1 & G1 & K1 & D1 & (b1 & xs1 & S1)).
  rewrite H1. cbn [bind].
  assert (Hb1 : bal_ok s1).
  { intros x d. destruct (addr_eq_dec_selling x (a_id a)) as [->|Hx].
    - destruct (N.eq_dec d (a_sell_denom a)) as [->|Hd].
      + rewrite B1. change (st_bal s0) with (st_bal s). lia.
      + rewrite D1 by assumption. apply Hb0.
    - specialize (G1 x d Hx). specialize (Hb0 x d). lia. }
  (* unsold coins back to the auctioneer *)
  unfold refund_selling.
  destruct (send_succeeds s1 (Escrow Selling (a_id a)) (User (a_auctioneer a)) (a_sell_denom a)
              (st_bal s1 (Escrow Selling (a_id a)) (a_sell_denom a)) (Hb1 _ _) (Z.le_refl _)) as [s2 H2].
  rewrite H2. cbn [bind].
  destruct (send_ok _ _ _ _ _ _ H2) as (_ & _ & Hbal2 & b2 & xs2 & S2).
  assert (Hb2 : bal_ok s2) by (eapply send_bal_ok; eassumption).
  assert (Hsell2 : st_bal s2 (Escrow Selling (a_id a)) (a_sell_denom a) = 0).
  { rewrite Hbal2, addr_eqb_refl, N.eqb_refl. cbn. lia. }
  assert (Hpay2 : forall d, st_bal s2 (Escrow Paying (a_id a)) d = st_bal s (Escrow Paying (a_id a)) d).
  { intros d. rewrite Hbal2. cbn [addr_eqb role_eqb andb ind]. rewrite K1; [|intros u; discriminate|discriminate]. change (st_bal s0) with (st_bal s). lia. }
  assert (Hvest2 : forall d, st_bal s2 (Escrow Vesting (a_id a)) d = st_bal s (Escrow Vesting (a_id a)) d).
  { intros d. rewrite Hbal2. cbn [addr_eqb role_eqb andb ind]. rewrite K1; [|intros u; discriminate|discriminate]. change (st_bal s0) with (st_bal s). lia. }
  (* refunds *)
  assert (Hs3 : exists s3, (if wr then pay_out s2 (Escrow Paying (a_id a)) (a_pay_denom a) (mi_bidders mi) (mi_refund mi) else Ok s2) = Ok s3
                /\ bal_ok s3 /\ st_bal s3 (Escrow Selling (a_id a)) (a_sell_denom a) = 0
                /\ (forall d, st_bal s3 (Escrow Vesting (a_id a)) d = st_bal s (Escrow Vesting (a_id a)) d)
                /\ exists b xs, s3 = with_bank s2 b xs).
  { destruct wr.
    - destruct (Hr eq_refl) as [Hrpos Hrtot].
      destruct (pay_out_ok (mi_bidders mi) s2 (Escrow Paying (a_id a)) (a_pay_denom a) (mi_refund mi)
                  (no_user_esc _ _) Hrpos) as (s3 & H3 & B3 & G3 & K3 & D3 & E3).
      { rewrite Hpay2. exact Hrtot. }
      exists s3. split; [exact H3|]. split.
      + intros x d. destruct (addr_eq_dec_paying x (a_id a)) as [->|Hx].
        * destruct (N.eq_dec d (a_pay_denom a)) as [->|Hd].
          -- rewrite B3, Hpay2. lia.
          -- rewrite D3 by assumption. apply Hb2.
        * specialize (G3 x d Hx). specialize (Hb2 x d). lia.
      + split; [rewrite K3; [exact Hsell2|intros u; discriminate|discriminate]|].
        split; [intros d; rewrite K3; [apply Hvest2|intros u; discriminate|discriminate]|exact E3].
    - exists s2. split; [reflexivity|]. repeat split; auto. exists (st_bal s2), (st_xfers s2). destruct s2; reflexivity. }
  destruct Hs3 as (s3 & H3 & Hb3 & Hsell3 & Hvest3 & b3 & xs3 & S3). rewrite H3. cbn [bind].
  (* proceeds *)
  unfold apply_vesting. cbv zeta. set (R := st_bal s3 (Escrow Paying (a_id a)) (a_pay_denom a)).
  assert (HR : 0 <= R) by apply Hb3.
  assert (Hbids3 : st_bids s3 = st_bids s) by (subst s3 s2 s1 s0; reflexivity).
  assert (Hvqs3 : st_vqs s3 = st_vqs s) by (subst s3 s2 s1 s0; reflexivity).
  destruct (a_scheds a) as [|v vs] eqn:Esch.
  - destruct (send_succeeds s3 (Escrow Paying (a_id a)) (User (a_auctioneer a)) (a_pay_denom a) R HR (Z.le_refl _)) as [s4 H4].
    rewrite H4. cbn [bind]. eexists. split; [reflexivity|].
    destruct (send_ok _ _ _ _ _ _ H4) as (_ & _ & Hbal4 & b4 & xs4 & S4).
    assert (Hb4 : bal_ok s4) by (eapply send_bal_ok; eassumption).
    split.
    + intros x d. cbn. apply Hb4.
    + cbn [st_bal put_auction with_auctions]. rewrite Hbal4. cbn. rewrite Hsell3. lia.
    + cbn [st_bal put_auction with_auctions]. rewrite Hbal4, addr_eqb_refl, N.eqb_refl. cbn. fold R. lia.
    + cbn. subst s4. exact Hbids3.
    + exists R. split; [exact HR|]. split; [rewrite Esch; cbn [st_vqs put_auction with_auctions]; subst s4; cbn [st_vqs with_bank]; rewrite Hvqs3; symmetry; apply app_nil_r|]. intros Hc. rewrite Esch in Hc. now contradiction Hc.
  - destruct (send_succeeds s3 (Escrow Paying (a_id a)) (Escrow Vesting (a_id a)) (a_pay_denom a) R HR (Z.le_refl _)) as [s4 H4].
    rewrite H4. cbn [bind]. eexists. split; [reflexivity|].
    destruct (send_ok _ _ _ _ _ _ H4) as (_ & _ & Hbal4 & b4 & xs4 & S4).
    assert (Hb4 : bal_ok s4) by (eapply send_bal_ok; eassumption).
    split.
    + intros x d. cbn. apply Hb4.
    + cbn [st_bal put_auction with_auctions with_vqs]. rewrite Hbal4. cbn. rewrite Hsell3. lia.
    + cbn [st_bal put_auction with_auctions with_vqs]. rewrite Hbal4, addr_eqb_refl, N.eqb_refl. cbn. fold R. lia.
    + cbn. subst s4. exact Hbids3.
    + exists R. split; [exact HR|]. split.
      * rewrite Esch. cbn [st_vqs put_auction with_auctions with_vqs]. subst s4. cbn [st_vqs with_bank]. rewrite Hvqs3. reflexivity.
      * intros _. cbn [st_bal put_auction with_auctions with_vqs]. rewrite Hbal4. cbn. rewrite Hvest3. rewrite ?N.eqb_refl. cbn [andb ind]. rewrite ?N.eqb_refl. cbn [andb ind]. lia.
Qed.

(* ------------------------------------------------------------------ what Inv says about one auction's book *)
Lemma InvStaticBase_find_wf s a : Inv s -> find_auction s (a_id a) = Some a -> auction_wf a.
Proof.
  intros I F. apply PrecondBase.find_auction_id in F. destruct F as [_ Hin].
  pose proof (inv_auctions _ I) as H. unfold auctions_wf in H. rewrite Forall_forall in H. now apply H.
Qed.

Lemma in_bids_of s id b : In b (bids_of s id) <-> In b (st_bids s) /\ b_auction b = id.
Proof. unfold bids_of. rewrite filter_In, N.eqb_eq. reflexivity. Qed.
Lemma in_allowed_of s id x : In x (allowed_of s id) <-> In x (st_allowed s) /\ al_auction x = id.
Proof. unfold allowed_of. rewrite filter_In, N.eqb_eq. reflexivity. Qed.
Lemma in_vqs_of s id v : In v (vqs_of s id) <-> In v (st_vqs s) /\ v_auction v = id.
Proof. unfold vqs_of. rewrite filter_In, N.eqb_eq. reflexivity. Qed.

Lemma NoDup_map_filter_pair (l : list allowed) id :
  NoDup (map (fun x => (al_auction x, al_bidder x)) l) ->
  NoDup (map al_bidder (filter (fun x => N.eqb (al_auction x) id) l)).
Proof.
  induction l as [|x r IH]; intros H; cbn [filter map]; [constructor|].
  cbn [map] in H. inversion H as [|? ? Hnot Hnd]; subst.
  destruct (N.eqb (al_auction x) id) eqn:E; [|apply IH; exact Hnd].
  cbn [map]. constructor; [|apply IH; exact Hnd].
  intros Hin. apply in_map_iff in Hin. destruct Hin as [y [Ey Hy]]. apply filter_In in Hy. destruct Hy as [Hy Ea].
  apply Hnot. apply in_map_iff. exists y. split; [|exact Hy].
  apply N.eqb_eq in E, Ea. now rewrite Ey, Ea, E.
Qed.

Lemma Inv_book_wf s id : Inv s -> MatchDemand.book_wf (bids_of s id) (allowed_of s id).
Proof.
  intros I. destruct (inv_bids _ I) as [Hbw _]. rewrite Forall_forall in Hbw.
  destruct (inv_allowed _ I) as [Hpos Hnd]. rewrite Forall_forall in Hpos.
  split.
  - intros b Hb. apply in_bids_of in Hb. apply (bwf_price _ _ (Hbw b (proj1 Hb))).
  - intros b Hb. apply in_bids_of in Hb. apply (bwf_amt _ _ (Hbw b (proj1 Hb))).
  - intros b Hb. apply in_bids_of in Hb. destruct Hb as [Hb Ha].
    pose proof (inv_bids_allowed _ I b Hb) as Hal. rewrite Ha in Hal.
    destruct (find_allowed s id (b_bidder b)) as [x|] eqn:F; [|congruence].
    unfold find_allowed in F. apply find_some in F. destruct F as [Hin Hk].
    apply andb_true_iff in Hk. destruct Hk as [K1 K2]. apply N.eqb_eq in K1, K2.
    exists x. split; [apply in_allowed_of; now split|exact K2].
  - unfold allowed_of. apply NoDup_map_filter_pair. exact Hnd.
  - intros x Hx. apply in_allowed_of in Hx. apply Hpos. apply Hx.
Qed.

Lemma Inv_denoms_wf s a : Inv s -> find_auction s (a_id a) = Some a -> a_type a = Batch ->
  MatchConseq.denoms_wf (a_pay_denom a) (bids_of s (a_id a)).
Proof.
  intros I Fa Hty b Hb. apply in_bids_of in Hb. destruct Hb as [Hb Ha].
  destruct (inv_bids _ I) as [Hbw _]. rewrite Forall_forall in Hbw.
  destruct (bwf_auction _ _ (Hbw b Hb)) as (a0 & Fa0 & Hm & _). rewrite Ha, Fa in Fa0. injection Fa0 as <-.
  rewrite Hty in Hm. destruct Hm as [[[Ht Hd]|[Ht Hd]] _]; [left; now split|right; split; [exact Ht|]].
  rewrite Hd. apply (awf_denoms _ (InvStaticBase_find_wf s a I Fa)).
Qed.

(* ------------------------------------------------------------------ updates that move no coins *)
Lemma flags_escrow s id m :
  escrow_inv s -> remaining_inv s -> escrow_inv (set_flags s id m) /\ remaining_inv (set_flags s id m).
Proof.
  intros [B E] R. split.
  - split; [exact B|]. intros r j d. specialize (E r j d). unfold owed in *.
    change (find_auction (set_flags s id m) j) with (find_auction s j).
    change (vqs_of (set_flags s id m) j) with (vqs_of s j).
    change (st_bal (set_flags s id m)) with (st_bal s).
    destruct (find_auction s j) as [a|]; [|exact E]. destruct r; try exact E.
    rewrite (bids_of_set_flags_map (pay_amount (a_pay_denom a)) s id m j); [exact E|reflexivity].
  - intros a Hin Hty. specialize (R a Hin Hty).
    rewrite (bids_of_set_flags_map (sell_amount (a_pay_denom a)) s id m (a_id a)); [exact R|reflexivity].
Qed.

Lemma put_auction_escrow s a a' :
  escrow_inv s -> remaining_inv s -> NoDup (map a_id (st_auctions s)) ->
  find_auction s (a_id a) = Some a -> a_id a' = a_id a ->
  a_sell_denom a' = a_sell_denom a -> a_sell_amt a' = a_sell_amt a -> a_pay_denom a' = a_pay_denom a ->
  a_type a' = a_type a -> a_remaining a' = a_remaining a ->
  (is_open (a_status a') = true -> is_open (a_status a) = true) ->
  (a_status a' = Started -> a_status a = Started \/ bids_of s (a_id a) = []) ->
  (a_status a' = VestingS -> a_status a = VestingS) ->
  (a_status a' = Cancelled -> a_status a = Cancelled) ->
  (a_status a = Cancelled -> a_status a' = Cancelled) ->
  escrow_inv (put_auction s a') /\ remaining_inv (put_auction s a').
Proof.
  intros [B E] R Hnd Fa Hid Hsd Hsa Hpd Hty Hrem Hopen Hstart Hvest Hcan Hcan'.
  assert (F' : find_auction (put_auction s a') (a_id a) = Some a').
  { rewrite <- Hid. apply (find_auction_put_same s a' a). now rewrite Hid. }
  split.
  - split; [exact B|]. intros r j d. change (st_bal (put_auction s a')) with (st_bal s).
    destruct (N.eq_dec j (a_id a)) as [->|Hj].
    + specialize (E r (a_id a) d). unfold owed in *. rewrite F'. rewrite Fa in E.
      change (bids_of (put_auction s a') (a_id a)) with (bids_of s (a_id a)).
      change (vqs_of (put_auction s a') (a_id a)) with (vqs_of s (a_id a)).
      rewrite Hsd, Hsa, Hpd. destruct r.
      * destruct (is_open (a_status a')) eqn:Eo; [rewrite (Hopen eq_refl) in E; exact E|].
        rewrite andb_false_r. apply B.
      * destruct (status_eqb (a_status a') Started) eqn:Es; [|rewrite andb_false_r; apply B].
        apply status_eqb_eq in Es. destruct (Hstart Es) as [Hs|Hnil].
        -- rewrite Hs in E. exact E.
        -- rewrite Hnil. cbn [map]. change (sumZ []) with 0. destruct (N.eqb d (a_pay_denom a) && true); apply B.
      * destruct (status_eqb (a_status a') VestingS) eqn:Es; [|rewrite andb_false_r; apply B].
        apply status_eqb_eq in Es. rewrite (Hvest Es) in E. exact E.
    + specialize (E r j d). unfold owed in *. rewrite find_auction_put_other by (rewrite Hid; exact Hj). exact E.
  - intros x Hx Hxt. apply in_put_auction in Hx. rewrite Hid in Hx.
    change (bids_of (put_auction s a') (a_id x)) with (bids_of s (a_id x)).
    destruct Hx as [[_ Hx]| ->]; [apply R; assumption|].
    pose proof (PrecondBase.find_auction_id _ _ _ Fa) as [_ Hin].
    rewrite Hty in Hxt. specialize (R a Hin Hxt). rewrite Hid, Hrem, Hsa, Hpd.
    destruct (status_eqb (a_status a') Cancelled) eqn:Ec.
    + apply status_eqb_eq in Ec. rewrite (Hcan Ec) in R. exact R.
    + destruct (status_eqb (a_status a) Cancelled) eqn:Ec0; [apply status_eqb_eq in Ec0; rewrite (Hcan' Ec0) in Ec; discriminate Ec|exact R].
Qed.

(* ------------------------------------------------------------------ settlement keeps the invariants *)
Lemma settle_gen_shape s a mi wr s' : settle_gen s a mi wr = Ok s' -> settle_shape s s' a.
Proof.
  unfold settle_gen. intros H.
  apply bind_inv in H. destruct H as [s1 [E1 H]]. apply bind_inv in H. destruct H as [s2 [E2 H]].
  apply bind_inv in H. destruct H as [s3 [E3 H]].
  apply allocate_inv in E1. apply refund_selling_inv in E2. apply apply_vesting_inv in H.
  exists s3. split; [|exact H].
  eapply bt_only_trans; [exact E1|]. eapply bt_only_trans; [exact E2|].
  destruct wr.
  - apply (pay_out_inv (a_id a)) in E3; [|reflexivity]. destruct E3 as (b & xs & -> & K). apply bt_only_bank. exact K.
  - injection E3 as <-. exists (st_bal s2), (st_xfers s2), (st_trace s2). split; [destruct s2; reflexivity|apply esc_keep_refl].
Qed.

Lemma forallb_filter_id {A} (f : A -> bool) l : forallb f l = true -> filter f l = l.
Proof.
  induction l as [|x r IH]; cbn [forallb filter]; intros H; [reflexivity|].
  apply andb_true_iff in H. destruct H as [H1 H2]. rewrite H1. f_equal. now apply IH.
Qed.

Lemma vqs_split_of s0 a R vs :
  vqs_of s0 (a_id a) = [] ->
  filter (fun x => N.eqb (v_auction x) (a_id a)) (st_vqs s0 ++ split a R R vs) = split a R R vs.
Proof.
  intros H. rewrite filter_app. unfold vqs_of in H. rewrite H. cbn [app].
  apply forallb_filter_id. apply forallb_forall. intros v Hv. apply N.eqb_eq. eapply split_auction. exact Hv.
Qed.

Lemma sum_unreleased_split a R vs :
  sumZ (map v_amt (filter (fun v => negb (v_released v)) (split a R R vs))) = sumZ (map v_amt (split a R R vs)).
Proof.
  f_equal. f_equal. apply forallb_filter_id. apply forallb_forall. intros v Hv.
  pose proof (DecFacts.split_fields a R vs) as Hf. rewrite Forall_forall in Hf. destruct (Hf v Hv) as (Hr & _). now rewrite Hr.
Qed.

Lemma settle_escrow s1 a0 a1 mi wr :
  escrow_inv s1 -> remaining_inv s1 -> NoDup (map a_id (st_auctions s1)) ->
  find_auction s1 (a_id a1) = Some a0 -> a_status a0 = Started -> a_status a1 = Started ->
  a_sell_denom a0 = a_sell_denom a1 -> a_sell_amt a0 = a_sell_amt a1 -> a_pay_denom a0 = a_pay_denom a1 ->
  a_type a0 = a_type a1 -> a_remaining a0 = a_remaining a1 ->
  vqs_of s1 (a_id a1) = [] ->
  no_veto s1 H_BeforeAllocated = true ->
  (forall u, In u (mi_bidders mi) -> 0 <= mi_alloc mi u) ->
  total_of (mi_bidders mi) (mi_alloc mi) <= a_sell_amt a1 ->
  (wr = true -> (forall u, In u (mi_bidders mi) -> 0 <= mi_refund mi u) /\
                total_of (mi_bidders mi) (mi_refund mi)
                <= sumZ (map (pay_amount (a_pay_denom a1)) (bids_of s1 (a_id a1)))) ->
  exists s', settle_gen s1 a1 mi wr = Ok s' /\ escrow_inv s' /\ remaining_inv s' /\ settled_facts s1 s' a1.
Proof.
  intros EI R Hnd Fa Hst0 Hst1 Hsd Hsa Hpd Hty Hrem Hnov Hnv Hapos Hatot Hr.
  destruct EI as [B E].
  assert (Hown_sell : a_sell_amt a1 <= st_bal s1 (Escrow Selling (a_id a1)) (a_sell_denom a1)).
  { specialize (E Selling (a_id a1) (a_sell_denom a1)). unfold owed in E. rewrite Fa, Hst0, Hsd, N.eqb_refl in E. cbn in E. lia. }
  assert (Hown_pay : sumZ (map (pay_amount (a_pay_denom a1)) (bids_of s1 (a_id a1))) <= st_bal s1 (Escrow Paying (a_id a1)) (a_pay_denom a1)).
  { specialize (E Paying (a_id a1) (a_pay_denom a1)). unfold owed in E. rewrite Fa, Hst0, Hpd, N.eqb_refl in E. cbn in E. exact E. }
  destruct (settle_gen_ok s1 a1 mi wr B Hnv Hapos) as (s' & Hs' & SF).
  { lia. }
  { intros Hw. destruct (Hr Hw) as [H1 H2]. split; [exact H1|lia]. }
  exists s'. split; [exact Hs'|].
  pose proof (settle_gen_shape _ _ _ _ _ Hs') as Sh.
  pose proof (pe_frame _ _ _ (proc_eff_settle _ _ _ Sh)) as F.
  pose proof (settle_auctions _ _ _ Sh) as Hauc.
  set (a' := set_status a1 (settled_st a1)) in *.
  assert (Fa' : find_auction s' (a_id a1) = Some a').
  { rewrite (find_auction_conv_put s1 s' a' (a_id a1) Hauc). cbn [a_id a' set_status]. rewrite N.eqb_refl, Fa. reflexivity. }
  destruct SF as [SB Ssell Spay Sbids (Rr & HR & Svqs & Svest)].
  assert (Hgoal : escrow_inv s' /\ remaining_inv s').
  { split.
  - apply (escrow_inv_by_frame (a_id a1) s1); [split; assumption|exact F|exact SB|].
    intros r d. unfold owed. rewrite Fa'. cbn [a_status a' set_status a_sell_denom a_pay_denom a_sell_amt].
    unfold settled_st. destruct (a_scheds a1) as [|v vs] eqn:Esch.
    + cbn [is_open status_eqb orb]. rewrite !andb_false_r. destruct r; apply SB.
    + cbn [is_open status_eqb orb]. rewrite !andb_false_r. destruct r; try apply SB.
      rewrite andb_true_r. destruct (N.eqb d (a_pay_denom a1)) eqn:Ed; [|apply SB].
      apply N.eqb_eq in Ed. subst d. unfold vqs_of. rewrite Svqs.
      rewrite (vqs_split_of s1 a1 Rr (v :: vs) Hnov), sum_unreleased_split.
      rewrite (DecFacts.split_sum a1 Rr (v :: vs)) by discriminate.
      rewrite Svest by discriminate. specialize (B (Escrow Vesting (a_id a1)) (a_pay_denom a1)). lia.
  - apply (remaining_inv_frame (a_id a1) s1); [exact R|exact F| |].
    + intros x Hx Hne. rewrite Hauc in Hx. apply in_put_auction in Hx. cbn [a_id set_status] in Hx.
      destruct Hx as [[_ Hx] | ->]; [exact Hx|cbn in Hne; congruence].
    + intros x Hx Hxe Hxt.
      assert (x = a').
      { assert (Hnd' : NoDup (map a_id (st_auctions s'))).
        { rewrite Hauc. unfold put_auction. cbn [st_auctions with_auctions]. rewrite map_id_put. exact Hnd. }
        pose proof (find_some_of_in _ x Hnd' Hx) as Fx. fold (find_auction s' (a_id x)) in Fx. rewrite Hxe, Fa' in Fx. congruence. }
      subst x. cbn [a_status a' set_status a_remaining a_sell_amt a_pay_denom].
      assert (Hc : status_eqb (settled_st a1) Cancelled = false) by (unfold settled_st; destruct (a_scheds a1); reflexivity).
      rewrite Hc. unfold bids_of. rewrite Sbids. fold (bids_of s1 (a_id a1)).
      pose proof (PrecondBase.find_auction_id _ _ _ Fa) as [Hid0 Hin0].
      cbn [a_type a' set_status] in Hxt. rewrite <- Hty in Hxt.
      specialize (R a0 Hin0 Hxt). rewrite Hst0 in R. cbn [status_eqb] in R. rewrite Hid0, Hrem, Hsa, Hpd in R. exact R. }
  destruct Hgoal as [G1 G2]. split; [exact G1|]. split; [exact G2|].
  split; try assumption. exists Rr. auto.
Qed.

(* ------------------------------------------------------------------ a Started auction has no vesting queue yet *)
Lemma started_no_vqs s a : Inv s -> find_auction s (a_id a) = Some a -> a_status a = Started -> vqs_of s (a_id a) = [].
Proof.
  intros I Fa Hst. destruct (vqs_of s (a_id a)) as [|v r] eqn:E; [reflexivity|]. exfalso.
  assert (Hv : In v (vqs_of s (a_id a))) by (rewrite E; now left). apply in_vqs_of in Hv. destruct Hv as [Hv Ha].
  destruct (inv_vqs _ I) as [W _]. rewrite Forall_forall in W.
  destruct (vwf_auction _ _ (W v Hv)) as (a0 & Fa0 & [Hs|Hs] & _); rewrite Ha, Fa in Fa0; injection Fa0 as <-; congruence.
Qed.

(* ------------------------------------------------------------------ fixed price close *)
Lemma close_fixed_live s a :
  Inv s -> find_auction s (a_id a) = Some a -> a_status a = Started -> a_type a = FixedPrice ->
  no_veto s H_BeforeAllocated = true ->
  exists s', close_fixed s a = Ok s' /\ escrow_inv s' /\ remaining_inv s' /\ settled_facts s s' a.
Proof.
  intros I Fa Hst Hty Hnv. rewrite close_fixed_gen.
  pose proof (Inv_book_wf s (a_id a) I) as BW.
  pose proof (InvStaticBase_find_wf s a I Fa) as AW.
  pose proof (PrecondBase.find_auction_id _ _ _ Fa) as [_ Hin].
  apply (settle_escrow s a a); try reflexivity; try assumption.
  - apply (inv_escrow _ I).
  - apply (inv_remaining _ I).
  - apply (ids_seq_ids_ok s (inv_ids _ I)).
  - now apply started_no_vqs.
  - intros u _. cbn [mi_alloc calc_fixed]. apply sumZ_nonneg. intros x Hx. apply in_map_iff in Hx.
    destruct Hx as [b [<- Hb]]. apply filter_In in Hb. destruct Hb as [Hb _].
    apply DecFacts.sell_amount_nonneg; [apply (MatchDemand.wf_amt _ _ BW b Hb)|apply (MatchDemand.wf_price _ _ BW b Hb)].
  - unfold total_of. cbn [mi_bidders mi_alloc calc_fixed]. rewrite (sum_by_bidder (sell_amount (a_pay_denom a))).
    pose proof (inv_remaining _ I a Hin Hty) as R. rewrite Hst in R. cbn [status_eqb] in R.
    destruct (awf_fixed _ AW Hty) as (_ & _ & _ & _ & Hr). lia.
  - discriminate.
Qed.

(* ------------------------------------------------------------------ batch close *)
Lemma close_batch_core s orc a order :
  Inv s -> find_auction s (a_id a) = Some a -> a_status a = Started -> a_type a = Batch ->
  valid_order (bids_of s (a_id a)) (oracle_ids orc (a_id a)) = Some order ->
  exists mi, calc_batch a (bids_of s (a_id a)) order (allowed_of s (a_id a)) = Some mi /\
    (decision s a mi = true \/ no_veto s H_BeforeAllocated = true ->
     exists s', close_batch s orc a = Ok s' /\ escrow_inv s' /\ remaining_inv s').
Proof.
  intros I Fa Hst Hty HV'.
  set (ids := oracle_ids orc (a_id a)) in *. pose proof HV' as HV.
  pose proof (Inv_book_wf s (a_id a) I) as BW.
  pose proof (InvStaticBase_find_wf s a I Fa) as AW.
  pose proof (Inv_denoms_wf s a I Fa Hty) as DW.
  assert (Hsup : 0 <= a_sell_amt a) by (pose proof (awf_amt _ AW); lia).
  destruct (MatchBatch.calc_batch_spec a (bids_of s (a_id a)) ids order (allowed_of s (a_id a)) BW HV Hsup) as (mi & HC & _).
  exists mi. split; [exact HC|]. intros Hor.
  rewrite (close_batch_unfold s orc a order mi HV' HC).
  destruct (flags_escrow s (a_id a) (mi_matched mi) (inv_escrow _ I) (inv_remaining _ I)) as [EF RF].
  set (sf := set_flags s (a_id a) (mi_matched mi)) in *.
  assert (Hndf : NoDup (map a_id (st_auctions sf))) by apply (ids_seq_ids_ok s (inv_ids _ I)).
  assert (Faf : find_auction sf (a_id a) = Some a) by exact Fa.
  destruct (decision s a mi) eqn:Dec.
  - (* another round *)
    eexists. split; [reflexivity|].
    apply (put_auction_escrow sf a (extended s a mi) EF RF Hndf Faf); try reflexivity.
    + cbn. rewrite Hst. auto.
    + cbn. intros _. now left.
    + cbn. rewrite Hst. discriminate.
    + cbn. rewrite Hst. discriminate.
    + rewrite Hst. discriminate.
  - (* settlement *)
    assert (Hnv : no_veto s H_BeforeAllocated = true) by (destruct Hor as [Hor|Hor]; [discriminate Hor|exact Hor]).
    rewrite settle_batch_gen.
    destruct (MatchConseq.batch_alloc_bounds a _ ids order _ mi BW HV Hsup HC) as (Ha1 & _ & Ha3 & Ha4).
    destruct (MatchConseq.batch_refund_facts a _ ids order _ mi BW HV Hsup DW HC) as (Hr1 & _).
    assert (Hmib : mi_bidders mi = bidders_of (bids_of s (a_id a))).
    { unfold calc_batch in HC. destruct (search _ _ _ _ _); [|discriminate]. injection HC as <-. reflexivity. }
    assert (Hapos : forall u, In u (mi_bidders mi) -> 0 <= mi_alloc mi u) by (intros u _; apply Ha1).
    assert (Hatot : total_of (mi_bidders mi) (mi_alloc mi) <= a_sell_amt (set_matched_price a (mi_price mi))).
    { unfold total_of. rewrite Hmib, Ha3. cbn [a_sell_amt set_matched_price]. lia. }
    assert (Hrr : true = true -> (forall u, In u (mi_bidders mi) -> 0 <= mi_refund mi u) /\
                  total_of (mi_bidders mi) (mi_refund mi)
                  <= sumZ (map (pay_amount (a_pay_denom (set_matched_price a (mi_price mi))))
                               (bids_of sf (a_id (set_matched_price a (mi_price mi)))))).
    { intros _. split; [intros u _; apply Hr1|].
      unfold total_of. rewrite Hmib. cbn [a_id a_pay_denom set_matched_price]. unfold sf.
      rewrite (bids_of_set_flags_map (pay_amount (a_pay_denom a)) s (a_id a) (mi_matched mi) (a_id a)) by reflexivity.
      rewrite <- (sum_by_bidder (pay_amount (a_pay_denom a)) (bids_of s (a_id a))).
      apply sumZ_le_pointwise. intros u _. apply Hr1. }
    destruct (settle_escrow sf a (set_matched_price a (mi_price mi)) mi true EF RF Hndf Faf Hst Hst
                eq_refl eq_refl eq_refl eq_refl eq_refl (started_no_vqs s a I Fa Hst) Hnv Hapos Hatot Hrr)
      as (s' & Hs' & G1 & G2 & _).
    exists s'. auto.
Qed.

(* ------------------------------------------------------------------ vesting release *)
Lemma sum_unreleased_after id t : forall vs,
  (forall v, In v vs -> v_auction v = id) ->
  sumZ (map v_amt (filter (fun v => negb (v_released v)) (map (VestingFacts.release_vq id t) vs)))
  = sumZ (map v_amt (filter (fun v => negb (v_released v)) vs)) - sumZ (map v_amt (VestingFacts.due_of t vs)).
Proof.
  induction vs as [|v r IH]; intros Hid; [reflexivity|].
  assert (Hr : forall x, In x r -> v_auction x = id) by (intros x Hx; apply Hid; now right).
  specialize (IH Hr). cbn [map filter]. unfold VestingFacts.due_of in *. cbn [filter].
  assert (E : VestingFacts.release_vq id t v = if vq_due t v then set_v_released v true else v).
  { unfold VestingFacts.release_vq. rewrite (Hid v (or_introl eq_refl)), N.eqb_refl. reflexivity. }
  rewrite E. clear E. unfold vq_due in *.
  destruct (v_time v <=? t) eqn:Et, (v_released v) eqn:Er; cbn [andb negb v_released set_v_released];
    rewrite ?Er; cbn [negb map]; rewrite ?sumZ_cons; lia.
Qed.

Lemma release_live s a t :
  Inv s -> find_auction s (a_id a) = Some a -> a_status a = VestingS ->
  exists s', release_loop s a t (vqs_of s (a_id a)) = Ok s' /\ escrow_inv s' /\ remaining_inv s'.
Proof.
  intros I Fa Hst.
  destruct (inv_vqs _ I) as (W & Hnd & _). rewrite Forall_forall in W.
  destruct (inv_escrow _ I) as [B E].
  assert (Hq : forall v, In v (vqs_of s (a_id a)) -> 0 <= v_amt v /\ v_denom v = a_pay_denom a).
  { intros v Hv. apply in_vqs_of in Hv. destruct Hv as [Hv Ha]. split; [apply (vwf_amt _ _ (W v Hv))|].
    destruct (vwf_auction _ _ (W v Hv)) as (a0 & Fa0 & _ & _ & Hd & _). rewrite Ha, Fa in Fa0. injection Fa0 as <-. exact Hd. }
  assert (Hfund : sumZ (map v_amt (filter (fun v => negb (v_released v)) (vqs_of s (a_id a))))
                  <= st_bal s (Escrow Vesting (a_id a)) (a_pay_denom a)).
  { specialize (E Vesting (a_id a) (a_pay_denom a)). unfold owed in E. rewrite Fa, Hst, N.eqb_refl in E. exact E. }
  destruct (VestingFacts.release_loop_ok s a t Hnd Hq Hfund) as (s' & H & RS & _ & Hpaid & Hbv & Hbu & Hod & Hox & Hmono).
  exists s'. split; [exact H|].
  destruct (VestingFacts.release_own_spec s a t s' Hnd H) as (_ & _ & Hown & Hoth).
  set (paid := sumZ (map v_amt (VestingFacts.due_of t (vqs_of s (a_id a))))) in *.
  assert (Hb' : bal_ok s').
  { intros x d. destruct (N.eq_dec d (a_pay_denom a)) as [->|Hd]; [|rewrite Hod by assumption; apply B].
    destruct (addr_eqb x (Escrow Vesting (a_id a))) eqn:E1.
    - apply addr_eqb_eq in E1. subst x. rewrite Hbv.
      assert (paid <= sumZ (map v_amt (filter (fun v => negb (v_released v)) (vqs_of s (a_id a))))).
      { unfold paid, VestingFacts.due_of. apply VestingFacts.sumZ_filter_le.
        - intros v Hv. apply (Hq v Hv).
        - intros v _ Hv. unfold vq_due in Hv. apply andb_true_iff in Hv. apply Hv. }
      lia.
    - apply addr_eqb_neq in E1. destruct (addr_eqb x (User (a_auctioneer a))) eqn:E2.
      + apply addr_eqb_eq in E2. subst x. rewrite Hbu. specialize (B (User (a_auctioneer a)) (a_pay_denom a)). lia.
      + apply addr_eqb_neq in E2. rewrite Hox by assumption. apply B. }
  assert (Hbids : st_bids s' = st_bids s) by apply (VestingFacts.rs_bids _ _ _ _ _ RS).
  assert (Hauc : st_auctions s' = if last_due_rec t (vqs_of s (a_id a)) then st_auctions (put_auction s (set_status a Finished)) else st_auctions s)
    by apply (VestingFacts.rs_auctions _ _ _ _ _ RS).
  (* the auction's record afterwards *)
  assert (Fa' : exists a', find_auction s' (a_id a) = Some a' /\
                  (a' = a \/ a' = set_status a Finished)).
  { destruct (last_due_rec t (vqs_of s (a_id a))).
    - exists (set_status a Finished). split; [|now right].
      rewrite (find_auction_conv_put s s' (set_status a Finished) (a_id a) Hauc). cbn [a_id set_status]. rewrite N.eqb_refl, Fa. reflexivity.
    - exists a. split; [|now left]. unfold find_auction. rewrite Hauc. exact Fa. }
  destruct Fa' as (a' & Fa' & Ha').
  assert (Hfind_other : forall j, j <> a_id a -> find_auction s' j = find_auction s j).
  { intros j Hj. destruct (last_due_rec t (vqs_of s (a_id a))).
    - rewrite (find_auction_conv_put s s' (set_status a Finished) j Hauc). cbn [a_id set_status].
      apply N.eqb_neq in Hj. rewrite Hj. reflexivity.
    - unfold find_auction. now rewrite Hauc. }
  split.
  - split; [exact Hb'|]. intros r j d. destruct (N.eq_dec j (a_id a)) as [->|Hj].
    + unfold owed. rewrite Fa'. unfold bids_of. rewrite Hbids. fold (bids_of s (a_id a)). rewrite Hown.
      specialize (E r (a_id a) d). unfold owed in E. rewrite Fa, Hst in E.
      destruct Ha' as [->| ->].
      * rewrite Hst. destruct r; cbn [is_open status_eqb orb] in *; rewrite ?andb_false_r in *; try apply Hb'.
        rewrite andb_true_r in *. destruct (N.eqb d (a_pay_denom a)) eqn:Ed; [|apply Hb'].
        apply N.eqb_eq in Ed. subst d. rewrite Hbv.
        rewrite (sum_unreleased_after (a_id a) t (vqs_of s (a_id a))); [fold paid; lia|].
        intros v Hv. apply in_vqs_of in Hv. apply Hv.
      * cbn [a_status set_status a_sell_denom a_pay_denom a_sell_amt]. destruct r; cbn [is_open status_eqb orb]; rewrite ?andb_false_r; apply Hb'.
    + unfold owed. rewrite (Hfind_other j Hj), (Hoth j Hj). unfold bids_of. rewrite Hbids. fold (bids_of s j).
      specialize (E r j d). unfold owed in E.
      assert (Hbj : st_bal s' (Escrow r j) d = st_bal s (Escrow r j) d).
      { apply Hox; [intros Hc; inversion Hc; congruence|discriminate]. }
      rewrite Hbj. exact E.
  - intros x Hx Hxt. unfold bids_of. rewrite Hbids. fold (bids_of s (a_id x)).
    destruct (last_due_rec t (vqs_of s (a_id a))).
    + rewrite Hauc in Hx. apply in_put_auction in Hx. cbn [a_id set_status] in Hx. destruct Hx as [[_ Hx] | ->].
      * apply (inv_remaining _ I x Hx Hxt).
      * cbn [a_status set_status a_remaining a_sell_amt a_pay_denom a_id]. cbn [status_eqb].
        pose proof (PrecondBase.find_auction_id _ _ _ Fa) as [_ Hin]. cbn [a_type set_status] in Hxt.
        pose proof (inv_remaining _ I a Hin Hxt) as R. rewrite Hst in R. exact R.
    + rewrite Hauc in Hx. apply (inv_remaining _ I x Hx Hxt).
Qed.
