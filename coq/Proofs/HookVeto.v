(* C17, veto means rejection: every handler and BeginBlocker reach the hooks only through
   call_hook, propagate its error, and never swallow it.  The trace of an operation always extends
   the old trace; an Ok result made no vetoed call; an error carries E_HOOK exactly when its last
   call was vetoed, and nothing is called after a veto.  No axioms. *)
From Coq Require Import ZArith NArith List Bool Arith Lia.
From FR Require Import Dec Types Bank Match Step Genesis Model Spec Checkers.
From FR.Proofs Require Import HookBase HookFacts HookSites.
Import ListNotations.
Open Scope Z_scope.

(* ------------------------------------------------------------------ vetoed / stops_at_veto on a listener list *)
Definition veto_call (ls : list (list N)) (h : hookcall) : bool :=
  match nth_error ls (N.to_nat (h_listener h)) with
  | Some l => existsb (N.eqb (h_kind h)) l
  | None => false
  end.
Definition vetoedL (ls : list (list N)) (tr : list hookcall) : bool := existsb (veto_call ls) tr.
Fixpoint stopsL (ls : list (list N)) (tr : list hookcall) : bool :=
  match tr with
  | [] => true
  | h :: rest => if veto_call ls h then match rest with [] => true | _ => false end else stopsL ls rest
  end.

Lemma vetoed_L : forall s tr, vetoed s tr = vetoedL (st_listeners s) tr.
Proof. reflexivity. Qed.

Lemma stops_L : forall s tr, stops_at_veto s tr = stopsL (st_listeners s) tr.
Proof.
  intros s tr. induction tr as [|h rest IH]; [reflexivity|].
  cbn [stops_at_veto stopsL]. rewrite IH. rewrite vetoed_L. unfold vetoedL. cbn [existsb].
  rewrite orb_false_r. reflexivity.
Qed.

Lemma vetoedL_app : forall ls a b, vetoedL ls (a ++ b) = vetoedL ls a || vetoedL ls b.
Proof. intros ls a b. unfold vetoedL. apply existsb_app. Qed.

Lemma stopsL_app : forall ls a b, vetoedL ls a = false -> stopsL ls (a ++ b) = stopsL ls b.
Proof.
  intros ls a b. induction a as [|h r IH]; intros H; [reflexivity|].
  unfold vetoedL in H. cbn [existsb] in H. apply orb_false_iff in H as [Hh Hr].
  cbn [app stopsL]. rewrite Hh. apply IH. exact Hr.
Qed.

Lemma stopsL_clean : forall ls a, vetoedL ls a = false -> stopsL ls a = true.
Proof. intros ls a H. rewrite <- (app_nil_r a). rewrite stopsL_app by exact H. reflexivity. Qed.

Lemma stopsL_single : forall ls h, stopsL ls [h] = true.
Proof. intros ls h. cbn [stopsL]. destruct (veto_call ls h); reflexivity. Qed.

(* the calls to the first n listeners after a prefix *)
Lemma vetoedL_calls : forall n ls pre kind args,
  (n <= length ls)%nat ->
  vetoedL (pre ++ ls) (calls_from (N.of_nat (length pre)) n kind args) = existsb (vetoes kind) (firstn n ls).
Proof.
  induction n as [|n IH]; intros ls pre kind args Hn; [reflexivity|].
  destruct ls as [|l r]; [cbn in Hn; lia|].
  cbn [calls_from firstn existsb]. unfold vetoedL. cbn [existsb]. f_equal.
  - unfold veto_call, mkcall. cbn [h_listener h_kind]. rewrite Nat2N.id.
    rewrite nth_error_app2 by lia. rewrite Nat.sub_diag. reflexivity.
  - specialize (IH r (pre ++ [l]) kind args). rewrite <- app_assoc in IH. cbn [app] in IH.
    rewrite app_length in IH. cbn [length] in IH.
    replace (N.of_nat (length pre + 1)) with (N.of_nat (length pre) + 1)%N in IH by lia.
    apply IH. cbn [length] in Hn. lia.
Qed.

Lemma first_veto_none_existsb : forall kind ls, first_veto kind ls = None -> existsb (vetoes kind) ls = false.
Proof.
  intros kind ls. induction ls as [|l r IH]; intros H; [reflexivity|].
  cbn [first_veto] in H. cbn [existsb]. destruct (vetoes kind l); [discriminate|].
  destruct (first_veto kind r); [discriminate|]. apply IH. reflexivity.
Qed.

Lemma first_veto_firstn : forall kind ls k, first_veto kind ls = Some k ->
  existsb (vetoes kind) (firstn k ls) = false /\ existsb (vetoes kind) (firstn (S k) ls) = true.
Proof.
  intros kind ls. induction ls as [|l r IH]; intros k H; [discriminate|].
  cbn [first_veto] in H. destruct (vetoes kind l) eqn:Hv.
  - injection H as <-. cbn [firstn existsb]. rewrite Hv. split; reflexivity.
  - destruct (first_veto kind r) as [k0|]; [|discriminate]. injection H as <-.
    destruct (IH k0 eq_refl) as [H1 H2]. cbn [firstn existsb] in *. rewrite Hv. split; assumption.
Qed.

Lemma all_calls_clean : forall ls kind args,
  first_veto kind ls = None -> vetoedL ls (calls_from 0 (length ls) kind args) = false.
Proof.
  intros ls kind args H. pose proof (vetoedL_calls (length ls) ls [] kind args (le_n _)) as E.
  cbn [app length N.of_nat] in E. rewrite E, firstn_all. apply first_veto_none_existsb. exact H.
Qed.

Lemma veto_calls_shape : forall ls kind args k,
  first_veto kind ls = Some k ->
  vetoedL ls (calls_from 0 (S k) kind args) = true /\ stopsL ls (calls_from 0 (S k) kind args) = true.
Proof.
  intros ls kind args k H. pose proof (first_veto_lt _ _ _ H) as Hlt.
  destruct (first_veto_firstn _ _ _ H) as [H1 H2]. split.
  - pose proof (vetoedL_calls (S k) ls [] kind args Hlt) as E. cbn [app length N.of_nat] in E.
    rewrite E. exact H2.
  - rewrite calls_from_snoc. rewrite stopsL_app; [apply stopsL_single|].
    pose proof (vetoedL_calls k ls [] kind args (Nat.lt_le_incl _ _ Hlt)) as E. cbn [app length N.of_nat] in E.
    rewrite E. exact H1.
Qed.

(* ------------------------------------------------------------------ the trace discipline *)
(* r was computed from a state with listeners ls and trace tr; pr projects the state out of a result *)
Definition goodG {A} (pr : A -> state) (ls : list (list N)) (tr : list hookcall) (r : res A) : Prop :=
  match r with
  | Ok a => st_listeners (pr a) = ls /\ exists cs, st_trace (pr a) = tr ++ cs /\ vetoedL ls cs = false
  | Err c tr' => exists cs, tr' = tr ++ cs /\ stopsL ls cs = true /\ vetoedL ls cs = N.eqb c E_HOOK
  end.
Notation good s r := (goodG (fun x : state => x) (st_listeners s) (st_trace s) r).

Lemma good_conv : forall {A} (pr : A -> state) ls tr ls' tr' r,
  goodG pr ls' tr' r -> ls' = ls -> tr' = tr -> goodG pr ls tr r.
Proof. intros A pr ls tr ls' tr' r H -> ->. exact H. Qed.

Lemma good_bind : forall {A B} (pa : A -> state) (pb : B -> state) ls tr (r : res A) (f : A -> res B),
  goodG pa ls tr r ->
  (forall a, r = Ok a -> goodG pb (st_listeners (pa a)) (st_trace (pa a)) (f a)) ->
  goodG pb ls tr (bind r f).
Proof.
  intros A B pa pb ls tr r f Hr Hf. destruct r as [a|c tr0]; cbn [bind].
  - destruct Hr as [Hl [cs [Ht Hv]]]. specialize (Hf a eq_refl). rewrite Hl, Ht in Hf.
    destruct (f a) as [b|c tr1].
    + destruct Hf as [Hl2 [cs2 [Ht2 Hv2]]]. split; [exact Hl2|]. exists (cs ++ cs2).
      split; [rewrite Ht2, app_assoc; reflexivity|]. rewrite vetoedL_app, Hv, Hv2. reflexivity.
    + destruct Hf as [cs2 [Ht2 [Hs2 Hv2]]]. exists (cs ++ cs2).
      split; [rewrite Ht2, app_assoc; reflexivity|]. split.
      * rewrite stopsL_app by exact Hv. exact Hs2.
      * rewrite vetoedL_app, Hv. exact Hv2.
  - destruct Hr as [cs [Ht [Hs Hv]]]. exists cs. repeat split; assumption.
Qed.

Lemma good_ok : forall {A} (pr : A -> state) ls tr a,
  st_listeners (pr a) = ls -> st_trace (pr a) = tr -> goodG pr ls tr (Ok a).
Proof.
  intros A pr ls tr a Hl Ht. split; [exact Hl|]. exists []. rewrite app_nil_r. split; [exact Ht | reflexivity].
Qed.

Lemma good_err : forall {A} (pr : A -> state) ls tr c,
  N.eqb c E_HOOK = false -> goodG pr ls tr (Err c tr).
Proof.
  intros A pr ls tr c Hc. exists []. rewrite app_nil_r. split; [reflexivity|]. split; [reflexivity|].
  rewrite Hc. reflexivity.
Qed.

Lemma good_fail : forall {A} (pr : A -> state) s c,
  N.eqb c E_HOOK = false -> goodG pr (st_listeners s) (st_trace s) (@fail A s c).
Proof. intros A pr s c Hc. unfold fail. apply good_err. exact Hc. Qed.

Lemma good_nobank : forall s (r : res state),
  (forall s', r = Ok s' -> nobank s s') -> bank_err s r -> good s r.
Proof.
  intros s r Hok Herr. destruct r as [s'|c tr].
  - specialize (Hok s' eq_refl). apply good_ok; [apply (nb_listeners _ _ Hok) | apply (nb_trace _ _ Hok)].
  - destruct Herr as [-> Hc]. apply good_err. destruct Hc as [->| ->]; reflexivity.
Qed.

Create HintDb good.

Lemma send_good : forall s from to d amt, good s (send s from to d amt).
Proof. intros. apply good_nobank; [intros s' H; eapply send_ok; exact H | apply send_err]. Qed.
Lemma fund_pool_good : forall s u cs, good s (fund_pool s u cs).
Proof. intros. apply good_nobank; [intros s' H; eapply fund_pool_ok; exact H | apply fund_pool_err]. Qed.
Lemma pay_out_good : forall s from d us f, good s (pay_out s from d us f).
Proof. intros. apply good_nobank; [intros s' H; eapply pay_out_ok; exact H | apply pay_out_err]. Qed.

Lemma call_hook_good : forall s kind args, good s (call_hook s kind args).
Proof.
  intros s kind args. destruct (call_hook s kind args) as [s'|c tr] eqn:H.
  - apply call_hook_ok_inv in H as [Hn ->]. split; [reflexivity|].
    exists (all_calls s kind args). split; [reflexivity|].
    apply all_calls_clean. apply no_veto_first. exact Hn.
  - apply call_hook_err_inv in H as [-> [_ [k [Hk ->]]]].
    exists (calls_from 0 (S k) kind args). split; [reflexivity|].
    destruct (veto_calls_shape _ kind args k Hk) as [Hv Hs]. split; [exact Hs | exact Hv].
Qed.
#[export] Hint Resolve send_good fund_pool_good pay_out_good call_hook_good : good.

Ltac glem := eapply good_conv; [solve [eauto 2 with good nocore] | reflexivity | reflexivity].

Ltac gstep :=
  cbv beta;
  match goal with
  | |- goodG _ _ _ (fail _ _) => apply good_fail; reflexivity
  | |- goodG _ _ _ (Err _ (st_trace _)) => apply good_err; reflexivity
  | |- goodG _ _ _ (Ok _) => apply good_ok; reflexivity
  | |- goodG _ _ _ (let _ := _ in _) => cbv zeta
  | |- goodG _ _ _ (bind _ _) => eapply good_bind; [ glem | intros ? ?]
  | |- goodG _ _ _ (if ?b then _ else _) => destruct b eqn:?
  | |- goodG _ _ _ (match ?x with _ => _ end) => destruct x eqn:?
  | |- goodG _ _ _ _ => glem
  end.

(* ------------------------------------------------------------------ the handlers *)
Lemma create_fixed_good : forall s u up price sd samt pd vs start end_,
  good s (create_fixed s u up price sd samt pd vs start end_).
Proof. intros. unfold create_fixed. repeat gstep. Qed.

Lemma create_batch_good : forall s u up price minp sd samt pd vs maxr rate start end_,
  good s (create_batch s u up price minp sd samt pd vs maxr rate start end_).
Proof. intros. unfold create_batch. repeat gstep. Qed.

Lemma cancel_good : forall s u up id, good s (cancel s u up id).
Proof. intros. unfold cancel. repeat gstep. Qed.

Lemma validate_fixed_bid_good : forall s a b,
  goodG (fun _ : unit => s) (st_listeners s) (st_trace s) (validate_fixed_bid s a b).
Proof. intros. unfold validate_fixed_bid. repeat gstep. Qed.

Lemma validate_batch_bid_good : forall s a b d,
  goodG (fun _ : unit => s) (st_listeners s) (st_trace s) (validate_batch_bid s a b d).
Proof. intros. unfold validate_batch_bid. repeat gstep. Qed.
#[export] Hint Resolve validate_fixed_bid_good validate_batch_bid_good : good.

Lemma place_bid_good : forall s u id bt price d amt, good s (place_bid s u id bt price d amt).
Proof.
  intros. unfold place_bid.
  destruct (find_auction s id) as [a|]; [|gstep].
  destruct (negb (status_eqb (a_status a) Started)); [gstep|].
  destruct (atype_eqb (a_type a) Batch && (price <? a_min_price a)); [gstep|].
  destruct (find_allowed s id u) as [e|]; [|gstep].
  eapply good_bind; [glem|]. intros s1 _. cbv beta zeta.
  eapply (good_bind (@fst state bid)).
  - destruct bt; repeat gstep.
  - intros [s2 b] _. cbv beta iota. cbn [fst]. repeat gstep.
Qed.

Lemma modify_bid_good : forall s u id bid_id price d amt, good s (modify_bid s u id bid_id price d amt).
Proof.
  intros. unfold modify_bid. repeat gstep.
  eapply (good_bind (fun x : state => x)); [destruct (0 <? _); repeat gstep|].
  intros s1 _. repeat gstep.
Qed.

Lemma add_entries_good : forall l s a, good s (add_entries s a l).
Proof.
  induction l as [|[[ea who] max] rest IH]; intros s a; cbn [add_entries].
  - repeat gstep.
  - destruct who as [up u|]; [|gstep]. destruct max as [m|]; [|gstep].
    destruct (negb (0 <? m)); [gstep|]. destruct (a_sell_amt a <? m); [gstep|].
    eapply good_conv; [apply IH | |];
      destruct (put_allowed_shape s (a_id a) u m) as [x ->]; reflexivity.
Qed.
#[export] Hint Resolve add_entries_good : good.

Lemma api_add_good : forall s id l, good s (api_add s id l).
Proof. intros. unfold api_add. repeat gstep. Qed.

Lemma api_update_good : forall s id u max, good s (api_update s id u max).
Proof.
  intros. unfold api_update. repeat gstep.
  match goal with |- goodG _ _ _ (Ok (put_allowed ?s1 ?a ?u ?m)) =>
    destruct (put_allowed_shape s1 a u m) as [x ->] end.
  apply good_ok; reflexivity.
Qed.

Lemma update_params_good : forall s auth cfee bfee period, good s (update_params s auth cfee bfee period).
Proof. intros. unfold update_params. repeat gstep. Qed.

Lemma handle_good : forall s c, good s (handle s c).
Proof.
  intros s c. destruct c; cbn [handle].
  - apply create_fixed_good.
  - apply create_batch_good.
  - apply cancel_good.
  - apply place_bid_good.
  - apply modify_bid_good.
  - destruct (st_switch s); [apply api_add_good | gstep].
  - apply update_params_good.
Qed.

(* ------------------------------------------------------------------ BeginBlocker *)
Lemma allocate_good : forall s a mi w, good s (allocate s a mi w).
Proof. intros. unfold allocate. repeat gstep. Qed.
Lemma refund_selling_good : forall s a, good s (refund_selling s a).
Proof. intros. unfold refund_selling. repeat gstep. Qed.
Lemma apply_vesting_good : forall s a, good s (apply_vesting s a).
Proof. intros. unfold apply_vesting. repeat gstep. Qed.
#[export] Hint Resolve allocate_good refund_selling_good apply_vesting_good : good.

Lemma close_fixed_good : forall s a, good s (close_fixed s a).
Proof. intros. unfold close_fixed. repeat gstep. Qed.
Lemma settle_batch_good : forall s a mi, good s (settle_batch s a mi).
Proof. intros. unfold settle_batch. repeat gstep. Qed.
Lemma extend_round_good : forall s a, good s (extend_round s a).
Proof. intros. unfold extend_round. repeat gstep. Qed.
#[export] Hint Resolve close_fixed_good settle_batch_good extend_round_good : good.

Lemma close_batch_good : forall s orc a, good s (close_batch s orc a).
Proof. intros. unfold close_batch. repeat gstep. Qed.

Lemma release_loop_good : forall vs s a t, good s (release_loop s a t vs).
Proof.
  induction vs as [|v rest IH]; intros s a t; cbn [release_loop].
  - repeat gstep.
  - destruct ((v_time v <=? t) && negb (v_released v)); [|apply IH].
    eapply good_bind; [glem|]. intros s1 _. cbv beta zeta.
    eapply good_conv; [apply IH | |]; destruct rest; reflexivity.
Qed.
#[export] Hint Resolve close_batch_good release_loop_good : good.

Lemma process_good : forall t orc s a, good s (process t orc s a).
Proof. intros. unfold process. repeat gstep. Qed.
#[export] Hint Resolve process_good : good.

Lemma process_all_good : forall l t orc s, good s (process_all t orc s l).
Proof.
  induction l as [|a rest IH]; intros t orc s; cbn [process_all].
  - repeat gstep.
  - eapply good_bind; [glem|]. intros s1 _. apply IH.
Qed.

Lemma begin_block_good : forall s t orc, good s (begin_block s t orc).
Proof.
  intros. unfold begin_block. cbv zeta.
  eapply good_conv; [apply process_all_good | reflexivity | reflexivity].
Qed.

(* ------------------------------------------------------------------ 3. veto means rejection *)
Definition is_call (o : op) : Prop :=
  match o with OTx _ | OApiAdd _ _ | OApiUpdate _ _ _ => True | _ => False end.

(* the three results every operation can be read against: the trace only grows; the growth is
   vetoed exactly when the outcome is the hook error; nothing is called after a veto *)
Record verdict (s : state) (out : outcome * state) (hook_err : outcome) (base : state) : Prop := {
  vd_suffix : exists suffix, st_trace (snd out) = st_trace s ++ suffix;
  vd_iff : forall suffix, st_trace (snd out) = st_trace s ++ suffix ->
             (vetoed s suffix = true <-> fst out = hook_err);
  vd_stops : forall suffix, st_trace (snd out) = st_trace s ++ suffix -> stops_at_veto s suffix = true;
  vd_rollback : forall suffix, st_trace (snd out) = st_trace s ++ suffix -> vetoed s suffix = true ->
                  snd out = with_trace base (st_trace s ++ suffix)
}.

Lemma commit_verdict : forall s r, good s r -> verdict s (commit s r) (Rejected E_HOOK) s.
Proof.
  intros s r G. destruct r as [s'|c tr]; cbn [commit].
  - destruct G as [Hl [cs [Ht Hv]]]. constructor; cbn [fst snd].
    + exists cs. exact Ht.
    + intros suffix Hs. rewrite Ht in Hs. apply app_inv_head in Hs. subst suffix.
      rewrite vetoed_L, Hv. split; discriminate.
    + intros suffix Hs. rewrite Ht in Hs. apply app_inv_head in Hs. subst suffix.
      rewrite stops_L. apply stopsL_clean. exact Hv.
    + intros suffix Hs. rewrite Ht in Hs. apply app_inv_head in Hs. subst suffix.
      rewrite vetoed_L, Hv. discriminate.
  - destruct G as [cs [Ht [Hs Hv]]]. constructor; cbn [fst snd]; sproj.
    + exists cs. exact Ht.
    + intros suffix E. rewrite Ht in E. apply app_inv_head in E. subst suffix.
      rewrite vetoed_L, Hv. split.
      * intros Hc. apply N.eqb_eq in Hc. now subst c.
      * intros Hc. injection Hc as ->. reflexivity.
    + intros suffix E. rewrite Ht in E. apply app_inv_head in E. subst suffix.
      rewrite stops_L. exact Hs.
    + intros suffix E _. rewrite Ht in E. apply app_inv_head in E. subst suffix. rewrite Ht. reflexivity.
Qed.

Lemma verdict_unchanged : forall s out hook_err base,
  snd out = s -> fst out <> hook_err -> verdict s out hook_err base.
Proof.
  intros s [o s'] hook_err base E Hne. cbn [fst snd] in *. subst s'.
  assert (Hnil : forall suffix, st_trace s = st_trace s ++ suffix -> suffix = []).
  { intros suffix H. rewrite <- (app_nil_r (st_trace s)) in H at 1. apply app_inv_head in H. now subst. }
  constructor; cbn [fst snd].
  - exists []. now rewrite app_nil_r.
  - intros suffix H. apply Hnil in H. subst suffix. split; [discriminate | intros; contradiction].
  - intros suffix H. apply Hnil in H. subst suffix. reflexivity.
  - intros suffix H. apply Hnil in H. subst suffix. discriminate.
Qed.

Theorem call_verdict : forall s o, is_call o -> verdict s (step s o) (Rejected E_HOOK) s.
Proof.
  intros s o Ho. destruct o as [m|a l|a u max| | | | |]; try contradiction; cbn [step].
  - unfold deliver_tx. destruct (check_basic m) as [c|].
    + apply commit_verdict. apply handle_good.
    + apply verdict_unchanged; [reflexivity | discriminate].
  - apply commit_verdict. apply api_add_good.
  - apply commit_verdict. apply api_update_good.
Qed.

Lemma block_result_verdict : forall s t r, good s r ->
  verdict s (match r with Ok s' => (BlockOk, s') | Err c tr => (BlockErr c, with_trace (with_now s t) tr) end)
          (BlockErr E_HOOK) (with_now s t).
Proof.
  intros s t r G. destruct r as [s'|c tr].
  - destruct G as [Hl [cs [Ht Hv]]]. constructor; cbn [fst snd].
    + exists cs. exact Ht.
    + intros suffix Hs. rewrite Ht in Hs. apply app_inv_head in Hs. subst suffix.
      rewrite vetoed_L, Hv. split; discriminate.
    + intros suffix Hs. rewrite Ht in Hs. apply app_inv_head in Hs. subst suffix.
      rewrite stops_L. apply stopsL_clean. exact Hv.
    + intros suffix Hs. rewrite Ht in Hs. apply app_inv_head in Hs. subst suffix.
      rewrite vetoed_L, Hv. discriminate.
  - destruct G as [cs [Ht [Hs Hv]]]. constructor; cbn [fst snd]; sproj.
    + exists cs. exact Ht.
    + intros suffix E. rewrite Ht in E. apply app_inv_head in E. subst suffix.
      rewrite vetoed_L, Hv. split.
      * intros Hc. apply N.eqb_eq in Hc. now subst c.
      * intros Hc. injection Hc as ->. reflexivity.
    + intros suffix E. rewrite Ht in E. apply app_inv_head in E. subst suffix.
      rewrite stops_L. exact Hs.
    + intros suffix E _. rewrite Ht in E. apply app_inv_head in E. subst suffix. rewrite Ht. reflexivity.
Qed.

Theorem block_verdict : forall s t orc, verdict s (step s (OBlock t orc)) (BlockErr E_HOOK) (with_now s t).
Proof. intros s t orc. cbn [step]. apply block_result_verdict. apply begin_block_good. Qed.

Theorem fault_block_verdict : forall s t orc k,
  verdict s (step s (OFaultBlock t orc k)) (BlockErr E_HOOK) (with_now s t).
Proof.
  intros s t orc k. cbn [step].
  pose proof (block_result_verdict s t _ (begin_block_good s t orc)) as V.
  destruct (begin_block s t orc) as [s'|c tr] eqn:Hb; [|exact V].
  destruct (Nat.ltb k (length (st_xfers s') - length (st_xfers s))); [|exact V].
  assert (Hnil : forall suffix, st_trace s = st_trace s ++ suffix -> suffix = []).
  { intros suffix H. rewrite <- (app_nil_r (st_trace s)) in H at 1. apply app_inv_head in H. now subst. }
  constructor; cbn [fst snd]; sproj.
  - exists []. now rewrite app_nil_r.
  - intros suffix H. apply Hnil in H. subst suffix. split; discriminate.
  - intros suffix H. apply Hnil in H. subst suffix. reflexivity.
  - intros suffix H. apply Hnil in H. subst suffix. discriminate.
Qed.

(* the statements of item 3 in the requested form *)
Theorem veto_rejects : forall s o suffix,
  is_call o ->
  st_trace (snd (step s o)) = st_trace s ++ suffix ->
  vetoed s suffix = true ->
  fst (step s o) = Rejected E_HOOK /\ snd (step s o) = with_trace s (st_trace s ++ suffix).
Proof.
  intros s o suffix Ho Hs Hv. pose proof (call_verdict s o Ho) as V. split.
  - apply (vd_iff _ _ _ _ V suffix Hs). exact Hv.
  - apply (vd_rollback _ _ _ _ V suffix Hs Hv).
Qed.

Theorem veto_fails_block : forall s t orc suffix,
  st_trace (snd (step s (OBlock t orc))) = st_trace s ++ suffix ->
  vetoed s suffix = true ->
  fst (step s (OBlock t orc)) = BlockErr E_HOOK
  /\ snd (step s (OBlock t orc)) = with_trace (with_now s t) (st_trace s ++ suffix).
Proof.
  intros s t orc suffix Hs Hv. pose proof (block_verdict s t orc) as V. split.
  - apply (vd_iff _ _ _ _ V suffix Hs). exact Hv.
  - apply (vd_rollback _ _ _ _ V suffix Hs Hv).
Qed.

Theorem veto_fails_fault_block : forall s t orc k suffix,
  st_trace (snd (step s (OFaultBlock t orc k))) = st_trace s ++ suffix ->
  vetoed s suffix = true ->
  fst (step s (OFaultBlock t orc k)) = BlockErr E_HOOK.
Proof.
  intros s t orc k suffix Hs Hv. pose proof (fault_block_verdict s t orc k) as V.
  apply (vd_iff _ _ _ _ V suffix Hs). exact Hv.
Qed.

(* an accepted operation made no vetoed call: the hook error is never swallowed *)
Theorem accepted_not_vetoed : forall s o suffix,
  is_call o -> st_trace (snd (step s o)) = st_trace s ++ suffix ->
  fst (step s o) = Accepted -> vetoed s suffix = false.
Proof.
  intros s o suffix Ho Hs Ha. pose proof (call_verdict s o Ho) as V.
  destruct (vetoed s suffix) eqn:Hv; [|reflexivity].
  apply (vd_iff _ _ _ _ V suffix Hs) in Hv. rewrite Ha in Hv. discriminate.
Qed.

Theorem block_ok_not_vetoed : forall s t orc suffix,
  st_trace (snd (step s (OBlock t orc))) = st_trace s ++ suffix ->
  fst (step s (OBlock t orc)) = BlockOk -> vetoed s suffix = false.
Proof.
  intros s t orc suffix Hs Ha. pose proof (block_verdict s t orc) as V.
  destruct (vetoed s suffix) eqn:Hv; [|reflexivity].
  apply (vd_iff _ _ _ _ V suffix Hs) in Hv. rewrite Ha in Hv. discriminate.
Qed.
