(* C17: the hook dispatcher (MultiFundraisingHooks), call_hook, and the hook call sites of the
   handlers and of BeginBlocker.  No axioms. *)
From Coq Require Import ZArith NArith List Bool Arith Lia.
From FR Require Import Dec Types Bank Match Step Genesis Model Spec Checkers.
Import ListNotations.
Open Scope Z_scope.

(* ================================================================== 1. the dispatcher *)
Definition mkcall (i kind : N) (args : list Z) : hookcall :=
  {| h_listener := i; h_kind := kind; h_args := args |}.
Definition vetoes (kind : N) (l : list N) : bool := existsb (N.eqb kind) l.

(* the calls to the n consecutive listeners i, i+1, ..., i+n-1 *)
Fixpoint calls_from (i : N) (n : nat) (kind : N) (args : list Z) : list hookcall :=
  match n with
  | O => []
  | S m => mkcall i kind args :: calls_from (i + 1)%N m kind args
  end.

(* index of the first listener that vetoes the kind *)
Fixpoint first_veto (kind : N) (ls : list (list N)) : option nat :=
  match ls with
  | [] => None
  | l :: r => if vetoes kind l then Some O else option_map S (first_veto kind r)
  end.

(* closed form of dispatch *)
Lemma dispatch_closed : forall ls i kind args,
  dispatch ls i kind args =
  match first_veto kind ls with
  | None => (true, calls_from i (length ls) kind args)
  | Some k => (false, calls_from i (S k) kind args)
  end.
Proof.
  induction ls as [|l r IH]; intros i kind args.
  - reflexivity.
  - cbn [dispatch first_veto length]. unfold vetoes.
    destruct (existsb (N.eqb kind) l) eqn:Hv.
    + reflexivity.
    + rewrite IH. destruct (first_veto kind r) as [k|]; reflexivity.
Qed.

Lemma calls_from_length : forall n i kind args, length (calls_from i n kind args) = n.
Proof. induction n as [|n IH]; intros i kind args; cbn; [reflexivity | now rewrite IH]. Qed.

Lemma calls_from_nth : forall n i kind args k,
  (k < n)%nat -> nth_error (calls_from i n kind args) k = Some (mkcall (i + N.of_nat k) kind args).
Proof.
  induction n as [|n IH]; intros i kind args k Hk; [lia|].
  destruct k as [|k]; cbn [calls_from nth_error].
  - now rewrite N.add_0_r.
  - rewrite IH by lia. f_equal. f_equal. lia.
Qed.

Lemma calls_from_nth_inv : forall n i kind args k c,
  nth_error (calls_from i n kind args) k = Some c -> (k < n)%nat /\ c = mkcall (i + N.of_nat k) kind args.
Proof.
  intros n i kind args k c H.
  assert (Hk : (k < n)%nat).
  { rewrite <- (calls_from_length n i kind args). apply nth_error_Some. congruence. }
  split; [exact Hk|]. rewrite calls_from_nth in H by exact Hk. congruence.
Qed.

Lemma calls_from_map : forall n i kind args,
  calls_from i n kind args = map (fun k => mkcall (i + N.of_nat k) kind args) (seq 0 n).
Proof.
  induction n as [|n IH]; intros i kind args; [reflexivity|].
  cbn [calls_from seq map]. rewrite N.add_0_r. f_equal.
  rewrite IH, <- seq_shift, map_map. apply map_ext. intros k. f_equal. lia.
Qed.

Lemma calls_from_snoc : forall n i kind args,
  calls_from i (S n) kind args = calls_from i n kind args ++ [mkcall (i + N.of_nat n) kind args].
Proof.
  induction n as [|n IH]; intros i kind args.
  - cbn. now rewrite N.add_0_r.
  - change (calls_from i (S (S n)) kind args) with (mkcall i kind args :: calls_from (i + 1)%N (S n) kind args).
    rewrite IH. cbn [calls_from app]. f_equal. f_equal. f_equal.
    replace (i + 1 + N.of_nat n)%N with (i + N.of_nat (S n))%N by lia. reflexivity.
Qed.

Lemma calls_from_In : forall n i kind args c,
  In c (calls_from i n kind args) -> h_kind c = kind /\ h_args c = args.
Proof.
  induction n as [|n IH]; intros i kind args c H; cbn in H; [contradiction|].
  destruct H as [H|H]; [subst c; split; reflexivity | eapply IH; exact H].
Qed.

(* --- first_veto --- *)
Lemma first_veto_None : forall kind ls,
  first_veto kind ls = None <-> (forall l, In l ls -> vetoes kind l = false).
Proof.
  induction ls as [|l r IH]; cbn [first_veto In].
  - split; [intros _ l [] | reflexivity].
  - destruct (vetoes kind l) eqn:Hv.
    + split; [discriminate|]. intros H. specialize (H l (or_introl eq_refl)). congruence.
    + destruct (first_veto kind r) as [k|] eqn:Hf; cbn [option_map].
      * split; [discriminate|]. intros H.
        destruct IH as [_ IH2]. specialize (IH2 (fun l0 Hl0 => H l0 (or_intror Hl0))). discriminate.
      * split; [|reflexivity]. intros _ l0 [Hl0|Hl0]; [now subst l0|].
        apply (proj1 IH eq_refl). exact Hl0.
Qed.

Lemma first_veto_Some : forall kind ls k,
  first_veto kind ls = Some k <->
  (exists l, nth_error ls k = Some l /\ vetoes kind l = true) /\
  (forall j l, (j < k)%nat -> nth_error ls j = Some l -> vetoes kind l = false).
Proof.
  induction ls as [|l r IH]; intros k; cbn [first_veto].
  - split; [discriminate|]. intros [[l [H _]] _]. destruct k; discriminate.
  - destruct (vetoes kind l) eqn:Hv.
    + split.
      * intros H. injection H as <-. split; [exists l; split; [reflexivity|exact Hv] | intros j l0 Hj; lia].
      * intros [[l0 [Hn Hl0]] Hlt]. destruct k as [|k]; [reflexivity|].
        specialize (Hlt O l (Nat.lt_0_succ k) eq_refl). congruence.
    + destruct (first_veto kind r) as [k0|] eqn:Hf; cbn [option_map].
      * split.
        -- intros H. injection H as <-. destruct (proj1 (IH k0) eq_refl) as [[l0 [Hn Hl0]] Hlt]. split.
           ++ exists l0. split; [exact Hn | exact Hl0].
           ++ intros j l1 Hj Hn1. destruct j as [|j]; [cbn in Hn1; congruence|].
              apply (Hlt j l1); [lia | exact Hn1].
        -- intros [[l0 [Hn Hl0]] Hlt]. destruct k as [|k]; [cbn in Hn; congruence|].
           f_equal. assert (Hk : Some k0 = Some k); [|congruence].
           apply IH. split; [exists l0; split; assumption|].
           intros j l1 Hj Hn1. apply (Hlt (S j) l1); [lia | exact Hn1].
      * split; [discriminate|]. intros [[l0 [Hn Hl0]] Hlt].
        destruct k as [|k]; [cbn in Hn; congruence|].
        assert (Hk : @None nat = Some k); [|discriminate].
        apply IH. split; [exists l0; split; assumption|].
        intros j l1 Hj Hn1. apply (Hlt (S j) l1); [lia | exact Hn1].
Qed.

Lemma first_veto_lt : forall kind ls k, first_veto kind ls = Some k -> (k < length ls)%nat.
Proof.
  intros kind ls k H. apply first_veto_Some in H as [[l [Hn _]] _].
  apply nth_error_Some. congruence.
Qed.

(* --- the statements of item 1 --- *)
(* every call carries the kind and the arguments of the hook *)
Lemma dispatch_kind_args : forall ls i kind args ok cs,
  dispatch ls i kind args = (ok, cs) -> forall c, In c cs -> h_kind c = kind /\ h_args c = args.
Proof.
  intros ls i kind args ok cs H c Hc. rewrite dispatch_closed in H.
  destruct (first_veto kind ls) as [k|]; injection H as <- <-.
  - exact (calls_from_In (S k) i kind args c Hc).
  - exact (calls_from_In (length ls) i kind args c Hc).
Qed.

(* the k-th call goes to listener i + k *)
Lemma dispatch_listeners : forall ls i kind args ok cs,
  dispatch ls i kind args = (ok, cs) ->
  forall k c, nth_error cs k = Some c -> h_listener c = (i + N.of_nat k)%N.
Proof.
  intros ls i kind args ok cs H k c Hc. rewrite dispatch_closed in H.
  destruct (first_veto kind ls) as [k0|]; injection H as <- <-.
  - apply (calls_from_nth_inv (S k0)) in Hc as [_ ->]; reflexivity.
  - apply calls_from_nth_inv in Hc as [_ ->]; reflexivity.
Qed.

Lemma dispatch_ok_iff : forall ls i kind args ok cs,
  dispatch ls i kind args = (ok, cs) ->
  (ok = true <-> forall l, In l ls -> existsb (N.eqb kind) l = false).
Proof.
  intros ls i kind args ok cs H. rewrite dispatch_closed in H.
  destruct (first_veto kind ls) as [k|] eqn:Hf; injection H as <- <-.
  - split; [discriminate|]. intros Hall. apply first_veto_None in Hall. congruence.
  - split; [|reflexivity]. intros _. apply first_veto_None. exact Hf.
Qed.

(* success: every listener is called exactly once, in order *)
Lemma dispatch_ok_calls : forall ls i kind args cs,
  dispatch ls i kind args = (true, cs) -> cs = calls_from i (length ls) kind args.
Proof.
  intros ls i kind args cs H. rewrite dispatch_closed in H.
  destruct (first_veto kind ls) as [k|]; [discriminate | congruence].
Qed.

Lemma dispatch_ok_length : forall ls i kind args cs,
  dispatch ls i kind args = (true, cs) -> length cs = length ls.
Proof. intros ls i kind args cs H. apply dispatch_ok_calls in H as ->. apply calls_from_length. Qed.

Lemma dispatch_veto_iff : forall ls i kind args ok cs,
  dispatch ls i kind args = (ok, cs) ->
  (ok = false <-> exists l, In l ls /\ existsb (N.eqb kind) l = true).
Proof.
  intros ls i kind args ok cs H. pose proof (dispatch_ok_iff _ _ _ _ _ _ H) as Hok. split.
  - intros ->. rewrite dispatch_closed in H.
    destruct (first_veto kind ls) as [k|] eqn:Hf; [|discriminate].
    apply first_veto_Some in Hf as [[l [Hn Hl]] _]. exists l. split; [eapply nth_error_In; exact Hn | exact Hl].
  - intros [l [Hin Hl]]. destruct ok; [|reflexivity].
    rewrite (proj1 Hok eq_refl l Hin) in Hl. discriminate.
Qed.

(* failure: the calls are exactly those to the listeners up to and including the first vetoing one *)
Lemma dispatch_veto_calls : forall ls i kind args cs,
  dispatch ls i kind args = (false, cs) ->
  exists k l, nth_error ls k = Some l /\ existsb (N.eqb kind) l = true
    /\ (forall j l', (j < k)%nat -> nth_error ls j = Some l' -> existsb (N.eqb kind) l' = false)
    /\ cs = calls_from i (S k) kind args /\ length cs = S k.
Proof.
  intros ls i kind args cs H. rewrite dispatch_closed in H.
  destruct (first_veto kind ls) as [k|] eqn:Hf; [|discriminate]. injection H as <-.
  apply first_veto_Some in Hf as [[l [Hn Hl]] Hlt].
  exists k, l. repeat split; try assumption. exact (calls_from_length (S k) i kind args).
Qed.

(* later listeners are not called *)
Lemma dispatch_veto_not_called : forall ls i kind args cs,
  dispatch ls i kind args = (false, cs) ->
  exists k, first_veto kind ls = Some k /\
    forall c, In c cs -> (i <= h_listener c <= i + N.of_nat k)%N.
Proof.
  intros ls i kind args cs H. rewrite dispatch_closed in H.
  destruct (first_veto kind ls) as [k|] eqn:Hf; [|discriminate]. injection H as <-.
  exists k. split; [reflexivity|]. intros c Hc. apply In_nth_error in Hc as [j Hj].
  apply (calls_from_nth_inv (S k)) in Hj as [Hlt ->]. cbn [mkcall h_listener]. lia.
Qed.

(* ================================================================== 2. call_hook *)
Lemma no_veto_first : forall s kind, no_veto s kind = true <-> first_veto kind (st_listeners s) = None.
Proof.
  intros s kind. unfold no_veto. rewrite negb_true_iff.
  generalize (st_listeners s) as ls. induction ls as [|l r IH]; cbn [existsb first_veto].
  - split; reflexivity.
  - unfold vetoes. destruct (existsb (N.eqb kind) l); cbn [orb].
    + split; discriminate.
    + rewrite IH. destruct (first_veto kind r); cbn; split; congruence.
Qed.

Lemma no_veto_false_first : forall s kind,
  no_veto s kind = false <-> exists k, first_veto kind (st_listeners s) = Some k.
Proof.
  intros s kind. pose proof (no_veto_first s kind) as H.
  destruct (no_veto s kind); destruct (first_veto kind (st_listeners s)) as [k|].
  - destruct H as [H _]. specialize (H eq_refl). discriminate.
  - split; [discriminate | intros [k Hk]; discriminate].
  - split; [intros _; exists k; reflexivity | reflexivity].
  - destruct H as [_ H]. specialize (H eq_refl). discriminate.
Qed.

(* the full call list of a hook that nobody vetoes: one call per registered listener, in order *)
Definition all_calls (s : state) (kind : N) (args : list Z) : list hookcall :=
  calls_from 0 (length (st_listeners s)) kind args.

Lemma all_calls_expected : forall s kind args,
  all_calls s kind args = expected_trace s [(kind, args)].
Proof.
  intros s kind args. unfold all_calls, expected_trace. cbn [flat_map fst snd]. rewrite app_nil_r.
  rewrite calls_from_map. apply map_ext. intros k. reflexivity.
Qed.

Lemma call_hook_ok : forall s kind args,
  no_veto s kind = true ->
  call_hook s kind args = Ok (with_trace s (st_trace s ++ all_calls s kind args)).
Proof.
  intros s kind args H. apply no_veto_first in H. unfold call_hook, all_calls.
  rewrite dispatch_closed, H. reflexivity.
Qed.

Lemma call_hook_err : forall s kind args,
  no_veto s kind = false ->
  exists k, first_veto kind (st_listeners s) = Some k /\
            call_hook s kind args = Err E_HOOK (st_trace s ++ calls_from 0 (S k) kind args).
Proof.
  intros s kind args H. apply no_veto_false_first in H as [k Hk]. exists k. split; [exact Hk|].
  unfold call_hook. rewrite dispatch_closed, Hk. reflexivity.
Qed.

Lemma call_hook_spec : forall s kind args,
  let cs := snd (dispatch (st_listeners s) 0 kind args) in
  (no_veto s kind = true -> call_hook s kind args = Ok (with_trace s (st_trace s ++ cs))) /\
  (no_veto s kind = false -> call_hook s kind args = Err E_HOOK (st_trace s ++ cs)).
Proof.
  intros s kind args cs. subst cs. unfold call_hook.
  destruct (dispatch (st_listeners s) 0 kind args) as [ok cs] eqn:Hd. cbn [snd].
  pose proof (dispatch_ok_iff _ _ _ _ _ _ Hd) as Hok.
  assert (Hnv : no_veto s kind = ok).
  { rewrite dispatch_closed in Hd. destruct (no_veto s kind) eqn:Hn.
    - apply no_veto_first in Hn. rewrite Hn in Hd. congruence.
    - apply no_veto_false_first in Hn as [k Hk]. rewrite Hk in Hd. congruence. }
  rewrite Hnv. destruct ok; split; intros H; try discriminate; reflexivity.
Qed.

Lemma call_hook_ok_iff : forall s kind args,
  (exists s', call_hook s kind args = Ok s') <-> no_veto s kind = true.
Proof.
  intros s kind args. split.
  - intros [s' H]. destruct (no_veto s kind) eqn:Hn; [reflexivity|].
    apply (call_hook_err s kind args) in Hn as [k [_ He]]. congruence.
  - intros H. eexists. apply call_hook_ok. exact H.
Qed.

Lemma call_hook_ok_inv : forall s kind args s',
  call_hook s kind args = Ok s' ->
  no_veto s kind = true /\ s' = with_trace s (st_trace s ++ all_calls s kind args).
Proof.
  intros s kind args s' H.
  assert (Hn : no_veto s kind = true) by (apply (call_hook_ok_iff s kind args); eauto).
  split; [exact Hn|]. rewrite (call_hook_ok s kind args Hn) in H. congruence.
Qed.

Lemma call_hook_err_inv : forall s kind args c tr,
  call_hook s kind args = Err c tr ->
  c = E_HOOK /\ no_veto s kind = false /\
  exists k, first_veto kind (st_listeners s) = Some k /\ tr = st_trace s ++ calls_from 0 (S k) kind args.
Proof.
  intros s kind args c tr H. destruct (no_veto s kind) eqn:Hn.
  - rewrite (call_hook_ok s kind args Hn) in H. discriminate.
  - destruct (call_hook_err s kind args Hn) as [k [Hk He]]. rewrite He in H. injection H as <- <-.
    split; [reflexivity|]. split; [reflexivity|]. exists k. split; [exact Hk | reflexivity].
Qed.

