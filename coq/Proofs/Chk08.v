(* Checker link for C08 (lifecycle): Checkers.c08_ok can never fire on a transition of the model taken from a
   state satisfying the global invariant; with VestingPending.vesting_pending also c08_all. *)
From Coq Require Import ZArith NArith List Bool Arith Lia.
From FR Require Import Dec Types Bank Match Step Genesis Model Spec Checkers.
From FR.Proofs Require Import InvDefs FrameFacts TxFacts BlockFacts LifeTheorems InvAll FixedFacts.
From FR.Proofs Require GenesisImport VestingPending.
Import ListNotations.
Open Scope Z_scope.

(* ------------------------------------------------------------------ small facts *)
Lemma list_eqb_Z_refl l : list_eqb Z.eqb l l = true.
Proof. induction l as [|x l IH]; cbn [list_eqb]; [reflexivity|]. rewrite Z.eqb_refl, IH. reflexivity. Qed.

Lemma list_eqb_Z_app_ne x : forall l, list_eqb Z.eqb l (l ++ [x]) = false.
Proof. induction l as [|y l IH]; cbn [list_eqb app]; [reflexivity|]. rewrite Z.eqb_refl, IH. reflexivity. Qed.

Lemma class_blockok_iff out : oclass_eqb (class_of out) KBlockOk = true <-> out = BlockOk.
Proof.
  destruct out; cbn; split; intros H; try reflexivity; try discriminate H.
  destruct (N.eqb code E_PANIC); discriminate H.
Qed.

Lemma class_blockerr c : oclass_eqb (class_of (BlockErr c)) KBlockOk = false.
Proof. cbn. destruct (N.eqb c E_PANIC); reflexivity. Qed.

Lemma op_eq_genesis_dec (o : op) : {o = OGenesis} + {o <> OGenesis}.
Proof. destruct o; try (right; discriminate). left. reflexivity. Qed.

(* the pairs of the checker *)
Definition pairs_of (s s' : state) : list (auction * auction) :=
  flat_map (fun a => match find_auction s' (a_id a) with Some a' => [(a, a')] | None => [] end) (st_auctions s).

Lemma in_pairs_gen s' : forall l a a',
  In (a, a') (flat_map (fun a => match find_auction s' (a_id a) with Some a' => [(a, a')] | None => [] end) l) ->
  In a l /\ find_auction s' (a_id a) = Some a'.
Proof.
  intros l a a' H. apply in_flat_map in H. destruct H as (x & Hx & H).
  destruct (find_auction s' (a_id x)) as [x'|] eqn:F; [|contradiction].
  destruct H as [H|[]]. injection H as -> ->. auto.
Qed.

Lemma pairs_length_gen s' : forall l,
  (forall a, In a l -> exists a', find_auction s' (a_id a) = Some a') ->
  length (flat_map (fun a => match find_auction s' (a_id a) with Some a' => [(a, a')] | None => [] end) l) = length l.
Proof.
  induction l as [|a l IH]; intros H; [reflexivity|]. cbn [flat_map].
  destruct (H a (or_introl eq_refl)) as (a' & ->). cbn [app length]. f_equal. apply IH.
  intros x Hx. apply H. right. exact Hx.
Qed.

(* ------------------------------------------------------------------ the timing conditions of a successful block *)
Lemma block_rel_check t orc s a a' :
  block_rel t orc s a a' ->
  match a_status a with
  | StandBy => Bool.eqb (status_eqb (a_status a') Started) (a_start a <=? t) && forward (a_status a) (a_status a')
               && negb (status_eqb (a_status a') Cancelled)
  | Started => Bool.eqb (settled (a_status a') || negb (list_eqb Z.eqb (a_ends a) (a_ends a'))) (last_end a <=? t)
  | VestingS => Bool.eqb (status_eqb (a_status a') Finished) (last_due t (vqs_of s (a_id a)))
  | _ => true
  end = true.
Proof.
  unfold block_rel. destruct (a_status a) eqn:St.
  - destruct (a_start a <=? t); intros ->; cbn [a_status set_status]; [reflexivity|rewrite St; reflexivity].
  - destruct (last_end a <=? t).
    + destruct (a_type a).
      * intros ->. cbn [a_status set_status]. destruct (settled_st_cases a) as [-> | ->]; reflexivity.
      * intros (order & mi & _ & _ & ->). destruct (decision s a mi).
        -- unfold extended. cbn [a_status a_ends set_ends set_matched_price]. rewrite St, list_eqb_Z_app_ne. reflexivity.
        -- cbn [a_status set_status]. destruct (settled_st_cases a) as [-> | ->]; reflexivity.
    + intros ->. rewrite St, list_eqb_Z_refl. reflexivity.
  - destruct (last_due t (vqs_of s (a_id a))); intros ->; cbn [a_status set_status]; [reflexivity|rewrite St; reflexivity].
  - reflexivity.
  - reflexivity.
Qed.

(* ------------------------------------------------------------------ the model's transition, auction by auction *)
Lemma genesis_same s out s' :
  Inv s -> step (ghost_reset s) OGenesis = (out, s') ->
  out = GenOk true /\ GenesisImport.state_same (ghost_reset s) s'.
Proof.
  intros I Es. destruct (GenesisImport.genesis_step _ (Inv_ghost_reset s I)) as (s1 & Hs & SS). rewrite Hs in Es.
  injection Es as <- <-. auto.
Qed.

(* every auction of the pre-state has a record in the post-state *)
Lemma post_find s o out s' a :
  Inv s -> step (ghost_reset s) o = (out, s') ->
  In a (st_auctions s) -> exists a', find_auction s' (a_id a) = Some a'.
Proof.
  intros I Es Ha. pose proof (Inv_find_in s a I Ha) as F.
  pose proof (Inv_ids_ok _ (Inv_ghost_reset s I)) as OK0.
  assert (Es2 : snd (step (ghost_reset s) o) = s') by (rewrite Es; reflexivity).
  destruct (op_eq_genesis_dec o) as [Eo|Hg].
  - subst o. destruct (genesis_same _ _ _ I Es) as [_ SS]. exists a. unfold find_auction.
    rewrite (GenesisImport.ss_auctions _ _ SS). exact F.
  - destruct (step_auction (ghost_reset s) o (a_id a) a OK0 Hg F) as (a' & F' & _).
    rewrite Es2 in F'. exists a'. exact F'.
Qed.

Lemma pair_ok s o out s' a a' :
  Inv s -> step (ghost_reset s) o = (out, s') ->
  In a (st_auctions s) -> find_auction s' (a_id a) = Some a' ->
  forward (a_status a) (a_status a')
  && (if Checkers.is_block o && oclass_eqb (class_of out) KBlockOk then
        let tm := Checkers.block_time o in
        match a_status a with
        | StandBy => Bool.eqb (status_eqb (a_status a') Started) (a_start a <=? tm) && forward (a_status a) (a_status a')
                     && negb (status_eqb (a_status a') Cancelled)
        | Started => Bool.eqb (settled (a_status a') || negb (list_eqb Z.eqb (a_ends a) (a_ends a'))) (last_end a <=? tm)
        | VestingS => Bool.eqb (status_eqb (a_status a') Finished)
                               (match rev (vqs_of s (a_id a)) with
                                | v :: _ => negb (v_released v) && (v_time v <=? tm) | [] => false end)
        | _ => true
        end
      else
        status_eqb (a_status a) (a_status a')
        || (status_eqb (a_status a) StandBy && status_eqb (a_status a') Cancelled
            && match o with OTx (MCancel _ id) => N.eqb id (a_id a) | _ => false end)) = true.
Proof.
  intros I Es Ha F'. pose proof (Inv_find_in s a I Ha) as F.
  pose proof (Inv_ids_ok _ (Inv_ghost_reset s I)) as OK0.
  assert (Es1 : fst (step (ghost_reset s) o) = out) by (rewrite Es; reflexivity).
  assert (Es2 : snd (step (ghost_reset s) o) = s') by (rewrite Es; reflexivity).
  destruct (op_eq_genesis_dec o) as [Eo|Hg].
  - subst o. destruct (genesis_same _ _ _ I Es) as [_ SS].
    assert (a' = a).
    { unfold find_auction in F'. rewrite (GenesisImport.ss_auctions _ _ SS) in F'.
      change (find_auction s (a_id a) = Some a') in F'. congruence. }
    subst a'. cbn [Checkers.is_block andb]. rewrite forward_refl, status_eqb_refl. reflexivity.
  - destruct (step_auction (ghost_reset s) o (a_id a) a OK0 Hg F) as (a'' & F'' & R).
    rewrite Es2 in F''. assert (a'' = a') by congruence. subst a''.
    apply andb_true_iff. split; [exact (step_arel_forward _ _ _ _ R)|].
    unfold step_arel in R. rewrite Es1 in R.
    change (Checkers.is_block o) with (FrameFacts.is_block o).
    change (Checkers.block_time o) with (FrameFacts.block_time o).
    destruct (FrameFacts.is_block o) eqn:B.
    + destruct R as [[Ho R]|[(c & Hc) ->]].
      * rewrite Ho. cbn [class_of oclass_eqb andb]. cbv zeta.
        exact (block_rel_check _ _ _ _ _ R).
      * rewrite Hc, class_blockerr. cbn [andb]. rewrite status_eqb_refl. reflexivity.
    + cbn [andb]. destruct R as [->|[(St & Ho & (who & ->) & ->)|(St & _ & _ & x & ->)]].
      * rewrite status_eqb_refl. reflexivity.
      * rewrite a_status_cancel_of, St, N.eqb_refl. reflexivity.
      * cbn [a_status set_remaining]. rewrite status_eqb_refl. reflexivity.
Qed.

Lemma new_ok s o out s' a' :
  Inv s -> step (ghost_reset s) o = (out, s') ->
  In a' (st_auctions s') ->
  match find_auction s (a_id a') with
  | Some _ => true
  | None => match o with
            | OGenesis => true
            | _ => status_eqb (a_status a') (if a_start a' <=? st_now s then Started else StandBy)
            end
  end = true.
Proof.
  intros I Es HI. destruct (find_auction s (a_id a')) as [a|] eqn:F; [reflexivity|].
  pose proof (Inv_ids_ok _ (Inv_ghost_reset s I)) as OK0.
  assert (Es2 : snd (step (ghost_reset s) o) = s') by (rewrite Es; reflexivity).
  destruct (op_eq_genesis_dec o) as [Eo|Hg]; [subst o; reflexivity|].
  assert (HI0 : In a' (st_auctions (snd (step (ghost_reset s) o)))) by (rewrite Es2; exact HI).
  destruct (step_auctions_origin (ghost_reset s) o a' OK0 Hg HI0) as [(a & Ha & R)|C].
  - exfalso. destruct (step_arel_terms _ _ _ _ R) as (Hid & _).
    pose proof (Inv_find_in s a I Ha) as Fa. rewrite <- Hid in Fa. congruence.
  - destruct C as ((m & -> & _) & _ & _ & _ & _ & St & _).
    change (st_now (ghost_reset s)) with (st_now s) in St. rewrite St. apply status_eqb_refl.
Qed.

Lemma open_ok s o out s' :
  step (ghost_reset s) o = (out, s') ->
  match o, class_of out with
  | OTx (MPlaceBid _ id _ _ _), KOk | OTx (MModifyBid _ id _ _ _), KOk =>
      match find_auction s id with Some a => status_eqb (a_status a) Started | None => false end
  | _, _ => true
  end = true.
Proof.
  intros Es.
  assert (Es1 : fst (step (ghost_reset s) o) = out) by (rewrite Es; reflexivity).
  destruct o as [m|id l|id u max|t orc|t orc k|from to d amt|ls|]; try reflexivity.
  destruct m as [| | |who id bt price coin|who id bid price coin| |]; try reflexivity.
  - destruct (class_of out) eqn:Ec; try reflexivity.
    assert (Ho : out = Accepted) by (apply class_ok_iff; rewrite Ec; reflexivity).
    rewrite Ho in Es1.
    destruct (L_C08_bids_only_open_place _ _ _ _ _ _ Es1) as (a & Fa & St).
    change (find_auction s id = Some a) in Fa. rewrite Fa, St. reflexivity.
  - destruct (class_of out) eqn:Ec; try reflexivity.
    assert (Ho : out = Accepted) by (apply class_ok_iff; rewrite Ec; reflexivity).
    rewrite Ho in Es1.
    destruct (L_C08_bids_only_open_modify _ _ _ _ _ _ Es1) as (a & Fa & St).
    change (find_auction s id = Some a) in Fa. rewrite Fa, St. reflexivity.
Qed.

(* ------------------------------------------------------------------ the executable statement (Checkers.c08_ok) *)
Theorem c08_ok_model s o : Inv s -> c08_ok (model_trans s o) = true.
Proof.
  intros I. unfold model_trans. fold (ghost_reset s).
  destruct (step (ghost_reset s) o) as [out s'] eqn:Es.
  unfold c08_ok, paired. cbn [t_post t_pre t_op t_class].
  repeat (apply andb_true_iff; split).
  - apply forallb_forall. intros [a a'] Hp. apply in_pairs_gen in Hp. destruct Hp as [Ha F'].
    cbn [fst snd]. exact (pair_ok s o out s' a a' I Es Ha F').
  - apply Nat.leb_le. rewrite pairs_length_gen; [lia|].
    intros a Ha. exact (post_find s o out s' a I Es Ha).
  - apply forallb_forall. intros a' Ha'. exact (new_ok s o out s' a' I Es Ha').
  - exact (open_ok s o out s' Es).
Qed.

Theorem c08_all_model s o :
  Inv s -> VestingPending.vesting_pending s -> c08_all (model_trans s o) = true.
Proof.
  intros I VP. unfold c08_all. apply andb_true_iff. split.
  - apply c08_ok_model, I.
  - apply VestingPending.pending_ok_model; assumption.
Qed.
