(* C13, last clause: "there are never more than one plus the maximum extended rounds of them, so every auction
   eventually settles".  From any state satisfying the global invariant, with no vetoing listener, a started batch
   auction is settled after at most max_extended_round + 1 blocks whose time is late enough, whatever the bids
   (the sweep order used is the price-descending one, LiveFacts.natural_orc; any valid oracle would do). *)
From Coq Require Import ZArith NArith List Bool Arith Lia.
From FR Require Import Dec Types Bank Match Step Genesis Model Spec.
From FR.Proofs Require Import InvDefs FrameFacts TxFacts BlockFacts InvStaticBase.
From FR.Proofs Require LifeTheorems PrecondBase.
From FR.Proofs Require Import EscrowBase EscrowTx EscrowBlock InvAll FixedFacts LiveFacts.
Import ListNotations.
Open Scope Z_scope.

(* n blocks at time T, each with the natural sweep orders of its pre-state *)
Fixpoint blocks (s : state) (T : Z) (n : nat) : state :=
  match n with
  | O => s
  | S k => blocks (snd (step s (OBlock T (natural_orc s)))) T k
  end.

Definition rounds_left (a : auction) : nat := N.to_nat (a_max_round a) + 1 - length (a_ends a).
Definition is_settled (a : auction) : Prop := a_status a = VestingS \/ a_status a = Finished.

Lemma last_app_single (l : list Z) x d : last (l ++ [x]) d = x.
Proof. induction l as [|y r IH]; [reflexivity|]. cbn [app]. destruct (r ++ [x]) eqn:E; [destruct r; discriminate E|exact IH]. Qed.

(* one late block on a started batch auction: settled, or one round less to go *)
Lemma late_block s id a T :
  Inv s -> st_listeners s = [] -> find_auction s id = Some a -> a_status a = Started -> a_type a = Batch ->
  last_end a <= T ->
  let s' := snd (step s (OBlock T (natural_orc s))) in
  Inv s' /\ st_listeners s' = [] /\ st_params s' = st_params s /\
  exists a', find_auction s' id = Some a' /\
    (is_settled a' \/
     (a_status a' = Started /\ a_type a' = Batch /\ a_max_round a' = a_max_round a /\
      (rounds_left a' < rounds_left a)%nat /\
      last_end a' = last_end a + p_period (st_params s) * day_ns)).
Proof.
  intros I HL Fa St Ty HT s'.
  assert (Hnv : no_veto s H_BeforeAllocated = true) by (unfold no_veto; rewrite HL; reflexivity).
  destruct (block_never_fails s T (natural_orc s) I Hnv (natural_oracle_ok s T I)) as [Hok I'].
  fold s' in I'. split; [exact I'|].
  (* the fields a block never writes *)
  assert (Hb : begin_block s T (natural_orc s) = Ok s').
  { unfold s'. cbn [step] in *. destruct (begin_block s T (natural_orc s)) as [x|c tr]; [reflexivity|discriminate Hok]. }
  assert (HG : st_listeners s' = st_listeners s /\ st_params s' = st_params s).
  { unfold begin_block in Hb. cbv zeta in Hb.
    assert (G : forall l s0 s1, process_all T (natural_orc s) s0 l = Ok s1 -> st_listeners s1 = st_listeners s0 /\ st_params s1 = st_params s0).
    { induction l as [|x l IH]; cbn [process_all]; intros s0 s1 H; [injection H as <-; auto|].
      destruct (process T (natural_orc s) s0 x) as [s2|] eqn:E; cbn [bind] in H; [|discriminate].
      destruct (process_spec _ _ _ _ _ E) as [PE _]. destruct (pe_glob _ _ _ PE) as (P1 & _ & _ & P4 & _).
      destruct (IH _ _ H) as [Q1 Q2]. split; congruence. }
    destruct (G _ _ _ Hb) as [G1 G2]. split; [exact G1|exact G2]. }
  destruct HG as [HG1 HG2]. split; [congruence|]. split; [exact HG2|].
  destruct (LifeTheorems.L_C08_block_rel s (OBlock T (natural_orc s)) id a (Inv_ids_ok s I) eq_refl Hok Fa) as (a' & Fa' & R).
  exists a'. split; [exact Fa'|].
  cbn [FrameFacts.block_time block_orc] in R. unfold block_rel in R. rewrite St in R.
  apply Z.leb_le in HT. rewrite HT, Ty in R. destruct R as (order & mi & _ & _ & ->).
  destruct (decision s a mi) eqn:D.
  - right. unfold extended. cbn [a_status a_type a_max_round set_ends set_matched_price]. repeat split; try assumption.
    + unfold rounds_left. cbn [a_ends a_max_round set_ends set_matched_price]. rewrite app_length. cbn [length].
      unfold decision in D. apply andb_true_iff in D. destruct D as [D _]. apply negb_true_iff, N.eqb_neq in D.
      pose proof (inv_auctions _ I) as W. unfold auctions_wf in W. rewrite Forall_forall in W.
      pose proof (awf_ends _ (W a (proj1 (find_auction_some _ _ _ Fa)))) as Hb'. lia.
    + unfold last_end. cbn [a_ends set_ends]. apply last_app_single.
  - left. unfold is_settled, settled_st. cbn [a_status set_status]. destruct (a_scheds a); auto.
Qed.

Theorem eventually_settles : forall k s id a T,
  (rounds_left a <= k)%nat ->
  Inv s -> st_listeners s = [] -> 0 <= p_period (st_params s) ->
  find_auction s id = Some a -> a_status a = Started -> a_type a = Batch ->
  last_end a + Z.of_nat (rounds_left a) * (p_period (st_params s) * day_ns) <= T ->
  exists n a', (n <= k + 1)%nat /\ find_auction (blocks s T n) id = Some a' /\ is_settled a'.
Proof.
  induction k as [|k IH]; intros s id a T Hk I HL Hp Fa St Ty HT.
  - (* no round left: the next late block settles *)
    assert (Hr : rounds_left a = 0%nat) by lia. rewrite Hr in HT. cbn in HT.
    destruct (late_block s id a T I HL Fa St Ty) as (I' & HL' & HP' & a' & Fa' & [Hs|(_ & _ & _ & Hlt & _)]); [lia| |lia].
    exists 1%nat, a'. repeat split; [lia|exact Fa'|exact Hs].
  - assert (Hday : 0 <= p_period (st_params s) * day_ns) by (unfold day_ns; lia).
    assert (HT0 : last_end a <= T) by nia.
    destruct (late_block s id a T I HL Fa St Ty HT0) as (I' & HL' & HP' & a' & Fa' & [Hs|(St' & Ty' & Hm & Hlt & Hle)]).
    + exists 1%nat, a'. repeat split; [lia|exact Fa'|exact Hs].
    + set (s1 := snd (step s (OBlock T (natural_orc s)))) in *.
      destruct (IH s1 id a' T) as (n & a'' & Hn & Fn & Hs); try assumption.
      * lia.
      * rewrite HP'. exact Hp.
      * rewrite HP', Hle.
        assert (Hz : Z.of_nat (rounds_left a') + 1 <= Z.of_nat (rounds_left a)) by lia. nia.
      * exists (S n), a''. repeat split; [lia|exact Fn|exact Hs].
Qed.

(* in the form of the property: at most 1 + max_extended_round late blocks *)
Corollary batch_auction_settles s id a T :
  Inv s -> st_listeners s = [] -> 0 <= p_period (st_params s) ->
  find_auction s id = Some a -> a_status a = Started -> a_type a = Batch ->
  last_end a + Z.of_N (a_max_round a + 1) * (p_period (st_params s) * day_ns) <= T ->
  exists n a', (n <= N.to_nat (a_max_round a) + 2)%nat /\ find_auction (blocks s T n) id = Some a' /\ is_settled a'.
Proof.
  intros I HL Hp Fa St Ty HT.
  assert (Hr : (rounds_left a <= N.to_nat (a_max_round a) + 1)%nat) by (unfold rounds_left; lia).
  destruct (eventually_settles (N.to_nat (a_max_round a) + 1) s id a T Hr I HL Hp Fa St Ty) as (n & a' & Hn & F & S).
  - assert (Hday : 0 <= p_period (st_params s) * day_ns) by (unfold day_ns; lia).
    assert (Z.of_nat (rounds_left a) <= Z.of_N (a_max_round a + 1)) by (unfold rounds_left; lia). nia.
  - exists n, a'. repeat split; [lia|exact F|exact S].
Qed.

(* ------------------------------------------------------------------ the whole life of an auction terminates *)
From FR.Proofs Require Import VestingPending.

Definition is_terminal (a : auction) : Prop := a_status a = Finished \/ a_status a = Cancelled.

(* one late block, whatever the status: the generic facts *)
Lemma late_block_any s id a T :
  Inv s -> vesting_pending s -> st_listeners s = [] -> find_auction s id = Some a ->
  let s' := snd (step s (OBlock T (natural_orc s))) in
  Inv s' /\ vesting_pending s' /\ st_listeners s' = [] /\ st_params s' = st_params s /\
  exists a', find_auction s' id = Some a' /\ block_rel T (natural_orc s) s a a'.
Proof.
  intros I VP HL Fa s'.
  assert (Hnv : no_veto s H_BeforeAllocated = true) by (unfold no_veto; rewrite HL; reflexivity).
  destruct (block_never_fails s T (natural_orc s) I Hnv (natural_oracle_ok s T I)) as [Hok I'].
  fold s' in I'. split; [exact I'|]. split; [apply vesting_pending_step; assumption|].
  assert (Hb : begin_block s T (natural_orc s) = Ok s').
  { unfold s'. cbn [step] in *. destruct (begin_block s T (natural_orc s)) as [x|c tr]; [reflexivity|discriminate Hok]. }
  assert (HG : st_listeners s' = st_listeners s /\ st_params s' = st_params s).
  { unfold begin_block in Hb. cbv zeta in Hb.
    assert (G : forall l s0 s1, process_all T (natural_orc s) s0 l = Ok s1 -> st_listeners s1 = st_listeners s0 /\ st_params s1 = st_params s0).
    { induction l as [|x l IH]; cbn [process_all]; intros s0 s1 H; [injection H as <-; auto|].
      destruct (process T (natural_orc s) s0 x) as [s2|] eqn:E; cbn [bind] in H; [|discriminate].
      destruct (process_spec _ _ _ _ _ E) as [PE _]. destruct (pe_glob _ _ _ PE) as (P1 & _ & _ & P4 & _).
      destruct (IH _ _ H) as [Q1 Q2]. split; congruence. }
    destruct (G _ _ _ Hb) as [G1 G2]. split; [exact G1|exact G2]. }
  destruct HG as [HG1 HG2]. split; [congruence|]. split; [exact HG2|].
  destruct (LifeTheorems.L_C08_block_rel s (OBlock T (natural_orc s)) id a (Inv_ids_ok s I) eq_refl Hok Fa) as (a' & Fa' & R).
  exists a'. split; [exact Fa'|exact R].
Qed.

(* T is late for auction a: past its start, past every end time it can still get, past every release time *)
Definition late_for (s : state) (a : auction) (T : Z) : Prop :=
  a_start a <= T /\
  last_end a + Z.of_N (a_max_round a + 1) * (p_period (st_params s) * day_ns) <= T /\
  (forall v, In v (a_scheds a) -> s_time v <= T).

(* a vesting auction finishes in one late block *)
Lemma late_block_vesting s id a T :
  Inv s -> vesting_pending s -> st_listeners s = [] -> find_auction s id = Some a -> a_status a = VestingS ->
  (forall v, In v (a_scheds a) -> s_time v <= T) ->
  exists a', find_auction (blocks s T 1) id = Some a' /\ a_status a' = Finished.
Proof.
  intros I VP HL Fa St Hlate. cbn [blocks].
  destruct (late_block_any s id a T I VP HL Fa) as (_ & _ & _ & _ & a' & Fa' & R).
  exists a'. split; [exact Fa'|]. unfold block_rel in R. rewrite St in R.
  pose proof (find_auction_some _ _ _ Fa) as [Hin Hid]. subst id.
  destruct (VP a Hin St) as (l & v & E & Hr).
  assert (Hd : last_due T (vqs_of s (a_id a)) = true).
  { unfold last_due. rewrite E, rev_app_distr. cbn [rev app]. rewrite Hr. cbn [negb andb].
    apply Z.leb_le.
    (* the release time of a queue entry is one of the schedule's times *)
    destruct (inv_vqs _ I) as (W & _). rewrite Forall_forall in W.
    assert (Hv : In v (st_vqs s)).
    { assert (Hv' : In v (vqs_of s (a_id a))) by (rewrite E; apply in_or_app; right; now left).
      apply in_vqs_of in Hv'. apply Hv'. }
    assert (Hva : v_auction v = a_id a).
    { assert (Hv' : In v (vqs_of s (a_id a))) by (rewrite E; apply in_or_app; right; now left).
      apply in_vqs_of in Hv'. apply Hv'. }
    destruct (vwf_auction _ _ (W v Hv)) as (a0 & Fa0 & _ & _ & _ & Ht & _).
    rewrite Hva, Fa in Fa0. injection Fa0 as <-. apply in_map_iff in Ht. destruct Ht as (sc & <- & Hsc).
    apply Hlate, Hsc. }
  rewrite Hd in R. subst a'. reflexivity.
Qed.

Theorem auction_eventually_terminal s id a T :
  Inv s -> vesting_pending s -> st_listeners s = [] -> 0 <= p_period (st_params s) ->
  find_auction s id = Some a -> late_for s a T ->
  exists n a', (n <= N.to_nat (a_max_round a) + 4)%nat /\ find_auction (blocks s T n) id = Some a' /\ is_terminal a'.
Proof.
  intros I VP HL Hp Fa (Hstart & Hend & Hrel).
  assert (Hday : 0 <= p_period (st_params s) * day_ns) by (unfold day_ns; lia).
  (* phase 3: from a settled auction *)
  assert (P3 : forall s0 a0, Inv s0 -> vesting_pending s0 -> st_listeners s0 = [] -> find_auction s0 id = Some a0 ->
                 a_scheds a0 = a_scheds a -> is_settled a0 ->
                 exists n a', (n <= 1)%nat /\ find_auction (blocks s0 T n) id = Some a' /\ is_terminal a').
  { intros s0 a0 I0 VP0 HL0 Fa0 Hsc [Hv|Hf].
    - destruct (late_block_vesting s0 id a0 T I0 VP0 HL0 Fa0 Hv) as (a' & Fa' & Hfin); [rewrite Hsc; exact Hrel|].
      exists 1%nat, a'. repeat split; [lia|exact Fa'|left; exact Hfin].
    - exists 0%nat, a0. repeat split; [lia|exact Fa0|left; exact Hf]. }
  (* phase 2: from a started auction *)
  assert (P2 : forall s0 a0, Inv s0 -> vesting_pending s0 -> st_listeners s0 = [] -> st_params s0 = st_params s ->
                 find_auction s0 id = Some a0 -> a_status a0 = Started ->
                 a_scheds a0 = a_scheds a -> a_max_round a0 = a_max_round a -> last_end a0 = last_end a -> a_type a0 = a_type a ->
                 exists n a', (n <= N.to_nat (a_max_round a) + 3)%nat /\ find_auction (blocks s0 T n) id = Some a' /\ is_terminal a').
  { intros s0 a0 I0 VP0 HL0 HP0 Fa0 St0 Hsc Hmr Hle Hty.
    destruct (a_type a0) eqn:Ty0.
    - (* fixed price: one block settles *)
      destruct (late_block_any s0 id a0 T I0 VP0 HL0 Fa0) as (I1 & VP1 & HL1 & _ & a1 & Fa1 & R).
      unfold block_rel in R. rewrite St0 in R.
      assert (HT0 : (last_end a0 <=? T) = true) by (apply Z.leb_le; rewrite Hle; nia).
      rewrite HT0, Ty0 in R. subst a1.
      destruct (P3 _ _ I1 VP1 HL1 Fa1) as (n & a' & Hn & Fn & Ht).
      + exact Hsc.
      + unfold is_settled, settled_st. cbn [a_status set_status]. destruct (a_scheds a0); auto.
      + exists (S n), a'. repeat split; [lia|exact Fn|exact Ht].
    - (* batch: at most max_round + 2 blocks settle (batch_auction_settles), then phase 3 *)
      destruct (batch_auction_settles s0 id a0 T I0 HL0) as (n & a1 & Hn & Fn & Hs1); try assumption.
      + rewrite HP0. exact Hp.
      + rewrite HP0, Hle, Hmr. exact Hend.
      + (* carry the invariants over the n blocks *)
        assert (K : forall m s1, Inv s1 -> vesting_pending s1 -> st_listeners s1 = [] ->
                      Inv (blocks s1 T m) /\ vesting_pending (blocks s1 T m) /\ st_listeners (blocks s1 T m) = []).
        { induction m as [|m IHm]; intros s1 I1 VP1 HL1; cbn [blocks]; [auto|].
          assert (Hnv : no_veto s1 H_BeforeAllocated = true) by (unfold no_veto; rewrite HL1; reflexivity).
          destruct (block_never_fails s1 T (natural_orc s1) I1 Hnv (natural_oracle_ok s1 T I1)) as [Hok I2].
          apply IHm; [exact I2|apply vesting_pending_step; assumption|].
          assert (Hb : begin_block s1 T (natural_orc s1) = Ok (snd (step s1 (OBlock T (natural_orc s1))))).
          { cbn [step] in *. destruct (begin_block s1 T (natural_orc s1)) as [x|c tr]; [reflexivity|discriminate Hok]. }
          unfold begin_block in Hb. cbv zeta in Hb.
          assert (G : forall l s2 s3, process_all T (natural_orc s1) s2 l = Ok s3 -> st_listeners s3 = st_listeners s2).
          { induction l as [|x l IHl]; cbn [process_all]; intros s2 s3 H; [injection H as <-; auto|].
            destruct (process T (natural_orc s1) s2 x) as [s4|] eqn:E; cbn [bind] in H; [|discriminate].
            destruct (process_spec _ _ _ _ _ E) as [PE _]. destruct (pe_glob _ _ _ PE) as (_ & _ & _ & P4 & _).
            rewrite (IHl _ _ H). exact P4. }
          rewrite (G _ _ _ Hb). exact HL1. }
        destruct (K n s0 I0 VP0 HL0) as (In & VPn & HLn).
        (* the schedule is an agreed term: unchanged over the blocks *)
        assert (Hsc1 : a_scheds a1 = a_scheds a0).
        { clear -Fa0 Fn I0 K HL0 VP0. revert s0 a0 I0 VP0 HL0 Fa0 Fn. induction n as [|n IHn]; intros s0 a0 I0 VP0 HL0 Fa0 Fn; cbn [blocks] in Fn.
          - congruence.
          - destruct (late_block_any s0 id a0 T I0 VP0 HL0 Fa0) as (I1 & VP1 & HL1 & _ & a' & Fa' & R).
            rewrite (IHn _ a' I1 VP1 HL1 Fa' Fn).
            apply (LifeTheorems.block_rel_terms _ _ _ _ _ R). }
        destruct (P3 _ _ In VPn HLn Fn) as (m & a' & Hm & Fm & Ht); [congruence|exact Hs1|].
        exists (n + m)%nat, a'. repeat split; [lia| |exact Ht].
        clear -Fm. revert s0 Fm. induction n as [|n IHn]; intros s0 Fm; cbn [blocks Nat.add] in *; [exact Fm|apply IHn; exact Fm]. }
  (* phase 1: by the status of a *)
  destruct (a_status a) eqn:St.
  - (* stand-by: one block opens it *)
    destruct (late_block_any s id a T I VP HL Fa) as (I1 & VP1 & HL1 & HP1 & a1 & Fa1 & R).
    unfold block_rel in R. rewrite St in R. apply Z.leb_le in Hstart. rewrite Hstart in R. subst a1.
    destruct (P2 _ _ I1 VP1 HL1 HP1 Fa1) as (n & a' & Hn & Fn & Ht); try reflexivity.
    exists (S n), a'. repeat split; [lia|exact Fn|exact Ht].
  - destruct (P2 s a I VP HL eq_refl Fa St) as (n & a' & Hn & Fn & Ht); try reflexivity.
    exists n, a'. repeat split; [lia|exact Fn|exact Ht].
  - destruct (P3 s a I VP HL Fa eq_refl) as (n & a' & Hn & Fn & Ht); [left; exact St|].
    exists n, a'. repeat split; [lia|exact Fn|exact Ht].
  - exists 0%nat, a. repeat split; [lia|exact Fa|left; exact St].
  - exists 0%nat, a. repeat split; [lia|exact Fa|right; exact St].
Qed.
