(* C02, part 3: the executable monitor Checkers.c02_ok holds of every transition of the model from a state
   satisfying the invariant.  deltas_are_transfers and c02_charges hold unconditionally (resp. under Inv);
   zero_sum sums over the finite account universe Checkers.accounts, so it needs that universe to contain
   the endpoints of the transfers of the step: hypothesis `tracked s o` (this is how the harness chooses its
   account universe; a transfer from `User 7` to the pool is NOT zero-sum over users 0..5).  No axioms. *)
From Coq Require Import ZArith NArith List Bool Arith Lia.
From FR Require Import Dec Types Bank Match Step Genesis Model Spec Checkers.
From FR.Proofs Require Import InvDefs EscrowBase VestingFacts HookBase Ledger LedgerCharges.
From FR.Proofs Require InvAll InvStaticBase.
Import ListNotations.
Open Scope Z_scope.

(* the state the monitor starts the step from: same store, empty ghost logs *)
Definition fresh_logs (s : state) : state := with_trace (with_bank s (st_bal s) []) [].

Lemma model_trans_fields s o :
  t_pre (model_trans s o) = s /\ t_op (model_trans s o) = o
  /\ t_class (model_trans s o) = class_of (fst (step (fresh_logs s) o))
  /\ t_xfers (model_trans s o) = st_xfers (snd (step (fresh_logs s) o))
  /\ t_post (model_trans s o) = snd (step (fresh_logs s) o).
Proof. unfold model_trans, fresh_logs. destruct (step _ o) as [out s']. repeat split. Qed.

Lemma Inv_fresh_logs s : Inv s -> Inv (fresh_logs s).
Proof. apply InvAll.Inv_ext; reflexivity. Qed.

Lemma model_xfers s o : t_xfers (model_trans s o) = step_xfers (fresh_logs s) o.
Proof.
  destruct (model_trans_fields s o) as (_ & _ & _ & E & _). rewrite E.
  pose proof (step_xfers_spec (fresh_logs s) o) as [X _ _]. exact X.
Qed.

(* the balance change of the monitored transition is the net of its transfers *)
Lemma model_delta s o a d : delta (model_trans s o) a d = net (t_xfers (model_trans s o)) a d.
Proof.
  unfold delta. destruct (model_trans_fields s o) as (E1 & _ & _ & _ & E5). rewrite E1, E5, model_xfers.
  apply (step_delta_is_net (fresh_logs s) o a d).
Qed.

Theorem deltas_are_transfers_model s o : deltas_are_transfers (model_trans s o) = true.
Proof.
  unfold deltas_are_transfers. apply forallb_forall. intros a _. apply forallb_forall. intros d _.
  apply Z.eqb_eq. apply model_delta.
Qed.

Lemma class_of_KOk out : oclass_eqb (class_of out) KOk = accepted out.
Proof. destruct out; cbn; try reflexivity. destruct (N.eqb code E_PANIC); reflexivity. Qed.

Theorem c02_charges_model s o : Inv s -> c02_charges (model_trans s o) = true.
Proof.
  intros I. unfold c02_charges. apply forallb_forall. intros u _. apply forallb_forall. intros d _.
  cbv zeta. rewrite advertised_charge_eq.
  destruct (model_trans_fields s o) as (E1 & E2 & E3 & _ & _). rewrite E1, E2, E3, class_of_KOk, model_xfers.
  rewrite (step_charges (fresh_logs s) o (Inv_fresh_logs s I) u d).
  change (advertised (fresh_logs s) o u d) with (advertised s o u d).
  destruct (accepted (fst (step (fresh_logs s) o))); apply Z.eqb_refl.
Qed.

(* ------------------------------------------------------------------ zero sum over the account universe *)
Definition tracked (s : state) (o : op) : Prop :=
  endpoints_in (accounts (t_post (model_trans s o))) (t_xfers (model_trans s o)).

Lemma NoDup_app_disj {A} (l1 l2 : list A) :
  NoDup l1 -> NoDup l2 -> (forall x, In x l1 -> In x l2 -> False) -> NoDup (l1 ++ l2).
Proof.
  induction l1 as [|x r IH]; intros H1 H2 Hd; [exact H2|]. cbn [app]. inversion H1 as [|? ? Hn H1']; subst.
  constructor.
  - intros Hin. apply in_app_or in Hin. destruct Hin as [Hin|Hin]; [contradiction|]. apply (Hd x); [now left|exact Hin].
  - apply IH; [exact H1'|exact H2|]. intros y Hy1 Hy2. apply (Hd y); [now right|exact Hy2].
Qed.

Lemma in_escrows x l :
  In x (flat_map (fun a => map (fun r => Escrow r a) roles) l) <-> exists r a, x = Escrow r a /\ In a l.
Proof.
  rewrite in_flat_map. split.
  - intros (a & Ha & Hx). apply in_map_iff in Hx. destruct Hx as (r & <- & _). eauto.
  - intros (r & a & -> & Ha). exists a. split; [exact Ha|]. apply (in_map (fun r0 => Escrow r0 a)). destruct r; cbn; auto.
Qed.

Lemma NoDup_escrows l : NoDup l -> NoDup (flat_map (fun a => map (fun r => Escrow r a) roles) l).
Proof.
  induction l as [|a r IH]; intros H; [constructor|]. inversion H as [|? ? Hn H']; subst. cbn [flat_map].
  apply NoDup_app_disj.
  - cbn. repeat constructor; cbn; intuition discriminate.
  - apply IH, H'.
  - intros x Hx Hy. apply in_escrows in Hy. destruct Hy as (q & b & -> & Hb).
    cbn in Hx. destruct Hx as [E|[E|[E|[]]]]; injection E as _ <-; contradiction.
Qed.

Lemma accounts_nodup s : NoDup (accounts s).
Proof.
  unfold accounts. apply NoDup_app_disj; [| |].
  - apply FinFun.Injective_map_NoDup; [intros x y E; injection E; auto|apply InvStaticBase.ids_upto_nodup].
  - change ([Pool] ++ ?l) with (Pool :: l). constructor.
    + intros H. apply in_escrows in H. destruct H as (r & a & E & _). discriminate E.
    + apply NoDup_escrows, InvStaticBase.ids_upto_nodup.
  - intros x Hx Hy. apply in_map_iff in Hx. destruct Hx as (u & <- & _).
    destruct Hy as [E|Hy]; [discriminate E|]. apply in_escrows in Hy. destruct Hy as (r & a & E & _). discriminate E.
Qed.

Theorem zero_sum_model s o : tracked s o -> zero_sum (model_trans s o) = true.
Proof.
  intros T. unfold zero_sum. apply forallb_forall. intros d _. apply Z.eqb_eq.
  rewrite (map_ext _ (fun a => net (t_xfers (model_trans s o)) a d)) by (intros a; apply model_delta).
  apply net_zero_sum; [apply accounts_nodup|exact T].
Qed.

Theorem c02_ok_model s o : Inv s -> tracked s o -> c02_ok (model_trans s o) = true.
Proof.
  intros I T. unfold c02_ok. rewrite (zero_sum_model s o T), (deltas_are_transfers_model s o), (c02_charges_model s o I).
  reflexivity.
Qed.

(* without the hypothesis the first conjunct can fail, the other two cannot *)
Theorem c02_ok_model_partial s o : Inv s ->
  deltas_are_transfers (model_trans s o) = true /\ c02_charges (model_trans s o) = true.
Proof. intros I. split; [apply deltas_are_transfers_model|apply c02_charges_model, I]. Qed.

(* `tracked` is decidable: the harness can check it *)
Definition trackedb (s : state) (o : op) : bool :=
  let t := model_trans s o in
  forallb (fun x => existsb (addr_eqb (x_from x)) (accounts (t_post t)) && existsb (addr_eqb (x_to x)) (accounts (t_post t)))
          (t_xfers t).
Lemma trackedb_spec s o : trackedb s o = true -> tracked s o.
Proof.
  unfold trackedb, tracked, endpoints_in. cbv zeta. intros H x Hx. rewrite forallb_forall in H.
  specialize (H x Hx). apply andb_true_iff in H. destruct H as [H1 H2].
  apply existsb_exists in H1, H2. destruct H1 as (y1 & Hy1 & E1), H2 as (y2 & Hy2 & E2).
  apply EscrowBase.addr_eqb_eq in E1, E2. subst. split; assumption.
Qed.
