(* C15, part 3: the relation `state_same` preserves every part of the global invariant, hence the GENESIS
   operation preserves the invariant; the observations of a state (queries, find_bid) agree on related states. *)
From Coq Require Import ZArith NArith List Bool Arith Lia Permutation Sorted.
From FR Require Import Dec Types Bank Match Step Genesis Model Spec.
From FR.Proofs Require Import InvDefs GenesisSort GenesisRT GenesisImport.
Import ListNotations.
Open Scope Z_scope.

Section Same.
  Variables s s' : state.
  Hypothesis H : state_same s s'.

  Lemma same_find_auction j : find_auction s' j = find_auction s j.
  Proof. apply find_auction_eq. apply H. Qed.

  Lemma same_in_bids b : In b (st_bids s') -> In b (st_bids s).
  Proof. apply Permutation_in. apply H. Qed.
  Lemma same_in_allowed x : In x (st_allowed s') -> In x (st_allowed s).
  Proof. apply Permutation_in. apply H. Qed.
  Lemma same_in_vqs v : In v (st_vqs s') -> In v (st_vqs s).
  Proof. apply Permutation_in. apply H. Qed.

  Lemma same_allowed_of_perm id : Permutation (allowed_of s' id) (allowed_of s id).
  Proof. unfold allowed_of. apply perm_filter. apply H. Qed.

  (* J1 *)
  Lemma ids_seq_same : ids_seq s -> ids_seq s'.
  Proof. unfold ids_seq. rewrite (ss_auctions _ _ H), (ss_aseq _ _ H). exact (fun x => x). Qed.

  (* J2 *)
  Lemma auctions_wf_same : auctions_wf s -> auctions_wf s'.
  Proof. unfold auctions_wf. rewrite (ss_auctions _ _ H). exact (fun x => x). Qed.

  (* J3 *)
  Lemma bid_wf_same b : bid_wf s b -> bid_wf s' b.
  Proof.
    intros Hb. constructor.
    - apply (bwf_price s b Hb).
    - apply (bwf_amt s b Hb).
    - rewrite (ss_bseq _ _ H). apply (bwf_id s b Hb).
    - destruct (bwf_auction s b Hb) as [a [Hfa Hrest]]. exists a. split; [|exact Hrest].
      rewrite same_find_auction. exact Hfa.
  Qed.

  Lemma bids_wf_same : bids_wf s -> bids_wf s'.
  Proof.
    intros [H1 H2]. split.
    - rewrite Forall_forall in *. intros b Hb. apply bid_wf_same. apply H1. apply same_in_bids. exact Hb.
    - intros id. rewrite (ss_bids_of _ _ H), (ss_bseq _ _ H). apply H2.
  Qed.

  (* J4 *)
  Lemma allowed_wf_same : allowed_wf s -> allowed_wf s'.
  Proof.
    intros [H1 H2]. split.
    - rewrite Forall_forall in *. intros x Hx. apply H1. apply same_in_allowed. exact Hx.
    - eapply Permutation_NoDup; [|exact H2]. apply Permutation_map. apply Permutation_sym. apply H.
  Qed.

  (* J5 *)
  Lemma bids_allowed_same : bids_allowed s -> bids_allowed s'.
  Proof.
    intros Hba b Hb. rewrite (ss_find_allowed _ _ H). apply Hba. apply same_in_bids. exact Hb.
  Qed.

  (* J6 *)
  Lemma remaining_inv_same : remaining_inv s -> remaining_inv s'.
  Proof.
    intros Hr a Ha Ht. rewrite (ss_auctions _ _ H) in Ha. rewrite (ss_bids_of _ _ H). apply Hr; assumption.
  Qed.

  (* J7 *)
  Lemma vq_wf_same v : vq_wf s v -> vq_wf s' v.
  Proof.
    intros Hv. constructor.
    - apply (vwf_amt s v Hv).
    - destruct (vwf_auction s v Hv) as [a [Hfa Hrest]]. exists a. split; [|exact Hrest].
      rewrite same_find_auction. exact Hfa.
  Qed.

  Lemma vqs_wf_same : vqs_wf s -> vqs_wf s'.
  Proof.
    intros [H1 [H2 H3]]. split; [|split].
    - rewrite Forall_forall in *. intros v Hv. apply vq_wf_same. apply H1. apply same_in_vqs. exact Hv.
    - eapply Permutation_NoDup; [|exact H2]. apply Permutation_map. apply Permutation_sym. apply H.
    - intros a Ha Hst Hne. rewrite (ss_auctions _ _ H) in Ha. rewrite (ss_vqs_of _ _ H). apply H3; assumption.
  Qed.

  (* J8 *)
  Lemma owed_same r id d : owed s' r id d = owed s r id d.
  Proof.
    unfold owed. rewrite same_find_auction. destruct (find_auction s id) as [a|]; [|reflexivity].
    rewrite (ss_bids_of _ _ H), (ss_vqs_of _ _ H). reflexivity.
  Qed.

  Lemma escrow_inv_same : escrow_inv s -> escrow_inv s'.
  Proof.
    intros [H1 H2]. split.
    - intros x d. rewrite (ss_bal _ _ H). apply H1.
    - intros r id d. rewrite owed_same, (ss_bal _ _ H). apply H2.
  Qed.

  (* J9 *)
  Lemma mlen_inv_same : mlen_inv s -> mlen_inv s'.
  Proof.
    intros Hm id. specialize (Hm id). rewrite same_find_auction.
    destruct (find_auction s id) as [a|]; [|rewrite (ss_mlen _ _ H); exact Hm].
    destruct (a_type a); rewrite (ss_mlen _ _ H); [exact Hm|].
    rewrite (count_matched_perm _ _ id (ss_bids_perm _ _ H)). exact Hm.
  Qed.

  (* J10 *)
  Lemma params_wf_same : params_wf s -> params_wf s'.
  Proof. unfold params_wf. rewrite (ss_params _ _ H). exact (fun x => x). Qed.

  (* J11 *)
  Lemma fresh_inv_same : fresh_inv s -> fresh_inv s'.
  Proof.
    intros [H1 H2]. split.
    - intros id Hid. rewrite (ss_aseq _ _ H) in Hid.
      destruct (H1 id Hid) as [Ha [Hb [Hc [Hd He]]]].
      rewrite (ss_bseq _ _ H), (ss_bids_of _ _ H), (ss_vqs_of _ _ H), (ss_mlen _ _ H).
      repeat split; try assumption.
      pose proof (same_allowed_of_perm id) as Hp. rewrite Hc in Hp.
      apply Permutation_sym in Hp. apply Permutation_nil in Hp. exact Hp.
    - intros a Ha Hst. rewrite (ss_auctions _ _ H) in Ha. rewrite (ss_bids_of _ _ H). apply H2; assumption.
  Qed.

  (* ---------------------------------------------------------------- Theorem 4 *)
  Theorem state_same_inv : Inv s -> Inv s'.
  Proof.
    intros I. constructor.
    - apply ids_seq_same. apply I.
    - apply auctions_wf_same. apply I.
    - apply bids_wf_same. apply I.
    - apply allowed_wf_same. apply I.
    - apply bids_allowed_same. apply I.
    - apply remaining_inv_same. apply I.
    - apply vqs_wf_same. apply I.
    - apply escrow_inv_same. apply I.
    - apply mlen_inv_same. apply I.
    - apply params_wf_same. apply I.
    - apply fresh_inv_same. apply I.
  Qed.

  (* ---------------------------------------------------------------- Theorem 5: observations agree *)
  Lemma find_bid_of s0 a i : find_bid s0 a i = find (fun b => N.eqb (b_id b) i) (bids_of s0 a).
  Proof.
    unfold find_bid, bids_of.
    exact (find_filter_and (fun b => N.eqb (b_auction b) a) (fun b => N.eqb (b_id b) i) (st_bids s0)).
  Qed.

  Lemma find_bid_same a i : find_bid s' a i = find_bid s a i.
  Proof. rewrite !find_bid_of. rewrite (ss_bids_of _ _ H). reflexivity. Qed.

  (* the allow-list of an auction, listed in the store's iteration order *)
  Lemma sorted_allowed_of_same a : allowed_wf s ->
    sort_by allowed_le (allowed_of s' a) = sort_by allowed_le (allowed_of s a).
  Proof.
    intros [_ Hnd]. symmetry.
    apply (sort_by_perm_unique allowed_le allowed_le_total allowed_le_trans).
    - intros x y Hx Hy Hxy Hyx. unfold allowed_of in Hx, Hy.
      apply filter_In in Hx. apply filter_In in Hy.
      destruct (allowed_le_antisym x y Hxy Hyx) as [E1 E2].
      apply (NoDup_map_inj_in (fun x => (al_auction x, al_bidder x)) (st_allowed s));
        [exact Hnd|apply Hx|apply Hy|congruence].
    - apply Permutation_sym. apply same_allowed_of_perm.
  Qed.

  (* every query of the module answers the same on both states *)
  Theorem run_query_same q : allowed_wf s -> run_query s' q = run_query s q.
  Proof.
    intros Hal. destruct q as [a|st ty|a b|a u m|a u|a|a|]; cbn [run_query].
    - rewrite same_find_auction. reflexivity.
    - rewrite (ss_auctions _ _ H). reflexivity.
    - rewrite find_bid_same. reflexivity.
    - rewrite (ss_bids_of _ _ H). reflexivity.
    - rewrite (ss_find_allowed _ _ H). reflexivity.
    - rewrite sorted_allowed_of_same by exact Hal. reflexivity.
    - rewrite (ss_vqs_of _ _ H). reflexivity.
    - rewrite (ss_params _ _ H). reflexivity.
  Qed.
End Same.

(* ------------------------------------------------------------------ state_same is an equivalence *)
Lemma state_same_refl s : state_same s s.
Proof. constructor; intros; try reflexivity; apply Permutation_refl. Qed.

Lemma state_same_sym s s' : state_same s s' -> state_same s' s.
Proof.
  intros H. constructor; intros; try (symmetry; apply H); apply Permutation_sym; apply H.
Qed.

Lemma state_same_trans s1 s2 s3 : state_same s1 s2 -> state_same s2 s3 -> state_same s1 s3.
Proof.
  intros H1 H2. constructor; intros;
    try (etransitivity; [apply H2|apply H1]).
Qed.

(* ------------------------------------------------------------------ GENESIS preserves the invariant *)
Theorem Inv_genesis s : Inv s -> Inv (snd (step s OGenesis)).
Proof.
  intros I. destruct (genesis_step s I) as [s' [Hstep Hsame]]. rewrite Hstep. cbn [snd].
  exact (state_same_inv s s' Hsame I).
Qed.

(* the GENESIS operation is accepted with a valid genesis, and changes nothing any query can see *)
Theorem genesis_queries s q : Inv s ->
  fst (step s OGenesis) = GenOk true /\ run_query (snd (step s OGenesis)) q = run_query s q.
Proof.
  intros I. destruct (genesis_step s I) as [s' [Hstep Hsame]]. rewrite Hstep. cbn [fst snd].
  split; [reflexivity|]. apply run_query_same; [exact Hsame|apply I].
Qed.
