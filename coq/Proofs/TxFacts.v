(* What each transaction / API call does to the state, in explicit form. *)
From Coq Require Import ZArith NArith List Bool Arith Lia.
From FR Require Import Dec Types Bank Match Step Genesis Model Spec.
From FR.Proofs Require Import FrameFacts.
Import ListNotations.
Open Scope Z_scope.

Definition is_create (m : msg) : bool :=
  match m with MCreateFixed _ _ _ _ _ _ _ | MCreateBatch _ _ _ _ _ _ _ _ _ _ => true | _ => false end.

(* one step of inverting [handler ... = Ok s'] *)
Ltac inv_step H :=
  lazymatch type of H with
  | Ok _ = Ok _ => injection H as H
  | fail _ _ = Ok _ => discriminate H
  | Err _ _ = Ok _ => discriminate H
  | bind ?r _ = Ok _ =>
      let E := fresh "E" in let s1 := fresh "s" in
      destruct r as [s1|] eqn:E; [cbn [bind] in H | discriminate H]
  | (if ?c then _ else _) = Ok _ => let E := fresh "E" in destruct c eqn:E
  | match ?x with _ => _ end = Ok _ => let E := fresh "E" in destruct x eqn:E
  end.

Ltac inv_send id E :=
  apply (send_inv id) in E; [destruct E as (?b & ?xs & -> & ?K) | first [exact I | reflexivity] ..].
Ltac inv_fund id E :=
  apply (fund_pool_inv id) in E; destruct E as (?b & ?xs & -> & ?K).
Ltac inv_send_as id E b xs K :=
  apply (send_inv id) in E; [destruct E as (b & xs & -> & K) | first [exact I | reflexivity] ..].
Ltac inv_fund_as id E b xs K :=
  apply (fund_pool_inv id) in E; destruct E as (b & xs & -> & K).
Ltac inv_hook_as E tr :=
  apply call_hook_inv in E; destruct E as (tr & ->).
Ltac inv_hook E :=
  apply call_hook_inv in E; destruct E as (?tr & ->).

Definition created (s s' : state) (a : auction) : Prop :=
  exists b xs tr tr',
    esc_keep (st_aseq s) (st_bal s) b /\
    s' = with_trace (with_auctions (with_trace (with_bank (with_aseq s (st_aseq s + 1)) b xs) tr)
                                   (st_auctions s ++ [a])) tr'.

Lemma create_fixed_inv s u up price sd samt pd vs start end_ s' :
  create_fixed s u up price sd samt pd vs start end_ = Ok s' ->
  created s s' (new_auction (st_aseq s) FixedPrice u up price sd samt pd vs start end_
                  (if start <=? st_now s then Started else StandBy) samt 0 0 0).
Proof.
  unfold create_fixed. cbv zeta. intros H.
  inv_step H; [inv_step H|]. inv_step H; [inv_step H|].
  inv_step H. inv_fund (st_aseq s) E1.
  inv_step H. inv_send (st_aseq s) E1.
  inv_step H. inv_hook E1.
  inv_step H. inv_hook E1.
  inv_step H. subst s'.
  do 4 eexists. split; [|reflexivity].
  eapply esc_keep_trans; [exact K|exact K0].
Qed.

Lemma create_batch_inv s u up price minp sd samt pd vs maxr rate start end_ s' :
  create_batch s u up price minp sd samt pd vs maxr rate start end_ = Ok s' ->
  (maxr <= MaxExtendedRound)%N /\
  created s s' (new_auction (st_aseq s) Batch u up price sd samt pd vs start end_
                  (if start <=? st_now s then Started else StandBy) 0 minp maxr rate).
Proof.
  unfold create_batch. cbv zeta. intros H.
  inv_step H; [inv_step H|]. inv_step H; [inv_step H|]. inv_step H; [inv_step H|].
  inv_step H. inv_fund (st_aseq s) E2.
  inv_step H. inv_send (st_aseq s) E2.
  inv_step H. inv_hook E2.
  inv_step H. inv_hook E2.
  inv_step H. subst s'.
  split; [unfold MaxExtendedRound in E1; apply N.ltb_ge in E1; exact E1|].
  do 4 eexists. split; [|reflexivity].
  eapply esc_keep_trans; [exact K|exact K0].
Qed.

Definition cancelled (s s' : state) (id : N) (a : auction) : Prop :=
  exists b xs tr,
    esc_keep id (st_bal s) b /\
    s' = put_auction (with_trace (with_bank s b xs) tr)
           (set_status (match a_type a with FixedPrice => set_remaining a 0 | Batch => a end) Cancelled).

Lemma status_eqb_eq x y : status_eqb x y = true <-> x = y.
Proof. destruct x, y; cbn; split; intros H; try reflexivity; try discriminate. Qed.

Lemma cancel_inv s u up id s' :
  cancel s u up id = Ok s' ->
  exists a, find_auction s id = Some a /\ a_status a = StandBy /\ a_auctioneer a = u /\ cancelled s s' id a.
Proof.
  unfold cancel. intros H.
  inv_step H; [|inv_step H]. inv_step H; [inv_step H|]. inv_step H; [inv_step H|].
  inv_step H. inv_send id E2.
  inv_step H. inv_hook E2.
  inv_step H. subst s'.
  exists a. split; [reflexivity|]. apply negb_false_iff in E1, E0. apply status_eqb_eq in E1.
  apply N.eqb_eq in E0. do 2 (split; [assumption|]).
  do 3 eexists. split; [exact K|reflexivity].
Qed.

Definition placed (s s' : state) (id : N) (a : auction) (nb : bid) : Prop :=
  exists b xs tr s2,
    esc_keep id (st_bal s) b /\
    (let s1 := with_trace (with_bank (with_bseq s (upd (st_bseq s) id (st_bseq s id + 1)%N)) b xs) tr in
     s2 = s1 \/ exists x, s2 = put_auction s1 (set_remaining a x)) /\
    s' = with_bids s2 (st_bids s ++ [nb]).

Lemma place_bid_inv s u id bt price d amt s' :
  place_bid s u id bt price d amt = Ok s' ->
  exists a nb, find_auction s id = Some a /\ a_status a = Started /\
    b_auction nb = id /\ b_id nb = (st_bseq s id + 1)%N /\ b_bidder nb = u /\ b_type nb = bt /\ b_denom nb = d /\
    placed s s' id a nb.
Proof.
  unfold place_bid. cbv zeta. intros H.
  inv_step H; [|inv_step H]. inv_step H; [inv_step H|]. inv_step H; [inv_step H|].
  inv_step H; [|inv_step H].
  inv_step H. inv_fund_as id E3 b1 xs1 K1.
  inv_step H. destruct s0 as [s2 nb].
  inv_step H. inv_hook_as E4 tr1. inv_step H. subst s'.
  apply negb_false_iff in E0. apply status_eqb_eq in E0.
  exists a. destruct bt.
  - inv_step E3. inv_step E3. inv_send_as id E5 b2 xs2 K2. injection E3 as <- Hnb.
    exists nb. split; [reflexivity|]. split; [exact E0|]. subst nb. do 5 (split; [reflexivity|]).
    exists b2, xs2, tr1. eexists. split; [eapply esc_keep_trans; [exact K1|exact K2]|].
    split; [right; eexists; reflexivity|reflexivity].
  - inv_step E3. inv_step E3. inv_send_as id E5 b2 xs2 K2. injection E3 as <- Hnb.
    exists nb. split; [reflexivity|]. split; [exact E0|]. subst nb. do 5 (split; [reflexivity|]).
    exists b2, xs2, tr1. eexists. split; [eapply esc_keep_trans; [exact K1|exact K2]|].
    split; [left; reflexivity|reflexivity].
  - inv_step E3. inv_step E3. inv_send_as id E5 b2 xs2 K2. injection E3 as <- Hnb.
    exists nb. split; [reflexivity|]. split; [exact E0|]. subst nb. do 5 (split; [reflexivity|]).
    exists b2, xs2, tr1. eexists. split; [eapply esc_keep_trans; [exact K1|exact K2]|].
    split; [left; reflexivity|reflexivity].
Qed.

Lemma opt_send_inv id (c : bool) s f t d a s1 :
  addr_ok id f -> addr_ok id t -> (if c then send s f t d a else Ok s) = Ok s1 ->
  exists b xs, s1 = with_bank s b xs /\ esc_keep id (st_bal s) b.
Proof.
  intros Hf Ht H. destruct c; [exact (send_inv id s f t d a s1 Hf Ht H)|].
  injection H as <-. exists (st_bal s), (st_xfers s). split; [symmetry; apply with_bank_eta|apply esc_keep_refl].
Qed.

Definition modified (s s' : state) (id : N) (b0 : bid) (price amt : Z) : Prop :=
  exists b xs tr,
    esc_keep id (st_bal s) b /\
    s' = put_bid (with_trace (with_bank s b xs) tr) (set_b_terms b0 price amt).

Lemma find_bid_some s a i b : find_bid s a i = Some b -> In b (st_bids s) /\ b_auction b = a /\ b_id b = i.
Proof.
  unfold find_bid. intros H. apply find_some in H. destruct H as [H1 H2]. neqb. auto.
Qed.

Lemma modify_bid_inv s u id bid_id price d amt s' :
  modify_bid s u id bid_id price d amt = Ok s' ->
  exists a b0, find_auction s id = Some a /\ a_status a = Started /\ find_bid s id bid_id = Some b0 /\
    modified s s' id b0 price amt.
Proof.
  unfold modify_bid. cbv zeta. intros H.
  inv_step H; [|inv_step H]. inv_step H; [inv_step H|]. inv_step H; [inv_step H|].
  inv_step H; [|inv_step H].
  inv_step H; [inv_step H|]. inv_step H; [inv_step H|]. inv_step H; [inv_step H|].
  inv_step H; [inv_step H|]. inv_step H; [inv_step H|].
  inv_step H. inv_step H.
  apply (opt_send_inv id) in E9; [|exact I|reflexivity]. destruct E9 as (b1 & xs1 & -> & K1).
  inv_step H. inv_hook_as E9 tr1. inv_step H. subst s'.
  apply negb_false_iff in E0. apply status_eqb_eq in E0.
  exists a, b. split; [reflexivity|]. split; [exact E0|]. split; [reflexivity|].
  exists b1, xs1, tr1. split; [exact K1|reflexivity].
Qed.

Lemma with_allowed_eta s : with_allowed s (st_allowed s) = s.
Proof. destruct s; reflexivity. Qed.

Definition allowed_changed (s s' : state) (id : N) : Prop :=
  exists tr al, s' = with_allowed (with_trace s tr) al /\
    forall j, j <> id -> filter (fun x => N.eqb (al_auction x) j) al
                         = filter (fun x => N.eqb (al_auction x) j) (st_allowed s).

Lemma add_entries_inv a l : forall s s',
  add_entries s a l = Ok s' ->
  exists al, s' = with_allowed s al /\
    forall j, j <> a_id a -> filter (fun x => N.eqb (al_auction x) j) al
                             = filter (fun x => N.eqb (al_auction x) j) (st_allowed s).
Proof.
  induction l as [|[[ea who] max] l IH]; cbn [add_entries]; intros s s' H.
  - injection H as <-. exists (st_allowed s). split; [symmetry; apply with_allowed_eta|reflexivity].
  - destruct who as [up u|]; [|discriminate H]. destruct max as [m|]; [|discriminate H].
    inv_step H; [inv_step H|]. inv_step H; [inv_step H|].
    rewrite put_allowed_eq in H. apply IH in H. destruct H as (al & -> & F).
    exists al. split; [reflexivity|]. intros j Hj. rewrite (F j Hj). cbn [st_allowed with_allowed].
    apply put_allowed_list_other. exact Hj.
Qed.

Lemma api_add_inv s id l s' :
  api_add s id l = Ok s' -> exists a, find_auction s id = Some a /\ allowed_changed s s' id.
Proof.
  unfold api_add. intros H. destruct l as [|e l]; [discriminate H|].
  inv_step H; [|inv_step H]. inv_step H. inv_hook_as E0 tr1.
  apply add_entries_inv in H. destruct H as (al & -> & F).
  exists a. split; [reflexivity|]. exists tr1, al. split; [reflexivity|].
  apply find_auction_some in E. destruct E as [_ <-]. exact F.
Qed.

Lemma api_update_inv s id u max s' :
  api_update s id u max = Ok s' -> exists a, find_auction s id = Some a /\ allowed_changed s s' id.
Proof.
  unfold api_update. intros H.
  inv_step H; [|inv_step H]. inv_step H; [|inv_step H]. inv_step H; [|inv_step H].
  inv_step H. inv_hook_as E2 tr1. inv_step H. subst s'.
  exists a. split; [reflexivity|]. rewrite put_allowed_eq.
  exists tr1. eexists. split; [reflexivity|]. intros j Hj. cbn [st_allowed with_trace].
  apply put_allowed_list_other. exact Hj.
Qed.

Lemma update_params_inv s auth cfee bfee period s' :
  update_params s auth cfee bfee period = Ok s' -> exists p, s' = with_params s p.
Proof.
  unfold update_params. intros H. destruct auth as [|[up u|]]; try discriminate H.
  inv_step H; [|inv_step H]. inv_step H; [|inv_step H]. inv_step H. eauto.
Qed.

(* ------------------------------------------------------------------ the shape of every non-block step *)
Definition is_allow_op (o : op) : bool :=
  match o with OTx (MAddAllowed _ _ _ _) | OApiAdd _ _ | OApiUpdate _ _ _ => true | _ => false end.

Inductive tx_shape (s : state) : op -> outcome -> state -> Prop :=
| SRej o c tr s' : s' = with_trace s tr -> tx_shape s o (Rejected c) s'
| SSend from to d amt b xs : tx_shape s (OSend from to d amt) Accepted (with_bank s b xs)
| SListeners ls : tx_shape s (OSetListeners ls) Done (with_listeners s ls)
| SParams auth cfee bfee period p :
    tx_shape s (OTx (MUpdateParams auth cfee bfee period)) Accepted (with_params s p)
| SCreate m a s' :
    is_create m = true -> created s s' a -> a_id a = st_aseq s ->
    a_status a = (if a_start a <=? st_now s then Started else StandBy) ->
    (exists e, a_ends a = [e]) -> (a_max_round a <= MaxExtendedRound)%N ->
    (a_type a = FixedPrice -> a_max_round a = 0%N) ->
    tx_shape s (OTx m) Accepted s'
| SCancel who id a s' :
    find_auction s id = Some a -> a_status a = StandBy -> cancelled s s' id a ->
    tx_shape s (OTx (MCancel who id)) Accepted s'
| SPlace who id bt price coin a nb s' :
    find_auction s id = Some a -> a_status a = Started ->
    b_auction nb = id -> b_id nb = (st_bseq s id + 1)%N -> placed s s' id a nb ->
    tx_shape s (OTx (MPlaceBid who id bt price coin)) Accepted s'
| SModify who id bid price coin a b0 p amt s' :
    find_auction s id = Some a -> a_status a = Started -> find_bid s id bid = Some b0 ->
    modified s s' id b0 p amt ->
    tx_shape s (OTx (MModifyBid who id bid price coin)) Accepted s'
| SAllowed o id a s' :
    target s o = Some id -> is_allow_op o = true -> find_auction s id = Some a ->
    allowed_changed s s' id -> tx_shape s o Accepted s'.

Definition cmsg_matches (m : msg) (c : cmsg) : Prop :=
  match m, c with
  | MCreateFixed _ _ _ _ _ _ _, CCreateFixed _ _ _ _ _ _ _ _ _ => True
  | MCreateBatch _ _ _ _ _ _ _ _ _ _, CCreateBatch _ _ _ _ _ _ _ _ _ _ _ _ => True
  | MCancel _ a, CCancel _ _ a' => a = a'
  | MPlaceBid _ a _ _ _, CPlaceBid _ a' _ _ _ _ => a = a'
  | MModifyBid _ a b _ _, CModifyBid _ a' b' _ _ _ => a = a' /\ b = b'
  | MAddAllowed a _ _ _, CAddAllowed a' _ _ _ _ => a = a'
  | MUpdateParams _ _ _ _, CUpdateParams _ _ _ _ => True
  | _, _ => False
  end.

Lemma check_basic_matches m c : check_basic m = Some c -> cmsg_matches m c.
Proof.
  destruct m; cbn [check_basic]; intros H;
  repeat match type of H with context [match ?x with _ => _ end] => destruct x end;
  try discriminate H; injection H as <-; cbn [cmsg_matches]; auto.
Qed.

Lemma commit_rej s c tr o : tx_shape s o (fst (commit s (Err c tr))) (snd (commit s (Err c tr))).
Proof. cbn [commit fst snd]. eapply SRej. reflexivity. Qed.

Lemma step_shape s o : is_block o = false -> o <> OGenesis -> tx_shape s o (fst (step s o)) (snd (step s o)).
Proof.
  intros Hb Hg. destruct o as [m|id l|id u max|t orc|t orc k|from to d amt|ls|];
    try discriminate Hb; try congruence; cbn [step].
  - unfold deliver_tx. destruct (check_basic m) as [c|] eqn:CB.
    2:{ cbn [fst snd]. eapply SRej. symmetry. apply with_trace_eta. }
    apply check_basic_matches in CB.
    destruct c; destruct m; cbn [cmsg_matches] in CB; try contradiction; cbn [handle].
    + match goal with |- context [commit s ?r] => destruct r as [s'|c0 tr] eqn:H; [|apply commit_rej] end.
      cbn [commit fst snd]. apply create_fixed_inv in H.
      eapply SCreate; [reflexivity|exact H|reflexivity|reflexivity|eexists; reflexivity|cbn; lia|reflexivity].
    + match goal with |- context [commit s ?r] => destruct r as [s'|c0 tr] eqn:H; [|apply commit_rej] end.
      cbn [commit fst snd]. apply create_batch_inv in H. destruct H as [Hm H].
      eapply SCreate; [reflexivity|exact H|reflexivity|reflexivity|eexists; reflexivity|exact Hm|discriminate].
    + subst.
      match goal with |- context [commit s ?r] => destruct r as [s'|c0 tr] eqn:H; [|apply commit_rej] end.
      cbn [commit fst snd]. apply cancel_inv in H. destruct H as (au & F & S & _ & C).
      eapply SCancel; eassumption.
    + subst.
      match goal with |- context [commit s ?r] => destruct r as [s'|c0 tr] eqn:H; [|apply commit_rej] end.
      cbn [commit fst snd]. apply place_bid_inv in H.
      destruct H as (au & nb & F & S & B1 & B2 & _ & _ & _ & C).
      eapply SPlace; eassumption.
    + destruct CB as [? ?]. subst.
      match goal with |- context [commit s ?r] => destruct r as [s'|c0 tr] eqn:H; [|apply commit_rej] end.
      cbn [commit fst snd]. apply modify_bid_inv in H. destruct H as (au & b0 & F & S & B & C).
      eapply SModify; eassumption.
    + subst. destruct (st_switch s); [|apply commit_rej].
      match goal with |- context [commit s ?r] => destruct r as [s'|c0 tr] eqn:H; [|apply commit_rej] end.
      cbn [commit fst snd]. apply api_add_inv in H. destruct H as (au & F & C).
      eapply SAllowed; [reflexivity|reflexivity|exact F|exact C].
    + match goal with |- context [commit s ?r] => destruct r as [s'|c0 tr] eqn:H; [|apply commit_rej] end.
      cbn [commit fst snd]. apply update_params_inv in H. destruct H as (p & ->). apply SParams.
  - destruct (api_add s id l) as [s'|c tr] eqn:H; [|apply commit_rej].
    cbn [commit fst snd]. apply api_add_inv in H. destruct H as (au & F & C).
    eapply SAllowed; [reflexivity|reflexivity|exact F|exact C].
  - destruct (api_update s id u max) as [s'|c tr] eqn:H; [|apply commit_rej].
    cbn [commit fst snd]. apply api_update_inv in H. destruct H as (au & F & C).
    eapply SAllowed; [reflexivity|reflexivity|exact F|exact C].
  - destruct (0 <? amt); [|apply commit_rej].
    destruct (send s (User from) to d amt) as [s'|c tr] eqn:H; [|apply commit_rej].
    cbn [commit fst snd]. apply send_inv0 in H. destruct H as (b & xs & ->). apply SSend.
  - cbn [fst snd]. apply SListeners.
Qed.

(* ------------------------------------------------------------------ consequences of the shapes *)
Definition cancel_of (a : auction) : auction :=
  set_status (match a_type a with FixedPrice => set_remaining a 0 | Batch => a end) Cancelled.

Definition tx_arel (o : op) (out : outcome) (j : N) (a a' : auction) : Prop :=
  a' = a
  \/ (a_status a = StandBy /\ out = Accepted /\ (exists who, o = OTx (MCancel who j)) /\ a' = cancel_of a)
  \/ (a_status a = Started /\ out = Accepted /\ (exists who bt price coin, o = OTx (MPlaceBid who j bt price coin))
      /\ exists x, a' = set_remaining a x).

Lemma a_id_cancel_of a : a_id (cancel_of a) = a_id a.
Proof. unfold cancel_of. destruct (a_type a); reflexivity. Qed.

Lemma tx_auction s o out s' j a :
  tx_shape s o out s' -> find_auction s j = Some a ->
  exists a', find_auction s' j = Some a' /\ tx_arel o out j a a'.
Proof.
  intros Sh F. destruct Sh as [o c tr s' -> | from to d amt b xs | ls | auth cfee bfee period p
    | m a0 s' Hc C Hid Hst He Hm Hf | who id a0 s' F0 S0 C | who id bt price coin a0 nb s' F0 S0 B1 B2 C
    | who id bid price coin a0 b0 p amt s' F0 S0 B C | o id a0 s' T A F0 C ].
  - exists a. split; [exact F|left; reflexivity].
  - exists a. split; [exact F|left; reflexivity].
  - exists a. split; [exact F|left; reflexivity].
  - exists a. split; [exact F|left; reflexivity].
  - destruct C as (b & xs & tr & tr' & K & ->). exists a. split; [|left; reflexivity].
    match goal with |- context [find_auction ?s1 j] => rewrite (find_auction_conv_app s s1 a0 j eq_refl) end.
    rewrite F. reflexivity.
  - destruct C as (b & xs & tr & K & ->). fold (cancel_of a0).
    match goal with |- context [find_auction ?s1 j] => rewrite (find_auction_conv_put s s1 (cancel_of a0) j eq_refl) end.
    rewrite a_id_cancel_of, F.
    pose proof (find_auction_some _ _ _ F0) as [_ Hid].
    destruct (N.eqb j (a_id a0)) eqn:E.
    + neqb. assert (a0 = a) by congruence. subst a0. exists (cancel_of a). split; [reflexivity|].
      right; left. repeat split; try assumption. exists who. congruence.
    + exists a. split; [reflexivity|left; reflexivity].
  - destruct C as (b & xs & tr & s2 & K & [->|(x & ->)] & ->).
    + exists a. split; [exact F|left; reflexivity].
    + match goal with |- context [find_auction ?s1 j] =>
        rewrite (find_auction_conv_put s s1 (set_remaining a0 x) j eq_refl) end.
      rewrite F. cbn [a_id set_remaining].
      pose proof (find_auction_some _ _ _ F0) as [_ Hid].
      destruct (N.eqb j (a_id a0)) eqn:E.
      * neqb. assert (a0 = a) by congruence. subst a0. exists (set_remaining a x). split; [reflexivity|].
        right; right. repeat split; try assumption; [|exists x; reflexivity].
        exists who, bt, price, coin. congruence.
      * exists a. split; [reflexivity|left; reflexivity].
  - destruct C as (b & xs & tr & K & ->). exists a. split; [exact F|left; reflexivity].
  - destruct C as (tr & al & -> & K). exists a. split; [exact F|left; reflexivity].
Qed.

Lemma target_create s m : is_create m = true -> target s (OTx m) = Some (st_aseq s).
Proof. destruct m; cbn; intros H; try discriminate H; reflexivity. Qed.

Lemma tx_frame s o out s' tid : tx_shape s o out s' -> target s o = Some tid -> frame tid s s'.
Proof.
  intros Sh T. destruct Sh as [o c tr s' -> | from to d amt b xs | ls | auth cfee bfee period p
    | m a0 s' Hc C Hid Hst He Hm Hf | who id a0 s' F0 S0 C | who id bt price coin a0 nb s' F0 S0 B1 B2 C
    | who id bid price coin a0 b0 p amt s' F0 S0 B C | o id a0 s' T0 A F0 C ];
    try discriminate T.
  - frame_tac.
  - rewrite (target_create s m Hc) in T. injection T as <-.
    destruct C as (b & xs & tr & tr' & K & ->). frame_tac.
  - cbn [target] in T. injection T as <-. destruct C as (b & xs & tr & K & ->).
    pose proof (find_auction_some _ _ _ F0) as [_ Hid]. frame_tac.
    fold (cancel_of a0). rewrite a_id_cancel_of. exact Hid.
  - cbn [target] in T. injection T as <-.
    pose proof (find_auction_some _ _ _ F0) as [_ Hid].
    destruct C as (b & xs & tr & s2 & K & [->|(x & ->)] & ->); frame_tac.
  - cbn [target] in T. injection T as <-. destruct C as (b & xs & tr & K & ->).
    pose proof (find_bid_some _ _ _ _ B) as (_ & Hb & _). frame_tac.
  - rewrite T0 in T. injection T as <-. destruct C as (tr & al & -> & K). frame_tac2.
Qed.

Definition creation (s : state) (o : op) (out : outcome) (s' : state) (a : auction) : Prop :=
  (exists m, o = OTx m /\ is_create m = true) /\ out = Accepted /\
  st_auctions s' = st_auctions s ++ [a] /\ a_id a = st_aseq s /\ st_aseq s' = (st_aseq s + 1)%N /\
  a_status a = (if a_start a <=? st_now s then Started else StandBy) /\
  (exists e, a_ends a = [e]) /\ (a_max_round a <= MaxExtendedRound)%N /\ (a_type a = FixedPrice -> a_max_round a = 0%N).

Ltac shape_cases Sh :=
  destruct Sh as [o c tr s' -> | from to d amt b xs | ls | auth cfee bfee period p
    | m a0 s' Hc C Hid Hst He Hm Hf | who id a0 s' F0 S0 C | who id bt price coin a0 nb s' F0 S0 B1 B2 C
    | who id bid price coin a0 b0 p amt s' F0 S0 B C | o id a0 s' T0 A F0 C ];
  [ | | | | destruct C as (b & xs & tr & tr' & K & ->) | destruct C as (b & xs & tr & K & ->)
    | destruct C as (b & xs & tr & s2 & K & [->|(x & ->)] & ->) | destruct C as (b & xs & tr & K & ->)
    | destruct C as (tr & al & -> & K) ].

Lemma tx_auction_list s o out s' :
  tx_shape s o out s' ->
  (exists a, creation s o out s' a)
  \/ (map a_id (st_auctions s') = map a_id (st_auctions s) /\ st_aseq s' = st_aseq s).
Proof.
  intros Sh. shape_cases Sh; try (right; split; reflexivity).
  - left. exists a0. unfold creation. repeat split; try assumption; try reflexivity. exists m. auto.
  - right. split; [|reflexivity]. apply map_id_put.
  - right. split; [|reflexivity]. apply map_id_put.
Qed.

Lemma tx_create s m s' :
  tx_shape s (OTx m) Accepted s' -> is_create m = true -> exists a, creation s (OTx m) Accepted s' a.
Proof.
  intros Sh Hc. destruct (tx_auction_list _ _ _ _ Sh) as [H|_]; [exact H|].
  inversion Sh; subst; try discriminate Hc.
  - destruct H1 as (b & xs & tr & tr' & K & ->). exists a. unfold creation.
    repeat split; try assumption; try reflexivity. exists m. auto.
  - destruct m; discriminate.
Qed.

Lemma tx_rejected s o c s' : tx_shape s o (Rejected c) s' -> exists tr, s' = with_trace s tr.
Proof. intros Sh. inversion Sh; subst. eauto. Qed.

Lemma tx_place s who id bt price coin s' :
  tx_shape s (OTx (MPlaceBid who id bt price coin)) Accepted s' ->
  exists a nb, find_auction s id = Some a /\ a_status a = Started /\
    st_bids s' = st_bids s ++ [nb] /\ b_auction nb = id /\ b_id nb = (st_bseq s id + 1)%N /\
    st_bseq s' = upd (st_bseq s) id (st_bseq s id + 1)%N.
Proof.
  intros Sh. inversion Sh; subst; try discriminate.
  - match goal with H : placed _ _ _ _ _ |- _ => destruct H as (b & xs & tr & s2 & K & [->|(x & ->)] & ->) end;
      exists a, nb; repeat split; assumption || reflexivity.
Qed.

Lemma tx_modify s who id bid price coin s' :
  tx_shape s (OTx (MModifyBid who id bid price coin)) Accepted s' ->
  exists a b0, find_auction s id = Some a /\ a_status a = Started /\ find_bid s id bid = Some b0 /\
    exists p amt, st_bids s' = st_bids (put_bid s (set_b_terms b0 p amt)).
Proof.
  intros Sh. inversion Sh; subst; try discriminate.
  - match goal with H : modified _ _ _ _ _ _ |- _ => destruct H as (b & xs & tr & K & ->) end.
    exists a, b0. repeat split; try assumption. exists p, amt. reflexivity.
Qed.

Lemma tx_bseq s o out s' :
  tx_shape s o out s' ->
  st_bseq s' = st_bseq s \/ (out = Accepted /\ exists who id bt price coin, o = OTx (MPlaceBid who id bt price coin)).
Proof.
  intros Sh. shape_cases Sh; try (left; reflexivity).
  - right. split; [reflexivity|]. do 5 eexists. reflexivity.
  - right. split; [reflexivity|]. do 5 eexists. reflexivity.
Qed.

Lemma bid_keys_set_terms b p amt : bid_keys_eq b (set_b_terms b p amt).
Proof. repeat split. Qed.
Lemma bid_keys_set_matched b x : bid_keys_eq b (set_b_matched b x).
Proof. repeat split. Qed.

Lemma tx_bids_evolve s o out s' : tx_shape s o out s' -> bids_evolve s s'.
Proof.
  intros Sh. shape_cases Sh; try (apply bids_evolve_same; reflexivity).
  - eapply bids_evolve_app. reflexivity.
  - eapply bids_evolve_app. reflexivity.
  - pose proof (find_bid_some _ _ _ _ B) as (_ & Hb1 & Hb2).
    eapply (bids_evolve_put_bid s _ b0 (set_b_terms b0 p amt)); [reflexivity| |apply bid_keys_set_terms].
    cbn [b_auction b_id set_b_terms]. rewrite Hb1, Hb2. exact B.
Qed.
