(* J9 (InvDefs.mlen_inv): the recorded number of matched bids of a batch auction is the number of its
   flagged bids; preserved by the processing of one auction, by a whole block and by every operation. *)
From Coq Require Import ZArith NArith List Bool Arith Lia.
From FR Require Import Dec Types Bank Match Step Genesis Model Spec.
From FR.Proofs Require Import FrameFacts TxFacts BlockFacts MatchBase MatchDemand MatchConseq InvDefs VestingFacts VestingInv
     PublishFacts PublishStable.
Import ListNotations.
Open Scope Z_scope.

Definition mlen_ok (s : state) (j : N) : Prop :=
  match find_auction s j with
  | Some a => match a_type a with
              | Batch => st_mlen s j = count_matched (st_bids s) j
              | FixedPrice => st_mlen s j = 0
              end
  | None => st_mlen s j = 0
  end.
Lemma mlen_inv_ok s : mlen_inv s <-> forall j, mlen_ok s j.
Proof. reflexivity. Qed.

(* what is assumed of the rest of the invariant *)
(* J3: every bid belongs to an existing auction; bid keys are unique *)
Definition bids_ref (s : state) : Prop := forall b, In b (st_bids s) -> find_auction s (b_auction b) <> None.
(* J3, J4, J5 restricted to one auction: the book the matching theorems need *)
Definition book_ok (s : state) (a : auction) : Prop :=
  a_type a = Batch -> a_status a = Started ->
  book_wf (bids_of s (a_id a)) (allowed_of s (a_id a)) /\ 0 <= a_sell_amt a.

Lemma mlen_ok_slice j s s' : slice_eq j s s' -> mlen_ok s j -> mlen_ok s' j.
Proof.
  intros [E1 E2 _ _ _ E6 _]. unfold mlen_ok. rewrite E1, E6, !count_matched_bids_of, E2. auto.
Qed.

Lemma mlen_ok_same_type s s' j a a' :
  find_auction s j = Some a -> find_auction s' j = Some a' -> a_type a' = a_type a ->
  st_mlen s' j = st_mlen s j -> bids_of s' j = bids_of s j -> mlen_ok s j -> mlen_ok s' j.
Proof.
  intros F F' T M B. unfold mlen_ok. rewrite F, F', T, M, !count_matched_bids_of, B. auto.
Qed.

Lemma block_rel_type t orc s a a' : block_rel t orc s a a' -> a_type a' = a_type a.
Proof.
  unfold block_rel. destruct (a_status a).
  - destruct (a_start a <=? t); intros ->; reflexivity.
  - destruct (last_end a <=? t); [|intros ->; reflexivity]. destruct (a_type a) eqn:T.
    + intros ->. exact T.
    + intros (order & mi & _ & _ & ->). destruct (decision s a mi); exact T.
  - destruct (last_due t (vqs_of s (a_id a))); intros ->; reflexivity.
  - intros ->; reflexivity.
  - intros ->; reflexivity.
Qed.

Lemma process_fixed_mlen t orc s a s' :
  a_type a = FixedPrice -> process t orc s a = Ok s' -> st_mlen s' = st_mlen s.
Proof.
  intros T H. unfold process in H. destruct (a_status a).
  - destruct (a_start a <=? t); injection H as <-; reflexivity.
  - destruct (last_end a <=? t); [|injection H as <-; reflexivity].
    rewrite T in H. apply close_fixed_bids in H. apply H.
  - apply release_loop_spec in H. apply (rs_mlen _ _ _ _ _ H).
  - injection H as <-. reflexivity.
  - injection H as <-. reflexivity.
Qed.

(* the batch auction that is processed: either bids and count are untouched, or the batch was closed *)
Lemma process_batch_mlen t orc s a s' :
  find_auction s (a_id a) = Some a -> a_type a = Batch -> book_ok s a ->
  process t orc s a = Ok s' ->
  (st_mlen s' = st_mlen s /\ st_bids s' = st_bids s)
  \/ st_mlen s' (a_id a) = count_matched (st_bids s') (a_id a).
Proof.
  intros F T BK H. unfold process in H. destruct (a_status a) eqn:St.
  - left. destruct (a_start a <=? t); injection H as <-; split; reflexivity.
  - destruct (last_end a <=? t); [|left; injection H as <-; split; reflexivity].
    rewrite T in H. right. destruct (BK T St) as [WF Hs].
    destruct (close_batch_publishes s orc a s' F WF Hs H) as (order & mi & a' & _ & _ & _ & _ & _ & _ & _ & _ & _ & C & _).
    exact C.
  - left. apply release_loop_spec in H. split; [apply (rs_mlen _ _ _ _ _ H)|apply (rs_bids _ _ _ _ _ H)].
  - left. injection H as <-. split; reflexivity.
  - left. injection H as <-. split; reflexivity.
Qed.

Theorem mlen_inv_process t orc s a s' :
  find_auction s (a_id a) = Some a -> book_ok s a -> mlen_inv s -> process t orc s a = Ok s' -> mlen_inv s'.
Proof.
  intros F BK W H j. change (mlen_ok s' j). specialize (W j). change (mlen_ok s j) in W.
  destruct (process_spec _ _ _ _ _ H) as [PE PS].
  destruct (N.eq_dec j (a_id a)) as [->|Hj].
  2:{ eapply mlen_ok_slice; [apply (pe_frame _ _ _ PE j Hj)|exact W]. }
  destruct (PS F) as (a' & F' & R). pose proof (block_rel_type _ _ _ _ _ R) as T'.
  destruct (a_type a) eqn:T.
  - apply (mlen_ok_same_type s s' (a_id a) a a' F F'); [| | |exact W].
    + congruence.
    + rewrite (process_fixed_mlen _ _ _ _ _ T H). reflexivity.
    + unfold bids_of. rewrite (process_fixed_bids _ _ _ _ _ T H). reflexivity.
  - destruct (process_batch_mlen _ _ _ _ _ F T BK H) as [[M B]|C].
    + apply (mlen_ok_same_type s s' (a_id a) a a' F F'); [| | |exact W].
      * congruence.
      * rewrite M. reflexivity.
      * unfold bids_of. rewrite B. reflexivity.
    + unfold mlen_ok. rewrite F', T'. exact C.
Qed.

Lemma book_ok_slice s s1 a : slice_eq (a_id a) s s1 -> book_ok s a -> book_ok s1 a.
Proof. intros [_ E2 E3 _ _ _ _] BK T St. rewrite E2, E3. apply BK; assumption. Qed.

Theorem mlen_inv_process_all t orc : forall l s s',
  NoDup (map a_id l) -> (forall a, In a l -> find_auction s (a_id a) = Some a /\ book_ok s a) ->
  mlen_inv s -> process_all t orc s l = Ok s' -> mlen_inv s'.
Proof.
  induction l as [|a rest IH]; cbn [process_all map]; intros s s' ND Hl W H.
  - injection H as <-. exact W.
  - inversion ND as [|? ? Hn ND']; subst.
    destruct (process t orc s a) as [s1|] eqn:E; cbn [bind] in H; [|discriminate H].
    destruct (Hl a (or_introl eq_refl)) as [Fa BKa].
    pose proof (mlen_inv_process _ _ _ _ _ Fa BKa W E) as W1.
    destruct (process_spec _ _ _ _ _ E) as [PE _].
    apply (IH s1 s' ND'); [|exact W1|exact H].
    intros b Hb. destruct (Hl b (or_intror Hb)) as [Fb BKb].
    assert (Hne : a_id b <> a_id a).
    { intros Heq. apply Hn. rewrite <- Heq. apply in_map. exact Hb. }
    pose proof (pe_frame _ _ _ PE _ Hne) as SL. split.
    + rewrite (se_auction _ _ _ SL). exact Fb.
    + eapply book_ok_slice; eassumption.
Qed.

Definition books_ok (s : state) : Prop := forall a, In a (st_auctions s) -> book_ok s a.

Theorem mlen_inv_begin_block s t orc s' :
  ids_ok s -> books_ok s -> mlen_inv s -> begin_block s t orc = Ok s' -> mlen_inv s'.
Proof.
  intros OK BK W H. unfold begin_block in H. cbv zeta in H.
  change (st_auctions (with_now s t)) with (st_auctions s) in H.
  apply (mlen_inv_process_all t orc (st_auctions s) (with_now s t) s'); [apply OK| |exact W|exact H].
  intros a Ha. split.
  - change (find_auction (with_now s t) (a_id a)) with (find_auction s (a_id a)). apply ids_ok_find; assumption.
  - exact (BK a Ha).
Qed.

(* ------------------------------------------------------------------ transactions and API calls *)
Lemma mlen_ok_ext s s' j :
  st_auctions s' = st_auctions s -> st_bids s' = st_bids s -> st_mlen s' = st_mlen s -> mlen_ok s j -> mlen_ok s' j.
Proof. intros A B M. unfold mlen_ok. rewrite (find_auction_conv s s' j A), B, M. auto. Qed.

Lemma count_matched_none bs j : (forall b, In b bs -> b_auction b <> j) -> count_matched bs j = 0.
Proof.
  intros H. unfold count_matched. rewrite (filter_ext_in' _ (fun _ => false) bs).
  - clear. induction bs as [|b bs IH]; [reflexivity|exact IH].
  - intros b Hb. specialize (H b Hb). apply N.eqb_neq in H. rewrite H. reflexivity.
Qed.

Lemma count_matched_map (g : bid -> bid) bs j :
  (forall x, In x bs -> b_auction (g x) = b_auction x /\ b_matched (g x) = b_matched x) ->
  count_matched (map g bs) j = count_matched bs j.
Proof.
  intros H. unfold count_matched. f_equal. induction bs as [|b bs IH]; cbn [map filter]; [reflexivity|].
  destruct (H b (or_introl eq_refl)) as [E1 E2]. rewrite E1, E2.
  assert (IH' := IH (fun x Hx => H x (or_intror Hx))).
  destruct (N.eqb (b_auction b) j && b_matched b); cbn [length]; rewrite IH'; reflexivity.
Qed.

Lemma count_matched_snoc bs nb j :
  count_matched (bs ++ [nb]) j = count_matched bs j + (if N.eqb (b_auction nb) j && b_matched nb then 1 else 0).
Proof.
  unfold count_matched. rewrite filter_app, app_length, Nat2Z.inj_add. cbn [filter].
  destruct (N.eqb (b_auction nb) j && b_matched nb); reflexivity.
Qed.

Lemma count_put_bid s a i b0 p amt j :
  bid_keys_unique s -> find_bid s a i = Some b0 ->
  count_matched (st_bids (put_bid s (set_b_terms b0 p amt))) j = count_matched (st_bids s) j.
Proof.
  intros U F. apply find_bid_some in F. destruct F as (Hb0 & _ & _).
  unfold put_bid. cbn [st_bids with_bids]. apply count_matched_map. intros x Hx.
  cbn [b_auction b_id set_b_terms].
  destruct (N.eqb (b_auction x) (b_auction b0) && N.eqb (b_id x) (b_id b0)) eqn:E; [|split; reflexivity].
  apply andb_true_iff in E. destruct E as [E1 E2]. apply N.eqb_eq in E1, E2.
  assert (x = b0).
  { apply (NoDup_map_inj (fun b => (b_auction b, b_id b)) (st_bids s)); try assumption. congruence. }
  subst x. split; reflexivity.
Qed.

Lemma cancel_of_type a : a_type (cancel_of a) = a_type a.
Proof. unfold cancel_of. destruct (a_type a) eqn:T; cbn; exact T. Qed.

Lemma mlen_inv_tx_shape s o out s' :
  tx_shape s o out s' -> (forall who id bt price coin, o <> OTx (MPlaceBid who id bt price coin)) ->
  bids_ref s -> bid_keys_unique s -> mlen_inv s -> mlen_inv s'.
Proof.
  intros Sh N1 BR U W j. change (mlen_ok s' j). specialize (W j). change (mlen_ok s j) in W.
  shape_cases Sh; try (eapply mlen_ok_ext; [reflexivity|reflexivity|reflexivity|exact W]).
  - (* create *)
    unfold mlen_ok in *.
    match goal with |- context [find_auction ?s1 j] => rewrite (find_auction_conv_app s s1 a0 j eq_refl) end.
    cbn [st_mlen st_bids with_trace with_auctions with_bank with_aseq].
    destruct (find_auction s j) as [x|] eqn:Fj; [exact W|].
    destruct (N.eqb (a_id a0) j) eqn:E; [|exact W].
    destruct (a_type a0); [exact W|]. rewrite W. symmetry. apply count_matched_none.
    intros y Hy Hj. apply (BR y Hy). rewrite Hj. exact Fj.
  - (* cancel *)
    fold (cancel_of a0). pose proof (find_auction_some _ _ _ F0) as [_ Hid]. unfold mlen_ok in *.
    match goal with |- context [find_auction ?s1 j] => rewrite (find_auction_conv_put s s1 (cancel_of a0) j eq_refl) end.
    rewrite a_id_cancel_of. cbn [st_mlen st_bids put_auction with_auctions with_trace with_bank].
    destruct (N.eqb j (a_id a0)) eqn:E; [|exact W].
    apply N.eqb_eq in E. rewrite E, Hid, F0 in *. rewrite cancel_of_type. exact W.
  - exfalso. eapply N1. reflexivity.
  - exfalso. eapply N1. reflexivity.
  - (* modify *)
    unfold mlen_ok in *.
    match goal with |- context [find_auction ?s1 j] =>
      rewrite (find_auction_conv s s1 j eq_refl) end.
    change (st_mlen (put_bid (with_trace (with_bank s b xs) tr) (set_b_terms b0 p amt)) j) with (st_mlen s j).
    change (st_bids (put_bid (with_trace (with_bank s b xs) tr) (set_b_terms b0 p amt)))
      with (st_bids (put_bid s (set_b_terms b0 p amt))).
    rewrite (count_put_bid s _ _ b0 p amt j U B). exact W.
Qed.

Theorem mlen_inv_tx s o :
  is_block o = false -> o <> OGenesis -> bids_ref s -> bid_keys_unique s -> mlen_inv s ->
  mlen_inv (snd (step s o)).
Proof.
  intros B Hg BR U W. pose proof (step_shape s o B Hg) as Sh.
  destruct o as [m| | | | | | |]; try (eapply mlen_inv_tx_shape; [exact Sh|discriminate|assumption..]).
  destruct m; try (eapply mlen_inv_tx_shape; [exact Sh|discriminate|assumption..]).
  (* MPlaceBid *)
  cbn [step] in *. unfold deliver_tx in *.
  destruct (check_basic (MPlaceBid who a bt price coin)) as [c|] eqn:CB; [|exact W].
  pose proof (check_basic_matches _ _ CB) as CM. destruct c; cbn [cmsg_matches] in CM; try contradiction. subst a0.
  cbn [handle] in *. destruct (place_bid s u a bt0 price0 d amt) as [s'|c tr] eqn:HP; cbn [commit snd fst] in *.
  2:{ intros j. apply (mlen_ok_ext s); [reflexivity|reflexivity|reflexivity|exact (W j)]. }
  destruct (place_bid_flag _ _ _ _ _ _ _ _ HP) as (a0 & nb & F & _ & HB & B1 & _ & _ & B4 & _ & _ & _ & M).
  inversion Sh; subst; try discriminate.
  match goal with H : placed _ _ _ ?a1 _ |- _ => rename a1 into ap; rename H into PL end.
  match goal with H : find_auction s _ = Some ap |- _ => rename H into Fp end.
  destruct PL as (b & xs & tr & s2 & K & Hs2 & Hs').
  assert (HM : st_mlen s' = st_mlen s) by (destruct Hs2 as [->|(x & ->)]; rewrite Hs'; reflexivity).
  assert (HA : forall j, exists a', (find_auction s j = None -> find_auction s' j = None) /\
                (forall x, find_auction s j = Some x -> find_auction s' j = Some (a' x) /\ a_type (a' x) = a_type x)).
  { intros j. destruct Hs2 as [->|(x & ->)]; rewrite Hs'.
    - exists (fun x => x). split; [intros H; exact H|intros y H; split; [exact H|reflexivity]].
    - exists (fun y => if N.eqb j (a_id ap) then set_remaining ap x else y).
      match goal with |- context [find_auction ?s1 j] =>
        rewrite (find_auction_conv_put s s1 (set_remaining ap x) j eq_refl) end.
      cbn [a_id set_remaining]. destruct (N.eqb j (a_id ap)) eqn:E.
      + split; [intros ->; reflexivity|]. intros y Hy. rewrite Hy. split; [reflexivity|].
        apply N.eqb_eq in E. pose proof (find_auction_some _ _ _ Fp) as [_ Hid]. rewrite E, Hid, Fp in Hy.
        injection Hy as <-. reflexivity.
      + split; [intros H; exact H|intros y Hy; split; [exact Hy|reflexivity]]. }
  intros j. specialize (W j). change (mlen_ok s j) in W. change (mlen_ok s' j). unfold mlen_ok in *.
  destruct (HA j) as (f & HN & HS). rewrite HM, HB, count_matched_snoc.
  destruct (find_auction s j) as [x|] eqn:Fj.
  - destruct (HS x eq_refl) as [-> ->]. destruct (a_type x) eqn:Tx; [exact W|].
    destruct (N.eqb (b_auction nb) j) eqn:E; cbn [andb]; [|lia].
    apply N.eqb_eq in E. subst j. rewrite F in Fj. injection Fj as <-.
    destruct (b_type nb); [destruct M as (M & _); congruence| |]; destruct M as (_ & -> & _); lia.
  - rewrite (HN eq_refl). exact W.
Qed.

(* ------------------------------------------------------------------ J9 is preserved by every operation *)
Theorem mlen_inv_step s o :
  ids_ok s -> bids_ref s -> bid_keys_unique s -> books_ok s -> mlen_inv s -> o <> OGenesis ->
  mlen_inv (snd (step s o)).
Proof.
  intros OK BR U BK W Hg. destruct (is_block o) eqn:B.
  - destruct (step_block s o B) as [[_ H]|[_ (tr & ->)]].
    + eapply mlen_inv_begin_block; eassumption.
    + intros j. apply (mlen_ok_ext s); [reflexivity|reflexivity|reflexivity|exact (W j)].
  - apply mlen_inv_tx; assumption.
Qed.

(* the assumptions follow from the other parts of the global invariant *)
Lemma bids_wf_ref s : bids_wf s -> bids_ref s.
Proof.
  intros [H _] b Hb. rewrite Forall_forall in H. destruct (bwf_auction s b (H b Hb)) as (a & F & _). congruence.
Qed.

Lemma NoDup_keys_of_slices (l : list bid) :
  (forall id, NoDup (map b_id (filter (fun b => N.eqb (b_auction b) id) l))) ->
  NoDup (map (fun b => (b_auction b, b_id b)) l).
Proof.
  induction l as [|x l IH]; intros H; cbn [map]; [constructor|]. constructor.
  - intros HI. apply in_map_iff in HI. destruct HI as (y & Ey & Hy). injection Ey as E1 E2.
    specialize (H (b_auction x)). cbn [filter] in H. rewrite N.eqb_refl in H. cbn [map] in H.
    inversion H as [|? ? Hn _]; subst. apply Hn. rewrite <- E2. apply in_map. apply filter_In.
    split; [exact Hy|apply N.eqb_eq; exact E1].
  - apply IH. intros id. specialize (H id). cbn [filter] in H.
    destruct (N.eqb (b_auction x) id); [|exact H]. cbn [map] in H. inversion H; assumption.
Qed.

Lemma bids_wf_keys s : bids_wf s -> bid_keys_unique s.
Proof.
  intros [_ H]. unfold bid_keys_unique. apply NoDup_keys_of_slices. intros id. fold (bids_of s id). rewrite H.
  unfold ids_upto. rewrite map_map. apply FinFun.Injective_map_NoDup; [|apply seq_NoDup].
  intros x y E. apply N.succ_inj in E. apply Nat2N.inj. exact E.
Qed.

Lemma NoDup_map_filter' {A B} (f : A -> B) (g : A -> bool) l : NoDup (map f l) -> NoDup (map f (filter g l)).
Proof. apply NoDup_map_filter. Qed.

Lemma inv_books_ok s : auctions_wf s -> bids_wf s -> allowed_wf s -> bids_allowed s -> books_ok s.
Proof.
  intros AW [BW _] [AP AN] BA a Ha _ _. rewrite Forall_forall in BW, AP.
  unfold auctions_wf in AW. rewrite Forall_forall in AW. split; [|pose proof (awf_amt a (AW a Ha)); lia].
  constructor.
  - intros b Hb. unfold bids_of in Hb. apply filter_In in Hb. apply (bwf_price s b (BW b (proj1 Hb))).
  - intros b Hb. unfold bids_of in Hb. apply filter_In in Hb. apply (bwf_amt s b (BW b (proj1 Hb))).
  - intros b Hb. unfold bids_of in Hb. apply filter_In in Hb. destruct Hb as [Hb Eb]. apply N.eqb_eq in Eb.
    specialize (BA b Hb). unfold find_allowed in BA.
    destruct (find (fun x => N.eqb (al_auction x) (b_auction b) && N.eqb (al_bidder x) (b_bidder b)) (st_allowed s))
      as [x|] eqn:Fx; [|congruence].
    apply find_some in Fx. destruct Fx as [Hx Ex]. apply andb_true_iff in Ex. destruct Ex as [E1 E2].
    apply N.eqb_eq in E1, E2. exists x. split; [|exact E2].
    unfold allowed_of. apply filter_In. split; [exact Hx|]. apply N.eqb_eq. congruence.
  - unfold allowed_of.
    assert (ND : NoDup (map (fun x => (al_auction x, al_bidder x))
                            (filter (fun x => N.eqb (al_auction x) (a_id a)) (st_allowed s))))
      by (apply NoDup_map_filter'; exact AN).
    revert ND. generalize (st_allowed s). intros l. induction l as [|x l IH]; cbn [filter]; [constructor|].
    destruct (N.eqb (al_auction x) (a_id a)) eqn:E; [|exact IH]. cbn [map]. intros ND.
    inversion ND as [|? ? Hn ND']; subst. constructor; [|apply IH; exact ND'].
    intros HI. apply Hn. apply in_map_iff in HI. destruct HI as (y & Ey & Hy). apply in_map_iff.
    exists y. split; [|exact Hy]. apply filter_In in Hy. destruct Hy as [_ Ay].
    apply N.eqb_eq in E, Ay. congruence.
  - intros x Hx. unfold allowed_of in Hx. apply filter_In in Hx. apply (AP x (proj1 Hx)).
Qed.

Corollary mlen_inv_step_inv s o : Inv s -> o <> OGenesis -> mlen_inv (snd (step s o)).
Proof.
  intros I Hg. apply mlen_inv_step; try assumption.
  - apply VestingInv.ids_seq_ids_ok, (inv_ids s I).
  - apply bids_wf_ref, (inv_bids s I).
  - apply bids_wf_keys, (inv_bids s I).
  - apply inv_books_ok; [apply (inv_auctions s I)|apply (inv_bids s I)|apply (inv_allowed s I)|apply (inv_bids_allowed s I)].
  - apply (inv_mlen s I).
Qed.
