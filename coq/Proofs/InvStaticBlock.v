(* InvS is preserved by BeginBlocker, at the granularity of one auction (process), of a list of auctions
   (process_all) and of the whole block (begin_block, the OBlock / OFaultBlock steps).
   No assumption on the oracle is needed: an invalid sweep order makes the block fail. *)
From Coq Require Import ZArith NArith List Bool Arith Lia Permutation.
From FR Require Import Dec Types Bank Match Step Genesis Model Spec.
From FR.Proofs Require Import FrameFacts TxFacts MatchDemand MatchBatch InvDefs InvStaticBase InvStaticUpd.
Import ListNotations.
Open Scope Z_scope.

(* ------------------------------------------------------------------ the matched ids of calc_batch, structurally *)
Lemma sweep_matched p supply : forall bs caps total matched byb r,
  sweep p supply bs caps total matched byb = SFit r ->
  incl (mr_matched r) (matched ++ map b_id bs)
  /\ (NoDup (matched ++ map b_id bs) -> NoDup (mr_matched r)).
Proof.
  induction bs as [|b bs IH]; cbn [sweep]; cbv zeta; intros caps total matched byb r H.
  - injection H as <-. cbn [mr_matched map]. rewrite app_nil_r. split; [apply incl_refl|auto].
  - destruct (caps (b_bidder b)) as [cap|]; [|discriminate].
    destruct (supply <? total + Z.min (bid_qty_at b p) cap); [discriminate|].
    destruct (0 <? Z.min (bid_qty_at b p) cap).
    + apply IH in H. cbn [map]. rewrite <- app_assoc in H. cbn [app] in H. exact H.
    + apply IH in H. destruct H as [H1 H2]. cbn [map]. split.
      * intros x Hx. apply H1 in Hx. apply in_app_or in Hx. apply in_or_app.
        destruct Hx; [left|right; right]; assumption.
      * intros ND. apply H2. eapply NoDup_remove_1. exact ND.
Qed.

Lemma NoDup_map_filter' {A B} (f : A -> B) (g : A -> bool) l : NoDup (map f l) -> NoDup (map f (filter g l)).
Proof.
  induction l as [|x l IH]; cbn [map filter]; intros ND; [constructor|].
  inversion ND as [|? ? Hn ND']; subst. destruct (g x); [|apply IH; exact ND'].
  cbn [map]. constructor; [|apply IH; exact ND'].
  intros HI. apply Hn. apply in_map_iff in HI. destruct HI as (y & Hy & HI). apply filter_In in HI.
  apply in_map_iff. exists y. split; [exact Hy|apply HI].
Qed.

Definition ids_within (order : list bid) (r : mres) : Prop :=
  NoDup (mr_matched r) /\ incl (mr_matched r) (map b_id order).

Lemma match_at_matched p supply order al r :
  NoDup (map b_id order) -> match_at p supply order al = SFit r -> ids_within order r.
Proof.
  unfold match_at. intros ND H. apply sweep_matched in H. cbn [app] in H. destruct H as [H1 H2]. split.
  - apply H2. apply NoDup_map_filter'. exact ND.
  - intros x Hx. apply H1 in Hx. apply in_map_iff in Hx. destruct Hx as (b & <- & Hb).
    apply filter_In in Hb. apply in_map. apply Hb.
Qed.

Lemma search_inv (Q : mres -> Prop) probe :
  (forall h r, probe h = SFit r -> Q r) ->
  forall fuel i j best res,
    (forall h r, best = Some (h, r) -> Q r) -> search fuel probe i j best = Some res ->
    forall h r, res = Some (h, r) -> Q r.
Proof.
  intros HP. induction fuel as [|k IH]; cbn [search]; intros i j best res HB H.
  - injection H as <-. exact HB.
  - destruct (Nat.ltb i j); [|injection H as <-; exact HB].
    destruct (probe (Nat.div (i + j) 2)) as [r0| |] eqn:E; [| |discriminate].
    + eapply IH; [|exact H]. destruct (mr_matched r0); [exact HB|].
      intros h r Hr. injection Hr as <- <-. eapply HP. exact E.
    + eapply IH; [exact HB|exact H].
Qed.

Lemma calc_batch_static a bs order al mi :
  calc_batch a bs order al = Some mi -> NoDup (map b_id order) -> (forall b, In b order -> 0 < b_price b) ->
  NoDup (mi_matched mi) /\ incl (mi_matched mi) (map b_id order) /\ 0 <= mi_price mi.
Proof.
  rewrite calc_batch_unfold. intros H ND HP.
  destruct (search (S (length (distinct_prices order))) (probe_of a order al) 0
                   (length (distinct_prices order)) None) as [best|] eqn:E; [|discriminate].
  injection H as <-.
  assert (Q : forall h r, best = Some (h, r) -> ids_within order r).
  { refine (search_inv (ids_within order) _ _ _ _ _ None best _ E); [|intros h r C; discriminate C].
    intros h r. unfold probe_of. apply match_at_matched. exact ND. }
  unfold mi_of. cbn [mi_matched mi_price]. destruct best as [[h r]|].
  - destruct (Q h r eq_refl) as [Q1 Q2]. split; [exact Q1|]. split; [exact Q2|].
    destruct (nth_in_or_default (length (distinct_prices order) - 1 - h) (distinct_prices order) 0) as [HI | ->];
      [|lia].
    apply distinct_prices_in in HI. apply in_map_iff in HI. destruct HI as (b & <- & Hb).
    specialize (HP b Hb). lia.
  - cbn [empty_mres mr_matched]. split; [constructor|]. split; [intros x []|lia].
Qed.

(* ------------------------------------------------------------------ how the auction list moves *)
Definition auctions_step (a : auction) (l l' : list auction) : Prop :=
  l' = l \/ exists a', a_id a' = a_id a /\ l' = map (fun x => if N.eqb (a_id x) (a_id a') then a' else x) l.

Lemma auctions_step_keeps a l l' x : auctions_step a l l' -> In x l -> a_id x <> a_id a -> In x l'.
Proof.
  intros [->|(a' & Hid & ->)] Hx Hne; [exact Hx|].
  apply in_map_iff. exists x. split; [|exact Hx].
  rewrite Hid. apply N.eqb_neq in Hne. rewrite Hne. reflexivity.
Qed.

Lemma ceq_find s s' j : ceq s s' -> find_auction s' j = find_auction s j.
Proof. intros (_ & H & _). apply find_auction_conv. exact H. Qed.
Lemma ceq_auctions s s' : ceq s s' -> st_auctions s' = st_auctions s.
Proof. intros (_ & H & _). exact H. Qed.


Lemma split_auction a total : forall vs rem v, In v (split a total rem vs) -> v_auction v = a_id a.
Proof.
  induction vs as [|x vs IH]; cbn [split]; intros rem v HI; [contradiction|].
  destruct HI as [<-|HI]; [reflexivity|]. eapply IH. exact HI.
Qed.

(* ------------------------------------------------------------------ the pieces of process *)
Lemma InvS_apply_vesting s a0 a s' :
  InvS s -> find_auction s (a_id a0) = Some a0 -> upd_ok a0 a -> auction_wf a ->
  apply_vesting s a = Ok s' -> InvS s' /\ auctions_step a0 (st_auctions s) (st_auctions s').
Proof.
  unfold apply_vesting. cbv zeta. intros I F U W H. pose proof U as (Uid & _).
  destruct (a_scheds a) as [|v vs] eqn:ES.
  - inv_step H. inv_step H. subst s'. apply send_inv0 in E. destruct E as (b & xs & ->). split.
    + apply (InvS_put_auction _ a0); [apply InvS_with_bank; exact I|exact F| |apply auction_wf_set_status; exact W].
      apply upd_ok_set_status; [exact U|discriminate|discriminate].
    + right. exists (set_status a Finished). split; [exact Uid|reflexivity].
  - inv_step H. inv_step H. subst s'. apply send_inv0 in E. destruct E as (b & xs & ->). split.
    + apply (InvS_put_auction _ a0); [|exact F| |apply auction_wf_set_status; exact W].
      * apply InvS_with_vqs; [apply InvS_with_bank; exact I|].
        apply Forall_app. split; [exact (InvS_vqs_lt s I)|].
        rewrite Forall_forall. intros x Hx. pose proof (split_auction a _ (v :: vs) _ x Hx) as Hx'.
        rewrite Hx', Uid.
        exact (InvS_find_lt s _ a0 I F).
      * apply upd_ok_set_status; [exact U|discriminate|discriminate].
    + right. exists (set_status a VestingS). split; [exact Uid|reflexivity].
Qed.

Lemma allocate_ceq s a mi w s' : allocate s a mi w = Ok s' -> ceq s s'.
Proof.
  unfold allocate. cbv zeta. intros H. inv_step H.
  eapply ceq_trans; [eapply call_hook_ceq; exact E|eapply pay_out_ceq; exact H].
Qed.
Lemma refund_selling_ceq s a s' : refund_selling s a = Ok s' -> ceq s s'.
Proof. apply send_ceq. Qed.

Lemma InvS_close_fixed s a s' :
  InvS s -> find_auction s (a_id a) = Some a -> a_status a = Started ->
  close_fixed s a = Ok s' -> InvS s' /\ auctions_step a (st_auctions s) (st_auctions s').
Proof.
  unfold close_fixed. cbv zeta. intros I F St H. inv_step H. inv_step H.
  apply allocate_ceq in E. apply refund_selling_ceq in E0.
  pose proof (ceq_trans _ _ _ E E0) as C.
  rewrite <- (ceq_auctions _ _ C).
  apply (InvS_apply_vesting s1 a a s'); [eapply InvS_ceq; eassumption| | | |exact H].
  - rewrite (ceq_find _ _ _ C). exact F.
  - apply upd_ok_same_status; try reflexivity. rewrite St. discriminate.
  - exact (InvS_find_wf s _ a I F).
Qed.

Lemma hd_app_nonempty (l e : list Z) : (1 <= length l)%nat -> hd 0 (l ++ e) = hd 0 l.
Proof. destruct l; cbn; [lia|reflexivity]. Qed.

Lemma InvS_close_batch s orc a s' :
  InvS s -> find_auction s (a_id a) = Some a -> a_status a = Started -> a_type a = Batch ->
  close_batch s orc a = Ok s' -> InvS s' /\ auctions_step a (st_auctions s) (st_auctions s').
Proof.
  unfold close_batch. cbv zeta. intros I F St T H.
  destruct (valid_order (bids_of s (a_id a))
              match find (fun x => N.eqb (fst x) (a_id a)) orc with Some (_, l) => l | None => [] end)
    as [order|] eqn:VO; [|discriminate H].
  destruct (calc_batch a (bids_of s (a_id a)) order (allowed_of s (a_id a))) as [mi|] eqn:CB; [|discriminate H].
  pose proof (InvS_find_wf s _ a I F) as W.
  destruct (valid_order_spec _ _ _ VO) as (Pm & _ & Eids & NDids).
  assert (BP : forall b, In b order -> 0 < b_price b).
  { intros b Hb. apply (Permutation_in _ Pm) in Hb. apply bids_of_in in Hb. destruct Hb as [Hb _].
    destruct (is_bids s I) as [B1 _]. rewrite Forall_forall in B1. apply (bwf_price s b (B1 b Hb)). }
  destruct (calc_batch_static _ _ _ _ _ CB) as (M1 & M2 & M3); [rewrite Eids; exact NDids|exact BP|].
  assert (I1 : InvS (set_flags s (a_id a) (mi_matched mi))).
  { apply (InvS_set_flags s (a_id a) a); try assumption.
    intros x Hx. apply M2 in Hx. eapply Permutation_in; [apply Permutation_map; exact Pm|exact Hx]. }
  set (s1 := set_flags s (a_id a) (mi_matched mi)) in *.
  set (a1 := set_matched_price a (mi_price mi)) in *.
  assert (W1 : auction_wf a1) by (apply auction_wf_set_matched_price; assumption).
  assert (U1 : upd_ok a a1).
  { apply upd_ok_same_status; try reflexivity. rewrite St. discriminate. }
  assert (F1 : find_auction s1 (a_id a) = Some a) by exact F.
  assert (SETTLE : settle_batch s1 a1 mi = Ok s' ->
            InvS s' /\ auctions_step a (st_auctions s) (st_auctions s')).
  { clear H. unfold settle_batch. intros H. inv_step H. inv_step H. inv_step H.
    apply allocate_ceq in E. apply refund_selling_ceq in E0. apply pay_out_ceq in E1.
    pose proof (ceq_trans _ _ _ (ceq_trans _ _ _ E E0) E1) as C.
    change (st_auctions s) with (st_auctions s1). rewrite <- (ceq_auctions _ _ C).
    apply (InvS_apply_vesting s3 a a1 s'); [eapply InvS_ceq; eassumption| |exact U1|exact W1|exact H].
    rewrite (ceq_find _ _ _ C). exact F1. }
  assert (EXTEND : N.eqb (a_max_round a1 + 1) (N.of_nat (length (a_ends a1))) = false ->
            extend_round s1 a1 = Ok s' -> InvS s' /\ auctions_step a (st_auctions s) (st_auctions s')).
  { clear H. unfold extend_round. intros E H. injection H as <-. split.
    - apply (InvS_put_auction s1 a); [exact I1|exact F1| |].
      + apply upd_ok_same_status; try reflexivity. rewrite St. discriminate.
      + destruct W as [_ _ _ W4 _ _ _ _ _]. apply N.eqb_neq in E.
        change (a_max_round a1) with (a_max_round a) in *. change (a_ends a1) with (a_ends a) in *.
        apply auction_wf_set_ends; [|apply hd_app_nonempty; change (a_ends a1) with (a_ends a); lia|exact W1].
        change (a_max_round a1) with (a_max_round a). change (a_ends a1) with (a_ends a).
        rewrite app_length. cbn [length]. lia.
    - right. eexists. split; [|reflexivity]. reflexivity. }
  destruct (N.eqb (a_max_round a1 + 1) (N.of_nat (length (a_ends a1)))) eqn:E1; [apply SETTLE; exact H|].
  destruct (st_mlen s (a_id a) =? 0); [apply EXTEND; [reflexivity|exact H]|].
  destruct (extend_rule (Z.of_nat (length (mi_matched mi))) (st_mlen s (a_id a)) (a_rate a1));
    [apply EXTEND; [reflexivity|exact H]|apply SETTLE; exact H].
Qed.

Lemma InvS_release_loop a t : forall vs s s',
  InvS s -> find_auction s (a_id a) = Some a -> a_status a = VestingS -> release_loop s a t vs = Ok s' ->
  InvS s' /\ auctions_step a (st_auctions s) (st_auctions s').
Proof.
  induction vs as [|v rest IH]; cbn [release_loop]; intros s s' I F St H.
  - injection H as <-. split; [exact I|left; reflexivity].
  - destruct ((v_time v <=? t) && negb (v_released v)); [|apply IH; assumption].
    inv_step H. apply send_inv0 in E. destruct E as (b & xs & ->).
    set (g := fun x : vq => if N.eqb (v_auction x) (v_auction v) && (v_time x =? v_time v)
                            then set_v_released x true else x) in *.
    assert (I1 : InvS (with_vqs (with_bank s b xs) (map g (st_vqs s)))).
    { apply InvS_with_vqs; [apply InvS_with_bank; exact I|].
      pose proof (InvS_vqs_lt s I) as HV. rewrite Forall_forall in *. intros y Hy.
      apply in_map_iff in Hy. destruct Hy as (x & <- & Hx). specialize (HV x Hx). cbn [st_aseq with_bank].
      subst g. cbn beta. destruct (N.eqb (v_auction x) (v_auction v) && (v_time x =? v_time v)); exact HV. }
    destruct rest as [|r rs].
    + cbn [release_loop] in H. injection H as <-. split.
      * apply (InvS_put_auction _ a); [exact I1|exact F| |].
        -- apply upd_ok_set_status; [|discriminate|discriminate].
           apply upd_ok_same_status; try reflexivity. rewrite St. discriminate.
        -- apply auction_wf_set_status. exact (InvS_find_wf s _ a I F).
      * right. exists (set_status a Finished). split; reflexivity.
    + change (st_auctions s) with (st_auctions (with_vqs (with_bank s b xs) (map g (st_vqs s)))).
      apply IH; [exact I1|exact F|exact St|exact H].
Qed.

(* ------------------------------------------------------------------ one auction *)
Lemma InvS_process_step t orc s a s' :
  InvS s -> In a (st_auctions s) -> process t orc s a = Ok s' ->
  InvS s' /\ auctions_step a (st_auctions s) (st_auctions s').
Proof.
  intros I Ha H. pose proof (InvS_find s a I Ha) as F. unfold process in H.
  destruct (a_status a) eqn:St.
  - destruct (a_start a <=? t); injection H as <-; [|split; [exact I|left; reflexivity]]. split.
    + apply (InvS_put_auction s a); [exact I|exact F| |apply auction_wf_set_status; exact (InvS_find_wf s _ a I F)].
      apply upd_ok_set_status; [|discriminate|discriminate].
      apply upd_ok_same_status; try reflexivity. rewrite St. discriminate.
    + right. exists (set_status a Started). split; reflexivity.
  - destruct (last_end a <=? t); [|injection H as <-; split; [exact I|left; reflexivity]].
    destruct (a_type a) eqn:T.
    + apply InvS_close_fixed; assumption.
    + eapply InvS_close_batch; eassumption.
  - eapply InvS_release_loop; eassumption.
  - injection H as <-. split; [exact I|left; reflexivity].
  - injection H as <-. split; [exact I|left; reflexivity].
Qed.

Theorem InvS_process t orc s a s' :
  InvS s -> In a (st_auctions s) -> process t orc s a = Ok s' -> InvS s'.
Proof. intros I Ha H. exact (proj1 (InvS_process_step t orc s a s' I Ha H)). Qed.

(* every other record of the store is kept as it is *)
Lemma process_keeps t orc s a s' x :
  InvS s -> In a (st_auctions s) -> process t orc s a = Ok s' ->
  In x (st_auctions s) -> a_id x <> a_id a -> In x (st_auctions s').
Proof.
  intros I Ha H. eapply auctions_step_keeps. exact (proj2 (InvS_process_step t orc s a s' I Ha H)).
Qed.

(* ------------------------------------------------------------------ a list of auctions *)
Lemma process_all_app t orc l1 : forall l2 s s',
  process_all t orc s (l1 ++ l2) = Ok s'
  <-> exists s1, process_all t orc s l1 = Ok s1 /\ process_all t orc s1 l2 = Ok s'.
Proof.
  induction l1 as [|a l1 IH]; cbn [app process_all]; intros l2 s s'.
  - split; [intros H; exists s; auto|]. intros (s1 & H1 & H2). injection H1 as <-. exact H2.
  - destruct (process t orc s a) as [s0|c tr]; cbn [bind]; [apply IH|].
    split; [discriminate|]. intros (s1 & H1 & _). discriminate H1.
Qed.

(* process_all walks a snapshot list l of records of the store; the records of the store that are not in l
   (by id) are still there afterwards, unchanged *)
Theorem InvS_process_all_keeps t orc : forall l s s',
  InvS s -> NoDup (map a_id l) -> (forall a, In a l -> In a (st_auctions s)) ->
  process_all t orc s l = Ok s' ->
  InvS s' /\ forall x, In x (st_auctions s) -> ~ In (a_id x) (map a_id l) -> In x (st_auctions s').
Proof.
  induction l as [|a rest IH]; cbn [process_all]; intros s s' I ND Hl H.
  - injection H as <-. auto.
  - destruct (process t orc s a) as [s1|] eqn:E; cbn [bind] in H; [|discriminate].
    cbn [map] in ND. inversion ND as [|? ? Hn ND']; subst.
    assert (Ha : In a (st_auctions s)) by (apply Hl; left; reflexivity).
    destruct (IH s1 s') as [I' K]; [eapply InvS_process; eassumption|exact ND'| |exact H|].
    + intros x Hx. apply (process_keeps t orc s a s1 x I Ha E); [apply Hl; right; exact Hx|].
      intros C. apply Hn. rewrite <- C. apply in_map. exact Hx.
    + split; [exact I'|]. intros x Hx Hnot. cbn [map In] in Hnot. apply K.
      * apply (process_keeps t orc s a s1 x I Ha E Hx). intros C. apply Hnot. left. symmetry. exact C.
      * intros C. apply Hnot. right. exact C.
Qed.

Theorem InvS_process_all t orc l s s' :
  InvS s -> NoDup (map a_id l) -> (forall a, In a l -> In a (st_auctions s)) ->
  process_all t orc s l = Ok s' -> InvS s'.
Proof. intros I ND Hl H. exact (proj1 (InvS_process_all_keeps t orc l s s' I ND Hl H)). Qed.

Lemma NoDup_app_parts {A} (l1 l2 : list A) :
  NoDup (l1 ++ l2) -> NoDup l1 /\ NoDup l2 /\ forall x, In x l1 -> In x l2 -> False.
Proof.
  induction l1 as [|y l1 IH]; cbn [app]; intros ND.
  - split; [constructor|]. split; [exact ND|intros x []].
  - inversion ND as [|? ? Hn ND']; subst. destruct (IH ND') as (N1 & N2 & D). split; [|split].
    + constructor; [|exact N1]. intros C. apply Hn. apply in_or_app. left. exact C.
    + exact N2.
    + intros x [<-|Hx] Hx2; [apply Hn; apply in_or_app; right; exact Hx2|exact (D x Hx Hx2)].
Qed.

(* inside a block: after the first part l1 of the snapshot has been processed, InvS holds and the records of
   the rest l2 of the snapshot are still the current records of the store *)
Corollary InvS_block_prefix s t orc l1 l2 s1 :
  InvS s -> st_auctions s = l1 ++ l2 -> process_all t orc (with_now s t) l1 = Ok s1 ->
  InvS s1 /\ (forall a, In a l2 -> In a (st_auctions s1)) /\ NoDup (map a_id l2).
Proof.
  intros I Hs H. destruct (ids_seq_ids_ok s (is_ids s I)) as [ND _]. rewrite Hs, map_app in ND.
  destruct (NoDup_app_parts _ _ ND) as (N1 & N2 & D).
  destruct (InvS_process_all_keeps t orc l1 (with_now s t) s1) as [I1 K];
    [apply InvS_with_now, I|exact N1| |exact H|].
  - intros a Ha. cbn [st_auctions with_now]. rewrite Hs. apply in_or_app. left. exact Ha.
  - split; [exact I1|]. split; [|exact N2].
    intros a Ha. apply K.
    + cbn [st_auctions with_now]. rewrite Hs. apply in_or_app. right. exact Ha.
    + intros C. apply (D (a_id a) C). apply in_map. exact Ha.
Qed.

(* ------------------------------------------------------------------ the block *)
Theorem InvS_begin_block s t orc s' : InvS s -> begin_block s t orc = Ok s' -> InvS s'.
Proof.
  unfold begin_block. cbv zeta. intros I H.
  apply (InvS_process_all t orc _ _ _ (InvS_with_now s t I)) in H; [exact H| |auto].
  destruct (ids_seq_ids_ok s (is_ids s I)) as [ND _]. exact ND.
Qed.

Theorem InvS_step_block s t orc : InvS s -> InvS (snd (step s (OBlock t orc))).
Proof.
  intros I. cbn [step]. destruct (begin_block s t orc) as [s'|c tr] eqn:E; cbn [snd].
  - eapply InvS_begin_block; eassumption.
  - apply InvS_with_trace, InvS_with_now, I.
Qed.

Theorem InvS_step_faultblock s t orc k : InvS s -> InvS (snd (step s (OFaultBlock t orc k))).
Proof.
  intros I. cbn [step]. destruct (begin_block s t orc) as [s'|c tr] eqn:E.
  - destruct (Nat.ltb k (length (st_xfers s') - length (st_xfers s))); cbn [snd].
    + apply InvS_with_now, I.
    + eapply InvS_begin_block; eassumption.
  - cbn [snd]. apply InvS_with_trace, InvS_with_now, I.
Qed.
