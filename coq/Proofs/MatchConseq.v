(* F, G. Consequences of calc_batch_full for the allocation bounds (C05, batch part) and for the
   payments/refunds (C04, batch part). *)
From Coq Require Import ZArith NArith List Bool Arith Lia Permutation Sorting.
From FR Require Import Dec Types Match Spec.
From FR.Proofs Require Import MatchBase MatchSweep MatchDemand MatchSearch MatchBatch.
Import ListNotations.
Open Scope Z_scope.
Opaque P.

(* what bidder u's bids ask for at price p, all of them (priced below p included) *)
Definition asked_all (bs : list bid) (u : N) (p : Z) : Z := asked p u bs.

Lemma qty_of_worth_price0 a : qty_of_worth a 0 = 0.
Proof.
  unfold qty_of_worth, truncate_int. generalize (dec_of_int a * (P * P)). intros x.
  destruct x; reflexivity.
Qed.

Lemma bid_qty_nonneg0 b p : 0 <= b_amt b -> 0 <= p -> 0 <= bid_qty_at b p.
Proof.
  intros Ha Hp. destruct (Z.eq_dec p 0) as [->|NE]; [|apply bid_qty_nonneg; lia].
  unfold bid_qty_at. destruct (b_type b); try exact Ha. rewrite qty_of_worth_price0. lia.
Qed.

Lemma filter_comm {A} (f g : A -> bool) l : filter f (filter g l) = filter g (filter f l).
Proof.
  rewrite !filter_filter. apply filter_ext_in'. intros x _. apply andb_comm.
Qed.

Lemma demand_of_le_asked bs cap u p :
  (forall b, In b bs -> 0 <= b_amt b) -> 0 < p -> demand_of bs cap u p <= asked p u bs.
Proof.
  intros Ha Hp. unfold demand_of, asked.
  rewrite <- (filter_filter (fun b => p <=? b_price b) (fun b => N.eqb (b_bidder b) u) bs).
  pose proof (sumZ_filter_le (fun b => bid_qty_at b p) (fun b => p <=? b_price b)
                (filter (fun b => N.eqb (b_bidder b) u) bs)) as H.
  assert (forall x, In x (filter (fun b => N.eqb (b_bidder b) u) bs) -> 0 <= bid_qty_at x p).
  { intros x Hx. apply filter_In in Hx. apply bid_qty_nonneg; [apply Ha, Hx|exact Hp]. }
  specialize (H ltac:(assumption)). lia.
Qed.

(* ------------------------------------------------------------------ *)
(* F. allocation bounds *)

Theorem batch_alloc_bounds a bs ids order al mi :
  book_wf bs al -> valid_order bs ids = Some order -> 0 <= a_sell_amt a ->
  calc_batch a bs order al = Some mi ->
  (forall u, 0 <= mi_alloc mi u <= cap_of al u) /\
  (forall u, mi_alloc mi u <= asked (mi_price mi) u bs) /\
  sumZ (map (mi_alloc mi) (bidders_of bs)) = mi_total mi /\
  0 <= mi_total mi <= a_sell_amt a.
Proof.
  intros WF VO Hs Hc. destruct (calc_batch_full a bs ids order al WF VO Hs) as (mi' & E & _ & H).
  rewrite Hc in E. inversion E; subst mi'. clear E.
  assert (Hamt : forall b, In b bs -> 0 <= b_amt b) by (intros b Hb; pose proof (wf_amt _ _ WF b Hb); lia).
  assert (Hcz : forall u, 0 <= cap_of al u) by (intros u; apply cap_of_nonneg, (wf_al_pos _ _ WF)).
  destruct (clearing_spec bs al (a_sell_amt a)) as [p|].
  - destruct H as (Hp & Hd & Ep & Et & _ & _ & Ha & _).
    assert (Hpp : 0 < p).
    { apply in_map_iff in Hp. destruct Hp as (b & <- & Hb). apply (wf_price _ _ WF b Hb). }
    split; [|split; [|split]].
    + intros u. rewrite Ha. apply demand_of_bounds; [exact Hamt|exact Hpp|apply Hcz].
    + intros u. rewrite Ha, Ep. apply demand_of_le_asked; assumption.
    + rewrite Et. unfold total_demand. apply sumZ_map_ext. intros u _. apply Ha.
    + lia.
  - destruct H as (Ep & Et & _ & Ha & _). split; [|split; [|split]].
    + intros u. rewrite Ha. specialize (Hcz u). lia.
    + intros u. rewrite Ha, Ep. apply asked_nonneg. intros b Hb. apply bid_qty_nonneg0; [|lia].
      apply Hamt. exact Hb.
    + rewrite Et. rewrite (sumZ_map_ext _ (fun _ => 0)) by (intros u _; apply Ha).
      clear. induction (bidders_of bs) as [|x l IH]; cbn [map]; rewrite ?sumZ_cons, ?sumZ_nil; lia.
    + lia.
Qed.

(* ------------------------------------------------------------------ *)
(* G. payments and refunds *)

(* the denominations of batch bids: worth bids are paid in the paying coin (amount = what is
   reserved), how-many bids name the selling coin *)
Definition denoms_wf (pd : N) (bs : list bid) : Prop :=
  forall b, In b bs -> (b_type b = BWorth /\ b_denom b = pd) \/ (b_type b = BMany /\ b_denom b <> pd).

Lemma pay_amount_nonneg pd b : 0 <= b_amt b -> 0 <= b_price b -> 0 <= pay_amount pd b.
Proof.
  intros Ha Hp. unfold pay_amount. destruct (N.eqb (b_denom b) pd); [exact Ha|].
  apply pay_of_qty_nonneg; assumption.
Qed.

(* a bid included at price p never pays more than its reservation *)
Lemma pay_le_reserved pd b p m :
  ((b_type b = BWorth /\ b_denom b = pd) \/ (b_type b = BMany /\ b_denom b <> pd)) ->
  0 < b_amt b -> 0 < p <= b_price b -> 0 <= m <= bid_qty_at b p ->
  pay_of_qty m p <= pay_amount pd b.
Proof.
  intros Hd Ha Hp Hm. unfold pay_amount. unfold bid_qty_at in Hm.
  destruct Hd as [[Ht Ed]|[Ht Nd]]; rewrite Ht in Hm.
  - rewrite Ed, N.eqb_refl.
    pose proof (pay_of_qty_mono m (qty_of_worth (b_amt b) p) p p ltac:(lia) ltac:(lia)).
    pose proof (worth_never_overpays (b_amt b) p ltac:(lia) ltac:(lia)). lia.
  - destruct (N.eqb_spec (b_denom b) pd) as [E|_]; [contradiction|].
    apply pay_of_qty_mono; lia.
Qed.

Lemma reserved_of_cons pd b l u :
  reserved_of pd (b :: l) u = (if N.eqb (b_bidder b) u then pay_amount pd b else 0) + reserved_of pd l u.
Proof.
  unfold reserved_of. cbn [filter]. destruct (N.eqb _ _); cbn [map]; rewrite ?sumZ_cons; lia.
Qed.

Lemma reserved_of_perm pd l l' u : Permutation l l' -> reserved_of pd l u = reserved_of pd l' u.
Proof. intros Pm. unfold reserved_of. apply sumZ_perm, Permutation_map, filter_perm. exact Pm. Qed.

Lemma reserved_of_nonneg pd l u :
  (forall b, In b l -> 0 <= pay_amount pd b) -> 0 <= reserved_of pd l u.
Proof.
  intros H. unfold reserved_of. apply sumZ_map_nonneg. intros b Hb. apply filter_In in Hb. apply H, Hb.
Qed.

Lemma reserved_of_filter_le pd g l u :
  (forall b, In b l -> 0 <= pay_amount pd b) -> reserved_of pd (filter g l) u <= reserved_of pd l u.
Proof.
  intros H. unfold reserved_of. rewrite filter_comm. apply sumZ_filter_le.
  intros b Hb. apply filter_In in Hb. apply H, Hb.
Qed.

Lemma paid_in_le_reserved p pd u asg :
  (forall x, In x asg -> pay_of_qty (snd x) p <= pay_amount pd (fst x)) ->
  paid_in p u asg <= reserved_of pd (map fst asg) u.
Proof.
  induction asg as [|x asg IH]; intros H.
  - unfold paid_in, reserved_of. cbn [of_bidder filter map]. rewrite sumZ_nil. lia.
  - cbn [map]. rewrite paid_in_cons, reserved_of_cons.
    pose proof (H x (or_introl eq_refl)). specialize (IH (fun y Hy => H y (or_intror Hy))).
    destruct (N.eqb (b_bidder (fst x)) u); lia.
Qed.

Lemma paid_in_nonneg p u asg :
  0 <= p -> (forall x, In x asg -> 0 <= snd x) -> 0 <= paid_in p u asg.
Proof.
  intros Hp H. unfold paid_in. apply sumZ_map_nonneg. intros x Hx. apply filter_In in Hx.
  apply pay_of_qty_nonneg; [apply H, Hx|exact Hp].
Qed.

(* number of bidder u's bids that received a positive amount *)
Definition nmatched (u : N) (asg : list (bid * Z)) : Z :=
  Z.of_nat (length (filter (fun x => 0 <? snd x) (of_bidder u asg))).

Lemma nmatched_cons u x asg :
  nmatched u (x :: asg) =
  (if N.eqb (b_bidder (fst x)) u then if 0 <? snd x then 1 else 0 else 0) + nmatched u asg.
Proof.
  unfold nmatched, of_bidder. cbn [filter]. destruct (N.eqb _ _); [|lia].
  cbn [filter]. destruct (0 <? snd x); [|lia]. cbn [length]. lia.
Qed.

(* the payment of a bidder is his allocation at the clearing price, rounded up once per matched bid *)
Lemma paid_in_bounds p u asg :
  0 <= p -> (forall x, In x asg -> 0 <= snd x) ->
  p * got u asg <= paid_in p u asg * P <= p * got u asg + nmatched u asg * (P - 1).
Proof.
  intros Hp. induction asg as [|x asg IH]; intros H.
  - unfold paid_in, got, nmatched. cbn [of_bidder filter map length]. rewrite sumZ_nil. lia.
  - rewrite paid_in_cons, got_cons, nmatched_cons.
    specialize (IH (fun y Hy => H y (or_intror Hy))).
    pose proof (pay_of_qty_tight (snd x) p (H x (or_introl eq_refl)) Hp) as T.
    destruct (N.eqb (b_bidder (fst x)) u); [|lia].
    destruct (0 <? snd x); lia.
Qed.

Lemma paid_in_zero p u asg :
  0 <= p -> (forall x, In x asg -> 0 <= snd x) -> got u asg = 0 -> paid_in p u asg = 0.
Proof.
  intros Hp H G. unfold paid_in. unfold got in G.
  assert (Z0 : forall x, In x (of_bidder u asg) -> snd x = 0).
  { apply sumZ_map_zero; [|exact G]. intros x Hx. apply filter_In in Hx. apply H, Hx. }
  rewrite (sumZ_map_ext _ (fun _ => 0)).
  - clear. induction (of_bidder u asg) as [|x l IH]; cbn [map]; rewrite ?sumZ_cons, ?sumZ_nil; lia.
  - intros x Hx. rewrite (Z0 x Hx). apply pay_of_qty_zero. exact Hp.
Qed.

(* facts about the assignment at a price p *)
Lemma batch_asg_facts bs al ids order p :
  book_wf bs al -> valid_order bs ids = Some order -> 0 < p ->
  let asg := batch_asg order al p in
  (forall x, In x asg -> In (fst x) bs /\ p <= b_price (fst x) /\ 0 <= snd x <= bid_qty_at (fst x) p) /\
  (forall u, got u asg = demand_of bs (cap_of al u) u p) /\
  map fst asg = filter (fun b => p <=? b_price b) order.
Proof.
  intros WF VO Hp asg. destruct (valid_order_spec bs ids order VO) as (Pm & _ & _ & _).
  set (l := filter (fun b => p <=? b_price b) order).
  assert (Hl : forall b, In b l -> In b bs /\ p <= b_price b).
  { intros b Hb. subst l. apply filter_In in Hb. destruct Hb as [Hb Hle]. apply Z.leb_le in Hle.
    split; [apply (Permutation_in _ Pm); exact Hb|exact Hle]. }
  assert (Hq : forall b, In b l -> 0 <= bid_qty_at b p).
  { intros b Hb. apply bid_qty_nonneg; [|exact Hp]. pose proof (wf_amt _ _ WF b (proj1 (Hl b Hb))). lia. }
  assert (Hcz : forall u, 0 <= cap_of al u) by (intros u; apply cap_of_nonneg, (wf_al_pos _ _ WF)).
  assert (Efst : map fst asg = l) by apply assign_fst.
  split; [|split; [|exact Efst]].
  - intros x Hx. assert (Hf : In (fst x) l) by (rewrite <- Efst; apply in_map; exact Hx).
    destruct (Hl _ Hf) as [H1 H2]. split; [exact H1|]. split; [exact H2|].
    apply (assign_bounds p l (cap_of al) Hq (fun b _ => Hcz _) x Hx).
  - intros u. subst asg. unfold batch_asg. fold l. rewrite assign_got; [|exact Hq|apply Hcz].
    apply demand_of_asked. exact Pm.
Qed.

(* number of bidder u's bids in the book whose id is among the matched ids *)
Definition matched_count (bs : list bid) (matched : list N) (u : N) : Z :=
  Z.of_nat (length (filter (fun b => N.eqb (b_bidder b) u && existsb (N.eqb (b_id b)) matched) bs)).

Lemma map_fst_filter {B} (f : bid -> bool) (l : list (bid * B)) :
  map fst (filter (fun x => f (fst x)) l) = filter f (map fst l).
Proof.
  induction l as [|x l IH]; cbn [filter map]; [reflexivity|].
  destruct (f (fst x)); cbn [map]; rewrite IH; reflexivity.
Qed.

Lemma NoDup_map_filter {A B} (f : A -> B) (g : A -> bool) l :
  NoDup (map f l) -> NoDup (map f (filter g l)).
Proof.
  induction l as [|a l IH]; intros ND; cbn [filter map]; [constructor|].
  cbn [map] in ND. inversion ND as [|? ? Hna ND']; subst. specialize (IH ND').
  destruct (g a); [|exact IH]. cbn [map]. constructor; [|exact IH].
  intros Hin. apply Hna. apply in_map_iff in Hin. destruct Hin as (y & Ey & Hy).
  apply filter_In in Hy. rewrite <- Ey. apply in_map. apply Hy.
Qed.

Lemma nmatched_count bs al ids order p u :
  book_wf bs al -> valid_order bs ids = Some order -> 0 < p ->
  nmatched u (batch_asg order al p) = matched_count bs (matched_ids (batch_asg order al p)) u.
Proof.
  intros WF VO Hp.
  destruct (batch_asg_facts bs al ids order p WF VO Hp) as (A1 & _ & A3). cbv zeta in A1, A3.
  destruct (valid_order_spec bs ids order VO) as (Pm & _ & _ & _).
  destruct (valid_order_ids_nodup bs ids order VO) as (NDbs & NDo).
  set (asg := batch_asg order al p) in *.
  set (M := map fst (filter (fun x => 0 <? snd x) asg)).
  assert (EM : matched_ids asg = map b_id M).
  { unfold matched_ids. subst M. rewrite map_map. reflexivity. }
  assert (HMbs : forall x, In x M -> In x bs).
  { intros x Hx. subst M. apply in_map_iff in Hx. destruct Hx as (y & <- & Hy).
    apply filter_In in Hy. apply (A1 y), Hy. }
  assert (NDM : NoDup M).
  { subst M. apply NoDup_map_filter. rewrite A3. apply NoDup_filter. apply (NoDup_map_inv b_id). exact NDo. }
  assert (PmM : Permutation M (filter (fun b => existsb (N.eqb (b_id b)) (map b_id M)) bs)).
  { apply NoDup_Permutation; [exact NDM|apply NoDup_filter, (NoDup_map_inv b_id); exact NDbs|].
    intros x. rewrite filter_In, existsb_exists. split.
    - intros Hx. split; [apply HMbs; exact Hx|]. exists (b_id x). split; [apply in_map; exact Hx|apply N.eqb_refl].
    - intros (Hx & i & Hi & Ei). apply N.eqb_eq in Ei. apply in_map_iff in Hi. destruct Hi as (y & Ey & Hy).
      assert (x = y); [|subst; exact Hy].
      apply (nodup_key_inj b_id bs x y NDbs Hx (HMbs y Hy)). congruence. }
  unfold nmatched, matched_count. f_equal. rewrite EM.
  unfold of_bidder. rewrite filter_comm.
  rewrite <- (map_length fst).
  rewrite (map_fst_filter (fun b => N.eqb (b_bidder b) u) (filter (fun x => 0 <? snd x) asg)). fold M.
  rewrite (Permutation_length (filter_perm (fun b => N.eqb (b_bidder b) u) _ _ PmM)).
  rewrite filter_filter. f_equal. apply filter_ext_in'. intros x _. apply andb_comm.
Qed.

Theorem batch_refund_facts a bs ids order al mi :
  book_wf bs al -> valid_order bs ids = Some order -> 0 <= a_sell_amt a ->
  denoms_wf (a_pay_denom a) bs ->
  calc_batch a bs order al = Some mi ->
  let pd := a_pay_denom a in
  let paid := fun u => reserved_of pd bs u - mi_refund mi u in
  (* the refund is never negative and never more than what was reserved *)
  (forall u, 0 <= mi_refund mi u <= reserved_of pd bs u) /\
  (* nothing allocated: everything is refunded *)
  (forall u, mi_alloc mi u = 0 -> mi_refund mi u = reserved_of pd bs u) /\
  (* what is paid is the allocation at the clearing price, rounded up once per matched bid *)
  (forall u, mi_price mi * mi_alloc mi u <= paid u * P <=
             mi_price mi * mi_alloc mi u + matched_count bs (mi_matched mi) u * (P - 1)) /\
  (* every matched bid is a bid of the book priced at or above the clearing price *)
  (forall i, In i (mi_matched mi) -> exists b, In b bs /\ b_id b = i /\ mi_price mi <= b_price b).
Proof.
  intros WF VO Hs DW Hc pd paid. destruct (calc_batch_full a bs ids order al WF VO Hs) as (mi' & E & _ & H).
  rewrite Hc in E. inversion E; subst mi'. clear E. fold pd in H.
  destruct (valid_order_spec bs ids order VO) as (Pm & _ & _ & _).
  assert (Hpa : forall l, (forall b, In b l -> In b bs) -> forall b, In b l -> 0 <= pay_amount pd b).
  { intros l Hl b Hb. apply pay_amount_nonneg.
    - pose proof (wf_amt _ _ WF b (Hl b Hb)). lia.
    - pose proof (wf_price _ _ WF b (Hl b Hb)). lia. }
  assert (Hres : forall u, 0 <= reserved_of pd bs u).
  { intros u. apply reserved_of_nonneg. apply (Hpa bs). intros b Hb. exact Hb. }
  destruct (clearing_spec bs al (a_sell_amt a)) as [p|].
  - destruct H as (Hp & Hd & Ep & Et & Em & Hne & Ha & Hr).
    assert (Hpp : 0 < p).
    { apply in_map_iff in Hp. destruct Hp as (b & <- & Hb). apply (wf_price _ _ WF b Hb). }
    destruct (batch_asg_facts bs al ids order p WF VO Hpp) as (A1 & A2 & A3). cbv zeta in A1, A2, A3.
    pose proof (fun u => nmatched_count bs al ids order p u WF VO Hpp) as Hk.
    set (asg := batch_asg order al p) in *.
    assert (Hsn : forall x, In x asg -> 0 <= snd x) by (intros x Hx; apply (A1 x Hx)).
    assert (Hpaid_le : forall u, paid_in p u asg <= reserved_of pd bs u).
    { intros u.
      assert (L1 : paid_in p u asg <= reserved_of pd (map fst asg) u).
      { apply paid_in_le_reserved. intros x Hx. destruct (A1 x Hx) as (Hb & Hle & Hm).
        apply pay_le_reserved; [apply DW; exact Hb|apply (wf_amt _ _ WF); exact Hb|lia|exact Hm]. }
      rewrite A3 in L1.
      assert (L2 : reserved_of pd (filter (fun b => p <=? b_price b) order) u <= reserved_of pd order u).
      { apply reserved_of_filter_le. apply (Hpa order). intros b Hb. apply (Permutation_in _ Pm). exact Hb. }
      rewrite (reserved_of_perm pd order bs u Pm) in L2. lia. }
    assert (Hpaid_nn : forall u, 0 <= paid_in p u asg) by (intros u; apply paid_in_nonneg; [lia|exact Hsn]).
    split; [|split; [|split]].
    + intros u. rewrite Hr. specialize (Hpaid_le u). specialize (Hpaid_nn u). lia.
    + intros u Hz. rewrite Hr. rewrite Ha, <- A2 in Hz.
      rewrite (paid_in_zero p u asg ltac:(lia) Hsn Hz). lia.
    + intros u. subst paid. cbv beta. rewrite Hr, Ep, Ha, <- A2, Em, <- Hk.
      replace (reserved_of pd bs u - (reserved_of pd bs u - paid_in p u asg)) with (paid_in p u asg) by lia.
      apply (paid_in_bounds p u asg ltac:(lia) Hsn).
    + intros i Hi. rewrite Em in Hi. unfold matched_ids in Hi. apply in_map_iff in Hi.
      destruct Hi as (x & <- & Hx). apply filter_In in Hx. destruct Hx as [Hx _].
      destruct (A1 x Hx) as (Hb & Hle & _). exists (fst x). rewrite Ep. repeat split; assumption.
  - destruct H as (Ep & Et & Em & Ha & Hr). split; [|split; [|split]].
    + intros u. rewrite Hr. specialize (Hres u). lia.
    + intros u _. apply Hr.
    + intros u. subst paid. cbv beta. rewrite Hr, Ep, Ha, Em.
      assert (K : matched_count bs [] u = 0).
      { unfold matched_count. cbn [existsb].
        rewrite (filter_ext_in' _ (fun _ => false) bs) by (intros; apply andb_false_r).
        clear. induction bs as [|b bs IH]; [reflexivity|exact IH]. }
      rewrite K. lia.
    + intros i Hi. rewrite Em in Hi. destruct Hi.
Qed.

(* the strict form of the upper bound, for a bidder with at least one matched bid
   (for a bidder without matched bids both sides are 0, so the strict form is false there) *)
Corollary batch_paid_strict a bs ids order al mi :
  book_wf bs al -> valid_order bs ids = Some order -> 0 <= a_sell_amt a ->
  denoms_wf (a_pay_denom a) bs ->
  calc_batch a bs order al = Some mi ->
  forall u, 0 < matched_count bs (mi_matched mi) u ->
    (reserved_of (a_pay_denom a) bs u - mi_refund mi u) * P <
    mi_price mi * mi_alloc mi u + matched_count bs (mi_matched mi) u * P.
Proof.
  intros WF VO Hs DW Hc u Hk.
  destruct (batch_refund_facts a bs ids order al mi WF VO Hs DW Hc) as (_ & _ & H & _).
  cbv zeta in H. specialize (H u). lia.
Qed.

(* the matched ids are pairwise distinct ids of bids of the book *)
Theorem batch_matched_ids a bs ids order al mi :
  book_wf bs al -> valid_order bs ids = Some order -> 0 <= a_sell_amt a ->
  calc_batch a bs order al = Some mi ->
  NoDup (mi_matched mi) /\ incl (mi_matched mi) (map b_id bs).
Proof.
  intros WF VO Hs Hc. destruct (calc_batch_full a bs ids order al WF VO Hs) as (mi' & E & _ & H).
  rewrite Hc in E. inversion E; subst mi'. clear E.
  destruct (valid_order_ids_nodup bs ids order VO) as (_ & NDo).
  destruct (clearing_spec bs al (a_sell_amt a)) as [p|].
  - destruct H as (Hp & _ & _ & _ & Em & _).
    assert (Hpp : 0 < p).
    { apply in_map_iff in Hp. destruct Hp as (b & <- & Hb). apply (wf_price _ _ WF b Hb). }
    destruct (batch_asg_facts bs al ids order p WF VO Hpp) as (A1 & _ & A3). cbv zeta in A1, A3.
    rewrite Em. unfold matched_ids. split.
    + apply (NoDup_map_filter (fun x : bid * Z => b_id (fst x))).
      rewrite <- (map_map fst b_id), A3. apply NoDup_map_filter. exact NDo.
    + intros i Hi. apply in_map_iff in Hi. destruct Hi as (x & <- & Hx). apply filter_In in Hx.
      apply in_map. apply (A1 x), Hx.
  - destruct H as (_ & _ & Em & _). rewrite Em. split; [constructor|intros i []].
Qed.
