(* A short concrete history for the Examples of C01: a fixed price auction with one vesting instalment,
   one allow-listed bidder, one bid, a third-party deposit into the paying escrow, the closing block and the
   releasing block. *)
From Coq Require Import ZArith NArith List Bool Arith Lia.
From FR Require Import Dec Types Bank Match Step Genesis Model Spec.
From FR.Proofs Require Import InvDefs ExcessDefs ExcessAll.
Import ListNotations.
Open Scope Z_scope.

Definition c01_bal : addr -> N -> Z := fun a _ => match a with User _ => 1000000 | _ => 0 end.
Definition c01_params : params := {| p_cfee := [(0%N, 10)]; p_bfee := [(0%N, 1)]; p_period := 1 |}.
Definition c01_init : state := init_state c01_bal 100 true c01_params.

Definition c01_coin (d : N) (a : Z) : mcoin := {| mc_denom := Some d; mc_amt := Some a |}.
(* auction 0: sells 1000 of denom 1 for denom 2 at price 1, started, ends at 200, proceeds vest at 400 *)
Definition c01_create : op :=
  OTx (MCreateFixed (AGood false 0) (Some P) (c01_coin 1 1000) (Some 2%N)
         [{| ms_time := 400; ms_weight := Some P |}] 50 200).
Definition c01_allow : op := OTx (MAddAllowed 0 0 (AGood false 2) (Some 100)).
Definition c01_bid : op := OTx (MPlaceBid (AGood false 2) 0 1 (Some P) (c01_coin 2 50)).
Definition c01_gift : op := OSend 3 (Escrow Paying 0) 2 7.
Definition c01_close : op := OBlock 250 [].
Definition c01_release : op := OBlock 450 [].

Definition c01_hist1 : list op := [c01_create; c01_allow; c01_bid].
Definition c01_hist2 : list op := [c01_create; c01_allow; c01_bid; c01_close].
Definition c01_hist3 : list op := [c01_create; c01_allow; c01_bid; c01_gift].
Definition c01_hist4 : list op := [c01_create; c01_allow; c01_bid; c01_gift; c01_close].
Definition c01_hist5 : list op := [c01_create; c01_allow; c01_bid; c01_gift; c01_close; c01_release].

(* balance and owed amount of the three escrows of auction 0 in the denominations 1 and 2 *)
Definition c01_view (s : state) : list (Z * Z) :=
  flat_map (fun r => map (fun d => (st_bal s (Escrow r 0) d, owed s r 0 d)) [1%N; 2%N]) [Selling; Paying; Vesting].
